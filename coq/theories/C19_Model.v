(* C19: match expressions (pkg/apis/resmgr/v1alpha1/expression.go), affinity weight clamp
   (pkg/resmgr/cache/affinity.go) and balloon-type selection
   (cmd/plugins/balloons/policy/balloons-policy.go).
   Executable model + correspondence checkers only -- no proofs in this file.

   Strings are Coq [string]s = lists of bytes, which is what Go's indexing, strings.Cut,
   strings.Split (1-byte separator), strings.TrimLeft and == operate on. *)
From Coq Require Import ZArith NArith List Bool String Ascii.
From NV Require Import Gen.Gen_Affinity.
Import ListNotations.
Open Scope string_scope.

(* ------------------------------------------------------------------ string helpers *)

Definition is_empty (s : string) : bool := match s with EmptyString => true | _ => false end.

(* strings.Cut(s, sep) for a one-byte separator: (before, after); (s, "") when absent *)
Fixpoint cut_at (sep : ascii) (s : string) : string * string :=
  match s with
  | EmptyString => (EmptyString, EmptyString)
  | String c s' => if Ascii.eqb c sep then (EmptyString, s')
                   else let (a, b) := cut_at sep s' in (String c a, b)
  end.

(* strings.TrimLeft(s, string(c)) *)
Fixpoint trim_left (c : ascii) (s : string) : string :=
  match s with
  | String c' s' => if Ascii.eqb c' c then trim_left c s' else s
  | EmptyString => s
  end.

(* strings.Split(s, string(sep)) *)
Fixpoint split_on (sep : ascii) (s : string) : list string :=
  match s with
  | EmptyString => [EmptyString]
  | String c s' => if Ascii.eqb c sep then EmptyString :: split_on sep s'
                   else match split_on sep s' with
                        | h :: t => String c h :: t
                        | [] => [String c EmptyString]
                        end
  end.

(* strings.Join(l, sep) *)
Fixpoint join (sep : string) (l : list string) : string :=
  match l with
  | [] => ""
  | x :: t => match t with [] => x | _ => x ++ sep ++ join sep t end
  end.

Fixpoint contains_char (c : ascii) (s : string) : bool :=
  match s with EmptyString => false | String d s' => Ascii.eqb d c || contains_char c s' end.

Fixpoint lookup (k : string) (m : list (string * string)) : option string :=
  match m with
  | [] => None
  | (k', v) :: t => if String.eqb k' k then Some v else lookup k t
  end.

(* ------------------------------------------------------------------ expressions *)

Inductive op :=
| Equals | NotEqual | In | NotIn | Exists | NotExist | AlwaysTrue
| Matches | MatchesNot | MatchesAny | MatchesNone
| OpUnknown (s : string).

Record expr := Expr { e_key : string; e_op : op; e_vals : list string }.

(* What EvalKey can hand back (an interface{} in Go): a string, a map[string]string, another
   Evaluable, an error, or anything else (nil, a named string type, a number ...). *)
Inductive value :=
| VStr (s : string)
| VMap (m : list (string * string))
| VObj (f : string -> value)
| VErr
| VOther.

Definition subject := string -> value.

(* association-list objects, used to print concrete subjects *)
Fixpoint obj_of (fields : list (string * value)) (dflt : value) (k : string) : value :=
  match fields with
  | [] => dflt
  | (k', v) :: t => if String.eqb k' k then v else obj_of t dflt k
  end.

(* validSeparator *)
Definition valid_separator (b : ascii) : bool :=
  let n := nat_of_ascii b in
  negb (((48 <=? n) && (n <=? 57)) || ((97 <=? n) && (n <=? 122)) || ((65 <=? n) && (n <=? 90))
        || (n =? 47) || (n =? 46))%nat.

(* splitKeys: (keys, value separator) *)
Definition split_keys (keys : string) : list string * string :=
  match keys with
  | String c0 (String k (String v (String c3 rest as r2)) as r1) =>
      if Ascii.eqb c0 ":" then
        if valid_separator k && valid_separator v then (split_on k r2, String v "")
        else (split_on ":" r1, ":")
      else ([keys], "")
  | _ => ([keys], "")
  end.

(* the final obj.(string) assertion of ResolveRef *)
Definition final (o : value) : option string := match o with VStr s => Some s | _ => None end.

(* the loop of ResolveRef; [Some s] = (s, true), [None] = ("", false) (the error is dropped
   by every caller) *)
Fixpoint walk (obj : value) (key : string) : option string :=
  match obj with
  | VObj f => if is_empty (snd (cut_at "/" key)) then final (f (fst (cut_at "/" key)))
              else walk (f (fst (cut_at "/" key))) (snd (cut_at "/" key))
  | VMap m => lookup key m
  | VStr _ | VErr | VOther => None
  end.

(* validateKey on one (already left-trimmed) sub-key; [acc] is the segment read so far *)
Definition key_class (pref : string) : nat :=
  if (pref =? "id") || (pref =? "uid") || (pref =? "name") || (pref =? "namespace") || (pref =? "qosclass") then 1
  else if pref =? "pod" then 2
  else if (pref =? "labels") || (pref =? "tags") then 3
  else 0.

Fixpoint vscan (acc : string) (s : string) : bool :=
  match s with
  | EmptyString => (* prefKey = acc, restKey = "" *)
      match key_class acc with 1%nat => true | _ => false end
  | String c s' =>
      if Ascii.eqb c "/" then (* prefKey = acc, restKey = s' *)
        match key_class acc with
        | 1%nat => is_empty s'
        | 2%nat => if is_empty s' then false else vscan "" s'
        | 3%nat => negb (is_empty s')
        | _ => false
        end
      else vscan (acc ++ String c "") s'
  end.

Definition validate_key (key : string) : bool :=
  forallb (fun k => vscan "" (trim_left "/" k)) (fst (split_keys key)).

Definition len1 (l : list string) : bool := match l with [_] => true | _ => false end.
Definition len0 (l : list string) : bool := match l with [] => true | _ => false end.

(* Expression.Validate: true = nil error *)
Definition validate (e : expr) : bool :=
  validate_key (e_key e) &&
  match e_op e with
  | Equals | NotEqual | Matches | MatchesNot => len1 (e_vals e)
  | Exists | NotExist | AlwaysTrue => len0 (e_vals e)
  | In | NotIn | MatchesAny | MatchesNone => true
  | OpUnknown _ => false
  end.

(* balloon types, restricted to what selection reads *)
Record bdef := BDef { d_name : string; d_match : list expr; d_ns : list string }.
(* o_reserved_ns = None: reservedPoolNamespaces absent (nil) *)
Record bopts := BOpts { o_defs : list bdef; o_reserved_ns : option (list string) }.
Inductive choice := ChErr | ChPanic | ChDef (d : bdef).

Section WithStdlib.
  (* filepath.Match: (matched, err <> nil);  path.Clean *)
  Context (glob : string -> string -> bool * bool) (clean : string -> string).

  Definition gmatch (pattern name : string) : bool := fst (glob pattern name).

  (* ResolveRef *)
  Definition resolve_ref (s : subject) (spec : string) : option string := walk (VObj s) (clean spec).

  Definition dflt_str (o : option string) : string := match o with Some v => v | None => "" end.
  Definition is_some (o : option string) : bool := match o with Some _ => true | None => false end.

  (* KeyValue *)
  Definition key_value (key : string) (s : subject) : string * bool :=
    match split_keys key with
    | ([k], _) => match resolve_ref s k with Some v => (v, true) | None => ("", false) end
    | (keys, vsep) =>
        let rs := map (resolve_ref s) keys in
        (join vsep (map dflt_str rs), existsb is_some rs)
    end.

  (* the In/NotIn loop (no break) *)
  Definition in_loop (value : string) (vals : list string) : bool :=
    fold_left (fun r v => if (value =? v) || (v =? "*") then true else r) vals false.

  (* Expression.Evaluate; None = run-time panic (index out of range on e.Values[0]) *)
  Definition evaluate (e : expr) (s : subject) : option bool :=
    match e_op e with
    | AlwaysTrue => Some true
    | o =>
      let (value, ok) := key_value (e_key e) s in
      match o with
      | Equals => if ok then match e_vals e with v0 :: _ => Some ((value =? v0) || (v0 =? "*")) | [] => None end
                  else Some false
      | NotEqual => if ok then match e_vals e with v0 :: _ => Some (negb (value =? v0)) | [] => None end
                    else Some true
      | Matches => if ok then match e_vals e with v0 :: _ => Some (gmatch v0 value) | [] => None end
                   else Some false
      | MatchesNot => if ok then match e_vals e with v0 :: _ => Some (negb (gmatch v0 value)) | [] => None end
                      else Some true
      | In => Some (if ok then in_loop value (e_vals e) else false)
      | NotIn => Some (negb (if ok then in_loop value (e_vals e) else false))
      | MatchesAny => Some (if ok then existsb (fun p => gmatch p value) (e_vals e) else false)
      | MatchesNone => Some (negb (if ok then existsb (fun p => gmatch p value) (e_vals e) else false))
      | Exists => Some ok
      | NotExist => Some (negb ok)
      | AlwaysTrue => Some true
      | OpUnknown _ => Some false
      end
    end.

  (* -------------------------------------------------------------- balloon types *)

  (* namespaceMatches *)
  Definition namespace_matches (ns : string) (patterns : list string) : bool :=
    existsb (fun p => negb (snd (glob p ns)) && fst (glob p ns)) patterns.

  (* for _, expr := range MatchExpressions { if expr.Evaluate(c) { return } } *)
  Fixpoint any_expr (es : list expr) (s : subject) : option bool :=
    match es with
    | [] => Some false
    | e :: t => match evaluate e s with
                | None => None
                | Some true => Some true
                | Some false => any_expr t s
                end
    end.

  Fixpoint choose_in (defs : list bdef) (dflt : bdef) (s : subject) (ns : string) : choice :=
    match defs with
    | [] => ChDef dflt
    | d :: t => match any_expr (d_match d) s with
                | None => ChPanic
                | Some true => ChDef d
                | Some false => if namespace_matches ns (d_ns d) then ChDef d else choose_in t dflt s ns
                end
    end.

  (* chooseBalloonDef; [ann] is the effective balloon annotation of the container *)
  Definition choose (defs : list bdef) (dflt : bdef) (ann : option string) (s : subject) (ns : string) : choice :=
    match ann with
    | Some n => match find (fun d => d_name d =? n) defs with Some d => ChDef d | None => ChErr end
    | None => choose_in defs dflt s ns
    end.
End WithStdlib.

(* pod.GetEffectiveAnnotation(key, container) *)
Definition eff_annotation (anns : list (string * string)) (key cname : string) : option string :=
  match lookup (key ++ "/container." ++ cname) anns with
  | Some v => Some v
  | None => match lookup (key ++ "/pod") anns with
            | Some v => Some v
            | None => lookup key anns
            end
  end.

(* balloonKey = "balloon." + PolicyName + "." + kubernetes.ResmgrKeyNamespace *)
Definition balloon_key : string := "balloon.balloons.resource-policy.nri.io".
Definition reserved_name : string := "reserved".
Definition default_name : string := "default".
Definition kube_system : string := "kube-system".

Fixpoint has_dup (l : list string) : bool :=
  match l with [] => false | x :: t => existsb (String.eqb x) t || has_dup t end.

(* Config.Validate (every match expression of every type validates; the agent rejects the
   configuration otherwise), setOmittedDefaults (absent reservedPoolNamespaces -> [kube-system]),
   fillBuiltinBalloonDefs and the name checks of validateConfig, restricted to what selection
   reads (name, matchExpressions, namespaces).  None = configuration rejected.
   The code appends the namespaces to the *last* type named "reserved"; types with duplicate
   names are rejected right after, so appending to every such type is indistinguishable. *)
Definition reserved_ns_of (o : bopts) : list string :=
  match o_reserved_ns o with Some l => l | None => [kube_system] end.

Definition fill_builtin (o : bopts) : list bdef :=
  let defs := o_defs o in
  let has n := existsb (fun d => d_name d =? n) defs in
  let defs1 := if has reserved_name then defs else BDef reserved_name [] [] :: defs in
  let defs2 := if has default_name then defs1 else (defs1 ++ [BDef default_name [] []])%list in
  map (fun d => if d_name d =? reserved_name
                then BDef (d_name d) (d_match d) (d_ns d ++ kube_system :: reserved_ns_of o)%list
                else d) defs2.

Definition eff_config (o : bopts) : option (list bdef * bdef) :=
  if negb (forallb (fun d => forallb validate (d_match d)) (o_defs o)) then None else
  let defs3 := fill_builtin o in
  if existsb (fun d => is_empty (d_name d)) defs3 || has_dup (map d_name defs3) then None
  else match find (fun d => d_name d =? default_name) defs3 with
       | Some d => Some (defs3, d)
       | None => None
       end.

(* ------------------------------------------------------------------ affinity weights *)
Open Scope Z_scope.

Definition wrap32 (z : Z) : Z := ((z + 2^31) mod 2^32) - 2^31.

(* Affinity.Validate *)
Definition clamp_weight (w : Z) : Z :=
  if w >? AFF_UserWeightCutoff then AFF_UserWeightCutoff
  else if w <? - AFF_UserWeightCutoff then - AFF_UserWeightCutoff else w.

(* parseFull: [dflt] is +-DefaultWeight (negative for the anti-affinity annotation), [w] the
   int32 weight of the parsed entry *)
Definition full_weight (dflt w : Z) : Z :=
  clamp_weight (if w =? 0 then dflt else if dflt <? 0 then wrap32 (w * -1) else w).

Close Scope Z_scope.

(* ------------------------------------------------------------------ Gallina stand-ins for the
   standard library functions, for the fragment the generator emits (ASCII only):
   filepath.Match with literal bytes, '*' and '?' (no '[' and no '\'), path.Clean in full. *)

Fixpoint match_chunk (chunk s : string) : option string :=
  match chunk with
  | EmptyString => Some s
  | String c chunk' =>
      match s with
      | EmptyString => None
      | String d s' =>
          if Ascii.eqb c "?" then (if Ascii.eqb d "/" then None else match_chunk chunk' s')
          else if Ascii.eqb c d then match_chunk chunk' s' else None
      end
  end.

(* the chunks scanChunk produces: (star, chunk) *)
Definition chunks_of (pattern : string) : list (bool * string) :=
  match split_on "*" pattern with
  | [] => []
  | p0 :: ps =>
      ((if is_empty p0 then [] else [(false, p0)]) ++
       map (fun p => (true, p)) (filter (fun p => negb (is_empty p)) ps) ++
       (match rev ps with last :: _ => if is_empty last then [(true, "")] else [] | [] => [] end))%list
  end.

Fixpoint scan_star (chunk : string) (is_last : bool) (k : string -> bool) (name : string) : bool :=
  match name with
  | EmptyString => false
  | String c name' =>
      if Ascii.eqb c "/" then false else
      match match_chunk chunk name' with
      | Some t => if is_last && negb (is_empty t) then scan_star chunk is_last k name' else k t
      | None => scan_star chunk is_last k name'
      end
  end.

Fixpoint match_loop (chunks : list (bool * string)) (name : string) : bool :=
  match chunks with
  | [] => is_empty name
  | (star, chunk) :: rest =>
      if star && is_empty chunk then negb (contains_char "/" name) else
      let is_last := match rest with [] => true | _ => false end in
      let fallthrough := if star then scan_star chunk is_last (match_loop rest) name else false in
      match match_chunk chunk name with
      | Some t => if is_empty t || negb is_last then match_loop rest t else fallthrough
      | None => fallthrough
      end
  end.

Definition glob_impl (pattern name : string) : bool * bool := (match_loop (chunks_of pattern) name, false).
Definition glob_supported (pattern : string) : bool := negb (contains_char "[" pattern || contains_char "\" pattern).

Definition clean_impl (p : string) : string :=
  let rooted := match p with String c _ => Ascii.eqb c "/" | _ => false end in
  let step (st : list string) (seg : string) :=
    if is_empty seg || (seg =? ".") then st
    else if seg =? ".." then
      match st with
      | top :: r => if top =? ".." then seg :: st else r
      | [] => if rooted then [] else [seg]
      end
    else seg :: st in
  let body := join "/" (rev (fold_left step (split_on "/" p) [])) in
  let r := if rooted then "/" ++ body else body in
  if is_empty r then "." else r.

(* ------------------------------------------------------------------ correspondence checkers *)

Definition eval_impl := evaluate glob_impl clean_impl.
Definition key_value_impl := key_value clean_impl.

Definition ob_eqb (a b : option bool) : bool :=
  match a, b with
  | None, None => true
  | Some x, Some y => Bool.eqb x y
  | _, _ => false
  end.

(* one observation of the real Validate / Evaluate / KeyValue:
   (case id, expression, subject, Validate()==nil, Evaluate (None = panicked), KeyValue) *)
Record ecase := ECase { c_id : N; c_expr : expr; c_subj : subject;
                        c_valid : bool; c_eval : option bool; c_kv : string * bool }.

Definition ecase_ok (c : ecase) : bool :=
  Bool.eqb (validate (c_expr c)) (c_valid c) &&
  ob_eqb (eval_impl (c_expr c) (c_subj c)) (c_eval c) &&
  (let kv := key_value_impl (e_key (c_expr c)) (c_subj c) in
   (fst kv =? fst (c_kv c)) && Bool.eqb (snd kv) (snd (c_kv c))).

Definition e_mismatches (cs : list ecase) : list N :=
  map c_id (filter (fun c => negb (ecase_ok c)) cs).

(* affinity weights: (id, negative default?, parsed weight, observed weight) *)
Definition w_mismatches (cs : list (N * bool * Z * Z)) : list N :=
  map (fun c : N * bool * Z * Z => fst (fst (fst c)))
      (filter (fun c : N * bool * Z * Z =>
                 let anti := snd (fst (fst c)) in
                 let w := snd (fst c) in
                 let obs := snd c in
                 negb (Z.eqb (full_weight (if anti then Z.opp AFF_DefaultWeight else AFF_DefaultWeight) w) obs)) cs).

(* balloon choice.  Observed: "" = error, otherwise the chosen type's name ("!" = panic);
   [b_cfg_ok] = the real policy accepted the configuration. *)
Record bcase := BCase { b_id : N; b_opts : bopts; b_anns : list (string * string); b_cname : string;
                        b_subj : subject; b_ns : string; b_cfg_ok : bool; b_obs : string }.

Definition choice_name (c : choice) : string :=
  match c with ChErr => "" | ChPanic => "!" | ChDef d => d_name d end.

Definition bcase_ok (c : bcase) : bool :=
  match eff_config (b_opts c) with
  | None => negb (b_cfg_ok c)
  | Some (defs, dflt) =>
      b_cfg_ok c &&
      (choice_name (choose glob_impl clean_impl defs dflt (eff_annotation (b_anns c) balloon_key (b_cname c))
                           (b_subj c) (b_ns c)) =? b_obs c)
  end.

Definition b_mismatches (cs : list bcase) : list N :=
  map b_id (filter (fun c => negb (bcase_ok c)) cs).
