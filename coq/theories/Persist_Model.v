(* C11 (and C10): when is the persisted cache in line with the live one?
   The cache file is rewritten by Save(); Save() is called when pods/containers are inserted or
   deleted, when the topology-aware policy stores its allocations, and -- since the repair of the
   stale-save defect -- at the end of getPendingUpdates, i.e. after the policy's decisions have been
   written to the cached containers and flushed to the runtime.
   Marks only: [stale] = containers whose record in the cache file differs from the live cache.
   Model only -- no proofs here. *)
From Coq Require Import List Bool.
From stdpp Require Import gmap sets.
Import ListNotations.

Inductive pcall :=
| PWrite (c : nat)      (* any Set* on container c *)
| PSave.                (* cache.Save() *)

Definition pstep (s : gset nat) (k : pcall) : gset nat :=
  match k with PWrite c => s ∪ {[c]} | PSave => ∅ end.
Definition prun (s : gset nat) (ks : list pcall) : gset nat := fold_left pstep ks s.

(* one request: the calls the handler makes, in order; [flushes] = the handler ends with
   getPendingUpdates (CreateContainer, UpdateContainer, StopContainer, Synchronize, reconfigure) *)
Record preq := { p_calls : list pcall; p_flushes : bool }.

(* [saves] = getPendingUpdates ends with Save() (extracted from the source by flush2coq) *)
Definition pexec (saves : bool) (s : gset nat) (r : preq) : gset nat :=
  let s1 := prun s (p_calls r) in
  if p_flushes r && saves then ∅ else s1.

Definition has_write (ks : list pcall) : bool := existsb (fun k => match k with PWrite _ => true | PSave => false end) ks.
(* guard: a request that does not flush makes no writes (the same guard as C05's; K5) *)
Definition preq_guard (r : preq) : bool := p_flushes r || negb (has_write (p_calls r)).

(* ---- correspondence: the stale set predicted from the observed calls must cover the stale set
   observed by comparing the cache file with the live cache after every request ---- *)
Fixpoint pcheck (saves : bool) (s : gset nat) (i : nat) (tr : list (preq * list nat)) : option nat :=
  match tr with
  | [] => None
  | (r, obs) :: tr' =>
    let s' := pexec saves s r in
    if negb (bool_decide ((list_to_set obs : gset nat) ⊆ s')) then Some i else pcheck saves s' (S i) tr'
  end.
