(* C12 -- opt-outs are honoured.  Property theorems only (decision tables of Optout_Model, which the
   check compares with the Set* calls observed in every request of every history). *)
From Coq Require Import Bool.
From NV Require Import Optout_Model.

(* a container opted out of CPU pinning (cpu.preserve, or pinCPU off) is never written a cpuset,
   neither when its own allocation is applied nor when shared sets are rebalanced *)
Theorem C12_ta_cpu_optout : forall i, ti_cpu_preserve i = true \/ ti_pin_cpu i = false ->
  ta_sets_cpus i = false /\ ta_update_shared_sets_cpus i = false.
Proof. intros i [H|H]; unfold ta_sets_cpus, ta_update_shared_sets_cpus; rewrite H; [rewrite andb_false_r|]; auto. Qed.
Print Assumptions C12_ta_cpu_optout.

(* a memory-preserved container is never written memory nodes when its allocation is applied *)
Theorem C12_ta_mem_optout : forall i, ti_mem_preserve i = true -> ta_sets_mems i = false.
Proof. intros i H. unfold ta_sets_mems. rewrite H. reflexivity. Qed.
Print Assumptions C12_ta_mem_optout.

Theorem C12_bln_cpu_optout : forall i, bi_pin_cpu i = false -> bln_sets_cpus i = false.
Proof. intros i H. exact H. Qed.
Print Assumptions C12_bln_cpu_optout.

(* memory pinning disabled globally or for the balloon type: no memory nodes are written *)
Theorem C12_bln_mem_optout : forall i,
  bi_type_pin_mem i = Some false \/ (bi_type_pin_mem i = None /\ bi_pin_mem i = false) -> bln_sets_mems i = false.
Proof. intros i [H|[H1 H2]]; unfold bln_sets_mems, bln_pin_mem_eff; [rewrite H|rewrite H1, H2]; auto. Qed.
Print Assumptions C12_bln_mem_optout.

(* a memory-preserving container is never written memory nodes by the balloons policy: neither when its own
   allocation is applied nor when the allocator moves it to make room for somebody else *)
Theorem C12_bln_mem_preserve_optout : forall i, bi_mem_preserve i = true ->
  bln_sets_mems i = false /\ bln_moved_sets_mems i = false.
Proof. intros i H. unfold bln_sets_mems, bln_moved_sets_mems. rewrite H. rewrite andb_false_r. auto. Qed.
Print Assumptions C12_bln_mem_preserve_optout.

(* ... and a container whose memory pinning is off is never written when the allocator moves others *)
Theorem C12_bln_moved_unpinned_optout : forall i,
  bi_type_pin_mem i = Some false \/ (bi_type_pin_mem i = None /\ bi_pin_mem i = false) -> bln_moved_sets_mems i = false.
Proof. intros i [H|[H1 H2]]; unfold bln_moved_sets_mems, bln_pin_mem_eff; [rewrite H|rewrite H1, H2]; auto. Qed.
Print Assumptions C12_bln_moved_unpinned_optout.
