(* C03 -- topology-aware: pool CPU capacity is never oversubscribed; grants match requests.
   Property theorems only. *)
From Coq Require Import ZArith List.
From stdpp Require Import gmap sets.
From NV Require Import C20_Model TA_Model TA_Proofs TA_Capacity TA_Cap2 TA_Nonempty TA_NonemptyInv.
Open Scope Z_scope.

(* Capacity: for every tree passing tree_wfb2 and EVERY history -- allocate, release, failed allocation, reset and
   reinstatement (supply.Reserve), with any choice of pool and CPUs the model's transcription of the code accepts --
   the shared capacity granted in every pool's subtree stays within 1000 mCPU per CPU left in its shared set.  No
   guard: since the repairs of K2 an allocation and a reinstatement themselves refuse to take CPUs the pools below
   need.  (The only side condition: a reinstated grant carries a non-negative portion.) *)
Theorem C03_capacity : forall t os s, tree_wfb2 t = true -> forallb nonneg_reserve os = true ->
  run t (init t) os = Ok s ->
  forall q, (q < length t)%nat -> granted_sub t (gr_shared s) q <= 1000 * csize (free_shar s q).
Proof.
  intros t os s Hwf Hnr Hrun.
  pose proof (run_all_guarded t os (init t) s (tree_wfb2_sound t Hwf) (J_init t) Hnr Hrun) as Hg.
  destruct (reachable_cap t os (init t) s (tree_wfb2_sound t Hwf) (J_init t) Hg) as (_ & HC & _). exact HC.
Qed.
Print Assumptions C03_capacity.

(* the two histories that used to oversubscribe a pool -- by allocation (K2) and by reinstatement -- are refused by
   the model as they are by the code, and the first goes through with CPUs the other pool can spare *)
Theorem C03_k2_histories_refused :
  run k2_tree (init k2_tree) k2_ops = Err (ErrGuard 12) /\
  run k2_tree (init k2_tree) k2r_ops = Err (ErrGuard 13) /\
  match run k2_tree (init k2_tree) k2_ops_ok with Ok _ => True | Err _ => False end.
Proof. split; [exact k2_choice_refused|]. split; [exact k2_reserve_refused|exact k2_other_choice_accepted]. Qed.
Print Assumptions C03_k2_histories_refused.

(* "... so every CPU-pinned container always has a non-empty allowed CPU set" (proved part): for every history,
   a container of the normal CPU class that holds exclusive CPUs or a positive shared portion is told a non-empty
   cpuset. *)
Theorem C03_nonempty_cpuset_partial : forall t os s cid g, tree_wfb2 t = true -> forallb nonneg_reserve os = true ->
  run t (init t) os = Ok s ->
  grants s !! cid = Some g -> g_type g = CpuNormal -> (g_pool g < length t)%nat ->
  g_excl g <> ∅ \/ 0 < g_portion g -> told_cpus t s g <> ∅.
Proof. exact told_nonempty_all. Qed.
Print Assumptions C03_nonempty_cpuset_partial.

(* ... and it is still false for zero-request containers: AllocateCPU tests nothing for a request without CPUs, so a
   BestEffort container can be placed in a pool whose sharable CPUs were all taken exclusively at the pool above while
   it was empty (known finding K10). *)
Theorem C03_nonempty_cpuset_refuted :
  tree_wfb2 k10a_tree = true /\ forallb nonneg_reserve k10a_ops = true /\
  match run k10a_tree (init k10a_tree) k10a_ops with
  | Ok s => bool_decide (told_cpus k10a_tree s {| g_pool := 0; g_excl := ∅; g_type := CpuNormal; g_portion := 0 |} = ∅) = true
  | Err _ => False end.
Proof. exact nonempty_refuted. Qed.
Print Assumptions C03_nonempty_cpuset_refuted.

(* ... and by reinstatement: a grant taking the last sharable CPUs of its pool is refused when the BestEffort container
   of the pool was reinstated before it, and goes through -- leaving that container an empty cpuset -- when it is
   reinstated after it (K10; the order is that of a Go map) *)
Theorem C03_nonempty_cpuset_reinstatement_order :
  run k10_tree (init k10_tree) [ OReserve 6 k10_g6; OReserve 1 k10_g1 ] = Err (ErrGuard 13) /\
  match run k10_tree (init k10_tree) k10_ops with
  | Ok s => bool_decide (told_cpus k10_tree s k10_g6 = ∅) = true
  | Err _ => False end.
Proof. exact k10_reserve_order. Qed.
Print Assumptions C03_nonempty_cpuset_reinstatement_order.

(* What holds for zero-request containers too: K10 is a matter of placement only.  On every history in which each
   container is placed (allocated or reinstated) into a pool that has a sharable CPU for it at that moment (run_p: the
   guard is judged on the state right after the placement), EVERY container of the normal class keeps a non-empty
   cpuset for ever: no later allocation, release or reinstatement of any container takes the last sharable CPU of a
   pool in which a container runs on the shared CPUs. *)
Theorem C03_nonempty_cpuset_once_placed : forall t os s cid g,
  tree_wfb2 t = true -> forallb nonneg_reserve os = true -> run_p t (init t) os = Ok s ->
  grants s !! cid = Some g -> g_type g = CpuNormal -> (g_pool g < length t)%nat -> told_cpus t s g <> ∅.
Proof. exact told_nonempty_placed. Qed.
Print Assumptions C03_nonempty_cpuset_once_placed.

(* the K10 witnesses fail exactly that guard, and histories that allocate, mix and release pass it *)
Theorem C03_k10_is_placement :
  run_p k10a_tree (init k10a_tree) k10a_ops = Err (ErrGuard 15) /\
  run_p k10_tree (init k10_tree) k10_ops = Err (ErrGuard 15) /\
  match run_p ex_tree (init ex_tree) ex_ops with Ok s => negb (Nat.eqb (size (grants s)) 0) = true | Err _ => False end.
Proof. destruct k10_fail_placement as [H1 H2]. split; [exact H1|]. split; [exact H2|exact placement_guard_satisfiable]. Qed.
Print Assumptions C03_k10_is_placement.

(* the per-pool ledgers equal the sums of the portions of the pool's grants, for all histories *)
Theorem C03_ledger_exact : forall t os s, run t (init t) os = Ok s ->
  forall q, gr_shared s q = ledger CpuNormal q (grants s) /\ gr_reserved s q = ledger CpuReserved q (grants s).
Proof. intros t os s Hrun. exact (reachable_ledger t os (init t) s (LInv_init t) Hrun). Qed.
Print Assumptions C03_ledger_exact.

(* eligibility: none for BestEffort, Burstable, sub-core, preserved, reserved-class or shared-preferring containers *)
Theorem C03_no_exclusive_cpus : forall i,
  pi_qos i = BestEffort \/ pi_qos i = Burstable \/ pi_milli i < 1000 \/
  pi_preserve i = true \/ pi_prefer_reserved i = true \/ (pi_ns_reserved i = true /\ pi_explicit_reservation i = false) \/
  pi_shared i = true ->
  0 <= pi_milli i -> granted_full (cpu_prefs i) = 0.
Proof. exact prefs_no_exclusive. Qed.
Print Assumptions C03_no_exclusive_cpus.

(* ... the whole-CPU part of the request otherwise *)
Theorem C03_whole_cpu_part : forall i,
  pi_qos i = Guaranteed -> pi_preserve i = false -> pi_prefer_reserved i = false ->
  (pi_ns_reserved i = false \/ pi_explicit_reservation i = true) ->
  pi_shared i = false -> 1000 <= pi_milli i ->
  (pi_milli i < 2000 \/ Z.rem (pi_milli i) 1000 = 0 \/ pi_shared_kind i = PrefAnnotated) ->
  granted_full (cpu_prefs i) = Z.quot (pi_milli i) 1000 /\ r_fraction (cpu_prefs i) = Z.rem (pi_milli i) 1000.
Proof. exact prefs_whole_cpus. Qed.
Print Assumptions C03_whole_cpu_part.

(* a successful allocation grants exactly that many exclusive CPUs, all isolated or none *)
Theorem C03_grant_matches_request : forall t s cid r p X s', ta_alloc t s cid r p X = Ok s' ->
  exists g, grants s' !! cid = Some g /\ g_pool g = p /\ csize (g_excl g) = granted_full r /\
            (g_excl g ⊆ free_iso s p \/ g_excl g ⊆ free_shar s p).
Proof. exact ta_alloc_grant. Qed.
Print Assumptions C03_grant_matches_request.

(* cpu.shares is the kubelet encoding (C20) of the granted capacity *)
Theorem C03_shares_encoding : forall g, g_type g <> CpuPreserve ->
  told_shares g = milli_to_shares (if g_portion g =? 0 then 1000 * csize (g_excl g) else g_portion g).
Proof. intros g H. unfold told_shares. destruct (g_portion g =? 0); [reflexivity|]. destruct (g_type g); congruence. Qed.
Print Assumptions C03_shares_encoding.
