(* C20 -- property theorems only.  Each is closed by [exact] of a lemma from C20_Proofs
   and followed by Print Assumptions. *)
From Coq Require Import ZArith Bool.
From NV Require Import Gen.Gen_Consts C20_Model C20_Est C20_Proofs.
Open Scope Z_scope.

(* the binary64 expression the code evaluates equals the integer rounding formula on the
   whole cgroup shares range / on every kubelet-encoded quota for 0..256 CPUs *)
Theorem C20_shares_float_exact : forall s, 2 <= s <= 262144 -> shares_to_milli_f s = shares_to_milli_z s.
Proof. exact shares_float_exact. Qed.
Print Assumptions C20_shares_float_exact.

Theorem C20_quota_float_exact : forall m, 0 <= m <= 256000 ->
  quota_to_milli_f (qof m) K_QuotaPeriod = quota_to_milli_z (qof m) K_QuotaPeriod.
Proof. exact quota_float_exact. Qed.
Print Assumptions C20_quota_float_exact.

(* within 1 mCPU (2 at the MinShares floor) *)
Theorem C20_shares_roundtrip : forall m, 0 <= m <= 256000 ->
  Z.abs (shares_to_milli_z (milli_to_shares m) - m) <= (if m <=? 2 then 2 else 1).
Proof. exact shares_roundtrip. Qed.
Print Assumptions C20_shares_roundtrip.

(* exact for every multiple of 125 mCPU, hence for whole CPUs *)
Theorem C20_shares_exact_125 : forall k, 0 <= k -> 125 * k <= 256000 ->
  shares_to_milli_z (milli_to_shares (125 * k)) = 125 * k.
Proof. exact shares_exact_125. Qed.
Print Assumptions C20_shares_exact_125.

Theorem C20_quota_exact : forall m, 10 <= m ->
  quota_to_milli_z (fst (milli_to_quota m)) (snd (milli_to_quota m)) = m.
Proof. exact quota_exact. Qed.
Print Assumptions C20_quota_exact.

Theorem C20_monotone :
  (forall m1 m2, 0 <= m1 <= m2 -> milli_to_shares m1 <= milli_to_shares m2) /\
  (forall s1 s2, 2 <= s1 <= s2 -> shares_to_milli_z s1 <= shares_to_milli_z s2) /\
  (forall m1 m2, 0 <= m1 <= m2 -> fst (milli_to_quota m1) <= fst (milli_to_quota m2)) /\
  (forall q1 q2 p, 0 < p -> 0 <= q1 <= q2 -> quota_to_milli_z q1 p <= quota_to_milli_z q2 p).
Proof.
  exact (conj milli_to_shares_monotone (conj shares_to_milli_monotone
        (conj milli_to_quota_monotone quota_to_milli_monotone))).
Qed.
Print Assumptions C20_monotone.

(* the specified estimate for adjustment a maps back to a (no int64 wrap below 2^63/1000) *)
Theorem C20_estimate_maps_back : forall cap a, 1000 <= cap -> 0 <= a <= 1000 ->
  adj_of cap (tbl_spec cap a) = a.
Proof. exact tbl_spec_roundtrip. Qed.
Print Assumptions C20_estimate_maps_back.

Theorem C20_oom_nowrap : forall cap r, 0 < cap -> 0 <= r -> 1000 * r < 2^63 ->
  mem_req_to_oom cap r = adj_of cap r.
Proof. exact mem_req_to_oom_nowrap. Qed.
Print Assumptions C20_oom_nowrap.

(* ... and, since 1000*memRequest is formed in 128 bits (math/bits), for EVERY capacity an int64 can hold and
   every request the table construction can produce (up to the capacity plus one step) *)
Theorem C20_oom_exact_all_capacities : forall cap r, 1000 <= cap < 2^63 -> 0 <= r <= cap + cap / 1000 + 1 ->
  mem_req_to_oom cap r = adj_of cap r.
Proof. exact mem_req_to_oom_exact_le_cap. Qed.
Print Assumptions C20_oom_exact_all_capacities.
