(* C07 -- memory allocator placement rules: fit, types, monotone moves, exact updates.
   Property theorems only (model: Libmem_Model; lemmas: Libmem_*.v).  Quantification: all node
   sets, all zone-expansion functions, all states satisfying the stated invariants, all requests. *)
From Coq Require Import ZArith NArith List Bool.
From NV Require Import Gen.Gen_LibmemConsts Gen.Gen_LibmemTabs Libmem_Model Libmem_Basics Libmem_Proofs Libmem_Alloc Libmem_Hist Libmem_Main.
Import ListNotations.
Open Scope Z_scope.

(* fit, full strength ("every node set with allocations confined to it"): FALSE of the faithful
   model -- K1: nodes 0,1,2 of 10 units, A(20)->{0,1}, B(20)->{1,2} both succeed, {0,1,2} holds 40 *)
Theorem C07_fit_all_refuted :
  exists (nodes : list node) (ops : list op) (z : N),
    let w := run nodes (default_expand nodes) src_fixes init_world ops in
    length (live (w_state w)) = length ops /\
    (forall r, In r (live (w_state w)) -> msub (r_zone r) z = true) /\
    zone_cap nodes z < usage (live (w_state w)) z /\
    ~ In z (map r_zone (live (w_state w))).
Proof. exact main_fit_all_refuted. Qed.
Print Assumptions C07_fit_all_refuted.

(* fit, the part that holds: after a successful Allocate every zone entry -- in particular every
   zone in use -- holds no more than its capacity (the missing guard of the full statement is
   visible: the node set must itself be a zone in use) *)
Theorem C07_fit_inuse_partial : forall ns ex s r s' res,
  Inv s -> Fit ns s -> sizes_nonneg (live s) -> 0 <= r_size r ->
  allocate ns ex src_fixes s r = (s', res) -> rs_kind res = KOk -> Fit ns s' /\ sizes_nonneg (live s').
Proof. exact (fun ns ex => allocate_fit ns ex src_fixes). Qed.
Print Assumptions C07_fit_inuse_partial.

(* existing allocations only ever move to supersets of their nodes, keep every attribute, and only
   allocations of priority <= Preserved move: reservations (priority Reservation) never do *)
Theorem C07_moves_are_supersets : forall ns ex s r s' res,
  Inv s -> allocate ns ex src_fixes s r = (s', res) -> rs_kind res = KOk ->
  forall q, In q (live s) ->
    exists q', find_req (r_id q) (live s') = Some q' /\ q' = set_zone (r_zone q') q /\
               msub (r_zone q) (r_zone q') = true /\ (r_zone q' <> r_zone q -> r_prio q <= LM_Preserved).
Proof. exact (fun ns ex => allocate_moves ns ex src_fixes). Qed.
Print Assumptions C07_moves_are_supersets.

Theorem C07_reservations_never_move : LM_Preserved < LM_Reservation.
Proof. exact preserved_lt_reservation. Qed.
Print Assumptions C07_reservations_never_move.

(* every newly assigned zone (the requester's and every zone something was moved to) contains a
   node with normal memory; the returned zone is the requester's assignment *)
Theorem C07_normal_memory : forall ns ex s r s' res,
  Inv s -> NormalOK ns s -> allocate ns ex src_fixes s r = (s', res) -> rs_kind res = KOk ->
  NormalOK ns s' /\ zone_of (r_id r) (live s') = rs_zone res /\ is_live (r_id r) (live s') = true.
Proof. exact (fun ns ex => allocate_normal ns ex src_fixes). Qed.
Print Assumptions C07_normal_memory.

(* the reported updates are exactly the allocations whose assignment changed, with the new zones *)
Theorem C07_updates_exact : forall ns ex s r s' res,
  Inv s -> allocate ns ex src_fixes s r = (s', res) -> rs_kind res = KOk ->
  NoDup (keys (rs_upd res)) /\
  forall id z, In (id, z) (rs_upd res) <->
    (id <> r_id r /\ is_live id (live s) = true /\ zone_of id (live s') = z /\ zone_of id (live s') <> zone_of id (live s)).
Proof. exact (fun ns ex => allocate_updates ns ex src_fixes). Qed.
Print Assumptions C07_updates_exact.

(* Realloc never removes nodes from the allocation (the returned zone, which is the new
   assignment, contains the old one), keeps the set of allocations, and every other allocation
   ends in a superset of its previous zone *)
Theorem C07_realloc_never_removes : forall ns ex s id nodes types s' res, Inv s ->
  realloc ns ex src_fixes s id nodes types = (s', res) -> rs_kind res = KOk ->
  is_live id (live s) = true /\ msub (zone_of id (live s)) (rs_zone res) = true /\
  rs_zone res = zone_of id (live s') /\ map r_id (live s') = map r_id (live s) /\
  (forall q, In q (live s) -> msub (r_zone q) (zone_of (r_id q) (live s')) = true).
Proof. exact main_realloc_ok. Qed.
Print Assumptions C07_realloc_never_removes.
