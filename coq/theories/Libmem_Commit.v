(* libmem: committing a fresh offer gives exactly what allocating the request directly gives
   (same zone, same updates, same resulting assignments and zone entries). *)
From Coq Require Import ZArith NArith List Bool Lia Permutation.
From NV Require Import Gen.Gen_LibmemConsts Gen.Gen_LibmemTabs Libmem_Model Libmem_Basics Libmem_Steps Libmem_Proofs Libmem_Alloc.
Import ListNotations.
Open Scope Z_scope.

Section Commit.
Context (ns : list node) (ex : N -> N -> N * N) (fx : fixes).

Definition cstep (rid : N) (rq : req) (acc : list req * list N) (p : N * N) : list req * list N :=
  let '(l, zk) := acc in
  if (fst p =? rid)%N then (l ++ [set_zone (snd p) rq], zk_add (snd p) zk)
  else if is_live (fst p) l then
    (if (zone_of (fst p) l =? snd p)%N then (l, zk) else (move_req (fst p) (snd p) l, zk_add (snd p) zk))
  else (l, zk).

Lemma commit_apply_unfold o l zk :
  commit_apply o l zk = fold_left (cstep (r_id (of_req o)) (of_req o)) (of_upd o) (l, zk).
Proof. reflexivity. Qed.

Definition appU (upd : list (N * N)) (q : req) : req :=
  match al_get (r_id q) upd with Some z => set_zone z q | None => q end.

Lemma al_get_cons_other k z upd k' : k' <> k -> al_get k' ((k, z) :: upd) = al_get k' upd.
Proof.
  intros H. unfold al_get. cbn [find fst]. destruct (k =? k')%N eqn:E; [apply N.eqb_eq in E; congruence|reflexivity].
Qed.

Lemma al_get_cons_same k z upd : al_get k ((k, z) :: upd) = Some z.
Proof. unfold al_get. cbn [find fst snd]. rewrite N.eqb_refl. reflexivity. Qed.

Lemma nodup_keys_cons k z upd : NoDup (keys ((k, z) :: upd)) -> al_get k upd = None /\ NoDup (keys upd).
Proof.
  cbn [keys map fst]. intros ND. inversion ND as [|? ? Hn ND']; subst. split; [|exact ND'].
  unfold al_get. destruct (find (fun p => (fst p =? k)%N) upd) as [p|] eqn:F; [|reflexivity].
  apply find_some in F as [Hin E]. apply N.eqb_eq in E. exfalso. apply Hn. apply in_map_iff. exists p. auto.
Qed.

Lemma is_live_app_tail k l tail rid : (forall q, In q tail -> r_id q = rid) -> k <> rid ->
  is_live k (l ++ tail) = is_live k l /\ zone_of k (l ++ tail) = zone_of k l.
Proof.
  intros Ht Hk.
  assert (find_req k tail = None) as Fn.
  { unfold find_req. destruct (find (fun r => (r_id r =? k)%N) tail) as [q|] eqn:F; [|reflexivity].
    apply find_some in F as [Hin E]. apply N.eqb_eq in E. rewrite (Ht q Hin) in E. congruence. }
  split.
  - rewrite !is_live_find, find_req_app, Fn. destruct (find_req k l); reflexivity.
  - unfold zone_of. rewrite find_req_app, Fn. destruct (find_req k l); reflexivity.
Qed.

Lemma move_req_app_tail k z l tail rid : (forall q, In q tail -> r_id q = rid) -> k <> rid ->
  move_req k z (l ++ tail) = move_req k z l ++ tail.
Proof.
  intros Ht Hk. unfold move_req. rewrite map_app. f_equal.
  induction tail as [|a t IH]; [reflexivity|]. cbn [map].
  rewrite IH by (intros q Hq; apply Ht; right; exact Hq).
  destruct (r_id a =? k)%N eqn:E; [|reflexivity]. apply N.eqb_eq in E. rewrite (Ht a (or_introl eq_refl)) in E. congruence.
Qed.

Lemma appU_move k z upd l : al_get k upd = None -> ids_nodup l ->
  (is_live k l = false \/ True) ->
  map (appU upd) (move_req k z l) = map (appU ((k, z) :: upd)) l.
Proof.
  intros Hk _ _. unfold move_req. rewrite map_map. apply map_ext. intros q. unfold appU.
  destruct (r_id q =? k)%N eqn:E.
  - apply N.eqb_eq in E. rewrite set_zone_id, E, Hk, al_get_cons_same. reflexivity.
  - apply N.eqb_neq in E. rewrite al_get_cons_other by exact E. reflexivity.
Qed.

Lemma cfold_live rid rq : r_id rq = rid -> forall upd l tail zk,
  NoDup (keys upd) -> ids_nodup l -> (forall q, In q tail -> r_id q = rid) -> (forall q, In q l -> r_id q <> rid) ->
  fst (fold_left (cstep rid rq) upd (l ++ tail, zk)) =
  map (appU upd) l ++ tail ++ (match al_get rid upd with Some z => [set_zone z rq] | None => [] end).
Proof.
  intros Hrq. induction upd as [|[k z] upd IH]; intros l tail zk ND NDl Ht Hl.
  - cbn [fold_left fst]. unfold al_get. cbn [find]. rewrite app_nil_r. f_equal.
    unfold appU, al_get. cbn [find]. symmetry. apply map_id.
  - destruct (nodup_keys_cons _ _ _ ND) as [Hk ND']. cbn [fold_left cstep fst snd].
    destruct (k =? rid)%N eqn:E.
    + apply N.eqb_eq in E. subst k. rewrite <- app_assoc. rewrite IH; [|exact ND'|exact NDl| |exact Hl].
      * rewrite Hk, al_get_cons_same, app_nil_r. f_equal.
        apply map_ext_in. intros q Hq. unfold appU. rewrite al_get_cons_other by (apply Hl; exact Hq). reflexivity.
      * intros q Hq. apply in_app_or in Hq as [Hq|[<-|[]]]; [apply Ht; exact Hq|exact Hrq].
    + apply N.eqb_neq in E. destruct (is_live_app_tail k l tail rid Ht E) as [E1 E2]. rewrite E1, E2.
      rewrite (al_get_cons_other k z upd rid) by (intros X; apply E; symmetry; exact X).
      destruct (is_live k l) eqn:Lk.
      * destruct (zone_of k l =? z)%N eqn:Ez.
        -- rewrite IH by assumption. f_equal. apply map_ext_in. intros q Hq. unfold appU.
           destruct (N.eq_dec (r_id q) k) as [Eq|Eq].
           ++ rewrite Eq, Hk, al_get_cons_same. apply N.eqb_eq in Ez. rewrite <- Ez, <- Eq.
              rewrite (zone_of_in _ _ NDl Hq). symmetry. apply set_zone_same.
           ++ rewrite al_get_cons_other by exact Eq. reflexivity.
        -- rewrite (move_req_app_tail k z l tail rid Ht E). rewrite IH; [|exact ND'| |exact Ht|].
           ++ f_equal. apply appU_move; [exact Hk|exact NDl|right; exact I].
           ++ unfold ids_nodup. rewrite move_req_ids. exact NDl.
           ++ intros q Hq. unfold move_req in Hq. apply in_map_iff in Hq as [q0 [Eq Hq0]].
              destruct (r_id q0 =? k)%N; subst q; [rewrite set_zone_id|]; apply Hl; exact Hq0.
      * rewrite IH by assumption. f_equal. apply map_ext_in. intros q Hq. unfold appU.
        rewrite al_get_cons_other; [reflexivity|]. intros Eq. apply is_live_false in Lk. apply Lk.
        rewrite <- Eq. apply in_map. exact Hq.
Qed.

(* sortedness and coverage of the key list through the replay *)
Lemma cfold_zk rid rq : forall upd l zk,
  zk_sorted zk -> (forall q, In q l -> In (r_zone q) zk) ->
  let r := fold_left (cstep rid rq) upd (l, zk) in
  zk_sorted (snd r) /\ (forall q, In q (fst r) -> In (r_zone q) (snd r)).
Proof.
  induction upd as [|[k z] upd IH]; intros l zk S C; [split; assumption|].
  cbn [fold_left cstep fst snd]. destruct (k =? rid)%N.
  - apply IH; [apply zk_add_sorted; exact S|].
    intros q Hq. apply zk_add_in. apply in_app_or in Hq as [Hq|[<-|[]]]; [right; apply C; exact Hq|left; reflexivity].
  - destruct (is_live k l); [|apply IH; assumption].
    destruct (zone_of k l =? z)%N; [apply IH; assumption|].
    apply IH; [apply zk_add_sorted; exact S|].
    intros q Hq. unfold move_req in Hq. apply in_map_iff in Hq as [q0 [Eq Hq0]]. apply zk_add_in.
    destruct (r_id q0 =? k)%N; subst q; [left; reflexivity|right; apply C; exact Hq0].
Qed.

Lemma cleanup_inuse l zk1 zk2 : zk_sorted zk1 -> zk_sorted zk2 ->
  (forall q, In q l -> In (r_zone q) zk1) -> (forall q, In q l -> In (r_zone q) zk2) ->
  cleanup l zk1 = cleanup l zk2.
Proof.
  intros S1 S2 C1 C2. apply sorted_ext; [apply filter_sorted; exact S1|apply filter_sorted; exact S2|].
  intros x. rewrite !cleanup_in. split; intros [_ [q [Hq <-]]]; (split; [auto|exists q; auto]).
Qed.

Lemma appU_moved l_start st : ids_nodup l_start -> ids_nodup (o_live st) -> jinv l_start st ->
  forall la lb, Forall2 mv la lb -> (forall q, In q la -> In q l_start) -> (forall q, In q lb -> In q (o_live st)) ->
  map (appU (o_upd st)) la = lb.
Proof.
  intros ND ND' [_ [_ J]]. induction 1 as [|q0 q' la lb Hm F IH]; intros Ha Hb; [reflexivity|].
  cbn [map]. rewrite IH; [|intros q Hq; apply Ha; right; exact Hq|intros q Hq; apply Hb; right; exact Hq].
  f_equal. assert (In q0 l_start) as H0 by (apply Ha; left; reflexivity).
  assert (In q' (o_live st)) as H' by (apply Hb; left; reflexivity).
  destruct Hm as [E _]. assert (r_id q' = r_id q0) as Eid by (rewrite E; reflexivity).
  unfold appU. specialize (J (r_id q0)). rewrite (zone_of_in _ _ ND H0) in J.
  assert (zone_of (r_id q0) (o_live st) = r_zone q') as Zq by (rewrite <- Eid; apply zone_of_in; assumption).
  rewrite Zq in J.
  destruct (al_get (r_id q0) (o_rev st)) as [zr|].
  - destruct J as [U _]. rewrite U. symmetry. exact E.
  - destruct J as [U Z]. rewrite U. rewrite E, Z. symmetry. apply set_zone_same.
Qed.

(* the theorem: an offer obtained in state s, committed in state s, against allocating directly *)
Theorem commit_fresh_eq_allocate s r s1 reso o sa ra sc rc : Inv s ->
  get_offer ns ex fx s r = (s1, reso, Some o) ->
  allocate ns ex fx s r = (sa, ra) -> commit s o = (sc, rc) ->
  rs_kind ra = KOk /\ rs_kind rc = KOk /\ rs_zone rc = rs_zone ra /\ rs_upd rc = rs_upd ra /\
  rs_zone reso = rs_zone ra /\ rs_upd reso = rs_upd ra /\
  live sc = live sa /\ zkeys sc = zkeys sa /\ version sc = version s + 1.
Proof.
  intros I G A Cm. pose proof I as [ND [S C]]. pose proof (alloc_core_view ns ex s r ND) as V.
  unfold get_offer in G. unfold allocate in A. destruct (alloc_core ns ex s r) as [st|l zk oc|] eqn:AC; [|discriminate|discriminate].
  inversion V as [|r1 st0 Hid _ _ _ Hl Hn M R| |]; subst.
  pose proof Hl as Hl1. rewrite <- Hid in Hl1.
  pose proof (alloc_facts_of ns ex s r1 st I Hl1 Hn M) as [[ND' L] [S3 [C3 [I3 O3]]] J].
  destruct (revert (Some (r_id r)) st) as [lr zkr]. injection G as _ <- <-. injection A as <- <-.
  pose proof J as [N1 [N2 Jall]].
  (* the requester in the final list *)
  unfold lmoves in L. apply Forall2_app_inv_l in L as [l1 [l2 [L1 [L2 E']]]].
  inversion L2 as [|? r1' ? ? Hm1 L2']; subst. inversion L2'; subst.
  destruct Hm1 as [E1 [S1 _]]. assert (r_id r1' = r_id r) as Eid by (rewrite E1, <- Hid; reflexivity).
  assert (find_req (r_id r) (o_live st) = Some r1') as Frq.
  { rewrite <- Eid. apply find_req_in; [exact ND'|]. rewrite E'. apply in_or_app. right. left. reflexivity. }
  rewrite Frq in Cm. cbn [rs_kind rs_zone rs_upd live zkeys version].
  (* commit *)
  unfold commit in Cm. cbn [of_ver of_req of_upd] in Cm. rewrite Z.eqb_refl in Cm. cbn [negb] in Cm.
  rewrite Eid, Hl in Cm. rewrite commit_apply_unfold in Cm. cbn [of_ver of_req of_upd] in Cm. rewrite Eid in Cm.
  pose proof (cfold_live (r_id r) r1' Eid (o_upd st) (live s) [] (zkeys s) N1 ND (fun q H => match H with end)) as CF.
  rewrite app_nil_r in CF. cbn [app] in CF.
  assert (forall q, In q (live s) -> r_id q <> r_id r) as Hne.
  { intros q Hq Eq. apply is_live_false in Hl. apply Hl. rewrite <- Eq. apply in_map. exact Hq. }
  specialize (CF Hne).
  pose proof (cfold_zk (r_id r) r1' (o_upd st) (live s) (zkeys s) S (fun q Hq => proj2 (C q Hq))) as [SZ CZ].
  destruct (fold_left (cstep (r_id r) r1') (o_upd st) (live s, zkeys s)) as [lc zkc] eqn:FL.
  cbn [fst snd] in CF, SZ, CZ. injection Cm as <- <-. cbn [rs_kind rs_zone rs_upd live zkeys version].
  (* what the journal says about the requester *)
  pose proof (Jall (r_id r)) as Jr.
  assert (zone_of (r_id r) (o_live st) = r_zone r1') as Zr by (apply zone_of_find; exact Frq).
  rewrite Zr, (zone_of_notlive _ _ Hl) in Jr.
  assert (al_get (r_id r) (o_upd st) = Some (r_zone r1')) as Ur.
  { destruct (al_get (r_id r) (o_rev st)) as [zr|].
    - destruct Jr as [U _]. exact U.
    - exfalso. destruct Jr as [_ Z0].
      apply (mnz_land_nz _ _ Hn). apply msub_antisym; [rewrite <- Z0; exact S1|].
      apply msub_spec. intros i Hi. rewrite N.bits_0 in Hi. discriminate. }
  rewrite Ur in CF |- *.
  assert (lc = o_live st) as ->.
  { rewrite CF, E'. f_equal; [|rewrite set_zone_same; reflexivity].
    apply (appU_moved (live s) st ND ND' J (live s) l1 L1); [auto|].
    intros q Hq. rewrite E'. apply in_or_app. left. exact Hq. }
  repeat split; try reflexivity; try (symmetry; exact Zr).
  apply cleanup_inuse; assumption.
Qed.

End Commit.
