(* libmem: overcommit resolution (defaultHandleOvercommit and everything below it) only ever
   performs "move steps": a live request of an overcommitted zone z that meets the nodes being
   checked, of priority <= one of the allowed priorities, strict only if its types are exactly the
   types of the target, is moved to z | expand(z, ...).  All invariants are then proved by
   induction over sequences of such steps (Libmem_Proofs). *)
From Coq Require Import ZArith NArith List Bool Lia Permutation.
From NV Require Import Gen.Gen_LibmemConsts Gen.Gen_LibmemTabs Libmem_Model Libmem_Basics.
Import ListNotations.
Open Scope Z_scope.

Section Steps.
Context (ns : list node) (ex : N -> N -> N * N).

Definition set_flags (st : ost) (f o : bool) : ost := mkOst (o_live st) (o_zk st) (o_upd st) (o_rev st) f o.

Definition expand_of (z extra : N) : N * N := ex z (N.lor (zone_type ns z) extra).

Inductive mstep (nodes : N) : ost -> ost -> Prop :=
| ms_move st z extra limit r :
    find_req (r_id r) (o_live st) = Some r ->
    r_zone r = z ->
    In z (o_zk st) ->
    (nodes = 0%N \/ mnz (N.land z nodes) = true) ->
    fst (expand_of z extra) <> 0%N ->
    In limit allowed_prios -> r_prio r <= limit ->
    (r_strict r = false \/ r_types r = N.lor (zone_type ns z) (snd (expand_of z extra))) ->
    mstep nodes st (zone_move (N.lor z (fst (expand_of z extra))) (r_id r) st)
| ms_flags st f o : mstep nodes st (set_flags st f o).

Inductive msteps (nodes : N) : ost -> ost -> Prop :=
| mss_refl st : msteps nodes st st
| mss_step st1 st2 st3 : mstep nodes st1 st2 -> msteps nodes st2 st3 -> msteps nodes st1 st3.

Lemma msteps_one nodes st st' : mstep nodes st st' -> msteps nodes st st'.
Proof. intros H. eapply mss_step; [exact H|apply mss_refl]. Qed.

Lemma msteps_trans nodes st1 st2 st3 : msteps nodes st1 st2 -> msteps nodes st2 st3 -> msteps nodes st1 st3.
Proof.
  induction 1 as [|a b c H1 H2 IH]; intros H3; [exact H3|].
  eapply mss_step; [exact H1|]. apply IH. exact H3.
Qed.

Lemma zone_move_found z id st r : find_req id (o_live st) = Some r ->
  zone_move z id st =
  if (r_zone r =? z)%N then st
  else mkOst (move_req id z (o_live st)) (zk_add z (o_zk st)) (al_set id z (o_upd st))
             (al_add_new id (r_zone r) (o_rev st)) (o_forced st) (o_oc st).
Proof. intros H. unfold zone_move. rewrite H. reflexivity. Qed.

Lemma zone_move_ids z id st : map r_id (o_live (zone_move z id st)) = map r_id (o_live st).
Proof.
  unfold zone_move. destruct (find_req id (o_live st)) as [r|]; [|reflexivity].
  destruct (r_zone r =? z)%N; [reflexivity|]. cbn [o_live]. apply move_req_ids.
Qed.

Lemma zone_move_zk z id st x : In x (o_zk st) -> In x (o_zk (zone_move z id st)).
Proof.
  intros H. unfold zone_move. destruct (find_req id (o_live st)) as [r|]; [|exact H].
  destruct (r_zone r =? z)%N; [exact H|]. cbn [o_zk]. apply zk_add_in. right. exact H.
Qed.

Lemma zone_move_find_other z id id' st : id' <> id ->
  find_req id' (o_live (zone_move z id st)) = find_req id' (o_live st).
Proof.
  intros Hne. unfold zone_move. destruct (find_req id (o_live st)) as [r|]; [|reflexivity].
  destruct (r_zone r =? z)%N; [reflexivity|]. cbn [o_live]. apply find_req_move_other. exact Hne.
Qed.

Lemma mstep_ids nodes st st' : mstep nodes st st' -> map r_id (o_live st') = map r_id (o_live st).
Proof. intros H. destruct H; [apply zone_move_ids|reflexivity]. Qed.

Lemma msteps_ids nodes st st' : msteps nodes st st' -> map r_id (o_live st') = map r_id (o_live st).
Proof.
  induction 1 as [|a b c H1 H2 IH]; [reflexivity|]. rewrite IH. eapply mstep_ids. exact H1.
Qed.

Lemma msteps_nodup nodes st st' : msteps nodes st st' -> ids_nodup (o_live st) -> ids_nodup (o_live st').
Proof. intros H. unfold ids_nodup. rewrite (msteps_ids _ _ _ H). auto. Qed.

Lemma mstep_zk nodes st st' x : mstep nodes st st' -> In x (o_zk st) -> In x (o_zk st').
Proof. intros H. destruct H; [apply zone_move_zk|auto]. Qed.

Lemma msteps_zk nodes st st' x : msteps nodes st st' -> In x (o_zk st) -> In x (o_zk st').
Proof.
  induction 1 as [|a b c H1 H2 IH]; [auto|]. intros H. apply IH. eapply mstep_zk; eauto.
Qed.

(* ------------------------------------------------------------------ zoneShrinkUsage *)

Lemma shrink_loop_msteps nodes z extra limit amount :
  fst (expand_of z extra) <> 0%N -> In limit allowed_prios ->
  (nodes = 0%N \/ mnz (N.land z nodes) = true) ->
  forall cands st moved st' moved',
    In z (o_zk st) ->
    NoDup (map r_id cands) ->
    (forall r, In r cands -> find_req (r_id r) (o_live st) = Some r /\ r_zone r = z /\ r_prio r <= limit) ->
    shrink_loop cands z (N.lor z (fst (expand_of z extra))) (N.lor (zone_type ns z) (snd (expand_of z extra)))
                amount st moved = (st', moved') ->
    msteps nodes st st'.
Proof.
  intros Hnz Hlim Hnodes. induction cands as [|r cands IH]; intros st moved st' moved' Hz ND Hc E.
  - cbn [shrink_loop] in E. injection E as <- <-. apply mss_refl.
  - cbn [shrink_loop] in E. cbn [map] in ND. inversion ND as [|? ? Hn ND']; subst.
    destruct (Hc r (or_introl eq_refl)) as [Hf [Hrz Hp]].
    assert (forall st1, In z (o_zk st1) ->
              (forall id', id' <> r_id r -> find_req id' (o_live st1) = find_req id' (o_live st)) ->
              forall r', In r' cands -> find_req (r_id r') (o_live st1) = Some r' /\ r_zone r' = z /\ r_prio r' <= limit) as Hrest.
    { intros st1 _ Hoth r' Hr'. destruct (Hc r' (or_intror Hr')) as [Hf' [Hz' Hp']].
      split; [|auto]. rewrite Hoth; [exact Hf'|].
      intros Eid. apply Hn. rewrite <- Eid. apply in_map. exact Hr'. }
    destruct (negb (r_strict r) || (r_types r =? N.lor (zone_type ns z) (snd (expand_of z extra)))%N) eqn:Cnd.
    + assert (mstep nodes st (zone_move (N.lor z (fst (expand_of z extra))) (r_id r) st)) as Hstep.
      { eapply ms_move with (limit := limit); eauto.
        apply orb_true_iff in Cnd as [C|C].
        - left. apply negb_true_iff. exact C.
        - right. apply N.eqb_eq. exact C. }
      destruct (moved + r_size r >=? amount).
      * injection E as <- <-. apply msteps_one. exact Hstep.
      * eapply mss_step; [exact Hstep|].
        eapply IH; [| exact ND' | | exact E].
        -- apply zone_move_zk. exact Hz.
        -- apply Hrest; [apply zone_move_zk; exact Hz|].
           intros id' Hne. apply zone_move_find_other. exact Hne.
    + eapply IH; [exact Hz | exact ND' | | exact E].
      apply Hrest; [exact Hz|]. reflexivity.
Qed.

Lemma filter_ids_nodup f l : ids_nodup l -> ids_nodup (filter f l).
Proof.
  unfold ids_nodup. induction l as [|a l IH]; intros ND; [constructor|].
  cbn [map] in ND. inversion ND as [|? ? Hn ND']; subst. cbn [filter].
  destruct (f a); [|apply IH; exact ND'].
  cbn [map]. constructor; [|apply IH; exact ND'].
  intros Hin. apply Hn. apply in_map_iff in Hin as [r [E Hr]]. apply filter_In in Hr as [Hr _].
  apply in_map_iff. exists r. auto.
Qed.

Lemma zone_shrink_msteps nodes z amount limit extra st st' moved :
  ids_nodup (o_live st) -> In limit allowed_prios ->
  (nodes = 0%N \/ mnz (N.land z nodes) = true) ->
  zone_shrink ns ex z amount limit extra st = (st', moved) ->
  msteps nodes st st'.
Proof.
  intros ND Hlim Hnodes E. unfold zone_shrink in E.
  destruct (negb (zk_has z (o_zk st)) || _) eqn:C; [injection E as <- <-; apply mss_refl|].
  apply orb_false_iff in C as [C1 _]. apply negb_false_iff in C1. apply zk_has_in in C1.
  fold (expand_of z extra) in E. destruct (expand_of z extra) as [nodes' types'] eqn:Ex.
  destruct (nodes' =? 0)%N eqn:Enz; [injection E as <- <-; apply mss_refl|].
  apply N.eqb_neq in Enz.
  pose proof (shrink_loop_msteps nodes z extra limit amount) as L. rewrite Ex in L. cbn [fst snd] in L.
  eapply L; [exact Enz | exact Hlim | exact Hnodes | exact C1 | | | exact E].
  - eapply Permutation_NoDup; [apply Permutation_map; apply isort_perm|].
    apply filter_ids_nodup. apply filter_ids_nodup. exact ND.
  - intros r Hr. apply isort_in in Hr. apply filter_In in Hr as [Hr Hp]. apply filter_In in Hr as [Hr Hz].
    apply N.eqb_eq in Hz. apply Z.leb_le in Hp.
    split; [apply find_req_in; assumption|]. split; assumption.
Qed.

Lemma shrink_all_msteps nodes prio types : In prio allowed_prios ->
  forall oc st moved st' moved',
    ids_nodup (o_live st) ->
    (forall z a, In (z, a) oc -> nodes = 0%N \/ mnz (N.land z nodes) = true) ->
    shrink_all ns ex oc prio types st moved = (st', moved') ->
    msteps nodes st st'.
Proof.
  intros Hp. induction oc as [|[z a] oc IH]; intros st moved st' moved' ND Hoc E.
  - cbn [shrink_all] in E. injection E as <- <-. apply mss_refl.
  - cbn [shrink_all] in E. destruct (zone_shrink ns ex z a prio types st) as [st1 m] eqn:Z1.
    assert (msteps nodes st st1) as M1.
    { eapply zone_shrink_msteps; [exact ND | exact Hp | | exact Z1]. eapply Hoc. left. reflexivity. }
    eapply msteps_trans; [exact M1|].
    eapply IH; [eapply msteps_nodup; eauto | | exact E].
    intros z' a' H. eapply Hoc. right. exact H.
Qed.

(* ------------------------------------------------------------------ checkOvercommit *)

Lemma check_overcommit_in l zk nodes z a : In (z, a) (fst (check_overcommit ns l zk nodes)) ->
  In z zk /\ (nodes = 0%N \/ mnz (N.land z nodes) = true) /\ zfree ns l z < 0 /\ a = - zfree ns l z.
Proof.
  unfold check_overcommit. cbn [fst]. intros H. apply in_map_iff in H as [z' [E H]]. injection E as -> <-.
  apply isort_in in H. apply filter_In in H as [H1 H2]. apply andb_true_iff in H2 as [H2 H3].
  apply Z.ltb_lt in H3. split; [exact H1|]. split; [|auto].
  apply orb_true_iff in H2 as [H2|H2]; [left; apply N.eqb_eq; exact H2|right; exact H2].
Qed.

Lemma check_overcommit_nil l zk nodes : fst (check_overcommit ns l zk nodes) = [] ->
  forall z, In z zk -> (nodes = 0%N \/ mnz (N.land z nodes) = true) -> 0 <= zfree ns l z.
Proof.
  unfold check_overcommit. cbn [fst]. intros H z Hz Hn.
  apply map_eq_nil in H. apply isort_nil in H.
  destruct (zfree ns l z <? 0) eqn:E; [|apply Z.ltb_ge in E; exact E].
  exfalso. assert (In z (filter (fun z => ((nodes =? 0)%N || mnz (N.land z nodes)) && (zfree ns l z <? 0)) zk)) as X.
  { apply filter_In. split; [exact Hz|]. rewrite E, andb_true_r.
    destruct Hn as [->|Hn]; [reflexivity|]. rewrite Hn. apply orb_true_r. }
  rewrite H in X. destruct X.
Qed.

Lemma recheck_spec nodes st oc st' : recheck ns nodes st = (oc, st') ->
  oc = fst (check_overcommit ns (o_live st) (o_zk st) nodes) /\ exists f o, st' = set_flags st f o.
Proof.
  unfold recheck. destruct (check_overcommit ns (o_live st) (o_zk st) nodes) as [oc0 f] eqn:E.
  intros H. injection H as <- <-. split; [reflexivity|]. eexists _, _. reflexivity.
Qed.

Lemma recheck_msteps nodes st oc st' : recheck ns nodes st = (oc, st') ->
  msteps nodes st st' /\ o_live st' = o_live st /\ o_zk st' = o_zk st /\
  (forall z a, In (z, a) oc -> nodes = 0%N \/ mnz (N.land z nodes) = true).
Proof.
  intros H. apply recheck_spec in H as [-> [f [o ->]]]. split; [apply msteps_one; constructor|].
  split; [reflexivity|]. split; [reflexivity|].
  intros z a Hin. apply check_overcommit_in in Hin. tauto.
Qed.

(* ------------------------------------------------------------------ the loops of defaultHandleOvercommit *)

(* what a finished resolution guarantees: nothing that meets [nodes] is overcommitted *)
Definition resolved (nodes : N) (st : ost) : Prop :=
  forall z, In z (o_zk st) -> (nodes = 0%N \/ mnz (N.land z nodes) = true) -> 0 <= zfree ns (o_live st) z.

Lemma recheck_resolved nodes st st' : recheck ns nodes st = ([], st') -> resolved nodes st'.
Proof.
  intros H. pose proof (recheck_spec _ _ _ _ H) as [E [f [o ->]]].
  unfold resolved. cbn [set_flags o_zk o_live]. apply check_overcommit_nil. symmetry. exact E.
Qed.

Definition oc_meets (nodes : N) (oc : list (N * Z)) : Prop :=
  forall z a, In (z, a) oc -> nodes = 0%N \/ mnz (N.land z nodes) = true.

Lemma extras_loop_msteps nodes prio : In prio allowed_prios ->
  forall es types st oc moved,
    ids_nodup (o_live st) -> oc_meets nodes oc ->
    match extras_loop ns ex nodes prio es types st oc moved with
    | inl st' => msteps nodes st st' /\ resolved nodes st'
    | inr (st', oc', _) => msteps nodes st st' /\ oc_meets nodes oc'
    end.
Proof.
  intros Hp. induction es as [|e es IH]; intros types st oc moved ND Hoc; cbn [extras_loop].
  - split; [apply mss_refl|exact Hoc].
  - destruct (mnz e && (N.land e (m_types ns) =? 0)%N); [apply IH; assumption|].
    set (types' := if mnz e then N.lor types (N.land e (m_types ns)) else types).
    destruct (shrink_all ns ex oc prio types' st moved) as [st1 moved1] eqn:SA.
    destruct (recheck ns nodes st1) as [oc1 st2] eqn:RC.
    assert (msteps nodes st st1) as M1 by (eapply shrink_all_msteps; eauto).
    destruct (recheck_msteps _ _ _ _ RC) as [M2 [El [Ez Hoc1]]].
    assert (msteps nodes st st2) as M12 by (eapply msteps_trans; eauto).
    destruct oc1 as [|p oc1].
    + split; [exact M12|]. eapply recheck_resolved. exact RC.
    + specialize (IH types' st2 (p :: oc1) moved1).
      assert (ids_nodup (o_live st2)) as ND2 by (eapply msteps_nodup; eauto).
      specialize (IH ND2 Hoc1).
      destruct (extras_loop ns ex nodes prio es types' st2 (p :: oc1) moved1) as [st'|[[st' oc'] m']].
      * destruct IH as [M R]. split; [eapply msteps_trans; eauto|exact R].
      * destruct IH as [M R]. split; [eapply msteps_trans; eauto|exact R].
Qed.

Lemma prios_loop_msteps nodes :
  forall ps, (forall p, In p ps -> In p allowed_prios) ->
  forall st oc moved,
    ids_nodup (o_live st) -> oc_meets nodes oc ->
    match prios_loop ns ex nodes ps st oc moved with
    | inl st' => msteps nodes st st' /\ resolved nodes st'
    | inr (st', oc', _) => msteps nodes st st' /\ oc_meets nodes oc'
    end.
Proof.
  induction ps as [|p ps IH]; intros Hps st oc moved ND Hoc; cbn [prios_loop].
  - split; [apply mss_refl|exact Hoc].
  - pose proof (extras_loop_msteps nodes p (Hps p (or_introl eq_refl)) expand_types 0%N st oc moved ND Hoc) as E.
    destruct (extras_loop ns ex nodes p expand_types 0%N st oc moved) as [st'|[[st' oc'] m']]; [exact E|].
    destruct E as [M1 Hoc'].
    assert (ids_nodup (o_live st')) as ND' by (eapply msteps_nodup; eauto).
    specialize (IH (fun q Hq => Hps q (or_intror Hq)) st' oc' m' ND' Hoc').
    destruct (prios_loop ns ex nodes ps st' oc' m') as [st2|[[st2 oc2] m2]].
    + destruct IH as [M R]. split; [eapply msteps_trans; eauto|exact R].
    + destruct IH as [M R]. split; [eapply msteps_trans; eauto|exact R].
Qed.

Lemma handler_msteps nodes : forall fuel st oc,
  ids_nodup (o_live st) -> oc_meets nodes oc ->
  match handler ns ex fuel nodes st oc with
  | HOk st' => msteps nodes st st' /\ resolved nodes st'
  | HFail st' => msteps nodes st st'
  | HFuel => True
  end.
Proof.
  induction fuel as [|fuel IH]; intros st oc ND Hoc; cbn [handler]; [exact I|].
  pose proof (prios_loop_msteps nodes allowed_prios (fun p H => H) st oc 0 ND Hoc) as P.
  destruct (prios_loop ns ex nodes allowed_prios st oc 0) as [st'|[[st' oc'] m']]; [exact P|].
  destruct P as [M1 Hoc'].
  destruct (m' =? 0); [exact M1|].
  assert (ids_nodup (o_live st')) as ND' by (eapply msteps_nodup; eauto).
  specialize (IH st' oc' ND' Hoc').
  destruct (handler ns ex fuel nodes st' oc') as [st2|st2|].
  - destruct IH as [M R]. split; [eapply msteps_trans; eauto|exact R].
  - eapply msteps_trans; eauto.
  - exact I.
Qed.

Theorem handle_overcommit_msteps nodes st :
  ids_nodup (o_live st) ->
  match handle_overcommit ns ex nodes st with
  | HOk st' => msteps nodes st st' /\ resolved nodes st'
  | HFail st' => msteps nodes st st'
  | HFuel => True
  end.
Proof.
  intros ND. unfold handle_overcommit.
  destruct (recheck ns nodes st) as [oc st1] eqn:RC.
  destruct (recheck_msteps _ _ _ _ RC) as [M1 [El [Ez Hoc]]].
  destruct oc as [|p oc].
  - split; [exact M1|]. eapply recheck_resolved. exact RC.
  - assert (ids_nodup (o_live st1)) as ND1 by (eapply msteps_nodup; eauto).
    pose proof (handler_msteps nodes (handler_fuel ns st1) st1 (p :: oc) ND1 Hoc) as H.
    destruct (handler ns ex (handler_fuel ns st1) nodes st1 (p :: oc)) as [st2|st2|].
    + destruct H as [M R]. split; [eapply msteps_trans; eauto|exact R].
    + eapply msteps_trans; eauto.
    + exact I.
Qed.

End Steps.
