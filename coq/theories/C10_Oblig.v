(* C10: obligations evaluated on the GENERATED schema / Save skeleton / permission checks
   (Gen_Schema.v and Gen_Save.v are re-translated from the source tree on every run, so a source
   change that unexports a required field, adds json:"-", writes the cache file in place or
   relaxes the reject mask makes one of these computations return false and the build fail). *)
From Coq Require Import String ZArith List Bool.
From NV Require Import C10_Model C10_Proofs Gen.Gen_Schema Gen.Gen_Save.
Import ListNotations.
Open Scope string_scope.

Lemma gen_schema_roundtrippable : roundtrippable gen_snapshot = true.
Proof. vm_compute. reflexivity. Qed.

Lemma gen_required_persisted : forallb (persisted gen_schema) required_fields = true.
Proof. vm_compute. reflexivity. Qed.

Lemma gen_snapshot_is_root : lookup "pkg/resmgr/cache.snapshot" gen_schema = Some gen_snapshot.
Proof. vm_compute. reflexivity. Qed.

Lemma gen_snapshot_reloads : forall v, well_typed gen_snapshot v = true ->
  dec gen_snapshot (enc gen_snapshot v) = Some (norm gen_snapshot v).
Proof. intros v H. apply roundtrip; [exact gen_schema_roundtrippable | exact H]. Qed.

Example gen_snapshot_inhabited : well_typed gen_snapshot (zero gen_snapshot) = true.
Proof. vm_compute. reflexivity. Qed.

Lemma gen_load_is_cache_file : gen_load_path = gen_cache_file.
Proof. vm_compute. reflexivity. Qed.

Lemma gen_save_atomic_ok : atomic_prog gen_load_path gen_save_prog = true.
Proof. vm_compute. reflexivity. Qed.

Lemma gen_save_commits_ok : commits_prog gen_load_path gen_save_prog = true.
Proof. vm_compute. reflexivity. Qed.

Lemma gen_save_crash_safe : forall new f f', reach new gen_save_prog f f' ->
  f' gen_load_path = f gen_load_path \/ f' gen_load_path = Some new.
Proof. exact (save_atomic gen_load_path gen_save_prog gen_save_atomic_ok). Qed.

Lemma gen_save_history_safe : forall news f f', hist gen_save_prog news f f' ->
  f' gen_load_path = f gen_load_path \/ exists new, In new news /\ f' gen_load_path = Some new.
Proof. exact (history_atomic gen_load_path gen_save_prog gen_save_atomic_ok). Qed.

Lemma gen_save_completes : forall new f, run new gen_save_prog f gen_load_path = Some new.
Proof. exact (save_commits gen_load_path gen_save_prog gen_save_commits_ok). Qed.

Open Scope Z_scope.

(* every check NewCache performs rejects group- and other-writable entries ... *)
Lemma gen_masks_cover_go_w : forallb (fun c => Z.land (snd c) go_w =? go_w) gen_newcache_checks = true.
Proof. vm_compute. reflexivity. Qed.

(* ... and the cache file (as a file) and the cache directory (as a directory) are among them *)
Lemma gen_checks_cover_file_and_dir :
  existsb (fun c => String.eqb (fst (fst c)) gen_load_path && negb (snd (fst c))) gen_newcache_checks &&
  existsb (fun c => String.eqb (fst (fst c)) "." && snd (fst c)) gen_newcache_checks = true.
Proof. vm_compute. reflexivity. Qed.

Lemma gen_new_cache_refuses : forall look,
  existsb (fun c => unsafe_entry (snd (fst c)) (look (fst (fst c)))) gen_newcache_checks = true ->
  new_cache_accepts gen_newcache_checks look = false.
Proof. intros look. apply new_cache_refuses. exact gen_masks_cover_go_w. Qed.
