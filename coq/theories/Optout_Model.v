(* C12: which resource fields the policies write for a container they (re)apply an allocation to
   (topology-aware applyGrant / updateSharedAllocations / zone-update loops; balloons pinCpuMem).
   Decision tables only; compared with the observed Set* calls of every request. *)
From Coq Require Import Bool List.
Import ListNotations.

Record ta_in := { ti_pin_cpu : bool; ti_pin_mem : bool; ti_cpu_preserve : bool; ti_mem_preserve : bool }.
(* applyGrant: does it call SetCpusetCpus / SetCPUShares / SetCpusetMems ? *)
Definition ta_sets_cpus (i : ta_in) : bool := ti_pin_cpu i && negb (ti_cpu_preserve i).
Definition ta_sets_shares (i : ta_in) : bool := ti_pin_cpu i.
Definition ta_sets_mems (i : ta_in) : bool := negb (ti_mem_preserve i).
(* updateSharedAllocations touches the cpuset of another container only if ... *)
Definition ta_update_shared_sets_cpus (i : ta_in) : bool := ti_pin_cpu i && negb (ti_cpu_preserve i).

Record bln_in := { bi_pin_cpu : bool; bi_pin_mem : bool; bi_type_pin_mem : option bool; bi_mem_preserve : bool }.
Definition bln_pin_mem_eff (i : bln_in) : bool := match bi_type_pin_mem i with Some b => b | None => bi_pin_mem i end.
(* pinCpuMem *)
Definition bln_sets_cpus (i : bln_in) : bool := bi_pin_cpu i.
(* a memory-preserving container is accounted in the memory allocator but its pinning is never written
   (since the repair of the preserved-container rewrite) *)
Definition bln_sets_mems (i : bln_in) : bool := bln_pin_mem_eff i && negb (bi_mem_preserve i).
(* allocMem's loop over the OTHER containers the allocator moved: same rule, per moved container *)
Definition bln_moved_sets_mems (o : bln_in) : bool := bln_pin_mem_eff o && negb (bi_mem_preserve o).

(* correspondence: (decision inputs, observed: cpus written?, mems written?) *)
Definition ta_case_ok (c : ta_in * bool * bool) : bool :=
  let '(i, wc, wm) := c in Bool.eqb (ta_sets_cpus i) wc && Bool.eqb (ta_sets_mems i) wm.
Definition bln_case_ok (c : bln_in * bool * bool) : bool :=
  let '(i, wc, wm) := c in Bool.eqb (bln_sets_cpus i) wc && (implb wm (bln_sets_mems i)).
(* a container other than the one the request is about, whose memory nodes were written in the request *)
Definition bln_moved_case_ok (o : bln_in) : bool := bln_moved_sets_mems o.
Fixpoint bad_cases {A} (ok : A -> bool) (i : nat) (cs : list A) : list nat :=
  match cs with [] => [] | c :: cs' => (if ok c then [] else [i]) ++ bad_cases ok (S i) cs' end.
