(* C19: lemmas.  The property theorems proper are restated in C19_Props.v. *)
From Coq Require Import ZArith Lia List Bool String Ascii.
From NV Require Import Gen.Gen_Affinity C19_Model.
Import ListNotations.
Open Scope string_scope.

(* ------------------------------------------------------------------ strings *)

Lemma split_on_nosep sep k : contains_char sep k = false -> split_on sep k = [k].
Proof.
  induction k as [|c k IH]; cbn; [reflexivity|].
  intros H. apply orb_false_elim in H. destruct H as [Hc Hk].
  rewrite Hc. rewrite (IH Hk). reflexivity.
Qed.

Lemma split_on_app sep k r : contains_char sep k = false ->
  split_on sep (k ++ String sep r) = k :: split_on sep r.
Proof.
  induction k as [|c k IH]; cbn.
  - intros _. rewrite Ascii.eqb_refl. reflexivity.
  - intros H. apply orb_false_elim in H. destruct H as [Hc Hk].
    rewrite Hc. rewrite (IH Hk). reflexivity.
Qed.

Lemma join_cons sep x y t : join sep (x :: y :: t) = x ++ sep ++ join sep (y :: t).
Proof. reflexivity. Qed.

Lemma split_join sep ks : ks <> [] -> Forall (fun k => contains_char sep k = false) ks ->
  split_on sep (join (String sep "") ks) = ks.
Proof.
  induction ks as [|x t IH]; [congruence|].
  intros _ HF. inversion HF as [|? ? Hx Ht]; subst.
  destruct t as [|y t].
  - cbn. apply split_on_nosep. exact Hx.
  - rewrite join_cons. cbn [append].
    rewrite (split_on_app sep x _ Hx). f_equal. apply IH; [congruence|exact Ht].
Qed.

Lemma existsb_map {A B} (f : A -> B) p l : existsb p (map f l) = existsb (fun x => p (f x)) l.
Proof. induction l as [|a l IH]; cbn; [reflexivity|]. rewrite IH. reflexivity. Qed.

Lemma find_app_first {A} (p : A -> bool) l1 d l2 :
  (forall x, List.In x l1 -> p x = false) -> p d = true -> find p (l1 ++ d :: l2)%list = Some d.
Proof.
  induction l1 as [|a l1 IH]; cbn; intros Hn Hd.
  - rewrite Hd. reflexivity.
  - rewrite (Hn a (or_introl eq_refl)). apply IH; [|exact Hd]. intros x Hx. apply Hn. right. exact Hx.
Qed.

Lemma find_none_all {A} (p : A -> bool) l : (forall x, List.In x l -> p x = false) -> find p l = None.
Proof.
  induction l as [|a l IH]; cbn; intros Hn; [reflexivity|].
  rewrite (Hn a (or_introl eq_refl)). apply IH. intros x Hx. apply Hn. right. exact Hx.
Qed.

(* ------------------------------------------------------------------ expressions *)

Section WithStdlib.
  Context (glob : string -> string -> bool * bool) (clean : string -> string).

  Notation evaluate := (evaluate glob clean).
  Notation key_value := (key_value clean).
  Notation resolve_ref := (resolve_ref clean).
  Notation namespace_matches := (namespace_matches glob).
  Notation choose := (choose glob clean).
  Notation choose_in := (choose_in glob clean).
  Notation any_expr := (any_expr glob clean).

  Lemma in_notin_dual k vs s :
    evaluate (Expr k NotIn vs) s = option_map negb (evaluate (Expr k In vs) s) /\
    evaluate (Expr k In vs) s = option_map negb (evaluate (Expr k NotIn vs) s).
  Proof.
    unfold C19_Model.evaluate; cbn. destruct (C19_Model.key_value clean k s) as [v ok].
    cbn. rewrite negb_involutive. split; reflexivity.
  Qed.

  Lemma matches_dual k vs s :
    evaluate (Expr k MatchesNot vs) s = option_map negb (evaluate (Expr k Matches vs) s) /\
    evaluate (Expr k Matches vs) s = option_map negb (evaluate (Expr k MatchesNot vs) s).
  Proof.
    unfold C19_Model.evaluate; cbn. destruct (C19_Model.key_value clean k s) as [v ok].
    destruct ok; destruct vs as [|v0 vs]; cbn; try rewrite negb_involutive; split; reflexivity.
  Qed.

  Lemma matchesany_none_dual k vs s :
    evaluate (Expr k MatchesNone vs) s = option_map negb (evaluate (Expr k MatchesAny vs) s) /\
    evaluate (Expr k MatchesAny vs) s = option_map negb (evaluate (Expr k MatchesNone vs) s).
  Proof.
    unfold C19_Model.evaluate; cbn. destruct (C19_Model.key_value clean k s) as [v ok].
    cbn. rewrite negb_involutive. split; reflexivity.
  Qed.

  Lemma exists_dual k vs s :
    evaluate (Expr k NotExist vs) s = option_map negb (evaluate (Expr k Exists vs) s) /\
    evaluate (Expr k Exists vs) s = option_map negb (evaluate (Expr k NotExist vs) s).
  Proof.
    unfold C19_Model.evaluate; cbn. destruct (C19_Model.key_value clean k s) as [v ok].
    cbn. rewrite negb_involutive. split; reflexivity.
  Qed.

  (* documented meaning of the operators in terms of the key's value *)
  Lemma in_loop_existsb value vs acc :
    fold_left (fun r v => if (value =? v) || (v =? "*") then true else r) vs acc =
    acc || existsb (fun v => (value =? v) || (v =? "*")) vs.
  Proof.
    revert acc. induction vs as [|v vs IH]; intros acc; cbn.
    - rewrite orb_false_r. reflexivity.
    - rewrite IH. destruct ((value =? v) || (v =? "*")); cbn.
      + rewrite orb_true_r. reflexivity.
      + reflexivity.
  Qed.

  Lemma in_spec k vs s :
    evaluate (Expr k In vs) s =
    Some (snd (key_value k s) && existsb (fun v => (fst (key_value k s) =? v) || (v =? "*")) vs).
  Proof.
    unfold C19_Model.evaluate; cbn. destruct (C19_Model.key_value clean k s) as [v ok]. cbn.
    unfold in_loop. rewrite in_loop_existsb. destruct ok; reflexivity.
  Qed.

  Lemma matchesany_spec k vs s :
    evaluate (Expr k MatchesAny vs) s =
    Some (snd (key_value k s) && existsb (fun p => fst (glob p (fst (key_value k s)))) vs).
  Proof.
    unfold C19_Model.evaluate; cbn. destruct (C19_Model.key_value clean k s) as [v ok]. cbn.
    destruct ok; reflexivity.
  Qed.

  Lemma exists_spec k s : evaluate (Expr k Exists []) s = Some (snd (key_value k s)).
  Proof.
    unfold C19_Model.evaluate; cbn. destruct (C19_Model.key_value clean k s) as [v ok]. reflexivity.
  Qed.

  Lemma equals_spec k v0 s :
    evaluate (Expr k Equals [v0]) s = Some (snd (key_value k s) && ((fst (key_value k s) =? v0) || (v0 =? "*"))).
  Proof.
    unfold C19_Model.evaluate; cbn. destruct (C19_Model.key_value clean k s) as [v ok]. destruct ok; reflexivity.
  Qed.

  Lemma matches_spec k p s :
    evaluate (Expr k Matches [p]) s = Some (snd (key_value k s) && fst (glob p (fst (key_value k s)))).
  Proof.
    unfold C19_Model.evaluate; cbn. destruct (C19_Model.key_value clean k s) as [v ok]. destruct ok; reflexivity.
  Qed.

  (* ---------------------------------------------------------------- joint keys *)

  Definition joint_value (vsep : ascii) (ks : list string) (s : subject) : string * bool :=
    (join (String vsep "") (map (fun k => dflt_str (resolve_ref s k)) ks),
     existsb (fun k => is_some (resolve_ref s k)) ks).

  Lemma key_value_of_split ks vsep s : ks <> [] ->
    match ks with
    | [k] => match resolve_ref s k with Some v => (v, true) | None => ("", false) end
    | _ => (join (String vsep "") (map dflt_str (map (resolve_ref s) ks)), existsb is_some (map (resolve_ref s) ks))
    end = joint_value vsep ks s.
  Proof.
    intros Hne. unfold joint_value. destruct ks as [|k [|k2 t]]; [congruence| |].
    - cbn [map join existsb]. destruct (resolve_ref s k); reflexivity.
    - rewrite map_map, existsb_map. reflexivity.
  Qed.

  Lemma joint_full ksep vsep ks s :
    valid_separator ksep = true -> valid_separator vsep = true ->
    ks <> [] -> Forall (fun k => contains_char ksep k = false) ks ->
    join (String ksep "") ks <> "" ->
    key_value (String ":" (String ksep (String vsep (join (String ksep "") ks)))) s = joint_value vsep ks s.
  Proof.
    intros Hk Hv Hne HF Hj.
    pose proof (split_join ksep ks Hne HF) as Hs.
    unfold C19_Model.key_value, split_keys.
    destruct (join (String ksep "") ks) as [|c3 rest] eqn:E; [congruence|].
    rewrite Ascii.eqb_refl, Hk, Hv. cbn [andb]. rewrite Hs.
    pose proof (key_value_of_split ks vsep s Hne) as K.
    destruct ks as [|k [|k2 t]]; [congruence| exact K | exact K].
  Qed.

  Lemma joint_simple ks s k v c3 rest :
    ks <> [] -> Forall (fun k => contains_char ":" k = false) ks ->
    join ":" ks = String k (String v (String c3 rest)) ->
    valid_separator k && valid_separator v = false ->
    key_value (String ":" (join ":" ks)) s = joint_value ":" ks s.
  Proof.
    intros Hne HF E Hsep.
    pose proof (split_join ":" ks Hne HF) as Hs.
    unfold C19_Model.key_value, split_keys.
    rewrite E in *. rewrite Ascii.eqb_refl, Hsep. rewrite Hs.
    pose proof (key_value_of_split ks ":" s Hne) as K.
    destruct ks as [|k1 [|k2 t]]; [congruence| exact K | exact K].
  Qed.

  (* ":" ++ keylist is equivalent to ":::" ++ keylist *)
  Lemma joint_simple_equiv ks s k v c3 rest :
    ks <> [] -> Forall (fun k => contains_char ":" k = false) ks ->
    join ":" ks = String k (String v (String c3 rest)) ->
    valid_separator k && valid_separator v = false ->
    key_value (String ":" (join ":" ks)) s = key_value (String ":" (String ":" (String ":" (join ":" ks)))) s.
  Proof.
    intros Hne HF E Hsep.
    rewrite (joint_simple ks s k v c3 rest Hne HF E Hsep).
    symmetry. apply joint_full; try reflexivity; try assumption.
    rewrite E. discriminate.
  Qed.

  (* ---------------------------------------------------------------- totality *)

  Lemma validated_total e s : validate e = true -> evaluate e s <> None.
  Proof.
    destruct e as [k o vs]. unfold validate, C19_Model.evaluate. cbn.
    intros H. apply andb_prop in H. destruct H as [_ H].
    destruct o; try discriminate;
      destruct (C19_Model.key_value clean k s) as [v ok]; destruct ok; destruct vs as [|v0 [|v1 vs]];
      cbn in *; congruence.
  Qed.

  (* ---------------------------------------------------------------- balloon types *)

  Definition eval_true (s : subject) (e : expr) : bool :=
    match evaluate e s with Some true => true | _ => false end.

  Definition ns_pat_match (ns p : string) : bool := negb (snd (glob p ns)) && fst (glob p ns).

  Definition def_matches (s : subject) (ns : string) (d : bdef) : bool :=
    existsb (eval_true s) (d_match d) || existsb (ns_pat_match ns) (d_ns d).

  Definition all_validated (defs : list bdef) : Prop :=
    forall d e, List.In d defs -> List.In e (d_match d) -> validate e = true.

  Lemma any_expr_validated es s : (forall e, List.In e es -> validate e = true) ->
    any_expr es s = Some (existsb (eval_true s) es).
  Proof.
    induction es as [|e es IH]; cbn; intros Hv; [reflexivity|].
    pose proof (validated_total e s (Hv e (or_introl eq_refl))) as Ht.
    unfold eval_true at 1.
    destruct (evaluate e s) as [[|]|]; [reflexivity| |congruence].
    cbn. apply IH. intros e' He'. apply Hv. right. exact He'.
  Qed.

  Lemma choose_in_step d t dflt s ns : (forall e, List.In e (d_match d) -> validate e = true) ->
    choose_in (d :: t) dflt s ns = if def_matches s ns d then ChDef d else choose_in t dflt s ns.
  Proof.
    intros Hv. cbn. rewrite (any_expr_validated _ s Hv). unfold def_matches, C19_Model.namespace_matches.
    destruct (existsb (eval_true s) (d_match d)); cbn; [reflexivity|].
    fold (ns_pat_match ns). reflexivity.
  Qed.

  Lemma choose_in_first l1 d l2 dflt s ns : all_validated (l1 ++ d :: l2)%list ->
    (forall x, List.In x l1 -> def_matches s ns x = false) -> def_matches s ns d = true ->
    choose_in (l1 ++ d :: l2)%list dflt s ns = ChDef d.
  Proof.
    induction l1 as [|a l1 IH]; intros Hv Hn Hd.
    - cbn [app]. rewrite choose_in_step; [rewrite Hd; reflexivity|].
      intros e He. apply (Hv d e); [left; reflexivity|exact He].
    - cbn [app]. rewrite choose_in_step.
      + rewrite (Hn a (or_introl eq_refl)). apply IH; [|intros x Hx; apply Hn; right; exact Hx|exact Hd].
        intros d' e Hd' He. apply (Hv d' e); [right; exact Hd'|exact He].
      + intros e He. apply (Hv a e); [left; reflexivity|exact He].
  Qed.

  Lemma choose_in_none defs dflt s ns : all_validated defs ->
    (forall x, List.In x defs -> def_matches s ns x = false) -> choose_in defs dflt s ns = ChDef dflt.
  Proof.
    induction defs as [|a l IH]; intros Hv Hn; [reflexivity|].
    rewrite choose_in_step.
    - rewrite (Hn a (or_introl eq_refl)). apply IH; [|intros x Hx; apply Hn; right; exact Hx].
      intros d' e Hd' He. apply (Hv d' e); [right; exact Hd'|exact He].
    - intros e He. apply (Hv a e); [left; reflexivity|exact He].
  Qed.

  Lemma choose_spec defs dflt s ns : all_validated defs ->
    (* effective annotation present: the first type carrying that name, or an error *)
    (forall n l1 d l2, defs = (l1 ++ d :: l2)%list -> d_name d = n -> (forall x, List.In x l1 -> d_name x <> n) ->
        choose defs dflt (Some n) s ns = ChDef d) /\
    (forall n, (forall x, List.In x defs -> d_name x <> n) -> choose defs dflt (Some n) s ns = ChErr) /\
    (* no annotation: first type in list order with a matching expression or namespace pattern *)
    (forall l1 d l2, defs = (l1 ++ d :: l2)%list -> def_matches s ns d = true ->
        (forall x, List.In x l1 -> def_matches s ns x = false) -> choose defs dflt None s ns = ChDef d) /\
    (* otherwise the default type *)
    ((forall x, List.In x defs -> def_matches s ns x = false) -> choose defs dflt None s ns = ChDef dflt).
  Proof.
    intros Hv. repeat split.
    - intros n l1 d l2 -> Hd Hn. unfold C19_Model.choose.
      rewrite (find_app_first (fun d => d_name d =? n) l1 d l2); [reflexivity| |apply String.eqb_eq; exact Hd].
      intros x Hx. apply String.eqb_neq. apply Hn. exact Hx.
    - intros n Hn. unfold C19_Model.choose. rewrite find_none_all; [reflexivity|].
      intros x Hx. apply String.eqb_neq. apply Hn. exact Hx.
    - intros l1 d l2 -> Hd Hn. cbn. apply choose_in_first; assumption.
    - intros Hn. cbn. apply choose_in_none; assumption.
  Qed.

  Lemma choose_no_panic defs dflt ann s ns : all_validated defs -> choose defs dflt ann s ns <> ChPanic.
  Proof.
    intros Hv. destruct ann as [n|]; cbn.
    - destruct (find _ defs); discriminate.
    - induction defs as [|a l IH]; [discriminate|].
      rewrite choose_in_step.
      + destruct (def_matches s ns a); [discriminate|]. apply IH.
        intros d' e Hd' He. apply (Hv d' e); [right; exact Hd'|exact He].
      + intros e He. apply (Hv a e); [left; reflexivity|exact He].
  Qed.

  (* ---------------------------------------------------------------- effective configuration *)

  Lemma fill_builtin_in o d : List.In d (fill_builtin o) ->
    exists d0, (List.In d0 (o_defs o) \/ d0 = BDef reserved_name [] [] \/ d0 = BDef default_name [] []) /\
               d_name d = d_name d0 /\ d_match d = d_match d0.
  Proof.
    unfold fill_builtin. intros H. apply in_map_iff in H. destruct H as [d0 [E H]].
    exists d0. split.
    - destruct (existsb (fun d => d_name d =? default_name) (o_defs o)).
      + destruct (existsb (fun d => d_name d =? reserved_name) (o_defs o)).
        * left. exact H.
        * destruct H as [H|H]; [right; left; symmetry; exact H|left; exact H].
      + apply in_app_or in H. destruct H as [H|H].
        * destruct (existsb (fun d => d_name d =? reserved_name) (o_defs o)).
          -- left. exact H.
          -- destruct H as [H|H]; [right; left; symmetry; exact H|left; exact H].
        * destruct H as [H|[]]. right. right. symmetry. exact H.
    - destruct (d_name d0 =? reserved_name); subst d; split; reflexivity.
  Qed.

  Lemma eff_config_validated o defs dflt : eff_config o = Some (defs, dflt) -> all_validated defs.
  Proof.
    unfold eff_config. destruct (forallb _ (o_defs o)) eqn:Hall; cbn [negb]; [|discriminate].
    destruct (_ || _); [discriminate|]. destruct (find _ _); [|discriminate].
    intros E. inversion E; subst. clear E.
    intros d e Hd He. apply fill_builtin_in in Hd. destruct Hd as [d0 [Hin [_ Hm]]].
    rewrite Hm in He. destruct Hin as [Hin|[->| ->]]; [|destruct He|destruct He].
    rewrite forallb_forall in Hall. specialize (Hall d0 Hin). rewrite forallb_forall in Hall.
    apply Hall. exact He.
  Qed.

  Lemma eff_config_defs o defs dflt : eff_config o = Some (defs, dflt) ->
    defs = fill_builtin o /\ List.In dflt defs /\ d_name dflt = default_name.
  Proof.
    unfold eff_config. destruct (forallb _ (o_defs o)); cbn [negb]; [|discriminate].
    destruct (_ || _); [discriminate|]. destruct (find _ _) eqn:F; [|discriminate].
    intros E. inversion E; subst. clear E. apply find_some in F. destruct F as [Hin Hn].
    split; [reflexivity|]. split; [exact Hin|]. apply String.eqb_eq. exact Hn.
  Qed.

  Lemma namespace_matches_app ns l1 l2 :
    namespace_matches ns (l1 ++ l2)%list = namespace_matches ns l1 || namespace_matches ns l2.
  Proof. unfold C19_Model.namespace_matches. apply existsb_app. Qed.

  (* the reserved type of an accepted configuration matches kube-system (whatever namespace the
     literal pattern "kube-system" matches) and every configured reserved namespace pattern *)
  Lemma reserved_matches o defs dflt : eff_config o = Some (defs, dflt) ->
    exists r, List.In r defs /\ d_name r = reserved_name /\
      forall ns, ns_pat_match ns kube_system = true \/ namespace_matches ns (reserved_ns_of o) = true ->
                 namespace_matches ns (d_ns r) = true.
  Proof.
    intros E. apply eff_config_defs in E. destruct E as [-> _].
    assert (exists d0, List.In d0 (if existsb (fun d => d_name d =? default_name) (o_defs o)
                              then (if existsb (fun d => d_name d =? reserved_name) (o_defs o) then o_defs o
                                    else BDef reserved_name [] [] :: o_defs o)
                              else ((if existsb (fun d => d_name d =? reserved_name) (o_defs o) then o_defs o
                                     else BDef reserved_name [] [] :: o_defs o) ++ [BDef default_name [] []])%list)
                       /\ d_name d0 = reserved_name) as [d0 [Hin Hn]].
    { destruct (existsb (fun d => d_name d =? reserved_name) (o_defs o)) eqn:Hr.
      - apply existsb_exists in Hr. destruct Hr as [d0 [Hin Hn]]. apply String.eqb_eq in Hn.
        exists d0. split; [|exact Hn].
        destruct (existsb (fun d => d_name d =? default_name) (o_defs o)); [exact Hin|].
        apply in_or_app. left. exact Hin.
      - exists (BDef reserved_name [] []). split; [|reflexivity].
        destruct (existsb (fun d => d_name d =? default_name) (o_defs o)); [left; reflexivity|].
        apply in_or_app. left. left. reflexivity. }
    exists (BDef (d_name d0) (d_match d0) (d_ns d0 ++ kube_system :: reserved_ns_of o)%list).
    split; [|split].
    - unfold fill_builtin. apply in_map_iff. exists d0. split; [|exact Hin].
      rewrite Hn. rewrite String.eqb_refl. reflexivity.
    - exact Hn.
    - intros ns H. cbn [d_ns]. rewrite namespace_matches_app. apply orb_true_iff. right.
      unfold C19_Model.namespace_matches. cbn [existsb]. fold (ns_pat_match ns kube_system).
      apply orb_true_iff. destruct H as [H|H]; [left; exact H|right; exact H].
  Qed.

  (* no type named "reserved" configured: the implicit one is first in the order *)
  Lemma implicit_reserved_first o defs dflt : eff_config o = Some (defs, dflt) ->
    existsb (fun d => d_name d =? reserved_name) (o_defs o) = false ->
    exists rest, defs = BDef reserved_name [] (kube_system :: reserved_ns_of o) :: rest.
  Proof.
    intros E Hr. apply eff_config_defs in E. destruct E as [-> _].
    unfold fill_builtin. rewrite Hr.
    destruct (existsb (fun d => d_name d =? default_name) (o_defs o)); cbn [map app];
      rewrite String.eqb_refl; cbn [d_name d_match d_ns app]; eexists; reflexivity.
  Qed.

  Lemma implicit_reserved_chosen o defs dflt s ns : eff_config o = Some (defs, dflt) ->
    existsb (fun d => d_name d =? reserved_name) (o_defs o) = false ->
    ns_pat_match ns kube_system = true \/ namespace_matches ns (reserved_ns_of o) = true ->
    exists r, choose defs dflt None s ns = ChDef r /\ d_name r = reserved_name.
  Proof.
    intros E Hr H. destruct (implicit_reserved_first o defs dflt E Hr) as [rest ->].
    exists (BDef reserved_name [] (kube_system :: reserved_ns_of o)). split; [|reflexivity]. cbn.
    unfold C19_Model.namespace_matches. cbn [existsb]. fold (ns_pat_match ns kube_system).
    destruct H as [H|H].
    - rewrite H. reflexivity.
    - unfold C19_Model.namespace_matches in H. rewrite H. rewrite orb_true_r. reflexivity.
  Qed.
End WithStdlib.

(* the literal pattern kube-system matches the namespace kube-system for the modelled Match *)
Lemma glob_impl_kube_system : ns_pat_match glob_impl kube_system kube_system = true.
Proof. vm_compute. reflexivity. Qed.

(* ------------------------------------------------------------------ affinity weights *)
Open Scope Z_scope.
Ltac Zify.zify_post_hook ::= Z.to_euclidean_division_equations.

Ltac bdestr :=
  repeat match goal with |- context [if ?b then _ else _] => destruct b eqn:? end;
  repeat match goal with H : (_ >? _) = _ |- _ => rewrite Z.gtb_ltb in H end;
  repeat match goal with
         | H : (_ <? _) = true |- _ => apply Z.ltb_lt in H
         | H : (_ <? _) = false |- _ => apply Z.ltb_ge in H
         | H : (_ =? _) = true |- _ => apply Z.eqb_eq in H
         | H : (_ =? _) = false |- _ => apply Z.eqb_neq in H
         end.

Lemma clamp_range w : - AFF_UserWeightCutoff <= clamp_weight w <= AFF_UserWeightCutoff.
Proof. unfold clamp_weight. cbv [AFF_UserWeightCutoff]. bdestr; lia. Qed.

Lemma weight_clamped dflt w : - AFF_UserWeightCutoff <= full_weight dflt w <= AFF_UserWeightCutoff.
Proof. unfold full_weight. apply clamp_range. Qed.

Lemma weight_in_range_kept dflt w : w <> 0 -> - AFF_UserWeightCutoff <= w <= AFF_UserWeightCutoff ->
  full_weight dflt w = if dflt <? 0 then - w else w.
Proof.
  intros Hw Hr. unfold full_weight, clamp_weight, wrap32. cbv [AFF_UserWeightCutoff] in *.
  change (2^31) with 2147483648. change (2^32) with 4294967296.
  destruct (Z.eqb_spec w 0) as [|_]; [contradiction|].
  destruct (dflt <? 0); bdestr; lia.
Qed.

Lemma weight_default dflt : - AFF_UserWeightCutoff <= dflt <= AFF_UserWeightCutoff -> full_weight dflt 0 = dflt.
Proof.
  intros Hr. unfold full_weight, clamp_weight. cbv [AFF_UserWeightCutoff] in *. cbn [Z.eqb].
  bdestr; lia.
Qed.
