(* C19: lemmas (stub). *)
From Coq Require Import ZArith List Bool String Ascii.
From NV Require Import C19_Model.
