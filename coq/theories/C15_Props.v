(* C15 -- property theorems only.  Each is closed by [exact] of a lemma from C15_Proofs and
   followed by Print Assumptions.  They are about lock/access skeletons (C15_Model); the
   skeletons of the real handlers are regenerated from the source into Gen/Gen_Locks.v by
   tools/locks2coq on every run, and the hypotheses [forallb well_locked ... = true] /
   [fetch_obligation ... = true] are evaluated on them by the check (checks/c15.py). *)
From Coq Require Import List Arith Bool.
From NV Require Import C15_Model C15_Proofs.
Import ListNotations.

(* "no two handlers access the cache or the policy without mutual exclusion":
   in every reachable state of every schedule of every well-locked handler set, at most one
   thread has an Access as its next step ... *)
Theorem C15_well_locked_race_free : forall hs tr s i j,
  forallb well_locked hs = true -> run (init hs) tr s ->
  next s i = Some Access -> next s j = Some Access -> i = j.
Proof. exact well_locked_race_free. Qed.
Print Assumptions C15_well_locked_race_free.

(* ... and that thread holds the pipeline lock *)
Theorem C15_access_by_lock_owner : forall hs tr s i,
  forallb well_locked hs = true -> run (init hs) tr s ->
  next s i = Some Access -> own s = Some i.
Proof. exact well_locked_access_owner. Qed.
Print Assumptions C15_access_by_lock_owner.

(* "the combined effect equals that of some sequential order": the global order of accesses of
   ANY execution is the concatenation of the critical sections in lock-acquisition order --
   sections never interleave, nothing is accessed outside a section *)
Theorem C15_well_locked_serializable_sections : forall hs tr s,
  forallb well_locked hs = true -> run (init hs) tr s ->
  accs tr = serial_accs (sections tr).
Proof. exact sections_serial. Qed.
Print Assumptions C15_well_locked_serializable_sections.

(* ... and for requests with one critical section each (Lock; Access*; Unlock -- what every
   extracted handler is, obligation gen_handlers_one_section): every complete execution has the
   same global access order as the SERIAL schedule that runs the requests one at a time, to
   completion, in lock-acquisition order; that serial schedule is itself an execution *)
Theorem C15_well_locked_serializable : forall hs tr s,
  forallb one_section hs = true -> run (init hs) tr s -> finished s = true ->
  exists pi s2,
    NoDup pi /\ (forall k, In k pi -> k < length hs) /\
    run (init hs) (serial_trace hs pi) s2 /\ finished s2 = true /\
    accs (serial_trace hs pi) = accs tr.
Proof. exact well_locked_serializable. Qed.
Print Assumptions C15_well_locked_serializable.

(* one-section requests are well-locked, so all theorems above apply to them *)
Theorem C15_one_section_well_locked : forall hs,
  forallb one_section hs = true -> forallb well_locked hs = true.
Proof. exact forallb_one_section_wl. Qed.
Print Assumptions C15_one_section_well_locked.

(* "no request deadlocks": a reachable state in which some thread is unfinished always has an
   enabled step ... *)
Theorem C15_no_deadlock : forall hs tr s,
  forallb well_locked hs = true -> run (init hs) tr s ->
  finished s = false -> exists i s', exec s i = Some s'.
Proof. exact no_deadlock. Qed.
Print Assumptions C15_no_deadlock.

(* ... and every execution is finite (each step consumes one unit of the program text), so
   every maximal execution ends with all requests completed *)
Theorem C15_bounded : forall s tr s', run s tr s' -> length tr + total s' = total s.
Proof. exact run_length. Qed.
Print Assumptions C15_bounded.

(* "a pod's resources that are being fetched asynchronously are observed by every later
   reader once the fetch has been started".  System: thread 0 runs the fetch-starting code f
   and then lets n readers r loose, thread 1 is the fetch goroutine.  If the wait channel is
   created before the goroutine is spawned (creator_pre) and readers wait before they read: *)
Theorem C15_fetch_visible : forall f r n tr s k rest,
  creator_pre (fetch_system f r 0) CNone = true -> reader_ok r = true ->
  run (init [fetch_system f r n]) tr s ->
  nth_error (thr s) (S (S k)) = Some (Access :: rest) ->
  ch s = CClosed /\ nth_error (thr s) 1 = Some [].
Proof. exact fetch_visible. Qed.
Print Assumptions C15_fetch_visible.

(* every reader at its wait either blocks (fetch in flight) or passes with the fetch complete *)
Theorem C15_fetch_wait : forall f r n tr s k rest,
  creator_pre (fetch_system f r 0) CNone = true -> reader_ok r = true ->
  run (init [fetch_system f r n]) tr s ->
  nth_error (thr s) (S (S k)) = Some (Wait :: rest) ->
  (ch s = COpen /\ exec s (S (S k)) = None) \/ (ch s = CClosed /\ nth_error (thr s) 1 = Some []).
Proof. exact fetch_wait. Qed.
Print Assumptions C15_fetch_wait.

(* the rendezvous never gets stuck *)
Theorem C15_fetch_no_deadlock : forall f r n tr s,
  creator_pre (fetch_system f r 0) CNone = true -> reader_ok r = true ->
  run (init [fetch_system f r n]) tr s ->
  finished s = false -> exists i s', exec s i = Some s'.
Proof. exact fetch_no_deadlock. Qed.
Print Assumptions C15_fetch_no_deadlock.

(* the shape the code had before the fix (channel created inside the goroutine) does NOT have
   the property: there is a schedule in which a reader is about to read while the goroutine has
   not even created the channel *)
Theorem C15_fetch_refuted_when_channel_made_in_goroutine :
  exists sched s,
    run_sched (init [fetch_system [Spawn [ChanMake; Access; Signal]] [Wait; Access] 1]) sched = Some s /\
    nth_error (thr s) 2 = Some [Access] /\ nth_error (thr s) 1 = Some [ChanMake; Access; Signal].
Proof. exact fetch_refuted. Qed.
Print Assumptions C15_fetch_refuted_when_channel_made_in_goroutine.

(* hypotheses are satisfiable, and an unlocked access is really rejected *)
Example C15_example_well_locked :
  forallb well_locked [[Lock; Access; Access; Unlock]; []; [Lock; Spawn [Lock; Access; Unlock]; Unlock]] = true
  /\ well_locked [Access; Lock; Access; Unlock] = false
  /\ well_locked [Lock; Access; Unlock; Spawn [Access]] = false
  /\ forallb one_section [[Lock; Access; Access; Unlock]; []; [Lock; Unlock]] = true
  /\ creator_pre (fetch_system [ChanMake; Spawn [Access; Signal]; Access] [Wait; Access] 0) CNone = true
  /\ fetch_obligation [Spawn [ChanMake; Access; Signal]] [Wait; Access] = false.
Proof. repeat split. Qed.
