(* Topology-aware: shared CPU capacity is never oversubscribed (C03, first clause) --
   for all histories whose exclusive allocations pass the guard [desc_safeb], which the
   code does not enforce (known finding K2; refuted without it, see capacity_refuted). *)
From Coq Require Import ZArith List Bool Lia.
From stdpp Require Import gmap sets fin_sets.
From NV Require Import TA_Model TA_Proofs TA_Capacity.
Import ListNotations.
Open Scope Z_scope.

(* ---- sums over pools ---- *)
Definition gsum (a : nat -> bool) (g : nat -> Z) (l : list nat) : Z :=
  fold_right Z.add 0 (map (fun d => if a d then g d else 0) l).

Lemma gsum_upd a g p d l : NoDup l ->
  gsum a (upd g p (g p + d)) l = gsum a g l + (if a p && existsb (Nat.eqb p) l then d else 0).
Proof.
  unfold gsum. induction l as [|x l IH]; intros Hnd; cbn [map fold_right existsb].
  - rewrite andb_false_r. lia.
  - inversion Hnd as [|? ? Hnin Hnd']; subst. rewrite (IH Hnd'). rewrite upd_add.
    destruct (Nat.eqb p x) eqn:E.
    + apply Nat.eqb_eq in E. subst x.
      assert (Hn : existsb (Nat.eqb p) l = false).
      { apply not_true_is_false. intros H. apply existsb_exists in H as (y & Hy & Hpy). apply Nat.eqb_eq in Hpy. subst. apply Hnin. apply elem_of_list_In. exact Hy. }
      rewrite Hn. cbn [orb]. rewrite andb_false_r, andb_true_r. destruct (a p); lia.
    + cbn [orb]. destruct (a x); lia.
Qed.

Lemma gsum_ext a g g' l : (forall x, In x l -> g x = g' x) -> gsum a g l = gsum a g' l.
Proof.
  unfold gsum. induction l as [|x l IH]; intros H; cbn [map fold_right]; [reflexivity|].
  rewrite IH by (intros y Hy; apply H; right; exact Hy). rewrite (H x) by (left; reflexivity). reflexivity.
Qed.

Lemma fold_min_le_init x l : fold_right Z.min x l <= x.
Proof. induction l as [|y l IH]; cbn [fold_right]; lia. Qed.
Lemma fold_min_le_elem x l y : In y l -> fold_right Z.min x l <= y.
Proof. induction l as [|z l IH]; cbn [fold_right]; intros H; [contradiction|]. destruct H as [->|H]; [lia|]. specialize (IH H). lia. Qed.

Lemma csize_difference_ge (A X : cset) : csize A - csize X <= csize (A ∖ X).
Proof.
  unfold csize. rewrite size_difference_alt.
  assert (size (A ∩ X) <= size X)%nat by (apply subseteq_size; set_solver).
  assert (size (A ∩ X) <= size A)%nat by (apply subseteq_size; set_solver).
  lia.
Qed.
Lemma csize_mono (A B : cset) : A ⊆ B -> csize A <= csize B.
Proof. intros H. unfold csize. apply subseteq_size in H. lia. Qed.
Lemma csize_disjoint_difference (A X : cset) : A ## X -> A ∖ X = A.
Proof. intros H. set_solver. Qed.

Section cap.
Context (t : tree).

Lemma granted_sub_gsum g q : granted_sub t g q = gsum (anc t q) g (pools t).
Proof. reflexivity. Qed.

Lemma pools_NoDup : NoDup (pools t).
Proof. unfold pools. apply NoDup_seq. Qed.
Lemma in_pools_iff q : In q (pools t) <-> (q < length t)%nat.
Proof. unfold pools. rewrite in_seq. lia. Qed.

Lemma granted_sub_upd g p d q : (p < length t)%nat ->
  granted_sub t (upd g p (g p + d)) q = granted_sub t g q + (if anc t q p then d else 0).
Proof.
  intros Hp. rewrite !granted_sub_gsum, gsum_upd by exact pools_NoDup.
  assert (He : existsb (Nat.eqb p) (pools t) = true).
  { apply existsb_exists. exists p. split; [apply in_pools_iff; exact Hp|apply Nat.eqb_refl]. }
  rewrite He, andb_true_r. reflexivity.
Qed.

Lemma alloc_shared_le s p a : anc t a p = true -> (a < length t)%nat ->
  alloc_shared t s p <= free_shared_at t s a.
Proof.
  intros Ha Hlt. unfold alloc_shared. destruct (Nat.eqb a p) eqn:E.
  - apply Nat.eqb_eq in E. subst. apply fold_min_le_init.
  - apply fold_min_le_elem. apply in_map. apply elem_of_list_In. apply elem_of_list_filter.
    split; [rewrite Ha, E; exact I|apply elem_of_list_In, in_pools_iff; exact Hlt].
Qed.

(* the capacity invariant: what is granted in a pool's subtree fits the CPUs left in its shared set *)
Definition Cap (s : st) : Prop :=
  forall q, (q < length t)%nat -> granted_sub t (gr_shared s) q <= 1000 * csize (free_shar s q).

Record tree_wf2 : Prop := {
  wf2_base : tree_wf t;
  wf2_iso_shar : forall p q, p_iso (pool_at t p) ## p_shar (pool_at t q);
}.

Lemma Cap_init : Cap (init t).
Proof.
  intros q _. unfold init. cbn [gr_shared free_shar]. rewrite granted_sub_gsum. unfold gsum.
  assert (H : forall l, fold_right Z.add 0 (map (fun d : nat => if anc t q d then 0 else 0) l) = 0).
  { induction l as [|x l IH]; cbn [map fold_right]; [reflexivity|]. rewrite IH. destruct (anc t q x); reflexivity. }
  rewrite H. unfold csize. lia.
Qed.

(* relational summary of a successful AllocateCPU / Reserve: the free shared sets lose X, the
   pool's ledger gains fr, and the capacity checks the code performed bound every ancestor *)
Definition cap_shape (s : st) (p : nat) (X : cset) (s' : st) : Prop :=
  free_shar s' = free_shar (account_alloc t s p X) /\
  exists fr, 0 <= fr /\ (forall q, gr_shared s' q = upd (gr_shared s) p (gr_shared s p + fr) q) /\
    (forall a, anc t a p = true -> (a < length t)%nat ->
               granted_sub t (gr_shared s) a + fr <= 1000 * csize (free_shar s a ∖ X)).

Lemma granted_sub_ext g g' q : (forall x, g x = g' x) -> granted_sub t g q = granted_sub t g' q.
Proof. intros H. rewrite !granted_sub_gsum. apply gsum_ext. intros x _. apply H. Qed.

Lemma upd_zero f p q : upd f p (f p + 0) q = f q.
Proof. rewrite upd_add. destruct (Nat.eqb p q); lia. Qed.

(* removing CPUs that come from the isolated set does not shrink any shared set *)
Lemma iso_part_harmless s p a (X : cset) : tree_wf2 -> Inv t s -> X ⊆ free_iso s p -> free_shar s a ∖ X = free_shar s a.
Proof.
  intros Hwf HI HX. apply csize_disjoint_difference. intros x H1 H2. apply HX in H2.
  apply (inv_free_shar t s HI) in H1 as [H1 _]. apply (inv_free_iso t s HI) in H2 as [H2 _].
  exact (wf2_iso_shar Hwf p a x H2 H1).
Qed.

Lemma ta_alloc_cap s cid r p X s' :
  tree_wf2 -> Inv t s -> Cap s -> (p < length t)%nat -> ta_alloc t s cid r p X = Ok s' -> cap_shape s p X s'.
Proof.
  intros Hwf HI HC Hp. unfold ta_alloc, cap_shape.
  set (full := eff_full r). set (frac := eff_frac r).
  set (ty := match r_type r with CpuReserved => _ | x => x end).
  (* bound on every ancestor-or-self after removing Y, from the check made before slicing *)
  assert (Anc0 : forall Y, (Y = ∅ \/ Y ⊆ free_iso s p \/ (Y ⊆ free_shar s p /\ 1000 * csize Y < alloc_shared t s p)) ->
            forall a, anc t a p = true -> (a < length t)%nat ->
            granted_sub t (gr_shared s) a <= 1000 * csize (free_shar s a ∖ Y)).
  { intros Y HY a Ha Hlt. destruct HY as [->|[HYi|[HYs Hcap]]].
    - rewrite difference_empty_L. apply HC; exact Hlt.
    - rewrite (iso_part_harmless s p a Y Hwf HI HYi). apply HC; exact Hlt.
    - pose proof (alloc_shared_le s p a Ha Hlt) as Hle. unfold free_shared_at in Hle.
      pose proof (csize_difference_ge (free_shar s a) Y). lia. }
  assert (Body : forall Y, (Y = ∅ \/ Y ⊆ free_iso s p \/ (Y ⊆ free_shar s p /\ 1000 * csize Y < alloc_shared t s p)) ->
    (if 0 <? frac
     then match ty with
          | CpuNormal => if alloc_shared t (account_alloc t s p Y) p <? frac then Err ErrNoCapacity
                         else Ok (set_grants (add_shared (account_alloc t s p Y) p frac)
                                   (<[cid := {| g_pool := p; g_excl := Y; g_type := ty; g_portion := frac |}]> (grants (account_alloc t s p Y))))
          | CpuReserved => if alloc_reserved t (account_alloc t s p Y) p <? frac then Err ErrNoCapacity
                           else Ok (set_grants (add_reserved (account_alloc t s p Y) p frac)
                                     (<[cid := {| g_pool := p; g_excl := Y; g_type := ty; g_portion := frac |}]> (grants (account_alloc t s p Y))))
          | CpuPreserve => Ok (set_grants (account_alloc t s p Y)
                                 (<[cid := {| g_pool := p; g_excl := Y; g_type := ty; g_portion := frac |}]> (grants (account_alloc t s p Y))))
          end
     else Ok (set_grants (account_alloc t s p Y)
                (<[cid := {| g_pool := p; g_excl := Y; g_type := ty; g_portion := 0 |}]> (grants (account_alloc t s p Y))))) = Ok s' ->
    free_shar s' = free_shar (account_alloc t s p Y) /\
    exists fr, 0 <= fr /\ (forall q, gr_shared s' q = upd (gr_shared s) p (gr_shared s p + fr) q) /\
      (forall a, anc t a p = true -> (a < length t)%nat ->
                 granted_sub t (gr_shared s) a + fr <= 1000 * csize (free_shar s a ∖ Y))).
  { intros Y HY.
    assert (Zero : forall s0, free_shar s0 = free_shar (account_alloc t s p Y) -> gr_shared s0 = gr_shared s ->
               free_shar s0 = free_shar (account_alloc t s p Y) /\
               exists fr, 0 <= fr /\ (forall q, gr_shared s0 q = upd (gr_shared s) p (gr_shared s p + fr) q) /\
                 (forall a, anc t a p = true -> (a < length t)%nat ->
                            granted_sub t (gr_shared s) a + fr <= 1000 * csize (free_shar s a ∖ Y))).
    { intros s0 H1 H2. split; [exact H1|]. exists 0. split; [lia|]. split.
      - intros q. rewrite H2, upd_zero. reflexivity.
      - intros a Ha Hlt. pose proof (Anc0 Y HY a Ha Hlt). lia. }
    destruct (0 <? frac) eqn:Hf; [destruct ty|].
    - destruct (alloc_shared t _ p <? frac) eqn:Hc; [discriminate|]. intros [= <-].
      split; [reflexivity|]. exists frac. split; [lia|]. split; [intros q; reflexivity|].
      intros a Ha Hlt.
      pose proof (alloc_shared_le (account_alloc t s p Y) p a Ha Hlt) as Hle. unfold free_shared_at in Hle.
      cbn [gr_shared free_shar account_alloc] in Hle.
      assert (Hrel : related t p a = true) by (unfold related; rewrite Ha; apply orb_true_r).
      rewrite Hrel in Hle. lia.
    - destruct (alloc_reserved t _ p <? frac); [discriminate|]. intros [= <-]. apply Zero; reflexivity.
    - intros [= <-]. apply Zero; reflexivity.
    - intros [= <-]. apply Zero; reflexivity. }
  destruct (0 <? full) eqn:Hfull.
  - destruct ((full <=? csize (free_iso s p)) && r_isolate r) eqn:Hiso.
    + destruct (subseteqb X (free_iso s p) && (csize X =? full)) eqn:HX; [|discriminate].
      apply andb_true_iff in HX as [HX Hsz]. apply subseteqb_true in HX.
      apply Body. auto.
    + destruct (1000 * full <? alloc_shared t s p) eqn:Hcap; [|discriminate].
      destruct (subseteqb X (free_shar s p) && (csize X =? full)) eqn:HX; [|discriminate].
      destruct (spare_okb t s p X) eqn:HDS; [|discriminate].
      apply andb_true_iff in HX as [HX Hsz]. apply subseteqb_true in HX. apply Z.eqb_eq in Hsz.
      apply Body. right; right. split; [exact HX|lia].
  - destruct (bool_decide (X = ∅)) eqn:HX; [|discriminate]. apply bool_decide_eq_true in HX. subst X.
    apply Body. auto.
Qed.

(* one capacity-relevant step preserves Cap, given the guard on strict descendants *)
Lemma cap_shape_preserves s p X s' :
  (p < length t)%nat -> Cap s -> desc_safeb t s p X = true -> cap_shape s p X s' -> Cap s'.
Proof.
  intros Hp HC Hds (Hfs & fr & Hfr0 & Hgr & Hanc) q Hq.
  rewrite Hfs. rewrite (granted_sub_ext _ _ q Hgr), granted_sub_upd by exact Hp.
  cbn [free_shar account_alloc].
  destruct (anc t q p) eqn:Hqp.
  - assert (Hrel : related t p q = true) by (unfold related; rewrite Hqp; apply orb_true_r).
    rewrite Hrel. exact (Hanc q Hqp Hq).
  - rewrite Z.add_0_r. unfold related. rewrite Hqp, orb_false_r.
    destruct (anc t p q) eqn:Hpq; [|apply HC; exact Hq].
    unfold desc_safeb in Hds. rewrite forallb_forall in Hds.
    specialize (Hds q (proj2 (in_pools_iff q) Hq)).
    rewrite Hpq in Hds. cbn [negb orb] in Hds.
    destruct (Nat.eqb q p) eqn:Eqp.
    + apply Nat.eqb_eq in Eqp. subst q. rewrite anc_refl in Hqp. discriminate.
    + cbn [orb] in Hds. apply Z.leb_le in Hds. exact Hds.
Qed.


Lemma ta_reserve_cap s cid g s' :
  tree_wf2 -> Inv t s -> Cap s -> (g_pool g < length t)%nat -> 0 <= g_portion g ->
  ta_reserve t s cid g = Ok s' -> cap_shape s (g_pool g) (g_excl g) s'.
Proof.
  intros Hwf HI HC Hp Hpos. unfold ta_reserve, cap_shape.
  assert (Zero : forall s0, g_excl g = ∅ -> free_shar s0 = free_shar (account_alloc t s (g_pool g) (g_excl g)) -> gr_shared s0 = gr_shared s ->
             free_shar s0 = free_shar (account_alloc t s (g_pool g) (g_excl g)) /\
             exists fr, 0 <= fr /\ (forall q, gr_shared s0 q = upd (gr_shared s) (g_pool g) (gr_shared s (g_pool g) + fr) q) /\
               (forall a, anc t a (g_pool g) = true -> (a < length t)%nat ->
                          granted_sub t (gr_shared s) a + fr <= 1000 * csize (free_shar s a ∖ g_excl g))).
  { intros s0 He H1 H2. split; [exact H1|]. exists 0. split; [lia|]. split.
    - intros q. rewrite H2, upd_zero. reflexivity.
    - intros a Ha Hlt. rewrite He, difference_empty_L. pose proof (HC a Hlt). lia. }
  destruct (g_type g) eqn:Hty.
  - set (iso := g_excl g ∩ p_iso (pool_at t (g_pool g))). set (ex := g_excl g ∖ iso).
    destruct (negb (subseteqb iso (free_iso s (g_pool g)))) eqn:H1; [discriminate|].
    destruct (negb (subseteqb ex (free_shar s (g_pool g)))) eqn:H2; [discriminate|].
    apply negb_false_iff, subseteqb_true in H1. apply negb_false_iff, subseteqb_true in H2.
    destruct (alloc_shared t s (g_pool g) <? 1000 * csize ex + g_portion g) eqn:Hcap; [discriminate|].
    destruct (negb (spare_allb t s (g_pool g) (g_excl g))); [discriminate|].
    intros [= <-]. split; [reflexivity|]. exists (g_portion g). split; [exact Hpos|]. split; [intros q; reflexivity|].
    intros a Ha Hlt.
    assert (Heq : free_shar s a ∖ g_excl g = free_shar s a ∖ ex).
    { apply set_eq. intros x. rewrite !elem_of_difference. split; intros [Hx Hn]; split; try exact Hx.
      - intros Hxe. apply Hn. unfold ex in Hxe. set_solver.
      - intros Hxg. apply Hn. unfold ex, iso. apply elem_of_difference. split; [exact Hxg|].
        intros Hi. apply elem_of_intersection in Hi as [_ Hi].
        apply (inv_free_shar t s HI) in Hx as [Hx _]. exact (wf2_iso_shar Hwf (g_pool g) a x Hi Hx). }
    rewrite Heq.
    pose proof (alloc_shared_le s (g_pool g) a Ha Hlt) as Hle. unfold free_shared_at in Hle.
    pose proof (csize_difference_ge (free_shar s a) ex). lia.
  - destruct (negb (bool_decide (g_excl g = ∅))) eqn:H1; [discriminate|].
    apply negb_false_iff, bool_decide_eq_true in H1.
    destruct ((0 <? _) && _); [discriminate|]. intros [= <-]. apply Zero; [exact H1|reflexivity|reflexivity].
  - destruct (negb (bool_decide (g_excl g = ∅))) eqn:H1; [discriminate|].
    apply negb_false_iff, bool_decide_eq_true in H1.
    intros [= <-]. apply Zero; [exact H1|reflexivity|reflexivity].
Qed.

(* granted portions are never negative *)
Definition PosInv (s : st) : Prop := forall c g, grants s !! c = Some g -> 0 <= g_portion g.

Lemma ta_alloc_pos s cid r p X s' : PosInv s -> ta_alloc t s cid r p X = Ok s' -> PosInv s'.
Proof.
  intros HP H. destruct (ta_alloc_ledger t s cid r p X s' H) as (g & Hg & _ & _).
  (* the stored portion is frac when 0 < frac and 0 otherwise *)
  revert H. unfold ta_alloc.
  set (full := eff_full r). set (frac := eff_frac r).
  set (ty := match r_type r with CpuReserved => _ | x => x end).
  assert (Body : forall Y,
    (if 0 <? frac
     then match ty with
          | CpuNormal => if alloc_shared t (account_alloc t s p Y) p <? frac then Err ErrNoCapacity
                         else Ok (set_grants (add_shared (account_alloc t s p Y) p frac)
                                   (<[cid := {| g_pool := p; g_excl := Y; g_type := ty; g_portion := frac |}]> (grants (account_alloc t s p Y))))
          | CpuReserved => if alloc_reserved t (account_alloc t s p Y) p <? frac then Err ErrNoCapacity
                           else Ok (set_grants (add_reserved (account_alloc t s p Y) p frac)
                                     (<[cid := {| g_pool := p; g_excl := Y; g_type := ty; g_portion := frac |}]> (grants (account_alloc t s p Y))))
          | CpuPreserve => Ok (set_grants (account_alloc t s p Y)
                                 (<[cid := {| g_pool := p; g_excl := Y; g_type := ty; g_portion := frac |}]> (grants (account_alloc t s p Y))))
          end
     else Ok (set_grants (account_alloc t s p Y)
                (<[cid := {| g_pool := p; g_excl := Y; g_type := ty; g_portion := 0 |}]> (grants (account_alloc t s p Y))))) = Ok s' ->
    PosInv s').
  { intros Y. assert (Ins : forall g0, 0 <= g_portion g0 -> PosInv (set_grants s (<[cid := g0]> (grants s))) ).
    { intros g0 H0 c g1 Hc. cbn [grants set_grants] in Hc. destruct (decide (c = cid)) as [->|Hn].
      - rewrite lookup_insert in Hc. injection Hc as <-. exact H0.
      - rewrite lookup_insert_ne in Hc by congruence. exact (HP c g1 Hc). }
    destruct (0 <? frac) eqn:Hf; [destruct ty|].
    - destruct (alloc_shared t _ p <? frac); [discriminate|]. intros [= <-]. intros c g1 Hc. eapply (Ins {| g_pool := p; g_excl := Y; g_type := CpuNormal; g_portion := frac |}); [cbn; lia|exact Hc].
    - destruct (alloc_reserved t _ p <? frac); [discriminate|]. intros [= <-]. intros c g1 Hc. eapply (Ins {| g_pool := p; g_excl := Y; g_type := CpuReserved; g_portion := frac |}); [cbn; lia|exact Hc].
    - intros [= <-]. intros c g1 Hc. eapply (Ins {| g_pool := p; g_excl := Y; g_type := CpuPreserve; g_portion := frac |}); [cbn; lia|exact Hc].
    - intros [= <-]. intros c g1 Hc. eapply (Ins {| g_pool := p; g_excl := Y; g_type := ty; g_portion := 0 |}); [cbn; lia|exact Hc]. }
  destruct (0 <? full).
  - destruct ((full <=? csize (free_iso s p)) && r_isolate r).
    + destruct (subseteqb X (free_iso s p) && (csize X =? full)); [|discriminate]. apply Body.
    + destruct (1000 * full <? alloc_shared t s p); [|discriminate].
      destruct (subseteqb X (free_shar s p) && (csize X =? full)); [|discriminate].
      destruct (spare_okb t s p X); [|discriminate]. apply Body.
  - destruct (bool_decide (X = ∅)); [|discriminate]. apply Body.
Qed.

Lemma release_cap s cid : Cap s -> PosInv s -> Cap (ta_release t s cid) /\ PosInv (ta_release t s cid).
Proof.
  intros HC HP. unfold ta_release. destruct (grants s !! cid) as [g|] eqn:Hg; [|auto].
  pose proof (HP cid g Hg) as Hpos.
  split.
  - intros q Hq.
    assert (Hmono : csize (free_shar s q) <= csize (free_shar (account_release t s (g_pool g) (g_excl g)) q)).
    { apply csize_mono. cbn [free_shar account_release]. destruct (Nat.eqb q (g_pool g)); [set_solver|]. destruct (related t (g_pool g) q); set_solver. }
    specialize (HC q Hq).
    destruct (g_type g); cbn [gr_shared free_shar grants set_grants add_shared add_reserved].
    + assert (Hlt : (g_pool g < length t)%nat \/ ~ (g_pool g < length t)%nat) by lia.
      destruct Hlt as [Hlt|Hlt].
      * rewrite granted_sub_upd by exact Hlt. cbn [gr_shared account_release]. destruct (anc t q (g_pool g)); lia.
      * (* pool out of range: the ledger entry is outside every sum *)
        rewrite (granted_sub_gsum _ q). rewrite (gsum_ext _ _ (gr_shared s)); [rewrite <- granted_sub_gsum; cbn [gr_shared account_release] in *; lia|].
        intros x Hx. apply in_pools_iff in Hx. cbn [gr_shared account_release]. unfold upd. destruct (Nat.eqb x (g_pool g)) eqn:E; [apply Nat.eqb_eq in E; lia|reflexivity].
    + cbn [gr_shared account_release] in *. lia.
    + cbn [gr_shared account_release] in *. lia.
  - intros c g' Hc.
    assert (Hgr : forall s2, grants s2 = grants s -> grants (set_grants s2 (delete cid (grants s2))) !! c = Some g' -> 0 <= g_portion g').
    { intros s2 H2 Hc'. cbn [grants set_grants] in Hc'. rewrite H2 in Hc'. destruct (decide (c = cid)) as [->|Hn].
      - rewrite lookup_delete in Hc'. discriminate.
      - rewrite lookup_delete_ne in Hc' by congruence. exact (HP c g' Hc'). }
    destruct (g_type g); eapply Hgr; try exact Hc; reflexivity.
Qed.

(* ---- guarded histories ---- *)
Definition op_guard (s : st) (o : op) : bool :=
  match o with
  | OAlloc _ _ p X => desc_safeb t s p X
  | OReserve _ g => desc_safeb t s (g_pool g) (g_excl g) && (0 <=? g_portion g)
  | _ => true
  end.

Fixpoint run_g (s : st) (os : list op) : res st :=
  match os with
  | [] => Ok s
  | o :: os' => if op_guard s o then match step t s o with Ok s' => run_g s' os' | Err e => Err e end
                else Err (ErrGuard 10)
  end.

Lemma run_g_run os : forall s s', run_g s os = Ok s' -> run t s os = Ok s'.
Proof.
  induction os as [|o os IH]; intros s s'; cbn [run_g run]; [auto|].
  destruct (op_guard s o); [|discriminate]. destruct (step t s o); [apply IH|discriminate].
Qed.

Definition J (s : st) : Prop := Inv t s /\ Cap s /\ PosInv s.

Lemma PosInv_init : PosInv (init t).
Proof. intros c g H. unfold init in H. cbn [grants] in H. rewrite lookup_empty in H. discriminate. Qed.

Lemma reserve_pos s cid g s' : PosInv s -> 0 <= g_portion g -> ta_reserve t s cid g = Ok s' -> PosInv s'.
Proof.
  intros HP Hpos H. destruct (ta_reserve_ledger t s cid g s' H) as (g0 & Hg & _ & _).
  assert (g0 = g).
  { revert H Hg. unfold ta_reserve. destruct (g_type g).
    - destruct (negb _); [discriminate|]. destruct (negb _); [discriminate|]. destruct (_ <? _); [discriminate|].
      destruct (negb (spare_allb _ _ _ _)); [discriminate|].
      intros [= <-]. cbn [grants set_grants account_alloc]. intros Hg.
      assert (Hl := f_equal (fun m => m !! cid) Hg). cbn in Hl. rewrite !lookup_insert in Hl. congruence.
    - destruct (negb _); [discriminate|]. destruct (_ && _); [discriminate|].
      intros [= <-]. cbn [grants set_grants account_alloc]. intros Hg.
      assert (Hl := f_equal (fun m => m !! cid) Hg). cbn in Hl. rewrite !lookup_insert in Hl. congruence.
    - destruct (negb _); [discriminate|].
      intros [= <-]. cbn [grants set_grants account_alloc]. intros Hg.
      assert (Hl := f_equal (fun m => m !! cid) Hg). cbn in Hl. rewrite !lookup_insert in Hl. congruence. }
  subst g0. intros c g1 Hc. rewrite Hg in Hc. destruct (decide (c = cid)) as [->|Hn].
  - rewrite lookup_insert in Hc. injection Hc as <-. exact Hpos.
  - rewrite lookup_insert_ne in Hc by congruence. exact (HP c g1 Hc).
Qed.

Lemma step_J s o s' : tree_wf2 -> J s -> op_guard s o = true -> step t s o = Ok s' -> J s'.
Proof.
  intros Hwf (HI & HC & HP) Hg Hs.
  pose proof (step_preserves t s o s' (wf2_base Hwf) HI Hs) as HI'.
  destruct o as [cid r p X|cid|cid|cid g|]; cbn [step op_guard] in *.
  - destruct (grants s !! cid) eqn:Hc; [discriminate|].
    destruct (p <? length t)%nat eqn:Hp; [|discriminate]. apply Nat.ltb_lt in Hp.
    split; [exact HI'|]. split.
    + exact (cap_shape_preserves s p X s' Hp HC Hg (ta_alloc_cap s cid r p X s' Hwf HI HC Hp Hs)).
    + exact (ta_alloc_pos s cid r p X s' HP Hs).
  - injection Hs as <-. split; [exact HI'|split; assumption].
  - injection Hs as <-. destruct (release_cap s cid HC HP). split; [exact HI'|split; assumption].
  - destruct (grants s !! cid) eqn:Hc; [discriminate|].
    destruct (g_pool g <? length t)%nat eqn:Hp; [|discriminate]. apply Nat.ltb_lt in Hp.
    apply andb_true_iff in Hg as [Hg Hpos]. apply Z.leb_le in Hpos.
    split; [exact HI'|]. split.
    + exact (cap_shape_preserves s (g_pool g) (g_excl g) s' Hp HC Hg (ta_reserve_cap s cid g s' Hwf HI HC Hp Hpos Hs)).
    + exact (reserve_pos s cid g s' HP Hpos Hs).
  - injection Hs as <-. split; [exact HI'|]. split; [apply Cap_init|apply PosInv_init].
Qed.

(* Since the repair of K2 an allocation itself enforces the guard: the CPUs sliced off the sharable set of a pool
   leave every pool below enough for what is granted there (sliceExclusiveCPUs).  Isolated CPUs and empty
   slices are harmless by the capacity invariant. *)
Lemma desc_safeb_of_cap s p (X : cset) :
  Cap s -> (forall d, free_shar s d ∖ X = free_shar s d) -> desc_safeb t s p X = true.
Proof.
  intros HC HX. unfold desc_safeb. apply forallb_forall. intros d Hd. apply in_pools_iff in Hd.
  destruct (anc t p d); cbn [negb orb]; [|reflexivity]. destruct (Nat.eqb d p); cbn [orb]; [reflexivity|].
  rewrite HX. apply Z.leb_le. exact (HC d Hd).
Qed.

Lemma spare_okb_safe s p (X : cset) : Cap s -> spare_okb t s p X = true -> desc_safeb t s p X = true.
Proof.
  intros HC H. unfold spare_okb in H. rewrite forallb_forall in H. unfold desc_safeb. apply forallb_forall.
  intros d Hd. specialize (H d Hd). apply in_pools_iff in Hd.
  destruct (anc t p d); cbn [negb orb] in *; [|reflexivity]. destruct (Nat.eqb d p); cbn [orb] in *; [reflexivity|].
  apply Z.leb_le in H. apply Z.leb_le. specialize (HC d Hd). unfold need_of in H.
  set (g := granted_sub t (gr_shared s) d) in *. set (f := csize (free_shar s d)) in *.
  set (k := csize (free_shar s d ∖ X)) in *.
  assert (Hc : (g + 999) / 1000 <= f) by (assert ((g + 999) / 1000 < f + 1) by (apply Z.div_lt_upper_bound; lia); lia).
  assert (Hm : (g + 999) / 1000 <= Z.min (Z.max ((g + 999) / 1000) (if has_shared_user s d then 1 else 0)) f) by lia.
  assert (Hk : (g + 999) / 1000 <= k) by lia.
  pose proof (Z.div_mod (g + 999) 1000 ltac:(lia)) as Hdm. pose proof (Z.mod_pos_bound (g + 999) 1000 ltac:(lia)). lia.
Qed.

Lemma ta_alloc_guard s cid r p X s' :
  tree_wf2 -> Inv t s -> Cap s -> ta_alloc t s cid r p X = Ok s' -> desc_safeb t s p X = true.
Proof.
  intros Hwf HI HC. unfold ta_alloc.
  set (full := eff_full r). set (frac := eff_frac r).
  destruct (0 <? full) eqn:Hfull.
  - destruct ((full <=? csize (free_iso s p)) && r_isolate r) eqn:Hiso.
    + destruct (subseteqb X (free_iso s p) && (csize X =? full)) eqn:HX; [|discriminate].
      apply andb_true_iff in HX as [HX _]. apply subseteqb_true in HX. intros _.
      apply desc_safeb_of_cap; [exact HC|]. intros d. exact (iso_part_harmless s p d X Hwf HI HX).
    + destruct (1000 * full <? alloc_shared t s p); [|discriminate].
      destruct (subseteqb X (free_shar s p) && (csize X =? full)); [|discriminate].
      destruct (spare_okb t s p X) eqn:HDS; [|discriminate]. intros _.
      exact (spare_okb_safe s p X HC HDS).
  - destruct (bool_decide (X = ∅)) eqn:HX; [|discriminate]. apply bool_decide_eq_true in HX. subst X. intros _.
    apply desc_safeb_of_cap; [exact HC|]. intros d. set_solver.
Qed.

Lemma spare_allb_okb s p (X : cset) : spare_allb t s p X = true -> spare_okb t s p X = true.
Proof.
  unfold spare_allb, spare_okb. rewrite !forallb_forall. intros H d Hd. specialize (H d Hd).
  rewrite H. apply orb_true_r.
Qed.

(* ... and so does a reinstatement (Reserve), since it carries the same test *)
Lemma ta_reserve_guard s cid g s' :
  tree_wf2 -> Inv t s -> Cap s -> ta_reserve t s cid g = Ok s' -> desc_safeb t s (g_pool g) (g_excl g) = true.
Proof.
  intros Hwf HI HC. unfold ta_reserve. destruct (g_type g).
  - destruct (negb _); [discriminate|]. destruct (negb _); [discriminate|]. destruct (_ <? _); [discriminate|].
    destruct (negb (spare_allb t s (g_pool g) (g_excl g))) eqn:Hsp; [discriminate|]. intros _.
    apply negb_false_iff in Hsp. exact (spare_okb_safe s (g_pool g) (g_excl g) HC (spare_allb_okb s _ _ Hsp)).
  - destruct (negb (bool_decide (g_excl g = ∅))) eqn:H1; [discriminate|]. intros _.
    apply negb_false_iff, bool_decide_eq_true in H1. rewrite H1.
    apply desc_safeb_of_cap; [exact HC|]. intros d. set_solver.
  - destruct (negb (bool_decide (g_excl g = ∅))) eqn:H1; [discriminate|]. intros _.
    apply negb_false_iff, bool_decide_eq_true in H1. rewrite H1.
    apply desc_safeb_of_cap; [exact HC|]. intros d. set_solver.
Qed.

(* every history whose reinstated grants carry non-negative portions passes the guards by itself *)
Definition nonneg_reserve (o : op) : bool := match o with OReserve _ g => 0 <=? g_portion g | _ => true end.

Lemma run_all_guarded os : forall s s', tree_wf2 -> J s -> forallb nonneg_reserve os = true ->
  run t s os = Ok s' -> run_g s os = Ok s'.
Proof.
  induction os as [|o os IH]; intros s s' Hwf HJ Hall; cbn [run run_g]; [auto|].
  cbn [forallb] in Hall. apply andb_true_iff in Hall as [Ho Hos].
  destruct (step t s o) as [s1|e] eqn:Hs; [|discriminate].
  assert (Hg : op_guard s o = true).
  { destruct HJ as (HI & HC & _). destruct o as [cid r p X|cid|cid|cid g|]; cbn [op_guard]; try reflexivity.
    - cbn [step] in Hs. destruct (grants s !! cid); [discriminate|]. destruct (p <? length t)%nat; [|discriminate].
      exact (ta_alloc_guard s cid r p X s1 Hwf HI HC Hs).
    - cbn [step] in Hs. destruct (grants s !! cid); [discriminate|]. destruct (g_pool g <? length t)%nat; [|discriminate].
      rewrite (ta_reserve_guard s cid g s1 Hwf HI HC Hs). cbn [nonneg_reserve] in Ho. rewrite Ho. reflexivity. }
  rewrite Hg. intros H. exact (IH s1 s' Hwf (step_J s o s1 Hwf HJ Hg Hs) Hos H).
Qed.

(* histories without reinstatement (no Reserve): no guard is needed *)
Definition no_reserve (o : op) : bool := match o with OReserve _ _ => false | _ => true end.

Lemma run_no_reserve_guarded os : forall s s', tree_wf2 -> J s -> forallb no_reserve os = true ->
  run t s os = Ok s' -> run_g s os = Ok s'.
Proof.
  induction os as [|o os IH]; intros s s' Hwf HJ Hall; cbn [run run_g]; [auto|].
  cbn [forallb] in Hall. apply andb_true_iff in Hall as [Ho Hos].
  destruct (step t s o) as [s1|e] eqn:Hs; [|discriminate].
  assert (Hg : op_guard s o = true).
  { destruct HJ as (HI & HC & _). destruct o as [cid r p X|cid|cid|cid g|]; cbn [op_guard]; try reflexivity; [|discriminate].
    cbn [step] in Hs. destruct (grants s !! cid); [discriminate|]. destruct (p <? length t)%nat; [|discriminate].
    exact (ta_alloc_guard s cid r p X s1 Hwf HI HC Hs). }
  rewrite Hg. intros H. exact (IH s1 s' Hwf (step_J s o s1 Hwf HJ Hg Hs) Hos H).
Qed.

Theorem reachable_cap os : forall s s', tree_wf2 -> J s -> run_g s os = Ok s' -> J s'.
Proof.
  induction os as [|o os IH]; intros s s' Hwf HJ; cbn [run_g].
  - intros [= <-]. exact HJ.
  - destruct (op_guard s o) eqn:Hg; [|discriminate]. destruct (step t s o) as [s1|] eqn:Hs; [|discriminate].
    intros H. exact (IH s1 s' Hwf (step_J s o s1 Hwf HJ Hg Hs) H).
Qed.

End cap.

(* ---- boolean well-formedness => tree_wf2 ---- *)
Lemma tree_wfb2_sound t : tree_wfb2 t = true -> tree_wf2 t.
Proof.
  unfold tree_wfb2. intros H. apply andb_true_iff in H as [H1 H2]. split; [apply tree_wfb_sound; exact H1|].
  rewrite forallb_forall in H2. intros p q.
  destruct (le_lt_dec (length t) p) as [Hp|Hp]; [rewrite (pool_at_out t p Hp); cbn; set_solver|].
  destruct (le_lt_dec (length t) q) as [Hq|Hq]; [rewrite (pool_at_out t q Hq); cbn; set_solver|].
  specialize (H2 p (in_pools t p Hp)). rewrite forallb_forall in H2. specialize (H2 q (in_pools t q Hq)).
  apply bool_decide_eq_true in H2. exact H2.
Qed.

Lemma J_init t : J t (init t).
Proof. split; [apply Inv_init|]. split; [apply Cap_init|apply PosInv_init]. Qed.

(* ---- K2 ---- *)
Local Open Scope nat_scope.
Definition k2_tree : tree :=
  [ {| p_parent := Some 2; p_iso := ∅; p_res := lset [0]; p_shar := lset [1;2;3] |};
    {| p_parent := Some 2; p_iso := ∅; p_res := ∅; p_shar := lset [4;5;6;7] |};
    {| p_parent := None; p_iso := ∅; p_res := lset [0]; p_shar := lset [1;2;3;4;5;6;7] |} ].
(* the history that used to oversubscribe pool 0: a Guaranteed 3-CPU container lands on the root and is
   given exactly pool 0's shared CPUs.  The allocation now refuses this choice of CPUs ... *)
Definition k2_ops : list op :=
  [ OAlloc 1 {| r_full := 0%Z; r_fraction := 2500%Z; r_isolate := false; r_type := CpuNormal |} 0 ∅;
    OAlloc 2 {| r_full := 0%Z; r_fraction := 500%Z; r_isolate := false; r_type := CpuNormal |} 1 ∅;
    OAlloc 3 {| r_full := 3%Z; r_fraction := 0%Z; r_isolate := false; r_type := CpuNormal |} 2 (lset [1;2;3]) ].
Lemma k2_choice_refused : run k2_tree (init k2_tree) k2_ops = Err (ErrGuard 12).
Proof. vm_compute. reflexivity. Qed.
(* ... and accepts CPUs that pool 1 can spare *)
Definition k2_ops_ok : list op :=
  [ OAlloc 1 {| r_full := 0%Z; r_fraction := 2500%Z; r_isolate := false; r_type := CpuNormal |} 0 ∅;
    OAlloc 2 {| r_full := 0%Z; r_fraction := 500%Z; r_isolate := false; r_type := CpuNormal |} 1 ∅;
    OAlloc 3 {| r_full := 3%Z; r_fraction := 0%Z; r_isolate := false; r_type := CpuNormal |} 2 (lset [5;6;7]) ].
Lemma k2_other_choice_accepted : match run k2_tree (init k2_tree) k2_ops_ok with Ok _ => True | Err _ => False end.
Proof. vm_compute. exact I. Qed.

(* Reinstatement (Reserve) carries the same test since the repair of K2/K10: the history that used to oversubscribe
   pool 0 by reinstating a slicing grant at the root is refused, too. *)
Definition k2r_ops : list op :=
  [ OReserve 1 {| g_pool := 0; g_excl := ∅; g_type := CpuNormal; g_portion := 2500%Z |};
    OReserve 3 {| g_pool := 2; g_excl := lset [1;2;3]; g_type := CpuNormal; g_portion := 0%Z |} ].
Lemma k2_reserve_refused : run k2_tree (init k2_tree) k2r_ops = Err (ErrGuard 13).
Proof. vm_compute. reflexivity. Qed.
