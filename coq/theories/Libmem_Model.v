(* libmem (pkg/resmgr/lib/memory): executable model of the NUMA memory-zone allocator AS IT IS.
   No proofs in this file.  Properties C06 (transactionality, offers) and C07 (placement rules).

   Representation choices (what is faithful to what):
   - a node set is the list of nodes, position = node id (NewDistance/newAllocator force ids
     0..n-1: the distance vector has one entry per node and its unique minimum is at the
     node's own id).  NodeMask / TypeMask are [N] bit masks.
   - the allocator state is the list of live requests, each carrying its assigned zone
     (this stands for a.requests + a.users + Zone.users, which agree whenever the API is
     entered or left), the key set of a.zones as a strictly increasing list (Go iterates the
     map in random order; every consumer either sorts or is order-insensitive) and the offer
     version.  Moves update a request in place, so "unchanged" is literal list equality.
   - inside one operation: the journal (updates / reverts) exactly as journal.assign and
     journal.delete maintain it.
   - arithmetic is on Z (no int64 wrap-around: capacities and sizes are assumed to sum below
     2^63), node ids are below 63, priorities are within 0..32767 (the int16 subtraction in
     RequestsByPriority does not wrap there), one Request object is used for one API call.
   - where Go's result depends on an unspecified order (ZonesByUsersSubzonesFirst is not
     transitive) the model records that the order was not forced ([o_forced] = false).
   - zone expansion is a parameter [ex] (CustomFunctions.ExpandZone); [default_expand] is the
     built-in one.  The overcommit handler is the built-in defaultHandleOvercommit. *)
From Coq Require Import ZArith NArith List Bool Lia.
From NV Require Import Gen.Gen_LibmemConsts Gen.Gen_LibmemTabs.
Import ListNotations.
Open Scope Z_scope.

(* ------------------------------------------------------------------ constants from the source *)

Definition tmDRAM : N := Z.to_N LM_TypeMaskDRAM.
Definition tmPMEM : N := Z.to_N LM_TypeMaskPMEM.
Definition tmHBM  : N := Z.to_N LM_TypeMaskHBM.
Definition tmAll  : N := Z.to_N LM_TypeMaskAll.
(* TypeMask.Slice / Foreach order *)
Definition type_order : list N := [Z.to_N LM_TypeDRAM; Z.to_N LM_TypePMEM; Z.to_N LM_TypeHBM].
Definition allowed_prios : list Z := LM_allowedPrios.
Definition expand_types : list N := map Z.to_N LM_expandTypes.

(* the switches that follow the source (regenerated): see tools/libmem2coq *)
Record fixes := mkFixes { fx_F1a : bool; fx_F1r : bool; fx_F2g : bool; fx_F2r : bool }.
Definition src_fixes : fixes := mkFixes LM_fix_F1_allocate LM_fix_F1_realloc LM_fix_F2_getoffer LM_fix_F2_realloc.
Definition no_fixes : fixes := mkFixes false false false false.
Definition all_fixes : fixes := mkFixes true true true true.

(* ------------------------------------------------------------------ masks *)

Definition bit (i : N) : N := N.shiftl 1 i.
Definition msub (a b : N) : bool := (N.land a b =? a)%N.      (* a subset of b *)
Definition mdisj (a b : N) : bool := (N.land a b =? 0)%N.
Definition mnz (a : N) : bool := negb (a =? 0)%N.

Record node := mkNode { n_type : N; n_cap : Z; n_normal : bool; n_dist : list Z }.

Definition has_mem (n : node) : bool := 0 <? n_cap n.
Definition tmask (n : node) : N := bit (n_type n).

Fixpoint mask_from (i : N) (ns : list node) (p : node -> bool) : N :=
  match ns with
  | [] => 0%N
  | n :: ns' => N.lor (if p n then bit i else 0%N) (mask_from (N.succ i) ns' p)
  end.

(* OR of f over the nodes whose id is in z / sum of f over them *)
Fixpoint or_over (i : N) (ns : list node) (z : N) (f : node -> N) : N :=
  match ns with
  | [] => 0%N
  | n :: ns' => N.lor (if N.testbit z i then f n else 0%N) (or_over (N.succ i) ns' z f)
  end.

Fixpoint sum_over (i : N) (ns : list node) (z : N) (f : node -> Z) : Z :=
  match ns with
  | [] => 0
  | n :: ns' => (if N.testbit z i then f n else 0) + sum_over (N.succ i) ns' z f
  end.

Section Nodes.
Context (ns : list node).

(* MaskCache *)
Definition m_all : N := mask_from 0 ns (fun _ => true).
Definition m_mem : N := mask_from 0 ns has_mem.
Definition m_normal : N := mask_from 0 ns (fun n => has_mem n && n_normal n).
Definition m_types : N := or_over 0 ns m_mem tmask.
(* byTypes[T]: keys are the single types that have memory nodes and the four combinations;
   any other key is absent from the map and reads as 0 *)
Definition by_types (T : N) : N :=
  if (T <=? tmAll)%N then mask_from 0 ns (fun n => has_mem n && mnz (N.land (tmask n) T)) else 0%N.

(* zoneType: types of ALL nodes of the zone (also memory-less ones); zoneCapacity: nodes with memory *)
Definition zone_type (z : N) : N := or_over 0 ns z tmask.
Definition zone_cap (z : N) : Z := sum_over 0 ns z (fun n => if has_mem n then n_cap n else 0).

Definition ids : list N := map N.of_nat (seq 0 (length ns)).
Definition members (m : N) : list N := filter (N.testbit m) ids.

(* ---- defaultExpand / newCloseNodesOfType *)

Definition dist_to (v : list Z) (j : N) : Z := nth (N.to_nat j) v 0.

(* the smallest distance at which [v] sees a candidate, and the candidates at that distance
   (ForeachDistance walks the distinct distances upwards, skipping the node's own) *)
Definition closest (v : list Z) (cand : N) : option (Z * N) :=
  fold_left (fun acc j =>
      let d := dist_to v j in
      match acc with
      | None => Some (d, bit j)
      | Some (dm, m) => if d <? dm then Some (d, bit j)
                        else if d =? dm then Some (dm, N.lor m (bit j)) else acc
      end) (members cand) None.

Definition close_step (cand : N) (acc : N * option Z) (i : N) : N * option Z :=
  match nth_error ns (N.to_nat i) with
  | None => acc
  | Some nd =>
    match closest (n_dist nd) cand with
    | None => acc
    | Some (d, m) =>
      if (match snd acc with None => true | Some mx => d <=? mx end)
      then (N.lor (fst acc) m, Some d)           (* close |= nodes: not reset when max shrinks *)
      else acc
    end
  end.

Definition new_close (zone : N) (t : N) : N :=
  let cand := N.ldiff (by_types (bit t)) zone in
  fst (fold_left (close_step cand) (members zone) (0%N, None)).

Definition default_expand (zone types : N) : N * N :=
  fold_left (fun acc t =>
      if N.testbit types t then
        let n := new_close zone t in
        if mnz n then (N.lor (fst acc) n, N.lor (snd acc) (bit t)) else acc
      else acc) type_order (0%N, 0%N).

(* ------------------------------------------------------------------ requests, state *)

Record req := mkReq {
  r_id : N; r_size : Z; r_aff : N; r_types : N; r_strict : bool; r_prio : Z;
  r_age : Z;      (* rank of Created(): larger = younger *)
  r_asked : N;    (* ghost: the types asked for (validated request types, plus what Realloc added) *)
  r_zone : N }.

Definition set_zone (z : N) (r : req) : req :=
  mkReq (r_id r) (r_size r) (r_aff r) (r_types r) (r_strict r) (r_prio r) (r_age r) (r_asked r) z.
Definition set_types (t asked : N) (r : req) : req :=
  mkReq (r_id r) (r_size r) (r_aff r) t (r_strict r) (r_prio r) (r_age r) asked (r_zone r).

Record state := mkState { live : list req; zkeys : list N; version : Z }.
Definition init_state : state := mkState [] [] 1.      (* newAllocator: reset() bumps 0 -> 1 *)

Definition find_req (id : N) (l : list req) : option req := find (fun r => (r_id r =? id)%N) l.
Definition is_live (id : N) (l : list req) : bool := existsb (fun r => (r_id r =? id)%N) l.
Definition move_req (id z : N) (l : list req) : list req :=
  map (fun r => if (r_id r =? id)%N then set_zone z r else r) l.
Definition drop_req (id : N) (l : list req) : list req := filter (fun r => negb (r_id r =? id)%N) l.
Definition zone_of (id : N) (l : list req) : N :=
  match find_req id l with Some r => r_zone r | None => 0%N end.

(* key set of a.zones: strictly increasing list *)
Fixpoint zk_add (z : N) (l : list N) : list N :=
  match l with
  | [] => [z]
  | y :: l' => if (z <? y)%N then z :: l else if (z =? y)%N then l else y :: zk_add z l'
  end.
Definition zk_has (z : N) (l : list N) : bool := existsb (N.eqb z) l.
Definition nusers (l : list req) (z : N) : Z := Z.of_nat (length (filter (fun r => (r_zone r =? z)%N) l)).
(* cleanupUnusedZones *)
Definition cleanup (l : list req) (zk : list N) : list N := filter (fun z => 0 <? nusers l z) zk.

(* zoneUsage: a request belongs to a zone if its nodes fit into the zone *)
Definition usage (l : list req) (z : N) : Z :=
  fold_right (fun r acc => (if msub (r_zone r) z then r_size r else 0) + acc) 0 l.
Definition zfree (l : list req) (z : N) : Z := zone_cap z - usage l z.

(* association lists for the journal *)
Fixpoint al_set (k v : N) (l : list (N * N)) : list (N * N) :=
  match l with
  | [] => [(k, v)]
  | (k', v') :: l' => if (k' =? k)%N then (k, v) :: l' else (k', v') :: al_set k v l'
  end.
Definition al_has (k : N) (l : list (N * N)) : bool := existsb (fun p => (fst p =? k)%N) l.
Definition al_get (k : N) (l : list (N * N)) : option N :=
  match find (fun p => (fst p =? k)%N) l with Some p => Some (snd p) | None => None end.
Definition al_del (k : N) (l : list (N * N)) : list (N * N) := filter (fun p => negb (fst p =? k)%N) l.
Definition al_add_new (k v : N) (l : list (N * N)) := if al_has k l then l else l ++ [(k, v)].

(* state inside an operation *)
Record ost := mkOst { o_live : list req; o_zk : list N; o_upd : list (N * N); o_rev : list (N * N);
                      o_forced : bool;    (* every sort so far had a forced result *)
                      o_oc : bool }.      (* overcommit resolution was entered (statistics only) *)

(* zoneMove (zoneRemove + zoneAssign with journal.delete / journal.assign) of a live request *)
Definition zone_move (z : N) (id : N) (st : ost) : ost :=
  match find_req id (o_live st) with
  | None => st
  | Some r =>
    if (r_zone r =? z)%N then st                              (* "useless move" *)
    else mkOst (move_req id z (o_live st)) (zk_add z (o_zk st))
               (al_set id z (o_upd st)) (al_add_new id (r_zone r) (o_rev st)) (o_forced st) (o_oc st)
  end.

(* ------------------------------------------------------------------ sorting *)

Section Sort.
Context {A : Type} (lt : A -> A -> bool).
Fixpoint insert_by (x : A) (l : list A) : list A :=
  match l with
  | [] => [x]
  | y :: l' => if lt x y then x :: l else y :: insert_by x l'
  end.
Definition isort (l : list A) : list A := fold_right insert_by [] l.
(* every element is strictly before every later one: the comparator is a strict total order
   on this list, so every correct sorting algorithm returns exactly it *)
Fixpoint all_lt (l : list A) : bool :=
  match l with
  | [] => true
  | x :: l' => forallb (fun y => lt x y && negb (lt y x)) l' && all_lt l'
  end.
End Sort.

(* RequestsByPriority / BySize / ByAge chained in the order the source uses *)
Definition rcmp1 (k : Z) (a b : req) : Z :=
  if k =? 1 then r_prio a - r_prio b
  else if k =? 2 then r_size a - r_size b
  else r_age b - r_age a.
Fixpoint rcmp (ks : list Z) (a b : req) : Z :=
  match ks with
  | [] => 0
  | k :: ks' => let d := rcmp1 k a b in if d =? 0 then rcmp ks' a b else d
  end.
Definition shrink_lt (a b : req) : bool := rcmp LM_shrinkSort a b <? 0.
Definition age_lt (a b : req) : bool := rcmp [3] a b <? 0.

Definition popcount (z : N) : Z := Z.of_nat (length (filter (N.testbit z) (map N.of_nat (seq 0 64)))).

(* ZonesByUsersSubzonesFirst *)
Definition zcmp (l : list req) (z1 z2 : N) : Z :=
  let d := nusers l z2 - nusers l z1 in
  if negb (d =? 0) then d
  else if (N.land z1 z2 =? z1)%N then -1
  else if (N.land z1 z2 =? z2)%N then 1
  else let d2 := popcount z2 - popcount z1 in
       if negb (d2 =? 0) then d2 else Z.of_N z2 - Z.of_N z1.
Definition zone_lt (l : list req) (z1 z2 : N) : bool := zcmp l z1 z2 <? 0.

(* checkOvercommit: overcommitted keys meeting [nodes] with their spill, in sorted order *)
Definition check_overcommit (l : list req) (zk : list N) (nodes : N) : list (N * Z) * bool :=
  let oc := filter (fun z => ((nodes =? 0)%N || mnz (N.land z nodes)) && (zfree l z <? 0)) zk in
  let srt := isort (zone_lt l) oc in
  (map (fun z => (z, - zfree l z)) srt, all_lt (zone_lt l) srt).

(* ------------------------------------------------------------------ overcommit resolution *)

Context (ex : N -> N -> N * N).      (* expand: (new nodes outside the zone, their types) *)

(* the loop of zoneShrinkUsage over the sorted candidates *)
Fixpoint shrink_loop (cands : list req) (z target ztypes : N) (amount : Z) (st : ost) (moved : Z) : ost * Z :=
  match cands with
  | [] => (st, moved)
  | r :: cands' =>
    if negb (r_strict r) || (r_types r =? ztypes)%N then
      let st' := zone_move target (r_id r) st in
      let moved' := moved + r_size r in
      if moved' >=? amount then (st', moved') else shrink_loop cands' z target ztypes amount st' moved'
    else shrink_loop cands' z target ztypes amount st moved
  end.

Definition zone_shrink (z : N) (amount limit : Z) (extra : N) (st : ost) : ost * Z :=
  let users := filter (fun r => (r_zone r =? z)%N) (o_live st) in
  if negb (zk_has z (o_zk st)) || (match users with [] => true | _ => false end) then (st, 0)
  else
    let zt := zone_type z in
    let '(nodes, types) := ex z (N.lor zt extra) in
    if (nodes =? 0)%N then (st, 0)
    else
      let cands := isort shrink_lt (filter (fun r => r_prio r <=? limit) users) in
      shrink_loop cands z (N.lor z nodes) (N.lor zt types) amount st 0.

Fixpoint shrink_all (oc : list (N * Z)) (prio : Z) (types : N) (st : ost) (moved : Z) : ost * Z :=
  match oc with
  | [] => (st, moved)
  | (z, amount) :: oc' =>
    let '(st', m) := zone_shrink z amount prio types st in
    shrink_all oc' prio types st' (moved + m)
  end.

Definition recheck (nodes : N) (st : ost) : list (N * Z) * ost :=
  let '(oc, f) := check_overcommit (o_live st) (o_zk st) nodes in
  (oc, mkOst (o_live st) (o_zk st) (o_upd st) (o_rev st) (o_forced st && f)
             (o_oc st || match oc with [] => false | _ => true end)).

(* the loops over expandTypes (inner) and allowedPrios (outer) of defaultHandleOvercommit;
   inl = resolved, inr = still overcommitted *)
Fixpoint extras_loop (nodes : N) (prio : Z) (es : list N) (types : N) (st : ost) (oc : list (N * Z)) (moved : Z)
  : ost + (ost * list (N * Z) * Z) :=
  match es with
  | [] => inr (st, oc, moved)
  | e :: es' =>
    let e' := N.land e m_types in
    if mnz e && (e' =? 0)%N then extras_loop nodes prio es' types st oc moved
    else
      let types' := if mnz e then N.lor types e' else types in
      let '(st1, moved1) := shrink_all oc prio types' st moved in
      let '(oc1, st2) := recheck nodes st1 in
      match oc1 with
      | [] => inl st2
      | _ => extras_loop nodes prio es' types' st2 oc1 moved1
      end
  end.

Fixpoint prios_loop (nodes : N) (ps : list Z) (st : ost) (oc : list (N * Z)) (moved : Z)
  : ost + (ost * list (N * Z) * Z) :=
  match ps with
  | [] => inr (st, oc, moved)
  | p :: ps' =>
    match extras_loop nodes p expand_types 0%N st oc moved with
    | inl st' => inl st'
    | inr (st', oc', moved') => prios_loop nodes ps' st' oc' moved'
    end
  end.

Inductive hres := HOk (st : ost) | HFail (st : ost) | HFuel.

Fixpoint handler (fuel : nat) (nodes : N) (st : ost) (oc : list (N * Z)) : hres :=
  match fuel with
  | O => HFuel
  | S fuel' =>
    match prios_loop nodes allowed_prios st oc 0 with
    | inl st' => HOk st'
    | inr (st', oc', moved) => if moved =? 0 then HFail st' else handler fuel' nodes st' oc'
    end
  end.

(* the fuel the termination theorem is about: every productive round moves at least one
   request to a strictly larger zone *)
Definition handler_fuel (st : ost) : nat := S (length (o_live st) * length ns).

Definition handle_overcommit (nodes : N) (st : ost) : hres :=
  let '(oc, st1) := recheck nodes st in
  match oc with
  | [] => HOk st1
  | _ => handler (handler_fuel st1) nodes st1 oc
  end.

(* revertJournal(req): every touched request goes back to the zone recorded in reverts
   (0 = it was not assigned before: only the requester), then the requester is forgotten *)
Definition revert (rid : option N) (st : ost) : list req * list N :=
  let '(l, zk) := fold_left (fun (acc : list req * list N) (p : N * N) =>
      let '(l, zk) := acc in
      if (snd p =? 0)%N then (drop_req (fst p) l, zk)
      else (move_req (fst p) (snd p) l, zk_add (snd p) zk)) (o_rev st) (o_live st, o_zk st) in
  (match rid with Some id => drop_req id l | None => l end, zk).

(* ------------------------------------------------------------------ allocate *)

(* validateRequest: Some (effective types) *)
Definition validate_request (l : list req) (r : req) : option N :=
  if is_live (r_id r) l then None
  else if negb (N.land (r_aff r) m_all =? r_aff r)%N then None
  else if negb (N.land (r_types r) m_types =? r_types r)%N && r_strict r then None
  else if (r_aff r =? 0)%N then None
  else let t := N.land (r_types r) m_types in
       Some (if (t =? 0)%N then zone_type (r_aff r) else t).

Definition find_initial_zone (aff types : N) (strict : bool) : option N :=
  let zone := N.land aff m_all in
  let miss := N.ldiff types (zone_type zone) in
  let zone := if mnz miss then N.lor zone (fst (ex zone miss)) else zone in
  if strict then
    let zone := N.land zone (by_types types) in
    if mnz (N.ldiff types (zone_type zone)) then None else Some zone
  else
    let prefer := N.land zone (by_types types) in
    Some (if mnz prefer then prefer else zone).

Inductive enres := ENOk (zone types : N) | ENErr | ENFuel.

Fixpoint ensure_loop (fuel : nat) (zone types rtypes : N) : enres :=
  match fuel with
  | O => ENFuel
  | S fuel' =>
    let n := fst (ex zone types) in
    if (n =? 0)%N then ENErr
    else let zone' := N.lor zone n in
         if mnz (N.land zone' m_normal) then ENOk zone' (N.lor rtypes types)
         else ensure_loop fuel' zone' types rtypes
  end.

Definition ensure_normal (zone rtypes : N) (strict : bool) : enres :=
  if mnz (N.land zone m_normal) then ENOk zone rtypes
  else
    let normal := zone_type m_normal in
    let types := N.land rtypes normal in
    let types := if mnz types then types
                 else if strict then 0%N
                 else if mnz (N.land normal tmDRAM) then tmDRAM
                 else if mnz (N.land normal tmPMEM) then tmPMEM
                 else if mnz (N.land normal tmHBM) then tmHBM else 0%N in
    if (types =? 0)%N then ENErr else ensure_loop (S (length ns)) zone types rtypes.

Inductive cres := COk (st : ost) | CErr (l : list req) (zk : list N) (oc : bool) | CFuel.

Definition alloc_core (s : state) (r : req) : cres :=
  match validate_request (live s) r with
  | None => CErr (live s) (zkeys s) false
  | Some ty =>
    match find_initial_zone (r_aff r) ty (r_strict r) with
    | None => CErr (live s) (zkeys s) false
    | Some z0 =>
      match ensure_normal z0 ty (r_strict r) with
      | ENFuel => CFuel
      | ENErr => CErr (live s) (zkeys s) false
      | ENOk z1 ty1 =>
        let r1 := set_zone z1 (set_types ty1 ty r) in
        let st := mkOst (live s ++ [r1]) (zk_add z1 (zkeys s)) [(r_id r, z1)] [(r_id r, 0%N)] true false in
        match handle_overcommit z1 st with
        | HOk st' => COk st'
        | HFail st' => let '(l, zk) := revert (Some (r_id r)) st' in CErr l zk true
        | HFuel => CFuel
        end
      end
    end
  end.

(* ------------------------------------------------------------------ the public operations *)

Inductive rkind := KOk | KErr | KFuel | KUnmodelled.
Record result := mkRes { rs_kind : rkind; rs_zone : N; rs_upd : list (N * N); rs_forced : bool;
                         rs_oc : bool }.     (* overcommit resolution was entered *)
Definition r_err : result := mkRes KErr 0 [] true false.

Record offer := mkOffer { of_ver : Z; of_req : req; of_upd : list (N * N) }.

Context (fx : fixes).

Definition bump (b : bool) (v : Z) : Z := if b then v + 1 else v.
Definition clean_if (b : bool) (l : list req) (zk : list N) : list N := if b then cleanup l zk else zk.

(* Allocate: cleanupUnusedZones is deferred on every path *)
Definition allocate (s : state) (r : req) : state * result :=
  match alloc_core s r with
  | COk st =>
    (mkState (o_live st) (cleanup (o_live st) (o_zk st)) (bump (fx_F1a fx) (version s)),
     mkRes KOk (zone_of (r_id r) (o_live st)) (al_del (r_id r) (o_upd st)) (o_forced st) (o_oc st))
  | CErr l zk oc => (mkState l (cleanup l zk) (version s), mkRes KErr 0 [] true oc)
  | CFuel => (s, mkRes KFuel 0 [] true false)
  end.

(* GetOffer = allocate + revertJournal; the offer keeps the request object as allocate left it *)
Definition get_offer (s : state) (r : req) : state * result * option offer :=
  match alloc_core s r with
  | COk st =>
    let '(l, zk) := revert (Some (r_id r)) st in
    let rq := match find_req (r_id r) (o_live st) with Some q => q | None => r end in
    (mkState l (clean_if (fx_F2g fx) l zk) (version s),
     mkRes KOk (zone_of (r_id r) (o_live st)) (al_del (r_id r) (o_upd st)) (o_forced st) (o_oc st),
     Some (mkOffer (version s) rq (o_upd st)))
  | CErr l zk oc => (mkState l (clean_if (fx_F2g fx) l zk) (version s), mkRes KErr 0 [] true oc, None)
  | CFuel => (s, mkRes KFuel 0 [] true false, None)
  end.

(* Offer.Commit: replay the recorded updates; nothing is re-checked except the version *)
Definition commit_apply (o : offer) (l : list req) (zk : list N) : list req * list N :=
  let rid := r_id (of_req o) in
  fold_left (fun (acc : list req * list N) (p : N * N) =>
      let '(l, zk) := acc in
      if (fst p =? rid)%N then (l ++ [set_zone (snd p) (of_req o)], zk_add (snd p) zk)
      else if is_live (fst p) l then
        (if (zone_of (fst p) l =? snd p)%N then (l, zk) else (move_req (fst p) (snd p) l, zk_add (snd p) zk))
      else (l, zk)) (of_upd o) (l, zk).

Definition commit (s : state) (o : offer) : state * result :=
  if negb (of_ver o =? version s) then (s, r_err)
  else if is_live (r_id (of_req o)) (live s) then (s, mkRes KUnmodelled 0 [] true false)
  else
    let '(l, zk) := commit_apply o (live s) (zkeys s) in
    (mkState l (cleanup l zk) (version s + 1),
     mkRes KOk (match al_get (r_id (of_req o)) (of_upd o) with Some z => z | None => 0%N end)
           (al_del (r_id (of_req o)) (of_upd o)) true false).

Inductive vres := VDone | VErr | VGo (nodes types : N).

Definition validate_realloc (r : req) (nodes types : N) : vres :=
  if (nodes =? 0)%N && (types =? 0)%N then VDone
  else if (r_aff r =? nodes)%N && (r_types r =? types)%N then VDone
  else if negb (N.land (r_aff r) m_all =? r_aff r)%N then VErr
  else if negb (N.land (r_types r) m_types =? r_types r)%N && r_strict r then VErr
  else if (N.land (r_zone r) nodes =? nodes)%N && (N.land (zone_type (r_zone r)) types =? types)%N then VDone
  else if (types =? 0)%N then VGo nodes (zone_type (N.land nodes m_all))
  else VGo (N.land nodes (by_types types)) types.

Definition realloc (s : state) (id nodes types : N) : state * result :=
  match find_req id (live s) with
  | None => (s, r_err)
  | Some r =>
    let fin (l : list req) (zk : list N) (ok : bool) :=
      mkState l (clean_if (fx_F2r fx) l zk) (bump (fx_F1r fx && ok) (version s)) in
    match validate_realloc r nodes types with
    | VDone => (fin (live s) (zkeys s) true, mkRes KOk (r_zone r) [] true false)
    | VErr => (fin (live s) (zkeys s) false, r_err)
    | VGo nodes' types' =>
      let base := N.lor (r_zone r) nodes' in
      let '(nn, nt) := ex base types' in
      if (nn =? 0)%N then (fin (live s) (zkeys s) false, r_err)
      else
        let target := N.lor base nn in
        let st := zone_move target id (mkOst (live s) (zkeys s) [] [] true false) in
        match handle_overcommit target st with
        | HOk st' =>
          let l := map (fun q => if (r_id q =? id)%N
                                 then set_types (N.lor (r_types q) nt) (N.lor (r_asked q) types') q else q) (o_live st') in
          (fin l (o_zk st') true, mkRes KOk (zone_of id l) (al_del id (o_upd st')) (o_forced st') (o_oc st'))
        | HFail st' => let '(l, zk) := revert None st' in (fin l zk false, mkRes KErr 0 [] true true)
        | HFuel => (s, mkRes KFuel 0 [] true false)
        end
    end
  end.

Definition release (s : state) (id : N) : state * result :=
  if is_live id (live s) then
    let l := drop_req id (live s) in
    (mkState l (cleanup l (zkeys s)) (version s + 1), mkRes KOk 0 [] true false)
  else (s, r_err).

(* ------------------------------------------------------------------ histories *)

Inductive op :=
| OpGetOffer (r : req)
| OpCommit (k : nat)          (* the offer obtained by the k-th operation of the history *)
| OpAllocate (r : req)
| OpRealloc (id nodes types : N)
| OpRelease (id : N).

(* world = allocator state + the offers handed out so far (one slot per operation) *)
Record world := mkWorld { w_state : state; w_offers : list (option offer) }.
Definition init_world : world := mkWorld init_state [].

Definition step (w : world) (o : op) : world * result :=
  let s := w_state w in
  match o with
  | OpGetOffer r =>
    let '(s', res, off) := get_offer s r in (mkWorld s' (w_offers w ++ [off]), res)
  | OpCommit k =>
    match nth k (w_offers w) None with
    | Some off => let '(s', res) := commit s off in (mkWorld s' (w_offers w ++ [None]), res)
    | None => (mkWorld s (w_offers w ++ [None]), r_err)
    end
  | OpAllocate r => let '(s', res) := allocate s r in (mkWorld s' (w_offers w ++ [None]), res)
  | OpRealloc id nodes types =>
    let '(s', res) := realloc s id nodes types in (mkWorld s' (w_offers w ++ [None]), res)
  | OpRelease id => let '(s', res) := release s id in (mkWorld s' (w_offers w ++ [None]), res)
  end.

Definition run (w : world) (ops : list op) : world := fold_left (fun w o => fst (step w o)) ops w.

(* ------------------------------------------------------------------ correspondence checker *)

(* what the harness observed after one operation *)
Record obs := mkObs {
  ob_skip : bool;                       (* the harness did not execute this op *)
  ob_ok : bool; ob_zone : N; ob_upd : list (N * N);          (* sorted by id *)
  ob_assigned : list (N * N);           (* (id, AssignedZone), sorted by id *)
  ob_listing : list (N * N * N);        (* ForeachRequest order: (id, Types(), Zone()) *)
  ob_valid : list (nat * bool);         (* (op index of the offer, IsValid()) *)
  ob_probes : list (N * Z * Z) }.       (* (mask, ZoneUsage, ZoneCapacity) *)

Definition id_lt (a b : N * N) : bool := (fst a <? fst b)%N.
Definition pair_eqb (a b : N * N) : bool := (fst a =? fst b)%N && (snd a =? snd b)%N.
Fixpoint list_eqb {A} (eqb : A -> A -> bool) (l1 l2 : list A) : bool :=
  match l1, l2 with
  | [], [] => true
  | x :: l1', y :: l2' => eqb x y && list_eqb eqb l1' l2'
  | _, _ => false
  end.

Definition m_assigned (l : list req) : list (N * N) := isort id_lt (map (fun r => (r_id r, r_zone r)) l).
Definition m_listing (l : list req) : list (N * N * N) :=
  map (fun r => (r_id r, r_types r, r_zone r)) (isort age_lt l).
Definition triple_eqb (a b : N * N * N) : bool :=
  (fst (fst a) =? fst (fst b))%N && (snd (fst a) =? snd (fst b))%N && (snd a =? snd b)%N.

Definition offer_valid (w : world) (k : nat) : bool :=
  match nth k (w_offers w) None with
  | Some off => of_ver off =? version (w_state w)
  | None => false
  end.

(* public ZoneUsage / ZoneCapacity mask with the nodes that have memory *)
Definition pub_usage (l : list req) (z : N) : Z := usage l (N.land z m_mem).
Definition pub_cap (z : N) : Z := zone_cap (N.land z m_mem).

(* codes: 1 result kind, 2 zone, 3 updates, 4 assignments, 5 listing (types/zone/order),
   6 offer validity, 7 usage, 8 capacity, 9 out of fuel, 10 unmodelled, 0 order not forced *)
Definition compare_step (w' : world) (res : result) (ob : obs) : option N :=
  let l := live (w_state w') in
  match rs_kind res with
  | KFuel => Some 9%N
  | KUnmodelled => Some 10%N
  | _ =>
    let ok := match rs_kind res with KOk => true | _ => false end in
    if negb (rs_forced res) then Some 0%N
    else if negb (Bool.eqb ok (ob_ok ob)) then Some 1%N
    else if ok && negb (rs_zone res =? ob_zone ob)%N then Some 2%N
    else if ok && negb (list_eqb pair_eqb (isort id_lt (rs_upd res)) (ob_upd ob)) then Some 3%N
    else if negb (list_eqb pair_eqb (m_assigned l) (ob_assigned ob)) then Some 4%N
    else if negb (list_eqb triple_eqb (m_listing l) (ob_listing ob)) then Some 5%N
    else if negb (forallb (fun p => Bool.eqb (offer_valid w' (fst p)) (snd p)) (ob_valid ob)) then Some 6%N
    else if negb (forallb (fun p => pub_usage l (fst (fst p)) =? snd (fst p)) (ob_probes ob)) then Some 7%N
    else if negb (forallb (fun p => pub_cap (fst (fst p)) =? snd p) (ob_probes ob)) then Some 8%N
    else None
  end.

(* first difference of one history: (op index, code); code 0 (order not forced) ends the
   comparison of this history without counting as a difference *)
Fixpoint check_history (i : nat) (w : world) (ops : list op) (obs_l : list obs) (noc : nat) : option (nat * N) * nat :=
  match ops, obs_l with
  | o :: ops', ob :: obs' =>
    if ob_skip ob then check_history (S i) (mkWorld (w_state w) (w_offers w ++ [None])) ops' obs' noc
    else
      let '(w', res) := step w o in
      let noc' := if rs_oc res then S noc else noc in
      match compare_step w' res ob with
      | Some c => (Some (i, c), noc')
      | None => check_history (S i) w' ops' obs' noc'
      end
  | _, _ => (None, noc)
  end.

End Nodes.

(* one case = node set + history + observations; result: (case index, op index, code) of every
   case with a difference, the number of histories cut short because an order was not forced, and
   the number of operations in which overcommit resolution was entered (statistics) *)
Definition case := (list node * list op * list obs)%type.

Definition run_case (fx : fixes) (c : case) : option (nat * N) * nat :=
  let '(ns, ops, obs_l) := c in
  check_history ns (default_expand ns) fx 0 (init_world) ops obs_l 0.

Fixpoint mismatches_from (fx : fixes) (i : nat) (cs : list case) : list (nat * nat * N) * nat * nat :=
  match cs with
  | [] => ([], O, O)
  | c :: cs' =>
    let '(ms, nf, noc) := mismatches_from fx (S i) cs' in
    let '(r, n) := run_case fx c in
    match r with
    | None => (ms, nf, (noc + n)%nat)
    | Some (_, 0%N) => (ms, S nf, (noc + n)%nat)
    | Some (k, code) => ((i, k, code) :: ms, nf, (noc + n)%nat)
    end
  end.

Definition mismatches (cs : list case) : list (nat * nat * N) * nat * nat := mismatches_from src_fixes 0 cs.

(* ------------------------------------------------------------------ Z-literal interface for the generated case files *)

Definition zpairs (l : list (Z * Z)) : list (N * N) := map (fun p => (Z.to_N (fst p), Z.to_N (snd p))) l.
Definition znode (t cap : Z) (normal : bool) (dist : list Z) : node := mkNode (Z.to_N t) cap normal dist.
Definition zreq (id size aff types : Z) (strict : bool) (prio age : Z) : req :=
  mkReq (Z.to_N id) size (Z.to_N aff) (Z.to_N types) strict prio age 0%N 0%N.
Definition zoffer (r : req) : op := OpGetOffer r.
Definition zalloc (r : req) : op := OpAllocate r.
Definition zcommit (k : Z) : op := OpCommit (Z.to_nat k).
Definition zrealloc (id nodes types : Z) : op := OpRealloc (Z.to_N id) (Z.to_N nodes) (Z.to_N types).
Definition zrelease (id : Z) : op := OpRelease (Z.to_N id).
Definition zobs (skip ok : bool) (zone : Z) (upd assigned : list (Z * Z)) (listing : list (Z * Z * Z))
    (valid : list (Z * bool)) (probes : list (Z * Z * Z)) : obs :=
  mkObs skip ok (Z.to_N zone) (zpairs upd) (zpairs assigned)
        (map (fun t => (Z.to_N (fst (fst t)), Z.to_N (snd (fst t)), Z.to_N (snd t))) listing)
        (map (fun p => (Z.to_nat (fst p), snd p)) valid)
        (map (fun t => (Z.to_N (fst (fst t)), snd (fst t), snd t)) probes).
