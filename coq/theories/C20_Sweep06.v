(* C20 complete sweep, shard 6 of 16: binary64 computation = integer formula. *)
From Coq Require Import ZArith Bool.
From NV Require Import Base.Range Gen.Gen_Consts C20_Model.
Open Scope Z_scope.
Definition shares_lo := 98306. Definition shares_hi := 114689.
Definition quota_lo := 96006. Definition quota_hi := 112006.
Lemma shares_sweep : all_range shares_lo shares_hi (fun s => shares_to_milli_f s =? shares_to_milli_z s) = true.
Proof. vm_cast_no_check (eq_refl true). Qed.
Lemma quota_sweep : all_range quota_lo quota_hi
  (fun m => quota_to_milli_f (Z.quot (m * K_QuotaPeriod) K_MilliCPUToCPU) K_QuotaPeriod
            =? quota_to_milli_z (Z.quot (m * K_QuotaPeriod) K_MilliCPUToCPU) K_QuotaPeriod) = true.
Proof. vm_cast_no_check (eq_refl true). Qed.
