(* C06 -- memory allocator operations are transactional; stale offers are rejected.
   Property theorems only (model: Libmem_Model; lemmas: Libmem_*.v).  Quantification: all node
   sets [ns], all zone-expansion functions [ex] (the built-in one is [default_expand ns]), all
   states satisfying the invariant [Inv] / [NoEmpty] (established by [init_inv], kept by every
   operation: [C06_inv_kept_*]) and all requests. [src_fixes] are the switches regenerated from
   the source (fixes F1, F2). *)
From Coq Require Import ZArith NArith List Bool.
From NV Require Import Gen.Gen_LibmemTabs Libmem_Model Libmem_Basics Libmem_Proofs Libmem_Alloc Libmem_Hist Libmem_Main.
Import ListNotations.
Open Scope Z_scope.

(* a failed Allocate leaves every assignment, all zone usage, the zone entries and the offer
   version exactly as before: the post-state IS the pre-state *)
Theorem C06_failed_allocate_noop : forall ns ex s r s' res, Inv s -> NoEmpty s ->
  allocate ns ex src_fixes s r = (s', res) -> rs_kind res <> KOk -> s' = s.
Proof. exact (fun ns ex => allocate_fail_noop ns ex src_fixes). Qed.
Print Assumptions C06_failed_allocate_noop.

(* the same for a failed Realloc (unknown id, invalid request, no new nodes, unresolvable overcommit) *)
Theorem C06_failed_realloc_noop : forall ns ex s id nodes types s' res, Inv s -> NoEmpty s ->
  realloc ns ex src_fixes s id nodes types = (s', res) -> rs_kind res <> KOk -> s' = s.
Proof. exact main_failed_realloc_noop. Qed.
Print Assumptions C06_failed_realloc_noop.

(* requesting an offer never changes allocator state, whether it succeeds or fails *)
Theorem C06_offer_pure : forall ns ex s r s' res o, Inv s -> NoEmpty s ->
  get_offer ns ex src_fixes s r = (s', res, o) -> s' = s.
Proof. exact main_offer_pure. Qed.
Print Assumptions C06_offer_pure.

(* committing a fresh offer gives the same zone, the same updates and the same resulting state as
   allocating the request directly; the offer itself already announces that zone and those updates *)
Theorem C06_commit_fresh_eq_allocate : forall ns ex s r s1 reso o sa ra sc rc, Inv s -> NoEmpty s ->
  get_offer ns ex src_fixes s r = (s1, reso, Some o) ->
  allocate ns ex src_fixes s r = (sa, ra) -> commit s1 o = (sc, rc) ->
  rs_kind ra = KOk /\ rs_kind rc = KOk /\ sc = sa /\
  rs_zone rc = rs_zone ra /\ rs_upd rc = rs_upd ra /\ rs_zone reso = rs_zone ra /\ rs_upd reso = rs_upd ra.
Proof. exact main_commit_fresh. Qed.
Print Assumptions C06_commit_fresh_eq_allocate.

(* a refused Commit changes nothing *)
Theorem C06_commit_refused_noop : forall s o s' res, commit s o = (s', res) -> rs_kind res <> KOk -> s' = s.
Proof. exact commit_refused_noop. Qed.
Print Assumptions C06_commit_refused_noop.

(* an offer taken before any later successful Allocate / Realloc / Release / Commit is refused when
   committed, however late: for every world, every offer in it, every successful state-changing
   operation and every continuation of the history *)
Theorem C06_stale_offer_refused : forall ns ex w k off o w1 res1 ops,
  offers_le w -> nth k (w_offers w) None = Some off ->
  step ns ex src_fixes w o = (w1, res1) -> rs_kind res1 = KOk -> is_offer_op o = false ->
  let w2 := run ns ex src_fixes w1 ops in
  rs_kind (snd (step ns ex src_fixes w2 (OpCommit k))) = KErr /\
  w_state (fst (step ns ex src_fixes w2 (OpCommit k))) = w_state w2.
Proof. exact main_stale_offer_refused. Qed.
Print Assumptions C06_stale_offer_refused.

(* the hypothesis [offers_le] holds in every world reachable from the initial one *)
Theorem C06_reachable_offers_le : forall ns ex ops, offers_le (run ns ex src_fixes init_world ops).
Proof. exact main_reachable_offers_le. Qed.
Print Assumptions C06_reachable_offers_le.

(* releasing an allocation removes that allocation only; a failed release changes nothing *)
Theorem C06_release_only_that : forall s id s' res, release s id = (s', res) ->
  (rs_kind res = KOk -> live s' = drop_req id (live s) /\ is_live id (live s') = false /\
                        (forall q, In q (live s') <-> In q (live s) /\ r_id q <> id)) /\
  (rs_kind res <> KOk -> s' = s).
Proof. exact release_only_that. Qed.
Print Assumptions C06_release_only_that.

(* the invariant used above is established initially and kept by Allocate and Release *)
Theorem C06_inv_init : forall ns, Inv init_state /\ NoEmpty init_state /\ Fit ns init_state /\ NormalOK ns init_state /\ sizes_nonneg (live init_state).
Proof. exact init_inv. Qed.
Print Assumptions C06_inv_init.

Theorem C06_inv_kept_allocate : forall ns ex s r s' res, Inv s ->
  allocate ns ex src_fixes s r = (s', res) -> rs_kind res = KOk -> Inv s' /\ NoEmpty s'.
Proof. exact (fun ns ex => allocate_ok_inv ns ex src_fixes). Qed.
Print Assumptions C06_inv_kept_allocate.

(* regression witnesses: with the fixes switched off the model shows F1 (an offer survives a direct
   Allocate, node 0 ends at free -2) and F2 (GetOffer leaves a zone entry that makes the next
   Allocate fail); with them on it does not *)
Theorem C06_refuted_before_fix_F1 :
  zfree f1_nodes (live (w_state (run_default f1_nodes no_fixes f1_ops))) 1 = -2 /\
  zfree f1_nodes (live (w_state (run_default f1_nodes all_fixes f1_ops))) 1 = 4.
Proof. exact f1_before_fix. Qed.
Print Assumptions C06_refuted_before_fix_F1.

Theorem C06_refuted_before_fix_F2 :
  length (live (w_state (run_default k1_nodes no_fixes (f2_ops false)))) = 2%nat /\
  length (live (w_state (run_default k1_nodes no_fixes (f2_ops true)))) = 1%nat /\
  length (live (w_state (run_default k1_nodes all_fixes (f2_ops true)))) = 2%nat.
Proof. exact f2_before_fix. Qed.
Print Assumptions C06_refuted_before_fix_F2.
