(* C14 -- no request can crash a plugin (partial: the modelled lookup/dereference points of the
   resource manager's handlers; everything else is covered by the differential fuzz). *)
From Coq Require Import List Bool.
From stdpp Require Import gmap sets.
From NV Require Import Nil_Model.
Import ListNotations.

(* for every state -- any set of known pods and containers -- and every event, naming known or
   unknown, already forgotten, duplicated or out-of-order ids, the handler skeleton returns
   (ok, error, or whatever the policy decides) and never dereferences a failed lookup *)
Theorem C14_handlers_never_panic_partial : forall s e, is_panic (fst (nstep s e)) = false.
Proof.
  intros s e. destruct e; cbn [nstep fst is_panic]; try reflexivity.
  - destruct (bool_decide (p ∈ n_pods s)); reflexivity.
  - destruct (n_ctrs s !! c); reflexivity.
Qed.
Print Assumptions C14_handlers_never_panic_partial.

(* ... hence for every event sequence; a refused request leaves a state that serves all later ones *)
Theorem C14_sequences_never_panic_partial : forall es s,
  forallb (fun o => negb (is_panic o)) (fst (fold_left (fun acc e => let '(os, st) := acc in let '(o, st') := nstep st e in (os ++ [o], st')) es ([], s))) = true.
Proof.
  intros es. assert (G : forall acc s, forallb (fun o => negb (is_panic o)) acc = true ->
    forallb (fun o => negb (is_panic o)) (fst (fold_left (fun acc e => let '(os, st) := acc in let '(o, st') := nstep st e in (os ++ [o], st')) es (acc, s))) = true).
  { induction es as [|e es IH]; intros acc s H; cbn [fold_left fst]; [exact H|].
    destruct (nstep s e) as [o s'] eqn:E. apply IH. rewrite forallb_app, H. cbn.
    pose proof (C14_handlers_never_panic_partial s e) as Hp. rewrite E in Hp. cbn in Hp. rewrite Hp. reflexivity. }
  intros s. apply G. reflexivity.
Qed.
Print Assumptions C14_sequences_never_panic_partial.
