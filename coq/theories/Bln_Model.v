(* Balloons policy: CPU partition / membership bookkeeping model (balloons-policy.go:
   newBalloon, deleteBalloon, resizeBalloon, shareIdleCpus, assignContainer, dismissContainer,
   updatePinning).  Choice-parametric: which CPUs the cpu-tree allocator picks and which balloon
   the fill methods choose are inputs read from the implementation snapshot.  No proofs here. *)
From Coq Require Import ZArith List Bool.
From stdpp Require Import gmap sets.
Import ListNotations.

Definition cset := gset nat.
Definition lset (l : list nat) : cset := list_to_set l.

Record bln := { b_cpus : cset; b_shared : cset; b_members : gset nat }.
Record bst := { allowed : cset; isolated : cset; freec : cset; blns : gmap nat bln }.

Definition binit (allowed isolated : cset) : bst :=
  {| allowed := allowed; isolated := isolated; freec := allowed; blns := ∅ |}.

Inductive bop :=
| BNew (b : nat)                   (* newBalloon: a balloon instance without CPUs *)
| BDelete (b : nat)                (* deleteBalloon: its CPUs return to the free set *)
| BInflate (b : nat) (X : cset)    (* resizeBalloon(+): X taken from the free CPUs; X leaves every shared idle set *)
| BDeflate (b : nat) (X : cset)    (* resizeBalloon(-): X returned to the free CPUs *)
| BShare (b : nat) (Sh : cset)      (* shareIdleCpus: idle CPUs S added to b's shared idle set *)
| BUnshare (b : nat) (Sh : cset)    (* CPUs leave b's shared idle set *)
| BAssign (c b : nat)              (* assignContainer *)
| BDismiss (c : nat).              (* dismissContainer *)

Inductive berr := BGuard (n : nat).
Inductive bres := BOk (s : bst) | BErr (e : berr).

Definition set_blns (s : bst) (m : gmap nat bln) : bst :=
  {| allowed := allowed s; isolated := isolated s; freec := freec s; blns := m |}.
Definition set_free (s : bst) (f : cset) : bst :=
  {| allowed := allowed s; isolated := isolated s; freec := f; blns := blns s |}.

Definition member_of (s : bst) (c : nat) : list nat :=
  fst <$> filter (fun kv => bool_decide (c ∈ b_members (snd kv))) (map_to_list (blns s)).

Definition subseteqb (a b : cset) : bool := bool_decide (a ⊆ b).

(* guards: 1 unknown balloon, 2 balloon exists, 3 X not within free, 4 X not within the balloon,
   5 shared CPUs not idle / isolated, 6 container already a member, 7 deleting a non-empty balloon *)
Definition bstep (s : bst) (o : bop) : bres :=
  match o with
  | BNew b =>
    match blns s !! b with
    | Some _ => BErr (BGuard 2)
    | None => BOk (set_blns s (<[b := {| b_cpus := ∅; b_shared := ∅; b_members := ∅ |}]> (blns s)))
    end
  | BDelete b =>
    match blns s !! b with
    | None => BErr (BGuard 1)
    | Some x => if bool_decide (b_members x = ∅)
                then BOk (set_free (set_blns s (delete b (blns s))) (freec s ∪ b_cpus x))
                else BErr (BGuard 7)
    end
  | BInflate b X =>
    match blns s !! b with
    | None => BErr (BGuard 1)
    | Some x =>
      if subseteqb X (freec s) then
        let m := <[b := {| b_cpus := b_cpus x ∪ X; b_shared := b_shared x; b_members := b_members x |}]> (blns s) in
        let m' := (fun y => {| b_cpus := b_cpus y; b_shared := b_shared y ∖ X; b_members := b_members y |}) <$> m in
        BOk (set_free (set_blns s m') (freec s ∖ X))
      else BErr (BGuard 3)
    end
  | BDeflate b X =>
    match blns s !! b with
    | None => BErr (BGuard 1)
    | Some x =>
      if subseteqb X (b_cpus x) then
        BOk (set_free (set_blns s (<[b := {| b_cpus := b_cpus x ∖ X; b_shared := b_shared x; b_members := b_members x |}]> (blns s)))
                      (freec s ∪ X))
      else BErr (BGuard 4)
    end
  | BShare b Sh =>
    match blns s !! b with
    | None => BErr (BGuard 1)
    | Some x =>
      if subseteqb Sh (freec s ∖ isolated s) then
        BOk (set_blns s (<[b := {| b_cpus := b_cpus x; b_shared := b_shared x ∪ Sh; b_members := b_members x |}]> (blns s)))
      else BErr (BGuard 5)
    end
  | BUnshare b Sh =>
    match blns s !! b with
    | None => BErr (BGuard 1)
    | Some x => BOk (set_blns s (<[b := {| b_cpus := b_cpus x; b_shared := b_shared x ∖ Sh; b_members := b_members x |}]> (blns s)))
    end
  | BAssign c b =>
    match blns s !! b with
    | None => BErr (BGuard 1)
    | Some x =>
      match member_of s c with
      | [] => BOk (set_blns s (<[b := {| b_cpus := b_cpus x; b_shared := b_shared x; b_members := b_members x ∪ {[c]} |}]> (blns s)))
      | _ => BErr (BGuard 6)
      end
    end
  | BDismiss c =>
    BOk (set_blns s ((fun y => {| b_cpus := b_cpus y; b_shared := b_shared y; b_members := b_members y ∖ {[c]} |}) <$> blns s))
  end.

Fixpoint brun (s : bst) (os : list bop) : bres :=
  match os with
  | [] => BOk s
  | o :: os' => match bstep s o with BOk s' => brun s' os' | BErr e => BErr e end
  end.

(* what a member container is pinned to (updatePinning), before hyperthread hiding *)
Definition pinned (x : bln) : cset := b_cpus x ∪ b_shared x.

(* ---- observables ---- *)
Record obs_bln := { ob_id : nat; ob_cpus : list nat; ob_shared : list nat; ob_members : list nat }.
Record bobs := { ob_free : list nat; ob_blns : list obs_bln; ob_pinned : list (nat * nat * list nat) (* container, balloon, cpuset *) }.

Definition bln_matches (s : bst) (o : obs_bln) : bool :=
  match blns s !! ob_id o with
  | None => false
  | Some x => bool_decide (b_cpus x = lset (ob_cpus o)) && bool_decide (b_shared x = lset (ob_shared o))
              && bool_decide (b_members x = list_to_set (ob_members o))
  end.

Definition pinned_matches (s : bst) (p : nat * nat * list nat) : bool :=
  let '(c, b, l) := p in
  match blns s !! b with
  | None => false
  | Some x => bool_decide (c ∈ b_members x) && bool_decide (pinned x = lset l)
  end.

Inductive bmismatch := BMStep (i : nat) (e : berr) | BMFree (i : nat) | BMBln (i : nat) (b : nat) | BMCount (i : nat) | BMPinned (i : nat) (c : nat).

Definition bcheck_obs (s : bst) (i : nat) (o : bobs) : option bmismatch :=
  if negb (bool_decide (freec s = lset (ob_free o))) then Some (BMFree i)
  else match filter (fun ob => negb (bln_matches s ob)) (ob_blns o) with
       | ob :: _ => Some (BMBln i (ob_id ob))
       | [] => if negb (Nat.eqb (size (blns s)) (length (ob_blns o))) then Some (BMCount i)
               else match filter (fun p => negb (pinned_matches s p)) (ob_pinned o) with
                    | (c, _, _) :: _ => Some (BMPinned i c)
                    | [] => None
                    end
       end.

Fixpoint bcheck_trace (s : bst) (i : nat) (tr : list (list bop * bobs)) : option bmismatch :=
  match tr with
  | [] => None
  | (os, o) :: tr' =>
    match brun s os with
    | BErr e => Some (BMStep i e)
    | BOk s' => match bcheck_obs s' i o with Some m => Some m | None => bcheck_trace s' (S i) tr' end
    end
  end.

(* one segment per (re)configuration / restart: allowed, isolated, trace *)
Fixpoint bcheck_segments (i : nat) (segs : list (list nat * list nat * list (list bop * bobs))) : option (nat * bmismatch) :=
  match segs with
  | [] => None
  | (al, iso, tr) :: segs' =>
    match bcheck_trace (binit (lset al) (lset iso)) 0 tr with
    | Some m => Some (i, m)
    | None => bcheck_segments (S i) segs'
    end
  end.

(* ---- shared idle completeness (spec, evaluated on every snapshot): every idle non-isolated CPU of
   the topology-level groups the balloon's CPUs touch is in its shared idle set ---- *)
Definition scope_of (groups : list (list nat)) (cpus : cset) : cset :=
  fold_right (fun g acc => if bool_decide (lset g ## cpus) then acc else lset g ∪ acc) ∅ groups.
Definition shared_complete (s : bst) (groups : list (list nat)) (b : nat) : bool :=
  match blns s !! b with
  | None => false
  | Some x => subseteqb ((scope_of groups (b_cpus x) ∩ freec s) ∖ isolated s) (b_shared x)
  end.
