(* libmem: what a single Allocate / GetOffer / Release does to a state satisfying the
   invariant -- C06 and C07 clauses at the level of one operation. *)
From Coq Require Import ZArith NArith List Bool Lia Permutation.
From NV Require Import Gen.Gen_LibmemConsts Gen.Gen_LibmemTabs Libmem_Model Libmem_Basics Libmem_Steps Libmem_Proofs.
Import ListNotations.
Open Scope Z_scope.

Section Alloc.
Context (ns : list node) (ex : N -> N -> N * N).

(* ------------------------------------------------------------------ state invariants *)

Definition Inv (s : state) : Prop :=
  ids_nodup (live s) /\ zk_sorted (zkeys s) /\
  (forall r, In r (live s) -> r_zone r <> 0%N /\ In (r_zone r) (zkeys s)).
(* no zone entry without users (what cleanupUnusedZones establishes) *)
Definition NoEmpty (s : state) : Prop := forall z, In z (zkeys s) -> exists r, In r (live s) /\ r_zone r = z.
Definition Fit (s : state) : Prop := forall z, In z (zkeys s) -> 0 <= zfree ns (live s) z.
Definition NormalOK (s : state) : Prop := forall r, In r (live s) -> mnz (N.land (r_zone r) (m_normal ns)) = true.

Lemma usage_app l1 l2 z : usage (l1 ++ l2) z = usage l1 z + usage l2 z.
Proof. unfold usage. induction l1 as [|a l IH]; cbn [app fold_right]; [lia|]. rewrite IH. lia. Qed.

Lemma zone_of_app_notlive id l r1 : is_live id l = false -> r_id r1 = id -> zone_of id (l ++ [r1]) = r_zone r1.
Proof.
  intros Hl E. unfold zone_of. rewrite find_req_app. rewrite is_live_find in Hl.
  destruct (find_req id l); [discriminate|]. unfold find_req. cbn [find]. rewrite E, N.eqb_refl. reflexivity.
Qed.

Lemma zone_of_app_other id l r1 : r_id r1 <> id -> zone_of id (l ++ [r1]) = zone_of id l.
Proof.
  intros E. unfold zone_of. rewrite find_req_app. destruct (find_req id l); [reflexivity|].
  unfold find_req. cbn [find]. destruct (r_id r1 =? id)%N eqn:X; [apply N.eqb_eq in X; congruence|reflexivity].
Qed.

Lemma zone_of_notlive id l : is_live id l = false -> zone_of id l = 0%N.
Proof. intros H. unfold zone_of. rewrite is_live_find in H. destruct (find_req id l); [discriminate|reflexivity]. Qed.

Lemma zone_of_in l r : ids_nodup l -> In r l -> zone_of (r_id r) l = r_zone r.
Proof. intros ND H. unfold zone_of. rewrite (find_req_in _ ND _ H). reflexivity. Qed.

Lemma cleanup_all l zk : (forall z, In z zk -> exists r, In r l /\ r_zone r = z) -> cleanup l zk = zk.
Proof.
  intros H. unfold cleanup. induction zk as [|z zk IH]; [reflexivity|]. cbn [filter].
  assert (0 <? nusers l z = true) as ->.
  { apply Z.ltb_lt. apply nusers_pos. apply H. left. reflexivity. }
  f_equal. apply IH. intros x Hx. apply H. right. exact Hx.
Qed.

(* ------------------------------------------------------------------ the start of an Allocate *)

Lemma alloc_start_P1 s r1 : ids_nodup (live s) -> is_live (r_id r1) (live s) = false ->
  P1 (live s ++ [r1]) (alloc_start s r1).
Proof.
  intros ND Hl. split; [|apply lmoves_refl]. cbn [alloc_start o_live]. unfold ids_nodup.
  rewrite map_app. cbn [map]. apply nodup_snoc; [exact ND|]. apply is_live_false. exact Hl.
Qed.

Lemma alloc_start_P3 s r1 : Inv s -> r_zone r1 <> 0%N -> P3 (r_zone r1) (zkeys s) (alloc_start s r1).
Proof.
  intros [_ [S C]] Hnz. unfold P3. cbn [alloc_start o_zk o_live].
  split; [apply zk_add_sorted; exact S|]. split; [|split].
  - intros q Hq. apply zk_add_in. apply in_app_or in Hq as [Hq|[<-|[]]]; [right; apply C; exact Hq|left; reflexivity].
  - intros x Hx. apply zk_add_in. right. exact Hx.
  - intros x Hx. apply zk_add_in in Hx as [->|Hx]; [|left; exact Hx].
    right. rewrite N.land_diag. apply mnz_true. exact Hnz.
Qed.

Lemma alloc_start_jinv s r1 : is_live (r_id r1) (live s) = false -> r_zone r1 <> 0%N ->
  jinv (live s) (alloc_start s r1).
Proof.
  intros Hl Hnz. unfold jinv. cbn [alloc_start o_upd o_rev o_live keys map fst].
  split; [constructor; [intros []|constructor]|]. split; [constructor; [intros []|constructor]|].
  intros id. unfold al_get. cbn [find fst snd]. destruct (r_id r1 =? id)%N eqn:E.
  - apply N.eqb_eq in E. subst id. rewrite (zone_of_app_notlive _ _ _ Hl eq_refl).
    split; [reflexivity|]. split; [symmetry; apply zone_of_notlive; exact Hl|].
    split; [apply msub_spec; intros i Hi; rewrite N.bits_0 in Hi; discriminate|].
    split; [intros X; apply Hnz; symmetry; exact X|]. rewrite is_live_find, find_req_app. rewrite is_live_find in Hl.
    destruct (find_req (r_id r1) (live s)); [discriminate|]. unfold find_req. cbn [find]. rewrite N.eqb_refl. reflexivity.
  - apply N.eqb_neq in E. split; [reflexivity|]. apply zone_of_app_other. exact E.
Qed.

(* everything we know after the overcommit handling of an Allocate *)
Record alloc_facts (s : state) (r1 : req) (st : ost) : Prop := {
  af_P1 : P1 (live s ++ [r1]) st;
  af_P3 : P3 (r_zone r1) (zkeys s) st;
  af_J : jinv (live s) st }.

Lemma alloc_facts_of s r1 st : Inv s -> is_live (r_id r1) (live s) = false ->
  mnz (N.land (r_zone r1) (m_normal ns)) = true ->
  msteps ns ex (r_zone r1) (alloc_start s r1) st -> alloc_facts s r1 st.
Proof.
  intros I Hl Hn M. pose proof (mnz_land_nz _ _ Hn) as Hnz. destruct I as [ND I2]. split.
  - eapply P1_msteps; [exact M|]. apply alloc_start_P1; assumption.
  - eapply P3_msteps; [exact Hnz|exact M|]. apply alloc_start_P3; [exact (conj ND I2)|exact Hnz].
  - eapply jinv_msteps; [exact M|]. apply alloc_start_jinv; assumption.
Qed.

(* ------------------------------------------------------------------ revertJournal restores the state *)

Definition restore (rev : list (N * N)) (r : req) : list req :=
  match al_get (r_id r) rev with
  | Some zr => if (zr =? 0)%N then [] else [set_zone zr r]
  | None => [r]
  end.

Definition rev_step (acc : list req * list N) (p : N * N) : list req * list N :=
  let '(l, zk) := acc in
  if (snd p =? 0)%N then (drop_req (fst p) l, zk) else (move_req (fst p) (snd p) l, zk_add (snd p) zk).

Lemma revert_unfold rid st :
  revert rid st = (let '(l, zk) := fold_left rev_step (o_rev st) (o_live st, o_zk st) in
                   (match rid with Some id => drop_req id l | None => l end, zk)).
Proof. reflexivity. Qed.

Lemma restore_cons_same k zr rev a : r_id a = k ->
  restore ((k, zr) :: rev) a = if (zr =? 0)%N then [] else [set_zone zr a].
Proof. intros E. unfold restore, al_get. cbn [find fst snd]. rewrite E, N.eqb_refl. reflexivity. Qed.

Lemma restore_cons_other k zr rev a : r_id a <> k -> restore ((k, zr) :: rev) a = restore rev a.
Proof.
  intros E. unfold restore, al_get. cbn [find fst snd].
  destruct (k =? r_id a)%N eqn:X; [apply N.eqb_eq in X; congruence|reflexivity].
Qed.

Lemma restore_nil a : restore [] a = [a].
Proof. reflexivity. Qed.

Lemma rev_fold_live rev : NoDup (keys rev) -> forall l zk,
  fst (fold_left rev_step rev (l, zk)) = flat_map (restore rev) l.
Proof.
  induction rev as [|[k zr] rev IH]; intros ND l zk.
  - cbn [fold_left fst]. induction l as [|a l IHl]; [reflexivity|].
    cbn [flat_map]. rewrite restore_nil. cbn [app]. f_equal. exact IHl.
  - cbn [keys map fst] in ND. inversion ND as [|? ? Hn ND']; subst. cbn [fold_left rev_step fst snd].
    assert (al_get k rev = None) as Hk.
    { unfold al_get. destruct (find (fun p => (fst p =? k)%N) rev) as [p|] eqn:F; [|reflexivity].
      apply find_some in F as [Hin E]. apply N.eqb_eq in E. exfalso. apply Hn. apply in_map_iff. exists p. auto. }
    destruct (zr =? 0)%N eqn:Ez.
    + rewrite IH by exact ND'. unfold drop_req. induction l as [|a l IHl]; [reflexivity|].
      cbn [filter flat_map]. destruct (N.eq_dec (r_id a) k) as [E|E].
      * rewrite (restore_cons_same _ _ _ _ E), Ez. apply N.eqb_eq in E. rewrite E. cbn [negb app]. exact IHl.
      * rewrite (restore_cons_other _ _ _ _ E). apply N.eqb_neq in E. rewrite E. cbn [negb flat_map]. rewrite IHl. reflexivity.
    + rewrite IH by exact ND'. unfold move_req. induction l as [|a l IHl]; [reflexivity|].
      cbn [map flat_map]. rewrite IHl. f_equal. destruct (N.eq_dec (r_id a) k) as [E|E].
      * rewrite (restore_cons_same _ _ _ _ E), Ez. pose proof E as E'. apply N.eqb_eq in E'. rewrite E'.
        unfold restore. rewrite set_zone_id, E, Hk. reflexivity.
      * rewrite (restore_cons_other _ _ _ _ E). apply N.eqb_neq in E. rewrite E. reflexivity.
Qed.

Lemma zk_add_member z l : zk_sorted l -> In z l -> zk_add z l = l.
Proof.
  unfold zk_sorted. induction l as [|y l IH]; intros S H; [destruct H|].
  inversion S as [|? ? S' F]; subst. cbn [zk_add]. rewrite Forall_forall in F.
  destruct H as [->|H].
  - rewrite N.ltb_irrefl, N.eqb_refl. reflexivity.
  - specialize (F _ H). cbn in F.
    destruct (z <? y)%N eqn:E1; [apply N.ltb_lt in E1; lia|].
    destruct (z =? y)%N eqn:E2; [reflexivity|]. f_equal. apply IH; assumption.
Qed.

Lemma rev_fold_zk rev : forall l zk, zk_sorted zk ->
  (forall k zr, In (k, zr) rev -> zr <> 0%N -> In zr zk) ->
  snd (fold_left rev_step rev (l, zk)) = zk.
Proof.
  induction rev as [|[k zr] rev IH]; intros l zk S H; [reflexivity|].
  cbn [fold_left rev_step fst snd]. destruct (zr =? 0)%N eqn:Ez.
  - apply IH; [exact S|]. intros k' z' Hin. apply (H k'). right. exact Hin.
  - apply N.eqb_neq in Ez. rewrite zk_add_member; [|exact S|eapply H; [left; reflexivity|exact Ez]].
    apply IH; [exact S|]. intros k' z' Hin. apply (H k'). right. exact Hin.
Qed.

(* what the journal knows about the start of the operation *)
Definition jstart (l_start l' : list req) (rev : list (N * N)) : Prop :=
  forall id, match al_get id rev with
             | None => zone_of id l' = zone_of id l_start
             | Some zr => zr = zone_of id l_start
             end.

Lemma jinv_jstart l_start st : jinv l_start st -> jstart l_start (o_live st) (o_rev st).
Proof.
  intros [_ [_ J]] id. specialize (J id). destruct (al_get id (o_rev st)); tauto.
Qed.

Lemma restore_moved l_start l' rev : ids_nodup l_start -> ids_nodup l' ->
  (forall r, In r l_start -> r_zone r <> 0%N) -> jstart l_start l' rev ->
  forall la lb, Forall2 mv la lb -> (forall r, In r la -> In r l_start) -> (forall r, In r lb -> In r l') ->
  flat_map (restore rev) lb = la.
Proof.
  intros ND ND' Hnz J. induction 1 as [|r0 r' la lb Hm F IH]; intros Ha Hb; [reflexivity|].
  cbn [flat_map]. rewrite IH; [|intros r Hr; apply Ha; right; exact Hr|intros r Hr; apply Hb; right; exact Hr].
  assert (In r0 l_start) as H0 by (apply Ha; left; reflexivity).
  assert (In r' l') as H' by (apply Hb; left; reflexivity).
  destruct Hm as [E _]. assert (r_id r' = r_id r0) as Eid by (rewrite E; reflexivity).
  unfold restore. specialize (J (r_id r0)). rewrite Eid.
  rewrite (zone_of_in _ _ ND H0) in J. destruct (al_get (r_id r0) rev) as [zr|].
  - subst zr. assert ((r_zone r0 =? 0)%N = false) as -> by (apply N.eqb_neq; apply Hnz; exact H0).
    rewrite E. cbn [set_zone]. destruct r0; reflexivity.
  - rewrite <- Eid in J. rewrite (zone_of_in _ _ ND' H') in J. rewrite E, J. rewrite set_zone_same. reflexivity.
Qed.

(* Allocate / GetOffer: reverting the journal gives back exactly the old request list and key set *)
Lemma revert_alloc s r1 st : Inv s -> is_live (r_id r1) (live s) = false -> r_zone r1 <> 0%N ->
  alloc_facts s r1 st ->
  fst (revert (Some (r_id r1)) st) = live s /\ snd (revert (Some (r_id r1)) st) = o_zk st.
Proof.
  intros [ND [S C]] Hl Hnz [[ND' L] [S3 [C3 [I3 O3]]] J].
  rewrite revert_unfold. destruct (fold_left rev_step (o_rev st) (o_live st, o_zk st)) as [l zk] eqn:F.
  cbn [fst snd].
  assert (l = fst (fold_left rev_step (o_rev st) (o_live st, o_zk st))) as El by (rewrite F; reflexivity).
  assert (zk = snd (fold_left rev_step (o_rev st) (o_live st, o_zk st))) as Ez by (rewrite F; reflexivity).
  pose proof J as [_ [NDr Jall]]. pose proof (jinv_jstart _ _ J) as JS.
  split.
  - rewrite El, rev_fold_live by exact NDr.
    unfold lmoves in L. apply Forall2_app_inv_l in L as [l1 [l2 [L1 [L2 E']]]].
    inversion L2 as [|? r1' ? ? Hm1 L2']; subst. inversion L2'; subst.
    rewrite E' in *. rewrite flat_map_app. cbn [flat_map]. rewrite app_nil_r.
    rewrite (restore_moved (live s) (l1 ++ [r1']) (o_rev st) ND ND' (fun r Hr => proj1 (C r Hr)) JS (live s) l1 L1);
      [|auto|intros r Hr; apply in_or_app; left; exact Hr].
    destruct Hm1 as [E1 [S1 _]]. assert (r_id r1' = r_id r1) as Eid by (rewrite E1; reflexivity).
    assert (restore (o_rev st) r1' = []) as ->.
    { unfold restore. rewrite Eid. specialize (JS (r_id r1)).
      destruct (al_get (r_id r1) (o_rev st)) as [zr|].
      - rewrite (zone_of_notlive _ _ Hl) in JS. subst zr. reflexivity.
      - exfalso. rewrite (zone_of_notlive _ _ Hl) in JS. rewrite <- Eid in JS.
        rewrite (zone_of_in _ _ ND') in JS by (apply in_or_app; right; left; reflexivity).
        apply Hnz. apply msub_antisym; [rewrite JS in S1; exact S1|].
        apply msub_spec. intros i Hi. rewrite N.bits_0 in Hi. discriminate. }
    rewrite app_nil_r. apply drop_req_notin. intros r Hr E. apply is_live_false in Hl. apply Hl.
    rewrite <- E. apply in_map. exact Hr.
  - rewrite Ez. apply rev_fold_zk; [exact S3|].
    intros k zr Hin Hz. apply (al_in_get _ _ _ NDr) in Hin. specialize (JS k). rewrite Hin in JS.
    (* zr is the zone at journal start of a request that was live then *)
    destruct (is_live k (live s)) eqn:Lk.
    + rewrite is_live_find in Lk. destruct (find_req k (live s)) as [q|] eqn:Fq; [|discriminate].
      rewrite (zone_of_find _ _ _ Fq) in JS. subst zr. apply I3. apply C. apply (find_req_some _ _ _ Fq).
    + rewrite (zone_of_notlive _ _ Lk) in JS. contradiction.
Qed.

(* ------------------------------------------------------------------ C06: failed Allocate, GetOffer *)

Context (fx : fixes).

Lemma state_eta s : mkState (live s) (zkeys s) (version s) = s.
Proof. destruct s; reflexivity. Qed.

Lemma cleanup_restored s zk : Inv s -> NoEmpty s -> zk_sorted zk -> (forall x, In x (zkeys s) -> In x zk) ->
  cleanup (live s) zk = zkeys s.
Proof.
  intros [ND [S C]] NE S' I. apply sorted_ext; [apply filter_sorted; exact S'|exact S|].
  intros x. rewrite cleanup_in. split.
  - intros [_ [r [Hr <-]]]. apply C. exact Hr.
  - intros Hx. split; [apply I; exact Hx|apply NE; exact Hx].
Qed.

Lemma alloc_core_err_noop s r l zk oc : Inv s -> NoEmpty s -> alloc_core ns ex s r = CErr l zk oc ->
  l = live s /\ cleanup l zk = zkeys s.
Proof.
  intros I NE E. pose proof I as [ND [S C]]. pose proof (alloc_core_view ns ex s r ND) as V. rewrite E in V.
  inversion V as [| |r1 st Hid Hl Hn M|]; subst.
  - split; [reflexivity|]. apply cleanup_all. exact NE.
  - pose proof (alloc_facts_of s r1 st I (eq_ind_r (fun i => is_live i (live s) = false) Hl Hid) Hn M) as F.
    rewrite <- Hid. rewrite <- Hid in Hl.
    destruct (revert_alloc s r1 st I Hl (mnz_land_nz _ _ Hn) F) as [E1 E2].
    rewrite E1, E2. split; [reflexivity|].
    destruct F as [_ [S3 [_ [I3 _]]] _]. apply cleanup_restored; assumption.
Qed.

(* a failed Allocate leaves the state exactly as it was *)
Theorem allocate_fail_noop s r s' res : Inv s -> NoEmpty s ->
  allocate ns ex fx s r = (s', res) -> rs_kind res <> KOk -> s' = s.
Proof.
  intros I NE H K. unfold allocate in H. destruct (alloc_core ns ex s r) as [st|l zk oc|] eqn:AC.
  - injection H as <- <-. cbn in K. congruence.
  - injection H as <- <-. destruct (alloc_core_err_noop _ _ _ _ _ I NE AC) as [-> ->]. apply state_eta.
  - injection H as <- <-. reflexivity.
Qed.

(* GetOffer never changes the state (with the cleanup of fix F2 in place) *)
Theorem get_offer_pure s r s' res o : Inv s -> NoEmpty s -> fx_F2g fx = true ->
  get_offer ns ex fx s r = (s', res, o) -> s' = s.
Proof.
  intros I NE F2 H. unfold get_offer in H. rewrite F2 in H. cbn [clean_if] in H.
  destruct (alloc_core ns ex s r) as [st|l zk oc|] eqn:AC.
  - pose proof I as [ND [S C]]. pose proof (alloc_core_view ns ex s r ND) as V. rewrite AC in V.
    inversion V as [|r1 st0 Hid _ _ _ Hl Hn M R| |]; subst.
    rewrite <- Hid in Hl.
    pose proof (alloc_facts_of s r1 st I Hl Hn M) as F.
    destruct (revert_alloc s r1 st I Hl (mnz_land_nz _ _ Hn) F) as [E1 E2].
    rewrite <- Hid in H. destruct (revert (Some (r_id r1)) st) as [l zk]. cbn [fst snd] in E1, E2. subst l zk.
    injection H as <- _ _. destruct F as [_ [S3 [_ [I3 _]]] _].
    rewrite cleanup_restored by assumption. apply state_eta.
  - injection H as <- _ _. destruct (alloc_core_err_noop _ _ _ _ _ I NE AC) as [-> ->]. apply state_eta.
  - injection H as <- _ _. reflexivity.
Qed.

(* ------------------------------------------------------------------ C07: a successful Allocate *)

Lemma allocate_ok_view s r s' res : Inv s -> allocate ns ex fx s r = (s', res) -> rs_kind res = KOk ->
  exists r1 st,
    r_id r1 = r_id r /\ r_size r1 = r_size r /\ r_prio r1 = r_prio r /\ r_strict r1 = r_strict r /\
    is_live (r_id r) (live s) = false /\ mnz (N.land (r_zone r1) (m_normal ns)) = true /\
    alloc_facts s r1 st /\ resolved ns (r_zone r1) st /\
    s' = mkState (o_live st) (cleanup (o_live st) (o_zk st)) (bump (fx_F1a fx) (version s)) /\
    rs_zone res = zone_of (r_id r) (o_live st) /\ rs_upd res = al_del (r_id r) (o_upd st).
Proof.
  intros I H K. pose proof I as [ND _]. pose proof (alloc_core_view ns ex s r ND) as V.
  unfold allocate in H. destruct (alloc_core ns ex s r) as [st|l zk oc|] eqn:AC.
  - inversion V as [|r1 st0 Hid Hsz Hpr Hst Hl Hn M R| |]; subst. injection H as <- <-.
    exists r1, st. pose proof Hl as Hl'. rewrite <- Hid in Hl'.
    pose proof (alloc_facts_of s r1 st I Hl' Hn M) as F.
    split; [exact Hid|]. split; [exact Hsz|]. split; [exact Hpr|]. split; [exact Hst|]. split; [exact Hl|].
    split; [exact Hn|]. split; [exact F|]. split; [exact R|]. split; [reflexivity|]. split; reflexivity.
  - injection H as <- <-. cbn in K. discriminate.
  - injection H as <- <-. cbn in K. discriminate.
Qed.

(* invariants of the state are kept *)
Lemma after_alloc_inv l zk : ids_nodup l -> zk_sorted zk -> (forall r, In r l -> In (r_zone r) zk) ->
  (forall r, In r l -> r_zone r <> 0%N) ->
  forall v, Inv (mkState l (cleanup l zk) v) /\ NoEmpty (mkState l (cleanup l zk) v).
Proof.
  intros ND S C Z v. split.
  - split; [exact ND|]. split; [apply filter_sorted; exact S|]. cbn [live zkeys]. intros r Hr.
    split; [apply Z; exact Hr|]. apply cleanup_in. split; [apply C; exact Hr|]. exists r. auto.
  - intros z Hz. cbn [live zkeys] in *. apply cleanup_in in Hz. tauto.
Qed.

Lemma mv_zone_nz r r' : mv r r' -> r_zone r <> 0%N -> r_zone r' <> 0%N.
Proof.
  intros [_ [S _]] H E. apply H. rewrite E in S. apply msub_antisym; [exact S|].
  apply msub_spec. intros i Hi. rewrite N.bits_0 in Hi. discriminate.
Qed.

Theorem allocate_ok_inv s r s' res : Inv s -> allocate ns ex fx s r = (s', res) -> rs_kind res = KOk ->
  Inv s' /\ NoEmpty s'.
Proof.
  intros I H K. destruct (allocate_ok_view _ _ _ _ I H K) as [r1 [st [Hid [_ [_ [_ [Hl [Hn [[[ND' L] [S3 [C3 _]] _] [_ [-> _]]]]]]]]]]].
  apply after_alloc_inv; [exact ND'|exact S3|exact C3|].
  intros q' Hq'. destruct (lmoves_in_r _ _ _ L Hq') as [q [Hq Hm]]. eapply mv_zone_nz; [exact Hm|].
  destruct I as [_ [_ C]]. apply in_app_or in Hq as [Hq|[<-|[]]]; [apply C; exact Hq|eapply mnz_land_nz; exact Hn].
Qed.

(* existing allocations only move to supersets, keep all their attributes, and move only if their
   priority is at most Preserved (so reservations never move) *)
Theorem allocate_moves s r s' res : Inv s -> allocate ns ex fx s r = (s', res) -> rs_kind res = KOk ->
  forall q, In q (live s) ->
    exists q', find_req (r_id q) (live s') = Some q' /\ q' = set_zone (r_zone q') q /\
               msub (r_zone q) (r_zone q') = true /\ (r_zone q' <> r_zone q -> r_prio q <= LM_Preserved).
Proof.
  intros I H K q Hq. destruct (allocate_ok_view _ _ _ _ I H K) as [r1 [st [_ [_ [_ [_ [_ [_ [[[ND' L] _ _] [_ [-> _]]]]]]]]]]].
  cbn [live]. destruct I as [ND _].
  assert (find_req (r_id q) (live s ++ [r1]) = Some q) as F.
  { rewrite find_req_app, (find_req_in _ ND _ Hq). reflexivity. }
  destruct (lmoves_find _ _ _ _ L F) as [q' [F' Hm]]. exists q'. split; [exact F'|exact Hm].
Qed.

(* the requester is assigned exactly the returned zone; it contains a normal-memory node, and
   so does every zone anything was moved to *)
Theorem allocate_normal s r s' res : Inv s -> NormalOK s -> allocate ns ex fx s r = (s', res) -> rs_kind res = KOk ->
  NormalOK s' /\ zone_of (r_id r) (live s') = rs_zone res /\ is_live (r_id r) (live s') = true.
Proof.
  intros I NO H K. destruct (allocate_ok_view _ _ _ _ I H K) as [r1 [st [Hid [_ [_ [_ [Hl [Hn [[[ND' L] _ _] [_ [-> [Ez _]]]]]]]]]]]].
  cbn [live]. split; [|split; [symmetry; exact Ez|]].
  - intros q' Hq'. destruct (lmoves_in_r _ _ _ L Hq') as [q [Hq [_ [S _]]]].
    eapply mnz_land_mono; [exact S|]. apply in_app_or in Hq as [Hq|[<-|[]]]; [apply NO; exact Hq|exact Hn].
  - assert (find_req (r_id r) (live s ++ [r1]) = Some r1) as F.
    { rewrite find_req_app. rewrite is_live_find in Hl. destruct (find_req (r_id r) (live s)); [discriminate|].
      unfold find_req. cbn [find]. rewrite Hid, N.eqb_refl. reflexivity. }
    destruct (lmoves_find _ _ _ _ L F) as [q' [F' _]]. rewrite is_live_find, F'. reflexivity.
Qed.

(* every zone entry fits its capacity afterwards: the zones in use in particular *)
Theorem allocate_fit s r s' res : Inv s -> Fit s -> sizes_nonneg (live s) -> 0 <= r_size r ->
  allocate ns ex fx s r = (s', res) -> rs_kind res = KOk -> Fit s' /\ sizes_nonneg (live s').
Proof.
  intros I FT SZ Hr H K.
  destruct (allocate_ok_view _ _ _ _ I H K) as [r1 [st [Hid [Hsz [_ [_ [Hl [Hn [[[ND' L] [S3 [C3 [I3 O3]]] _] [R [-> _]]]]]]]]]]].
  assert (sizes_nonneg (live s ++ [r1])) as SZ1.
  { intros q Hq. apply in_app_or in Hq as [Hq|[<-|[]]]; [apply SZ; exact Hq|lia]. }
  split; [|cbn [live]; eapply lmoves_sizes; eauto].
  intros z Hz. cbn [live zkeys] in *. apply cleanup_in in Hz as [Hz _].
  destruct (mnz (N.land z (r_zone r1))) eqn:M.
  - apply R; [exact Hz|right; exact M].
  - destruct (O3 z Hz) as [Hz0|Hm]; [|congruence].
    specialize (FT z Hz0). unfold zfree in *.
    pose proof (usage_lmoves _ _ z L SZ1) as U. rewrite usage_app in U.
    assert (usage [r1] z = 0) as U1.
    { unfold usage. cbn [fold_right]. destruct (msub (r_zone r1) z) eqn:X; [|lia].
      exfalso. unfold mnz in M. apply negb_false_iff in M. apply N.eqb_eq in M.
      unfold msub in X. apply N.eqb_eq in X. rewrite N.land_comm in M. rewrite M in X.
      apply (mnz_land_nz _ _ Hn). symmetry. exact X. }
    lia.
Qed.

(* the reported updates are exactly the allocations whose zone changed, with their new zones *)
Theorem allocate_updates s r s' res : Inv s -> allocate ns ex fx s r = (s', res) -> rs_kind res = KOk ->
  NoDup (keys (rs_upd res)) /\
  forall id z, In (id, z) (rs_upd res) <->
    (id <> r_id r /\ is_live id (live s) = true /\ zone_of id (live s') = z /\ zone_of id (live s') <> zone_of id (live s)).
Proof.
  intros I H K. destruct (allocate_ok_view _ _ _ _ I H K) as [r1 [st [Hid [_ [_ [_ [Hl [Hn [[[ND' L] _ [N1 [N2 J]]] [_ [-> [_ ->]]]]]]]]]]]].
  cbn [live]. split.
  - unfold keys, al_del. clear -N1. unfold keys in N1. induction (o_upd st) as [|[k v] u IH]; [constructor|].
    cbn [map fst] in N1. inversion N1 as [|? ? Hn ND]; subst. cbn [filter fst].
    destruct (negb (k =? r_id r)%N); [|apply IH; exact ND].
    cbn [map fst]. constructor; [|apply IH; exact ND].
    intros Hin. apply Hn. apply in_map_iff in Hin as [p [E Hp]]. apply filter_In in Hp as [Hp _].
    apply in_map_iff. exists p. auto.
  - intros id z. rewrite al_del_in. specialize (J id). split.
    + intros [Hin Hne]. apply (al_in_get _ _ _ N1) in Hin. split; [exact Hne|].
      destruct (al_get id (o_rev st)) as [zr|]; [|destruct J as [J1 _]; congruence].
      destruct J as [J1 [J2 [J3 [J4 J5]]]]. rewrite Hin in J1. injection J1 as ->.
      split; [|split; [reflexivity|congruence]].
      (* id is live afterwards, ids are those of live s plus the requester, id is not the requester *)
      apply is_live_true in J5. rewrite (lmoves_ids _ _ L), map_app in J5. apply in_app_or in J5 as [J5|[J5|[]]].
      * apply in_map_iff in J5 as [q [Eq Hq]]. rewrite is_live_find.
        destruct (find_req id (live s)) eqn:F; [reflexivity|]. exfalso. eapply find_req_none; eauto.
      * congruence.
    + intros [Hne [Hlive [Hz Hch]]]. split; [|exact Hne].
      destruct (al_get id (o_rev st)) as [zr|]; [|destruct J as [_ J2]; congruence].
      destruct J as [J1 _]. rewrite Hz in J1. apply al_get_in. exact J1.
Qed.

End Alloc.
