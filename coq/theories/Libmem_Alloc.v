(* libmem: what a single Allocate / GetOffer / Release does to a state satisfying the
   invariant -- C06 and C07 clauses at the level of one operation. *)
From Coq Require Import ZArith NArith List Bool Lia Permutation.
From NV Require Import Gen.Gen_LibmemConsts Gen.Gen_LibmemTabs Libmem_Model Libmem_Basics Libmem_Steps Libmem_Proofs.
Import ListNotations.
Open Scope Z_scope.

Section Alloc.
Context (ns : list node) (ex : N -> N -> N * N).

(* ------------------------------------------------------------------ state invariants *)

Definition Inv (s : state) : Prop :=
  ids_nodup (live s) /\ zk_sorted (zkeys s) /\
  (forall r, In r (live s) -> r_zone r <> 0%N /\ In (r_zone r) (zkeys s)).
(* no zone entry without users (what cleanupUnusedZones establishes) *)
Definition NoEmpty (s : state) : Prop := forall z, In z (zkeys s) -> exists r, In r (live s) /\ r_zone r = z.
Definition Fit (s : state) : Prop := forall z, In z (zkeys s) -> 0 <= zfree ns (live s) z.
Definition NormalOK (s : state) : Prop := forall r, In r (live s) -> mnz (N.land (r_zone r) (m_normal ns)) = true.

Lemma usage_app l1 l2 z : usage (l1 ++ l2) z = usage l1 z + usage l2 z.
Proof. unfold usage. induction l1 as [|a l IH]; cbn [app fold_right]; [lia|]. rewrite IH. lia. Qed.

Lemma zone_of_app_notlive id l r1 : is_live id l = false -> r_id r1 = id -> zone_of id (l ++ [r1]) = r_zone r1.
Proof.
  intros Hl E. unfold zone_of. rewrite find_req_app. rewrite is_live_find in Hl.
  destruct (find_req id l); [discriminate|]. unfold find_req. cbn [find]. rewrite E, N.eqb_refl. reflexivity.
Qed.

Lemma zone_of_app_other id l r1 : r_id r1 <> id -> zone_of id (l ++ [r1]) = zone_of id l.
Proof.
  intros E. unfold zone_of. rewrite find_req_app. destruct (find_req id l); [reflexivity|].
  unfold find_req. cbn [find]. destruct (r_id r1 =? id)%N eqn:X; [apply N.eqb_eq in X; congruence|reflexivity].
Qed.

Lemma zone_of_notlive id l : is_live id l = false -> zone_of id l = 0%N.
Proof. intros H. unfold zone_of. rewrite is_live_find in H. destruct (find_req id l); [discriminate|reflexivity]. Qed.

Lemma zone_of_in l r : ids_nodup l -> In r l -> zone_of (r_id r) l = r_zone r.
Proof. intros ND H. unfold zone_of. rewrite (find_req_in _ ND _ H). reflexivity. Qed.

Lemma cleanup_all l zk : (forall z, In z zk -> exists r, In r l /\ r_zone r = z) -> cleanup l zk = zk.
Proof.
  intros H. unfold cleanup. induction zk as [|z zk IH]; [reflexivity|]. cbn [filter].
  assert (0 <? nusers l z = true) as ->.
  { apply Z.ltb_lt. apply nusers_pos. apply H. left. reflexivity. }
  f_equal. apply IH. intros x Hx. apply H. right. exact Hx.
Qed.

(* ------------------------------------------------------------------ the start of an Allocate *)

Lemma alloc_start_P1 s r1 : ids_nodup (live s) -> is_live (r_id r1) (live s) = false ->
  P1 (live s ++ [r1]) (alloc_start s r1).
Proof.
  intros ND Hl. split; [|apply lmoves_refl]. cbn [alloc_start o_live]. unfold ids_nodup.
  rewrite map_app. cbn [map]. apply nodup_snoc; [exact ND|]. apply is_live_false. exact Hl.
Qed.

Lemma alloc_start_P3 s r1 : Inv s -> r_zone r1 <> 0%N -> P3 (r_zone r1) (zkeys s) (alloc_start s r1).
Proof.
  intros [_ [S C]] Hnz. unfold P3. cbn [alloc_start o_zk o_live].
  split; [apply zk_add_sorted; exact S|]. split; [|split].
  - intros q Hq. apply zk_add_in. apply in_app_or in Hq as [Hq|[<-|[]]]; [right; apply C; exact Hq|left; reflexivity].
  - intros x Hx. apply zk_add_in. right. exact Hx.
  - intros x Hx. apply zk_add_in in Hx as [->|Hx]; [|left; exact Hx].
    right. rewrite N.land_diag. apply mnz_true. exact Hnz.
Qed.

Lemma alloc_start_jinv s r1 : is_live (r_id r1) (live s) = false -> r_zone r1 <> 0%N ->
  jinv (live s) (alloc_start s r1).
Proof.
  intros Hl Hnz. unfold jinv. cbn [alloc_start o_upd o_rev o_live keys map fst].
  split; [constructor; [intros []|constructor]|]. split; [constructor; [intros []|constructor]|].
  intros id. unfold al_get. cbn [find fst snd]. destruct (r_id r1 =? id)%N eqn:E.
  - apply N.eqb_eq in E. subst id. rewrite (zone_of_app_notlive _ _ _ Hl eq_refl).
    split; [reflexivity|]. split; [symmetry; apply zone_of_notlive; exact Hl|].
    split; [apply msub_spec; intros i Hi; rewrite N.bits_0 in Hi; discriminate|].
    split; [intros X; apply Hnz; symmetry; exact X|]. rewrite is_live_find, find_req_app. rewrite is_live_find in Hl.
    destruct (find_req (r_id r1) (live s)); [discriminate|]. unfold find_req. cbn [find]. rewrite N.eqb_refl. reflexivity.
  - apply N.eqb_neq in E. split; [reflexivity|]. apply zone_of_app_other. exact E.
Qed.

(* everything we know after the overcommit handling of an Allocate *)
Record alloc_facts (s : state) (r1 : req) (st : ost) : Prop := {
  af_P1 : P1 (live s ++ [r1]) st;
  af_P3 : P3 (r_zone r1) (zkeys s) st;
  af_J : jinv (live s) st }.

Lemma alloc_facts_of s r1 st : Inv s -> is_live (r_id r1) (live s) = false ->
  mnz (N.land (r_zone r1) (m_normal ns)) = true ->
  msteps ns ex (r_zone r1) (alloc_start s r1) st -> alloc_facts s r1 st.
Proof.
  intros I Hl Hn M. pose proof (mnz_land_nz _ _ Hn) as Hnz. destruct I as [ND I2]. split.
  - eapply P1_msteps; [exact M|]. apply alloc_start_P1; assumption.
  - eapply P3_msteps; [exact Hnz|exact M|]. apply alloc_start_P3; [exact (conj ND I2)|exact Hnz].
  - eapply jinv_msteps; [exact M|]. apply alloc_start_jinv; assumption.
Qed.

(* ------------------------------------------------------------------ revertJournal restores the state *)

Definition restore (rev : list (N * N)) (r : req) : list req :=
  match al_get (r_id r) rev with
  | Some zr => if (zr =? 0)%N then [] else [set_zone zr r]
  | None => [r]
  end.

Definition rev_step (acc : list req * list N) (p : N * N) : list req * list N :=
  let '(l, zk) := acc in
  if (snd p =? 0)%N then (drop_req (fst p) l, zk) else (move_req (fst p) (snd p) l, zk_add (snd p) zk).

Lemma revert_unfold rid st :
  revert rid st = (let '(l, zk) := fold_left rev_step (o_rev st) (o_live st, o_zk st) in
                   (match rid with Some id => drop_req id l | None => l end, zk)).
Proof. reflexivity. Qed.

Lemma rev_fold_live rev : NoDup (keys rev) -> forall l zk,
  fst (fold_left rev_step rev (l, zk)) = flat_map (restore rev) l.
Proof.
  induction rev as [|[k zr] rev IH]; intros ND l zk.
  - cbn [fold_left fst]. unfold restore, al_get. cbn [find]. induction l as [|a l IHl]; [reflexivity|].
    cbn [flat_map app]. f_equal. exact IHl.
  - cbn [keys map fst] in ND. inversion ND as [|? ? Hn ND']; subst. cbn [fold_left rev_step fst snd].
    assert (al_get k rev = None) as Hk.
    { unfold al_get. destruct (find (fun p => (fst p =? k)%N) rev) as [p|] eqn:F; [|reflexivity].
      apply find_some in F as [Hin E]. apply N.eqb_eq in E. exfalso. apply Hn. apply in_map_iff. exists p. auto. }
    destruct (zr =? 0)%N eqn:Ez.
    + rewrite IH by exact ND'. unfold drop_req. induction l as [|a l IHl]; [reflexivity|].
      cbn [filter flat_map]. unfold restore at 2. unfold al_get. cbn [find fst snd].
      destruct (k =? r_id a)%N eqn:E.
      * rewrite N.eqb_sym in E. rewrite E. cbn [negb]. rewrite Ez. cbn [app]. exact IHl.
      * rewrite N.eqb_sym in E. rewrite E. cbn [negb flat_map]. rewrite IHl. f_equal.
    + rewrite IH by exact ND'. unfold move_req. induction l as [|a l IHl]; [reflexivity|].
      cbn [map flat_map]. rewrite IHl. f_equal. unfold restore at 2. unfold al_get at 2. cbn [find fst snd].
      destruct (r_id a =? k)%N eqn:E.
      * rewrite N.eqb_sym, E. rewrite Ez. apply N.eqb_eq in E. unfold restore. rewrite set_zone_id, E, Hk. reflexivity.
      * rewrite N.eqb_sym, E. reflexivity.
Qed.

Lemma zk_add_member z l : zk_sorted l -> In z l -> zk_add z l = l.
Proof.
  unfold zk_sorted. induction l as [|y l IH]; intros S H; [destruct H|].
  inversion S as [|? ? S' F]; subst. cbn [zk_add]. rewrite Forall_forall in F.
  destruct H as [->|H].
  - rewrite N.ltb_irrefl, N.eqb_refl. reflexivity.
  - specialize (F _ H). cbn in F.
    destruct (z <? y)%N eqn:E1; [apply N.ltb_lt in E1; lia|].
    destruct (z =? y)%N eqn:E2; [reflexivity|]. f_equal. apply IH; assumption.
Qed.

Lemma rev_fold_zk rev : forall l zk, zk_sorted zk ->
  (forall k zr, In (k, zr) rev -> zr <> 0%N -> In zr zk) ->
  snd (fold_left rev_step rev (l, zk)) = zk.
Proof.
  induction rev as [|[k zr] rev IH]; intros l zk S H; [reflexivity|].
  cbn [fold_left rev_step fst snd]. destruct (zr =? 0)%N eqn:Ez.
  - apply IH; [exact S|]. intros k' z' Hin. apply H. right. exact Hin.
  - apply N.eqb_neq in Ez. rewrite zk_add_member; [|exact S|eapply H; [left; reflexivity|exact Ez]].
    apply IH; [exact S|]. intros k' z' Hin. apply H. right. exact Hin.
Qed.

(* what the journal knows about the start of the operation *)
Definition jstart (l_start l' : list req) (rev : list (N * N)) : Prop :=
  forall id, match al_get id rev with
             | None => zone_of id l' = zone_of id l_start
             | Some zr => zr = zone_of id l_start
             end.

Lemma jinv_jstart l_start st : jinv l_start st -> jstart l_start (o_live st) (o_rev st).
Proof.
  intros [_ [_ J]] id. specialize (J id). destruct (al_get id (o_rev st)); tauto.
Qed.

Lemma restore_moved l_start l' rev : ids_nodup l_start -> ids_nodup l' ->
  (forall r, In r l_start -> r_zone r <> 0%N) -> jstart l_start l' rev ->
  forall la lb, Forall2 mv la lb -> (forall r, In r la -> In r l_start) -> (forall r, In r lb -> In r l') ->
  flat_map (restore rev) lb = la.
Proof.
  intros ND ND' Hnz J. induction 1 as [|r0 r' la lb Hm F IH]; intros Ha Hb; [reflexivity|].
  cbn [flat_map]. rewrite IH; [|intros r Hr; apply Ha; right; exact Hr|intros r Hr; apply Hb; right; exact Hr].
  assert (In r0 l_start) as H0 by (apply Ha; left; reflexivity).
  assert (In r' l') as H' by (apply Hb; left; reflexivity).
  destruct Hm as [E _]. assert (r_id r' = r_id r0) as Eid by (rewrite E; reflexivity).
  unfold restore. specialize (J (r_id r0)). rewrite Eid.
  rewrite (zone_of_in _ _ ND H0) in J. destruct (al_get (r_id r0) rev) as [zr|].
  - subst zr. assert ((r_zone r0 =? 0)%N = false) as -> by (apply N.eqb_neq; apply Hnz; exact H0).
    rewrite E. cbn [set_zone]. destruct r0; reflexivity.
  - rewrite <- Eid in J. rewrite (zone_of_in _ _ ND' H') in J. rewrite E, J. rewrite set_zone_same. reflexivity.
Qed.

(* Allocate / GetOffer: reverting the journal gives back exactly the old request list and key set *)
Lemma revert_alloc s r1 st : Inv s -> is_live (r_id r1) (live s) = false -> r_zone r1 <> 0%N ->
  alloc_facts s r1 st ->
  fst (revert (Some (r_id r1)) st) = live s /\ snd (revert (Some (r_id r1)) st) = o_zk st.
Proof.
  intros [ND [S C]] Hl Hnz [[ND' L] [S3 [C3 [I3 O3]]] J].
  rewrite revert_unfold. destruct (fold_left rev_step (o_rev st) (o_live st, o_zk st)) as [l zk] eqn:F.
  cbn [fst snd].
  assert (l = fst (fold_left rev_step (o_rev st) (o_live st, o_zk st))) as El by (rewrite F; reflexivity).
  assert (zk = snd (fold_left rev_step (o_rev st) (o_live st, o_zk st))) as Ez by (rewrite F; reflexivity).
  pose proof J as [_ [NDr Jall]]. pose proof (jinv_jstart _ _ J) as JS.
  split.
  - rewrite El, rev_fold_live by exact NDr.
    unfold lmoves in L. apply Forall2_app_inv_l in L as [l1 [l2 [L1 [L2 E']]]].
    inversion L2 as [|? r1' ? ? Hm1 L2']; subst. inversion L2'; subst.
    rewrite E' in *. rewrite flat_map_app. cbn [flat_map]. rewrite app_nil_r.
    rewrite (restore_moved (live s) (l1 ++ [r1']) (o_rev st) ND ND' (fun r Hr => proj1 (C r Hr)) JS (live s) l1 L1);
      [|auto|intros r Hr; apply in_or_app; left; exact Hr].
    destruct Hm1 as [E1 [S1 _]]. assert (r_id r1' = r_id r1) as Eid by (rewrite E1; reflexivity).
    assert (restore (o_rev st) r1' = []) as ->.
    { unfold restore. rewrite Eid. specialize (JS (r_id r1)).
      destruct (al_get (r_id r1) (o_rev st)) as [zr|].
      - rewrite (zone_of_notlive _ _ Hl) in JS. subst zr. reflexivity.
      - exfalso. rewrite (zone_of_notlive _ _ Hl) in JS. rewrite <- Eid in JS.
        rewrite (zone_of_in _ _ ND') in JS by (apply in_or_app; right; left; reflexivity).
        apply Hnz. apply msub_antisym; [rewrite JS in S1; exact S1|].
        apply msub_spec. intros i Hi. rewrite N.bits_0 in Hi. discriminate. }
    rewrite app_nil_r. apply drop_req_notin. intros r Hr E. apply is_live_false in Hl. apply Hl.
    rewrite <- E. apply in_map. exact Hr.
  - rewrite Ez. apply rev_fold_zk; [exact S3|].
    intros k zr Hin Hz. apply (al_in_get _ _ _ NDr) in Hin. specialize (JS k). rewrite Hin in JS.
    (* zr is the zone at journal start of a request that was live then *)
    destruct (is_live k (live s)) eqn:Lk.
    + rewrite is_live_find in Lk. destruct (find_req k (live s)) as [q|] eqn:Fq; [|discriminate].
      rewrite (zone_of_find _ _ _ Fq) in JS. subst zr. apply I3. apply C. apply (find_req_some _ _ _ Fq).
    + rewrite (zone_of_notlive _ _ Lk) in JS. contradiction.
Qed.

End Alloc.
