(* libmem: basic lemmas about the data structures of Libmem_Model (lists of requests,
   association lists of the journal, the sorted key list, insertion sort). *)
From Coq Require Import ZArith NArith List Bool Lia Permutation Sorted.
From NV Require Import Libmem_Model.
Import ListNotations.
Open Scope Z_scope.

(* ------------------------------------------------------------------ requests *)

Lemma set_zone_same r : set_zone (r_zone r) r = r.
Proof. destruct r; reflexivity. Qed.

Lemma set_zone_id z r : r_id (set_zone z r) = r_id r. Proof. reflexivity. Qed.
Lemma set_zone_zone z r : r_zone (set_zone z r) = z. Proof. reflexivity. Qed.
Lemma set_zone_set_zone z z' r : set_zone z (set_zone z' r) = set_zone z r. Proof. reflexivity. Qed.

Definition ids_nodup (l : list req) : Prop := NoDup (map r_id l).

Lemma move_req_ids id z l : map r_id (move_req id z l) = map r_id l.
Proof.
  unfold move_req. rewrite map_map. apply map_ext. intros r. destruct (r_id r =? id)%N; reflexivity.
Qed.

Lemma move_req_length id z l : length (move_req id z l) = length l.
Proof. unfold move_req. apply map_length. Qed.

Lemma find_req_some id l r : find_req id l = Some r -> In r l /\ r_id r = id.
Proof.
  unfold find_req. intros H. apply find_some in H as [H1 H2]. apply N.eqb_eq in H2. auto.
Qed.

Lemma find_req_none id l : find_req id l = None -> forall r, In r l -> r_id r <> id.
Proof.
  unfold find_req. intros H r Hr E. apply (find_none _ _ H) in Hr. apply N.eqb_neq in Hr. auto.
Qed.

Lemma find_req_in l : ids_nodup l -> forall r, In r l -> find_req (r_id r) l = Some r.
Proof.
  unfold ids_nodup, find_req. induction l as [|a l IH]; intros ND r Hr; [destruct Hr|].
  cbn [map] in ND. inversion ND as [|? ? Hn ND']; subst.
  cbn [find]. destruct Hr as [->|Hr].
  - rewrite N.eqb_refl. reflexivity.
  - destruct (r_id a =? r_id r)%N eqn:E.
    + apply N.eqb_eq in E. exfalso. apply Hn. rewrite E. apply in_map. exact Hr.
    + apply IH; assumption.
Qed.

Lemma is_live_find id l : is_live id l = match find_req id l with Some _ => true | None => false end.
Proof.
  unfold is_live, find_req. induction l as [|a l IH]; [reflexivity|].
  cbn [existsb find]. destruct (r_id a =? id)%N; [reflexivity|exact IH].
Qed.

Lemma is_live_false id l : is_live id l = false -> ~ In id (map r_id l).
Proof.
  unfold is_live. intros H Hin. apply in_map_iff in Hin as [r [E Hr]].
  assert (existsb (fun r => (r_id r =? id)%N) l = true) as X.
  { apply existsb_exists. exists r. split; [exact Hr|]. apply N.eqb_eq. exact E. }
  congruence.
Qed.

Lemma is_live_true id l : is_live id l = true -> In id (map r_id l).
Proof.
  unfold is_live. intros H. apply existsb_exists in H as [r [Hr E]]. apply N.eqb_eq in E.
  apply in_map_iff. exists r. auto.
Qed.

Lemma zone_of_find id l r : find_req id l = Some r -> zone_of id l = r_zone r.
Proof. unfold zone_of. intros ->. reflexivity. Qed.

Lemma find_req_move_other id id' z l : id' <> id ->
  find_req id' (move_req id z l) = find_req id' l.
Proof.
  intros Hne. unfold find_req, move_req. induction l as [|a l IH]; [reflexivity|].
  cbn [map find]. destruct (r_id a =? id)%N eqn:E.
  - rewrite set_zone_id. destruct (r_id a =? id')%N eqn:E'.
    + apply N.eqb_eq in E, E'. congruence.
    + exact IH.
  - destruct (r_id a =? id')%N; [reflexivity|exact IH].
Qed.

Lemma find_req_move_same id z l r : find_req id l = Some r ->
  find_req id (move_req id z l) = Some (set_zone z r).
Proof.
  unfold find_req, move_req. induction l as [|a l IH]; [discriminate|].
  cbn [map find]. destruct (r_id a =? id)%N eqn:E.
  - intros H. injection H as ->. rewrite set_zone_id, E. reflexivity.
  - rewrite E. exact IH.
Qed.

Lemma zone_of_move_other id id' z l : id' <> id -> zone_of id' (move_req id z l) = zone_of id' l.
Proof. intros H. unfold zone_of. rewrite find_req_move_other by exact H. reflexivity. Qed.

Lemma zone_of_move_same id z l r : find_req id l = Some r -> zone_of id (move_req id z l) = z.
Proof. intros H. unfold zone_of. rewrite (find_req_move_same _ _ _ _ H). reflexivity. Qed.

Lemma find_req_app id l1 l2 :
  find_req id (l1 ++ l2) = match find_req id l1 with Some r => Some r | None => find_req id l2 end.
Proof.
  unfold find_req. induction l1 as [|a l IH]; [reflexivity|].
  cbn [app find]. destruct (r_id a =? id)%N; [reflexivity|exact IH].
Qed.

Lemma drop_req_notin id l : (forall r, In r l -> r_id r <> id) -> drop_req id l = l.
Proof.
  unfold drop_req. induction l as [|a l IH]; intros H; [reflexivity|].
  cbn [filter]. destruct (r_id a =? id)%N eqn:E.
  - apply N.eqb_eq in E. exfalso. apply (H a); [left; reflexivity|exact E].
  - cbn [negb]. f_equal. apply IH. intros r Hr. apply H. right. exact Hr.
Qed.

Lemma drop_req_app id l1 l2 : drop_req id (l1 ++ l2) = drop_req id l1 ++ drop_req id l2.
Proof. unfold drop_req. apply filter_app. Qed.

Lemma drop_req_in id l r : In r (drop_req id l) <-> In r l /\ r_id r <> id.
Proof.
  unfold drop_req. rewrite filter_In. split; intros [H1 H2]; split; auto.
  - apply negb_true_iff in H2. apply N.eqb_neq in H2. exact H2.
  - apply negb_true_iff. apply N.eqb_neq. exact H2.
Qed.

Lemma drop_req_nodup id l : ids_nodup l -> ids_nodup (drop_req id l).
Proof.
  unfold ids_nodup, drop_req. induction l as [|a l IH]; intros ND; [constructor|].
  cbn [map] in ND. inversion ND as [|? ? Hn ND']; subst. cbn [filter].
  destruct (negb (r_id a =? id)%N).
  - cbn [map]. constructor; [|apply IH; exact ND'].
    intros Hin. apply Hn. apply in_map_iff in Hin as [r [E Hr]]. apply filter_In in Hr as [Hr _].
    apply in_map_iff. exists r. auto.
  - apply IH. exact ND'.
Qed.

(* ------------------------------------------------------------------ association lists *)

Definition keys (l : list (N * N)) : list N := map fst l.

Lemma al_get_set_same k v l : al_get k (al_set k v l) = Some v.
Proof.
  unfold al_get. induction l as [|[k' v'] l IH]; cbn [al_set find fst snd].
  - rewrite N.eqb_refl. reflexivity.
  - destruct (k' =? k)%N eqn:E; cbn [find fst snd].
    + rewrite N.eqb_refl. reflexivity.
    + rewrite E. exact IH.
Qed.

Lemma al_get_set_other k k' v l : k' <> k -> al_get k' (al_set k v l) = al_get k' l.
Proof.
  intros Hne. unfold al_get. induction l as [|[k2 v2] l IH]; cbn [al_set find fst snd].
  - destruct (k =? k')%N eqn:E; [apply N.eqb_eq in E; congruence|reflexivity].
  - destruct (k2 =? k)%N eqn:E; cbn [find fst snd].
    + apply N.eqb_eq in E. subst k2.
      destruct (k =? k')%N eqn:E'; [apply N.eqb_eq in E'; congruence|reflexivity].
    + destruct (k2 =? k')%N; [reflexivity|exact IH].
Qed.

Lemma al_has_get k l : al_has k l = match al_get k l with Some _ => true | None => false end.
Proof.
  unfold al_has, al_get. induction l as [|[k' v'] l IH]; [reflexivity|].
  cbn [existsb find fst]. destruct (k' =? k)%N; [reflexivity|exact IH].
Qed.

Lemma al_get_app k l1 l2 :
  al_get k (l1 ++ l2) = match al_get k l1 with Some v => Some v | None => al_get k l2 end.
Proof.
  unfold al_get. induction l1 as [|[k' v'] l IH]; [reflexivity|].
  cbn [app find fst]. destruct (k' =? k)%N; [reflexivity|exact IH].
Qed.

Lemma al_get_add_new_same k v l : al_get k (al_add_new k v l) = match al_get k l with Some v' => Some v' | None => Some v end.
Proof.
  unfold al_add_new. rewrite al_has_get. destruct (al_get k l) eqn:E.
  - exact E.
  - rewrite al_get_app, E. unfold al_get. cbn [find fst snd]. rewrite N.eqb_refl. reflexivity.
Qed.

Lemma al_get_add_new_other k k' v l : k' <> k -> al_get k' (al_add_new k v l) = al_get k' l.
Proof.
  intros Hne. unfold al_add_new. destruct (al_has k l); [reflexivity|].
  rewrite al_get_app. destruct (al_get k' l); [reflexivity|].
  unfold al_get. cbn [find fst]. destruct (k =? k')%N eqn:E; [apply N.eqb_eq in E; congruence|reflexivity].
Qed.

Lemma al_get_in k v l : al_get k l = Some v -> In (k, v) l.
Proof.
  unfold al_get. destruct (find _ l) as [p|] eqn:E; [|discriminate].
  intros H. injection H as <-. apply find_some in E as [Hin E]. apply N.eqb_eq in E.
  destruct p as [a b]. cbn in *. subst. exact Hin.
Qed.

Lemma al_in_get k v l : NoDup (keys l) -> In (k, v) l -> al_get k l = Some v.
Proof.
  unfold al_get, keys. induction l as [|[k' v'] l IH]; intros ND Hin; [destruct Hin|].
  cbn [map fst] in ND. inversion ND as [|? ? Hn ND']; subst. cbn [find fst].
  destruct Hin as [E|Hin].
  - injection E as -> ->. rewrite N.eqb_refl. reflexivity.
  - destruct (k' =? k)%N eqn:E.
    + apply N.eqb_eq in E. subst. exfalso. apply Hn. apply in_map_iff. exists (k, v). auto.
    + apply IH; assumption.
Qed.

Lemma al_get_none_notin k l : al_get k l = None -> ~ In k (keys l).
Proof.
  unfold al_get, keys. intros H Hin. apply in_map_iff in Hin as [[a b] [E Hin]]. cbn in E. subst a.
  destruct (find _ l) eqn:F; [discriminate|]. apply (find_none _ _ F) in Hin. cbn in Hin.
  rewrite N.eqb_refl in Hin. discriminate.
Qed.

Lemma al_set_keys_nodup k v l : NoDup (keys l) -> NoDup (keys (al_set k v l)).
Proof.
  unfold keys. induction l as [|[k' v'] l IH]; intros ND; cbn [al_set map fst].
  - constructor; [intros []|constructor].
  - cbn [map fst] in ND. inversion ND as [|? ? Hn ND']; subst.
    destruct (k' =? k)%N eqn:E; cbn [map fst].
    + apply N.eqb_eq in E. subst. constructor; assumption.
    + constructor; [|apply IH; exact ND'].
      intros Hin. apply Hn. clear IH ND ND' Hn. induction l as [|[k2 v2] l IH]; cbn [al_set map fst] in *.
      * destruct Hin as [<-|[]]. rewrite N.eqb_refl in E. discriminate.
      * destruct (k2 =? k)%N eqn:E2; cbn [map fst] in Hin.
        -- apply N.eqb_eq in E2. subst. destruct Hin as [<-|Hin]; [rewrite N.eqb_refl in E; discriminate|]. right. exact Hin.
        -- destruct Hin as [<-|Hin]; [left; reflexivity|right; apply IH; exact Hin].
Qed.

Lemma nodup_snoc {A} (l : list A) x : NoDup l -> ~ In x l -> NoDup (l ++ [x]).
Proof.
  induction l as [|a l IH]; intros ND Hn; cbn [app].
  - constructor; [intros []|constructor].
  - inversion ND as [|? ? Ha ND']; subst. constructor.
    + intros Hin. apply in_app_or in Hin as [Hin|[<-|[]]]; [auto|]. apply Hn. left. reflexivity.
    + apply IH; [exact ND'|]. intros Hin. apply Hn. right. exact Hin.
Qed.

Lemma al_add_new_keys_nodup k v l : NoDup (keys l) -> NoDup (keys (al_add_new k v l)).
Proof.
  intros ND. unfold al_add_new. rewrite al_has_get. destruct (al_get k l) eqn:E; [exact ND|].
  unfold keys. rewrite map_app. cbn [map fst].
  apply nodup_snoc; [exact ND|]. apply al_get_none_notin. exact E.
Qed.

Lemma al_del_in k k' v l : In (k', v) (al_del k l) <-> In (k', v) l /\ k' <> k.
Proof.
  unfold al_del. rewrite filter_In. cbn [fst]. split; intros [H1 H2]; split; auto.
  - apply negb_true_iff in H2. apply N.eqb_neq in H2. exact H2.
  - apply negb_true_iff. apply N.eqb_neq. exact H2.
Qed.

(* ------------------------------------------------------------------ the sorted key list *)

Definition zk_sorted (l : list N) : Prop := StronglySorted N.lt l.

Lemma zk_add_in z x l : In x (zk_add z l) <-> x = z \/ In x l.
Proof.
  induction l as [|y l IH]; cbn [zk_add].
  - cbn. intuition.
  - destruct (z <? y)%N; [cbn; intuition|].
    destruct (z =? y)%N eqn:E.
    + apply N.eqb_eq in E. subst. cbn. intuition.
    + cbn [In]. rewrite IH. intuition.
Qed.

Lemma zk_add_sorted z l : zk_sorted l -> zk_sorted (zk_add z l).
Proof.
  unfold zk_sorted. induction l as [|y l IH]; intros S; cbn [zk_add].
  - constructor; constructor.
  - inversion S as [|? ? S' F]; subst.
    destruct (z <? y)%N eqn:E1.
    + apply N.ltb_lt in E1. constructor; [exact S|]. constructor; [exact E1|].
      eapply Forall_impl; [|exact F]. intros a Ha. cbn in Ha. lia.
    + destruct (z =? y)%N eqn:E2; [exact S|].
      apply N.ltb_ge in E1. apply N.eqb_neq in E2.
      constructor; [apply IH; exact S'|].
      apply Forall_forall. intros x Hx. apply zk_add_in in Hx as [->|Hx]; [lia|].
      rewrite Forall_forall in F. apply F. exact Hx.
Qed.

Lemma filter_sorted f l : zk_sorted l -> zk_sorted (filter f l).
Proof.
  unfold zk_sorted. induction l as [|y l IH]; intros S; [constructor|].
  inversion S as [|? ? S' F]; subst. cbn [filter]. destruct (f y); [|apply IH; exact S'].
  constructor; [apply IH; exact S'|]. apply Forall_forall. intros x Hx. apply filter_In in Hx as [Hx _].
  rewrite Forall_forall in F. apply F. exact Hx.
Qed.

Lemma sorted_ext l1 l2 : zk_sorted l1 -> zk_sorted l2 -> (forall x, In x l1 <-> In x l2) -> l1 = l2.
Proof.
  unfold zk_sorted. revert l2. induction l1 as [|a l1 IH]; intros l2 S1 S2 H.
  - destruct l2 as [|b l2]; [reflexivity|]. exfalso. apply (H b). left. reflexivity.
  - destruct l2 as [|b l2]; [exfalso; apply (H a); left; reflexivity|].
    inversion S1 as [|? ? S1' F1]; inversion S2 as [|? ? S2' F2]; subst.
    rewrite Forall_forall in F1, F2.
    assert (a = b) as ->.
    { destruct (proj1 (H a) (or_introl eq_refl)) as [E|Ha]; [auto|].
      destruct (proj2 (H b) (or_introl eq_refl)) as [E|Hb]; [auto|].
      specialize (F1 _ Hb). specialize (F2 _ Ha). cbn in *. lia. }
    f_equal. apply IH; [assumption..|].
    intros x. split; intros Hx.
    + destruct (proj1 (H x) (or_intror Hx)) as [E|Hx']; [|exact Hx']. subst. specialize (F1 _ Hx). cbn in F1. lia.
    + destruct (proj2 (H x) (or_intror Hx)) as [E|Hx']; [|exact Hx']. subst. specialize (F2 _ Hx). cbn in F2. lia.
Qed.

Lemma zk_has_in z l : zk_has z l = true <-> In z l.
Proof.
  unfold zk_has. rewrite existsb_exists. split.
  - intros [x [Hx E]]. apply N.eqb_eq in E. subst. exact Hx.
  - intros H. exists z. split; [exact H|apply N.eqb_refl].
Qed.

(* ------------------------------------------------------------------ insertion sort *)

Lemma insert_by_perm {A} (lt : A -> A -> bool) x l : Permutation (x :: l) (insert_by lt x l).
Proof.
  induction l as [|y l IH]; cbn [insert_by]; [reflexivity|].
  destruct (lt x y); [reflexivity|].
  etransitivity; [apply perm_swap|]. apply perm_skip. exact IH.
Qed.

Lemma isort_perm {A} (lt : A -> A -> bool) l : Permutation l (isort lt l).
Proof.
  unfold isort. induction l as [|x l IH]; cbn [fold_right]; [reflexivity|].
  etransitivity; [apply perm_skip; exact IH|]. apply insert_by_perm.
Qed.

Lemma isort_in {A} (lt : A -> A -> bool) l x : In x (isort lt l) <-> In x l.
Proof.
  split; apply Permutation_in; [symmetry|]; apply isort_perm.
Qed.

Lemma isort_nil {A} (lt : A -> A -> bool) l : isort lt l = [] -> l = [].
Proof.
  intros H. destruct l as [|x l]; [reflexivity|].
  pose proof (isort_perm lt (x :: l)) as P. rewrite H in P. apply Permutation_sym, Permutation_nil in P. discriminate.
Qed.

(* ------------------------------------------------------------------ users of a zone *)

Lemma nusers_pos l z : 0 < nusers l z <-> exists r, In r l /\ r_zone r = z.
Proof.
  unfold nusers. split.
  - intros H. destruct (filter _ l) as [|r t] eqn:E; [cbn in H; lia|].
    assert (In r (filter (fun r => (r_zone r =? z)%N) l)) as Hin by (rewrite E; left; reflexivity).
    apply filter_In in Hin as [Hin Hz]. apply N.eqb_eq in Hz. eauto.
  - intros [r [Hin Hz]].
    assert (In r (filter (fun r => (r_zone r =? z)%N) l)) as H.
    { apply filter_In. split; [exact Hin|]. apply N.eqb_eq. exact Hz. }
    destruct (filter _ l); [destruct H|]. cbn [length]. lia.
Qed.

Lemma cleanup_in l zk z : In z (cleanup l zk) <-> In z zk /\ exists r, In r l /\ r_zone r = z.
Proof.
  unfold cleanup. rewrite filter_In. rewrite Z.ltb_lt. rewrite nusers_pos. reflexivity.
Qed.
