(* Topology-aware CPU bookkeeping: invariants for all trees, histories and choices. *)
From Coq Require Import ZArith List Bool Lia.
From stdpp Require Import gmap sets fin_sets.
From NV Require Import TA_Model.
Import ListNotations.
Open Scope Z_scope.

Section ta.
Context (t : tree).

(* x is exclusively granted to some container *)
Definition E_in (s : st) (x : nat) : Prop := exists c g, grants s !! c = Some g /\ x ∈ g_excl g.

(* well-formedness of the pool tree that the bookkeeping relies on (established for the
   trees the policy builds by C16; evaluated as [tree_wfb] on every real trace) *)
Record tree_wf : Prop := {
  wf_unrelated : forall p q, related t p q = false -> p_cpus (pool_at t p) ## p_cpus (pool_at t q);
  wf_iso_shar : forall p, p_iso (pool_at t p) ## p_shar (pool_at t p);
  wf_res : forall p q, p_res (pool_at t p) ## p_iso (pool_at t q) ∪ p_shar (pool_at t q);
}.

Record Inv (s : st) : Prop := {
  inv_free_iso : forall q x, x ∈ free_iso s q <-> x ∈ p_iso (pool_at t q) /\ ~ E_in s x;
  inv_free_shar : forall q x, x ∈ free_shar s q <-> x ∈ p_shar (pool_at t q) /\ ~ E_in s x;
  inv_disj : forall c1 c2 g1 g2, c1 <> c2 -> grants s !! c1 = Some g1 -> grants s !! c2 = Some g2 ->
                                 g_excl g1 ## g_excl g2;
  inv_within : forall c g, grants s !! c = Some g ->
                           g_excl g ⊆ p_iso (pool_at t (g_pool g)) ∪ p_shar (pool_at t (g_pool g));
}.

Lemma E_in_init x : ~ E_in (init t) x.
Proof. intros (c & g & Hc & _). unfold init in Hc. cbn [grants] in Hc. rewrite lookup_empty in Hc. discriminate. Qed.

Lemma Inv_init : Inv (init t).
Proof.
  split.
  - intros q x. unfold init at 1. cbn [free_iso]. split; [intros H; split; [exact H|apply E_in_init]|intros [H _]; exact H].
  - intros q x. unfold init at 1. cbn [free_shar]. split; [intros H; split; [exact H|apply E_in_init]|intros [H _]; exact H].
  - intros c1 c2 g1 g2 _ H. unfold init in H. cbn [grants] in H. rewrite lookup_empty in H. discriminate.
  - intros c g H. unfold init in H. cbn [grants] in H. rewrite lookup_empty in H. discriminate.
Qed.

(* ---- shape of a successful allocation ---- *)
Definition alloc_shape (s : st) (cid p : nat) (s' : st) : Prop :=
  exists g, g_pool g = p /\
    g_excl g ⊆ free_iso s p ∪ free_shar s p /\
    free_iso s' = free_iso (account_alloc t s p (g_excl g)) /\
    free_shar s' = free_shar (account_alloc t s p (g_excl g)) /\
    grants s' = <[cid := g]> (grants s).

Lemma subseteqb_true a b : subseteqb a b = true -> a ⊆ b.
Proof. unfold subseteqb. intros H. apply bool_decide_eq_true in H. exact H. Qed.

Lemma ta_alloc_shape s cid r p X s' : ta_alloc t s cid r p X = Ok s' -> alloc_shape s cid p s'.
Proof.
  unfold ta_alloc, alloc_shape.
  set (full := eff_full r). set (frac := eff_frac r).
  set (ty := match r_type r with CpuReserved => _ | x => x end).
  assert (Fin : forall (Y : cset) ty' fr s0,
             Y ⊆ free_iso s p ∪ free_shar s p ->
             Ok (set_grants s0 (<[cid := {| g_pool := p; g_excl := Y; g_type := ty'; g_portion := fr |}]> (grants (account_alloc t s p Y)))) = Ok s' ->
             free_iso s0 = free_iso (account_alloc t s p Y) -> free_shar s0 = free_shar (account_alloc t s p Y) ->
             exists g, g_pool g = p /\ g_excl g ⊆ free_iso s p ∪ free_shar s p /\
                       free_iso s' = free_iso (account_alloc t s p (g_excl g)) /\
                       free_shar s' = free_shar (account_alloc t s p (g_excl g)) /\
                       grants s' = <[cid := g]> (grants s)).
  { intros Y ty' fr s0 HY [= <-] H1 H2. exists {| g_pool := p; g_excl := Y; g_type := ty'; g_portion := fr |}. cbn. split; [reflexivity|]. split; [exact HY|]. auto. }
  assert (Body : forall Y, Y ⊆ free_iso s p ∪ free_shar s p ->
    (if 0 <? frac
     then match ty with
          | CpuNormal => if alloc_shared t (account_alloc t s p Y) p <? frac then Err ErrNoCapacity
                         else Ok (set_grants (add_shared (account_alloc t s p Y) p frac)
                                   (<[cid := {| g_pool := p; g_excl := Y; g_type := ty; g_portion := frac |}]> (grants (account_alloc t s p Y))))
          | CpuReserved => if alloc_reserved t (account_alloc t s p Y) p <? frac then Err ErrNoCapacity
                           else Ok (set_grants (add_reserved (account_alloc t s p Y) p frac)
                                     (<[cid := {| g_pool := p; g_excl := Y; g_type := ty; g_portion := frac |}]> (grants (account_alloc t s p Y))))
          | CpuPreserve => Ok (set_grants (account_alloc t s p Y)
                                 (<[cid := {| g_pool := p; g_excl := Y; g_type := ty; g_portion := frac |}]> (grants (account_alloc t s p Y))))
          end
     else Ok (set_grants (account_alloc t s p Y)
                (<[cid := {| g_pool := p; g_excl := Y; g_type := ty; g_portion := 0 |}]> (grants (account_alloc t s p Y))))) = Ok s' ->
    exists g, g_pool g = p /\ g_excl g ⊆ free_iso s p ∪ free_shar s p /\
              free_iso s' = free_iso (account_alloc t s p (g_excl g)) /\
              free_shar s' = free_shar (account_alloc t s p (g_excl g)) /\
              grants s' = <[cid := g]> (grants s)).
  { intros Y HY. destruct (0 <? frac); [destruct ty|].
    - destruct (alloc_shared t _ p <? frac); [discriminate|]. intros H. eapply Fin; eauto.
    - destruct (alloc_reserved t _ p <? frac); [discriminate|]. intros H. eapply Fin; eauto.
    - intros H. eapply Fin; eauto.
    - intros H. eapply Fin; eauto. }
  destruct (0 <? full) eqn:Hfull.
  - destruct ((full <=? csize (free_iso s p)) && r_isolate r) eqn:Hiso.
    + destruct (subseteqb X (free_iso s p) && (csize X =? full)) eqn:HX; [|discriminate].
      apply andb_true_iff in HX as [HX _]. apply subseteqb_true in HX.
      apply Body. set_solver.
    + destruct (1000 * full <? alloc_shared t s p); [|discriminate].
      destruct (subseteqb X (free_shar s p) && (csize X =? full)) eqn:HX; [|discriminate].
      destruct (spare_okb t s p X); [|discriminate].
      apply andb_true_iff in HX as [HX _]. apply subseteqb_true in HX.
      apply Body. set_solver.
  - destruct (bool_decide (X = ∅)) eqn:HX; [|discriminate].
    apply Body. set_solver.
Qed.

Lemma ta_reserve_shape s cid g s' : ta_reserve t s cid g = Ok s' -> alloc_shape s cid (g_pool g) s'.
Proof.
  unfold ta_reserve, alloc_shape. destruct (g_type g) eqn:Hty.
  - destruct (negb (subseteqb (g_excl g ∩ p_iso (pool_at t (g_pool g))) (free_iso s (g_pool g)))) eqn:H1; [discriminate|].
    destruct (negb (subseteqb (g_excl g ∖ (g_excl g ∩ p_iso (pool_at t (g_pool g)))) (free_shar s (g_pool g)))) eqn:H2; [discriminate|].
    apply negb_false_iff, subseteqb_true in H1. apply negb_false_iff, subseteqb_true in H2.
    destruct (alloc_shared t s (g_pool g) <? _); [discriminate|].
    destruct (negb (spare_allb t s (g_pool g) (g_excl g))); [discriminate|].
    intros [= <-]. exists g. split; [reflexivity|]. split; [|cbn [free_iso free_shar grants set_grants add_shared account_alloc]; auto].
    intros x Hx. destruct (decide (x ∈ p_iso (pool_at t (g_pool g)))) as [Hi|Hi].
    + apply elem_of_union_l. apply H1. set_solver.
    + apply elem_of_union_r. apply H2. set_solver.
  - destruct (negb (bool_decide (g_excl g = ∅))) eqn:H1; [discriminate|].
    apply negb_false_iff, bool_decide_eq_true in H1.
    destruct ((0 <? _) && _); [discriminate|].
    intros [= <-]. exists g. split; [reflexivity|]. split; [rewrite H1; set_solver|cbn [free_iso free_shar grants set_grants add_reserved account_alloc]; auto].
  - destruct (negb (bool_decide (g_excl g = ∅))) eqn:H1; [discriminate|].
    apply negb_false_iff, bool_decide_eq_true in H1.
    intros [= <-]. exists g. split; [reflexivity|]. split; [rewrite H1; set_solver|cbn [free_iso free_shar grants set_grants add_reserved account_alloc]; auto].
Qed.

Lemma anc_refl p : anc t p p = true.
Proof. unfold anc. destruct (length t); cbn; rewrite Nat.eqb_refl; reflexivity. Qed.
Lemma related_refl p : related t p p = true.
Proof. unfold related. rewrite anc_refl. reflexivity. Qed.

Lemma alloc_preserves s cid p s' :
  tree_wf -> Inv s -> grants s !! cid = None -> alloc_shape s cid p s' -> Inv s'.
Proof.
  intros Hwf HI Hfresh (g & Hp & HX & Hfi & Hfs & Hg).
  set (X := g_excl g) in *.
  assert (HXin : forall x, x ∈ X -> (x ∈ p_iso (pool_at t p) \/ x ∈ p_shar (pool_at t p)) /\ ~ E_in s x).
  { intros x Hx. apply HX in Hx. apply elem_of_union in Hx as [Hx|Hx].
    - apply (inv_free_iso s HI) in Hx as [? ?]. auto.
    - apply (inv_free_shar s HI) in Hx as [? ?]. auto. }
  assert (HE : forall x, E_in s' x <-> E_in s x \/ x ∈ X).
  { intros x. unfold E_in. rewrite Hg. split.
    - intros (c & g' & Hc & Hx). destruct (decide (c = cid)) as [->|Hne].
      + rewrite lookup_insert in Hc. injection Hc as <-. right. exact Hx.
      + rewrite lookup_insert_ne in Hc by congruence. left. eauto.
    - intros [(c & g' & Hc & Hx)|Hx].
      + exists c, g'. split; [|exact Hx]. rewrite lookup_insert_ne; [exact Hc|]. intros ->. congruence.
      + exists cid, g. rewrite lookup_insert. auto. }
  assert (Hunrel : forall q x, related t p q = false -> x ∈ p_cpus (pool_at t q) -> x ∉ X).
  { intros q x Hr Hq Hx. apply HXin in Hx as [Hx _].
    pose proof (wf_unrelated Hwf p q Hr) as Hd. unfold p_cpus in *. set_solver. }
  split.
  - intros q x. rewrite Hfi. cbn [free_iso account_alloc]. rewrite HE.
    destruct (related t p q) eqn:Hr.
    + rewrite elem_of_difference, (inv_free_iso s HI). tauto.
    + rewrite (inv_free_iso s HI). split; [|tauto].
      intros [H1 H2]. split; [exact H1|]. intros [?|Hx]; [tauto|].
      apply (Hunrel q x Hr); [unfold p_cpus; set_solver|exact Hx].
  - intros q x. rewrite Hfs. cbn [free_shar account_alloc]. rewrite HE.
    destruct (related t p q) eqn:Hr.
    + rewrite elem_of_difference, (inv_free_shar s HI). tauto.
    + rewrite (inv_free_shar s HI). split; [|tauto].
      intros [H1 H2]. split; [exact H1|]. intros [?|Hx]; [tauto|].
      apply (Hunrel q x Hr); [unfold p_cpus; set_solver|exact Hx].
  - intros c1 c2 g1 g2 Hne H1 H2. rewrite Hg in H1, H2.
    destruct (decide (c1 = cid)) as [->|Hn1]; destruct (decide (c2 = cid)) as [->|Hn2]; try congruence.
    + rewrite lookup_insert in H1. injection H1 as <-. rewrite lookup_insert_ne in H2 by congruence.
      intros x Hx1 Hx2. apply HXin in Hx1 as [_ Hx1]. apply Hx1. exists c2, g2. auto.
    + rewrite lookup_insert in H2. injection H2 as <-. rewrite lookup_insert_ne in H1 by congruence.
      intros x Hx1 Hx2. apply HXin in Hx2 as [_ Hx2]. apply Hx2. exists c1, g1. auto.
    + rewrite lookup_insert_ne in H1, H2 by congruence. exact (inv_disj s HI c1 c2 g1 g2 Hne H1 H2).
  - intros c g' Hc. rewrite Hg in Hc. destruct (decide (c = cid)) as [->|Hn].
    + rewrite lookup_insert in Hc. injection Hc as <-. rewrite Hp. intros x Hx. apply HXin in Hx as [Hx _]. set_solver.
    + rewrite lookup_insert_ne in Hc by congruence. exact (inv_within s HI c g' Hc).
Qed.


Lemma release_preserves s cid : tree_wf -> Inv s -> Inv (ta_release t s cid).
Proof.
  intros Hwf HI. unfold ta_release. destruct (grants s !! cid) as [g|] eqn:Hg; [|exact HI].
  set (p := g_pool g). set (X := g_excl g).
  set (s2 := match g_type g with
             | CpuNormal => add_shared (account_release t s p X) p (- g_portion g)
             | CpuReserved => add_reserved (account_release t s p X) p (- g_portion g)
             | CpuPreserve => account_release t s p X end).
  assert (Hfi : free_iso s2 = free_iso (account_release t s p X)) by (unfold s2; destruct (g_type g); reflexivity).
  assert (Hfs : free_shar s2 = free_shar (account_release t s p X)) by (unfold s2; destruct (g_type g); reflexivity).
  assert (Hgr : grants s2 = grants s) by (unfold s2; destruct (g_type g); reflexivity).
  assert (HXw : X ⊆ p_iso (pool_at t p) ∪ p_shar (pool_at t p)) by exact (inv_within s HI cid g Hg).
  assert (HE : forall x, E_in (set_grants s2 (delete cid (grants s2))) x <-> E_in s x /\ x ∉ X).
  { intros x. unfold E_in. cbn [grants set_grants]. rewrite Hgr. split.
    - intros (c & g' & Hc & Hx). destruct (decide (c = cid)) as [->|Hne].
      + rewrite lookup_delete in Hc. discriminate.
      + rewrite lookup_delete_ne in Hc by congruence. split; [eauto|].
        intros HxX. exact (inv_disj s HI c cid g' g Hne Hc Hg x Hx HxX).
    - intros [(c & g' & Hc & Hx) HnX]. exists c, g'. split; [|exact Hx].
      rewrite lookup_delete_ne; [exact Hc|]. intros <-. rewrite Hg in Hc. injection Hc as <-. exact (HnX Hx). }
  assert (HXE : forall x, x ∈ X -> E_in s x) by (intros x Hx; exists cid, g; auto).
  assert (Hunrel : forall q x, related t p q = false -> x ∈ p_cpus (pool_at t q) -> x ∉ X).
  { intros q x Hr Hq Hx. pose proof (wf_unrelated Hwf p q Hr) as Hd. apply HXw in Hx. unfold p_cpus in *. set_solver. }
  pose proof (wf_iso_shar Hwf) as Hisd.
  split.
  - intros q x. cbn [free_iso set_grants]. rewrite Hfi. cbn [free_iso account_release]. rewrite HE.
    pose proof (inv_free_iso s HI q x) as Hq.
    destruct (Nat.eqb q p) eqn:Hqp.
    + apply Nat.eqb_eq in Hqp. subst q. rewrite elem_of_union, elem_of_intersection.
      destruct (decide (x ∈ X)) as [Hx|Hx]; [pose proof (HXE x Hx)|]; tauto.
    + destruct (related t p q) eqn:Hr.
      * rewrite elem_of_union, !elem_of_intersection, elem_of_union.
        destruct (decide (x ∈ X)) as [Hx|Hx]; [pose proof (HXE x Hx)|]; tauto.
      * destruct (decide (x ∈ X)) as [Hx|Hx]; [|tauto].
        split; [intros H; apply Hq in H as [H _]; exfalso; apply (Hunrel q x Hr); [unfold p_cpus; set_solver|exact Hx]|].
        intros [H _]. exfalso. apply (Hunrel q x Hr); [unfold p_cpus; set_solver|exact Hx].
  - intros q x. cbn [free_shar set_grants]. rewrite Hfs. cbn [free_shar account_release]. rewrite HE.
    pose proof (inv_free_shar s HI q x) as Hq.
    destruct (Nat.eqb q p) eqn:Hqp.
    + apply Nat.eqb_eq in Hqp. subst q. rewrite elem_of_union, elem_of_difference, elem_of_intersection.
      pose proof (Hisd p) as Hd.
      destruct (decide (x ∈ X)) as [Hx|Hx]; [pose proof (HXE x Hx); pose proof (HXw x Hx) as Hw; apply elem_of_union in Hw|]; [|tauto].
      split.
      * intros [Hl|[_ Hn]]; [tauto|]. split; [|tauto]. destruct Hw as [Hw|Hw]; [tauto|exact Hw].
      * intros [Hs _]. right. split; [exact Hx|]. intros [_ Hi]. exact (Hd x Hi Hs).
    + destruct (related t p q) eqn:Hr.
      * rewrite elem_of_union, !elem_of_intersection, elem_of_union.
        destruct (decide (x ∈ X)) as [Hx|Hx]; [pose proof (HXE x Hx)|]; tauto.
      * destruct (decide (x ∈ X)) as [Hx|Hx]; [|tauto].
        split; [intros H; apply Hq in H as [H _]; exfalso; apply (Hunrel q x Hr); [unfold p_cpus; set_solver|exact Hx]|].
        intros [H _]. exfalso. apply (Hunrel q x Hr); [unfold p_cpus; set_solver|exact Hx].
  - intros c1 c2 g1 g2 Hne H1 H2. cbn [grants set_grants] in H1, H2. rewrite Hgr in H1, H2.
    destruct (decide (c1 = cid)) as [->|Hn1]; [rewrite lookup_delete in H1; discriminate|].
    destruct (decide (c2 = cid)) as [->|Hn2]; [rewrite lookup_delete in H2; discriminate|].
    rewrite lookup_delete_ne in H1, H2 by congruence. exact (inv_disj s HI c1 c2 g1 g2 Hne H1 H2).
  - intros c g' Hc. cbn [grants set_grants] in Hc. rewrite Hgr in Hc.
    destruct (decide (c = cid)) as [->|Hn]; [rewrite lookup_delete in Hc; discriminate|].
    rewrite lookup_delete_ne in Hc by congruence. exact (inv_within s HI c g' Hc).
Qed.

Lemma step_preserves s o s' : tree_wf -> Inv s -> step t s o = Ok s' -> Inv s'.
Proof.
  intros Hwf HI. destruct o as [cid r p X|cid|cid|cid g|]; cbn [step].
  - destruct (grants s !! cid) eqn:Hc; [discriminate|].
    destruct (p <? length t)%nat; [|discriminate].
    intros H. apply ta_alloc_shape in H. exact (alloc_preserves s cid p s' Hwf HI Hc H).
  - intros [= <-]. exact HI.
  - intros [= <-]. exact (release_preserves s cid Hwf HI).
  - destruct (grants s !! cid) eqn:Hc; [discriminate|].
    destruct (g_pool g <? length t)%nat; [|discriminate].
    intros H. apply ta_reserve_shape in H. exact (alloc_preserves s cid (g_pool g) s' Hwf HI Hc H).
  - intros [= <-]. exact Inv_init.
Qed.

Lemma run_preserves os : forall s s', tree_wf -> Inv s -> run t s os = Ok s' -> Inv s'.
Proof.
  induction os as [|o os IH]; intros s s' Hwf HI; cbn [run].
  - intros [= <-]. exact HI.
  - destruct (step t s o) as [s1|e] eqn:Hs; [|discriminate].
    intros H. exact (IH s1 s' Hwf (step_preserves s o s1 Hwf HI Hs) H).
Qed.

(* every reachable state *)
Theorem reachable_inv os s : tree_wf -> run t (init t) os = Ok s -> Inv s.
Proof. intros Hwf H. exact (run_preserves os (init t) s Hwf Inv_init H). Qed.


(* ---- the boolean well-formedness check evaluated on real trees implies tree_wf ---- *)
Lemma pool_at_out q : (length t <= q)%nat -> pool_at t q = {| p_parent := None; p_iso := ∅; p_res := ∅; p_shar := ∅ |}.
Proof. intros H. unfold pool_at. apply nth_overflow. exact H. Qed.

Lemma in_pools q : (q < length t)%nat -> In q (pools t).
Proof. intros H. unfold pools. apply in_seq. lia. Qed.

Lemma tree_wfb_sound : tree_wfb t = true -> tree_wf.
Proof.
  unfold tree_wfb. intros H. apply andb_true_iff in H as [H H3]. apply andb_true_iff in H as [H1 H2].
  rewrite forallb_forall in H1, H2, H3.
  split.
  - intros p q Hr.
    destruct (le_lt_dec (length t) p) as [Hp|Hp]; [rewrite (pool_at_out p Hp); unfold p_cpus; cbn; set_solver|].
    destruct (le_lt_dec (length t) q) as [Hq|Hq]; [rewrite (pool_at_out q Hq); unfold p_cpus; cbn; set_solver|].
    specialize (H1 p (in_pools p Hp)). rewrite forallb_forall in H1. specialize (H1 q (in_pools q Hq)).
    rewrite Hr in H1. cbn in H1. apply bool_decide_eq_true in H1. exact H1.
  - intros p. destruct (le_lt_dec (length t) p) as [Hp|Hp]; [rewrite (pool_at_out p Hp); cbn; set_solver|].
    specialize (H2 p (in_pools p Hp)). apply bool_decide_eq_true in H2. exact H2.
  - intros p q.
    destruct (le_lt_dec (length t) p) as [Hp|Hp]; [rewrite (pool_at_out p Hp); cbn; set_solver|].
    destruct (le_lt_dec (length t) q) as [Hq|Hq]; [rewrite (pool_at_out q Hq); cbn; set_solver|].
    specialize (H3 p (in_pools p Hp)). rewrite forallb_forall in H3. specialize (H3 q (in_pools q Hq)).
    apply bool_decide_eq_true in H3. exact H3.
Qed.

(* ---- C01 corollaries on every reachable state ---- *)
Section c01.
Context (os : list op) (s : st) (Hwf : tree_wf) (Hrun : run t (init t) os = Ok s).

Lemma excl_pairwise_disjoint c1 c2 g1 g2 :
  c1 <> c2 -> grants s !! c1 = Some g1 -> grants s !! c2 = Some g2 -> g_excl g1 ## g_excl g2.
Proof. exact (inv_disj s (reachable_inv os s Hwf Hrun) c1 c2 g1 g2). Qed.

Lemma excl_not_in_free c g q :
  grants s !! c = Some g -> g_excl g ## free_shar s q /\ g_excl g ## free_iso s q.
Proof.
  intros Hc. pose proof (reachable_inv os s Hwf Hrun) as HI.
  split; intros x Hx Hf.
  - apply (inv_free_shar s HI) in Hf as [_ Hf]. apply Hf. exists c, g. auto.
  - apply (inv_free_iso s HI) in Hf as [_ Hf]. apply Hf. exists c, g. auto.
Qed.

Lemma told_within_pool c g :
  grants s !! c = Some g -> told_cpus t s g ⊆ p_cpus (pool_at t (g_pool g)).
Proof.
  intros Hc. pose proof (reachable_inv os s Hwf Hrun) as HI.
  pose proof (inv_within s HI c g Hc) as Hw.
  assert (Hfs : free_shar s (g_pool g) ⊆ p_shar (pool_at t (g_pool g))).
  { intros x Hx. apply (inv_free_shar s HI) in Hx as [Hx _]. exact Hx. }
  unfold told_cpus, p_cpus. destruct (g_type g).
  - destruct (bool_decide (g_excl g = ∅)); [set_solver|]. destruct (0 <? g_portion g); set_solver.
  - set_solver.
  - set_solver.
Qed.

(* the CPUs exclusively granted to one container occur in no other granted container's cpuset *)
Lemma excl_not_in_others_told c1 c2 g1 g2 :
  c1 <> c2 -> grants s !! c1 = Some g1 -> grants s !! c2 = Some g2 -> g_excl g1 ## told_cpus t s g2.
Proof.
  intros Hne H1 H2. pose proof (reachable_inv os s Hwf Hrun) as HI.
  pose proof (excl_pairwise_disjoint c1 c2 g1 g2 Hne H1 H2) as Hd.
  destruct (excl_not_in_free c1 g1 (g_pool g2) H1) as [Hf _].
  pose proof (inv_within s HI c1 g1 H1) as Hw.
  pose proof (wf_res Hwf (g_pool g2) (g_pool g1)) as Hr.
  unfold told_cpus. destruct (g_type g2).
  - destruct (bool_decide (g_excl g2 = ∅)); [set_solver|]. destruct (0 <? g_portion g2); set_solver.
  - set_solver.
  - set_solver.
Qed.

(* reserved CPUs only reach reserved-class grants, and never mixed with other CPUs *)
Lemma reserved_separation c g q :
  grants s !! c = Some g ->
  match g_type g with
  | CpuReserved => told_cpus t s g ⊆ p_res (pool_at t (g_pool g))
  | _ => told_cpus t s g ## p_res (pool_at t q)
  end.
Proof.
  intros Hc. pose proof (reachable_inv os s Hwf Hrun) as HI.
  pose proof (inv_within s HI c g Hc) as Hw.
  assert (Hfs : free_shar s (g_pool g) ⊆ p_shar (pool_at t (g_pool g))).
  { intros x Hx. apply (inv_free_shar s HI) in Hx as [Hx _]. exact Hx. }
  pose proof (wf_res Hwf q (g_pool g)) as Hr.
  unfold told_cpus. destruct (g_type g).
  - destruct (bool_decide (g_excl g = ∅)); [set_solver|]. destruct (0 <? g_portion g); set_solver.
  - set_solver.
  - set_solver.
Qed.

(* C09 (topology-aware part): once no grant is left every pool is back at its full supply *)
Lemma quiescent_free q : grants s = ∅ ->
  free_iso s q = p_iso (pool_at t q) /\ free_shar s q = p_shar (pool_at t q).
Proof.
  intros He. pose proof (reachable_inv os s Hwf Hrun) as HI.
  assert (HnE : forall x, ~ E_in s x).
  { intros x (c & g & Hc & _). rewrite He, lookup_empty in Hc. discriminate. }
  split; apply set_eq; intros x.
  - rewrite (inv_free_iso s HI). specialize (HnE x). tauto.
  - rewrite (inv_free_shar s HI). specialize (HnE x). tauto.
Qed.
End c01.

End ta.

(* ---- non-vacuity: a concrete well-formed tree and a history with exclusive and shared grants ---- *)
Local Open Scope nat_scope.
Definition ex_tree : tree :=
  [ {| p_parent := Some 2; p_iso := ∅; p_res := lset [0%nat]; p_shar := lset [1;2;3]%nat |};
    {| p_parent := Some 2; p_iso := ∅; p_res := ∅; p_shar := lset [4;5;6;7]%nat |};
    {| p_parent := None; p_iso := ∅; p_res := lset [0%nat]; p_shar := lset [1;2;3;4;5;6;7]%nat |} ].
Definition ex_ops : list op :=
  [ OAlloc 1 {| r_full := 2%Z; r_fraction := 0%Z; r_isolate := false; r_type := CpuNormal |} 1 (lset [4;5]%nat);
    OAlloc 2 {| r_full := 0%Z; r_fraction := 500%Z; r_isolate := false; r_type := CpuNormal |} 1 ∅;
    OAlloc 3 {| r_full := 1%Z; r_fraction := 250%Z; r_isolate := false; r_type := CpuNormal |} 2 (lset [1%nat]);
    ORelease 1 ].
Example ta_nonvacuous :
  tree_wfb ex_tree = true /\
  match run ex_tree (init ex_tree) ex_ops with
  | Ok s => size (grants s) = 2 /\ bool_decide (free_shar s 1 = lset [4;5;6;7]) = true
  | Err _ => False end.
Proof. split; [vm_compute; reflexivity|]. vm_compute. split; reflexivity. Qed.
