(* C13 -- reconfiguration: idempotent, atomic when rejected, invariant-preserving. *)
From Coq Require Import ZArith List Bool.
From stdpp Require Import gmap sets.
From NV Require Import TA_Model TA_Proofs TA_Capacity.

(* ---- the resource manager's apply / revert logic (resource-manager.go reconfigure) over an
   arbitrary policy ---- *)
Section resmgr.
Context {St Cfg : Type} (apply : St -> Cfg -> St * bool).   (* policy.Reconfigure: new state, accepted? *)

(* apply the new configuration; on error re-apply the current one *)
Definition reconfigure (s : St) (cur c : Cfg) : St * Cfg * bool :=
  let '(s1, ok) := apply s c in
  if ok then (s1, c, true) else let '(s2, _) := apply s1 cur in (s2, cur, false).

(* what the policies must provide (observed on the implementation by the check's oracle):
   a rejected configuration leaves the policy state unchanged, and re-applying the configuration
   in force is accepted and changes nothing *)
Definition atomic_on_error : Prop := forall s c, snd (apply s c) = false -> fst (apply s c) = s.
Definition idempotent_on (s : St) (cur : Cfg) : Prop := apply s cur = (s, true).

Lemma rejected_is_noop s cur c : atomic_on_error -> idempotent_on s cur ->
  snd (reconfigure s cur c) = false -> reconfigure s cur c = (s, cur, false).
Proof.
  intros Ha Hi. unfold reconfigure. destruct (apply s c) as [s1 ok] eqn:E. destruct ok; [discriminate|].
  intros _. pose proof (Ha s c) as H. rewrite E in H. cbn in H. rewrite (H eq_refl), Hi. reflexivity.
Qed.

Lemma unchanged_is_noop s cur : idempotent_on s cur -> reconfigure s cur cur = (s, cur, true).
Proof. intros Hi. unfold reconfigure. rewrite Hi. reflexivity. Qed.
End resmgr.

(* A rejected update leaves everything as it was, for every policy that is atomic on error and
   idempotent on its current configuration. *)
Theorem C13_rejected_is_noop : forall (St Cfg : Type) (apply : St -> Cfg -> St * bool) s cur c,
  atomic_on_error apply -> idempotent_on apply s cur ->
  snd (reconfigure apply s cur c) = false -> reconfigure apply s cur c = (s, cur, false).
Proof. exact @rejected_is_noop. Qed.
Print Assumptions C13_rejected_is_noop.

Theorem C13_unchanged_is_noop : forall (St Cfg : Type) (apply : St -> Cfg -> St * bool) s cur,
  idempotent_on apply s cur -> reconfigure apply s cur cur = (s, cur, true).
Proof. exact @unchanged_is_noop. Qed.
Print Assumptions C13_unchanged_is_noop.

(* ---- topology-aware: the CPU bookkeeping is a function of the grant table ----
   Two reachable states (any histories, e.g. before and after a reconfiguration that rebuilds the
   same tree and reinstates the same grants) with the same grants have the same free sets and
   ledgers: reinstating the grants reproduces the state exactly. *)
Theorem C13_ta_state_determined_by_grants : forall t os1 os2 s1 s2, tree_wfb t = true ->
  run t (init t) os1 = Ok s1 -> run t (init t) os2 = Ok s2 -> grants s1 = grants s2 ->
  forall q, free_iso s1 q = free_iso s2 q /\ free_shar s1 q = free_shar s2 q /\
            gr_shared s1 q = gr_shared s2 q /\ gr_reserved s1 q = gr_reserved s2 q.
Proof.
  intros t os1 os2 s1 s2 Hwf H1 H2 Hg q.
  pose proof (reachable_inv t os1 s1 (tree_wfb_sound t Hwf) H1) as I1.
  pose proof (reachable_inv t os2 s2 (tree_wfb_sound t Hwf) H2) as I2.
  destruct (reachable_ledger t os1 (init t) s1 (LInv_init t) H1 q) as [L1 L1'].
  destruct (reachable_ledger t os2 (init t) s2 (LInv_init t) H2 q) as [L2 L2'].
  assert (HE : forall x, E_in s1 x <-> E_in s2 x) by (intros x; unfold E_in; rewrite Hg; tauto).
  split; [|split; [|split]].
  - apply set_eq. intros x. rewrite (inv_free_iso t s1 I1), (inv_free_iso t s2 I2), HE. tauto.
  - apply set_eq. intros x. rewrite (inv_free_shar t s1 I1), (inv_free_shar t s2 I2), HE. tauto.
  - rewrite L1, L2, Hg. reflexivity.
  - rewrite L1', L2', Hg. reflexivity.
Qed.
Print Assumptions C13_ta_state_determined_by_grants.
