(* C08: determinism of the allocator model when every order decision is forced.

   Two runs of the model with different order records (o1, o2) are compared.  [osim o1 o2] says:
   whenever o1 reports level 0 for a sort call (its result is the unique sorted permutation), o2
   returns the same list on helpers that agree on (from, cnt, result).  Then: if the run with o1
   ends at level 0, the run with o2 produces the same outcome and the same remaining set. *)
From stdpp Require Import gmap sets fin_sets sorting.
From Coq Require Import ZArith Lia.
From NV Require Import CpuAlloc_Model CpuAlloc_Proofs.
Open Scope Z_scope.

Definition relvl (l : N) (h : helper) : helper := Helper (h_from h) (h_cnt h) (h_res h) l.
Definition core (h : helper) : helper := relvl 0 h.

Definition agree {A} (f1 f2 : list A -> list A * N) : Prop := ∀ l, (f1 l).2 = 0%N -> (f2 l).1 = (f1 l).1.
Definition osim (o1 o2 : orders) : Prop :=
  (∀ h1 h2, core h1 = core h2 -> agree (o_pkgs o1 h1) (o_pkgs o2 h2)) ∧
  (∀ h1 h2, core h1 = core h2 -> agree (o_cores o1 h1) (o_cores o2 h2)) ∧
  (∀ h1 h2, core h1 = core h2 -> agree (o_threads o1 h1) (o_threads o2 h2)) ∧
  (∀ h1 h2, core h1 = core h2 -> agree (o_clusters o1 h1) (o_clusters o2 h2)) ∧
  (∀ h1 h2 u, core h1 = core h2 -> agree (o_cgprefer o1 h1 u) (o_cgprefer o2 h2 u)) ∧
  (∀ h1 h2 p, core h1 = core h2 -> agree (o_cgusable o1 h1 p) (o_cgusable o2 h2 p)).

Lemma nmax0 a b : N.max a b = 0%N -> a = 0%N ∧ b = 0%N.
Proof. lia. Qed.

(* ---------------------------------------------------------------- loops ignore the level *)
Lemma take_fitting_relvl S : ∀ l h, take_fitting S (relvl l h) = relvl l (take_fitting S h).
Proof.
  induction S as [|s S IH]; intros l h; cbn [take_fitting]; [done|].
  cbn [relvl h_cnt]. destruct (sz s <=? h_cnt h); [|apply IH].
  change (take s (relvl l h)) with (relvl l (take s h)).
  cbn [relvl h_cnt]. destruct (h_cnt (take s h) =? 0); [done|apply IH].
Qed.

Lemma take_until_misfit_relvl S : ∀ l h, take_until_misfit S (relvl l h) = relvl l (take_until_misfit S h).
Proof.
  induction S as [|s S IH]; intros l h; cbn [take_until_misfit]; [done|].
  cbn [relvl h_cnt]. destruct (h_cnt h <? sz s); [done|].
  change (take s (relvl l h)) with (relvl l (take s h)).
  cbn [relvl h_cnt]. destruct (h_cnt (take s h) =? 0); [done|apply IH].
Qed.

Lemma take_each_relvl S : ∀ l h, take_each S (relvl l h) = relvl l (take_each S h).
Proof.
  induction S as [|c S IH]; intros l h; cbn [take_each]; [done|].
  change (take {[c_id c]} (relvl l h)) with (relvl l (take {[c_id c]} h)).
  cbn [relvl h_cnt]. destruct (h_cnt (take {[c_id c]} h) =? 0); [done|apply IH].
Qed.

Lemma relvl_eta h : relvl (h_lvl h) h = h.
Proof. by destruct h. Qed.

(* ---------------------------------------------------------------- generic stage *)
Section generic.
Context {A : Type} (cand : helper -> list A) (post : list A -> helper -> helper).
Context (Hpost : ∀ S l h, post S (relvl l h) = relvl l (post S h)).
Context (Hcand : ∀ l h, cand (relvl l h) = cand h).

Definition gstage (sel : helper -> list A -> list A * N) (h : helper) : helper :=
  let '(s, v) := sel h (cand h) in post s (bump v h).

Lemma post_lvl S h : h_lvl (post S h) = h_lvl h.
Proof. rewrite <- (relvl_eta h) at 1. by rewrite Hpost. Qed.

Lemma gstage_mono sel h : h_lvl (gstage sel h) = 0%N -> h_lvl h = 0%N.
Proof.
  unfold gstage. destruct (sel h (cand h)) as [s v]. rewrite post_lvl. cbn [bump h_lvl].
  by intros [_ ?]%nmax0.
Qed.

Lemma gstage_sim sel1 sel2 h1 h2 :
  (∀ h1 h2, core h1 = core h2 -> agree (sel1 h1) (sel2 h2)) ->
  core h1 = core h2 -> h_lvl (gstage sel1 h1) = 0%N -> core (gstage sel1 h1) = core (gstage sel2 h2).
Proof.
  intros Hag Hc Hl. unfold gstage in *.
  assert (Hcd : cand h1 = cand h2).
  { rewrite <- (Hcand 0 h1), <- (Hcand 0 h2). unfold core in Hc. by rewrite Hc. }
  specialize (Hag h1 h2 Hc (cand h1)). rewrite <- Hcd.
  destruct (sel1 h1 (cand h1)) as [s1 v1], (sel2 h2 (cand h1)) as [s2 v2]. cbn [fst snd] in Hag.
  rewrite post_lvl in Hl. cbn [bump h_lvl] in Hl. apply nmax0 in Hl as [-> Hl1].
  rewrite Hag by done.
  unfold core. rewrite <- !Hpost. f_equal.
  unfold core, relvl in Hc. injection Hc as Hf Hn Hr. unfold relvl, bump; cbn. by rewrite Hf, Hn, Hr.
Qed.
End generic.

Section sim.
Context (t : topo) (o1 o2 : orders) (prefer : prio) (Hsim : osim o1 o2).

Lemma core_fields h1 h2 : core h1 = core h2 ->
  h_from h1 = h_from h2 ∧ h_cnt h1 = h_cnt h2 ∧ h_res h1 = h_res h2.
Proof. unfold core, relvl. by intros [= -> -> ->]. Qed.

(* --- packages *)
Lemma pkgs_as_gstage o h :
  take_idle_packages t o prefer h =
  gstage (λ h, filter (λ p, bool_decide (pkg_cset t prefer p ⊆ h_from h)) (t_pkgs t))
         (λ S h, take_fitting (map (pkg_cset t prefer) S) h) (o_pkgs o) h.
Proof. done. Qed.

Lemma pkgs_mono o h : h_lvl (take_idle_packages t o prefer h) = 0%N -> h_lvl h = 0%N.
Proof. rewrite pkgs_as_gstage. apply gstage_mono. intros; apply take_fitting_relvl. Qed.

Lemma pkgs_sim h1 h2 : core h1 = core h2 -> h_lvl (take_idle_packages t o1 prefer h1) = 0%N ->
  core (take_idle_packages t o1 prefer h1) = core (take_idle_packages t o2 prefer h2).
Proof.
  rewrite !pkgs_as_gstage. apply gstage_sim; [intros; apply take_fitting_relvl|done|apply Hsim].
Qed.

(* --- cores *)
Lemma cores_as_gstage o h :
  take_idle_cores t o h =
  gstage (λ h, filter (λ c, idle_core t h c) (t_cpus t))
         (λ S h, take_fitting (map (core_cset t) S) h) (o_cores o) h.
Proof. done. Qed.

Lemma cores_mono o h : h_lvl (take_idle_cores t o h) = 0%N -> h_lvl h = 0%N.
Proof. rewrite cores_as_gstage. apply gstage_mono. intros; apply take_fitting_relvl. Qed.

Lemma cores_sim h1 h2 : core h1 = core h2 -> h_lvl (take_idle_cores t o1 h1) = 0%N ->
  core (take_idle_cores t o1 h1) = core (take_idle_cores t o2 h2).
Proof.
  rewrite !cores_as_gstage. apply gstage_sim; [intros; apply take_fitting_relvl|done|apply Hsim].
Qed.

(* --- threads *)
Lemma threads_as_gstage o h :
  take_idle_threads t o h =
  gstage (λ h, filter (λ c, bool_decide (c_id c ∈ h_from h ∖ t_offline t)) (t_cpus t))
         (λ S h, take_each S h) (o_threads o) h.
Proof. done. Qed.

Lemma threads_mono o h : h_lvl (take_idle_threads t o h) = 0%N -> h_lvl h = 0%N.
Proof. rewrite threads_as_gstage. apply gstage_mono. intros; apply take_each_relvl. Qed.

Lemma threads_sim h1 h2 : core h1 = core h2 -> h_lvl (take_idle_threads t o1 h1) = 0%N ->
  core (take_idle_threads t o1 h1) = core (take_idle_threads t o2 h2).
Proof.
  rewrite !threads_as_gstage. apply gstage_sim; [intros; apply take_each_relvl|done|apply Hsim].
Qed.

(* --- clusters *)
Definition cl_post (S : list cluster) (h : helper) : helper :=
  match S with
  | [] => h
  | c :: _ =>
      let cs := cl_cset t c in
      if sz cs =? h_cnt h then take cs h
      else if h_cnt h <? sz cs then h
      else take_until_misfit (map (cl_cset t) S) h
  end.

Lemma cl_post_relvl S l h : cl_post S (relvl l h) = relvl l (cl_post S h).
Proof.
  destruct S as [|c S]; [done|]. cbn [cl_post relvl h_cnt].
  destruct (sz (cl_cset t c) =? h_cnt h); [done|].
  destruct (h_cnt h <? sz (cl_cset t c)); [done|]. apply take_until_misfit_relvl.
Qed.

Lemma clusters_as_gstage o h :
  take_idle_clusters t o prefer h =
  if (Z.of_nat (length (t_clusters t)) <=? 1) then h else
  gstage (λ h, filter (cluster_idle t prefer h) (t_clusters t)) cl_post (o_clusters o) h.
Proof.
  unfold take_idle_clusters, gstage. destruct (_ <=? 1); [done|].
  destruct (o_clusters o h _) as [s v]. by destruct s.
Qed.

Lemma clusters_mono o h : h_lvl (take_idle_clusters t o prefer h) = 0%N -> h_lvl h = 0%N.
Proof.
  rewrite clusters_as_gstage. destruct (_ <=? 1); [done|].
  apply gstage_mono. intros; apply cl_post_relvl.
Qed.

Lemma clusters_sim h1 h2 : core h1 = core h2 -> h_lvl (take_idle_clusters t o1 prefer h1) = 0%N ->
  core (take_idle_clusters t o1 prefer h1) = core (take_idle_clusters t o2 prefer h2).
Proof.
  rewrite !clusters_as_gstage. destruct (_ <=? 1); [done|].
  apply gstage_sim; [intros; apply cl_post_relvl|done|apply Hsim].
Qed.

(* --- nested allocation *)
Lemma alloc_sub_sim from cnt :
  (alloc_sub t o1 from cnt).2 = 0%N -> (alloc_sub t o2 from cnt).1 = (alloc_sub t o1 from cnt).1.
Proof.
  unfold alloc_sub. cbn [fst snd h_cnt].
  set (h0 := Helper from cnt ∅ 0).
  set (a1 := if 0 <? cnt then take_idle_cores t o1 h0 else h0).
  set (a2 := if 0 <? cnt then take_idle_cores t o2 h0 else h0).
  set (b1 := if 0 <? h_cnt a1 then take_idle_threads t o1 a1 else a1).
  set (b2 := if 0 <? h_cnt a2 then take_idle_threads t o2 a2 else a2).
  intros Hl.
  assert (Ha1 : h_lvl a1 = 0%N).
  { unfold b1 in Hl. destruct (0 <? h_cnt a1); [by apply threads_mono in Hl|done]. }
  assert (Ha : core a1 = core a2).
  { unfold a1, a2 in *. destruct (0 <? cnt); [by apply cores_sim|done]. }
  assert (Hb : core b1 = core b2).
  { unfold b1, b2 in *. destruct (core_fields _ _ Ha) as (_ & <- & _).
    destruct (0 <? h_cnt a1); [by apply threads_sim|done]. }
  destruct (core_fields _ _ Hb) as (_ & <- & <-). done.
Qed.

(* --- cache groups: local state *)
Definition lsim (s1 s2 : cpuset * cpuset * Z * N) : Prop := s1.1 = s2.1.

Lemma cg_free_core h1 h2 g : core h1 = core h2 -> cg_free t h1 g = cg_free t h2 g.
Proof. intros (Hf & _)%core_fields. unfold cg_free. by rewrite Hf. Qed.

Lemma ltake_lvl s st : (ltake s st).2 = st.2.
Proof. by destruct st as [[[? ?] ?] ?]. Qed.

Lemma cg_prefer_loop_mono o h gs : ∀ s, (cg_prefer_loop t o h gs s).2 = 0%N -> s.2 = 0%N.
Proof.
  induction gs as [|g gs IH]; intros s Hl; cbn [cg_prefer_loop] in *; [done|].
  destruct s as [[[r f] c] l]. destruct (c <=? 0); [done|].
  destruct (sz (cg_free t h g) <=? c).
  - apply IH in Hl. by rewrite ltake_lvl in Hl.
  - destruct (alloc_sub t o (cg_free t h g) c) as [u v]. apply IH in Hl.
    rewrite ltake_lvl in Hl. cbn [snd] in *. by apply nmax0 in Hl as [? _].
Qed.

Lemma cg_prefer_loop_sim h1 h2 gs : core h1 = core h2 -> ∀ s1 s2, lsim s1 s2 ->
  (cg_prefer_loop t o1 h1 gs s1).2 = 0%N ->
  lsim (cg_prefer_loop t o1 h1 gs s1) (cg_prefer_loop t o2 h2 gs s2).
Proof.
  intros Hc. induction gs as [|g gs IH]; intros s1 s2 Hs Hl; cbn [cg_prefer_loop] in *; [done|].
  destruct s1 as [[[r1 f1] c1] l1], s2 as [[[r2 f2] c2] l2]. unfold lsim in Hs; cbn [fst snd] in Hs.
  injection Hs as <- <- <-.
  rewrite <- (cg_free_core h1 h2 g Hc).
  destruct (c1 <=? 0); [done|].
  destruct (sz (cg_free t h1 g) <=? c1).
  - by apply IH.
  - pose proof (alloc_sub_sim (cg_free t h1 g) c1) as Hsub.
    destruct (alloc_sub t o1 (cg_free t h1 g) c1) as [u1 v1], (alloc_sub t o2 (cg_free t h1 g) c1) as [u2 v2].
    cbn [fst snd] in Hsub.
    assert (Hv : v1 = 0%N).
    { apply cg_prefer_loop_mono in Hl. rewrite ltake_lvl in Hl. cbn [snd] in Hl. by apply nmax0 in Hl as [_ ?]. }
    rewrite Hsub by done. by apply IH.
Qed.

Lemma cg_take_first_lvl h gs : ∀ s, (cg_take_first t h gs s).2 = s.2.
Proof.
  induction gs as [|g gs IH]; intros s; cbn [cg_take_first]; [done|].
  destruct (s.1.2 <? sz (cg_free t h g)); [done|]. by rewrite IH, ltake_lvl.
Qed.

Lemma ltake_sim u s1 s2 : lsim s1 s2 -> lsim (ltake u s1) (ltake u s2).
Proof.
  destruct s1 as [[[r1 f1] c1] l1], s2 as [[[r2 f2] c2] l2]. unfold lsim; cbn. by intros [= -> -> ->].
Qed.

Lemma cg_take_first_sim h1 h2 gs : core h1 = core h2 -> ∀ s1 s2, lsim s1 s2 ->
  lsim (cg_take_first t h1 gs s1) (cg_take_first t h2 gs s2).
Proof.
  intros Hc. induction gs as [|g gs IH]; intros s1 s2 Hs; cbn [cg_take_first]; [done|].
  rewrite <- (cg_free_core h1 h2 g Hc). unfold lsim in Hs. rewrite <- Hs.
  destruct (s1.1.2 <? sz (cg_free t h1 g)); [done|]. apply IH. by apply ltake_sim.
Qed.

Lemma commit_lvl h st : h_lvl (commit h st) = st.2.
Proof. by destruct st as [[[? ?] ?] ?]. Qed.

Lemma commit_core h1 h2 s1 s2 : lsim s1 s2 -> core (commit h1 s1) = core (commit h2 s2).
Proof.
  destruct s1 as [[[r1 f1] c1] l1], s2 as [[[r2 f2] c2] l2]. unfold lsim; cbn. by intros [= -> -> ->].
Qed.

(* second half of takeCacheGroups *)
Lemma cg_use_usable_mono o h usable chosen st :
  (h_lvl h <= st.2)%N -> h_lvl (cg_use_usable t o h usable chosen st) = 0%N -> st.2 = 0%N.
Proof.
  intros Hle. unfold cg_use_usable.
  destruct (filter _ _) as [|g fl]; [|by rewrite commit_lvl].
  rewrite same_size_pick_dead. cbn [Z.eqb negb andb].
  destruct (scan_totals _ _ 0 0) as [grp_cnt cpu_cnt].
  destruct (cpu_cnt <? st.1.2). { cbn [bump h_lvl]. by intros [? _]%nmax0. }
  set (st2 := cg_take_first t h (firstn grp_cnt usable) st).
  assert (H2 : st2.2 = st.2) by apply cg_take_first_lvl.
  match goal with |- context [if negb (?x.1.2 =? 0) then _ else _] => set (st3 := x) end.
  assert (H3 : st3.2 = 0%N -> st.2 = 0%N).
  { unfold st3. destruct (0 <? st2.1.2); [|by rewrite H2].
    destruct (last _) as [g|]; [|by rewrite H2].
    destruct (alloc_sub t o (cg_free t h g) st2.1.2) as [u v]. rewrite ltake_lvl. cbn [snd].
    rewrite H2. by intros [? _]%nmax0. }
  destruct (negb (st3.1.2 =? 0)).
  - cbn [bump h_lvl]. intros [? _]%nmax0. by apply H3.
  - rewrite commit_lvl. cbn [snd]. exact H3.
Qed.

Lemma cg_free_relvl l h g : cg_free t (relvl l h) g = cg_free t h g.
Proof. done. Qed.

Lemma cg_use_usable_sim h1 h2 usable chosen s1 s2 :
  core h1 = core h2 -> lsim s1 s2 ->
  h_lvl (cg_use_usable t o1 h1 usable chosen s1) = 0%N ->
  core (cg_use_usable t o1 h1 usable chosen s1) = core (cg_use_usable t o2 h2 usable chosen s2).
Proof.
  intros Hc Hs.
  assert (∃ sl2, s2 = (s1.1, sl2)) as [sl2 ->] by (exists s2.2; destruct s2; unfold lsim in Hs; cbn in *; by rewrite Hs).
  pose proof (λ gs, cg_take_first_sim h1 h2 gs Hc s1 (s1.1, sl2) Hs) as H2.
  destruct h1 as [f c r l1], h2 as [f2 c2 r2 l2]. destruct (core_fields _ _ Hc) as (Hf & Hn & Hr).
  cbn in Hf, Hn, Hr. subst f2 c2 r2.
  unfold cg_use_usable. cbv [h_from cg_free].
  change ((s1.1, sl2).1) with (s1.1). change ((s1.1, sl2).2) with sl2.
  set (fr := λ g : cgroup, (cg_cpus g ∖ t_offline t) ∩ f).
  destruct (filter _ _) as [|g fl]; [|done].
  rewrite !same_size_pick_dead. cbn [Z.eqb negb andb].
  destruct (scan_totals _ _ 0 0) as [grp_cnt cpu_cnt].
  cbn [fst snd]. destruct (cpu_cnt <? s1.1.2); [done|].
  specialize (H2 (firstn grp_cnt usable)).
  match type of H2 with lsim ?x ?y => set (a1 := x) in *; set (a2 := y) in * end.
  unfold lsim in H2. rewrite <- !H2.
  match goal with |- context [if negb (?x.1.2 =? 0) then bump _ (Helper f c r l1) else _] => set (b1 := x) end.
  match goal with |- context [if negb (?x.1.2 =? 0) then bump _ (Helper f c r l2) else _] => set (b2 := x) end.
  intros Hl.
  assert (Hb1 : b1.2 = 0%N).
  { destruct (negb (b1.1.2 =? 0)); [cbn [bump h_lvl] in Hl; by apply nmax0 in Hl as [? _]|by rewrite commit_lvl in Hl]. }
  assert (Hb : lsim b1 b2).
  { revert Hb1. unfold b1, b2. destruct (0 <? a1.1.2); [|done].
    destruct (last _) as [g|]; [|done].
    pose proof (alloc_sub_sim ((cg_cpus g ∖ t_offline t) ∩ f) a1.1.2) as Hsub.
    destruct (alloc_sub t o1 _ a1.1.2) as [u1 v1], (alloc_sub t o2 _ a1.1.2) as [u2 v2].
    cbn [fst snd] in Hsub. rewrite ltake_lvl. cbn [snd]. intros [_ Hv]%nmax0.
    rewrite Hsub by done. by apply ltake_sim. }
  unfold lsim in Hb. rewrite <- !Hb. destruct (negb (b1.1.2 =? 0)); done.
Qed.

Lemma cg_counts_core h1 h2 gs p : core h1 = core h2 -> pkg_count t h1 gs p = pkg_count t h2 gs p.
Proof.
  intros Hc. unfold pkg_count, sum_free. induction (filter _ gs) as [|g l IH]; cbn; [done|].
  by rewrite IH, (cg_free_core h1 h2 g Hc).
Qed.

Lemma cg_prefer_loop_grow o h gs : ∀ s, (s.2 <= (cg_prefer_loop t o h gs s).2)%N.
Proof.
  induction gs as [|g gs IH]; intros s; cbn [cg_prefer_loop]; [lia|].
  destruct s as [[[r f] c] l]. destruct (c <=? 0); [cbn; lia|].
  destruct (sz (cg_free t h g) <=? c).
  - etrans; [|apply IH]. rewrite ltake_lvl. cbn; lia.
  - destruct (alloc_sub t o (cg_free t h g) c) as [u v]. etrans; [|apply IH]. rewrite ltake_lvl. cbn; lia.
Qed.

Lemma cg_allocate_mono o h pref usable : h_lvl (cg_allocate t o h pref usable) = 0%N -> h_lvl h = 0%N.
Proof.
  unfold cg_allocate.
  match goal with |- context [if ?c <? h_cnt h then _ else _] => destruct (c <? h_cnt h); [done|] end.
  pose proof (cg_prefer_loop_grow o h pref (h_res h, h_from h, h_cnt h, h_lvl h)) as Hg. cbn [snd] in Hg.
  set (st := cg_prefer_loop t o h pref _) in *.
  destruct (st.1.2 <=? 0).
  - rewrite commit_lvl. lia.
  - intros Hl. apply cg_use_usable_mono in Hl; [lia|done].
Qed.

Lemma cg_allocate_sim h1 h2 pref usable : core h1 = core h2 ->
  h_lvl (cg_allocate t o1 h1 pref usable) = 0%N ->
  core (cg_allocate t o1 h1 pref usable) = core (cg_allocate t o2 h2 pref usable).
Proof.
  intros Hc Hl. pose proof (cg_allocate_mono _ _ _ _ Hl) as Hl0. unfold cg_allocate in *.
  destruct (core_fields _ _ Hc) as (Hf & Hn & Hr).
  rewrite <- !(cg_counts_core h1 h2 _ _ Hc), <- Hn.
  match goal with |- context [if ?c <? h_cnt h1 then _ else _] => destruct (c <? h_cnt h1); [done|] end.
  assert (Hs0 : lsim (h_res h1, h_from h1, h_cnt h1, h_lvl h1) (h_res h2, h_from h2, h_cnt h1, h_lvl h2)).
  { unfold lsim; cbn. by rewrite Hf, Hr. }
  set (s1 := cg_prefer_loop t o1 h1 pref _) in *. set (s2 := cg_prefer_loop t o2 h2 pref _).
  assert (Hs1 : s1.2 = 0%N).
  { destruct (s1.1.2 <=? 0); [by rewrite commit_lvl in Hl|].
    eapply cg_use_usable_mono; [|exact Hl].
    pose proof (cg_prefer_loop_grow o1 h1 pref (h_res h1, h_from h1, h_cnt h1, h_lvl h1)) as Hg. cbn [snd] in Hg.
    fold s1 in Hg. lia. }
  pose proof (cg_prefer_loop_sim h1 h2 pref Hc _ _ Hs0 Hs1) as Hs. change (lsim s1 s2) in Hs.
  assert (Hcnt : s2.1.2 = s1.1.2) by (unfold lsim in Hs; by rewrite Hs).
  rewrite Hcnt. destruct (s1.1.2 <=? 0); [by apply commit_core|].
  by apply cg_use_usable_sim.
Qed.

Lemma cg_pick_core h1 h2 g : core h1 = core h2 -> cg_pick t prefer h1 g = cg_pick t prefer h2 g.
Proof. intros (Hf & _)%core_fields. unfold cg_pick. by rewrite Hf. Qed.

Lemma cgroups_mono o h : h_lvl (take_cache_groups t o prefer h) = 0%N -> h_lvl h = 0%N.
Proof.
  unfold take_cache_groups. destruct (_ <=? 1); [done|]. destruct (h_cnt h <? 2); [done|].
  destruct (o_cgprefer o h _ _) as [p l1]. destruct (o_cgusable o h p _) as [u l2].
  intros Hl%cg_allocate_mono. cbn [bump h_lvl] in Hl. by apply nmax0 in Hl as [_ ?].
Qed.

Lemma cgroups_sim h1 h2 : core h1 = core h2 -> h_lvl (take_cache_groups t o1 prefer h1) = 0%N ->
  core (take_cache_groups t o1 prefer h1) = core (take_cache_groups t o2 prefer h2).
Proof.
  intros Hc. unfold take_cache_groups. destruct (_ <=? 1); [done|].
  destruct (core_fields _ _ Hc) as (Hf & Hn & Hr). rewrite <- Hn.
  destruct (h_cnt h1 <? 2); [done|].
  assert (Hp : filter (λ g, is_prefer (cg_pick t prefer h2 g)) (t_groups t) = filter (λ g, is_prefer (cg_pick t prefer h1 g)) (t_groups t)).
  { apply list_filter_iff. intros g. by rewrite (cg_pick_core h1 h2 g Hc). }
  assert (Hu : filter (λ g, is_usable (cg_pick t prefer h2 g)) (t_groups t) = filter (λ g, is_usable (cg_pick t prefer h1 g)) (t_groups t)).
  { apply list_filter_iff. intros g. by rewrite (cg_pick_core h1 h2 g Hc). }
  rewrite Hp, Hu.
  set (p0 := filter (λ g, is_prefer _) (t_groups t)). set (u0 := filter (λ g, is_usable _) (t_groups t)).
  destruct Hsim as (_ & _ & _ & _ & Hs1 & Hs2).
  specialize (Hs1 h1 h2 u0 Hc p0).
  destruct (o_cgprefer o1 h1 u0 p0) as [p1 l1], (o_cgprefer o2 h2 u0 p0) as [p2 l1']. cbn [fst snd] in Hs1.
  specialize (Hs2 h1 h2 p1 Hc u0).
  destruct (o_cgusable o1 h1 p1 u0) as [u1 l2] eqn:E1.
  intros Hl. pose proof (cg_allocate_mono _ _ _ _ Hl) as Hb. cbn [bump h_lvl] in Hb.
  apply nmax0 in Hb as [Hb _]. apply nmax0 in Hb as [-> ->].
  rewrite Hs1 by done. cbn [fst snd] in Hs2.
  destruct (o_cgusable o2 h2 p1 u0) as [u2 l2']. cbn [fst] in Hs2. rewrite Hs2 by done.
  apply cg_allocate_sim; [|exact Hl].
  unfold core, relvl, bump; cbn. by rewrite Hf, Hn, Hr.
Qed.

(* --- allocate *)
Lemma allocate_mono o flags h : h_lvl (allocate t o prefer flags h) = 0%N -> h_lvl h = 0%N.
Proof.
  unfold allocate.
  set (a := if fl_packages flags then _ else h).
  set (b := if 1 <? t_nkinds t then _ else _).
  set (c := if (0 <? h_cnt b) && fl_cores flags then _ else b).
  intros Hl.
  assert (Hc : h_lvl c = 0%N) by (destruct (0 <? h_cnt c); [by apply threads_mono in Hl|done]).
  assert (Hb : h_lvl b = 0%N) by (unfold c in Hc; destruct ((0 <? h_cnt b) && fl_cores flags); [by apply cores_mono in Hc|done]).
  assert (Ha : h_lvl a = 0%N).
  { unfold b in Hb. destruct (1 <? t_nkinds t).
    - set (a' := if (0 <? h_cnt a) && fl_clusters flags then _ else a) in *.
      assert (h_lvl a' = 0%N) by (destruct ((0 <? h_cnt a') && fl_cgroups flags); [by apply cgroups_mono in Hb|done]).
      unfold a' in *. destruct ((0 <? h_cnt a) && fl_clusters flags); [by eapply clusters_mono|done].
    - destruct ((0 <? h_cnt a) && fl_cgroups flags); [by apply cgroups_mono in Hb|done]. }
  unfold a in Ha. destruct (fl_packages flags); [by apply pkgs_mono in Ha|done].
Qed.

Lemma allocate_sim flags h1 h2 : core h1 = core h2 -> h_lvl (allocate t o1 prefer flags h1) = 0%N ->
  core (allocate t o1 prefer flags h1) = core (allocate t o2 prefer flags h2).
Proof.
  intros Hc0 Hl. pose proof Hl as Hl'. unfold allocate in Hl' |- *.
  set (a1 := if fl_packages flags then take_idle_packages t o1 prefer h1 else h1) in *.
  set (a2 := if fl_packages flags then take_idle_packages t o2 prefer h2 else h2).
  set (b1 := if 1 <? t_nkinds t then _ else _) in *.
  set (b2 := if 1 <? t_nkinds t then
               (let h := if (0 <? h_cnt a2) && fl_clusters flags then take_idle_clusters t o2 prefer a2 else a2 in
                if (0 <? h_cnt h) && fl_cgroups flags then take_cache_groups t o2 prefer h else h)
             else (if (0 <? h_cnt a2) && fl_cgroups flags then take_cache_groups t o2 prefer a2 else a2)).
  set (c1 := if (0 <? h_cnt b1) && fl_cores flags then take_idle_cores t o1 b1 else b1) in *.
  set (c2 := if (0 <? h_cnt b2) && fl_cores flags then take_idle_cores t o2 b2 else b2).
  assert (Hc1 : h_lvl c1 = 0%N) by (destruct (0 <? h_cnt c1); [by apply threads_mono in Hl'|done]).
  assert (Hb1 : h_lvl b1 = 0%N) by (unfold c1 in Hc1; destruct ((0 <? h_cnt b1) && fl_cores flags); [by apply cores_mono in Hc1|done]).
  assert (Ha1 : h_lvl a1 = 0%N).
  { unfold b1 in Hb1. destruct (1 <? t_nkinds t).
    - set (a' := if (0 <? h_cnt a1) && fl_clusters flags then _ else a1) in *.
      assert (h_lvl a' = 0%N) by (destruct ((0 <? h_cnt a') && fl_cgroups flags); [by apply cgroups_mono in Hb1|done]).
      unfold a' in *. destruct ((0 <? h_cnt a1) && fl_clusters flags); [by eapply clusters_mono|done].
    - destruct ((0 <? h_cnt a1) && fl_cgroups flags); [by apply cgroups_mono in Hb1|done]. }
  assert (Ha : core a1 = core a2).
  { unfold a1, a2 in *. destruct (fl_packages flags); [by apply pkgs_sim|done]. }
  assert (Hb : core b1 = core b2).
  { unfold b1, b2 in *. destruct (1 <? t_nkinds t).
    - set (x1 := if (0 <? h_cnt a1) && fl_clusters flags then take_idle_clusters t o1 prefer a1 else a1) in *.
      set (x2 := if (0 <? h_cnt a2) && fl_clusters flags then take_idle_clusters t o2 prefer a2 else a2).
      assert (Hx1 : h_lvl x1 = 0%N) by (destruct ((0 <? h_cnt x1) && fl_cgroups flags); [by apply cgroups_mono in Hb1|done]).
      assert (Hx : core x1 = core x2).
      { unfold x1, x2 in *. destruct (core_fields _ _ Ha) as (_ & <- & _).
        destruct ((0 <? h_cnt a1) && fl_clusters flags); [by apply clusters_sim|done]. }
      destruct (core_fields _ _ Hx) as (_ & <- & _).
      destruct ((0 <? h_cnt x1) && fl_cgroups flags); [by apply cgroups_sim|done].
    - destruct (core_fields _ _ Ha) as (_ & <- & _).
      destruct ((0 <? h_cnt a1) && fl_cgroups flags); [by apply cgroups_sim|done]. }
  assert (Hcc : core c1 = core c2).
  { unfold c1, c2 in *. destruct (core_fields _ _ Hb) as (_ & <- & _).
    destruct ((0 <? h_cnt b1) && fl_cores flags); [by apply cores_sim|done]. }
  destruct (core_fields _ _ Hcc) as (_ & <- & _).
  destruct (0 <? h_cnt c1); [by apply threads_sim|done].
Qed.

(* if the run with o1 ends at level 0, any o2 that agrees with o1 on forced sort calls gives the
   same outcome and the same remaining set *)
Lemma alloc_deterministic flags from cnt :
  (allocate_cpus t o1 prefer flags from cnt).2 = 0%N ->
  (allocate_cpus t o2 prefer flags from cnt).1 = (allocate_cpus t o1 prefer flags from cnt).1.
Proof.
  unfold allocate_cpus. destruct (sz from <? cnt); [done|]. destruct (sz from =? cnt); [done|].
  cbn [fst snd]. intros Hl.
  pose proof (allocate_sim flags (Helper from cnt ∅ 0) (Helper from cnt ∅ 0) eq_refl Hl) as Hc.
  destruct (core_fields _ _ Hc) as (-> & -> & ->). done.
Qed.
End sim.

(* ================================================================ instantiation: the Go comparators *)
(* [res] is a permutation of [l], and a sorted one for the comparator "kless on keys" (no element
   is less than its predecessor) whenever [l] is forced for that comparator *)
Definition sorted_by {A K} (key : A -> K) (kless : K -> K -> bool) (l res : list A) : Prop :=
  res ≡ₚ l ∧ ((sort_by key kless l).2 = 0%N -> Sorted (λ a b, kless (key b) (key a) = false) res).

(* g returns sorted permutations for the very comparator f sorts with (f l = sort_by key kless l) *)
Definition same_comparator_sorted {A} (f g : list A -> list A * N) : Prop :=
  ∀ l, ∃ (K : Type) (key : A -> K) (kless : K -> K -> bool), f l = sort_by key kless l ∧ sorted_by key kless l (g l).1.

Definition valid_sorter (t : topo) (p : prio) (o2 : orders) : Prop :=
  (∀ h, same_comparator_sorted (go_pkgs t p h) (o_pkgs o2 h)) ∧
  (∀ h, same_comparator_sorted (go_cores t p h) (o_cores o2 h)) ∧
  (∀ h, same_comparator_sorted (go_threads t p h) (o_threads o2 h)) ∧
  (∀ h, same_comparator_sorted (go_clusters t h) (o_clusters o2 h)) ∧
  (∀ h u, same_comparator_sorted (go_cgprefer t h u) (o_cgprefer o2 h u)) ∧
  (∀ h pr, same_comparator_sorted (go_cgusable t h pr) (o_cgusable o2 h pr)).

Lemma forcedb_deco {A K} (key : A -> K) (kless : K -> K -> bool) (s : list (A * K)) :
  Forall (λ q, q.2 = key q.1) s ->
  forcedb (λ a b : A * K, kless a.2 b.2) s = forcedb (λ a b, kless (key a) (key b)) (map fst s).
Proof.
  induction 1 as [|q s Hq Hs IH]; cbn [forcedb map]; [done|]. rewrite IH. f_equal.
  clear IH. induction Hs as [|q' s' Hq' Hs' IH]; cbn [forallb map]; [done|].
  rewrite IH. by rewrite Hq, Hq'.
Qed.

Lemma sort_by_forced_unique {A K} (key : A -> K) kless l res :
  (sort_by key kless l).2 = 0%N -> sorted_by key kless l res -> res = (sort_by key kless l).1.
Proof.
  intros Hl [Hperm Hsorted]. specialize (Hsorted Hl).
  pose proof (sort_by_perm key kless l) as Hp.
  unfold sort_by in *. cbn [fst snd] in *.
  set (s := isort _ (map _ l)) in *.
  assert (Hf : forcedb (λ a b : A * K, kless a.2 b.2) s = true).
  { unfold level_of in Hl. destruct (forcedb _ s); [done|]. by destruct (_ <=? _)%nat. }
  rewrite (forcedb_deco key kless) in Hf.
  2: { apply Forall_forall. intros q Hq. unfold s in Hq. rewrite isort_perm in Hq.
       apply elem_of_list_fmap in Hq as (a & -> & _). done. }
  apply (sorted_perm_unique (λ a b, kless (key a) (key b))); [done| |done].
  by rewrite Hperm, Hp.
Qed.

Lemma valid_sorter_osim t p o2 : valid_sorter t p o2 -> osim (go_orders t p) o2.
Proof.
  intros (V1 & V2 & V3 & V4 & V5 & V6).
  assert (G : ∀ {A} (f1 f2 g : list A -> list A * N), (∀ l, f1 l = f2 l) -> same_comparator_sorted f2 g -> agree f1 g).
  { intros A f1 f2 g Heq Hv l Hl. destruct (Hv l) as (K & key & kless & Hf & Hs).
    rewrite Heq in Hl |- *. rewrite Hf in Hl |- *. by apply sort_by_forced_unique. }
  repeat split.
  - intros h1 h2 Hc. eapply G; [|apply V1]. intros l. done.
  - intros h1 h2 Hc. eapply G; [|apply V2]. intros l. done.
  - intros h1 h2 Hc. eapply G; [|apply (V3 h2)]. intros l.
    destruct h1, h2. injection Hc as -> -> ->. done.
  - intros h1 h2 Hc. eapply G; [|apply (V4 h2)]. intros l.
    destruct h1, h2. injection Hc as -> -> ->. done.
  - intros h1 h2 u Hc. eapply G; [|apply (V5 h2)]. intros l.
    destruct h1, h2. injection Hc as -> -> ->. done.
  - intros h1 h2 pr Hc. eapply G; [|apply (V6 h2)]. intros l.
    destruct h1, h2. injection Hc as -> -> ->. done.
Qed.

(* The outcome is a function of (topology, set, count, options) alone whenever every sort of the
   run is forced (level 0): any order record whose functions return sorted permutations for the
   Go comparators yields the outcome and remaining set computed with the modelled insertion sort. *)
Lemma alloc_deterministic_forced t p o2 flags from cnt :
  valid_sorter t p o2 ->
  (allocate_cpus t (go_orders t p) p flags from cnt).2 = 0%N ->
  (allocate_cpus t o2 p flags from cnt).1 = (allocate_cpus t (go_orders t p) p flags from cnt).1.
Proof. intros Hv. apply alloc_deterministic. by apply valid_sorter_osim. Qed.

(* the hypothesis is satisfiable: the modelled orders themselves are a valid sorter *)
Lemma sort_by_sorted {A K} (key : A -> K) kless l :
  (sort_by key kless l).2 = 0%N -> Sorted (λ a b, kless (key b) (key a) = false) (sort_by key kless l).1.
Proof.
  intros Hl. unfold sort_by in *. cbn [fst snd] in *.
  set (s := isort _ (map _ l)) in *.
  assert (Hf : forcedb (λ a b : A * K, kless a.2 b.2) s = true).
  { unfold level_of in Hl. destruct (forcedb _ s); [done|]. by destruct (_ <=? _)%nat. }
  rewrite (forcedb_deco key kless) in Hf.
  2: { apply Forall_forall. intros q Hq. unfold s in Hq. rewrite isort_perm in Hq.
       apply elem_of_list_fmap in Hq as (a & -> & _). done. }
  apply forcedb_spec in Hf. apply StronglySorted_Sorted.
  induction Hf as [|x r Hr IH Hx]; constructor; [done|].
  eapply Forall_impl; [exact Hx|]. by intros b [_ ?].
Qed.

Lemma go_valid_sorter t p : valid_sorter t p (go_orders t p).
Proof.
  repeat split; intros; intros l; do 3 eexists; (split; [reflexivity|]);
    (split; [apply sort_by_perm|apply sort_by_sorted]).
Qed.
