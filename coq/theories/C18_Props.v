(* C18 -- property theorems only.  Each is closed by [exact] of a lemma from C18_Proofs and
   followed by Print Assumptions.

   A pod's annotation map is an association list [l] with pairwise distinct keys
   ([NoDup l.*1]): a Go map in the order in which one `range` happens to visit it; "for every
   iteration order" is [l ≡ₚ l'] (Permutation).  [str] = byte sequence.

   Stated domain of the "other containers" clause for memory-qos / memtierd:
   container names without '/' that do not end with the plugin's annotation suffix
   ([name_ok]); every Kubernetes container name (a DNS label) is inside it
   (C18_dns_label_names_in_domain).  Outside it the clause is false of the code
   (the two C18_mq_other_container_refuted theorems). *)
From Coq Require Import Ascii NArith.
From stdpp Require Import strings gmap.
From NV Require Import C18_Model C18_Proofs.
Local Open Scope list_scope.

(* ---- resource-policy cache: pod.GetEffectiveAnnotation ---- *)

(* precedence container-specific > pod-wide > bare key, for every map, key and container *)
Theorem C18_cache_precedence : forall l key c,
  NoDup l.*1 ->
  (forall v, (key_container key c, v) ∈ l -> eff_cache l key c = Some v) /\
  (key_container key c ∉ l.*1 -> forall v, (key_pod key, v) ∈ l -> eff_cache l key c = Some v) /\
  (key_container key c ∉ l.*1 -> key_pod key ∉ l.*1 -> eff_cache l key c = alookup l key).
Proof. exact eff3_precedence. Qed.
Print Assumptions C18_cache_precedence.

(* maps that differ only in key/container.<d> entries for d <> c resolve equally for c
   (no condition on the names) *)
Theorem C18_cache_other_containers_irrelevant : forall l l' key c,
  (forall k, (forall d, d <> c -> k <> key_container key d) -> alookup l k = alookup l' k) ->
  eff_cache l key c = eff_cache l' key c.
Proof. exact eff3_others_irrelevant. Qed.
Print Assumptions C18_cache_other_containers_irrelevant.

Theorem C18_cache_order_independent : forall l l' key c,
  NoDup l.*1 -> l ≡ₚ l' -> eff_cache l key c = eff_cache l' key c.
Proof. exact eff3_perm. Qed.
Print Assumptions C18_cache_order_independent.

(* ---- sgx-epc: parseEpcLimit ---- *)

Theorem C18_epc_precedence : forall l c,
  NoDup l.*1 ->
  (forall v, (key_container epc_key c, v) ∈ l -> parse_epc_limit l c = epc_of v) /\
  (key_container epc_key c ∉ l.*1 -> forall v, (key_pod epc_key, v) ∈ l -> parse_epc_limit l c = epc_of v) /\
  (key_container epc_key c ∉ l.*1 -> key_pod epc_key ∉ l.*1 ->
   parse_epc_limit l c = match alookup l epc_key with Some v => epc_of v | None => EpcOk 0 end).
Proof. exact epc_precedence. Qed.
Print Assumptions C18_epc_precedence.

Theorem C18_epc_other_containers_irrelevant : forall l l' c,
  (forall k, (forall d, d <> c -> k <> key_container epc_key d) -> alookup l k = alookup l' k) ->
  parse_epc_limit l c = parse_epc_limit l' c.
Proof. exact epc_others_irrelevant. Qed.
Print Assumptions C18_epc_other_containers_irrelevant.

Theorem C18_epc_order_independent : forall l l' c,
  NoDup l.*1 -> l ≡ₚ l' -> parse_epc_limit l c = parse_epc_limit l' c.
Proof. exact parse_epc_perm. Qed.
Print Assumptions C18_epc_order_independent.

(* ---- memory-qos and memtierd: effectiveAnnotations (any suffix without '/') ---- *)

(* order independence of the first loop: unconditional *)
Theorem C18_plugin_effann_order_independent : forall suffix c l l',
  NoDup l.*1 -> l ≡ₚ l' -> effective_annotations suffix c l = effective_annotations suffix c l'.
Proof. exact effective_annotations_perm. Qed.
Print Assumptions C18_plugin_effann_order_independent.

(* precedence: the value for parameter p is <p><suffix>/<c> if present, otherwise <p><suffix> *)
Theorem C18_plugin_precedence : forall suffix c l p,
  own_ok suffix c -> NoDup l.*1 ->
  effective_annotations suffix c l !! p =
  match alookup l (p ++ suffix ++ slash :: c) with
  | Some v => Some v
  | None => alookup l (p ++ suffix)
  end.
Proof. exact effective_annotations_lookup. Qed.
Print Assumptions C18_plugin_precedence.

(* an annotation addressed to another container d has no effect on c: stated domain *)
Theorem C18_plugin_other_containers_irrelevant : forall suffix c d p v l1 l2,
  slash ∉ suffix -> slash ∉ c -> name_ok suffix d -> d <> c ->
  effective_annotations suffix c (l1 ++ (p ++ suffix ++ slash :: d, v) :: l2) =
  effective_annotations suffix c (l1 ++ l2).
Proof. exact plugin_others_irrelevant. Qed.
Print Assumptions C18_plugin_other_containers_irrelevant.

Theorem C18_create_other_containers_irrelevant :
  (forall cfg c d p v l1 l2, slash ∉ c -> name_ok mq_suffix d -> d <> c ->
     mq_create cfg c (l1 ++ (p ++ mq_suffix ++ slash :: d, v) :: l2) = mq_create cfg c (l1 ++ l2)) /\
  (forall cfg c d p v l1 l2, slash ∉ c -> name_ok mt_suffix d -> d <> c ->
     mt_create cfg c (l1 ++ (p ++ mt_suffix ++ slash :: d, v) :: l2) = mt_create cfg c (l1 ++ l2)).
Proof. exact (conj mq_create_others_irrelevant mt_create_others_irrelevant). Qed.
Print Assumptions C18_create_other_containers_irrelevant.

Theorem C18_dns_label_names_in_domain : forall d,
  slash ∉ d -> dot ∉ d -> name_ok mq_suffix d /\ name_ok mt_suffix d.
Proof. exact dns_label_ok. Qed.
Print Assumptions C18_dns_label_names_in_domain.

(* outside the domain the clause is false of the (faithful) model of memory-qos *)
Theorem C18_mq_other_container_refuted_slash :
  exists c d p v, d <> c /\ slash ∉ c /\
    mq_create w_cfg c [(p ++ mq_suffix ++ slash :: d, v)] <> mq_create w_cfg c [].
Proof. exact mq_other_container_refuted_slash. Qed.
Print Assumptions C18_mq_other_container_refuted_slash.

Theorem C18_mq_other_container_refuted_suffix_name :
  exists c d p v, d <> c /\ slash ∉ c /\ slash ∉ d /\
    mq_create w_cfg c [(p ++ mq_suffix ++ slash :: d, v)] <> mq_create w_cfg c [].
Proof. exact mq_other_container_refuted_suffix_name. Qed.
Print Assumptions C18_mq_other_container_refuted_suffix_name.

(* ---- CreateContainer: both loops, every visiting order of both maps ---- *)

Theorem C18_mq_create_order_independent : forall cfg c l l' ord ord',
  NoDup l.*1 -> l ≡ₚ l' ->
  ord ≡ₚ map_to_list (effective_annotations mq_suffix c l) ->
  ord' ≡ₚ map_to_list (effective_annotations mq_suffix c l') ->
  mq_fold cfg ord = mq_fold cfg ord'.
Proof. exact mq_order_independent. Qed.
Print Assumptions C18_mq_create_order_independent.

Theorem C18_mt_create_order_independent : forall cfg c l l' ord ord',
  NoDup l.*1 -> l ≡ₚ l' ->
  ord ≡ₚ map_to_list (effective_annotations mt_suffix c l) ->
  ord' ≡ₚ map_to_list (effective_annotations mt_suffix c l') ->
  mt_fold cfg ord = mt_fold cfg ord'.
Proof. exact mt_order_independent. Qed.
Print Assumptions C18_mt_create_order_independent.

(* explicit parameter beats the class-derived value: complete description of the unified map
   of a successful CreateContainer, for every visiting order [ord] of effAnn *)
Theorem C18_mq_unified_spec : forall cfg ord,
  NoDup ord.*1 -> forall u, mq_fold cfg ord = COk u -> forall i, u !! i = mq_spec cfg ord i.
Proof. exact mq_fold_spec. Qed.
Print Assumptions C18_mq_unified_spec.

Theorem C18_mq_explicit_beats_class : forall cfg ord u k v,
  NoDup ord.*1 -> mq_fold cfg ord = COk u -> (k, v) ∈ ord -> k <> k_class -> u !! k = Some v.
Proof. exact mq_explicit_beats_class. Qed.
Print Assumptions C18_mq_explicit_beats_class.

Theorem C18_mt_unified_spec : forall cfg ord,
  NoDup ord.*1 -> forall u, mt_fold cfg ord = COk u -> forall i, u !! i = mt_spec cfg ord i.
Proof. exact mt_fold_spec. Qed.
Print Assumptions C18_mt_unified_spec.

Theorem C18_mt_explicit_beats_class : forall cfg ord u v,
  NoDup ord.*1 -> mt_fold cfg ord = COk u -> (k_swap, v) ∈ ord -> u !! k_swap = Some v.
Proof. exact mt_explicit_beats_class. Qed.
Print Assumptions C18_mt_explicit_beats_class.

(* the name hypotheses are satisfiable (names that are prefixes/suffixes of each other) *)
Theorem C18_example_names :
  own_ok mq_suffix (s "app") /\ name_ok mq_suffix (s "app-1") /\ name_ok mq_suffix (s "1.app") /\
  name_ok mt_suffix (s "memtierd.nri.io") /\ own_ok mt_suffix (s "pp").
Proof. exact ex_names_ok. Qed.
Print Assumptions C18_example_names.
