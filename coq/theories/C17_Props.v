(* C17 -- property theorems only.  Each is closed by [exact] of a lemma from C17_Proofs and
   followed by Print Assumptions.  All of them quantify over ALL event sequences [es]
   (oldest event first) of the two watches; [state es]/[acts es]/[notified es] are what the
   model of pkg/agent does from a freshly created agent, [last_node es]/[last_group es]/
   [effective es] are read off the event streams alone.

   [coherent es]: two delivered objects with the same uid and the same non-zero generation are
   the same object (what the API server guarantees: the generation changes with the spec). *)
From Coq Require Import NArith List Bool.
From NV Require Import C17_Model C17_Proofs.
Import ListNotations.
Open Scope N_scope.

(* clause 1: "the configuration most recently delivered to the plugin is the node-specific
   resource if one currently exists, and otherwise the most recent group/default one"
   (modulo validity: an effective configuration failing validation is not delivered) *)
Theorem C17_delivered_is_effective : forall es c,
  coherent es -> effective es = Some c -> valid c = true -> last_notified es = Some c.
Proof. exact delivered_is_effective. Qed.
Print Assumptions C17_delivered_is_effective.

(* ... and conversely nothing but the then-effective, valid configuration is ever delivered *)
Theorem C17_notified_was_effective : forall es e c,
  coherent (es ++ [e]) -> In c (notified_of (snd (step (state es) e))) ->
  effective (es ++ [e]) = Some c /\ valid c = true.
Proof. exact notified_was_effective. Qed.
Print Assumptions C17_notified_was_effective.

(* the agent's stored objects are exactly what the streams say (under coherence), and
   currentCfg (used for status patches) is the effective one, valid or not *)
Theorem C17_state_tracks_streams : forall es,
  coherent es -> nodeC (state es) = last_node es /\ groupC (state es) = last_group es.
Proof. exact state_tracks_streams. Qed.
Print Assumptions C17_state_tracks_streams.

Theorem C17_current_is_effective : forall es c,
  coherent es -> effective es = Some c -> cur (state es) = Some c.
Proof. exact current_is_effective. Qed.
Print Assumptions C17_current_is_effective.

(* the coherence hypothesis cannot be dropped (faithful model): same uid+generation with
   different content is taken for a duplicate *)
Theorem C17_delivered_is_effective_refuted_incoherent :
  exists es c, effective es = Some c /\ valid c = true /\ last_notified es <> Some c.
Proof. exact delivered_is_effective_refuted_incoherent. Qed.
Print Assumptions C17_delivered_is_effective_refuted_incoherent.

(* clause 2: "a group or default update never replaces an existing node-specific
   configuration": no call at all (no notification, no status patch), for ANY history,
   without the coherence assumption *)
Theorem C17_group_never_replaces_node : forall es n g,
  last_node es = Some n ->
  acts (es ++ [GroupEv g]) = acts es /\
  nodeC (state (es ++ [GroupEv g])) = nodeC (state es) /\
  cur (state (es ++ [GroupEv g])) = cur (state es).
Proof. exact group_never_replaces_node. Qed.
Print Assumptions C17_group_never_replaces_node.

(* clause 3: "deleting the node-specific one falls back to the current group configuration" *)
Theorem C17_delete_falls_back : forall es n,
  coherent es -> last_node es = Some n ->
  notified (es ++ [NodeEv None]) =
    notified es ++ match last_group es with Some g => if valid g then [g] else [] | None => [] end.
Proof. exact delete_falls_back. Qed.
Print Assumptions C17_delete_falls_back.

(* clause 4: "re-delivery of an already applied resource version causes no re-configuration":
   same uid and same non-zero generation as the resource that currently exists -> no call and
   no state change, for ANY history, without the coherence assumption *)
Theorem C17_redelivery_silent : forall es c c',
  uid c' = uid c -> gen c' = gen c -> gen c <> 0 ->
  (last_node es = Some c -> step (state es) (NodeEv (Some c')) = (state es, [])) /\
  (last_group es = Some c -> step (state es) (GroupEv (Some c')) = (state es, [])).
Proof.
  exact (fun es c c' Hu Hg Hz =>
           conj (fun H => redelivery_silent_node es c c' H Hu Hg Hz)
                (fun H => redelivery_silent_group es c c' H Hu Hg Hz)).
Qed.
Print Assumptions C17_redelivery_silent.

Theorem C17_redelivery_deletion_silent : forall es,
  (last_node es = None -> step (state es) (NodeEv None) = (state es, [])) /\
  (last_group es = None -> step (state es) (GroupEv None) = (state es, [])).
Proof. exact redelivery_deletion_silent. Qed.
Print Assumptions C17_redelivery_deletion_silent.

(* the documented exception: generation 0 (configuration from a file) is always re-applied *)
Theorem C17_redelivery_gen0_renotifies : forall es c,
  coherent (es ++ [NodeEv (Some c)]) -> last_node es = Some c -> gen c = 0 -> valid c = true ->
  notified (es ++ [NodeEv (Some c)]) = notified es ++ [c].
Proof. exact redelivery_gen0_renotifies. Qed.
Print Assumptions C17_redelivery_gen0_renotifies.

(* clause 5: "a configuration failing validation is never handed to the plugin" *)
Theorem C17_invalid_never_notified : forall es c, In c (notified es) -> valid c = true.
Proof. exact invalid_never_notified. Qed.
Print Assumptions C17_invalid_never_notified.

(* the hypotheses are satisfiable *)
Theorem C17_example_coherent :
  coherent ex_es /\ last_node ex_es = None /\ effective ex_es = Some ex_g /\
  notified ex_es = [ex_g; ex_n; ex_g].
Proof. exact (conj ex_coherent (conj eq_refl (conj eq_refl eq_refl))). Qed.
Print Assumptions C17_example_coherent.
