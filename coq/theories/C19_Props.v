(* C19 -- property theorems only.  Each is closed by [exact] of a lemma from C19_Proofs and
   followed by Print Assumptions.  [glob] stands for filepath.Match (matched, err <> nil) and
   [clean] for path.Clean: every theorem holds for arbitrary such functions; subjects are
   arbitrary (total functions from keys to string / map / Evaluable / error / anything else). *)
From Coq Require Import ZArith List Bool String Ascii.
From NV Require Import Gen.Gen_Affinity C19_Model C19_Proofs.
Import ListNotations.
Open Scope string_scope.

(* "In/NotIn ... are exact negations of each other": for every key, value list and subject
   (None = the evaluation would panic; it is None on both sides or on neither) *)
Theorem C19_in_notin_dual : forall glob clean k vs s,
  evaluate glob clean (Expr k NotIn vs) s = option_map negb (evaluate glob clean (Expr k In vs) s) /\
  evaluate glob clean (Expr k In vs) s = option_map negb (evaluate glob clean (Expr k NotIn vs) s).
Proof. exact in_notin_dual. Qed.
Print Assumptions C19_in_notin_dual.

(* "Matches/MatchesNot are exact negations" *)
Theorem C19_matches_dual : forall glob clean k vs s,
  evaluate glob clean (Expr k MatchesNot vs) s = option_map negb (evaluate glob clean (Expr k Matches vs) s) /\
  evaluate glob clean (Expr k Matches vs) s = option_map negb (evaluate glob clean (Expr k MatchesNot vs) s).
Proof. exact matches_dual. Qed.
Print Assumptions C19_matches_dual.

(* "MatchesAny/MatchesNone are exact negations" *)
Theorem C19_matchesany_none_dual : forall glob clean k vs s,
  evaluate glob clean (Expr k MatchesNone vs) s = option_map negb (evaluate glob clean (Expr k MatchesAny vs) s) /\
  evaluate glob clean (Expr k MatchesAny vs) s = option_map negb (evaluate glob clean (Expr k MatchesNone vs) s).
Proof. exact matchesany_none_dual. Qed.
Print Assumptions C19_matchesany_none_dual.

(* "Exists/NotExists are exact negations" *)
Theorem C19_exists_dual : forall glob clean k vs s,
  evaluate glob clean (Expr k NotExist vs) s = option_map negb (evaluate glob clean (Expr k Exists vs) s) /\
  evaluate glob clean (Expr k Exists vs) s = option_map negb (evaluate glob clean (Expr k NotExist vs) s).
Proof. exact exists_dual. Qed.
Print Assumptions C19_exists_dual.

(* "evaluate per the documented operator semantics": the positive operators in terms of the
   value of the key (fst) and whether it exists (snd) *)
Theorem C19_operator_semantics : forall glob clean k s,
  (forall vs, evaluate glob clean (Expr k In vs) s =
     Some (snd (key_value clean k s) && existsb (fun v => (fst (key_value clean k s) =? v) || (v =? "*")) vs)) /\
  (forall vs, evaluate glob clean (Expr k MatchesAny vs) s =
     Some (snd (key_value clean k s) && existsb (fun p => fst (glob p (fst (key_value clean k s)))) vs)) /\
  (forall p, evaluate glob clean (Expr k Matches [p]) s =
     Some (snd (key_value clean k s) && fst (glob p (fst (key_value clean k s))))) /\
  (forall v, evaluate glob clean (Expr k Equals [v]) s =
     Some (snd (key_value clean k s) && ((fst (key_value clean k s) =? v) || (v =? "*")))) /\
  evaluate glob clean (Expr k Exists []) s = Some (snd (key_value clean k s)).
Proof.
  exact (fun glob clean k s =>
    conj (fun vs => in_spec glob clean k vs s) (conj (fun vs => matchesany_spec glob clean k vs s)
    (conj (fun p => matches_spec glob clean k p s) (conj (fun v => equals_spec glob clean k v s) (exists_spec glob clean k s))))).
Qed.
Print Assumptions C19_operator_semantics.

(* "joint keys evaluate to their sub-key values joined by the separator": the full form
   :<ksep><vsep><ksep-separated sub-keys>, for arbitrary separators accepted by validSeparator and
   arbitrary sub-keys not containing ksep; a sub-key that does not resolve contributes "", the
   joint key exists iff one of its sub-keys does *)
Theorem C19_joint_key_value : forall clean ksep vsep ks s,
  valid_separator ksep = true -> valid_separator vsep = true ->
  ks <> [] -> Forall (fun k => contains_char ksep k = false) ks ->
  join (String ksep "") ks <> "" ->
  key_value clean (String ":" (String ksep (String vsep (join (String ksep "") ks)))) s =
    (join (String vsep "") (map (fun k => dflt_str (resolve_ref clean s k)) ks),
     existsb (fun k => is_some (resolve_ref clean s k)) ks).
Proof. exact joint_full. Qed.
Print Assumptions C19_joint_key_value.

(* the simple form :<colon-separated sub-keys> (its first two bytes are not both separators) *)
Theorem C19_joint_key_simple : forall clean ks s k v c3 rest,
  ks <> [] -> Forall (fun k => contains_char ":" k = false) ks ->
  join ":" ks = String k (String v (String c3 rest)) ->
  valid_separator k && valid_separator v = false ->
  key_value clean (String ":" (join ":" ks)) s =
    (join ":" (map (fun k => dflt_str (resolve_ref clean s k)) ks),
     existsb (fun k => is_some (resolve_ref clean s k)) ks).
Proof. exact joint_simple. Qed.
Print Assumptions C19_joint_key_simple.

(* documented: ":keylist" is equivalent to ":::keylist" *)
Theorem C19_joint_simple_equiv : forall clean ks s k v c3 rest,
  ks <> [] -> Forall (fun k => contains_char ":" k = false) ks ->
  join ":" ks = String k (String v (String c3 rest)) ->
  valid_separator k && valid_separator v = false ->
  key_value clean (String ":" (join ":" ks)) s = key_value clean (String ":" (String ":" (String ":" (join ":" ks)))) s.
Proof. exact joint_simple_equiv. Qed.
Print Assumptions C19_joint_simple_equiv.

(* the hypotheses of the joint-key theorems are satisfiable *)
Example C19_joint_example :
  key_value clean_impl ":,;name,labels/app" (obj_of [("name", VStr "web"); ("labels", VMap [("app", "db")])] VErr) = ("web;db", true) /\
  key_value clean_impl ":pod/name:name" (obj_of [("name", VStr "web")] VErr) = (":web", true).
Proof. split; vm_compute; reflexivity. Qed.

(* "an expression accepted by validation never fails at evaluation": Evaluate of a validated
   expression does not panic, for every subject *)
Theorem C19_validated_total : forall glob clean e s, validate e = true -> evaluate glob clean e s <> None.
Proof. exact validated_total. Qed.
Print Assumptions C19_validated_total.

(* without validation it can (so the hypothesis is not vacuous) *)
Example C19_unvalidated_panics :
  validate (Expr "name" Equals []) = false /\
  evaluate glob_impl clean_impl (Expr "name" Equals []) (obj_of [("name", VStr "x")] VErr) = None.
Proof. split; vm_compute; reflexivity. Qed.

(* "the weight of every user-supplied affinity is clamped to [-1000, 1000]": for every int32 (in
   fact every integer) weight and either annotation kind; the cutoff is the source constant *)
Theorem C19_weight_clamped : forall dflt w,
  (- AFF_UserWeightCutoff <= full_weight dflt w <= AFF_UserWeightCutoff)%Z.
Proof. exact weight_clamped. Qed.
Print Assumptions C19_weight_clamped.

(* weights inside the range are kept (negated for anti-affinities); an omitted weight is the default *)
Theorem C19_weight_in_range : forall dflt w,
  (w <> 0 -> - AFF_UserWeightCutoff <= w <= AFF_UserWeightCutoff ->
   full_weight dflt w = if dflt <? 0 then - w else w)%Z /\
  ((- AFF_UserWeightCutoff <= dflt <= AFF_UserWeightCutoff)%Z -> full_weight dflt 0 = dflt).
Proof. exact (fun dflt w => conj (weight_in_range_kept dflt w) (weight_default dflt)). Qed.
Print Assumptions C19_weight_in_range.

(* balloon type choice, for every ordered list of types with validated match expressions, every
   subject, namespace and effective annotation:
   annotation -> the (first) type with that name, unknown name -> error;
   no annotation -> the first type in list order with a true match expression or a matching
   namespace pattern; none -> the default type *)
Theorem C19_choose_spec : forall glob clean defs dflt s ns, all_validated defs ->
  (forall n l1 d l2, defs = (l1 ++ d :: l2)%list -> d_name d = n -> (forall x, List.In x l1 -> d_name x <> n) ->
      choose glob clean defs dflt (Some n) s ns = ChDef d) /\
  (forall n, (forall x, List.In x defs -> d_name x <> n) -> choose glob clean defs dflt (Some n) s ns = ChErr) /\
  (forall l1 d l2, defs = (l1 ++ d :: l2)%list -> def_matches glob clean s ns d = true ->
      (forall x, List.In x l1 -> def_matches glob clean s ns x = false) -> choose glob clean defs dflt None s ns = ChDef d) /\
  ((forall x, List.In x defs -> def_matches glob clean s ns x = false) -> choose glob clean defs dflt None s ns = ChDef dflt).
Proof. exact choose_spec. Qed.
Print Assumptions C19_choose_spec.

(* an accepted configuration has only validated expressions, its default type is the type named
   "default", and choosing a type never panics *)
Theorem C19_accepted_config : forall glob clean o defs dflt, eff_config o = Some (defs, dflt) ->
  all_validated defs /\ List.In dflt defs /\ d_name dflt = default_name /\
  forall ann s ns, choose glob clean defs dflt ann s ns <> ChPanic.
Proof.
  exact (fun glob clean o defs dflt E =>
    conj (eff_config_validated o defs dflt E)
   (conj (proj1 (proj2 (eff_config_defs o defs dflt E)))
   (conj (proj2 (proj2 (eff_config_defs o defs dflt E)))
         (fun ann s ns => choose_no_panic glob clean defs dflt ann s ns (eff_config_validated o defs dflt E))))).
Qed.
Print Assumptions C19_accepted_config.

(* "kube-system and the configured reserved namespaces match the reserved type": every namespace
   matched by the literal pattern kube-system or by a configured reserved namespace pattern
   matches the namespaces of the reserved type of the effective configuration *)
Theorem C19_reserved_namespaces_match_reserved : forall glob o defs dflt, eff_config o = Some (defs, dflt) ->
  exists r, List.In r defs /\ d_name r = reserved_name /\
    forall ns, ns_pat_match glob ns kube_system = true \/ namespace_matches glob ns (reserved_ns_of o) = true ->
               namespace_matches glob ns (d_ns r) = true.
Proof. exact reserved_matches. Qed.
Print Assumptions C19_reserved_namespaces_match_reserved.

(* when the reserved type is the implicit one it is first in the order, so such a container
   without an annotation gets the reserved type *)
Theorem C19_implicit_reserved_chosen : forall glob clean o defs dflt s ns, eff_config o = Some (defs, dflt) ->
  existsb (fun d => d_name d =? reserved_name) (o_defs o) = false ->
  ns_pat_match glob ns kube_system = true \/ namespace_matches glob ns (reserved_ns_of o) = true ->
  exists r, choose glob clean defs dflt None s ns = ChDef r /\ d_name r = reserved_name.
Proof. exact implicit_reserved_chosen. Qed.
Print Assumptions C19_implicit_reserved_chosen.

(* the hypotheses are satisfiable: for the modelled Match the pattern kube-system matches the
   namespace kube-system, and a configuration is accepted *)
Example C19_reserved_example :
  ns_pat_match glob_impl kube_system kube_system = true /\
  exists defs dflt, eff_config (BOpts [BDef "a" [Expr "name" Exists []] ["ns*"]] None) = Some (defs, dflt).
Proof. split; [exact glob_impl_kube_system|]. eexists. eexists. vm_compute. reflexivity. Qed.
