From Coq Require Import ZArith List Bool String Ascii.
From NV Require Import C19_Model C19_Proofs.
Theorem C19_stub : True. Proof. exact I. Qed.
Print Assumptions C19_stub.
