(* C05: the pending-change / flush pipeline between the cache and the runtime
   (pkg/resmgr/cache/container.go markPending/ClearPending/GetPending{Adjustment,Update},
   pkg/resmgr/nri.go getPendingAdjustment/getPendingUpdates/updateContainers).
   Marks only: [dirty] = containers whose cached resources differ from what the runtime has been
   told; [pend] = containers with pending marks.  Model only -- no proofs here. *)
From Coq Require Import List Bool String.
From stdpp Require Import gmap sets.
Import ListNotations.

(* what the translator extracts per handler *)
Inductive flushk := FAdjustSelf | FUpdatesSkipSelf | FUpdatesAll | FPushAll | FPush.
Record hspec := { h_name : string; h_policy : bool; h_event : bool; h_flush : list flushk }.

Definition is_update_flush (k : flushk) : bool :=
  match k with FUpdatesSkipSelf | FUpdatesAll | FPushAll => true | _ => false end.
(* a handler that lets the policy write container resources must flush updates before replying *)
Definition well_flushed (h : hspec) : bool := negb (h_policy h) || existsb is_update_flush (h_flush h).
(* a handler that creates a container delivers its own resources as the adjustment *)
Definition adjusts_self (h : hspec) : bool := existsb (fun k => match k with FAdjustSelf => true | _ => false end) (h_flush h).

(* ---- mark-level semantics ---- *)
Record fst := { dirty : gset nat; pend : gset nat }.
Definition f0 : fst := {| dirty := ∅; pend := ∅ |}.

Inductive call :=
| CWrite (c : nat)                 (* any Set* on container c: cache changes, marks pending *)
| CFlush (c : nat)                 (* c's pending changes put into the adjustment / an update that is delivered; marks cleared *)
| CDrop (c : nat).                 (* marks cleared without delivery (container not created/running) *)

Definition fstep (live : gset nat) (s : fst) (k : call) : fst :=
  match k with
  | CWrite c => {| dirty := dirty s ∪ {[c]}; pend := pend s ∪ {[c]} |}
  | CFlush c => {| dirty := dirty s ∖ {[c]}; pend := pend s ∖ {[c]} |}
  | CDrop c => {| dirty := dirty s ∖ {[c]}; pend := pend s ∖ {[c]} |}   (* the runtime's view of a stopped container no longer matters *)
  end.
Definition frun (live : gset nat) (s : fst) (ks : list call) : fst := fold_left (fstep live) ks s.

(* ---- request-level semantics ---- *)
(* getPendingUpdates: every container in T is flushed (or dropped when not created/running) *)
Definition flush_set (T : gset nat) (s : fst) : fst := {| dirty := dirty s ∖ T; pend := pend s ∖ T |}.

Inductive rkind :=
| RCreate (self : nat)     (* CreateContainer: adjustment for self + updates for all others *)
| RStop (self : nat)       (* StopContainer: updates for all but the stopped container *)
| RFlushAll                (* UpdateContainer, Synchronize, reconfigure + push *)
| RNoFlush.                (* pod events, StartContainer, RemoveContainer, any failing request *)
Record req := { r_kind : rkind; r_writes : list nat }.

Definition exec (s : fst) (r : req) : fst :=
  let s1 := fold_left (fun s c => fstep ∅ s (CWrite c)) (r_writes r) s in
  match r_kind r with
  | RCreate _ => flush_set (pend s1) s1
  | RStop self => flush_set (pend s1 ∖ {[self]}) s1
  | RFlushAll => flush_set (pend s1) s1
  | RNoFlush => s1
  end.

(* the guard the theorem needs: a request that does not flush makes no writes
   (fails on the unchanged tree for failing requests: known finding K5) *)
Definition req_guard (r : req) : bool :=
  match r_kind r with RNoFlush => match r_writes r with [] => true | _ => false end | _ => true end.

Definition stopped_of (rs : list req) : gset nat :=
  list_to_set (flat_map (fun r => match r_kind r with RStop self => [self] | _ => [] end) rs).

(* classification of the generated handler table into request kinds *)
Definition kind_ok (h : hspec) : bool :=
  well_flushed h &&
  (if String.eqb (h_name h) "CreateContainer" then adjusts_self h && existsb is_update_flush (h_flush h) else true).

(* ---- correspondence: replay the calls observed in one request ---- *)
(* returns (final state, containers flushed) *)
Fixpoint replay (live : gset nat) (s : fst) (ks : list call) (fl : list nat) : fst * list nat :=
  match ks with
  | [] => (s, fl)
  | k :: ks' => replay live (fstep live s k) ks' (match k with CFlush c => c :: fl | _ => fl end)
  end.

Record fobs := { fo_pending : list nat; fo_updated : list nat }.
Inductive fmismatch := FMPending (i : nat) | FMUpdated (i : nat).

Fixpoint fcheck (s : fst) (i : nat) (tr : list (list nat * list call * fobs)) : option fmismatch :=
  match tr with
  | [] => None
  | (live, ks, o) :: tr' =>
    let '(s', fl) := replay (list_to_set live) s ks [] in
    if negb (bool_decide (pend s' = list_to_set (fo_pending o))) then Some (FMPending i)
    else if negb (bool_decide ((list_to_set fl : gset nat) = list_to_set (fo_updated o))) then Some (FMUpdated i)
    else fcheck s' (S i) tr'
  end.
