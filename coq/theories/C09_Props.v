(* C09 -- no leaks: releasing everything restores the pristine state.  Property theorems only.
   The policy-level statements are corollaries of the C01/C02/C03 invariants; the memory
   allocator's part (no request left after releasing all) is C06's release theorem. *)
From Coq Require Import ZArith List.
From stdpp Require Import gmap sets.
From NV Require Import TA_Model TA_Proofs TA_Capacity Bln_Model Bln_Proofs.
Open Scope Z_scope.

(* topology-aware: after ANY history (allocations, failed allocations, releases, reinstated
   grants, resets) that ends with no grant left, every pool's free isolated and shared sets are
   its full supply again and both ledgers are zero *)
Theorem C09_ta_quiescent_is_pristine : forall t os s, tree_wfb t = true -> run t (init t) os = Ok s -> grants s = ∅ ->
  forall q, free_iso s q = p_iso (pool_at t q) /\ free_shar s q = p_shar (pool_at t q) /\ gr_shared s q = 0 /\ gr_reserved s q = 0.
Proof.
  intros t os s Hwf Hrun He q.
  destruct (TA_Proofs.quiescent_free t os s (tree_wfb_sound t Hwf) Hrun q He) as [H1 H2].
  destruct (reachable_ledger t os (init t) s (LInv_init t) Hrun q) as [H3 H4].
  rewrite He, ledger_empty in H3, H4. auto.
Qed.
Print Assumptions C09_ta_quiescent_is_pristine.

(* releasing a container removes its grant and nothing else refers to it *)
Theorem C09_ta_release_forgets : forall t s cid, grants (ta_release t s cid) !! cid = None.
Proof.
  intros t s cid. unfold ta_release. destruct (grants s !! cid) as [g|] eqn:Hg; [|exact Hg].
  destruct (g_type g); cbn [grants set_grants add_shared add_reserved account_release]; apply lookup_delete.
Qed.
Print Assumptions C09_ta_release_forgets.

(* balloons: after any history that ends with every balloon deleted all available CPUs are idle *)
Theorem C09_balloons_quiescent_all_idle : forall al iso os s, brun (binit al iso) os = BOk s -> blns s = ∅ -> freec s = allowed s.
Proof. intros al iso os s H. exact (Bln_Proofs.quiescent_free s (brun_preserves os _ s (BInv_init al iso) H)). Qed.
Print Assumptions C09_balloons_quiescent_all_idle.

(* a dismissed container is a member of no balloon *)
Theorem C09_balloons_dismiss_forgets : forall s c s', bstep s (BDismiss c) = BOk s' ->
  forall b x, blns s' !! b = Some x -> c ∉ b_members x.
Proof.
  intros s c s' H b x Hb. cbn [bstep] in H. injection H as <-. cbn [blns set_blns] in Hb.
  rewrite lookup_fmap in Hb. destruct (blns s !! b) as [y|]; [|discriminate]. injection Hb as <-. cbn. set_solver.
Qed.
Print Assumptions C09_balloons_dismiss_forgets.
