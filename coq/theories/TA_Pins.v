(* C01, "occur in no other container's allowed CPU set as told to the runtime": the runtime-side
   pins.  [told_cpus] says what a GRANTED container is told; the runtime keeps the last cpuset it
   was told for every container that is still running.  A re-allocation that fails -- at
   Synchronize or during a configuration update, when the listing or the new configuration asks for
   more than fits -- releases the container's grant without telling it anything: the container
   keeps running on its old cpuset.  (UpdateContainer used to do the same; that path was repaired:
   a refused update now restores the previous grant.) *)
From Coq Require Import ZArith List Lia.
From stdpp Require Import gmap sets.
From NV Require Import C20_Model TA_Model TA_Proofs.
Import ListNotations.

Inductive pop :=
| PStep (o : op)
| PLostGrant (cid : nat).     (* re-allocation failed: grant released, nothing told, the pin goes stale *)

Definition told_map (t : tree) (s : st) : gmap nat cset := told_cpus t s <$> grants s.

Definition pstep (t : tree) (sp : st * gmap nat cset) (o : pop) : res (st * gmap nat cset) :=
  let '(s, pins) := sp in
  match o with
  | PStep o' =>
    match step t s o' with
    | Ok s' =>
      let kept := match o' with ORelease cid => delete cid pins | OReset => ∅ | _ => pins end in
      Ok (s', told_map t s' ∪ kept)          (* every granted container is told its cpuset afresh *)
    | Err e => Err e
    end
  | PLostGrant cid => let s' := ta_release t s cid in Ok (s', told_map t s' ∪ pins)
  end.

Fixpoint prun (t : tree) (sp : st * gmap nat cset) (os : list pop) : res (st * gmap nat cset) :=
  match os with
  | [] => Ok sp
  | o :: os' => match pstep t sp o with Ok sp' => prun t sp' os' | Err e => Err e end
  end.

Definition is_step (o : pop) : bool := match o with PStep _ => true | PLostGrant _ => false end.
Definition unstep (o : pop) : op := match o with PStep o' => o' | PLostGrant c => ORelease c end.
