(* C01, "occur in no other container's allowed CPU set as told to the runtime": the runtime-side
   pins.  [told_cpus] says what a GRANTED container is told; the runtime keeps the last cpuset it
   was told for every container that is still running.  A re-allocation that fails -- at
   Synchronize or during a configuration update, when the listing or the new configuration asks for
   more than fits -- releases the container's grant without telling it anything: the container
   keeps running on its old cpuset.  (UpdateContainer used to do the same; that path was repaired:
   a refused update now restores the previous grant.) *)
From Coq Require Import ZArith List Lia.
From stdpp Require Import gmap sets.
From NV Require Import C20_Model TA_Model TA_Proofs.
Import ListNotations.

Inductive pop :=
| PStep (o : op)
| PLostGrant (cid : nat)      (* re-allocation failed: grant released, nothing told, the pin goes stale *)
| PLostGrantAt (cid : nat) (P : cset).
  (* the same inside a request that releases several containers (Synchronize): while the container still held its
     grant, releases of others may have widened its cpuset; the order of the releases (Go map order) is not
     observable, so the last cpuset it was told is an input -- it must contain the pin the container had when the
     request began and lie inside the CPUs of the pool the container was granted in.  The harness lists these
     operations first in a request and ends every request with a step, which re-tells all granted containers. *)

Definition told_map (t : tree) (s : st) : gmap nat cset := told_cpus t s <$> grants s.

Definition pstep (t : tree) (sp : st * gmap nat cset) (o : pop) : res (st * gmap nat cset) :=
  let '(s, pins) := sp in
  match o with
  | PStep o' =>
    match step t s o' with
    | Ok s' =>
      let kept := match o' with ORelease cid => delete cid pins | OReset => ∅ | _ => pins end in
      Ok (s', told_map t s' ∪ kept)          (* every granted container is told its cpuset afresh *)
    | Err e => Err e
    end
  | PLostGrant cid => let s' := ta_release t s cid in Ok (s', told_map t s' ∪ pins)
  | PLostGrantAt cid P =>
    match grants s !! cid, pins !! cid with
    | Some g, Some Q =>
      if bool_decide (Q ⊆ P) && bool_decide (P ⊆ p_cpus (pool_at t (g_pool g)))
      then Ok (ta_release t s cid, <[cid := P]> pins)      (* the others are told afresh by the next step of the request *)
      else Err (ErrGuard 10)
    | _, _ => Err (ErrGuard 11)
    end
  end.

Fixpoint prun (t : tree) (sp : st * gmap nat cset) (os : list pop) : res (st * gmap nat cset) :=
  match os with
  | [] => Ok sp
  | o :: os' => match pstep t sp o with Ok sp' => prun t sp' os' | Err e => Err e end
  end.

Definition is_step (o : pop) : bool := match o with PStep _ => true | _ => false end.
Definition unstep (o : pop) : op := match o with PStep o' => o' | PLostGrant c | PLostGrantAt c _ => ORelease c end.

(* ---- correspondence: replay the operation groups of a trace and compare the pins of the listed
   containers (granted ones and those that lost their grant but are still running) with the cpusets the
   implementation's cache holds for them ---- *)
Definition pins_ok (pins : gmap nat cset) (obs : list (nat * list nat)) : bool :=
  forallb (fun x => bool_decide (pins !! (fst x) = Some (list_to_set (snd x)))) obs.

Fixpoint pcheck (t : tree) (sp : st * gmap nat cset) (i : nat) (tr : list (list pop * list (nat * list nat))) : option nat :=
  match tr with
  | [] => None
  | (os, ob) :: tr' =>
    match prun t sp os with
    | Err _ => Some i
    | Ok sp' => if pins_ok (snd sp') ob then pcheck t sp' (S i) tr' else Some i
    end
  end.

Fixpoint pcheck_segments (i : nat) (segs : list (tree * list (list pop * list (nat * list nat)))) : option (nat * nat) :=
  match segs with
  | [] => None
  | (t, tr) :: segs' =>
    match pcheck t (init t, ∅) 0 tr with
    | Some k => Some (i, k)
    | None => pcheck_segments (S i) segs'
    end
  end.
