(* C08 -- CPU allocator contract.  Property theorems only; each is closed by [exact] of a lemma
   from CpuAlloc_Proofs and followed by Print Assumptions.

   Quantification: every topology [t] satisfying the decidable predicate [topo_wf] (CPU ids
   distinct, packages pairwise disjoint, online thread-sibling sets equal-or-disjoint, clusters
   pairwise disjoint, cache groups pairwise disjoint -- evaluated by the kernel on every topology
   the check runs), every order record [o] whose six order functions return a permutation of
   their argument (so: whatever the comparators and the sort algorithm do), every priority
   preference, every flag mask (any N, only bits 0-3 are read), every candidate set of online CPUs
   and every count. *)
From stdpp Require Import gmap sets fin_sets sorting.
From Coq Require Import ZArith.
From NV Require Import CpuAlloc_Model CpuAlloc_Proofs CpuAlloc_Determ.
Open Scope Z_scope.

(* clause 1: allocating n <= |set| CPUs returns exactly n CPUs taken from the set and removes
   exactly those from it *)
Theorem C08_alloc_contract : forall t o prefer, topo_wf t -> orders_ok o -> forall flags from cnt,
  from ⊆ online t -> 0 <= cnt <= sz from ->
  exists r lvl, allocate_cpus t o prefer flags from cnt = (Ok r, from ∖ r, lvl) /\ r ⊆ from /\ sz r = cnt.
Proof. exact alloc_contract. Qed.
Print Assumptions C08_alloc_contract.

(* clause 3: a request for more CPUs than the set holds fails and leaves the set unchanged
   (for every topology, well-formed or not, and every order) *)
Theorem C08_alloc_too_many : forall t o prefer flags from cnt,
  sz from < cnt -> allocate_cpus t o prefer flags from cnt = (Err, from, 0%N).
Proof. exact alloc_too_many. Qed.
Print Assumptions C08_alloc_too_many.

Theorem C08_alloc_all : forall t o prefer flags from,
  allocate_cpus t o prefer flags from (sz from) = (Ok from, ∅, 0%N).
Proof. exact alloc_all. Qed.
Print Assumptions C08_alloc_all.

(* clause 2: ReleaseCpus(set, n), n <= |set|, splits the set into exactly n released CPUs and the
   others.  As implemented (ReleaseCpus = allocateCpus(from, |from|-n)), the n released CPUs are
   what is left in *from and the returned set holds the CPUs that stay. *)
Theorem C08_release_contract : forall t o prefer, topo_wf t -> orders_ok o -> forall flags from n,
  from ⊆ online t -> 0 <= n <= sz from ->
  exists kept rel lvl, release_cpus t o prefer flags from n = (Ok kept, rel, lvl) /\
    rel ⊆ from /\ sz rel = n /\ kept = from ∖ rel /\ sz kept = sz from - n.
Proof. exact release_contract. Qed.
Print Assumptions C08_release_contract.

(* the instance used in the correspondence check (modelled Go comparators + insertion sort) is
   covered by the theorems above *)
Theorem C08_go_orders_ok : forall t prefer, orders_ok (go_orders t prefer).
Proof. exact go_orders_ok. Qed.
Print Assumptions C08_go_orders_ok.

(* the restriction of the candidate set to online CPUs is necessary: with offline CPUs in the set
   the allocator can answer success with an empty result after removing CPUs from the set
   (reproduced on the implementation: AllocateCpus(&{2,3,7}, 2) with CPUs 3,7 offline returns
   (empty, nil) and leaves {3,7}; the check runs cases of this shape, tag ood-offline, against the
   implementation and compares them with the model, outside the oracle) *)
Theorem C08_alloc_offline_refuted :
  exists t o p flags from cnt, topo_wf t /\ orders_ok o /\ 0 <= cnt <= sz from /\
    allocate_cpus t o p flags from cnt = (Ok ∅, {[1%N; 2%N]}, 0%N) /\ cnt = 2 /\ from = {[0%N; 1%N; 2%N]}.
Proof. exact alloc_offline_refuted. Qed.
Print Assumptions C08_alloc_offline_refuted.

(* the hypotheses of the contract theorems are satisfiable *)
Theorem C08_hypotheses_satisfiable :
  exists t o from cnt, topo_wf t /\ orders_ok o /\ from ⊆ online t /\ 0 < cnt <= sz from.
Proof. exact hyps_satisfiable. Qed.
Print Assumptions C08_hypotheses_satisfiable.

(* determinism, part 1: the comparator of takeIdlePackages and takeIdleCores (cmpCPUSet with
   cpuCnt = -1, then id) is a strict total order on keys with distinct ids -- for every topology
   (any per-priority sizes) and preference: its sorted permutation is unique *)
Theorem C08_pkg_core_order_total : forall p,
  (forall a, set_less p a a = false) /\
  (forall a b c, set_less p a b = true -> set_less p b c = true -> set_less p a c = true) /\
  (forall a b, a.2 <> b.2 -> set_less p a b = true \/ set_less p b a = true) /\
  (forall a b, set_less p a b = true -> set_less p b a = false).
Proof.
  exact (fun p => conj (set_less_irrefl p) (conj (set_less_trans p) (conj (set_less_total p) (set_less_asym p)))).
Qed.
Print Assumptions C08_pkg_core_order_total.

(* determinism, part 2 (per sort call): if the boolean check [forcedb] passes on a candidate
   list (the check the correspondence evaluates at every sort of every case), every permutation
   in which no element is less than its predecessor -- the result of any correct sorting
   algorithm -- equals it.  The thread/cluster/cache-group comparators can tie or be
   non-transitive; for them this is a per-input check. *)
Theorem C08_sorted_perm_unique : forall (A : Type) (less : A -> A -> bool) l1 l2,
  forcedb less l1 = true -> l2 ≡ₚ l1 -> Sorted (fun a b => less b a = false) l2 -> l2 = l1.
Proof. exact @sorted_perm_unique. Qed.
Print Assumptions C08_sorted_perm_unique.

(* determinism, part 3 (whole call): if every sort of a run of the model is forced (level 0 --
   computed by the kernel for every case of the correspondence and reported in the evidence), then
   every order record whose functions return permutations that are sorted for the Go comparators
   on forced inputs -- i.e. any correct sorting algorithm -- yields the same outcome and the same
   remaining set.  "_partial": for runs that contain an unforced sort (ties / non-transitive
   comparator) determinism rests on Go's sort being a deterministic algorithm on a deterministic
   input order; that is validated (each case run twice on fresh allocators), not proved. *)
Theorem C08_alloc_deterministic_forced_partial : forall t p o2 flags from cnt,
  valid_sorter t p o2 ->
  (allocate_cpus t (go_orders t p) p flags from cnt).2 = 0%N ->
  (allocate_cpus t o2 p flags from cnt).1 = (allocate_cpus t (go_orders t p) p flags from cnt).1.
Proof. exact alloc_deterministic_forced. Qed.
Print Assumptions C08_alloc_deterministic_forced_partial.

(* its hypothesis on the order record is satisfiable (by the modelled orders themselves) *)
Theorem C08_valid_sorter_satisfiable : forall t p, valid_sorter t p (go_orders t p).
Proof. exact go_valid_sorter. Qed.
Print Assumptions C08_valid_sorter_satisfiable.
