(* C08 -- property theorems only (placeholder while the proofs are being written) *)
From NV Require Import CpuAlloc_Model CpuAlloc_Proofs.
