(* C11: classification of cached and runtime-listed pods/containers at Synchronize
   (pkg/resmgr/nri.go syncWithNRI; pkg/resmgr/cache RefreshPods / RefreshContainers).
   Model only. *)
From Coq Require Import List Bool.
From stdpp Require Import gmap sets.
Import ListNotations.

Inductive cstate := Creating | Created | Running | Exited | Stale | Other.
Definition cstate_eqb (a b : cstate) : bool :=
  match a, b with Creating, Creating | Created, Created | Running, Running | Exited, Exited | Stale, Stale | Other, Other => true | _, _ => false end.
Definition is_live (s : cstate) : bool := match s with Created | Running => true | _ => false end.

(* cache: container id -> (pod id, state); pods: set of pod ids *)
Record ccache := { c_pods : gset nat; c_ctrs : gmap nat (nat * cstate) }.
(* runtime listing *)
Record listing := { l_pods : list nat; l_ctrs : list (nat * (nat * cstate)) }.

(* RefreshPods: unknown listed pods are inserted, unlisted pods purged together with their containers *)
Definition refresh_pods (c : ccache) (l : listing) : ccache * gset nat (* stale containers *) :=
  let valid : gset nat := list_to_set (l_pods l) in
  let stale := filter (fun kv => fst (snd kv) ∉ valid) (c_ctrs c) in
  ({| c_pods := valid; c_ctrs := filter (fun kv => fst (snd kv) ∈ valid) (c_ctrs c) |}, dom stale).

(* RefreshContainers: listed unknown containers are inserted (only if their pod is known), the state
   of known ones is refreshed from the listing, unlisted ones are purged.  (For a listing with
   duplicate container ids the first entry wins here; the runtime never sends one.) *)
Definition refresh_entry (c : ccache) (kv : nat * (nat * cstate)) : option (nat * (nat * cstate)) :=
  match c_ctrs c !! fst kv with
  | Some (p0, _) => Some (fst kv, (p0, snd (snd kv)))
  | None => if bool_decide (fst (snd kv) ∈ c_pods c) then Some kv else None
  end.
Definition refresh_ctrs (c : ccache) (l : listing) : ccache * gset nat :=
  let m2 : gmap nat (nat * cstate) := list_to_map (omap (refresh_entry c) (l_ctrs l)) in
  ({| c_pods := c_pods c; c_ctrs := m2 |}, dom (c_ctrs c) ∖ dom m2).

(* syncWithNRI: what the policy is asked to allocate and to release *)
Definition sync (c : ccache) (l : listing) : ccache * gset nat (* allocated *) * gset nat (* released *) :=
  let '(c1, stale1) := refresh_pods c l in
  let '(c2, stale2) := refresh_ctrs c1 l in
  let live := dom (filter (fun kv => is_live (snd (snd kv)) = true) (c_ctrs c2)) in
  let exited := dom (filter (fun kv => cstate_eqb (snd (snd kv)) Exited = true) (c_ctrs c2)) in
  (c2, live, stale1 ∪ stale2 ∪ live ∪ exited).

(* ---- correspondence ---- *)
Record sync_obs := { so_cached : list (nat * cstate); so_allocated : list nat }.
Definition sync_case_ok (x : list nat * list (nat * (nat * cstate)) * list nat * list (nat * (nat * cstate)) * sync_obs) : bool :=
  let '(cpods, cctrs, lpods, lctrs, o) := x in
  let '(c2, alloc, _) := sync {| c_pods := list_to_set cpods; c_ctrs := list_to_map cctrs |} {| l_pods := lpods; l_ctrs := lctrs |} in
  bool_decide (dom (c_ctrs c2) = list_to_set (map fst (so_cached o)))
  && forallb (fun kv => match c_ctrs c2 !! fst kv with Some (_, s) => cstate_eqb s (snd kv) | None => false end) (so_cached o)
  && bool_decide (alloc = list_to_set (so_allocated o)).
