(* C18: lemmas.  The property theorems proper are restated in C18_Props.v. *)
From Coq Require Import Ascii NArith.
From stdpp Require Import strings gmap.
From NV Require Import C18_Model.
Local Open Scope list_scope.

(* ------------------------------------------------------------------ strings *)

Lemma strip_prefix_spec p x r : strip_prefix p x = Some r <-> x = p ++ r.
Proof.
  revert x. induction p as [|a p IH]; intros x; cbn.
  - split; [intros [= ->]; reflexivity | intros ->; reflexivity].
  - destruct x as [|b x]; [split; discriminate|].
    destruct (decide (a = b)) as [->|Hne].
    + rewrite IH. split; [intros ->; reflexivity | intros [= ->]; reflexivity].
    + split; [discriminate | intros [= -> _]; contradiction].
Qed.

Lemma cut_suffix_spec x suf r : cut_suffix x suf = Some r <-> x = r ++ suf.
Proof.
  unfold cut_suffix. split.
  - intros H. destruct (strip_prefix (rev suf) (rev x)) as [y|] eqn:E; [|discriminate].
    cbn in H. injection H as <-. apply strip_prefix_spec in E.
    rewrite <- (rev_involutive x), E, rev_app_distr, rev_involutive. reflexivity.
  - intros ->. rewrite rev_app_distr.
    assert (strip_prefix (rev suf) (rev suf ++ rev r) = Some (rev r)) as -> by (now apply strip_prefix_spec).
    cbn. now rewrite rev_involutive.
Qed.

Lemma cut_suffix_app p suf : cut_suffix (p ++ suf) suf = Some p.
Proof. now apply cut_suffix_spec. Qed.

Lemma cut_suffix_None x suf : cut_suffix x suf = None <-> forall r, x <> r ++ suf.
Proof.
  split.
  - intros H r Hr. apply cut_suffix_spec in Hr. congruence.
  - intros H. destruct (cut_suffix x suf) as [r|] eqn:E; [|reflexivity].
    apply cut_suffix_spec in E. now apply H in E.
Qed.

(* splitting at the last occurrence of a separator *)
Lemma split_first_sep {A} (a : A) c d x y :
  a ∉ c -> a ∉ d -> c ++ a :: x = d ++ a :: y -> c = d /\ x = y.
Proof.
  revert d. induction c as [|b c IH]; intros d Hc Hd H.
  - destruct d as [|b d]; cbn in H.
    + injection H as ->. auto.
    + injection H as <- _. exfalso. apply Hd. left.
  - destruct d as [|b' d]; cbn in H.
    + injection H as -> _. exfalso. apply Hc. left.
    + injection H as -> H. apply IH in H as [-> ->]; auto.
      * intros ?. apply Hc. now right.
      * intros ?. apply Hd. now right.
Qed.

Lemma split_last_sep {A} (a : A) c d x y :
  a ∉ c -> a ∉ d -> x ++ a :: c = y ++ a :: d -> c = d /\ x = y.
Proof.
  intros Hc Hd H. apply (f_equal (@rev A)) in H.
  rewrite !rev_app_distr in H. cbn in H. rewrite <- !app_assoc in H. cbn in H.
  apply split_first_sep in H as [H1 H2].
  - apply (f_equal (@rev A)) in H1, H2. rewrite !rev_involutive in H1, H2. auto.
  - rewrite elem_of_list_In, <- in_rev, <- elem_of_list_In. exact Hc.
  - rewrite elem_of_list_In, <- in_rev, <- elem_of_list_In. exact Hd.
Qed.

(* if x ++ a :: d ends with S, then either S is a suffix of d or a occurs in S *)
Lemma suffix_through_sep {A} (a : A) (S d x r : list A) :
  x ++ a :: d = r ++ S -> S `suffix_of` d \/ a ∈ S.
Proof.
  revert x r d. induction S as [|b S IH] using rev_ind; intros x r d H.
  - left. exists d. now rewrite app_nil_r.
  - destruct d as [|e d _] using rev_ind.
    + rewrite app_assoc in H. apply app_inj_tail in H as [_ ->].
      right. apply elem_of_app. right. left.
    + rewrite app_comm_cons, !app_assoc in H. apply app_inj_tail in H as [H ->].
      apply IH in H as [[z ->]|H].
      * left. exists z. now rewrite app_assoc.
      * right. apply elem_of_app. now left.
Qed.

(* ------------------------------------------------------------------ association lists *)

Lemma alookup_Some l k v : NoDup l.*1 -> alookup l k = Some v <-> (k, v) ∈ l.
Proof.
  induction l as [|[k' v'] l IH]; cbn; intros Hnd.
  - split; [discriminate | intros H; inversion H].
  - apply NoDup_cons in Hnd as [Hk Hnd]. destruct (decide (k = k')) as [->|Hne].
    + split.
      * intros [= ->]. left.
      * intros H. apply elem_of_cons in H as [[= ->]|H]; [reflexivity|].
        exfalso. apply Hk. apply elem_of_list_fmap. exists (k', v). auto.
    + rewrite IH by assumption. split.
      * intros H. now right.
      * intros H. apply elem_of_cons in H as [[= -> ->]|H]; [contradiction|assumption].
Qed.

Lemma alookup_None l k : alookup l k = None <-> k ∉ l.*1.
Proof.
  induction l as [|[k' v'] l IH]; cbn.
  - split; [intros _ H; inversion H | reflexivity].
  - destruct (decide (k = k')) as [->|Hne].
    + split; [discriminate | intros H; exfalso; apply H; left].
    + rewrite IH. split.
      * intros H H'. apply elem_of_cons in H' as [?|?]; contradiction.
      * intros H H'. apply H. now right.
Qed.

Lemma alookup_perm l l' k : NoDup l.*1 -> l ≡ₚ l' -> alookup l k = alookup l' k.
Proof.
  intros Hnd Hp.
  assert (NoDup l'.*1) as Hnd' by (now rewrite <- Hp).
  destruct (alookup l k) as [v|] eqn:E.
  - symmetry. apply alookup_Some; [assumption|]. rewrite <- Hp. now apply alookup_Some.
  - symmetry. apply alookup_None. rewrite <- Hp. now apply alookup_None.
Qed.

(* ------------------------------------------------------------------ folds over a Go map *)

Lemma fold_left_perm {A B} (f : A -> B * B -> A) (key : B * B -> B) (l l' : list (B * B)) :
  (forall a x y, key x <> key y -> f (f a x) y = f (f a y) x) ->
  NoDup (key <$> l) -> l ≡ₚ l' -> forall a, fold_left f l a = fold_left f l' a.
Proof.
  intros Hc Hnd Hp. induction Hp as [|x l l' Hp IH|x y l|l l' l'' Hp1 IH1 Hp2 IH2]; intros a.
  - reflexivity.
  - cbn. apply IH. cbn in Hnd. now apply NoDup_cons in Hnd as [_ ?].
  - cbn. f_equal. apply Hc. cbn in Hnd. apply NoDup_cons in Hnd as [Hy _].
    intros E. apply Hy. rewrite E. left.
  - rewrite IH1 by assumption. apply IH2. now rewrite <- Hp1.
Qed.

(* ------------------------------------------------------------------ cache / sgx-epc: eff3 *)

Lemma eff3_perm l l' key c : NoDup l.*1 -> l ≡ₚ l' -> eff3 l key c = eff3 l' key c.
Proof. intros Hnd Hp. unfold eff3. now rewrite !(alookup_perm l l' _ Hnd Hp). Qed.

Lemma eff3_precedence l key c :
  NoDup l.*1 ->
  (forall v, (key_container key c, v) ∈ l -> eff3 l key c = Some v) /\
  (key_container key c ∉ l.*1 -> forall v, (key_pod key, v) ∈ l -> eff3 l key c = Some v) /\
  (key_container key c ∉ l.*1 -> key_pod key ∉ l.*1 -> eff3 l key c = alookup l key).
Proof.
  intros Hnd. unfold eff3. repeat split.
  - intros v Hv. apply alookup_Some in Hv; [|assumption]. now rewrite Hv.
  - intros Hc v Hv. apply alookup_None in Hc. apply alookup_Some in Hv; [|assumption]. now rewrite Hc, Hv.
  - intros Hc Hp. apply alookup_None in Hc, Hp. now rewrite Hc, Hp.
Qed.

Lemma key_container_inj key c d : key_container key c = key_container key d -> c = d.
Proof. unfold key_container. intros H. now apply app_inv_head, app_inv_head in H. Qed.
Lemma key_container_not_pod key d : key_container key d <> key_pod key.
Proof. unfold key_container, key_pod. intros H. apply app_inv_head in H. discriminate. Qed.
Lemma key_container_not_bare key d : key_container key d <> key.
Proof.
  unfold key_container. intros H. apply (f_equal (@List.length ascii)) in H.
  rewrite !app_length in H. cbn in H. lia.
Qed.

(* two annotation maps that agree on every key except the container-specific forms addressed
   to OTHER containers resolve equally for c *)
Lemma eff3_others_irrelevant l l' key c :
  (forall k, (forall d, d <> c -> k <> key_container key d) -> alookup l k = alookup l' k) ->
  eff3 l key c = eff3 l' key c.
Proof.
  intros H. unfold eff3. rewrite !H; [reflexivity|..].
  - intros d _ E. symmetry in E. now apply key_container_not_bare in E.
  - intros d _ E. symmetry in E. now apply key_container_not_pod in E.
  - intros d Hd E. apply key_container_inj in E. congruence.
Qed.

Lemma parse_epc_perm l l' c : NoDup l.*1 -> l ≡ₚ l' -> parse_epc_limit l c = parse_epc_limit l' c.
Proof. intros Hnd Hp. unfold parse_epc_limit. now rewrite (eff3_perm l l' _ _ Hnd Hp). Qed.

(* ------------------------------------------------------------------ effectiveAnnotations *)

Lemma lookup_assoc_keep (m : amap) k v i :
  assoc_keep m k v !! i = if decide (i = k) then Some (default v (m !! k)) else m !! i.
Proof.
  unfold assoc_keep. destruct (m !! k) as [x|] eqn:E; destruct (decide (i = k)) as [->|Hne]; cbn.
  - exact E.
  - reflexivity.
  - apply lookup_insert.
  - apply lookup_insert_ne. congruence.
Qed.

Lemma lookup_insert_dec (m : amap) k v i :
  <[k := v]> m !! i = if decide (i = k) then Some v else m !! i.
Proof.
  destruct (decide (i = k)) as [->|Hne]; [apply lookup_insert | apply lookup_insert_ne; congruence].
Qed.

Ltac map_cases :=
  apply map_eq; intros ?i;
  repeat (rewrite ?lookup_assoc_keep, ?lookup_insert_dec; cbn [default];
          repeat case_decide; subst; try congruence; try reflexivity).

Inductive kclass := KCtr (p : str) | KPod (p : str) | KIgnore.
Definition classify (suffix ctr k : str) : kclass :=
  match cut_suffix k (suffix ++ slash :: ctr) with
  | Some p => KCtr p
  | None => match cut_suffix k suffix with Some p => KPod p | None => KIgnore end
  end.
Lemma eff_step_classify suffix ctr acc kv :
  eff_step suffix ctr acc kv =
  match classify suffix ctr kv.1 with
  | KCtr p => <[p := kv.2]> acc | KPod p => assoc_keep acc p kv.2 | KIgnore => acc
  end.
Proof.
  unfold eff_step, classify. destruct (cut_suffix kv.1 (suffix ++ slash :: ctr)); [reflexivity|].
  destruct (cut_suffix kv.1 suffix); reflexivity.
Qed.

Lemma classify_KCtr suffix ctr k p : classify suffix ctr k = KCtr p -> k = p ++ suffix ++ slash :: ctr.
Proof.
  unfold classify. destruct (cut_suffix k (suffix ++ slash :: ctr)) eqn:E.
  - intros [= <-]. now apply cut_suffix_spec in E.
  - destruct (cut_suffix k suffix); discriminate.
Qed.
Lemma classify_KPod suffix ctr k p : classify suffix ctr k = KPod p -> k = p ++ suffix.
Proof.
  unfold classify. destruct (cut_suffix k (suffix ++ slash :: ctr)); [discriminate|].
  destruct (cut_suffix k suffix) eqn:E; [|discriminate]. intros [= <-]. now apply cut_suffix_spec in E.
Qed.

Lemma eff_step_comm suffix ctr acc x y :
  x.1 <> y.1 -> eff_step suffix ctr (eff_step suffix ctr acc x) y = eff_step suffix ctr (eff_step suffix ctr acc y) x.
Proof.
  intros Hne. rewrite !eff_step_classify.
  destruct (classify suffix ctr x.1) as [p|p|] eqn:Ex; destruct (classify suffix ctr y.1) as [q|q|] eqn:Ey;
    try reflexivity.
  - assert (p <> q) by (intros ->; apply classify_KCtr in Ex, Ey; congruence). map_cases.
  - map_cases.
  - map_cases.
  - assert (p <> q) by (intros ->; apply classify_KPod in Ex, Ey; congruence). map_cases.
Qed.

Lemma effective_annotations_perm suffix ctr l l' :
  NoDup l.*1 -> l ≡ₚ l' -> effective_annotations suffix ctr l = effective_annotations suffix ctr l'.
Proof.
  intros Hnd Hp. unfold effective_annotations.
  apply (fold_left_perm (eff_step suffix ctr) fst); auto.
  intros a x y. apply eff_step_comm.
Qed.

(* precedence: under the side condition that a pod-level key is never mistaken for a
   container-level one, the value found for parameter p is the container-specific annotation
   if present, otherwise the pod-wide one *)
Definition own_ok (suffix ctr : str) : Prop := slash ∉ suffix /\ ~ suffix `suffix_of` ctr.

Lemma own_ok_pod_key suffix ctr p : own_ok suffix ctr -> cut_suffix (p ++ suffix) (suffix ++ slash :: ctr) = None.
Proof.
  intros [Hs Hc]. apply cut_suffix_None. intros r H.
  rewrite app_assoc in H. symmetry in H. apply suffix_through_sep in H as [H|H]; contradiction.
Qed.

Lemma classify_ctr_key suffix ctr p : classify suffix ctr (p ++ suffix ++ slash :: ctr) = KCtr p.
Proof. unfold classify. now rewrite cut_suffix_app. Qed.
Lemma classify_pod_key suffix ctr p : own_ok suffix ctr -> classify suffix ctr (p ++ suffix) = KPod p.
Proof. intros H. unfold classify. now rewrite own_ok_pod_key, cut_suffix_app. Qed.

Lemma effective_annotations_snoc suffix ctr l kv :
  effective_annotations suffix ctr (l ++ [kv]) = eff_step suffix ctr (effective_annotations suffix ctr l) kv.
Proof. unfold effective_annotations. now rewrite fold_left_app. Qed.

Lemma effective_annotations_lookup suffix ctr l p :
  own_ok suffix ctr -> NoDup l.*1 ->
  effective_annotations suffix ctr l !! p =
  match alookup l (p ++ suffix ++ slash :: ctr) with
  | Some v => Some v
  | None => alookup l (p ++ suffix)
  end.
Proof.
  intros Hok. induction l as [|[k v] l IH] using rev_ind; intros Hnd; [reflexivity|].
  rewrite fmap_app in Hnd. apply NoDup_app in Hnd as (Hnd & Hk & _). specialize (IH Hnd).
  assert (forall k', alookup (l ++ [(k, v)]) k' =
                     match alookup l k' with Some x => Some x | None => if decide (k' = k) then Some v else None end) as Hl.
  { intros k'. clear. induction l as [|[a b] l IHl]; cbn; [reflexivity|]. destruct (decide (k' = a)); auto. }
  assert (alookup l k = None) as Hfresh.
  { apply alookup_None. intros Hx. apply (Hk k); [assumption|left]. }
  rewrite effective_annotations_snoc, eff_step_classify, !Hl. cbn [fst snd].
  destruct (classify suffix ctr k) as [q|q|] eqn:Ec.
  - pose proof (classify_KCtr _ _ _ _ Ec) as ->. rewrite lookup_insert_dec.
    destruct (decide (p = q)) as [->|Hne].
    + rewrite decide_True by reflexivity.
      destruct (alookup l (q ++ suffix ++ slash :: ctr)) eqn:E; [congruence|reflexivity].
    + rewrite IH. rewrite decide_False by (intros E; apply app_inv_tail in E; congruence).
      destruct (alookup l (p ++ suffix ++ slash :: ctr)); [reflexivity|].
      destruct (alookup l (p ++ suffix)); [reflexivity|].
      rewrite decide_False; [reflexivity|].
      intros E. pose proof (classify_pod_key suffix ctr p Hok) as Hp. rewrite E, classify_ctr_key in Hp. discriminate.
  - pose proof (classify_KPod _ _ _ _ Ec) as ->. rewrite lookup_assoc_keep.
    destruct (decide (p = q)) as [->|Hne].
    + rewrite IH. rewrite (decide_True (P := q ++ suffix = q ++ suffix)) by reflexivity.
      destruct (alookup l (q ++ suffix ++ slash :: ctr)) eqn:E1; [reflexivity|].
      destruct (alookup l (q ++ suffix)) eqn:E2; [congruence|].
      rewrite decide_False; [reflexivity|].
      intros E. rewrite <- E, classify_ctr_key in Ec. discriminate.
    + rewrite IH. rewrite (decide_False (P := p ++ suffix = q ++ suffix)) by (intros E; apply app_inv_tail in E; congruence).
      destruct (alookup l (p ++ suffix ++ slash :: ctr)); [reflexivity|].
      rewrite decide_False; [now destruct (alookup l (p ++ suffix))|].
      intros E. rewrite <- E, classify_ctr_key in Ec. discriminate.
  - rewrite IH.
    rewrite decide_False by (intros E; rewrite <- E, classify_ctr_key in Ec; discriminate).
    destruct (alookup l (p ++ suffix ++ slash :: ctr)); [reflexivity|].
    rewrite decide_False; [now destruct (alookup l (p ++ suffix))|].
    intros E. rewrite <- E, (classify_pod_key _ _ _ Hok) in Ec. discriminate.
Qed.

(* annotations addressed to other containers *)
Definition name_ok (suffix d : str) : Prop := slash ∉ d /\ ~ suffix `suffix_of` d.

Lemma other_container_ignored suffix c d p :
  slash ∉ suffix -> slash ∉ c -> name_ok suffix d -> d <> c ->
  classify suffix c (p ++ suffix ++ slash :: d) = KIgnore.
Proof.
  intros Hs Hc [Hd Hd'] Hne. unfold classify.
  assert (cut_suffix (p ++ suffix ++ slash :: d) (suffix ++ slash :: c) = None) as ->.
  { apply cut_suffix_None. intros r H. rewrite !app_assoc in H.
    apply split_last_sep in H as [H _]; auto. }
  assert (cut_suffix (p ++ suffix ++ slash :: d) suffix = None) as ->; [|reflexivity].
  apply cut_suffix_None. intros r H. rewrite app_assoc in H.
  apply suffix_through_sep in H as [H|H]; contradiction.
Qed.

Lemma effective_annotations_drop suffix c l1 l2 kv :
  classify suffix c kv.1 = KIgnore ->
  effective_annotations suffix c (l1 ++ kv :: l2) = effective_annotations suffix c (l1 ++ l2).
Proof.
  intros H. unfold effective_annotations. rewrite !fold_left_app. cbn [fold_left].
  now rewrite eff_step_classify, H.
Qed.

(* ------------------------------------------------------------------ CreateContainer loops *)

Lemma k_high_swap : k_high <> k_swap. Proof. discriminate. Qed.
Lemma k_class_high : k_class <> k_high. Proof. discriminate. Qed.
Lemma k_class_swap : k_class <> k_swap. Proof. discriminate. Qed.

(* what one loop iteration does to the unified map: fail, or apply a function *)
Definition mq_action (cfg : mq_config) (kv : str * str) : option (amap -> amap) :=
  if decide (kv.1 = k_class) then
    match find_class (mq_classes cfg) kv.2 with
    | None => None
    | Some MqNoLimit => None
    | Some MqNone => Some (fun u => u)
    | Some (MqAdjust h) => Some (fun u => assoc_keep (assoc_keep u k_high h) k_swap v_max)
    end
  else if decide (kv.1 ∈ mq_unified cfg) then Some (fun u => <[kv.1 := kv.2]> u)
  else None.

Lemma mq_step_action cfg st kv :
  mq_step cfg st kv =
  match st with
  | CErr => CErr
  | COk u => match mq_action cfg kv with Some f => COk (f u) | None => CErr end
  end.
Proof.
  unfold mq_step, mq_action. destruct st as [|u]; [reflexivity|].
  destruct (decide (kv.1 = k_class)).
  - destruct (find_class (mq_classes cfg) kv.2) as [[]|]; reflexivity.
  - destruct (decide (kv.1 ∈ mq_unified cfg)); reflexivity.
Qed.

Lemma mq_step_comm cfg st x y :
  x.1 <> y.1 -> mq_step cfg (mq_step cfg st x) y = mq_step cfg (mq_step cfg st y) x.
Proof.
  intros Hne. rewrite !mq_step_action. destruct st as [|u]; [reflexivity|].
  pose proof k_high_swap. pose proof k_class_high. pose proof k_class_swap.
  unfold mq_action.
  destruct (decide (x.1 = k_class)) as [Hx|Hx]; destruct (decide (y.1 = k_class)) as [Hy|Hy];
    try congruence.
  - destruct (find_class (mq_classes cfg) x.2) as [[|h|]|];
      destruct (decide (y.1 ∈ mq_unified cfg)); try reflexivity.
    f_equal. map_cases.
  - destruct (find_class (mq_classes cfg) y.2) as [[|h|]|];
      destruct (decide (x.1 ∈ mq_unified cfg)); try reflexivity.
    f_equal. map_cases.
  - destruct (decide (x.1 ∈ mq_unified cfg)); destruct (decide (y.1 ∈ mq_unified cfg)); try reflexivity.
    f_equal. map_cases.
Qed.

Lemma mq_fold_perm cfg ord ord' : NoDup ord.*1 -> ord ≡ₚ ord' -> mq_fold cfg ord = mq_fold cfg ord'.
Proof.
  intros Hnd Hp. unfold mq_fold. apply (fold_left_perm (mq_step cfg) fst); auto.
  intros a x y. apply mq_step_comm.
Qed.

Definition mt_action (cfg : mt_config) (kv : str * str) : option (amap -> amap) :=
  if decide (kv.1 = k_swap) then Some (fun u => <[k_swap := kv.2]> u)
  else if decide (kv.1 = k_high) then Some (fun u => <[k_high := kv.2]> u)
  else if decide (kv.1 = k_class) then
    if decide (kv.2 = []) then Some (fun u => u) else
    match cfg with
    | None => None
    | Some cls =>
        match find_class cls kv.2 with
        | None => None
        | Some None => Some (fun u => u)
        | Some (Some true) => Some (fun u => assoc_keep u k_swap v_max)
        | Some (Some false) => Some (fun u => assoc_keep u k_swap v_zero)
        end
    end
  else Some (fun u => u).

Lemma mt_step_action cfg st kv :
  mt_step cfg st kv =
  match st with
  | CErr => CErr
  | COk u => match mt_action cfg kv with Some f => COk (f u) | None => CErr end
  end.
Proof.
  unfold mt_step, mt_action. destruct st as [|u]; [reflexivity|].
  repeat (case_decide; try reflexivity).
  destruct cfg as [cls|]; [|reflexivity].
  destruct (find_class cls kv.2) as [[[]|]|]; reflexivity.
Qed.

Lemma mt_step_comm cfg st x y :
  x.1 <> y.1 -> mt_step cfg (mt_step cfg st x) y = mt_step cfg (mt_step cfg st y) x.
Proof.
  intros Hne. rewrite !mt_step_action. destruct st as [|u]; [reflexivity|].
  pose proof k_high_swap. pose proof k_class_high. pose proof k_class_swap.
  unfold mt_action.
  repeat (case_decide; try congruence; try reflexivity);
    repeat match goal with
           | c : mt_config |- _ => destruct c
           | |- context [find_class ?c ?n] => destruct (find_class c n) as [[[]|]|]
           end; try reflexivity; f_equal; map_cases.
Qed.

Lemma mt_fold_perm cfg ord ord' : NoDup ord.*1 -> ord ≡ₚ ord' -> mt_fold cfg ord = mt_fold cfg ord'.
Proof.
  intros Hnd Hp. unfold mt_fold. apply (fold_left_perm (mt_step cfg) fst); auto.
  intros a x y. apply mt_step_comm.
Qed.

(* the whole CreateContainer: neither the order in which the annotation map is visited nor
   the order in which effAnn is visited matters *)
Lemma mq_order_independent cfg c l l' ord ord' :
  NoDup l.*1 -> l ≡ₚ l' ->
  ord ≡ₚ map_to_list (effective_annotations mq_suffix c l) ->
  ord' ≡ₚ map_to_list (effective_annotations mq_suffix c l') ->
  mq_fold cfg ord = mq_fold cfg ord'.
Proof.
  intros Hnd Hp H1 H2. rewrite <- (effective_annotations_perm _ _ l l' Hnd Hp) in H2.
  apply mq_fold_perm.
  - rewrite H1. apply NoDup_fst_map_to_list.
  - now rewrite H1, H2.
Qed.

Lemma mt_order_independent cfg c l l' ord ord' :
  NoDup l.*1 -> l ≡ₚ l' ->
  ord ≡ₚ map_to_list (effective_annotations mt_suffix c l) ->
  ord' ≡ₚ map_to_list (effective_annotations mt_suffix c l') ->
  mt_fold cfg ord = mt_fold cfg ord'.
Proof.
  intros Hnd Hp H1 H2. rewrite <- (effective_annotations_perm _ _ l l' Hnd Hp) in H2.
  apply mt_fold_perm.
  - rewrite H1. apply NoDup_fst_map_to_list.
  - now rewrite H1, H2.
Qed.

(* ------------------------------------------------------------------ explicit beats class *)

(* generic: an invariant of a fold over a list, given per-element preservation *)
Lemma fold_left_snoc_ind {A B} (f : A -> B -> A) (P : list B -> A -> Prop) a :
  P [] a -> (forall done x a, P done a -> P (done ++ [x]) (f a x)) -> forall l, P l (fold_left f l a).
Proof.
  intros H0 Hs l. induction l as [|x l IH] using rev_ind; [exact H0|].
  rewrite fold_left_app. cbn. now apply Hs.
Qed.

(* memory-qos: after a successful CreateContainer every effective non-class annotation is in
   the unified map with its own value, whatever the class put there *)
Lemma mq_explicit_wins cfg : forall ord,
  NoDup ord.*1 -> forall u, mq_fold cfg ord = COk u ->
  forall k v, (k, v) ∈ ord -> k <> k_class -> u !! k = Some v.
Proof.
  unfold mq_fold.
  apply (fold_left_snoc_ind (mq_step cfg)
           (fun done st => NoDup done.*1 -> forall u, st = COk u -> forall k v, (k, v) ∈ done -> k <> k_class -> u !! k = Some v)).
  - intros _ u _ k v H. inversion H.
  - intros done x st IH Hnd u Hu k v Hin Hk.
    rewrite fmap_app in Hnd. apply NoDup_app in Hnd as (Hnd & Hfresh & _).
    rewrite mq_step_action in Hu. destruct st as [|u0]; [discriminate|].
    destruct (mq_action cfg x) as [f|] eqn:Ea; [|discriminate]. injection Hu as <-.
    specialize (IH Hnd u0 eq_refl).
    apply elem_of_app in Hin as [Hin|Hin].
    + assert (k <> x.1) as Hkx.
      { intros ->. apply (Hfresh x.1); [|left]. apply elem_of_list_fmap. exists (x.1, v). auto. }
      specialize (IH k v Hin Hk). unfold mq_action in Ea.
      destruct (decide (x.1 = k_class)).
      * destruct (find_class (mq_classes cfg) x.2) as [[|h|]|]; try discriminate; injection Ea as <-; [exact IH|].
        pose proof k_high_swap.
        rewrite !lookup_assoc_keep. repeat case_decide; subst; rewrite ?IH; cbn [default]; try reflexivity; try congruence.
      * destruct (decide (x.1 ∈ mq_unified cfg)); [|discriminate]. injection Ea as <-.
        cbv beta. rewrite lookup_insert_dec, decide_False by congruence. exact IH.
    + apply elem_of_list_singleton in Hin. subst x. cbn [fst snd] in *. unfold mq_action in Ea. cbn [fst snd] in Ea.
      rewrite decide_False in Ea by assumption.
      destruct (decide (k ∈ mq_unified cfg)); [|discriminate]. injection Ea as <-. cbv beta. apply lookup_insert.
Qed.

Lemma lookup_empty_amap i : (∅ : amap) !! i = None.
Proof. apply lookup_empty. Qed.

Lemma alookup_snoc l k v k' :
  alookup (l ++ [(k, v)]) k' =
  match alookup l k' with Some x => Some x | None => if decide (k' = k) then Some v else None end.
Proof. induction l as [|[a b] l IHl]; cbn; [reflexivity|]. destruct (decide (k' = a)); auto. Qed.

Ltac fin :=
  repeat (case_decide; subst; try congruence);
  repeat match goal with
         | |- context [alookup ?l ?k] => destruct (alookup l k)
         end; try reflexivity; try congruence.

(* complete description of the unified map of a successful memory-qos CreateContainer *)
Definition mq_derived (cfg : mq_config) (cls : option str) (i : str) : option str :=
  match cls with
  | Some c => match find_class (mq_classes cfg) c with
              | Some (MqAdjust h) => if decide (i = k_high) then Some h
                                     else if decide (i = k_swap) then Some v_max else None
              | _ => None
              end
  | None => None
  end.
Definition mq_spec (cfg : mq_config) (ord : annots) (i : str) : option str :=
  match (if decide (i = k_class) then None else alookup ord i) with
  | Some v => Some v
  | None => mq_derived cfg (alookup ord k_class) i
  end.

Lemma mq_fold_spec cfg : forall ord,
  NoDup ord.*1 -> forall u, mq_fold cfg ord = COk u -> forall i, u !! i = mq_spec cfg ord i.
Proof.
  unfold mq_fold.
  apply (fold_left_snoc_ind (mq_step cfg)
           (fun done st => NoDup done.*1 -> forall u, st = COk u -> forall i, u !! i = mq_spec cfg done i)).
  - intros _ u Hu i. injection Hu as Hu. subst u. rewrite lookup_empty_amap. unfold mq_spec, mq_derived. cbn [alookup]. case_decide; reflexivity.
  - intros done [k v] st IH Hnd u Hu i.
    rewrite fmap_app in Hnd. apply NoDup_app in Hnd as (Hnd & Hfresh & _).
    assert (alookup done k = None) as Hk.
    { apply alookup_None. intros Hx. apply (Hfresh k); [assumption|left]. }
    rewrite mq_step_action in Hu. destruct st as [|u0]; [discriminate|].
    destruct (mq_action cfg (k, v)) as [f|] eqn:Ea; [|discriminate]. injection Hu as <-.
    specialize (IH Hnd u0 eq_refl).
    pose proof k_high_swap. pose proof k_class_high. pose proof k_class_swap.
    unfold mq_action in Ea. cbn [fst snd] in Ea. unfold mq_spec in *. rewrite !alookup_snoc.
    destruct (decide (k = k_class)) as [->|Hkc].
    + rewrite Hk. rewrite (decide_True (P := k_class = k_class)) by reflexivity.
      pose proof (IH k_high) as IHh. pose proof (IH k_swap) as IHs. specialize (IH i).
      rewrite Hk in IH, IHh, IHs. cbn [mq_derived] in IH, IHh, IHs.
      rewrite decide_False in IHh by congruence. rewrite decide_False in IHs by congruence.
      unfold mq_derived.
      destruct (find_class (mq_classes cfg) v) as [[|h|]|]; try discriminate; injection Ea as <-.
      * rewrite IH. fin.
      * cbv beta. rewrite !lookup_assoc_keep.
        repeat (case_decide; subst; try congruence); rewrite ?IHh, ?IHs, ?IH; cbn [default]; fin.
    + destruct (decide (k ∈ mq_unified cfg)); [|discriminate]. injection Ea as <-. cbv beta.
      rewrite lookup_insert_dec. specialize (IH i).
      rewrite (decide_False (P := k_class = k)) by congruence.
      destruct (decide (i = k)) as [->|Hik].
      * rewrite decide_False by assumption. now rewrite Hk.
      * rewrite IH. destruct (decide (i = k_class)); [now destruct (alookup done k_class)|].
        destruct (alookup done i); [reflexivity|]. now destruct (alookup done k_class).
Qed.

(* memtierd *)
Definition mt_derived (cfg : mt_config) (cls : option str) : option str :=
  match cls, cfg with
  | Some c, Some classes =>
      if decide (c = []) then None else
      match find_class classes c with
      | Some (Some true) => Some v_max
      | Some (Some false) => Some v_zero
      | _ => None
      end
  | _, _ => None
  end.
Definition mt_spec (cfg : mt_config) (ord : annots) (i : str) : option str :=
  if decide (i = k_swap) then
    match alookup ord k_swap with Some v => Some v | None => mt_derived cfg (alookup ord k_class) end
  else if decide (i = k_high) then alookup ord k_high
  else None.

Lemma mt_fold_spec cfg : forall ord,
  NoDup ord.*1 -> forall u, mt_fold cfg ord = COk u -> forall i, u !! i = mt_spec cfg ord i.
Proof.
  unfold mt_fold.
  apply (fold_left_snoc_ind (mt_step cfg)
           (fun done st => NoDup done.*1 -> forall u, st = COk u -> forall i, u !! i = mt_spec cfg done i)).
  - intros _ u Hu i. injection Hu as Hu. subst u. rewrite lookup_empty_amap. unfold mt_spec, mt_derived. cbn [alookup]. repeat case_decide; reflexivity.
  - intros done [k v] st IH Hnd u Hu i.
    rewrite fmap_app in Hnd. apply NoDup_app in Hnd as (Hnd & Hfresh & _).
    assert (alookup done k = None) as Hk.
    { apply alookup_None. intros Hx. apply (Hfresh k); [assumption|left]. }
    rewrite mt_step_action in Hu. destruct st as [|u0]; [discriminate|].
    destruct (mt_action cfg (k, v)) as [f|] eqn:Ea; [|discriminate]. injection Hu as <-.
    specialize (IH Hnd u0 eq_refl).
    pose proof k_high_swap. pose proof k_class_high. pose proof k_class_swap.
    unfold mt_action in Ea. cbn [fst snd] in Ea. unfold mt_spec, mt_derived in *. rewrite !alookup_snoc.
    pose proof (IH k_swap) as IHs. pose proof (IH k_high) as IHh. specialize (IH i).
    repeat (case_decide; subst; try congruence);
      try (destruct cfg as [classes|]);
      try (match type of Ea with context [find_class ?c ?n] => destruct (find_class c n) as [[[]|]|] eqn:Efc end);
      try discriminate; injection Ea as <-; cbv beta;
      rewrite ?lookup_insert_dec, ?lookup_assoc_keep; repeat (case_decide; subst; try congruence);
      rewrite ?Hk in *; rewrite ?IHs, ?IHh, ?IH; cbn [default]; rewrite ?Efc; fin.
Qed.

(* ------------------------------------------------------------------ corollaries, instances *)

Definition epc_of (v : str) : epc_res := match parse_uint64 v with Some n => EpcOk n | None => EpcErr end.

Lemma epc_precedence l c :
  NoDup l.*1 ->
  (forall v, (key_container epc_key c, v) ∈ l -> parse_epc_limit l c = epc_of v) /\
  (key_container epc_key c ∉ l.*1 -> forall v, (key_pod epc_key, v) ∈ l -> parse_epc_limit l c = epc_of v) /\
  (key_container epc_key c ∉ l.*1 -> key_pod epc_key ∉ l.*1 ->
   parse_epc_limit l c = match alookup l epc_key with Some v => epc_of v | None => EpcOk 0 end).
Proof.
  intros Hnd. destruct (eff3_precedence l epc_key c Hnd) as (H1 & H2 & H3). unfold parse_epc_limit, epc_of.
  repeat split.
  - intros v Hv. now rewrite (H1 v Hv).
  - intros Hc v Hv. now rewrite (H2 Hc v Hv).
  - intros Hc Hp. now rewrite (H3 Hc Hp).
Qed.

Lemma epc_others_irrelevant l l' c :
  (forall k, (forall d, d <> c -> k <> key_container epc_key d) -> alookup l k = alookup l' k) ->
  parse_epc_limit l c = parse_epc_limit l' c.
Proof. intros H. unfold parse_epc_limit. now rewrite (eff3_others_irrelevant l l' epc_key c H). Qed.

Lemma plugin_others_irrelevant suffix c d p v l1 l2 :
  slash ∉ suffix -> slash ∉ c -> name_ok suffix d -> d <> c ->
  effective_annotations suffix c (l1 ++ (p ++ suffix ++ slash :: d, v) :: l2) =
  effective_annotations suffix c (l1 ++ l2).
Proof.
  intros Hs Hc Hd Hne. apply effective_annotations_drop. cbn [fst]. now apply other_container_ignored.
Qed.

Lemma mq_suffix_noslash : slash ∉ mq_suffix.
Proof. apply (bool_decide_unpack (slash ∉ mq_suffix)). vm_compute. exact I. Qed.
Lemma mt_suffix_noslash : slash ∉ mt_suffix.
Proof. apply (bool_decide_unpack (slash ∉ mt_suffix)). vm_compute. exact I. Qed.

Definition dot : ascii := "."%char.
(* Kubernetes container names are DNS labels: no '/', no '.' -- always inside the domain *)
Lemma dns_label_ok d : slash ∉ d -> dot ∉ d -> name_ok mq_suffix d /\ name_ok mt_suffix d.
Proof.
  intros Hs Hd. split; (split; [assumption|]); intros [z ->]; apply Hd, elem_of_app; right; left.
Qed.

Lemma mq_create_others_irrelevant cfg c d p v l1 l2 :
  slash ∉ c -> name_ok mq_suffix d -> d <> c ->
  mq_create cfg c (l1 ++ (p ++ mq_suffix ++ slash :: d, v) :: l2) = mq_create cfg c (l1 ++ l2).
Proof.
  intros Hc Hd Hne. unfold mq_create. now rewrite (plugin_others_irrelevant _ _ _ _ _ _ _ mq_suffix_noslash Hc Hd Hne).
Qed.
Lemma mt_create_others_irrelevant cfg c d p v l1 l2 :
  slash ∉ c -> name_ok mt_suffix d -> d <> c ->
  mt_create cfg c (l1 ++ (p ++ mt_suffix ++ slash :: d, v) :: l2) = mt_create cfg c (l1 ++ l2).
Proof.
  intros Hc Hd Hne. unfold mt_create. now rewrite (plugin_others_irrelevant _ _ _ _ _ _ _ mt_suffix_noslash Hc Hd Hne).
Qed.

Lemma mq_explicit_beats_class cfg ord u k v :
  NoDup ord.*1 -> mq_fold cfg ord = COk u -> (k, v) ∈ ord -> k <> k_class -> u !! k = Some v.
Proof. intros Hnd Hu. now apply (mq_explicit_wins cfg ord Hnd u Hu). Qed.

Lemma mt_explicit_beats_class cfg ord u v :
  NoDup ord.*1 -> mt_fold cfg ord = COk u -> (k_swap, v) ∈ ord -> u !! k_swap = Some v.
Proof.
  intros Hnd Hu Hin. rewrite (mt_fold_spec cfg ord Hnd u Hu). unfold mt_spec.
  rewrite decide_True by reflexivity. apply alookup_Some in Hin; [|assumption]. now rewrite Hin.
Qed.

(* outside the domain: a container whose name contains '/', or ends with the annotation
   suffix, makes memory-qos fail the creation of ANOTHER container of the pod *)
Definition w_cfg : mq_config := {| mq_unified := [k_high; k_swap]; mq_classes := [] |}.
Lemma mq_other_container_refuted_slash :
  exists c d p v, d <> c /\ slash ∉ c /\
    mq_create w_cfg c [(p ++ mq_suffix ++ slash :: d, v)] <> mq_create w_cfg c [].
Proof.
  exists (s "c"), (s "y.memory-qos.nri.io/c"), k_high, (s "1").
  split; [discriminate|]. split; [apply (bool_decide_unpack (slash ∉ _)); vm_compute; exact I|].
  vm_compute. discriminate.
Qed.
Lemma mq_other_container_refuted_suffix_name :
  exists c d p v, d <> c /\ slash ∉ c /\ slash ∉ d /\
    mq_create w_cfg c [(p ++ mq_suffix ++ slash :: d, v)] <> mq_create w_cfg c [].
Proof.
  exists (s "c"), (s "x.memory-qos.nri.io"), k_high, (s "1").
  split; [discriminate|]. split; [apply (bool_decide_unpack (slash ∉ _)); vm_compute; exact I|].
  split; [apply (bool_decide_unpack (slash ∉ _)); vm_compute; exact I|].
  vm_compute. discriminate.
Qed.

(* the hypotheses are satisfiable, on names that are prefixes/suffixes of each other *)
Lemma ex_names_ok :
  own_ok mq_suffix (s "app") /\ name_ok mq_suffix (s "app-1") /\ name_ok mq_suffix (s "1.app") /\
  name_ok mt_suffix (s "memtierd.nri.io") /\ own_ok mt_suffix (s "pp").
Proof.
  assert (forall suffix d, bool_decide (slash ∉ suffix) = true -> bool_decide (slash ∉ d) = true ->
            (List.length d < List.length suffix)%nat -> own_ok suffix d /\ name_ok suffix d) as H.
  { intros suffix d H1 H2 Hlen. apply bool_decide_eq_true in H1, H2.
    assert (~ suffix `suffix_of` d) as Hn.
    { intros [z ->]. rewrite app_length in Hlen. lia. }
    repeat split; assumption. }
  refine (conj (proj1 (H _ _ _ _ _)) (conj (proj2 (H _ _ _ _ _)) (conj (proj2 (H _ _ _ _ _))
           (conj (proj2 (H _ _ _ _ _)) (proj1 (H _ _ _ _ _))))));
    vm_compute; (reflexivity || lia).
Qed.
