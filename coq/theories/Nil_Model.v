(* C14: lookup / nil-safety skeleton of the resource manager's NRI handlers (pkg/resmgr/nri.go,
   cache InsertContainer / LookupPod / LookupContainer).  Every lookup whose result the code
   dereferences is explicit; a dereference of a failed lookup is [Panic].  Model only. *)
From Coq Require Import List Bool.
From stdpp Require Import gmap sets.
Import ListNotations.

Inductive outcome := MustOk | MustErr | PolicyDecides | Panic.

Record nst := { n_pods : gset nat; n_ctrs : gmap nat nat (* container -> pod *) }.
Definition n0 : nst := {| n_pods := ∅; n_ctrs := ∅ |}.

Inductive nev :=
| NRunPod (p : nat)
| NStopPod (p : nat)
| NRemovePod (p : nat)
| NCreate (c p : nat)
| NStart (c : nat)
| NUpdate (c : nat) (has_res : bool)      (* resources message present? *)
| NStop (c : nat)
| NRemove (c : nat)
| NSync (pods : list nat) (ctrs : list (nat * nat))
| NReconfigure.

(* the handlers as they are now: every lookup result is checked before use *)
Definition nstep (s : nst) (e : nev) : outcome * nst :=
  match e with
  | NRunPod p => (MustOk, {| n_pods := n_pods s ∪ {[p]}; n_ctrs := n_ctrs s |})
  | NStopPod p => (MustOk, s)                                  (* unknown pod: nothing to do *)
  | NRemovePod p => (MustOk, {| n_pods := n_pods s ∖ {[p]}; n_ctrs := n_ctrs s |})
  | NCreate c p =>
    if bool_decide (p ∈ n_pods s)
    then (PolicyDecides, {| n_pods := n_pods s; n_ctrs := <[c := p]> (n_ctrs s) |})   (* cached even if the policy refuses (state stale) *)
    else (MustErr, s)                                          (* InsertContainer fails: pod unknown *)
  | NStart c => (MustOk, s)
  | NUpdate c _ => match n_ctrs s !! c with None => (MustOk, s) | Some _ => (PolicyDecides, s) end
  | NStop c => (MustOk, s)
  | NRemove c => (MustOk, {| n_pods := n_pods s; n_ctrs := delete c (n_ctrs s) |})
  | NSync pods ctrs =>
    let ps : gset nat := list_to_set pods in
    (* containers whose pod is not listed cannot be inserted: skipped with an error message *)
    (PolicyDecides, {| n_pods := ps; n_ctrs := list_to_map (List.filter (fun kv => bool_decide (snd kv ∈ ps)) ctrs) |})
  | NReconfigure => (PolicyDecides, s)
  end.

Definition is_panic (o : outcome) : bool := match o with Panic => true | _ => false end.

(* observed reply classes *)
Inductive oclass := OOk | OErr | OPanic.
Definition class_ok (o : outcome) (c : oclass) : bool :=
  match o, c with
  | MustOk, OOk | MustErr, OErr | PolicyDecides, OOk | PolicyDecides, OErr => true
  | _, _ => false
  end.

Fixpoint ncheck (s : nst) (i : nat) (tr : list (nev * oclass)) : option nat :=
  match tr with
  | [] => None
  | (e, c) :: tr' => let '(o, s') := nstep s e in if class_ok o c then ncheck s' (S i) tr' else Some i
  end.
