(* C01 -- topology-aware: exclusively granted CPUs are exclusive to one container.
   Property theorems only.  Quantified over every pool tree [t] passing the decidable
   well-formedness check [tree_wfb] (evaluated on the tree of every real trace; the trees the
   policy builds satisfy it by C16; it excludes a reserved cpuset that is itself isolated),
   every history [os] of allocate / release / reinstate / reset operations and every choice of
   pool and CPUs that the model's transcription of the code's checks accepts. *)
From Coq Require Import ZArith List.
From stdpp Require Import gmap sets.
From NV Require Import TA_Model TA_Proofs.

(* exclusive CPU sets of different containers are pairwise disjoint *)
Theorem C01_exclusive_pairwise_disjoint : forall t os s, tree_wfb t = true -> run t (init t) os = Ok s ->
  forall c1 c2 g1 g2, c1 <> c2 -> grants s !! c1 = Some g1 -> grants s !! c2 = Some g2 ->
  g_excl g1 ## g_excl g2.
Proof. intros t os s Hwf Hrun. exact (excl_pairwise_disjoint t os s (tree_wfb_sound t Hwf) Hrun). Qed.
Print Assumptions C01_exclusive_pairwise_disjoint.

(* exclusive CPUs occur in no pool's shared (or free isolated) CPU set *)
Theorem C01_exclusive_not_in_any_shared_set : forall t os s, tree_wfb t = true -> run t (init t) os = Ok s ->
  forall c g q, grants s !! c = Some g -> g_excl g ## free_shar s q /\ g_excl g ## free_iso s q.
Proof. intros t os s Hwf Hrun. exact (excl_not_in_free t os s (tree_wfb_sound t Hwf) Hrun). Qed.
Print Assumptions C01_exclusive_not_in_any_shared_set.

(* ... and in no other granted container's allowed CPU set *)
Theorem C01_exclusive_not_in_others_cpuset : forall t os s, tree_wfb t = true -> run t (init t) os = Ok s ->
  forall c1 c2 g1 g2, c1 <> c2 -> grants s !! c1 = Some g1 -> grants s !! c2 = Some g2 ->
  g_excl g1 ## told_cpus t s g2.
Proof. intros t os s Hwf Hrun. exact (excl_not_in_others_told t os s (tree_wfb_sound t Hwf) Hrun). Qed.
Print Assumptions C01_exclusive_not_in_others_cpuset.

(* every granted container is pinned inside the CPUs of its pool (hence inside the available CPUs) *)
Theorem C01_pinned_within_pool : forall t os s, tree_wfb t = true -> run t (init t) os = Ok s ->
  forall c g, grants s !! c = Some g -> told_cpus t s g ⊆ p_cpus (pool_at t (g_pool g)).
Proof. intros t os s Hwf Hrun. exact (told_within_pool t os s (tree_wfb_sound t Hwf) Hrun). Qed.
Print Assumptions C01_pinned_within_pool.

(* reserved CPUs go to reserved-class grants only, and are never mixed with other CPUs *)
Theorem C01_reserved_separation : forall t os s, tree_wfb t = true -> run t (init t) os = Ok s ->
  forall c g q, grants s !! c = Some g ->
  match g_type g with
  | CpuReserved => told_cpus t s g ⊆ p_res (pool_at t (g_pool g))
  | _ => told_cpus t s g ## p_res (pool_at t q)
  end.
Proof. intros t os s Hwf Hrun. exact (reserved_separation t os s (tree_wfb_sound t Hwf) Hrun). Qed.
Print Assumptions C01_reserved_separation.

(* ---- "as told to the runtime": the runtime keeps the last cpuset it was told for every running
   container, granted or not (TA_Pins.v).  As long as no re-allocation fails, these pins are
   exactly what the granted containers are told, so no exclusive CPU occurs in another pin ... *)
From NV Require Import TA_Pins TA_PinsProofs.
Theorem C01_exclusive_not_in_runtime_pins_partial : forall t os s pins, tree_wfb t = true ->
  forallb is_step os = true -> prun t (init t, ∅) os = Ok (s, pins) ->
  forall c1 c2 g1 P, c1 <> c2 -> grants s !! c1 = Some g1 -> pins !! c2 = Some P -> g_excl g1 ## P.
Proof. intros t os s pins Hwf. exact (pins_disjoint_from_exclusive t os s pins (tree_wfb_sound t Hwf)). Qed.
Print Assumptions C01_exclusive_not_in_runtime_pins_partial.

(* ... and with a failed re-allocation (Synchronize / configuration update asking for more than fits) the
   statement is false of the faithful model (known finding K3): the container loses its grant, keeps
   running on its old cpuset, and a later exclusive grant overlaps it.  Observed on the implementation
   after Synchronize; the UpdateContainer path of the same defect was repaired. *)
Theorem C01_exclusive_not_in_runtime_pins_refuted :
  tree_wfb k3_tree = true /\
  match prun k3_tree (init k3_tree, ∅) k3_ops with
  | Ok (s, pins) =>
      match grants s !! 2%nat, pins !! 1%nat with
      | Some g2, Some P1 => bool_decide (g_excl g2 ∩ P1 = list_to_set [1%nat]) = true
      | _, _ => False end
  | Err _ => False end.
Proof. exact stale_pin_refuted. Qed.
Print Assumptions C01_exclusive_not_in_runtime_pins_refuted.

(* ... the UpdateContainer path of K3 is repaired: a refused update gives the container back the allocation it had.
   For every reachable state and every grant of the normal class in it, releasing the grant and restoring it
   (supply.Restore, what UpdateResources does when the new allocation fails) succeeds and yields exactly the state
   before: the container never runs without a grant because of a refused update.  (tree_nestedb: the sharable and
   isolated sets of a pool lie inside those of the pools above it; evaluated on every observed tree.) *)
From NV Require Import TA_Cap2 TA_Restore.
Theorem C01_refused_update_restores_allocation : forall t os s cid g,
  tree_wfb2 t = true -> tree_nestedb t = true -> forallb nonneg_reserve os = true -> run t (init t) os = Ok s ->
  grants s !! cid = Some g -> g_type g = CpuNormal -> (g_pool g < length t)%nat ->
  exists s', ta_restore t (ta_release t s cid) cid g = Ok s' /\ st_eq s' s.
Proof. exact restore_after_release_reachable. Qed.
Print Assumptions C01_refused_update_restores_allocation.

Theorem C01_refused_update_nonvacuous :
  tree_nestedb ex_tree = true /\ tree_wfb2 ex_tree = true /\
  match run ex_tree (init ex_tree) (firstn 3 ex_ops) with
  | Ok s => match grants s !! 1%nat with
            | Some g => match ta_restore ex_tree (ta_release ex_tree s 1) 1 g with
                        | Ok s' => bool_decide (free_shar s' 1%nat = free_shar s 1%nat) && bool_decide (free_shar s' 2%nat = free_shar s 2%nat) && Nat.eqb (size (grants s')) (size (grants s)) = true
                        | Err _ => False end
            | None => False end
  | Err _ => False end.
Proof. exact restore_nonvacuous. Qed.
Print Assumptions C01_refused_update_nonvacuous.
