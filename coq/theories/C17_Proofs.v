(* C17: lemmas.  The property theorems proper are restated in C17_Props.v. *)
From Coq Require Import NArith List Bool Lia.
From NV Require Import C17_Model.
Import ListNotations.
Open Scope N_scope.

(* ------------------------------------------------------------------ histories *)

Lemma run_from_app a es1 es2 :
  run_from a (es1 ++ es2) =
  (fst (run_from (fst (run_from a es1)) es2), snd (run_from a es1) ++ snd (run_from (fst (run_from a es1)) es2)).
Proof.
  revert a. induction es1 as [|e es1 IH]; intros a; cbn [run_from app fst snd].
  - destruct (run_from a es2); reflexivity.
  - destruct (step a e) as [a1 o1] eqn:E1. rewrite IH.
    destruct (run_from a1 es1) as [a2 o2]. cbn [fst snd].
    destruct (run_from a2 es2) as [a3 o3]. cbn [fst snd]. now rewrite app_assoc.
Qed.

Lemma state_snoc es e : state (es ++ [e]) = fst (step (state es) e).
Proof.
  unfold state, run. rewrite run_from_app. cbn [fst run_from].
  destruct (step _ e); reflexivity.
Qed.

Lemma acts_snoc es e : acts (es ++ [e]) = acts es ++ snd (step (state es) e).
Proof.
  unfold acts, state, run. rewrite run_from_app. cbn [fst snd run_from].
  destruct (step _ e); cbn [snd]. now rewrite app_nil_r.
Qed.

Lemma notified_of_app l1 l2 : notified_of (l1 ++ l2) = notified_of l1 ++ notified_of l2.
Proof. unfold notified_of. apply flat_map_app. Qed.

Lemma notified_snoc es e : notified (es ++ [e]) = notified es ++ notified_of (snd (step (state es) e)).
Proof. unfold notified. now rewrite acts_snoc, notified_of_app. Qed.

Lemma last_node_from_snoc d es e :
  last_node_from d (es ++ [e]) = match e with NodeEv c => c | GroupEv _ => last_node_from d es end.
Proof.
  revert d. induction es as [|x es IH]; intros d; cbn.
  - destruct e; reflexivity.
  - destruct x; apply IH.
Qed.

Lemma last_group_from_snoc d es e :
  last_group_from d (es ++ [e]) = match e with GroupEv c => c | NodeEv _ => last_group_from d es end.
Proof.
  revert d. induction es as [|x es IH]; intros d; cbn.
  - destruct e; reflexivity.
  - destruct x; apply IH.
Qed.

Lemma last_node_snoc es e :
  last_node (es ++ [e]) = match e with NodeEv c => c | GroupEv _ => last_node es end.
Proof. apply last_node_from_snoc. Qed.
Lemma last_group_snoc es e :
  last_group (es ++ [e]) = match e with GroupEv c => c | NodeEv _ => last_group es end.
Proof. apply last_group_from_snoc. Qed.

Lemma cfgs_of_app es1 es2 : cfgs_of (es1 ++ es2) = cfgs_of es1 ++ cfgs_of es2.
Proof. unfold cfgs_of. apply flat_map_app. Qed.

Lemma last_some_snoc (l : list cfg) c : last (map Some (l ++ [c])) None = Some c.
Proof. rewrite map_app. cbn. apply last_last. Qed.

Lemma last_notified_snoc_nil es e :
  notified_of (snd (step (state es) e)) = [] -> last_notified (es ++ [e]) = last_notified es.
Proof. intros H. unfold last_notified. now rewrite notified_snoc, H, app_nil_r. Qed.

Lemma last_notified_snoc_one es e c :
  notified_of (snd (step (state es) e)) = [c] -> last_notified (es ++ [e]) = Some c.
Proof. intros H. unfold last_notified. rewrite notified_snoc, H. apply last_some_snoc. Qed.

(* ------------------------------------------------------------------ single steps *)

Lemma notified_patch_status p c ok : notified_of (patch_status p c ok) = [].
Proof. unfold patch_status. destruct p as [p|]; [destruct (name p =? name c)|]; reflexivity. Qed.

Lemma update_config_spec a c :
  nodeC (fst (update_config a c)) = nodeC a /\
  groupC (fst (update_config a c)) = groupC a /\
  cur (fst (update_config a c)) = match c with Some _ => c | None => cur a end /\
  notified_of (snd (update_config a c)) = match c with Some x => if valid x then [x] else [] | None => [] end.
Proof.
  destruct c as [c|]; cbn [update_config]; [|now repeat split].
  destruct (valid c); cbn [fst snd nodeC groupC cur notified_of flat_map app];
    fold (notified_of (patch_status (cur a) c (accept c)));
    fold (notified_of (patch_status (cur a) c false));
    rewrite notified_patch_status; now repeat split.
Qed.

(* what a same-version verdict means *)
Lemma same_version_true c1 c2 :
  same_version c1 c2 = true ->
  (c1 = None /\ c2 = None) \/
  (exists a b, c1 = Some a /\ c2 = Some b /\ uid a = uid b /\ gen a = gen b /\ gen a <> 0).
Proof.
  destruct c1 as [a|], c2 as [b|]; cbn; try discriminate; [|now left].
  intros H. apply andb_prop in H as [H H3]. apply andb_prop in H as [H1 H2].
  right. exists a, b. repeat split; try now apply N.eqb_eq.
  apply negb_true_iff in H3. now apply N.eqb_neq.
Qed.

Lemma same_version_intro a b :
  uid a = uid b -> gen a = gen b -> gen a <> 0 -> same_version (Some a) (Some b) = true.
Proof.
  intros H1 H2 H3. cbn. rewrite H1, H2, !N.eqb_refl. cbn.
  apply negb_true_iff, N.eqb_neq. congruence.
Qed.

(* the effect of one event on the three fields and on the notifications *)
Lemma step_node_skip a c : same_version c (nodeC a) = true -> step a (NodeEv c) = (a, []).
Proof. intros H. cbn. now rewrite H. Qed.
Lemma step_group_skip a c : same_version c (groupC a) = true -> step a (GroupEv c) = (a, []).
Proof. intros H. cbn. now rewrite H. Qed.

Lemma step_node_spec a c :
  same_version c (nodeC a) = false ->
  let r := step a (NodeEv c) in
  let eff := match c with Some _ => c | None => groupC a end in
  nodeC (fst r) = c /\ groupC (fst r) = groupC a /\
  cur (fst r) = match eff with Some _ => eff | None => cur a end /\
  notified_of (snd r) = match eff with Some x => if valid x then [x] else [] | None => [] end.
Proof.
  intros H. cbn [step]. rewrite H. cbv zeta.
  pose proof (update_config_spec {| nodeC := c; groupC := groupC a; cur := cur a |}
                                 (match c with Some _ => c | None => groupC a end)) as (H1 & H2 & H3 & H4).
  cbn [nodeC groupC cur] in *. now repeat split.
Qed.

Lemma step_group_spec a c :
  same_version c (groupC a) = false ->
  let r := step a (GroupEv c) in
  nodeC (fst r) = nodeC a /\ groupC (fst r) = c /\
  match nodeC a with
  | Some _ => cur (fst r) = cur a /\ snd r = []
  | None => cur (fst r) = match c with Some _ => c | None => cur a end /\
            notified_of (snd r) = match c with Some x => if valid x then [x] else [] | None => [] end
  end.
Proof.
  intros H. cbn [step]. rewrite H. cbv zeta.
  destruct (nodeC a) as [n|] eqn:En.
  - cbn [fst snd nodeC groupC cur]. now repeat split.
  - pose proof (update_config_spec {| nodeC := None; groupC := c; cur := cur a |} c) as (H1 & H2 & H3 & H4).
    cbn [nodeC groupC cur] in *. now repeat split.
Qed.

(* ------------------------------------------------------------------ invariant 1: versions
   Without any assumption on the events, the stored node/group object has the uid and
   generation of the resource that currently exists according to the event stream. *)

Definition ver_eq (o1 o2 : option cfg) : Prop :=
  match o1, o2 with
  | None, None => True
  | Some a, Some b => uid a = uid b /\ gen a = gen b
  | _, _ => False
  end.

Lemma ver_eq_refl o : ver_eq o o.
Proof. destruct o; cbn; auto. Qed.

Lemma ver_eq_of_same c1 c2 : same_version c1 c2 = true -> ver_eq c2 c1.
Proof.
  intros H. apply same_version_true in H as [[-> ->]|(a & b & -> & -> & H1 & H2 & _)]; cbn; auto.
Qed.

Lemma versions_tracked es :
  ver_eq (nodeC (state es)) (last_node es) /\ ver_eq (groupC (state es)) (last_group es).
Proof.
  induction es as [|e es [IHn IHg]] using rev_ind; [cbn; auto|].
  rewrite state_snoc, last_node_snoc, last_group_snoc.
  destruct e as [c|c].
  - destruct (same_version c (nodeC (state es))) eqn:E.
    + rewrite (step_node_skip _ _ E). cbn [fst]. split; [now apply ver_eq_of_same|assumption].
    + pose proof (step_node_spec _ _ E) as (H1 & H2 & _). cbv zeta in *. rewrite H1, H2.
      split; [apply ver_eq_refl|assumption].
  - destruct (same_version c (groupC (state es))) eqn:E.
    + rewrite (step_group_skip _ _ E). cbn [fst]. split; [assumption|now apply ver_eq_of_same].
    + pose proof (step_group_spec _ _ E) as (H1 & H2 & _). cbv zeta in *. rewrite H1, H2.
      split; [assumption|apply ver_eq_refl].
Qed.

(* ------------------------------------------------------------------ invariant 2: precedence *)

(* resources with the same uid and (non-zero) generation are the same resource *)
Definition coherent (es : list ev) : Prop :=
  forall c1 c2, In c1 (cfgs_of es) -> In c2 (cfgs_of es) ->
                uid c1 = uid c2 -> gen c1 = gen c2 -> gen c1 <> 0 -> c1 = c2.

Lemma coherent_prefix es e : coherent (es ++ [e]) -> coherent es.
Proof.
  intros H c1 c2 H1 H2. apply H; rewrite cfgs_of_app; apply in_or_app; now left.
Qed.

Lemma last_node_in es c : last_node es = Some c -> In c (cfgs_of es).
Proof.
  induction es as [|e es IH] using rev_ind; [discriminate|].
  rewrite last_node_snoc, cfgs_of_app. intros H. apply in_or_app.
  destruct e as [x|x]; [right; subst x; cbn; auto | left; auto].
Qed.
Lemma last_group_in es c : last_group es = Some c -> In c (cfgs_of es).
Proof.
  induction es as [|e es IH] using rev_ind; [discriminate|].
  rewrite last_group_snoc, cfgs_of_app. intros H. apply in_or_app.
  destruct e as [x|x]; [left; auto | right; subst x; cbn; auto].
Qed.

Definition Inv (es : list ev) : Prop :=
  nodeC (state es) = last_node es /\
  groupC (state es) = last_group es /\
  forall c, effective es = Some c ->
            cur (state es) = Some c /\ (valid c = true -> last_notified es = Some c).

Lemma same_version_coherent es (c c' : option cfg) :
  coherent es ->
  (forall x, c = Some x -> In x (cfgs_of es)) -> (forall x, c' = Some x -> In x (cfgs_of es)) ->
  same_version c c' = true -> c = c'.
Proof.
  intros Hc H1 H2 H. apply same_version_true in H as [[-> ->]|(a & b & -> & -> & Hu & Hg & Hz)]; [reflexivity|].
  f_equal. apply Hc; auto.
Qed.

Lemma precedence_invariant es : coherent es -> Inv es.
Proof.
  induction es as [|e es IH] using rev_ind; intros Hc.
  { split; [reflexivity|]. split; [reflexivity|]. intros c H. discriminate. }
  specialize (IH (coherent_prefix _ _ Hc)). destruct IH as (IHn & IHg & IHe).
  unfold Inv, effective. rewrite state_snoc, last_node_snoc, last_group_snoc.
  assert (Hin : forall x, In x (cfgs_of es) -> In x (cfgs_of (es ++ [e]))).
  { intros x Hx. rewrite cfgs_of_app. apply in_or_app. now left. }
  destruct e as [c|c].
  - (* node event *)
    destruct (same_version c (nodeC (state es))) eqn:E.
    + assert (c = nodeC (state es)) as Heq.
      { apply (same_version_coherent (es ++ [NodeEv c])); auto.
        - intros x ->. rewrite cfgs_of_app. apply in_or_app. right. cbn. auto.
        - intros x Hx. apply Hin, last_node_in. congruence. }
      rewrite (last_notified_snoc_nil es (NodeEv c)) by (now rewrite (step_node_skip _ _ E)).
      rewrite (step_node_skip _ _ E). cbn [fst].
      rewrite Heq, IHn. split; [reflexivity|]. split; [assumption|].
      intros x Hx. apply IHe. exact Hx.
    + pose proof (step_node_spec _ _ E) as (H1 & H2 & H3 & H4). cbv zeta in *.
      rewrite H1, H2. split; [reflexivity|]. split; [assumption|].
      intros x Hx. rewrite H3.
      destruct c as [c|]; cbn [effective_of] in Hx.
      * injection Hx as ->. split; [reflexivity|].
        intros Hv. apply last_notified_snoc_one. now rewrite H4, Hv.
      * rewrite IHg, Hx in *. split; [reflexivity|].
        intros Hv. apply last_notified_snoc_one. now rewrite H4, Hv.
  - (* group event *)
    destruct (same_version c (groupC (state es))) eqn:E.
    + assert (c = groupC (state es)) as Heq.
      { apply (same_version_coherent (es ++ [GroupEv c])); auto.
        - intros x ->. rewrite cfgs_of_app. apply in_or_app. right. cbn. auto.
        - intros x Hx. apply Hin, last_group_in. congruence. }
      rewrite (last_notified_snoc_nil es (GroupEv c)) by (now rewrite (step_group_skip _ _ E)).
      rewrite (step_group_skip _ _ E). cbn [fst].
      rewrite Heq, IHg. split; [assumption|]. split; [reflexivity|].
      intros x Hx. apply IHe. exact Hx.
    + pose proof (step_group_spec _ _ E) as (H1 & H2 & H3). cbv zeta in *.
      rewrite H1, H2. split; [assumption|]. split; [reflexivity|].
      intros x Hx.
      rewrite IHn in H3. destruct (last_node es) as [n|] eqn:En; cbn [effective_of] in Hx.
      * destruct H3 as [H3 H3']. rewrite H3.
        rewrite (last_notified_snoc_nil es (GroupEv c)) by (now rewrite H3').
        apply IHe. unfold effective. now rewrite En.
      * destruct H3 as [H3 H3']. rewrite Hx in *. rewrite H3. split; [reflexivity|].
        intros Hv. apply last_notified_snoc_one. now rewrite H3', Hv.
Qed.

(* ------------------------------------------------------------------ the clauses *)

Lemma delivered_is_effective es c :
  coherent es -> effective es = Some c -> valid c = true -> last_notified es = Some c.
Proof. intros Hc He Hv. now apply (precedence_invariant es Hc). Qed.

Lemma current_is_effective es c :
  coherent es -> effective es = Some c -> cur (state es) = Some c.
Proof. intros Hc He. now apply (precedence_invariant es Hc). Qed.

Lemma state_tracks_streams es :
  coherent es -> nodeC (state es) = last_node es /\ groupC (state es) = last_group es.
Proof. intros Hc. destruct (precedence_invariant es Hc) as (H1 & H2 & _). auto. Qed.

(* a witness that the coherence hypothesis is needed: the same uid+generation delivered with
   different content (first failing validation, then passing) is taken for a duplicate *)
Definition bad1 := {| uid := 1; gen := 1; name := 0; valid := false; accept := true |}.
Definition bad2 := {| uid := 1; gen := 1; name := 0; valid := true; accept := true |}.
Lemma delivered_is_effective_refuted_incoherent :
  exists es c, effective es = Some c /\ valid c = true /\ last_notified es <> Some c.
Proof. exists [NodeEv (Some bad1); NodeEv (Some bad2)], bad2. repeat split. cbv. discriminate. Qed.

Lemma group_never_replaces_node es n g :
  last_node es = Some n ->
  acts (es ++ [GroupEv g]) = acts es /\
  nodeC (state (es ++ [GroupEv g])) = nodeC (state es) /\
  cur (state (es ++ [GroupEv g])) = cur (state es).
Proof.
  intros Hn. rewrite acts_snoc, state_snoc.
  destruct (versions_tracked es) as [Hv _]. rewrite Hn in Hv.
  destruct (nodeC (state es)) as [n'|] eqn:En; [|contradiction].
  destruct (same_version g (groupC (state es))) eqn:E.
  - rewrite (step_group_skip _ _ E). cbn [fst snd]. rewrite app_nil_r. auto.
  - pose proof (step_group_spec _ _ E) as (H1 & H2 & H3). cbv zeta in *. rewrite En in H3.
    destruct H3 as [H3 H4]. rewrite H4, app_nil_r, H1, H3. auto.
Qed.

Lemma delete_falls_back es n :
  coherent es -> last_node es = Some n ->
  notified (es ++ [NodeEv None]) =
    notified es ++ match last_group es with Some g => if valid g then [g] else [] | None => [] end.
Proof.
  intros Hc Hn. rewrite notified_snoc. f_equal.
  destruct (state_tracks_streams es Hc) as [H1 H2].
  assert (same_version None (nodeC (state es)) = false) as E by (rewrite H1, Hn; reflexivity).
  pose proof (step_node_spec _ _ E) as (_ & _ & _ & H4). cbv zeta in H4. now rewrite H2 in H4.
Qed.

Lemma redelivery_silent_node es c c' :
  last_node es = Some c -> uid c' = uid c -> gen c' = gen c -> gen c <> 0 ->
  step (state es) (NodeEv (Some c')) = (state es, []).
Proof.
  intros Hn Hu Hg Hz. apply step_node_skip.
  destruct (versions_tracked es) as [Hv _]. rewrite Hn in Hv.
  destruct (nodeC (state es)) as [x|]; [|contradiction]. destruct Hv as [Hv1 Hv2].
  apply same_version_intro; congruence.
Qed.

Lemma redelivery_silent_group es c c' :
  last_group es = Some c -> uid c' = uid c -> gen c' = gen c -> gen c <> 0 ->
  step (state es) (GroupEv (Some c')) = (state es, []).
Proof.
  intros Hn Hu Hg Hz. apply step_group_skip.
  destruct (versions_tracked es) as [_ Hv]. rewrite Hn in Hv.
  destruct (groupC (state es)) as [x|]; [|contradiction]. destruct Hv as [Hv1 Hv2].
  apply same_version_intro; congruence.
Qed.

Lemma redelivery_deletion_silent es :
  (last_node es = None -> step (state es) (NodeEv None) = (state es, [])) /\
  (last_group es = None -> step (state es) (GroupEv None) = (state es, [])).
Proof.
  destruct (versions_tracked es) as [Hn Hg]. split; intros H.
  - rewrite H in Hn. destruct (nodeC (state es)) eqn:E; [contradiction|]. apply step_node_skip. now rewrite E.
  - rewrite H in Hg. destruct (groupC (state es)) eqn:E; [contradiction|]. apply step_group_skip. now rewrite E.
Qed.

(* generation 0 (a configuration read from a file) is never taken for a duplicate *)
Lemma redelivery_gen0_renotifies es c :
  coherent (es ++ [NodeEv (Some c)]) -> last_node es = Some c -> gen c = 0 -> valid c = true ->
  notified (es ++ [NodeEv (Some c)]) = notified es ++ [c].
Proof.
  intros Hc Hn Hz Hv. rewrite notified_snoc. f_equal.
  assert (same_version (Some c) (nodeC (state es)) = false) as E.
  { destruct (nodeC (state es)) as [x|]; [|reflexivity]. cbn. rewrite Hz. cbn. now rewrite andb_false_r. }
  pose proof (step_node_spec _ _ E) as (_ & _ & _ & H4). cbv zeta in H4. now rewrite Hv in H4.
Qed.

(* every notification made by a step is the configuration that is effective after it,
   it is valid, and it was received in an event *)
Lemma step_notifies_only_effective a e c :
  In c (notified_of (snd (step a e))) ->
  valid c = true /\
  effective_of (nodeC (fst (step a e))) (groupC (fst (step a e))) = Some c /\
  cur (fst (step a e)) = Some c.
Proof.
  destruct e as [x|x].
  - destruct (same_version x (nodeC a)) eqn:E.
    + rewrite (step_node_skip _ _ E). intros [].
    + pose proof (step_node_spec _ _ E) as (H1 & H2 & H3 & H4). cbv zeta in *.
      rewrite H4, H1, H2, H3. destruct x as [x|]; cbn [effective_of].
      * destruct (valid x) eqn:Ev; [|intros []]. intros [<-|[]]. auto.
      * destruct (groupC a) as [g|]; [|intros []].
        destruct (valid g) eqn:Ev; [|intros []]. intros [<-|[]]. auto.
  - destruct (same_version x (groupC a)) eqn:E.
    + rewrite (step_group_skip _ _ E). intros [].
    + pose proof (step_group_spec _ _ E) as (H1 & H2 & H3). cbv zeta in *.
      rewrite H1, H2. destruct (nodeC a) as [n|].
      * destruct H3 as [_ H3]. rewrite H3. intros [].
      * destruct H3 as [H3 H4]. rewrite H4, H3. cbn [effective_of].
        destruct x as [x|]; [|intros []].
        destruct (valid x) eqn:Ev; [|intros []]. intros [<-|[]]. auto.
Qed.

Lemma invalid_never_notified es c : In c (notified es) -> valid c = true.
Proof.
  induction es as [|e es IH] using rev_ind; [intros []|].
  rewrite notified_snoc. intros H. apply in_app_or in H as [H|H]; [auto|].
  now apply step_notifies_only_effective in H.
Qed.

Lemma notified_was_effective es e c :
  coherent (es ++ [e]) -> In c (notified_of (snd (step (state es) e))) ->
  effective (es ++ [e]) = Some c /\ valid c = true.
Proof.
  intros Hc H. apply step_notifies_only_effective in H as (Hv & He & _).
  rewrite <- state_snoc in He. destruct (state_tracks_streams _ Hc) as [H1 H2].
  unfold effective. now rewrite <- H1, <- H2.
Qed.

(* the hypotheses are satisfiable / the statements are not vacuous *)
Definition ex_n := {| uid := 1; gen := 1; name := 0; valid := true; accept := true |}.
Definition ex_g := {| uid := 2; gen := 7; name := 1; valid := true; accept := true |}.
Definition ex_es := [GroupEv (Some ex_g); NodeEv (Some ex_n); GroupEv (Some ex_g); NodeEv None].
Lemma ex_coherent : coherent ex_es.
Proof.
  intros c1 c2 H1 H2. cbn in H1, H2.
  destruct H1 as [<-|[<-|[<-|[]]]], H2 as [<-|[<-|[<-|[]]]]; cbn; intros; try reflexivity; discriminate.
Qed.
