(* C01 / K3, UpdateContainer path: a refused update gives the container back the allocation it had.
   UpdateResources releases the grant, tries to allocate for the new resources and, when that fails, puts the old grant
   back with supply.Restore (Reserve without the test of what other pools need -- the state being restored was in
   effect a moment ago).  Proved here: for a grant of the normal class held in a reachable state, release followed by
   restore always succeeds and yields exactly the state before -- free sets, ledgers and grant table -- so the container
   never runs without a grant because of a refused update.  (Grants of the reserved and preserve classes carry no CPUs;
   restoring them is Reserve itself and only re-adds the ledger entry.) *)
From Coq Require Import ZArith List Lia Bool.
From stdpp Require Import gmap sets.
From NV Require Import C20_Model TA_Model TA_Proofs TA_Capacity TA_Cap2.
Open Scope Z_scope.

(* supply.Restore (resources.go: reserve(g, o, checkPools = false)) *)
Definition ta_restore (t : tree) (s : st) (cid : nat) (g : grant) : res st :=
  let p := g_pool g in
  match g_type g with
  | CpuNormal =>
    let iso := g_excl g ∩ p_iso (pool_at t p) in
    let ex := g_excl g ∖ iso in
    if negb (subseteqb iso (free_iso s p)) then Err (ErrGuard 6)
    else if negb (subseteqb ex (free_shar s p)) then Err (ErrGuard 7)
    else if alloc_shared t s p <? 1000 * csize ex + g_portion g then Err ErrNoCapacity
    else
      let s1 := account_alloc t s p (g_excl g) in
      Ok (set_grants (add_shared s1 p (g_portion g)) (<[cid := g]> (grants s1)))
  | _ => ta_reserve t s cid g
  end.

(* the states of the model are records of functions: equality is pointwise *)
Definition st_eq (a b : st) : Prop :=
  (forall q, free_iso a q = free_iso b q) /\ (forall q, free_shar a q = free_shar b q) /\
  (forall q, gr_shared a q = gr_shared b q) /\ (forall q, gr_reserved a q = gr_reserved b q) /\ grants a = grants b.

(* the sharable and isolated sets of a pool lie inside those of the pools above it (the pool tree the policy builds:
   a pool's CPUs are the union of its children's; evaluated on every observed tree by the C01 check) *)
Definition tree_nestedb (t : tree) : bool :=
  forallb (fun p => forallb (fun a => negb (anc t a p) ||
     (bool_decide (p_shar (pool_at t p) ⊆ p_shar (pool_at t a)) && bool_decide (p_iso (pool_at t p) ⊆ p_iso (pool_at t a))))
     (pools t)) (pools t).

Lemma fold_min_ge m x l : m <= x -> (forall y, In y l -> m <= y) -> m <= fold_right Z.min x l.
Proof.
  intros Hx. induction l as [|z l IH]; cbn [fold_right]; intros H; [exact Hx|].
  assert (m <= z) by (apply H; left; reflexivity).
  assert (m <= fold_right Z.min x l) by (apply IH; intros y Hy; apply H; right; exact Hy). lia.
Qed.

Lemma csize_union_disjoint (A B : cset) : A ## B -> csize (A ∪ B) = csize A + csize B.
Proof. intros H. unfold csize. rewrite size_union by exact H. lia. Qed.

Section restore.
Context (t : tree).

Lemma nested_shar p a : tree_nestedb t = true -> (p < length t)%nat -> (a < length t)%nat -> anc t a p = true ->
  p_shar (pool_at t p) ⊆ p_shar (pool_at t a).
Proof.
  intros H Hp Ha Hanc. unfold tree_nestedb in H. rewrite forallb_forall in H.
  specialize (H p (proj2 (in_pools_iff t p) Hp)). rewrite forallb_forall in H.
  specialize (H a (proj2 (in_pools_iff t a) Ha)). rewrite Hanc in H. cbn [negb orb] in H.
  apply andb_true_iff in H as [H _]. apply bool_decide_eq_true in H. exact H.
Qed.

Theorem restore_after_release s cid g :
  tree_wf2 t -> tree_nestedb t = true -> J t s ->
  grants s !! cid = Some g -> g_type g = CpuNormal -> (g_pool g < length t)%nat ->
  exists s', ta_restore t (ta_release t s cid) cid g = Ok s' /\ st_eq s' s.
Proof.
  intros Hwf Hnest (HI & HC & HP) Hg Hty Hp.
  set (p := g_pool g) in *. set (X := g_excl g) in *. set (f := g_portion g) in *.
  assert (Hf : 0 <= f) by exact (HP cid g Hg).
  (* the grant's CPUs are free nowhere, and lie in the pool *)
  assert (HE : forall x, x ∈ X -> E_in s x) by (intros x Hx; exists cid, g; split; [exact Hg|exact Hx]).
  assert (Hds : forall q, X ## free_shar s q).
  { intros q x Hx Hfr. apply (inv_free_shar t s HI) in Hfr as [_ Hn]. exact (Hn (HE x Hx)). }
  assert (Hdi : forall q, X ## free_iso s q).
  { intros q x Hx Hfr. apply (inv_free_iso t s HI) in Hfr as [_ Hn]. exact (Hn (HE x Hx)). }
  pose proof (inv_within t s HI cid g Hg) as Hin. fold X p in Hin.
  set (iso := X ∩ p_iso (pool_at t p)). set (ex := X ∖ iso).
  assert (Hex : ex ⊆ p_shar (pool_at t p)) by (unfold ex, iso; set_solver).
  (* the state after the release *)
  set (sr := ta_release t s cid).
  assert (Hsr : free_iso sr = free_iso (account_release t s p X) /\ free_shar sr = free_shar (account_release t s p X) /\
                gr_shared sr = upd (gr_shared s) p (gr_shared s p + - f) /\ gr_reserved sr = gr_reserved s /\
                grants sr = delete cid (grants s)).
  { unfold sr, ta_release. rewrite Hg. fold p X f. rewrite Hty. cbn. auto. }
  destruct Hsr as (Hri & Hrs & Hrg & Hrr & Hrm).
  (* the three tests of Restore pass *)
  assert (T1 : subseteqb iso (free_iso sr p) = true).
  { unfold subseteqb. apply bool_decide_eq_true. rewrite Hri. cbn [free_iso account_release]. rewrite Nat.eqb_refl.
    unfold iso. set_solver. }
  assert (T2 : subseteqb ex (free_shar sr p) = true).
  { unfold subseteqb. apply bool_decide_eq_true. rewrite Hrs. cbn [free_shar account_release]. rewrite Nat.eqb_refl.
    unfold ex, iso. set_solver. }
  assert (T3 : (alloc_shared t sr p <? 1000 * csize ex + f) = false).
  { apply Z.ltb_ge.
    assert (Each : forall a, (a < length t)%nat -> anc t a p = true -> 1000 * csize ex + f <= free_shared_at t sr a).
    { intros a Ha Hanc. unfold free_shared_at. rewrite Hrg, (granted_sub_upd t (gr_shared s) p (- f) a Hp), Hanc.
      assert (Hsup : free_shar s a ∪ ex ⊆ free_shar sr a).
      { rewrite Hrs. cbn [free_shar account_release]. destruct (Nat.eqb a p) eqn:E.
        - apply Nat.eqb_eq in E. subst a. unfold ex, iso. set_solver.
        - assert (Hrel : related t p a = true) by (unfold related; rewrite Hanc; apply orb_true_r). rewrite Hrel.
          pose proof (nested_shar p a Hnest Hp Ha Hanc) as Hn. unfold ex, iso in *. set_solver. }
      assert (Hdj : free_shar s a ## ex) by (unfold ex; specialize (Hds a); set_solver).
      pose proof (csize_mono _ _ Hsup) as Hm. rewrite (csize_union_disjoint _ _ Hdj) in Hm.
      specialize (HC a Ha). lia. }
    unfold alloc_shared. apply fold_min_ge.
    - apply Each; [exact Hp|apply anc_refl].
    - intros y Hy. apply in_map_iff in Hy as (a & <- & Ha). apply elem_of_list_In, elem_of_list_filter in Ha as [Hc Ha].
      apply elem_of_list_In, in_pools_iff in Ha. destruct (anc t a p) eqn:Hanc; [|contradiction].
      exact (Each a Ha Hanc). }
  eexists. split.
  - unfold ta_restore. fold p X f. rewrite Hty. fold iso. fold ex. rewrite T1, T2, T3. cbn [negb]. reflexivity.
  - unfold st_eq. cbn [free_iso free_shar gr_shared gr_reserved grants set_grants add_shared account_alloc].
    split; [|split; [|split; [|split]]].
    + intros q. rewrite Hri. cbn [free_iso account_release]. specialize (Hdi q).
      destruct (related t p q) eqn:Hrel.
      * destruct (Nat.eqb q p); set_solver.
      * destruct (Nat.eqb q p) eqn:E; [apply Nat.eqb_eq in E; subst q; rewrite related_refl in Hrel; discriminate|reflexivity].
    + intros q. rewrite Hrs. cbn [free_shar account_release]. specialize (Hds q).
      destruct (related t p q) eqn:Hrel.
      * destruct (Nat.eqb q p); set_solver.
      * destruct (Nat.eqb q p) eqn:E; [apply Nat.eqb_eq in E; subst q; rewrite related_refl in Hrel; discriminate|reflexivity].
    + intros q. rewrite Hrg. unfold upd. destruct (Nat.eqb q p) eqn:E; [apply Nat.eqb_eq in E; rewrite E, Nat.eqb_refl; lia|reflexivity].
    + intros q. rewrite Hrr. reflexivity.
    + rewrite Hrm. apply insert_delete. exact Hg.
Qed.

(* ... in every reachable state *)
Theorem restore_after_release_reachable os s cid g :
  tree_wfb2 t = true -> tree_nestedb t = true -> forallb nonneg_reserve os = true -> run t (init t) os = Ok s ->
  grants s !! cid = Some g -> g_type g = CpuNormal -> (g_pool g < length t)%nat ->
  exists s', ta_restore t (ta_release t s cid) cid g = Ok s' /\ st_eq s' s.
Proof.
  intros Hwf Hnest Hnr Hrun. pose proof (tree_wfb2_sound t Hwf) as Hwf2.
  pose proof (reachable_cap t os (init t) s Hwf2 (J_init t) (run_all_guarded t os (init t) s Hwf2 (J_init t) Hnr Hrun)) as HJ.
  exact (restore_after_release s cid g Hwf2 Hnest HJ).
Qed.

End restore.

(* the hypotheses are satisfiable: the example tree of TA_Proofs is nested, and its history reaches a state with a
   grant of the normal class holding exclusive CPUs *)
Lemma restore_nonvacuous :
  tree_nestedb ex_tree = true /\ tree_wfb2 ex_tree = true /\
  match run ex_tree (init ex_tree) (firstn 3 ex_ops) with
  | Ok s => match grants s !! 1%nat with
            | Some g => match ta_restore ex_tree (ta_release ex_tree s 1) 1 g with
                        | Ok s' => bool_decide (free_shar s' 1%nat = free_shar s 1%nat) && bool_decide (free_shar s' 2%nat = free_shar s 2%nat) && Nat.eqb (size (grants s')) (size (grants s)) = true
                        | Err _ => False end
            | None => False end
  | Err _ => False end.
Proof. vm_compute. repeat split; reflexivity. Qed.
