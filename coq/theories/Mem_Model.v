(* C04: the policies' memory-pinning glue on top of the memory allocator
   (topology-aware: allocatePool commit + update loop, ReallocMemory, reinstateGrants;
    balloons: pinCpuMem/allocMem, dismissContainer).
   The allocator is abstract: each operation carries the zone and the update map it returned;
   the allocator contract "the returned updates are exactly the changed assignments" is C07's
   updates_exact theorem.  Model only. *)
From Coq Require Import List Bool.
From stdpp Require Import gmap sets.
Import ListNotations.

Definition zone := gset nat.
Record mst := { told : gmap nat zone; asg : gmap nat zone }.   (* told: cpuset.mems per container; asg: allocator's assignment *)
Definition m0 : mst := {| told := ∅; asg := ∅ |}.

Inductive mop :=
| MAlloc (c : nat) (z : zone) (upd : list (nat * zone))   (* Allocate / Commit / Realloc succeeded for c *)
| MFallback (c : nat) (nodes : zone)                      (* allocation failed and c has no assignment: pinned to the requested nodes *)
| MRelease (c : nat).

Definition apply_updates (m : gmap nat zone) (upd : list (nat * zone)) : gmap nat zone :=
  fold_left (fun m kv => <[fst kv := snd kv]> m) upd m.

Definition mstep (s : mst) (o : mop) : mst :=
  match o with
  | MAlloc c z upd => {| told := <[c := z]> (apply_updates (told s) upd); asg := <[c := z]> (apply_updates (asg s) upd) |}
  | MFallback c nodes => match asg s !! c with
                         | Some _ => s          (* the fix: keep the allocated zone *)
                         | None => {| told := <[c := nodes]> (told s); asg := asg s |}
                         end
  | MRelease c => {| told := delete c (told s); asg := delete c (asg s) |}
  end.

(* updates only ever address containers that hold an assignment (allocator contract) *)
Definition op_ok (s : mst) (o : mop) : bool :=
  match o with
  | MAlloc c z upd => forallb (fun kv => bool_decide (is_Some (asg s !! fst kv))) upd
  | _ => true
  end.

(* ---- correspondence on snapshots: told mems of every managed pinned container = assigned zone ---- *)
Definition snap_ok (cs : list (nat * list nat * option (list nat))) : list nat :=
  map (fun x => fst (fst x)) (List.filter (fun x => match snd x with
                                                | Some a => negb (bool_decide ((list_to_set (snd (fst x)) : zone) = list_to_set a))
                                                | None => false end) cs).

(* ---- with memory-preserving containers: accounted in the allocator, never written ---- *)
Definition apply_updates_np (pres : gset nat) (m : gmap nat zone) (upd : list (nat * zone)) : gmap nat zone :=
  fold_left (fun m kv => if decide (fst kv ∈ pres) then m else <[fst kv := snd kv]> m) upd m.

Definition mstep_p (pres : gset nat) (s : mst) (o : mop) : mst :=
  match o with
  | MAlloc c z upd =>
    let t := apply_updates_np pres (told s) upd in
    {| told := if decide (c ∈ pres) then t else <[c := z]> t; asg := <[c := z]> (apply_updates (asg s) upd) |}
  | MFallback c nodes =>
    match asg s !! c with
    | Some _ => s
    | None => if decide (c ∈ pres) then s else {| told := <[c := nodes]> (told s); asg := asg s |}
    end
  | MRelease c => {| told := delete c (told s); asg := delete c (asg s) |}
  end.

