(* C08: proofs about the CPU allocator model (CpuAlloc_Model.v). *)
From stdpp Require Import gmap sets fin_sets sorting.
From Coq Require Import ZArith Lia.
From NV Require Import CpuAlloc_Model.
Open Scope Z_scope.

(* ================================================================ sets and sizes *)
Lemma sz_nonneg (s : cpuset) : 0 <= sz s.
Proof. unfold sz. lia. Qed.

Lemma sz_empty : sz ∅ = 0.
Proof. unfold sz. by rewrite size_empty. Qed.

Lemma sz_union_disj (X Y : cpuset) : X ## Y -> sz (X ∪ Y) = sz X + sz Y.
Proof. intros H. unfold sz. rewrite size_union by done. lia. Qed.

Lemma sz_singleton (x : N) : sz {[ x ]} = 1.
Proof. unfold sz. by rewrite size_singleton. Qed.

Lemma sz_subseteq (X Y : cpuset) : X ⊆ Y -> sz X <= sz Y.
Proof. intros H. unfold sz. apply subseteq_size in H. lia. Qed.

Lemma sz_split (X Y : cpuset) : Y ⊆ X -> sz X = sz Y + sz (X ∖ Y).
Proof.
  intros H. rewrite <- sz_union_disj by set_solver.
  f_equal. apply set_eq. intros x. destruct (decide (x ∈ Y)); set_solver.
Qed.

(* ================================================================ pairwise disjoint lists *)
Lemma PD_submseteq (l1 l2 : list cpuset) : l1 ⊆+ l2 -> PD l2 -> PD l1.
Proof.
  induction 1 as [|x l1 l2 Hs IH|x y l|x l1 l2 Hs IH|l1 l2 l3 H12 IH12 H23 IH23]; simpl.
  - done.
  - intros [Hx Hl]. split; [|by apply IH].
    rewrite Forall_forall in Hx |- *. intros y Hy. apply Hx. by eapply elem_of_submseteq.
  - intros [Hx [Hy Hl]]. apply Forall_cons in Hx as [Hxy Hx].
    split; [constructor; [by symmetry|done]|]. split; done.
  - intros [_ Hl]. by apply IH.
  - auto.
Qed.

Lemma PD_shrink (l1 l2 : list cpuset) : Forall2 (⊆) l1 l2 -> PD l2 -> PD l1.
Proof.
  induction 1 as [|x y l1 l2 Hxy Hl IH]; simpl; [done|].
  intros [Hy HP]. split; [|by apply IH].
  clear IH HP. induction Hl as [|a b l1 l2 Hab Hl IH]; constructor.
  - apply Forall_cons in Hy as [Hy _]. set_solver.
  - apply IH. by apply Forall_cons in Hy as [_ Hy].
Qed.

Lemma PD_app_inv_r (l1 l2 : list cpuset) : PD (l1 ++ l2) -> PD l2.
Proof. induction l1; simpl; [done|]. intros [_ ?]; auto. Qed.

Lemma PD_app_disj (l1 l2 : list cpuset) x y : PD (l1 ++ l2) -> x ∈ l1 -> y ∈ l2 -> x ## y.
Proof.
  induction l1 as [|a l1 IH]; simpl; [by intros _ ?%elem_of_nil|].
  intros [Ha HP] Hx Hy. apply elem_of_cons in Hx as [->|Hx]; [|by apply IH].
  rewrite Forall_forall in Ha. apply Ha. apply elem_of_app. by right.
Qed.

Lemma filter_submseteq {A} (P : A -> Prop) `{!∀ x, Decision (P x)} (l : list A) : filter P l ⊆+ l.
Proof.
  induction l as [|x l IH]; [done|]. rewrite filter_cons.
  destruct (decide (P x)); by constructor.
Qed.

Lemma NoDup_submseteq_mono {A} (l1 l2 : list A) : l1 ⊆+ l2 -> NoDup l2 -> NoDup l1.
Proof.
  intros [k Hk]%submseteq_Permutation HN. rewrite Hk in HN. by apply NoDup_app in HN as [? _].
Qed.

Lemma map_shrink {A} (f g : A -> cpuset) (l : list A) : (∀ a, f a ⊆ g a) -> Forall2 (⊆) (map f l) (map g l).
Proof. intros H. induction l; constructor; auto. Qed.

(* sets derived from a permutation of a filtered list stay pairwise disjoint *)
Lemma PD_derived {A} (f g : A -> cpuset) (P : A -> Prop) `{!∀ x, Decision (P x)} (l sorted : list A) :
  (∀ a, f a ⊆ g a) -> PD (map g l) -> sorted ≡ₚ filter P l -> PD (map f sorted).
Proof.
  intros Hfg HP Hperm.
  apply PD_shrink with (map g sorted); [by apply map_shrink|].
  eapply PD_submseteq; [|exact HP].
  apply (fmap_submseteq g). etrans; [by apply Permutation_submseteq|apply filter_submseteq].
Qed.

(* ================================================================ the helper invariant *)
(* result and from partition the original set; |result| + cnt = requested count; cnt >= 0 *)
Definition inv (from0 : cpuset) (cnt0 : Z) (h : helper) : Prop :=
  h_res h ## h_from h ∧ h_res h ∪ h_from h = from0 ∧ sz (h_res h) + h_cnt h = cnt0 ∧ 0 <= h_cnt h.

Lemma take_inv f0 c0 s h : inv f0 c0 h -> s ⊆ h_from h -> sz s <= h_cnt h -> inv f0 c0 (take s h).
Proof.
  intros (Hd & Hu & Hc & Hn) Hs Hle. unfold inv, take; simpl.
  split; [set_solver|]. split.
  { rewrite <- Hu. apply set_eq. intros x. destruct (decide (x ∈ s)); set_solver. }
  split; [|lia]. rewrite sz_union_disj by set_solver. lia.
Qed.

Lemma bump_inv f0 c0 l h : inv f0 c0 h -> inv f0 c0 (bump l h).
Proof. intros H. exact H. Qed.

Lemma take_from s h : h_from (take s h) = h_from h ∖ s.
Proof. done. Qed.

Lemma take_fitting_inv f0 c0 sets : ∀ h,
  PD sets -> Forall (λ s, s ⊆ h_from h) sets -> inv f0 c0 h -> inv f0 c0 (take_fitting sets h).
Proof.
  induction sets as [|s rest IH]; intros h HP HF Hi; cbn [take_fitting]; [done|].
  destruct HP as [Hs HP]. apply Forall_cons in HF as [Hsf HF].
  destruct (sz s <=? h_cnt h) eqn:E.
  - apply Z.leb_le in E. assert (Hi' := take_inv _ _ _ _ Hi Hsf E).
    destruct (h_cnt (take s h) =? 0); [done|].
    apply IH; [done| |done]. rewrite take_from.
    rewrite Forall_forall in Hs, HF |- *. intros y Hy. specialize (Hs y Hy). specialize (HF y Hy). set_solver.
  - by apply IH.
Qed.

Lemma take_until_misfit_inv f0 c0 sets : ∀ h,
  PD sets -> Forall (λ s, s ⊆ h_from h) sets -> inv f0 c0 h -> inv f0 c0 (take_until_misfit sets h).
Proof.
  induction sets as [|s rest IH]; intros h HP HF Hi; cbn [take_until_misfit]; [done|].
  destruct HP as [Hs HP]. apply Forall_cons in HF as [Hsf HF].
  destruct (h_cnt h <? sz s) eqn:E; [done|].
  apply Z.ltb_ge in E. assert (Hi' := take_inv _ _ _ _ Hi Hsf E).
  destruct (h_cnt (take s h) =? 0); [done|].
  apply IH; [done| |done]. rewrite take_from.
  rewrite Forall_forall in Hs, HF |- *. intros y Hy. specialize (Hs y Hy). specialize (HF y Hy). set_solver.
Qed.

(* takeIdleThreads' loop: invariant, and completion when there are enough candidates *)
Lemma take_each_inv f0 c0 l : ∀ h,
  NoDup (map c_id l) -> Forall (λ c, c_id c ∈ h_from h) l -> inv f0 c0 h -> 0 < h_cnt h ->
  inv f0 c0 (take_each l h) ∧ (h_cnt h <= Z.of_nat (length l) -> h_cnt (take_each l h) = 0).
Proof.
  induction l as [|c rest IH]; intros h HN HF Hi Hpos; cbn [take_each].
  { split; [done|]. simpl. lia. }
  cbn [map] in HN. apply NoDup_cons in HN as [Hc HN]. apply Forall_cons in HF as [Hcf HF].
  assert (Hi' : inv f0 c0 (take {[c_id c]} h)).
  { apply take_inv; [done|set_solver|rewrite sz_singleton; lia]. }
  assert (Hcnt : h_cnt (take {[c_id c]} h) = h_cnt h - 1) by (simpl; rewrite sz_singleton; lia).
  destruct (h_cnt (take {[c_id c]} h) =? 0) eqn:E.
  { apply Z.eqb_eq in E. split; [done|]. by intros _. }
  apply Z.eqb_neq in E.
  destruct (IH (take {[c_id c]} h)) as [H1 H2]; [done| |done|lia|].
  { rewrite take_from. rewrite Forall_forall in HF |- *. intros y Hy. specialize (HF y Hy).
    assert (c_id y ≠ c_id c); [|set_solver].
    intros Heq. apply Hc. rewrite <- Heq. apply elem_of_list_fmap. eauto. }
  split; [done|]. intros Hle. apply H2. rewrite Hcnt. simpl in Hle. lia.
Qed.

(* ================================================================ stages preserve the invariant *)
Section stage_proofs.
Context (t : topo) (o : orders) (prefer : prio) (Hwf : topo_wf t) (Hok : orders_ok o).

Lemma pkg_cset_sub p : pkg_cset t prefer p ⊆ p.2.
Proof. unfold pkg_cset. destruct (prio_set t prefer); set_solver. Qed.

Lemma take_idle_packages_inv f0 c0 h : inv f0 c0 h -> inv f0 c0 (take_idle_packages t o prefer h).
Proof.
  intros Hi. unfold take_idle_packages.
  destruct Hok as (Hp & _). specialize (Hp h).
  set (idle := filter _ (t_pkgs t)) in *. specialize (Hp idle).
  destruct (o_pkgs o h idle) as [sorted lvl]; simpl in Hp.
  apply take_fitting_inv; [| |by apply bump_inv].
  - destruct Hwf as (_ & HPD & _).
    eapply (PD_derived (pkg_cset t prefer) snd); [apply pkg_cset_sub|exact HPD|exact Hp].
  - apply Forall_fmap, Forall_forall. intros p Hin. rewrite Hp in Hin.
    apply elem_of_list_filter in Hin as [Hin _]. apply bool_decide_unpack in Hin. exact Hin.
Qed.

(* idle cores: distinct picked ids have disjoint online sibling sets *)
Lemma is_min_unique a b (s : cpuset) : is_min a s = true -> is_min b s = true -> a = b.
Proof.
  unfold is_min. rewrite !andb_true_iff, !bool_decide_eq_true.
  intros [Ha Hla] [Hb Hlb]. specialize (Hla b Hb). specialize (Hlb a Ha). simpl in *. lia.
Qed.

Lemma PD_cores (l : list cpuinfo) :
  NoDup (map c_id l) ->
  (∀ c1 c2, c1 ∈ l -> c2 ∈ l -> core_cset t c1 = core_cset t c2 ∨ core_cset t c1 ## core_cset t c2) ->
  (∀ c, c ∈ l -> is_min (c_id c) (core_cset t c) = true) ->
  PD (map (core_cset t) l).
Proof.
  induction l as [|x l IH]; intros HN Hpart Hmin; cbn [map PD]; [done|].
  cbn [map] in HN. apply NoDup_cons in HN as [Hx HN]. split.
  - apply Forall_fmap, Forall_forall. intros y Hy.
    destruct (Hpart x y) as [Heq|Hd]; [left|by right| |done].
    exfalso. apply Hx. assert (c_id x = c_id y) as ->.
    { eapply is_min_unique; [apply Hmin; left|]. rewrite Heq. apply Hmin. by right. }
    apply elem_of_list_fmap. eauto.
  - apply IH; [done| |]; intros; [apply Hpart|apply Hmin]; by try right.
Qed.

Lemma take_idle_cores_inv f0 c0 h : inv f0 c0 h -> inv f0 c0 (take_idle_cores t o h).
Proof.
  intros Hi. unfold take_idle_cores.
  destruct Hok as (_ & Hp & _). specialize (Hp h).
  set (idle := filter _ (t_cpus t)) in *. specialize (Hp idle).
  destruct (o_cores o h idle) as [sorted lvl]; simpl in Hp.
  destruct Hwf as (Hnd & _ & Hcp & _).
  assert (Hin : ∀ c, c ∈ sorted -> c ∈ t_cpus t ∧ idle_core t h c).
  { intros c Hc. rewrite Hp in Hc. apply elem_of_list_filter in Hc. tauto. }
  apply take_fitting_inv; [| |by apply bump_inv].
  - apply PD_cores.
    + rewrite Hp. eapply NoDup_submseteq_mono; [|exact Hnd].
      apply (fmap_submseteq c_id), filter_submseteq.
    + intros c1 c2 H1 H2. apply Hin in H1 as [H1 _]. apply Hin in H2 as [H2 _].
      unfold cores_partition in Hcp. rewrite Forall_forall in Hcp. specialize (Hcp c1 H1).
      rewrite Forall_forall in Hcp. by apply Hcp.
    + intros c Hc. apply Hin in Hc as [_ Hc]. unfold idle_core in Hc.
      apply Is_true_true in Hc. rewrite !andb_true_iff in Hc. tauto.
  - apply Forall_fmap, Forall_forall. intros c Hc. apply Hin in Hc as [_ Hc]. unfold idle_core in Hc.
    apply Is_true_true in Hc. rewrite !andb_true_iff, bool_decide_eq_true in Hc. simpl. tauto.
Qed.

Lemma take_idle_threads_inv f0 c0 h : inv f0 c0 h -> 0 < h_cnt h ->
  inv f0 c0 (take_idle_threads t o h) ∧
  (h_from h ⊆ online t -> h_cnt h <= sz (h_from h) -> h_cnt (take_idle_threads t o h) = 0).
Proof.
  intros Hi Hpos. unfold take_idle_threads.
  destruct Hok as (_ & _ & Hp & _). specialize (Hp h).
  set (cand := filter _ (t_cpus t)) in *. specialize (Hp cand).
  destruct (o_threads o h cand) as [sorted lvl]; simpl in Hp.
  destruct Hwf as (Hnd & _).
  assert (HndS : NoDup (map c_id sorted)).
  { rewrite Hp. eapply NoDup_submseteq_mono; [|exact Hnd]. apply (fmap_submseteq c_id), filter_submseteq. }
  destruct (take_each_inv f0 c0 sorted (bump lvl h)) as [H1 H2]; [done| |by apply bump_inv|done|].
  { apply Forall_forall. intros c Hc. rewrite Hp in Hc. apply elem_of_list_filter in Hc as [Hc _].
    apply bool_decide_unpack in Hc. simpl. set_solver. }
  split; [done|]. intros Hon Hle. apply H2. cbn [bump h_cnt].
  etrans; [exact Hle|]. rewrite Hp.
  (* every CPU of from is the id of a candidate *)
  assert (Hsub : h_from h ⊆ list_to_set (map c_id cand)).
  { intros x Hx. apply elem_of_list_to_set, elem_of_list_fmap.
    assert (Hx' := Hon x Hx). unfold online in Hx'. apply elem_of_difference in Hx' as [Hx1 Hx2].
    apply elem_of_list_to_set in Hx1. unfold cpu_ids in Hx1. apply elem_of_list_fmap in Hx1 as (c & -> & Hc).
    exists c. split; [done|]. apply elem_of_list_filter. split; [|done].
    apply bool_decide_pack. set_solver. }
  apply sz_subseteq in Hsub. etrans; [exact Hsub|]. unfold sz.
  rewrite size_list_to_set.
  - rewrite fmap_length. lia.
  - eapply NoDup_submseteq_mono; [|exact Hnd]. apply (fmap_submseteq c_id), filter_submseteq.
Qed.

Lemma cl_cset_sub c : cl_cset t c ⊆ cl_cpus c.
Proof. unfold cl_cset. set_solver. Qed.

Lemma take_idle_clusters_inv f0 c0 h : inv f0 c0 h -> inv f0 c0 (take_idle_clusters t o prefer h).
Proof.
  intros Hi. unfold take_idle_clusters.
  destruct (Z.of_nat (length (t_clusters t)) <=? 1); [done|].
  destruct Hok as (_ & _ & _ & Hp & _). specialize (Hp h).
  set (picked := filter _ (t_clusters t)) in *. specialize (Hp picked).
  destruct (o_clusters o h picked) as [sorted lvl]; simpl in Hp.
  assert (Hsub : Forall (λ s, s ⊆ h_from (bump lvl h)) (map (cl_cset t) sorted)).
  { apply Forall_fmap, Forall_forall. intros c Hc. rewrite Hp in Hc.
    apply elem_of_list_filter in Hc as [Hc _]. unfold cluster_idle in Hc.
    apply Is_true_true in Hc. rewrite !andb_true_iff, !bool_decide_eq_true in Hc.
    destruct Hc as (_ & _ & Hc). simpl. set_solver. }
  assert (HPD : PD (map (cl_cset t) sorted)).
  { destruct Hwf as (_ & _ & _ & HPD & _).
    eapply (PD_derived (cl_cset t) cl_cpus); [apply cl_cset_sub|exact HPD|exact Hp]. }
  destruct sorted as [|c rest]; [by apply bump_inv|].
  destruct (sz (cl_cset t c) =? h_cnt (bump lvl h)) eqn:E.
  { apply Z.eqb_eq in E. apply take_inv; [by apply bump_inv| |lia].
    by apply Forall_cons in Hsub as [? _]. }
  destruct (h_cnt (bump lvl h) <? sz (cl_cset t c)); [by apply bump_inv|].
  apply take_until_misfit_inv; [done|done|by apply bump_inv].
Qed.

End stage_proofs.

(* ================================================================ nested allocation, cache groups *)
Section cg_proofs.
Context (t : topo) (o : orders) (prefer : prio) (Hwf : topo_wf t) (Hok : orders_ok o).

(* the nested cores+threads allocation returns a subset of its candidate set with at most
   (on success exactly) cnt CPUs, or nothing *)
Lemma alloc_sub_spec from cnt : 0 <= cnt ->
  (alloc_sub t o from cnt).1 ⊆ from ∧ 0 <= sz (alloc_sub t o from cnt).1 <= cnt.
Proof.
  intros Hc. unfold alloc_sub.
  set (h0 := Helper from cnt ∅ 0).
  assert (H0 : inv from cnt h0).
  { unfold inv, h0; simpl. rewrite sz_empty. split; [set_solver|]. split; [set_solver|lia]. }
  set (h1 := if 0 <? h_cnt h0 then take_idle_cores t o h0 else h0).
  assert (H1 : inv from cnt h1).
  { unfold h1. destruct (0 <? h_cnt h0); [by apply take_idle_cores_inv|done]. }
  set (h2 := if 0 <? h_cnt h1 then take_idle_threads t o h1 else h1).
  assert (H2 : inv from cnt h2).
  { unfold h2. destruct (0 <? h_cnt h1) eqn:E; [|done].
    apply Z.ltb_lt in E. by apply take_idle_threads_inv. }
  cbn [fst]. destruct H2 as (Hd & Hu & Hs & Hn).
  destruct (h_cnt h2 =? 0) eqn:E.
  - apply Z.eqb_eq in E. split; [set_solver|]. pose proof (sz_nonneg (h_res h2)). lia.
  - rewrite sz_empty. split; [set_solver|lia].
Qed.

Definition lfrom (st : cpuset * cpuset * Z * N) : cpuset := st.1.1.2.
Definition lcnt (st : cpuset * cpuset * Z * N) : Z := st.1.2.
Definition linv (f0 : cpuset) (c0 : Z) (st : cpuset * cpuset * Z * N) : Prop :=
  inv f0 c0 (Helper st.1.1.2 st.1.2 st.1.1.1 st.2).

Lemma ltake_inv f0 c0 s st : linv f0 c0 st -> s ⊆ lfrom st -> sz s <= lcnt st -> linv f0 c0 (ltake s st).
Proof.
  destruct st as [[[res from] cnt] lvl]. unfold linv, lfrom, lcnt; cbn [ltake fst snd].
  intros Hi Hs Hle. exact (take_inv _ _ s _ Hi Hs Hle).
Qed.

Lemma ltake_from s st : lfrom (ltake s st) = lfrom st ∖ s.
Proof. by destruct st as [[[res from] cnt] lvl]. Qed.
Lemma ltake_cnt s st : lcnt (ltake s st) = lcnt st - sz s.
Proof. by destruct st as [[[res from] cnt] lvl]. Qed.

Lemma linv_lvl f0 c0 res from cnt l1 l2 : linv f0 c0 (res, from, cnt, l1) -> linv f0 c0 (res, from, cnt, l2).
Proof. done. Qed.

Definition frame (gs : list cpuset) (st st' : cpuset * cpuset * Z * N) : Prop :=
  ∀ s, s ⊆ lfrom st -> Forall (λ x, s ## x) gs -> s ⊆ lfrom st'.

Lemma rest_sub (s : cpuset) (rest : list cpuset) (from : cpuset) (u : cpuset) :
  u ⊆ s -> Forall (λ y, s ## y) rest -> Forall (λ x, x ⊆ from) rest -> Forall (λ x, x ⊆ from ∖ u) rest.
Proof.
  intros Hu Hs HF. rewrite Forall_forall in Hs, HF |- *. intros y Hy.
  specialize (Hs y Hy). specialize (HF y Hy). set_solver.
Qed.

Lemma cg_prefer_loop_inv f0 c0 h gs : ∀ st,
  PD (map (cg_free t h) gs) -> Forall (λ x, x ⊆ lfrom st) (map (cg_free t h) gs) -> linv f0 c0 st ->
  linv f0 c0 (cg_prefer_loop t o h gs st) ∧ frame (map (cg_free t h) gs) st (cg_prefer_loop t o h gs st).
Proof.
  induction gs as [|g rest IH]; intros st HP HF Hi; cbn [cg_prefer_loop map].
  { split; [done|]. by intros s Hs _. }
  destruct st as [[[res from] cnt] lvl].
  destruct (cnt <=? 0) eqn:E0. { split; [done|]. by intros s Hs _. }
  apply Z.leb_gt in E0.
  cbn [map] in HP, HF. destruct HP as [Hg HP]. apply Forall_cons in HF as [Hgf HF].
  set (cs := cg_free t h g) in *.
  destruct (sz cs <=? cnt) eqn:E1.
  - apply Z.leb_le in E1.
    destruct (IH (ltake cs (res, from, cnt, lvl))) as [H1 H2]; [done| |by apply ltake_inv|].
    { rewrite ltake_from. by apply rest_sub with cs. }
    split; [done|]. intros s Hs Hd. apply Forall_cons in Hd as [Hd1 Hd2].
    apply H2; [|done]. rewrite ltake_from. unfold lfrom in *; simpl in *. set_solver.
  - destruct (alloc_sub_spec cs cnt) as [Hu1 Hu2]; [lia|].
    destruct (alloc_sub t o cs cnt) as [use l2]; cbn [fst] in Hu1, Hu2.
    assert (Hi' : linv f0 c0 (ltake use (res, from, cnt, N.max lvl l2))).
    { apply ltake_inv; [by apply (linv_lvl _ _ _ _ _ lvl)| |unfold lcnt; simpl; lia].
      unfold lfrom in *; simpl in *. set_solver. }
    destruct (IH (ltake use (res, from, cnt, N.max lvl l2))) as [H1 H2]; [done| |done|].
    { rewrite ltake_from. by apply rest_sub with cs. }
    split; [done|]. intros s Hs Hd. apply Forall_cons in Hd as [Hd1 Hd2].
    apply H2; [|done]. rewrite ltake_from. unfold lfrom in *; simpl in *. set_solver.
Qed.

(* the loop that takes whole usable groups: either it stopped before the last group (whose free
   CPUs are then untouched), or it took every group *)
Lemma cg_take_first_inv f0 c0 h gs : ∀ st,
  PD (map (cg_free t h) gs) -> Forall (λ x, x ⊆ lfrom st) (map (cg_free t h) gs) -> linv f0 c0 st ->
  let st' := cg_take_first t h gs st in
  linv f0 c0 st' ∧
  (∀ g, last gs = Some g -> cg_free t h g ⊆ lfrom st' ∨ lcnt st' = lcnt st - sum_free t h gs).
Proof.
  induction gs as [|g rest IH]; intros st HP HF Hi; cbn [cg_take_first map].
  { split; [done|]. intros g. by rewrite last_nil. }
  cbn [map] in HP, HF. destruct HP as [Hg HP]. apply Forall_cons in HF as [Hgf HF].
  set (cs := cg_free t h g) in *.
  change (st.1.2) with (lcnt st).
  destruct (lcnt st <? sz cs) eqn:E.
  - split; [done|]. intros g' Hl. left.
    destruct rest as [|g2 rest']; [injection Hl as <-; done|].
    rewrite last_cons_cons in Hl. apply last_Some in Hl as [l' Hl].
    rewrite Forall_forall in HF. apply HF. rewrite Hl, fmap_app. apply elem_of_app. right. by left.
  - apply Z.ltb_ge in E.
    destruct (IH (ltake cs st)) as [H1 H2]; [done| |by apply ltake_inv|].
    { rewrite ltake_from. by apply rest_sub with cs. }
    split; [done|]. intros g' Hl.
    destruct rest as [|g2 rest'].
    + right. cbn [cg_take_first sum_free fold_right]. rewrite ltake_cnt. fold cs. lia.
    + rewrite last_cons_cons in Hl. destruct (H2 g' Hl) as [Hs|Hc]; [by left|right].
      rewrite Hc, ltake_cnt. unfold sum_free; cbn [fold_right]. fold cs. lia.
Qed.

Lemma same_size_pick_dead sizes cnt : same_size_pick sizes cnt = (0, 0).
Proof.
  unfold same_size_pick. generalize sizes at 1. intros all.
  induction sizes as [|s rest IH]; cbn [fold_left]; [done|].
  destruct ((0 <? s) && (s <? cnt) && (Z.rem cnt s =? 0)) eqn:E; [|exact IH].
  rewrite !andb_true_iff in E. destruct E as [[E1 E2] _].
  apply Z.ltb_lt in E1, E2.
  assert (Hq : 0 <= Z.quot cnt s) by (apply Z.quot_pos; lia).
  cbn [snd]. replace (Z.quot cnt s <? 0) with false by (symmetry; apply Z.ltb_ge; lia).
  rewrite andb_false_r. exact IH.
Qed.

Lemma scan_totals_spec sizes cnt : ∀ i total k c,
  scan_totals sizes cnt i total = (k, c) ->
  ∃ j, (j <= length sizes)%nat ∧ k = (i + j)%nat ∧ c = total + fold_right Z.add 0 (firstn j sizes).
Proof.
  induction sizes as [|s rest IH]; intros i total k c; cbn [scan_totals].
  { intros [= <- <-]. exists 0%nat. simpl. split; [lia|]. split; [lia|lia]. }
  destruct (cnt <=? total + s).
  - intros [= <- <-]. exists 1%nat. simpl. split; [lia|]. split; [lia|lia].
  - intros H. apply IH in H as (j & Hj & -> & ->). exists (S j). simpl. split; [lia|]. split; lia.
Qed.

Lemma same_pkg_prefix_app pkg gs : ∃ rest, gs = same_pkg_prefix pkg gs ++ rest.
Proof.
  induction gs as [|g gs [rest IH]]; [by exists []|]. cbn [same_pkg_prefix].
  destruct (cg_pkg g =? pkg); [|by eexists]. exists rest. simpl. by f_equal.
Qed.

Lemma sum_free_firstn h j gs :
  sum_free t h (firstn j gs) = fold_right Z.add 0 (firstn j (map (λ g, sz (cg_free t h g)) gs)).
Proof.
  unfold sum_free. revert gs. induction j as [|j IH]; intros [|g gs]; simpl; try done.
  f_equal. apply IH.
Qed.

Lemma cg_use_usable_inv f0 c0 h usable chosen st :
  inv f0 c0 h -> linv f0 c0 st -> 0 < lcnt st ->
  PD (map (cg_free t h) usable) -> Forall (λ x, x ⊆ lfrom st) (map (cg_free t h) usable) ->
  inv f0 c0 (cg_use_usable t o h usable chosen st).
Proof.
  intros Hh Hi Hpos HP HF. unfold cg_use_usable.
  destruct (same_pkg_prefix_app chosen usable) as [tail Htail].
  set (cand := same_pkg_prefix chosen usable) in *.
  destruct (filter _ cand) as [|g fl] eqn:Efl.
  2: { (* exact single group *)
    assert (Hg : g ∈ filter (λ g, sz (cg_free t h g) =? st.1.2) cand) by (rewrite Efl; left).
    apply elem_of_list_filter in Hg as [Hsz Hg]. apply Is_true_true, Z.eqb_eq in Hsz.
    assert (Hsub : cg_free t h g ⊆ lfrom st).
    { rewrite Forall_forall in HF. apply HF. apply elem_of_list_fmap. exists g. split; [done|].
      rewrite Htail. apply elem_of_app. by left. }
    pose proof (ltake_inv f0 c0 (cg_free t h g) st Hi Hsub) as Ht.
    destruct st as [[[res from] cnt] lvl]. unfold lcnt in *; cbn [fst snd] in *.
    specialize (Ht ltac:(lia)). unfold linv in Ht; cbn [ltake fst snd] in Ht.
    unfold commit. replace (cnt - sz (cg_free t h g)) with 0 in Ht by lia. exact Ht. }
  rewrite same_size_pick_dead. cbn [Z.eqb negb andb].
  destruct (scan_totals _ _ 0 0) as [grp_cnt cpu_cnt] eqn:Escan.
  destruct (cpu_cnt <? st.1.2) eqn:Ecpu; [done|]. apply Z.ltb_ge in Ecpu.
  apply scan_totals_spec in Escan as (j & Hj & -> & ->). rewrite map_length in Hj.
  simpl in Ecpu |- *.
  assert (Hfirst : firstn j usable = firstn j cand).
  { rewrite Htail. by rewrite take_app_le. }
  assert (HPj : PD (map (cg_free t h) (firstn j usable))).
  { eapply PD_submseteq; [|exact HP]. apply (fmap_submseteq (cg_free t h)), sublist_submseteq, sublist_take. }
  assert (HFj : Forall (λ x, x ⊆ lfrom st) (map (cg_free t h) (firstn j usable))).
  { rewrite Forall_forall in HF |- *. intros x Hx. apply HF.
    apply elem_of_list_fmap in Hx as (g & -> & Hg). apply elem_of_list_fmap. exists g. split; [done|].
    eapply elem_of_submseteq; [exact Hg|]. apply sublist_submseteq, sublist_take. }
  destruct (cg_take_first_inv f0 c0 h (firstn j usable) st HPj HFj Hi) as [Hi2 Hlast].
  set (st2 := cg_take_first t h (firstn j usable) st) in *.
  assert (Hi3 : ∀ st3, st3 = (if 0 <? st2.1.2 then
          match last (firstn j usable) with
          | Some g => let '(use, l3) := alloc_sub t o (cg_free t h g) st2.1.2 in
                      ltake use (st2.1.1.1, st2.1.1.2, st2.1.2, N.max st2.2 l3)
          | None => st2 end else st2) -> linv f0 c0 st3).
  { intros st3 ->. destruct (0 <? st2.1.2) eqn:E2; [|done]. apply Z.ltb_lt in E2.
    destruct (last (firstn j usable)) as [g|] eqn:El; [|done].
    destruct (alloc_sub_spec (cg_free t h g) (st2.1.2)) as [Hu1 Hu2]; [lia|].
    destruct (alloc_sub t o (cg_free t h g) st2.1.2) as [use l3]; cbn [fst] in Hu1, Hu2.
    destruct (Hlast g eq_refl) as [Hs|Hc].
    - apply ltake_inv; [destruct st2 as [[[? ?] ?] ?]; exact Hi2| |unfold lcnt; simpl; lia].
      unfold lfrom in *; simpl in *. set_solver.
    - exfalso. rewrite Hfirst, sum_free_firstn in Hc. unfold lcnt in Hc. lia. }
  match goal with |- context [if negb (?x.1.2 =? 0) then _ else _] => set (st3 := x) in * end.
  specialize (Hi3 st3 eq_refl).
  destruct (st3.1.2 =? 0) eqn:E3; cbn [negb]; [|done].
  apply Z.eqb_eq in E3. destruct st3 as [[[res3 from3] cnt3] lvl3]. cbn [fst snd] in *. subst cnt3. exact Hi3.
Qed.

Lemma filter_excl_submseteq {A} (P Q : A -> Prop) `{!∀ x, Decision (P x)} `{!∀ x, Decision (Q x)} (l : list A) :
  (∀ x, P x -> Q x -> False) -> filter P l ++ filter Q l ⊆+ l.
Proof.
  intros Hex. induction l as [|x l IH]; [done|]. rewrite !filter_cons.
  destruct (decide (P x)) as [HPx|HPx]; destruct (decide (Q x)) as [HQx|HQx].
  - by destruct (Hex x).
  - simpl. by constructor.
  - etrans; [apply Permutation_submseteq; symmetry; apply Permutation_middle|]. by constructor.
  - by constructor.
Qed.

Lemma cg_free_sub h g : cg_free t h g ⊆ cg_cpus g.
Proof. unfold cg_free. set_solver. Qed.

Lemma cg_allocate_inv f0 c0 h pref usable :
  inv f0 c0 h -> PD (map (cg_free t h) (pref ++ usable)) -> inv f0 c0 (cg_allocate t o h pref usable).
Proof.
  intros Hi HP. unfold cg_allocate.
  match goal with |- context [if ?c <? h_cnt h then _ else _] => destruct (c <? h_cnt h); [done|] end.
  assert (Hl0 : linv f0 c0 (h_res h, h_from h, h_cnt h, h_lvl h)) by (destruct h; exact Hi).
  assert (HPp : PD (map (cg_free t h) pref)).
  { eapply PD_submseteq; [|exact HP]. apply (fmap_submseteq (cg_free t h)), sublist_submseteq, sublist_inserts_r. done. }
  assert (HFp : Forall (λ x, x ⊆ h_from h) (map (cg_free t h) pref)).
  { apply Forall_fmap, Forall_forall. intros g _. unfold cg_free. simpl. set_solver. }
  destruct (cg_prefer_loop_inv f0 c0 h pref (h_res h, h_from h, h_cnt h, h_lvl h) HPp HFp Hl0) as [H1 H2].
  set (st := cg_prefer_loop t o h pref _) in *.
  destruct (st.1.2 <=? 0) eqn:E.
  { destruct st as [[[res from] cnt] lvl]. exact H1. }
  apply Z.leb_gt in E. apply cg_use_usable_inv; [done|done|done| |].
  - rewrite fmap_app in HP. by apply PD_app_inv_r in HP.
  - apply Forall_fmap, Forall_forall. intros g Hg. simpl. apply H2.
    + unfold lfrom, cg_free. simpl. set_solver.
    + apply Forall_forall. intros x Hx. symmetry. rewrite fmap_app in HP.
      eapply PD_app_disj; [exact HP|exact Hx|]. apply elem_of_list_fmap. eauto.
Qed.

Lemma take_cache_groups_inv f0 c0 h : inv f0 c0 h -> inv f0 c0 (take_cache_groups t o prefer h).
Proof.
  intros Hi. unfold take_cache_groups.
  destruct (Z.of_nat (length (t_groups t)) <=? 1); [done|].
  destruct (h_cnt h <? 2); [done|].
  destruct Hok as (_ & _ & _ & _ & Hp1 & Hp2).
  set (prefer0 := filter (λ g, is_prefer _) (t_groups t)). set (usable0 := filter (λ g, is_usable _) (t_groups t)).
  specialize (Hp1 h usable0 prefer0).
  destruct (o_cgprefer o h usable0 prefer0) as [pref l1]; simpl in Hp1.
  specialize (Hp2 h pref usable0).
  destruct (o_cgusable o h pref usable0) as [usable l2]; simpl in Hp2.
  apply cg_allocate_inv; [by apply bump_inv|].
  destruct Hwf as (_ & _ & _ & _ & HPD).
  apply PD_shrink with (map cg_cpus (pref ++ usable)); [apply map_shrink; intros; apply cg_free_sub|].
  eapply PD_submseteq; [|exact HPD]. apply (fmap_submseteq cg_cpus).
  rewrite Hp1, Hp2. apply filter_excl_submseteq.
  intros g H1 H2. destruct (cg_pick t prefer h g); done.
Qed.

End cg_proofs.

(* ================================================================ allocate, AllocateCpus, ReleaseCpus *)
Section top.
Context (t : topo) (o : orders) (prefer : prio) (Hwf : topo_wf t) (Hok : orders_ok o).

Lemma inv_cnt_le f0 c0 h : inv f0 c0 h -> c0 <= sz f0 -> h_cnt h <= sz (h_from h).
Proof.
  intros (Hd & Hu & Hc & Hn) Hle. rewrite <- Hu, sz_union_disj in Hle by done. lia.
Qed.

Lemma inv_from_sub f0 c0 h : inv f0 c0 h -> h_from h ⊆ f0.
Proof. intros (Hd & Hu & _). set_solver. Qed.

Lemma allocate_inv flags f0 c0 h : inv f0 c0 h -> f0 ⊆ online t -> c0 <= sz f0 ->
  inv f0 c0 (allocate t o prefer flags h) ∧ h_cnt (allocate t o prefer flags h) = 0.
Proof.
  intros Hi Hon Hle. unfold allocate.
  set (h1 := if fl_packages flags then _ else h).
  assert (H1 : inv f0 c0 h1).
  { unfold h1. destruct (fl_packages flags); [by apply take_idle_packages_inv|done]. }
  set (h2 := if 1 <? t_nkinds t then _ else _).
  assert (H2 : inv f0 c0 h2).
  { unfold h2. destruct (1 <? t_nkinds t).
    - set (h1' := if (0 <? h_cnt h1) && fl_clusters flags then _ else h1).
      assert (inv f0 c0 h1').
      { unfold h1'. destruct ((0 <? h_cnt h1) && fl_clusters flags); [by apply take_idle_clusters_inv|done]. }
      destruct ((0 <? h_cnt h1') && fl_cgroups flags); [by apply take_cache_groups_inv|done].
    - destruct ((0 <? h_cnt h1) && fl_cgroups flags); [by apply take_cache_groups_inv|done]. }
  set (h3 := if (0 <? h_cnt h2) && fl_cores flags then _ else h2).
  assert (H3 : inv f0 c0 h3).
  { unfold h3. destruct ((0 <? h_cnt h2) && fl_cores flags); [by apply take_idle_cores_inv|done]. }
  destruct (0 <? h_cnt h3) eqn:E.
  - apply Z.ltb_lt in E. destruct (take_idle_threads_inv t o Hwf Hok f0 c0 h3 H3 E) as [H4 H5].
    split; [done|]. apply H5.
    + etrans; [by eapply inv_from_sub|done].
    + by eapply inv_cnt_le.
  - apply Z.ltb_ge in E. split; [done|]. destruct H3 as (_ & _ & _ & ?). lia.
Qed.

(* allocating cnt <= |from| CPUs returns exactly cnt CPUs taken from the set and removes
   exactly those from it *)
Lemma alloc_contract flags from cnt :
  from ⊆ online t -> 0 <= cnt <= sz from ->
  ∃ r lvl, allocate_cpus t o prefer flags from cnt = (Ok r, from ∖ r, lvl) ∧ r ⊆ from ∧ sz r = cnt.
Proof.
  intros Hon [H0 Hle]. unfold allocate_cpus.
  destruct (sz from <? cnt) eqn:E1; [apply Z.ltb_lt in E1; lia|].
  destruct (sz from =? cnt) eqn:E2.
  { apply Z.eqb_eq in E2. exists from, 0%N. split; [|done]. f_equal. f_equal. set_solver. }
  set (h0 := Helper from cnt ∅ 0).
  assert (Hi0 : inv from cnt h0).
  { unfold inv, h0; simpl. rewrite sz_empty. split; [set_solver|]. split; [set_solver|lia]. }
  destruct (allocate_inv flags from cnt h0 Hi0 Hon Hle) as [(Hd & Hu & Hc & Hn) Hz].
  set (h := allocate t o prefer flags h0) in *.
  rewrite Hz. cbn [Z.eqb]. exists (h_res h), (h_lvl h). split; [|split; [set_solver|lia]].
  f_equal. f_equal. apply set_eq. intros x. rewrite <- Hu. set_solver.
Qed.

(* a request for more CPUs than the set holds fails and leaves the set unchanged
   (no well-formedness or order assumption needed) *)
Lemma alloc_too_many (t' : topo) (o' : orders) p flags from cnt :
  sz from < cnt -> allocate_cpus t' o' p flags from cnt = (Err, from, 0%N).
Proof. intros H. unfold allocate_cpus. apply Z.ltb_lt in H. by rewrite H. Qed.

Lemma alloc_all (t' : topo) (o' : orders) p flags from :
  allocate_cpus t' o' p flags from (sz from) = (Ok from, ∅, 0%N).
Proof. unfold allocate_cpus. by rewrite Z.ltb_irrefl, Z.eqb_refl. Qed.

(* ReleaseCpus(from, n), n <= |from|: afterwards *from holds exactly n CPUs of the original set
   (the released ones) and the returned set is the rest *)
Lemma release_contract flags from n :
  from ⊆ online t -> 0 <= n <= sz from ->
  ∃ kept rel lvl, release_cpus t o prefer flags from n = (Ok kept, rel, lvl) ∧
    rel ⊆ from ∧ sz rel = n ∧ kept = from ∖ rel ∧ sz kept = sz from - n.
Proof.
  intros Hon Hn. unfold release_cpus.
  destruct (alloc_contract flags from (sz from - n) Hon) as (r & lvl & Heq & Hsub & Hsz); [lia|].
  exists r, (from ∖ r), lvl. split; [done|]. split; [set_solver|].
  split; [|split; [|done]].
  - pose proof (sz_split from r Hsub). lia.
  - apply set_eq. intros x. destruct (decide (x ∈ r)); set_solver.
Qed.

End top.

(* the online hypothesis is necessary: with offline CPUs in the candidate set the allocator can
   return success with an empty result after having removed CPUs from the set *)
Definition ex_topo : topo :=
  Topo [CpuInfo 0 0 {[0%N]}; CpuInfo 1 0 ∅; CpuInfo 2 0 ∅] {[1%N; 2%N]} [(0, {[0%N]})] ∅ {[0%N]} ∅ 1 [] [].
Definition id_orders : orders :=
  Orders (λ _ l, (l, 0%N)) (λ _ l, (l, 0%N)) (λ _ l, (l, 0%N)) (λ _ l, (l, 0%N)) (λ _ _ l, (l, 0%N)) (λ _ _ l, (l, 0%N)).

Lemma id_orders_ok : orders_ok id_orders.
Proof. repeat split; intros; intros l; reflexivity. Qed.

Lemma ex_topo_wf : topo_wf ex_topo.
Proof. apply (bool_decide_unpack _). vm_compute. exact I. Qed.

Local Instance outcome_eq_dec : EqDecision outcome.
Proof. solve_decision. Defined.

Lemma alloc_offline_refuted :
  ∃ t o p flags from cnt, topo_wf t ∧ orders_ok o ∧ 0 <= cnt <= sz from ∧
    allocate_cpus t o p flags from cnt = (Ok ∅, {[1%N; 2%N]}, 0%N) ∧ cnt = 2 ∧ from = {[0%N; 1%N; 2%N]}.
Proof.
  exists ex_topo, id_orders, Normal, alloc_default, {[0%N; 1%N; 2%N]}, 2.
  split; [apply ex_topo_wf|]. split; [apply id_orders_ok|].
  split; [by vm_compute|]. split; [|done].
  apply (bool_decide_unpack _). vm_compute. exact I.
Qed.

(* ================================================================ the modelled Go orders are permutations *)
Lemma ins_rev_perm {A} (less : A -> A -> bool) x rp : ins_rev less x rp ≡ₚ x :: rp.
Proof.
  induction rp as [|y r IH]; cbn [ins_rev]; [done|].
  destruct (less x y); [|done]. rewrite IH. apply perm_swap.
Qed.

Lemma isort_fold_perm {A} (less : A -> A -> bool) l : ∀ acc,
  fold_left (λ rp x, ins_rev less x rp) l acc ≡ₚ l ++ acc.
Proof.
  induction l as [|x l IH]; intros acc; cbn [fold_left]; [done|].
  rewrite IH, ins_rev_perm. symmetry. apply Permutation_middle.
Qed.

Lemma isort_perm {A} (less : A -> A -> bool) l : isort less l ≡ₚ l.
Proof. unfold isort. rewrite <- Permutation_rev, isort_fold_perm. by rewrite app_nil_r. Qed.

Lemma sort_by_perm {A K} (key : A -> K) kless l : (sort_by key kless l).1 ≡ₚ l.
Proof.
  unfold sort_by; cbn [fst]. rewrite isort_perm.
  rewrite <- list_fmap_compose. induction l; simpl; [done|]. by constructor.
Qed.

Lemma go_orders_ok t p : orders_ok (go_orders t p).
Proof. repeat split; intros; intros l; apply sort_by_perm. Qed.

(* ================================================================ determinism *)
(* A candidate list on which the comparator is asymmetric and which admits a strongly sorted
   arrangement has exactly one sorted permutation: any sorting algorithm returns it. *)
Section unique.
Context {A : Type} (less : A -> A -> bool).

Lemma forcedb_spec l : forcedb less l = true ->
  StronglySorted (λ a b, less a b = true ∧ less b a = false) l.
Proof.
  induction l as [|x r IH]; cbn [forcedb]; [constructor|].
  rewrite andb_true_iff, forallb_forall. intros [Hx Hr]. constructor; [by apply IH|].
  apply Forall_forall. intros y Hy. apply elem_of_list_In in Hy. specialize (Hx y Hy).
  apply andb_true_iff in Hx as [? ?%negb_true_iff]. done.
Qed.

(* a result [l2] of a correct sort: a permutation in which no element is less than its predecessor *)
Lemma sorted_perm_unique l1 l2 :
  forcedb less l1 = true -> l2 ≡ₚ l1 -> Sorted (λ a b, less b a = false) l2 -> l2 = l1.
Proof.
  intros Hf Hperm Hs. apply forcedb_spec in Hf.
  (* positions in l1 *)
  assert (Hlt : ∀ i j a b, (i < j)%nat -> l1 !! i = Some a -> l1 !! j = Some b -> less a b = true ∧ less b a = false).
  { clear -Hf. induction Hf as [|x r Hr IH Hx]; intros i j a b Hij Hi Hj; [by rewrite lookup_nil in Hi|].
    destruct i as [|i], j as [|j]; try lia; simpl in *.
    - injection Hi as <-. rewrite Forall_forall in Hx. apply Hx. by eapply elem_of_list_lookup_2.
    - eapply IH; [|exact Hi|exact Hj]. lia. }
  assert (Hnd : NoDup l1).
  { apply NoDup_alt. intros i j a Hi Hj. destruct (Nat.lt_trichotomy i j) as [H|[H|H]]; [|done|].
    - destruct (Hlt i j a a H Hi Hj) as [H1 H2]. congruence.
    - destruct (Hlt j i a a H Hj Hi) as [H1 H2]. congruence. }
  set (pos := λ a b, ∃ i j, (i < j)%nat ∧ l1 !! i = Some a ∧ l1 !! j = Some b).
  assert (Htr : Transitive pos).
  { intros a b c (i & j & Hij & Hi & Hj) (j' & k & Hjk & Hj' & Hk).
    assert (j = j') as <- by (eapply NoDup_lookup; eauto). exists i, k. split; [lia|done]. }
  assert (Has : AntiSymm (=) pos).
  { intros a b (i & j & Hij & Hi & Hj) (j' & i' & Hji & Hj' & Hi').
    assert (j = j') as <- by (eapply NoDup_lookup; eauto).
    assert (i = i') as <- by (eapply NoDup_lookup; eauto). lia. }
  assert (H1 : StronglySorted pos l1).
  { clear -Hnd. unfold pos. clear pos.
    assert (G : ∀ pre, StronglySorted (λ a b, ∃ i j, (i < j)%nat ∧ (pre ++ l1) !! i = Some a ∧ (pre ++ l1) !! j = Some b) l1).
    { induction l1 as [|x r IH]; intros pre; [constructor|].
      constructor.
      - specialize (IH ltac:(by apply NoDup_cons in Hnd as [_ ?]) (pre ++ [x])).
        rewrite <- !app_assoc in IH. exact IH.
      - apply Forall_forall. intros y Hy. apply elem_of_list_lookup in Hy as [k Hk].
        exists (length pre), (length pre + S k)%nat. split; [lia|]. split.
        + by rewrite lookup_app_r, Nat.sub_diag by lia.
        + rewrite lookup_app_r by lia. replace (length pre + S k - length pre)%nat with (S k) by lia. done. }
    exact (G []). }
  assert (H2 : Sorted pos l2).
  { assert (Hnd2 : NoDup l2) by (by rewrite Hperm).
    assert (Hsub : ∀ x, x ∈ l2 -> x ∈ l1) by (intros x; by rewrite Hperm).
    clear H1 Hperm. induction Hs as [|x r Hs IH Hhd]; [constructor|].
    apply NoDup_cons in Hnd2 as [Hnx Hnd2].
    constructor.
    - apply IH; [done|]. intros y Hy. apply Hsub. by right.
    - destruct Hhd as [|y r' Hxy]; constructor.
      assert (Hx : x ∈ l1) by (apply Hsub; left).
      assert (Hy : y ∈ l1) by (apply Hsub; right; left).
      apply elem_of_list_lookup in Hx as [i Hi]. apply elem_of_list_lookup in Hy as [j Hj].
      destruct (Nat.lt_trichotomy i j) as [H|[H|H]].
      + exists i, j. done.
      + subst j. assert (x = y) by congruence. subst y.
        exfalso. apply Hnx. left.
      + destruct (Hlt j i y x H Hj Hi) as [Hyx _]. congruence. }
  symmetry. eapply (Sorted_unique pos); [|done|by symmetry].
  by apply StronglySorted_Sorted.
Qed.
End unique.

(* the package and core comparators (cmpCPUSet(.., prefer, -1), then id) are strict total orders
   on keys with distinct ids, for every topology and preference *)
Ltac dz :=
  repeat match goal with
  | |- context [?x =? ?y] => destruct (Z.eqb_spec x y)
  | |- context [?x <? ?y] => destruct (Z.ltb_spec x y)
  | H : context [?x =? ?y] |- _ => destruct (Z.eqb_spec x y)
  | H : context [?x <? ?y] |- _ => destruct (Z.ltb_spec x y)
  end; cbn [negb] in *; try done; try lia.

Definition vec (p : prio) (k : (Z * Z * Z) * Z) : Z * Z * Z * Z :=
  let '((h, n, l), i) := k in
  match p with
  | High => (- h, - n, - l, i)
  | Normal => (- n, - l, h, i)
  | Low => (- l, h, n, i)
  | NoPrio => (0, 0, 0, i)
  end.
Definition lexlt (x y : Z * Z * Z * Z) : Prop :=
  let '(x1, x2, x3, x4) := x in let '(y1, y2, y3, y4) := y in
  x1 < y1 ∨ (x1 = y1 ∧ (x2 < y2 ∨ (x2 = y2 ∧ (x3 < y3 ∨ (x3 = y3 ∧ x4 < y4))))).

Lemma set_less_lex p a b : set_less p a b = true <-> lexlt (vec p a) (vec p b).
Proof.
  destruct a as [[[ah an] al] ai], b as [[[bh bn] bl] bi], p;
    unfold set_less, cmp_counts, favor, repel, prios_from, prios_below, cnt_at, lexlt, vec;
    cbn [fst snd Z.ltb Z.compare andb bool_decide]; dz; split; intros; try lia; try done.
Qed.

Lemma set_less_irrefl p a : set_less p a a = false.
Proof.
  destruct (set_less p a a) eqn:E; [|done]. apply set_less_lex in E.
  destruct (vec p a) as [[[x1 x2] x3] x4]. unfold lexlt in E. lia.
Qed.

Lemma set_less_trans p a b c : set_less p a b = true -> set_less p b c = true -> set_less p a c = true.
Proof.
  rewrite !set_less_lex.
  destruct (vec p a) as [[[x1 x2] x3] x4], (vec p b) as [[[y1 y2] y3] y4], (vec p c) as [[[z1 z2] z3] z4].
  unfold lexlt. lia.
Qed.

Lemma set_less_total p a b : a.2 ≠ b.2 -> set_less p a b = true ∨ set_less p b a = true.
Proof.
  intros Hne. rewrite !set_less_lex.
  assert (Hv : (vec p a).2 ≠ (vec p b).2).
  { destruct a as [[[ah an] al] ai], b as [[[bh bn] bl] bi], p; exact Hne. }
  destruct (vec p a) as [[[x1 x2] x3] x4], (vec p b) as [[[y1 y2] y3] y4].
  unfold lexlt. simpl in Hv. lia.
Qed.

Lemma set_less_asym p a b : set_less p a b = true -> set_less p b a = false.
Proof.
  intros H. destruct (set_less p b a) eqn:E; [|done].
  pose proof (set_less_trans p a b a H E) as H0. by rewrite set_less_irrefl in H0.
Qed.

Lemma hyps_satisfiable :
  ∃ t o from cnt, topo_wf t ∧ orders_ok o ∧ from ⊆ online t ∧ 0 < cnt <= sz from.
Proof.
  exists ex_topo, id_orders, {[0%N]}, 1. split; [apply ex_topo_wf|]. split; [apply id_orders_ok|].
  split; [apply (bool_decide_unpack _); by vm_compute|]. by vm_compute.
Qed.
