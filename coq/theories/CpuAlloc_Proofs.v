From stdpp Require Import gmap sets fin_sets sorting.
From Coq Require Import ZArith Lia.
From NV Require Import CpuAlloc_Model.
Open Scope Z_scope.
