From Coq Require Import List Bool.
From stdpp Require Import gmap sets.
From NV Require Import Persist_Model.
Import ListNotations.

Lemma prun_no_write s ks : has_write ks = false -> prun s ks = s \/ prun s ks = ∅.
Proof.
  revert s. induction ks as [|k ks IH]; intros s H; [left; reflexivity|].
  destruct k as [c|]; cbn in H; [discriminate|].
  cbn [prun fold_left pstep]. destruct (IH ∅ H) as [E|E]; right; exact E.
Qed.

Lemma pexec_fresh r : preq_guard r = true -> pexec true ∅ r = ∅.
Proof.
  unfold preq_guard, pexec. intros H. destruct (p_flushes r); cbn [andb]; [reflexivity|].
  cbn in H. apply negb_true_iff in H. destruct (prun_no_write ∅ _ H) as [E|E]; exact E.
Qed.

Theorem fresh_at_boundaries rs : forallb preq_guard rs = true -> fold_left (pexec true) rs ∅ = ∅.
Proof.
  induction rs as [|r rs IH]; intros H; [reflexivity|].
  cbn in H. apply andb_true_iff in H as [Hr Hrs]. cbn [fold_left]. rewrite (pexec_fresh r Hr). exact (IH Hrs).
Qed.

(* without the save at the end of getPendingUpdates the cache file goes stale: one flushing
   request that writes container 0 *)
Theorem stale_without_save :
  exists rs, forallb preq_guard rs = true /\ fold_left (pexec false) rs ∅ <> ∅.
Proof.
  exists [{| p_calls := [PSave; PWrite 0]; p_flushes := true |}]. split; [reflexivity|].
  cbn. set_solver.
Qed.

(* non-vacuity: a guarded history with writes, saves in mid-request and a non-flushing request *)
Example guarded_history :
  forallb preq_guard [ {| p_calls := [PSave; PWrite 1; PWrite 2]; p_flushes := true |};
                       {| p_calls := [PSave]; p_flushes := false |};
                       {| p_calls := [PWrite 1; PSave; PWrite 3]; p_flushes := true |} ] = true.
Proof. reflexivity. Qed.
