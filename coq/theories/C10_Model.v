(* C10: the persisted pod/container cache (pkg/resmgr/cache/cache.go: Snapshot/Restore, Save/Load,
   checkPerm/mkdirAll/NewCache).  Executable model only -- no proofs in this file.

   Part 1  type grammar of the structs reachable from `snapshot` (generated: Gen_Schema.v),
           a value universe, and enc/dec modelling what encoding/json does for that grammar.
   Part 2  a file system (path -> contents) and the syscall skeleton of Save (generated:
           Gen_Save.v) with crash / failure after any prefix, including partial writes.
   Part 3  checkPerm as a function of (exists, file type, permission bits).

   What is abstracted (also listed in the evidence):
   - JSON *text* (escaping, number formatting, whitespace, key case-folding on decode): json is a tree;
   - integer widths: every Go integer kind is Z (encoding/json prints and parses them exactly);
   - maps are association lists without duplicate keys, in the order the encoder emits them
     (sorted by key); the sorting itself is not modelled;
   - a type with its own MarshalJSON/UnmarshalJSON pair (resource.Quantity) and structs with
     embedded fields (podresapi.PodResources/ContainerResources) are opaque leaves whose payload
     is the JSON they marshal to; "unmarshal then marshal gives the same JSON" is assumed for them
     (and observed by the harness);
   - unexported / json:"-" fields are not walked: their content is not modelled and reloads as
     the Go zero value (VNil stands for it). *)
From Coq Require Import String ZArith List Bool Ascii.
Import ListNotations.
Open Scope string_scope.

(* ------------------------------------------------------------------ Part 1: schema codec *)

Record finfo := mkF {
  f_name : string;      (* Go field name *)
  f_exported : bool;
  f_json : string;      (* key used in the JSON object *)
  f_skip : bool;        (* json:"-" *)
  f_omitempty : bool }.

Definition persisted_b (fi : finfo) : bool := f_exported fi && negb (f_skip fi).

Inductive ty :=
| TString | TInt | TBool
| TOpaque (name : string) (sym : bool) (structkind : bool)
| TDropped
| TUnsupported (why : string)
| TPtr (t : ty) | TSlice (t : ty) | TMap (t : ty)
| TStruct (name : string) (fs : fields)
with fields :=
| FNil
| FCons (fi : finfo) (t : ty) (rest : fields).

Inductive json :=
| JNull | JStr (s : string) | JNum (z : Z) | JBool (b : bool)
| JArr (l : list json) | JObj (m : list (string * json)).

Inductive value :=
| VStr (s : string) | VInt (z : Z) | VBool (b : bool)
| VOpq (j : json)
| VNil                         (* nil pointer / slice / map; content of a dropped field *)
| VPtr (v : value)
| VList (l : list value)       (* non-nil slice *)
| VMap (m : list (string * value))  (* non-nil map *)
| VStruct (l : list value).    (* one value per declared field, in declaration order *)

Fixpoint nodupb (l : list string) : bool :=
  match l with
  | [] => true
  | x :: r => negb (existsb (String.eqb x) r) && nodupb r
  end.

Fixpoint lookup {A} (k : string) (m : list (string * A)) : option A :=
  match m with
  | [] => None
  | (k', v) :: r => if String.eqb k k' then Some v else lookup k r
  end.

Fixpoint mapM {A B} (f : A -> option B) (l : list A) : option (list B) :=
  match l with
  | [] => Some []
  | x :: r => match f x, mapM f r with Some y, Some ys => Some (y :: ys) | _, _ => None end
  end.

Definition jnullb (j : json) : bool := match j with JNull => true | _ => false end.

(* reflect's isEmptyValue as used for omitempty: false, 0, "", nil pointer, len 0 slice/map.
   Structs (hence struct-kind opaque leaves) are never empty. *)
Definition is_empty (v : value) : bool :=
  match v with
  | VStr s => String.eqb s ""
  | VInt z => Z.eqb z 0
  | VBool b => negb b
  | VNil => true
  | VList [] => true
  | VMap [] => true
  | _ => false
  end.

Fixpoint field_names (fs : fields) : list string :=
  match fs with
  | FNil => []
  | FCons fi _ rest => if persisted_b fi then f_json fi :: field_names rest else field_names rest
  end.

Fixpoint zero (t : ty) : value :=
  match t with
  | TString => VStr ""
  | TInt => VInt 0
  | TBool => VBool false
  | TOpaque _ _ _ => VOpq JNull
  | TStruct _ fs => VStruct (zero_fields fs)
  | _ => VNil
  end
with zero_fields (fs : fields) : list value :=
  match fs with
  | FNil => []
  | FCons _ t rest => zero t :: zero_fields rest
  end.

Fixpoint enc (t : ty) (v : value) {struct t} : json :=
  match t, v with
  | TString, VStr s => JStr s
  | TInt, VInt z => JNum z
  | TBool, VBool b => JBool b
  | TOpaque _ _ _, VOpq j => j
  | TPtr t', VPtr w => enc t' w
  | TSlice t', VList l => JArr (map (enc t') l)
  | TMap t', VMap m => JObj (map (fun kv => (fst kv, enc t' (snd kv))) m)
  | TStruct _ fs, VStruct vs => JObj (enc_fields fs vs)
  | _, _ => JNull
  end
with enc_fields (fs : fields) (vs : list value) {struct fs} : list (string * json) :=
  match fs, vs with
  | FCons fi t rest, v :: vs' =>
      if persisted_b fi && negb (f_omitempty fi && is_empty v)
      then (f_json fi, enc t v) :: enc_fields rest vs'
      else enc_fields rest vs'
  | _, _ => []
  end.

(* json.Unmarshal into a fresh (zero) target: null leaves the zero value; a missing key leaves the
   zero value; unknown keys are ignored; objects with duplicate keys are refused by the model
   (Go lets the last one win; they are not in the image of enc). *)
Fixpoint dec (t : ty) (j : json) {struct t} : option value :=
  if jnullb j then Some (zero t) else
  match t with
  | TString => match j with JStr s => Some (VStr s) | _ => None end
  | TInt => match j with JNum z => Some (VInt z) | _ => None end
  | TBool => match j with JBool b => Some (VBool b) | _ => None end
  | TOpaque _ _ _ => Some (VOpq j)
  | TDropped => None
  | TUnsupported _ => None
  | TPtr t' => option_map VPtr (dec t' j)
  | TSlice t' => match j with JArr l => option_map VList (mapM (dec t') l) | _ => None end
  | TMap t' =>
      match j with
      | JObj m => if nodupb (map fst m)
                  then option_map VMap (mapM (fun kv => option_map (pair (fst kv)) (dec t' (snd kv))) m)
                  else None
      | _ => None
      end
  | TStruct _ fs =>
      match j with
      | JObj m => if nodupb (map fst m) then option_map VStruct (dec_fields fs m) else None
      | _ => None
      end
  end
with dec_fields (fs : fields) (m : list (string * json)) {struct fs} : option (list value) :=
  match fs with
  | FNil => Some []
  | FCons fi t rest =>
      match (if persisted_b fi
             then match lookup (f_json fi) m with Some j => dec t j | None => Some (zero t) end
             else Some (zero t)),
            dec_fields rest m with
      | Some v, Some vs => Some (v :: vs)
      | _, _ => None
      end
  end.

(* what a value looks like after save + reload *)
Fixpoint norm (t : ty) (v : value) {struct t} : value :=
  match t, v with
  | TPtr t', VPtr w => if jnullb (enc t' w) then VNil else VPtr (norm t' w)
  | TSlice t', VList l => VList (map (norm t') l)
  | TMap t', VMap m => VMap (map (fun kv => (fst kv, norm t' (snd kv))) m)
  | TStruct _ fs, VStruct vs => VStruct (norm_fields fs vs)
  | TDropped, _ => VNil
  | _, _ => v
  end
with norm_fields (fs : fields) (vs : list value) {struct fs} : list value :=
  match fs, vs with
  | FCons fi t rest, v :: vs' =>
      (if persisted_b fi
       then (if f_omitempty fi && is_empty v then zero t else norm t v)
       else zero t) :: norm_fields rest vs'
  | _, _ => []
  end.

Fixpoint well_typed (t : ty) (v : value) {struct t} : bool :=
  match t, v with
  | TString, VStr _ => true
  | TInt, VInt _ => true
  | TBool, VBool _ => true
  | TOpaque _ _ _, VOpq _ => true
  | TDropped, _ => true
  | TPtr _, VNil => true
  | TPtr t', VPtr w => well_typed t' w
  | TSlice _, VNil => true
  | TSlice t', VList l => forallb (well_typed t') l
  | TMap _, VNil => true
  | TMap t', VMap m => nodupb (map fst m) && forallb (fun kv => well_typed t' (snd kv)) m
  | TStruct _ fs, VStruct vs => wt_fields fs vs
  | _, _ => false
  end
with wt_fields (fs : fields) (vs : list value) {struct fs} : bool :=
  match fs, vs with
  | FNil, [] => true
  | FCons _ t rest, v :: vs' => well_typed t v && wt_fields rest vs'
  | _, _ => false
  end.

Definition omitempty_ok (fi : finfo) (t : ty) : bool :=
  negb (f_omitempty fi) || match t with TOpaque _ _ sk => sk | _ => true end.

Fixpoint roundtrippable (t : ty) : bool :=
  match t with
  | TString | TInt | TBool => true
  | TOpaque _ sym _ => sym
  | TDropped => false
  | TUnsupported _ => false
  | TPtr t' | TSlice t' | TMap t' => roundtrippable t'
  | TStruct _ fs => nodupb (field_names fs) && rt_fields fs
  end
with rt_fields (fs : fields) : bool :=
  match fs with
  | FNil => true
  | FCons fi t rest =>
      (if persisted_b fi then roundtrippable t && omitempty_ok fi t else true) && rt_fields rest
  end.

(* is field F of struct S written to the snapshot (exported, not json:"-", round-trippable type)? *)
Fixpoint find_field (f : string) (fs : fields) : option (finfo * ty) :=
  match fs with
  | FNil => None
  | FCons fi t rest => if String.eqb f (f_name fi) then Some (fi, t) else find_field f rest
  end.

Definition persisted (sch : list (string * ty)) (sf : string * string) : bool :=
  match lookup (fst sf) sch with
  | Some (TStruct _ fs) =>
      match find_field (snd sf) fs with
      | Some (fi, t) => persisted_b fi && roundtrippable t
      | None => false
      end
  | _ => false
  end.

(* The property's list ("identity, state, assigned resources, resource requirements and updates,
   tags, topology hints, affinities, policy entries") mapped to the struct fields that carry it. *)
Definition NRI := "github.com/containerd/nri/pkg/api.".
Definition required_fields : list (string * string) := [
  (* the snapshot itself: pods, containers, policy entries *)
  ("pkg/resmgr/cache.snapshot", "Version"); ("pkg/resmgr/cache.snapshot", "Pods");
  ("pkg/resmgr/cache.snapshot", "Containers"); ("pkg/resmgr/cache.snapshot", "NextID");
  ("pkg/resmgr/cache.snapshot", "PolicyName"); ("pkg/resmgr/cache.snapshot", "PolicyJSON");
  (* pod identity, QoS class, affinities (parsed form and the annotations they come from) *)
  ("pkg/resmgr/cache.pod", "Pod"); ("pkg/resmgr/cache.pod", "QOSClass"); ("pkg/resmgr/cache.pod", "Affinity");
  (NRI ++ "PodSandbox", "Id"); (NRI ++ "PodSandbox", "Name"); (NRI ++ "PodSandbox", "Uid");
  (NRI ++ "PodSandbox", "Namespace"); (NRI ++ "PodSandbox", "Labels"); (NRI ++ "PodSandbox", "Annotations");
  (NRI ++ "PodSandbox", "Linux"); (NRI ++ "LinuxPodSandbox", "CgroupParent");
  ("pkg/resmgr/cache.Affinity", "Scope"); ("pkg/resmgr/cache.Affinity", "Match"); ("pkg/resmgr/cache.Affinity", "Weight");
  ("pkg/apis/resmgr/v1alpha1.Expression", "Key"); ("pkg/apis/resmgr/v1alpha1.Expression", "Op");
  ("pkg/apis/resmgr/v1alpha1.Expression", "Values");
  (* container identity and state *)
  ("pkg/resmgr/cache.container", "Ctr");
  (NRI ++ "Container", "Id"); (NRI ++ "Container", "PodSandboxId"); (NRI ++ "Container", "Name");
  (NRI ++ "Container", "State"); (NRI ++ "Container", "Labels"); (NRI ++ "Container", "Annotations");
  (NRI ++ "Container", "Args"); (NRI ++ "Container", "Env"); (NRI ++ "Container", "Mounts");
  (NRI ++ "Container", "Linux");
  (NRI ++ "Mount", "Destination"); (NRI ++ "Mount", "Source"); (NRI ++ "Mount", "Type"); (NRI ++ "Mount", "Options");
  (NRI ++ "LinuxContainer", "Devices"); (NRI ++ "LinuxContainer", "Resources"); (NRI ++ "LinuxContainer", "OomScoreAdj");
  (NRI ++ "LinuxDevice", "Path"); (NRI ++ "LinuxDevice", "Type"); (NRI ++ "LinuxDevice", "Major"); (NRI ++ "LinuxDevice", "Minor");
  (* assigned resources *)
  (NRI ++ "LinuxResources", "Cpu"); (NRI ++ "LinuxResources", "Memory");
  (NRI ++ "LinuxResources", "RdtClass"); (NRI ++ "LinuxResources", "BlockioClass");
  (NRI ++ "LinuxCPU", "Shares"); (NRI ++ "LinuxCPU", "Quota"); (NRI ++ "LinuxCPU", "Period");
  (NRI ++ "LinuxCPU", "Cpus"); (NRI ++ "LinuxCPU", "Mems");
  (NRI ++ "LinuxMemory", "Limit"); (NRI ++ "LinuxMemory", "Swap");
  (NRI ++ "OptionalInt64", "Value"); (NRI ++ "OptionalUInt64", "Value"); (NRI ++ "OptionalString", "Value");
  (NRI ++ "OptionalInt", "Value");
  (* resource requirements and updates *)
  ("pkg/resmgr/cache.container", "Requirements"); ("pkg/resmgr/cache.container", "ResourceUpdates");
  ("k8s.io/api/core/v1.ResourceRequirements", "Limits"); ("k8s.io/api/core/v1.ResourceRequirements", "Requests");
  (* tags, topology hints, misc persisted container state *)
  ("pkg/resmgr/cache.container", "Tags"); ("pkg/resmgr/cache.container", "TopologyHints");
  ("pkg/topology.Hint", "Provider"); ("pkg/topology.Hint", "CPUs"); ("pkg/topology.Hint", "NUMAs"); ("pkg/topology.Hint", "Sockets");
  ("pkg/resmgr/cache.container", "CgroupDir"); ("pkg/resmgr/cache.container", "ToptierLimit")
].

(* --- equality tests and the correspondence checker (used on harness output only) --- *)
Fixpoint json_eqb (a b : json) {struct a} : bool :=
  match a, b with
  | JNull, JNull => true
  | JStr s, JStr s' => String.eqb s s'
  | JNum z, JNum z' => Z.eqb z z'
  | JBool x, JBool y => Bool.eqb x y
  | JArr l, JArr l' =>
      (fix go (l l' : list json) {struct l} : bool :=
         match l, l' with
         | [], [] => true
         | x :: r, y :: r' => json_eqb x y && go r r'
         | _, _ => false
         end) l l'
  | JObj m, JObj m' =>
      (fix go (m m' : list (string * json)) {struct m} : bool :=
         match m, m' with
         | [], [] => true
         | (k, x) :: r, (k', y) :: r' => String.eqb k k' && json_eqb x y && go r r'
         | _, _ => false
         end) m m'
  | _, _ => false
  end.

Fixpoint value_eqb (a b : value) {struct a} : bool :=
  match a, b with
  | VStr s, VStr s' => String.eqb s s'
  | VInt z, VInt z' => Z.eqb z z'
  | VBool x, VBool y => Bool.eqb x y
  | VOpq j, VOpq j' => json_eqb j j'
  | VNil, VNil => true
  | VPtr v, VPtr v' => value_eqb v v'
  | VList l, VList l' =>
      (fix go (l l' : list value) {struct l} : bool :=
         match l, l' with
         | [], [] => true
         | x :: r, y :: r' => value_eqb x y && go r r'
         | _, _ => false
         end) l l'
  | VMap m, VMap m' =>
      (fix go (m m' : list (string * value)) {struct m} : bool :=
         match m, m' with
         | [], [] => true
         | (k, x) :: r, (k', y) :: r' => String.eqb k k' && value_eqb x y && go r r'
         | _, _ => false
         end) m m'
  | VStruct l, VStruct l' =>
      (fix go (l l' : list value) {struct l} : bool :=
         match l, l' with
         | [], [] => true
         | x :: r, y :: r' => value_eqb x y && go r r'
         | _, _ => false
         end) l l'
  | _, _ => false
  end.

(* one observed save/reload: the in-memory value (walked by reflection), the JSON the real
   encoder produced, and the value the real decoder produced from it *)
Record codec_case := mkCase { cc_id : Z; cc_v : value; cc_json : json; cc_back : value }.

(* 1 = value does not inhabit the generated schema, 2 = enc differs from encoding/json,
   3 = dec differs from json.Unmarshal, 4 = reloaded value is not norm of the saved one *)
Definition codec_check (t : ty) (c : codec_case) : list (Z * Z) :=
  (if well_typed t (cc_v c) then [] else [(cc_id c, 1%Z)]) ++
  (if json_eqb (enc t (cc_v c)) (cc_json c) then [] else [(cc_id c, 2%Z)]) ++
  (match dec t (cc_json c) with
   | Some w => if value_eqb w (cc_back c) then [] else [(cc_id c, 3%Z)]
   | None => [(cc_id c, 3%Z)]
   end) ++
  (if value_eqb (norm t (cc_v c)) (cc_back c) then [] else [(cc_id c, 4%Z)]).

Definition codec_mismatches (t : ty) (cs : list codec_case) : list (Z * Z) :=
  flat_map (codec_check t) cs.

(* ------------------------------------------------------------------ Part 2: Save and crashes *)

Definition path := string.
Definition contents := string.
Definition fs := path -> option contents.

Definition upd (f : fs) (p : path) (c : option contents) : fs :=
  fun q => if String.eqb q p then c else f q.

(* syscall-level operations of a save; the bool says whether the code returns from Save when
   the operation reports an error (true) or carries on (false) *)
Inductive fsop :=
| OpCreate (p : path) (ab : bool)    (* open(O_WRONLY|O_CREAT|O_TRUNC) or CreateTemp: p := "" *)
| OpWrite (p : path) (ab : bool)     (* write the new snapshot to the fd of p (may stop after any byte) *)
| OpSync (p : path) (ab : bool)
| OpClose (p : path) (ab : bool)
| OpRename (a b : path) (ab : bool)  (* atomic replace *)
| OpRemove (p : path) (ab : bool).

Definition op_abort (o : fsop) : bool :=
  match o with
  | OpCreate _ ab | OpWrite _ ab | OpSync _ ab | OpClose _ ab | OpRename _ _ ab | OpRemove _ ab => ab
  end.

Fixpoint firstn_s (n : nat) (s : string) : string :=
  match n, s with
  | S n', String c r => String c (firstn_s n' r)
  | _, _ => ""
  end.

Definition cat (o : option contents) (s : string) : option contents :=
  Some (match o with Some c => c ++ s | None => s end).

(* complete effect of an operation *)
Definition step_ok (new : contents) (o : fsop) (f : fs) : fs :=
  match o with
  | OpCreate p _ => upd f p (Some "")
  | OpWrite p _ => upd f p (cat (f p) new)
  | OpSync _ _ | OpClose _ _ => f
  | OpRename a b _ => match f a with Some c => upd (upd f b (Some c)) a None | None => f end
  | OpRemove p _ => upd f p None
  end.

(* effect of an operation that is interrupted (crash) or fails (error return) after k bytes *)
Definition step_partial (new : contents) (o : fsop) (k : nat) (f : fs) : fs :=
  match o with
  | OpWrite p _ => upd f p (cat (f p) (firstn_s k new))
  | _ => f
  end.

(* every disk state that can be seen at some instant of running the program, where any operation
   may complete, be cut short by a crash, or fail with a partial effect (after which Save returns
   if the code checks the error, and carries on otherwise) *)
Inductive reach (new : contents) : list fsop -> fs -> fs -> Prop :=
| reach_here : forall p f, reach new p f f
| reach_ok : forall o p f f', reach new p (step_ok new o f) f' -> reach new (o :: p) f f'
| reach_cut : forall o p f k, reach new (o :: p) f (step_partial new o k f)
| reach_fail_on : forall o p f k f', op_abort o = false ->
    reach new p (step_partial new o k f) f' -> reach new (o :: p) f f'.

(* run to completion without failures *)
Fixpoint run (new : contents) (p : list fsop) (f : fs) : fs :=
  match p with
  | [] => f
  | o :: r => run new r (step_ok new o f)
  end.

(* static check: what do we know about each path?  AFull = holds exactly the new snapshot *)
Inductive absval := AUnknown | AEmpty | AFull.
Definition absst := path -> absval.
Definition aupd (s : absst) (p : path) (a : absval) : absst := fun q => if String.eqb q p then a else s q.
Definition is_full (a : absval) : bool := match a with AFull => true | _ => false end.
Definition is_emptyA (a : absval) : bool := match a with AEmpty => true | _ => false end.

(* `target` may only be replaced by renaming a file that holds the complete new snapshot *)
Fixpoint atomic_from (target : path) (s : absst) (p : list fsop) : bool :=
  match p with
  | [] => true
  | OpCreate q ab :: r => negb (String.eqb q target) && atomic_from target (aupd s q (if ab then AEmpty else AUnknown)) r
  | OpWrite q ab :: r => negb (String.eqb q target) &&
                         atomic_from target (aupd s q (if ab && is_emptyA (s q) then AFull else AUnknown)) r
  | OpSync _ _ :: r | OpClose _ _ :: r => atomic_from target s r
  | OpRename a b ab :: r =>
      negb (String.eqb a target) &&
      (if String.eqb b target then is_full (s a) else true) &&
      atomic_from target (aupd (aupd s b AUnknown) a AUnknown) r
  | OpRemove q _ :: r => negb (String.eqb q target) && atomic_from target (aupd s q AUnknown) r
  end.

Definition atomic_prog (target : path) (p : list fsop) : bool := atomic_from target (fun _ => AUnknown) p.

(* does a failure-free run leave the new snapshot in `target`? *)
Fixpoint commits_from (target : path) (s : absst) (p : list fsop) : bool :=
  match p with
  | [] => is_full (s target)
  | OpCreate q _ :: r => commits_from target (aupd s q AEmpty) r
  | OpWrite q _ :: r => commits_from target (aupd s q (if is_emptyA (s q) then AFull else AUnknown)) r
  | OpSync _ _ :: r | OpClose _ _ :: r => commits_from target s r
  | OpRename a b _ :: r =>
      if is_full (s a) then commits_from target (aupd (aupd s b AFull) a AUnknown) r else false
  | OpRemove q _ :: r => commits_from target (aupd s q AUnknown) r
  end.
Definition commits_prog (target : path) (p : list fsop) : bool := commits_from target (fun _ => AUnknown) p.

(* observed syscall skeleton (strace) vs generated program: same operations on the same names *)
Inductive obsop := ObsCreate (p : path) | ObsWrite (p : path) | ObsSync (p : path) | ObsClose (p : path)
                 | ObsRename (a b : path) | ObsRemove (p : path).
Definition erase (o : fsop) : obsop :=
  match o with
  | OpCreate p _ => ObsCreate p | OpWrite p _ => ObsWrite p | OpSync p _ => ObsSync p
  | OpClose p _ => ObsClose p | OpRename a b _ => ObsRename a b | OpRemove p _ => ObsRemove p
  end.
(* generated names of the form "<temp:pattern>" (os.CreateTemp) match any observed name *)
Definition path_match (g o : path) : bool := String.prefix "<temp:" g || String.eqb g o.
(* first argument: generated, second: observed *)
Definition obsop_eqb (a b : obsop) : bool :=
  match a, b with
  | ObsCreate p, ObsCreate q | ObsWrite p, ObsWrite q | ObsSync p, ObsSync q
  | ObsClose p, ObsClose q | ObsRemove p, ObsRemove q => path_match p q
  | ObsRename a1 b1, ObsRename a2 b2 => path_match a1 a2 && path_match b1 b2
  | _, _ => false
  end.
Fixpoint obs_eqb (a b : list obsop) : bool :=
  match a, b with
  | [], [] => true
  | x :: r, y :: r' => obsop_eqb x y && obs_eqb r r'
  | _, _ => false
  end.
(* ids of the observed saves whose skeleton differs from the generated one *)
Definition skeleton_mismatches (p : list fsop) (obs : list (Z * list obsop)) : list Z :=
  map fst (filter (fun o => negb (obs_eqb (map erase p) (snd o))) obs).

(* ------------------------------------------------------------------ Part 3: permissions *)
Open Scope Z_scope.

Inductive ftype := FTRegular | FTDir | FTSymlink | FTOther.
Inductive entry := Absent | Present (ft : ftype) (mode : Z).   (* mode = permission bits 0..511 *)
Inductive verdict := NotExist | Accept | Refuse.

Definition ftype_eqb (a b : ftype) : bool :=
  match a, b with
  | FTRegular, FTRegular | FTDir, FTDir | FTSymlink, FTSymlink | FTOther, FTOther => true
  | _, _ => false
  end.

(* cache.checkPerm: Lstat; symlink -> error; wrong type -> error; existing & reject <> 0 -> error *)
Definition check_perm (is_dir : bool) (reject : Z) (e : entry) : verdict :=
  match e with
  | Absent => NotExist
  | Present ft mode =>
      if ftype_eqb ft FTSymlink then Refuse
      else if negb (ftype_eqb ft (if is_dir then FTDir else FTRegular)) then Refuse
      else if negb (Z.land mode reject =? 0) then Refuse
      else Accept
  end.

(* NewCache: the list of (name, is_dir, reject mask) checks it performs, in order (generated);
   it refuses as soon as one check refuses; absent directories are created, an absent file is fine *)
Definition new_cache_accepts (checks : list (string * bool * Z)) (look : string -> entry) : bool :=
  forallb (fun c => match c with (name, is_dir, reject) =>
             match check_perm is_dir reject (look name) with Refuse => false | _ => true end end) checks.

Definition go_w : Z := 18.  (* 0o022: writable by group or others *)

Definition unsafe_entry (is_dir : bool) (e : entry) : bool :=
  match e with
  | Absent => false
  | Present ft mode =>
      ftype_eqb ft FTSymlink || negb (ftype_eqb ft (if is_dir then FTDir else FTRegular)) ||
      negb (Z.land mode go_w =? 0)
  end.

(* a permission-matrix observation: which of NewCache's checked names was prepared how, and
   whether NewCache returned an error *)
Record perm_case := mkPerm { pc_id : Z; pc_name : string; pc_ft : ftype; pc_mode : Z; pc_refused : bool }.

(* all other names are in their default safe state (directories 0o700, cache file absent) *)
Definition perm_look (c : perm_case) (dirs : list string) : string -> entry :=
  fun n => if String.eqb n (pc_name c) then Present (pc_ft c) (pc_mode c)
           else if existsb (String.eqb n) dirs then Present FTDir 448 else Absent.

Definition perm_mismatches (checks : list (string * bool * Z)) (cs : list perm_case) : list Z :=
  let dirs := map (fun c => fst (fst c)) (filter (fun c => snd (fst c)) checks) in
  map pc_id (filter (fun c => negb (Bool.eqb (negb (new_cache_accepts checks (perm_look c dirs))) (pc_refused c))) cs).
