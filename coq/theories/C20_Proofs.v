(* C20: lemmas.  The property theorems proper are restated in C20_Props.v. *)
From Coq Require Import ZArith Lia Bool List.
From NV Require Import Base.Range Gen.Gen_Consts C20_Model C20_Est.
From NV Require C20_Sweep00 C20_Sweep01 C20_Sweep02 C20_Sweep03 C20_Sweep04 C20_Sweep05 C20_Sweep06 C20_Sweep07
                C20_Sweep08 C20_Sweep09 C20_Sweep10 C20_Sweep11 C20_Sweep12 C20_Sweep13 C20_Sweep14 C20_Sweep15.
Open Scope Z_scope.

Ltac Zify.zify_post_hook ::= Z.to_euclidean_division_equations.

Ltac unfold_consts :=
  cbv [K_MinShares K_MaxShares K_SharesPerCPU K_MilliCPUToCPU K_QuotaPeriod K_MinQuotaPeriod
       K_GuaranteedOOMScoreAdj K_BestEffortOOMScoreAdj K_MinBurstableOOMScoreAdj K_MaxBurstableOOMScoreAdj] in *.

(* ---------- float = integer on the whole cgroup range (complete sweep) ---------- *)

Ltac shard H lo hi :=
  let Hs := fresh in
  pose proof (all_range_spec _ _ _ H) as Hs;
  match goal with
  | x : Z |- _ => specialize (Hs x)
  end.

Lemma shares_float_exact s : 2 <= s <= 262144 -> shares_to_milli_f s = shares_to_milli_z s.
Proof.
  intros Hs.
  assert (forall lo hi, all_range lo hi (fun s => shares_to_milli_f s =? shares_to_milli_z s) = true ->
                        lo <= s <= hi -> shares_to_milli_f s = shares_to_milli_z s) as A.
  { intros lo hi H Hr. apply Z.eqb_eq. exact (all_range_spec _ _ _ H s Hr). }
  destruct (Z_le_gt_dec s C20_Sweep00.shares_hi); [apply (A _ _ C20_Sweep00.shares_sweep); cbv [C20_Sweep00.shares_lo C20_Sweep00.shares_hi] in *; lia|].
  destruct (Z_le_gt_dec s C20_Sweep01.shares_hi); [apply (A _ _ C20_Sweep01.shares_sweep); cbv [C20_Sweep00.shares_hi C20_Sweep01.shares_lo C20_Sweep01.shares_hi] in *; lia|].
  destruct (Z_le_gt_dec s C20_Sweep02.shares_hi); [apply (A _ _ C20_Sweep02.shares_sweep); cbv [C20_Sweep01.shares_hi C20_Sweep02.shares_lo C20_Sweep02.shares_hi] in *; lia|].
  destruct (Z_le_gt_dec s C20_Sweep03.shares_hi); [apply (A _ _ C20_Sweep03.shares_sweep); cbv [C20_Sweep02.shares_hi C20_Sweep03.shares_lo C20_Sweep03.shares_hi] in *; lia|].
  destruct (Z_le_gt_dec s C20_Sweep04.shares_hi); [apply (A _ _ C20_Sweep04.shares_sweep); cbv [C20_Sweep03.shares_hi C20_Sweep04.shares_lo C20_Sweep04.shares_hi] in *; lia|].
  destruct (Z_le_gt_dec s C20_Sweep05.shares_hi); [apply (A _ _ C20_Sweep05.shares_sweep); cbv [C20_Sweep04.shares_hi C20_Sweep05.shares_lo C20_Sweep05.shares_hi] in *; lia|].
  destruct (Z_le_gt_dec s C20_Sweep06.shares_hi); [apply (A _ _ C20_Sweep06.shares_sweep); cbv [C20_Sweep05.shares_hi C20_Sweep06.shares_lo C20_Sweep06.shares_hi] in *; lia|].
  destruct (Z_le_gt_dec s C20_Sweep07.shares_hi); [apply (A _ _ C20_Sweep07.shares_sweep); cbv [C20_Sweep06.shares_hi C20_Sweep07.shares_lo C20_Sweep07.shares_hi] in *; lia|].
  destruct (Z_le_gt_dec s C20_Sweep08.shares_hi); [apply (A _ _ C20_Sweep08.shares_sweep); cbv [C20_Sweep07.shares_hi C20_Sweep08.shares_lo C20_Sweep08.shares_hi] in *; lia|].
  destruct (Z_le_gt_dec s C20_Sweep09.shares_hi); [apply (A _ _ C20_Sweep09.shares_sweep); cbv [C20_Sweep08.shares_hi C20_Sweep09.shares_lo C20_Sweep09.shares_hi] in *; lia|].
  destruct (Z_le_gt_dec s C20_Sweep10.shares_hi); [apply (A _ _ C20_Sweep10.shares_sweep); cbv [C20_Sweep09.shares_hi C20_Sweep10.shares_lo C20_Sweep10.shares_hi] in *; lia|].
  destruct (Z_le_gt_dec s C20_Sweep11.shares_hi); [apply (A _ _ C20_Sweep11.shares_sweep); cbv [C20_Sweep10.shares_hi C20_Sweep11.shares_lo C20_Sweep11.shares_hi] in *; lia|].
  destruct (Z_le_gt_dec s C20_Sweep12.shares_hi); [apply (A _ _ C20_Sweep12.shares_sweep); cbv [C20_Sweep11.shares_hi C20_Sweep12.shares_lo C20_Sweep12.shares_hi] in *; lia|].
  destruct (Z_le_gt_dec s C20_Sweep13.shares_hi); [apply (A _ _ C20_Sweep13.shares_sweep); cbv [C20_Sweep12.shares_hi C20_Sweep13.shares_lo C20_Sweep13.shares_hi] in *; lia|].
  destruct (Z_le_gt_dec s C20_Sweep14.shares_hi); [apply (A _ _ C20_Sweep14.shares_sweep); cbv [C20_Sweep13.shares_hi C20_Sweep14.shares_lo C20_Sweep14.shares_hi] in *; lia|].
  apply (A _ _ C20_Sweep15.shares_sweep); cbv [C20_Sweep14.shares_hi C20_Sweep15.shares_lo C20_Sweep15.shares_hi] in *; lia.
Qed.

Definition qof (m : Z) : Z := Z.quot (m * K_QuotaPeriod) K_MilliCPUToCPU.

Lemma quota_float_exact m : 0 <= m <= 256000 ->
  quota_to_milli_f (qof m) K_QuotaPeriod = quota_to_milli_z (qof m) K_QuotaPeriod.
Proof.
  intros Hs.
  assert (forall lo hi, all_range lo hi (fun m => quota_to_milli_f (Z.quot (m * K_QuotaPeriod) K_MilliCPUToCPU) K_QuotaPeriod
            =? quota_to_milli_z (Z.quot (m * K_QuotaPeriod) K_MilliCPUToCPU) K_QuotaPeriod) = true ->
                        lo <= m <= hi -> quota_to_milli_f (qof m) K_QuotaPeriod = quota_to_milli_z (qof m) K_QuotaPeriod) as A.
  { intros lo hi H Hr. apply Z.eqb_eq. exact (all_range_spec _ _ _ H m Hr). }
  destruct (Z_le_gt_dec m C20_Sweep00.quota_hi); [apply (A _ _ C20_Sweep00.quota_sweep); cbv [C20_Sweep00.quota_lo C20_Sweep00.quota_hi] in *; lia|].
  destruct (Z_le_gt_dec m C20_Sweep01.quota_hi); [apply (A _ _ C20_Sweep01.quota_sweep); cbv [C20_Sweep00.quota_hi C20_Sweep01.quota_lo C20_Sweep01.quota_hi] in *; lia|].
  destruct (Z_le_gt_dec m C20_Sweep02.quota_hi); [apply (A _ _ C20_Sweep02.quota_sweep); cbv [C20_Sweep01.quota_hi C20_Sweep02.quota_lo C20_Sweep02.quota_hi] in *; lia|].
  destruct (Z_le_gt_dec m C20_Sweep03.quota_hi); [apply (A _ _ C20_Sweep03.quota_sweep); cbv [C20_Sweep02.quota_hi C20_Sweep03.quota_lo C20_Sweep03.quota_hi] in *; lia|].
  destruct (Z_le_gt_dec m C20_Sweep04.quota_hi); [apply (A _ _ C20_Sweep04.quota_sweep); cbv [C20_Sweep03.quota_hi C20_Sweep04.quota_lo C20_Sweep04.quota_hi] in *; lia|].
  destruct (Z_le_gt_dec m C20_Sweep05.quota_hi); [apply (A _ _ C20_Sweep05.quota_sweep); cbv [C20_Sweep04.quota_hi C20_Sweep05.quota_lo C20_Sweep05.quota_hi] in *; lia|].
  destruct (Z_le_gt_dec m C20_Sweep06.quota_hi); [apply (A _ _ C20_Sweep06.quota_sweep); cbv [C20_Sweep05.quota_hi C20_Sweep06.quota_lo C20_Sweep06.quota_hi] in *; lia|].
  destruct (Z_le_gt_dec m C20_Sweep07.quota_hi); [apply (A _ _ C20_Sweep07.quota_sweep); cbv [C20_Sweep06.quota_hi C20_Sweep07.quota_lo C20_Sweep07.quota_hi] in *; lia|].
  destruct (Z_le_gt_dec m C20_Sweep08.quota_hi); [apply (A _ _ C20_Sweep08.quota_sweep); cbv [C20_Sweep07.quota_hi C20_Sweep08.quota_lo C20_Sweep08.quota_hi] in *; lia|].
  destruct (Z_le_gt_dec m C20_Sweep09.quota_hi); [apply (A _ _ C20_Sweep09.quota_sweep); cbv [C20_Sweep08.quota_hi C20_Sweep09.quota_lo C20_Sweep09.quota_hi] in *; lia|].
  destruct (Z_le_gt_dec m C20_Sweep10.quota_hi); [apply (A _ _ C20_Sweep10.quota_sweep); cbv [C20_Sweep09.quota_hi C20_Sweep10.quota_lo C20_Sweep10.quota_hi] in *; lia|].
  destruct (Z_le_gt_dec m C20_Sweep11.quota_hi); [apply (A _ _ C20_Sweep11.quota_sweep); cbv [C20_Sweep10.quota_hi C20_Sweep11.quota_lo C20_Sweep11.quota_hi] in *; lia|].
  destruct (Z_le_gt_dec m C20_Sweep12.quota_hi); [apply (A _ _ C20_Sweep12.quota_sweep); cbv [C20_Sweep11.quota_hi C20_Sweep12.quota_lo C20_Sweep12.quota_hi] in *; lia|].
  destruct (Z_le_gt_dec m C20_Sweep13.quota_hi); [apply (A _ _ C20_Sweep13.quota_sweep); cbv [C20_Sweep12.quota_hi C20_Sweep13.quota_lo C20_Sweep13.quota_hi] in *; lia|].
  destruct (Z_le_gt_dec m C20_Sweep14.quota_hi); [apply (A _ _ C20_Sweep14.quota_sweep); cbv [C20_Sweep13.quota_hi C20_Sweep14.quota_lo C20_Sweep14.quota_hi] in *; lia|].
  apply (A _ _ C20_Sweep15.quota_sweep); cbv [C20_Sweep14.quota_hi C20_Sweep15.quota_lo C20_Sweep15.quota_hi] in *; lia.
Qed.

(* ---------- integer laws ---------- *)

Lemma shares_roundtrip m : 0 <= m <= 256000 ->
  Z.abs (shares_to_milli_z (milli_to_shares m) - m) <= (if m <=? 2 then 2 else 1).
Proof.
  intros Hm. unfold shares_to_milli_z, milli_to_shares. unfold_consts.
  destruct (m <=? 2) eqn:E4;
  destruct (m =? 0) eqn:E0; [change (2 =? 2) with true; cbv iota; lia| |change (2 =? 2) with true; cbv iota; lia|];
  (destruct (Z.quot (m * 1024) 1000 <? 2) eqn:E1; [change (2 =? 2) with true; cbv iota; lia|]);
  (destruct (Z.quot (m * 1024) 1000 >? 262144) eqn:E2; [lia|]);
  destruct (Z.quot (m * 1024) 1000 =? 2) eqn:E3; lia.
Qed.

Lemma shares_exact_125 k : 0 <= k -> 125 * k <= 256000 ->
  shares_to_milli_z (milli_to_shares (125 * k)) = 125 * k.
Proof.
  intros Hk Hm. unfold shares_to_milli_z, milli_to_shares. unfold_consts.
  destruct (125 * k =? 0) eqn:E0; [change (2 =? 2) with true; cbv iota; lia|].
  destruct (Z.quot (125 * k * 1024) 1000 <? 2) eqn:E1; [lia|].
  destruct (Z.quot (125 * k * 1024) 1000 >? 262144) eqn:E2; [lia|].
  destruct (Z.quot (125 * k * 1024) 1000 =? 2) eqn:E3; lia.
Qed.

Lemma milli_to_shares_monotone m1 m2 : 0 <= m1 <= m2 -> milli_to_shares m1 <= milli_to_shares m2.
Proof.
  intros H. unfold milli_to_shares. unfold_consts.
  destruct (m1 =? 0) eqn:?; destruct (m2 =? 0) eqn:?;
  destruct (Z.quot (m1 * 1024) 1000 <? 2) eqn:?; destruct (Z.quot (m2 * 1024) 1000 <? 2) eqn:?;
  destruct (Z.quot (m1 * 1024) 1000 >? 262144) eqn:?; destruct (Z.quot (m2 * 1024) 1000 >? 262144) eqn:?; lia.
Qed.

Lemma shares_to_milli_monotone s1 s2 : 2 <= s1 <= s2 -> shares_to_milli_z s1 <= shares_to_milli_z s2.
Proof.
  intros H. unfold shares_to_milli_z. unfold_consts.
  destruct (s1 =? 2) eqn:?; destruct (s2 =? 2) eqn:?; lia.
Qed.

Lemma quota_exact m : 10 <= m ->
  quota_to_milli_z (fst (milli_to_quota m)) (snd (milli_to_quota m)) = m.
Proof.
  intros H. unfold quota_to_milli_z, milli_to_quota. unfold_consts.
  destruct (m =? 0) eqn:?; [lia|].
  destruct (Z.quot (m * 100000) 1000 <? 1000) eqn:?; cbn [fst snd]; [lia|].
  destruct ((Z.quot (m * 100000) 1000 =? 0) || (100000 =? 0)) eqn:E; [apply orb_true_iff in E; lia|].
  lia.
Qed.

Lemma milli_to_quota_monotone m1 m2 : 0 <= m1 <= m2 -> fst (milli_to_quota m1) <= fst (milli_to_quota m2).
Proof.
  intros H. unfold milli_to_quota. unfold_consts.
  destruct (m1 =? 0) eqn:?; destruct (m2 =? 0) eqn:?; cbn [fst];
  destruct (Z.quot (m1 * 100000) 1000 <? 1000) eqn:?; destruct (Z.quot (m2 * 100000) 1000 <? 1000) eqn:?; lia.
Qed.

Lemma quota_to_milli_monotone q1 q2 p : 0 < p -> 0 <= q1 <= q2 -> quota_to_milli_z q1 p <= quota_to_milli_z q2 p.
Proof.
  intros Hp H. unfold quota_to_milli_z. unfold_consts.
  destruct (q1 =? 0) eqn:?; destruct (q2 =? 0) eqn:?; destruct (p =? 0) eqn:?; cbn [orb]; try lia.
  - assert (0 <= (2 * q2 * 1000 + p) / (2 * p)) by (apply Z.div_pos; lia). lia.
  - apply Z.div_le_mono; lia.
Qed.

(* ---------- OOM adjustment table: specification-level laws ---------- *)

Lemma wrap64_id z : - 2^63 <= z < 2^63 -> wrap64 z = z.
Proof. unfold wrap64. intros H. change (2^63) with 9223372036854775808 in *. change (2^64) with 18446744073709551616. lia. Qed.

(* exact for every capacity and every non-negative request whose quotient fits 64 bits -- in particular
   for every request up to the capacity, whatever the capacity *)
Lemma mem_req_to_oom_exact cap r : 0 < cap -> 0 <= r -> (1000 * r) / 2^64 < cap ->
  mem_req_to_oom cap r = adj_of cap r.
Proof.
  intros Hc Hr Hq. unfold mem_req_to_oom, adj_of, mul64, div64.
  destruct (r <? 0) eqn:E1; [lia|]. destruct (cap <=? 0) eqn:E2; [lia|]. cbn [orb].
  replace (r * 1000) with (1000 * r) by lia.
  destruct (cap <=? (1000 * r) / 2^64) eqn:E3; [lia|].
  rewrite Z.mul_comm, <- Z.div_mod by (change (2^64) with 18446744073709551616; lia). reflexivity.
Qed.

Lemma mem_req_to_oom_nowrap cap r : 0 < cap -> 0 <= r -> 1000 * r < 2^63 ->
  mem_req_to_oom cap r = adj_of cap r.
Proof.
  intros Hc Hr Hw. apply mem_req_to_oom_exact; [lia|lia|].
  assert ((1000 * r) / 2^64 = 0); [|lia].
  apply Z.div_small. change (2^64) with 18446744073709551616. change (2^63) with 9223372036854775808 in Hw. lia.
Qed.

(* a request never exceeds the capacity in the table construction: exact for EVERY capacity below 2^63 *)
Lemma mem_req_to_oom_exact_le_cap cap r : 1000 <= cap < 2^63 -> 0 <= r <= cap + cap / 1000 + 1 ->
  mem_req_to_oom cap r = adj_of cap r.
Proof.
  intros Hc Hr. apply mem_req_to_oom_exact; [lia|lia|].
  change (2^63) with 9223372036854775808 in Hc.
  assert (H : (1000 * r) / 2^64 <= (1000 * (cap + cap / 1000 + 1)) / 2^64) by (apply Z.div_le_mono; change (2^64) with 18446744073709551616; lia).
  assert (H2 : (1000 * (cap + cap / 1000 + 1)) / 2^64 < 1000).
  { apply Z.div_lt_upper_bound; change (2^64) with 18446744073709551616; [lia|].
    assert (cap / 1000 <= cap) by (apply Z.div_le_upper_bound; lia). lia. }
  lia.
Qed.

(* the specified table entry maps back to its adjustment, and is the least such request *)
Lemma tbl_spec_roundtrip cap a : 1000 <= cap -> 0 <= a <= 1000 -> adj_of cap (tbl_spec cap a) = a.
Proof. intros Hc Ha. unfold adj_of, tbl_spec. nia || lia. Qed.
