(* Balloons: partition / shared-idle / membership invariants for all histories and choices. *)
From Coq Require Import ZArith List Bool Lia.
From stdpp Require Import gmap sets fin_sets.
From NV Require Import Bln_Model.
Import ListNotations.

Record BInv (s : bst) : Prop := {
  bi_within : forall b x, blns s !! b = Some x -> b_cpus x ⊆ allowed s;
  bi_notfree : forall b x, blns s !! b = Some x -> b_cpus x ## freec s;
  bi_shared : forall b x, blns s !! b = Some x -> b_shared x ⊆ freec s ∖ isolated s;
  bi_disj : forall b1 b2 x1 x2, b1 <> b2 -> blns s !! b1 = Some x1 -> blns s !! b2 = Some x2 -> b_cpus x1 ## b_cpus x2;
  bi_free : freec s ⊆ allowed s;
  bi_cover : forall cpu, cpu ∈ allowed s -> cpu ∈ freec s \/ exists b x, blns s !! b = Some x /\ cpu ∈ b_cpus x;
  bi_member : forall c b1 b2 x1 x2, blns s !! b1 = Some x1 -> blns s !! b2 = Some x2 ->
                                    c ∈ b_members x1 -> c ∈ b_members x2 -> b1 = b2;
}.

Lemma BInv_init al iso : BInv (binit al iso).
Proof.
  split; unfold binit; cbn [blns freec allowed isolated].
  - intros b x H. rewrite lookup_empty in H. discriminate.
  - intros b x H. rewrite lookup_empty in H. discriminate.
  - intros b x H. rewrite lookup_empty in H. discriminate.
  - intros b1 b2 x1 x2 _ H. rewrite lookup_empty in H. discriminate.
  - set_solver.
  - intros cpu H. left. exact H.
  - intros c b1 b2 x1 x2 H. rewrite lookup_empty in H. discriminate.
Qed.

Lemma subseteqb_true a b : subseteqb a b = true -> a ⊆ b.
Proof. unfold subseteqb. intros H. apply bool_decide_eq_true in H. exact H. Qed.

Lemma member_of_nil s c : member_of s c = [] -> forall b x, blns s !! b = Some x -> c ∉ b_members x.
Proof.
  unfold member_of. intros H b x Hb Hc.
  assert (Hin : (b, x) ∈ filter (fun kv : nat * bln => bool_decide (c ∈ b_members (snd kv))) (map_to_list (blns s))).
  { apply elem_of_list_filter. split; [cbn; apply bool_decide_pack; exact Hc|]. apply elem_of_map_to_list. exact Hb. }
  apply (elem_of_list_fmap_1 fst) in Hin. rewrite H in Hin. inversion Hin.
Qed.

Lemma bstep_preserves s o s' : BInv s -> bstep s o = BOk s' -> BInv s'.
Proof.
  intros HI. destruct o as [b|b|b X|b X|b Sh|b Sh|c b|c]; cbn [bstep].
  - (* BNew *)
    destruct (blns s !! b) eqn:Hb; [discriminate|]. intros [= <-].
    split; cbn [blns freec allowed isolated set_blns].
    + intros b' x H. destruct (decide (b' = b)) as [->|Hn]; [rewrite lookup_insert in H; injection H as <-; cbn; set_solver|].
      rewrite lookup_insert_ne in H by congruence. exact (bi_within s HI b' x H).
    + intros b' x H. destruct (decide (b' = b)) as [->|Hn]; [rewrite lookup_insert in H; injection H as <-; cbn; set_solver|].
      rewrite lookup_insert_ne in H by congruence. exact (bi_notfree s HI b' x H).
    + intros b' x H. destruct (decide (b' = b)) as [->|Hn]; [rewrite lookup_insert in H; injection H as <-; cbn; set_solver|].
      rewrite lookup_insert_ne in H by congruence. exact (bi_shared s HI b' x H).
    + intros b1 b2 x1 x2 Hne H1 H2.
      destruct (decide (b1 = b)) as [->|Hn1]; [rewrite lookup_insert in H1; injection H1 as <-; cbn; set_solver|].
      destruct (decide (b2 = b)) as [->|Hn2]; [rewrite lookup_insert in H2; injection H2 as <-; cbn; set_solver|].
      rewrite lookup_insert_ne in H1, H2 by congruence. exact (bi_disj s HI b1 b2 x1 x2 Hne H1 H2).
    + exact (bi_free s HI).
    + intros cpu Hc. destruct (bi_cover s HI cpu Hc) as [?|(b' & x & Hb' & Hx)]; [left; assumption|].
      right. exists b', x. split; [|exact Hx]. rewrite lookup_insert_ne; [exact Hb'|]. intros <-. congruence.
    + intros c b1 b2 x1 x2 H1 H2 Hc1 Hc2.
      destruct (decide (b1 = b)) as [->|Hn1]; [rewrite lookup_insert in H1; injection H1 as <-; cbn in Hc1; set_solver|].
      destruct (decide (b2 = b)) as [->|Hn2]; [rewrite lookup_insert in H2; injection H2 as <-; cbn in Hc2; set_solver|].
      rewrite lookup_insert_ne in H1, H2 by congruence. exact (bi_member s HI c b1 b2 x1 x2 H1 H2 Hc1 Hc2).
  - (* BDelete *)
    destruct (blns s !! b) as [x0|] eqn:Hb; [|discriminate].
    destruct (bool_decide (b_members x0 = ∅)); [|discriminate]. intros [= <-].
    split; cbn [blns freec allowed isolated set_blns set_free].
    + intros b' x H. apply lookup_delete_Some in H as [_ H]. exact (bi_within s HI b' x H).
    + intros b' x H. apply lookup_delete_Some in H as [Hn H].
      pose proof (bi_notfree s HI b' x H). pose proof (bi_disj s HI b' b x x0 (not_eq_sym Hn) H Hb). set_solver.
    + intros b' x H. apply lookup_delete_Some in H as [_ H]. pose proof (bi_shared s HI b' x H). set_solver.
    + intros b1 b2 x1 x2 Hne H1 H2. apply lookup_delete_Some in H1 as [_ H1]. apply lookup_delete_Some in H2 as [_ H2].
      exact (bi_disj s HI b1 b2 x1 x2 Hne H1 H2).
    + pose proof (bi_free s HI). pose proof (bi_within s HI b x0 Hb). set_solver.
    + intros cpu Hc. destruct (bi_cover s HI cpu Hc) as [?|(b' & x & Hb' & Hx)]; [left; set_solver|].
      destruct (decide (b' = b)) as [->|Hn]; [left; rewrite Hb in Hb'; injection Hb' as <-; set_solver|].
      right. exists b', x. split; [|exact Hx]. apply lookup_delete_Some. auto.
    + intros c b1 b2 x1 x2 H1 H2. apply lookup_delete_Some in H1 as [_ H1]. apply lookup_delete_Some in H2 as [_ H2].
      exact (bi_member s HI c b1 b2 x1 x2 H1 H2).
  - (* BInflate *)
    destruct (blns s !! b) as [x0|] eqn:Hb; [|discriminate].
    destruct (subseteqb X (freec s)) eqn:HX; [|discriminate]. apply subseteqb_true in HX. intros [= <-].
    set (m := <[b := {| b_cpus := b_cpus x0 ∪ X; b_shared := b_shared x0; b_members := b_members x0 |}]> (blns s)).
    assert (Hlk : forall b' y, ((fun y => {| b_cpus := b_cpus y; b_shared := b_shared y ∖ X; b_members := b_members y |}) <$> m) !! b' = Some y ->
              exists x, m !! b' = Some x /\ b_cpus y = b_cpus x /\ b_shared y = b_shared x ∖ X /\ b_members y = b_members x).
    { intros b' y H. rewrite lookup_fmap in H. destruct (m !! b') as [x|]; [|discriminate]. injection H as <-. exists x. cbn. auto. }
    assert (Hm : forall b' x, m !! b' = Some x ->
              (b' = b /\ b_cpus x = b_cpus x0 ∪ X /\ b_shared x = b_shared x0 /\ b_members x = b_members x0) \/ (b' <> b /\ blns s !! b' = Some x)).
    { intros b' x H. unfold m in H. destruct (decide (b' = b)) as [->|Hn].
      - rewrite lookup_insert in H. injection H as <-. left. cbn. auto.
      - rewrite lookup_insert_ne in H by congruence. right. auto. }
    pose proof (bi_free s HI) as Hfree.
    split; cbn [blns freec allowed isolated set_blns set_free].
    + intros b' y H. apply Hlk in H as (x & Hx & -> & _). apply Hm in Hx as [(-> & -> & _)|(Hn & Hx)].
      * pose proof (bi_within s HI b x0 Hb). set_solver.
      * exact (bi_within s HI b' x Hx).
    + intros b' y H. apply Hlk in H as (x & Hx & -> & _). apply Hm in Hx as [(-> & -> & _)|(Hn & Hx)].
      * pose proof (bi_notfree s HI b x0 Hb). set_solver.
      * pose proof (bi_notfree s HI b' x Hx). set_solver.
    + intros b' y H. apply Hlk in H as (x & Hx & _ & -> & _). apply Hm in Hx as [(-> & _ & -> & _)|(Hn & Hx)].
      * pose proof (bi_shared s HI b x0 Hb). set_solver.
      * pose proof (bi_shared s HI b' x Hx). set_solver.
    + intros b1 b2 y1 y2 Hne H1 H2. apply Hlk in H1 as (x1 & Hx1 & -> & _). apply Hlk in H2 as (x2 & Hx2 & -> & _).
      apply Hm in Hx1 as [(-> & -> & _)|(Hn1 & Hx1)]; apply Hm in Hx2 as [(-> & -> & _)|(Hn2 & Hx2)]; try congruence.
      * pose proof (bi_disj s HI b b2 x0 x2 Hne Hb Hx2). pose proof (bi_notfree s HI b2 x2 Hx2). set_solver.
      * pose proof (bi_disj s HI b1 b x1 x0 Hne Hx1 Hb). pose proof (bi_notfree s HI b1 x1 Hx1). set_solver.
      * exact (bi_disj s HI b1 b2 x1 x2 Hne Hx1 Hx2).
    + set_solver.
    + intros cpu Hc. destruct (decide (cpu ∈ X)) as [HcX|HcX].
      * right. exists b. eexists. split; [rewrite lookup_fmap; unfold m; rewrite lookup_insert; reflexivity|]. cbn. set_solver.
      * destruct (bi_cover s HI cpu Hc) as [?|(b' & x & Hb' & Hx)]; [left; set_solver|]. right.
        destruct (decide (b' = b)) as [->|Hn].
        -- exists b. eexists. split; [rewrite lookup_fmap; unfold m; rewrite lookup_insert; reflexivity|]. cbn. rewrite Hb in Hb'. injection Hb' as <-. set_solver.
        -- exists b'. eexists. split; [rewrite lookup_fmap; unfold m; rewrite lookup_insert_ne by congruence; rewrite Hb'; reflexivity|]. cbn. exact Hx.
    + intros c b1 b2 y1 y2 H1 H2 Hc1 Hc2. apply Hlk in H1 as (x1 & Hx1 & _ & _ & E1). apply Hlk in H2 as (x2 & Hx2 & _ & _ & E2).
      rewrite E1 in Hc1. rewrite E2 in Hc2.
      apply Hm in Hx1 as [(-> & _ & _ & M1)|(Hn1 & Hx1)]; apply Hm in Hx2 as [(-> & _ & _ & M2)|(Hn2 & Hx2)]; try reflexivity.
      * rewrite M1 in Hc1. exact (bi_member s HI c b b2 x0 x2 Hb Hx2 Hc1 Hc2).
      * rewrite M2 in Hc2. exact (bi_member s HI c b1 b x1 x0 Hx1 Hb Hc1 Hc2).
      * exact (bi_member s HI c b1 b2 x1 x2 Hx1 Hx2 Hc1 Hc2).
  - (* BDeflate *)
    destruct (blns s !! b) as [x0|] eqn:Hb; [|discriminate].
    destruct (subseteqb X (b_cpus x0)) eqn:HX; [|discriminate]. apply subseteqb_true in HX. intros [= <-].
    assert (Hm : forall b' x, <[b := {| b_cpus := b_cpus x0 ∖ X; b_shared := b_shared x0; b_members := b_members x0 |}]> (blns s) !! b' = Some x ->
              (b' = b /\ b_cpus x = b_cpus x0 ∖ X /\ b_shared x = b_shared x0 /\ b_members x = b_members x0) \/ (b' <> b /\ blns s !! b' = Some x)).
    { intros b' x H. destruct (decide (b' = b)) as [->|Hn].
      - rewrite lookup_insert in H. injection H as <-. left. cbn. auto.
      - rewrite lookup_insert_ne in H by congruence. right. auto. }
    pose proof (bi_within s HI b x0 Hb) as Hw0. pose proof (bi_notfree s HI b x0 Hb) as Hn0.
    split; cbn [blns freec allowed isolated set_blns set_free].
    + intros b' x H. apply Hm in H as [(-> & -> & _)|(Hn & Hx)]; [set_solver|exact (bi_within s HI b' x Hx)].
    + intros b' x H. apply Hm in H as [(-> & -> & _)|(Hn & Hx)]; [set_solver|].
      pose proof (bi_notfree s HI b' x Hx). pose proof (bi_disj s HI b' b x x0 Hn Hx Hb). set_solver.
    + intros b' x H. apply Hm in H as [(-> & _ & -> & _)|(Hn & Hx)].
      * pose proof (bi_shared s HI b x0 Hb). set_solver.
      * pose proof (bi_shared s HI b' x Hx). set_solver.
    + intros b1 b2 x1 x2 Hne H1 H2.
      apply Hm in H1 as [(-> & -> & _)|(Hn1 & Hx1)]; apply Hm in H2 as [(-> & -> & _)|(Hn2 & Hx2)]; try congruence.
      * pose proof (bi_disj s HI b b2 x0 x2 Hne Hb Hx2). set_solver.
      * pose proof (bi_disj s HI b1 b x1 x0 Hne Hx1 Hb). set_solver.
      * exact (bi_disj s HI b1 b2 x1 x2 Hne Hx1 Hx2).
    + pose proof (bi_free s HI). set_solver.
    + intros cpu Hc. destruct (bi_cover s HI cpu Hc) as [?|(b' & x & Hb' & Hx)]; [left; set_solver|].
      destruct (decide (b' = b)) as [->|Hn].
      * rewrite Hb in Hb'. injection Hb' as <-. destruct (decide (cpu ∈ X)); [left; set_solver|].
        right. exists b. eexists. split; [rewrite lookup_insert; reflexivity|]. cbn. set_solver.
      * right. exists b', x. split; [rewrite lookup_insert_ne by congruence; exact Hb'|exact Hx].
    + intros c b1 b2 x1 x2 H1 H2 Hc1 Hc2.
      apply Hm in H1 as [(-> & _ & _ & M1)|(Hn1 & Hx1)]; apply Hm in H2 as [(-> & _ & _ & M2)|(Hn2 & Hx2)]; try reflexivity.
      * rewrite M1 in Hc1. exact (bi_member s HI c b b2 x0 x2 Hb Hx2 Hc1 Hc2).
      * rewrite M2 in Hc2. exact (bi_member s HI c b1 b x1 x0 Hx1 Hb Hc1 Hc2).
      * exact (bi_member s HI c b1 b2 x1 x2 Hx1 Hx2 Hc1 Hc2).
  - (* BShare *)
    destruct (blns s !! b) as [x0|] eqn:Hb; [|discriminate].
    destruct (subseteqb Sh (freec s ∖ isolated s)) eqn:HS; [|discriminate]. apply subseteqb_true in HS. intros [= <-].
    assert (Hm : forall b' x, <[b := {| b_cpus := b_cpus x0; b_shared := b_shared x0 ∪ Sh; b_members := b_members x0 |}]> (blns s) !! b' = Some x ->
              (b' = b /\ b_cpus x = b_cpus x0 /\ b_shared x = b_shared x0 ∪ Sh /\ b_members x = b_members x0) \/ (b' <> b /\ blns s !! b' = Some x)).
    { intros b' x H. destruct (decide (b' = b)) as [->|Hn].
      - rewrite lookup_insert in H. injection H as <-. left. cbn. auto.
      - rewrite lookup_insert_ne in H by congruence. right. auto. }
    split; cbn [blns freec allowed isolated set_blns set_free].
    + intros b' x H. apply Hm in H as [(-> & -> & _)|(Hn & Hx)]; [exact (bi_within s HI b x0 Hb)|exact (bi_within s HI b' x Hx)].
    + intros b' x H. apply Hm in H as [(-> & -> & _)|(Hn & Hx)]; [exact (bi_notfree s HI b x0 Hb)|exact (bi_notfree s HI b' x Hx)].
    + intros b' x H. apply Hm in H as [(-> & _ & -> & _)|(Hn & Hx)].
      * pose proof (bi_shared s HI b x0 Hb). set_solver.
      * exact (bi_shared s HI b' x Hx).
    + intros b1 b2 x1 x2 Hne H1 H2.
      apply Hm in H1 as [(-> & -> & _)|(Hn1 & Hx1)]; apply Hm in H2 as [(-> & -> & _)|(Hn2 & Hx2)]; try congruence.
      * exact (bi_disj s HI b b2 x0 x2 Hne Hb Hx2).
      * exact (bi_disj s HI b1 b x1 x0 Hne Hx1 Hb).
      * exact (bi_disj s HI b1 b2 x1 x2 Hne Hx1 Hx2).
    + exact (bi_free s HI).
    + intros cpu Hc. destruct (bi_cover s HI cpu Hc) as [?|(b' & x & Hb' & Hx)]; [left; assumption|]. right.
      destruct (decide (b' = b)) as [->|Hn].
      * exists b. eexists. split; [rewrite lookup_insert; reflexivity|]. cbn. rewrite Hb in Hb'. injection Hb' as <-. exact Hx.
      * exists b', x. split; [rewrite lookup_insert_ne by congruence; exact Hb'|exact Hx].
    + intros c b1 b2 x1 x2 H1 H2 Hc1 Hc2.
      apply Hm in H1 as [(-> & _ & _ & M1)|(Hn1 & Hx1)]; apply Hm in H2 as [(-> & _ & _ & M2)|(Hn2 & Hx2)]; try reflexivity.
      * rewrite M1 in Hc1. exact (bi_member s HI c b b2 x0 x2 Hb Hx2 Hc1 Hc2).
      * rewrite M2 in Hc2. exact (bi_member s HI c b1 b x1 x0 Hx1 Hb Hc1 Hc2).
      * exact (bi_member s HI c b1 b2 x1 x2 Hx1 Hx2 Hc1 Hc2).
  - (* BUnshare *)
    destruct (blns s !! b) as [x0|] eqn:Hb; [|discriminate]. intros [= <-].
    assert (Hm : forall b' x, <[b := {| b_cpus := b_cpus x0; b_shared := b_shared x0 ∖ Sh; b_members := b_members x0 |}]> (blns s) !! b' = Some x ->
              (b' = b /\ b_cpus x = b_cpus x0 /\ b_shared x = b_shared x0 ∖ Sh /\ b_members x = b_members x0) \/ (b' <> b /\ blns s !! b' = Some x)).
    { intros b' x H. destruct (decide (b' = b)) as [->|Hn].
      - rewrite lookup_insert in H. injection H as <-. left. cbn. auto.
      - rewrite lookup_insert_ne in H by congruence. right. auto. }
    split; cbn [blns freec allowed isolated set_blns set_free].
    + intros b' x H. apply Hm in H as [(-> & -> & _)|(Hn & Hx)]; [exact (bi_within s HI b x0 Hb)|exact (bi_within s HI b' x Hx)].
    + intros b' x H. apply Hm in H as [(-> & -> & _)|(Hn & Hx)]; [exact (bi_notfree s HI b x0 Hb)|exact (bi_notfree s HI b' x Hx)].
    + intros b' x H. apply Hm in H as [(-> & _ & -> & _)|(Hn & Hx)].
      * pose proof (bi_shared s HI b x0 Hb). set_solver.
      * exact (bi_shared s HI b' x Hx).
    + intros b1 b2 x1 x2 Hne H1 H2.
      apply Hm in H1 as [(-> & -> & _)|(Hn1 & Hx1)]; apply Hm in H2 as [(-> & -> & _)|(Hn2 & Hx2)]; try congruence.
      * exact (bi_disj s HI b b2 x0 x2 Hne Hb Hx2).
      * exact (bi_disj s HI b1 b x1 x0 Hne Hx1 Hb).
      * exact (bi_disj s HI b1 b2 x1 x2 Hne Hx1 Hx2).
    + exact (bi_free s HI).
    + intros cpu Hc. destruct (bi_cover s HI cpu Hc) as [?|(b' & x & Hb' & Hx)]; [left; assumption|]. right.
      destruct (decide (b' = b)) as [->|Hn].
      * exists b. eexists. split; [rewrite lookup_insert; reflexivity|]. cbn. rewrite Hb in Hb'. injection Hb' as <-. exact Hx.
      * exists b', x. split; [rewrite lookup_insert_ne by congruence; exact Hb'|exact Hx].
    + intros c b1 b2 x1 x2 H1 H2 Hc1 Hc2.
      apply Hm in H1 as [(-> & _ & _ & M1)|(Hn1 & Hx1)]; apply Hm in H2 as [(-> & _ & _ & M2)|(Hn2 & Hx2)]; try reflexivity.
      * rewrite M1 in Hc1. exact (bi_member s HI c b b2 x0 x2 Hb Hx2 Hc1 Hc2).
      * rewrite M2 in Hc2. exact (bi_member s HI c b1 b x1 x0 Hx1 Hb Hc1 Hc2).
      * exact (bi_member s HI c b1 b2 x1 x2 Hx1 Hx2 Hc1 Hc2).
  - (* BAssign *)
    destruct (blns s !! b) as [x0|] eqn:Hb; [|discriminate].
    destruct (member_of s c) eqn:Hmo; [|discriminate]. intros [= <-].
    pose proof (member_of_nil s c Hmo) as Hnone.
    assert (Hm : forall b' x, <[b := {| b_cpus := b_cpus x0; b_shared := b_shared x0; b_members := b_members x0 ∪ {[c]} |}]> (blns s) !! b' = Some x ->
              (b' = b /\ b_cpus x = b_cpus x0 /\ b_shared x = b_shared x0 /\ b_members x = b_members x0 ∪ {[c]}) \/ (b' <> b /\ blns s !! b' = Some x)).
    { intros b' x H. destruct (decide (b' = b)) as [->|Hn].
      - rewrite lookup_insert in H. injection H as <-. left. cbn. auto.
      - rewrite lookup_insert_ne in H by congruence. right. auto. }
    split; cbn [blns freec allowed isolated set_blns set_free].
    + intros b' x H. apply Hm in H as [(-> & -> & _)|(Hn & Hx)]; [exact (bi_within s HI b x0 Hb)|exact (bi_within s HI b' x Hx)].
    + intros b' x H. apply Hm in H as [(-> & -> & _)|(Hn & Hx)]; [exact (bi_notfree s HI b x0 Hb)|exact (bi_notfree s HI b' x Hx)].
    + intros b' x H. apply Hm in H as [(-> & _ & -> & _)|(Hn & Hx)]; [exact (bi_shared s HI b x0 Hb)|exact (bi_shared s HI b' x Hx)].
    + intros b1 b2 x1 x2 Hne H1 H2.
      apply Hm in H1 as [(-> & -> & _)|(Hn1 & Hx1)]; apply Hm in H2 as [(-> & -> & _)|(Hn2 & Hx2)]; try congruence.
      * exact (bi_disj s HI b b2 x0 x2 Hne Hb Hx2).
      * exact (bi_disj s HI b1 b x1 x0 Hne Hx1 Hb).
      * exact (bi_disj s HI b1 b2 x1 x2 Hne Hx1 Hx2).
    + exact (bi_free s HI).
    + intros cpu Hc. destruct (bi_cover s HI cpu Hc) as [?|(b' & x & Hb' & Hx)]; [left; assumption|]. right.
      destruct (decide (b' = b)) as [->|Hn].
      * exists b. eexists. split; [rewrite lookup_insert; reflexivity|]. cbn. rewrite Hb in Hb'. injection Hb' as <-. exact Hx.
      * exists b', x. split; [rewrite lookup_insert_ne by congruence; exact Hb'|exact Hx].
    + intros c' b1 b2 x1 x2 H1 H2 Hc1 Hc2.
      apply Hm in H1 as [(-> & _ & _ & M1)|(Hn1 & Hx1)]; apply Hm in H2 as [(-> & _ & _ & M2)|(Hn2 & Hx2)]; try reflexivity.
      * rewrite M1 in Hc1. apply elem_of_union in Hc1 as [Hc1|Hc1].
        -- exact (bi_member s HI c' b b2 x0 x2 Hb Hx2 Hc1 Hc2).
        -- apply elem_of_singleton in Hc1. subst c'. exfalso. exact (Hnone b2 x2 Hx2 Hc2).
      * rewrite M2 in Hc2. apply elem_of_union in Hc2 as [Hc2|Hc2].
        -- exact (bi_member s HI c' b1 b x1 x0 Hx1 Hb Hc1 Hc2).
        -- apply elem_of_singleton in Hc2. subst c'. exfalso. exact (Hnone b1 x1 Hx1 Hc1).
      * exact (bi_member s HI c' b1 b2 x1 x2 Hx1 Hx2 Hc1 Hc2).
  - (* BDismiss *)
    intros [= <-].
    assert (Hlk : forall b' y, ((fun y => {| b_cpus := b_cpus y; b_shared := b_shared y; b_members := b_members y ∖ {[c]} |}) <$> blns s) !! b' = Some y ->
              exists x, blns s !! b' = Some x /\ b_cpus y = b_cpus x /\ b_shared y = b_shared x /\ b_members y = b_members x ∖ {[c]}).
    { intros b' y H. rewrite lookup_fmap in H. destruct (blns s !! b') as [x|]; [|discriminate]. injection H as <-. exists x. cbn. auto. }
    split; cbn [blns freec allowed isolated set_blns set_free].
    + intros b' y H. apply Hlk in H as (x & Hx & -> & _). exact (bi_within s HI b' x Hx).
    + intros b' y H. apply Hlk in H as (x & Hx & -> & _). exact (bi_notfree s HI b' x Hx).
    + intros b' y H. apply Hlk in H as (x & Hx & _ & -> & _). exact (bi_shared s HI b' x Hx).
    + intros b1 b2 y1 y2 Hne H1 H2. apply Hlk in H1 as (x1 & Hx1 & -> & _). apply Hlk in H2 as (x2 & Hx2 & -> & _).
      exact (bi_disj s HI b1 b2 x1 x2 Hne Hx1 Hx2).
    + exact (bi_free s HI).
    + intros cpu Hc. destruct (bi_cover s HI cpu Hc) as [?|(b' & x & Hb' & Hx)]; [left; assumption|]. right.
      exists b'. eexists. split; [rewrite lookup_fmap, Hb'; reflexivity|]. cbn. exact Hx.
    + intros c' b1 b2 y1 y2 H1 H2 Hc1 Hc2. apply Hlk in H1 as (x1 & Hx1 & _ & _ & E1). apply Hlk in H2 as (x2 & Hx2 & _ & _ & E2).
      rewrite E1 in Hc1. rewrite E2 in Hc2. apply (bi_member s HI c' b1 b2 x1 x2 Hx1 Hx2); set_solver.
Qed.

Theorem brun_preserves os : forall s s', BInv s -> brun s os = BOk s' -> BInv s'.
Proof.
  induction os as [|o os IH]; intros s s' HI; cbn [brun].
  - intros [= <-]. exact HI.
  - destruct (bstep s o) as [s1|] eqn:Hs; [|discriminate]. intros H. exact (IH s1 s' (bstep_preserves s o s1 HI Hs) H).
Qed.

(* quiescence: once every balloon is deleted all available CPUs are free again *)
Lemma quiescent_free s : BInv s -> blns s = ∅ -> freec s = allowed s.
Proof.
  intros HI He. apply set_eq. intros cpu. split; [apply (bi_free s HI)|].
  intros Hc. destruct (bi_cover s HI cpu Hc) as [?|(b & x & Hb & _)]; [assumption|]. rewrite He, lookup_empty in Hb. discriminate.
Qed.

(* non-vacuity *)
Local Open Scope nat_scope.
Example bln_nonvacuous :
  match brun (binit (lset [0;1;2;3;4;5;6;7]) (lset [7]))
             [BNew 0; BInflate 0 (lset [1;2]); BNew 1; BInflate 1 (lset [4]); BShare 0 (lset [3]); BAssign 10 0; BAssign 11 1;
              BDeflate 0 (lset [2]); BDismiss 11; BDeflate 1 (lset [4]); BDelete 1] with
  | BOk s => size (blns s) = 1 /\ bool_decide (freec s = lset [0;2;3;4;5;6;7]) = true
  | BErr _ => False end.
Proof. vm_compute. split; reflexivity. Qed.
