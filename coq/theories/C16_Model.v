(* C16: hardware discovery (pkg/sysfs/system.go) and the topology-aware pool tree
   (cmd/plugins/topology-aware/policy/pools.go, topology-aware-policy.go:checkConstraints).
   Executable model + correspondence checkers only -- no proofs in this file.

   Sets of ids (CPUs, NUMA nodes) are lists of Z; every comparison with the implementation is a
   set comparison ([seteq]); [canon] gives the sorted duplicate-free representative that the Go
   accessors return (cpuset.List(), idset.SortedMembers()). *)
From Coq Require Import ZArith List Bool.
Import ListNotations.
Open Scope Z_scope.

(* ------------------------------------------------------------------ sets as lists *)

Definition memz (x : Z) (l : list Z) : bool := existsb (Z.eqb x) l.
Definition inter (a b : list Z) : list Z := filter (fun x => memz x b) a.
Definition diff (a b : list Z) : list Z := filter (fun x => negb (memz x b)) a.
Definition union (a b : list Z) : list Z := a ++ diff b a.
Definition subset (a b : list Z) : bool := forallb (fun x => memz x b) a.
Definition seteq (a b : list Z) : bool := subset a b && subset b a.
Definition is_empty {A} (a : list A) : bool := match a with [] => true | _ => false end.
Definition disjoint (a b : list Z) : bool := is_empty (inter a b).

Fixpoint insert (x : Z) (l : list Z) : list Z :=
  match l with
  | [] => [x]
  | y :: t => if x <? y then x :: l else if x =? y then l else y :: insert x t
  end.
Definition canon (l : list Z) : list Z := fold_right insert [] l.
Definition zlen (l : list Z) : Z := Z.of_nat (length l).
Definition card (l : list Z) : Z := zlen (canon l).

Fixpoint seqZ (lo : Z) (n : nat) : list Z :=
  match n with O => [] | S k => lo :: seqZ (lo + 1) k end.

Fixpoint nthZ (l : list Z) (i : nat) (d : Z) : Z :=
  match l, i with
  | [], _ => d
  | x :: _, O => x
  | _ :: t, S k => nthZ t k d
  end.

Definition odef {A} (d : A) (o : option A) : A := match o with Some x => x | None => d end.

(* ================================================================== part (a): discovery *)

(* ---- ground truth: the generator's machine description ---- *)
Record mcache := mkMCache { mc_level : Z; mc_kind : Z; mc_id : Z; mc_cpus : list Z; mc_size : Z (* bytes *) }.
Record mcpu := mkMCpu { c_id : Z; c_online : bool; c_isolated : bool; c_pkg : Z; c_die : Z; c_cluster : Z; c_core : Z;
                        c_threads : list Z; c_node : Z; c_caches : list mcache }.
Record mnode := mkMNode { n_id : Z; n_cpus : list Z; n_distance : list Z; n_memtotal : Z (* kB *); n_memfree : Z (* kB *);
                          n_normal : bool; n_hasmem : bool }.
Record machine := mkMachine { m_cpus : list mcpu; m_nodes : list mnode }.

(* ---- typed sysfs contents (what the files hold after the string layer) ---- *)
Record cache_dir := mkCacheDir { cd_level : Z; cd_kind : Z; cd_id : Z; cd_shared : list Z; cd_size : Z }.
Record cpu_dir := mkCpuDir {
  d_id : Z;
  d_nodes : list Z;                      (* the nodeN entries under cpuN *)
  d_pkg : option Z; d_die : option Z; d_cluster : option Z; d_core : option Z;   (* topology/* (absent when offline) *)
  d_core_cpus : option (list Z);         (* topology/core_cpus_list *)
  d_siblings : option (list Z);          (* topology/thread_siblings_list (fallback) *)
  d_caches : list cache_dir }.           (* cache/index*, sorted by index *)
Record node_dir := mkNodeDir { nd_id : Z; nd_cpulist : option (list Z); nd_distance : option (list Z);
                               nd_memtotal : Z; nd_memfree : Z (* meminfo, kB *) }.
Record sysfs_struct := mkSysfs {
  s_possible : option (list Z); s_present : option (list Z); s_online : option (list Z); s_isolated : option (list Z);
  s_cpus : list cpu_dir; s_nodes : list node_dir;
  s_has_normal : option (list Z); s_has_memory : option (list Z); s_node_online : option (list Z) }.

(* ---- the discovered view: every accessor named in the property ---- *)
Record vcache := mkVCache { vc_level : Z; vc_kind : Z; vc_id : Z; vc_cpus : list Z; vc_size : Z }.
Record vcpu := mkVCpu { v_id : Z; v_online : bool; v_isolated : bool; v_pkg : Z; v_die : Z; v_cluster : Z; v_core : Z;
                        v_threads : list Z; v_node : Z; v_caches : list vcache }.
(* memory type: 0 DRAM, 1 PMEM, 2 HBM (sysfs.MemoryType) *)
Record vnode := mkVNode { vn_id : Z; vn_pkg : Z; vn_die : Z; vn_cpus : list Z; vn_distance : list Z;
                          vn_memtotal : Z (* bytes *); vn_memfree : Z; vn_memtype : Z; vn_normal : bool }.
Record vdie := mkVDie { vd_id : Z; vd_cpus : list Z; vd_nodes : list Z }.
Record vpkg := mkVPkg { vp_id : Z; vp_cpus : list Z; vp_nodes : list Z; vp_dieids : list Z; vp_dies : list vdie }.
Record system_view := mkView { sv_cpus : list vcpu; sv_nodes : list vnode; sv_pkgs : list vpkg;
                               sv_possible : list Z; sv_present : list Z; sv_online : list Z; sv_isolated : list Z }.

(* ---- render: what the kernel (here: harness/common/sysfsgen.go) writes for a machine ---- *)
Definition render_cache (c : mcache) : cache_dir :=
  mkCacheDir (mc_level c) (mc_kind c) (mc_id c) (mc_cpus c) (mc_size c).

Definition render_cpu (c : mcpu) : cpu_dir :=
  if c_online c then
    mkCpuDir (c_id c) [c_node c] (Some (c_pkg c)) (Some (c_die c)) (Some (c_cluster c)) (Some (c_core c))
             (Some (c_threads c)) (Some (c_threads c)) (map render_cache (c_caches c))
  else mkCpuDir (c_id c) [c_node c] None None None None None None [].

Definition render_node (n : mnode) : node_dir :=
  mkNodeDir (n_id n) (Some (n_cpus n)) (Some (n_distance n)) (n_memtotal n) (n_memfree n).

Definition ids_where {A} (f : A -> bool) (id : A -> Z) (l : list A) : list Z := map id (filter f l).

Definition render (m : machine) : sysfs_struct :=
  let all := map c_id (m_cpus m) in
  mkSysfs (Some all) (Some all) (Some (ids_where c_online c_id (m_cpus m))) (Some (ids_where c_isolated c_id (m_cpus m)))
          (map render_cpu (m_cpus m)) (map render_node (m_nodes m))
          (Some (ids_where n_normal n_id (m_nodes m))) (Some (ids_where n_hasmem n_id (m_nodes m)))
          (Some (map n_id (m_nodes m))).

(* ---- discover: the assembly logic of system.go ---- *)

(* saveCache: caches are shared objects keyed by (level, kind, id); the first one seen wins *)
Definition ckey := (Z * Z * Z)%type.
Definition ckey_eqb (a b : ckey) : bool :=
  match a, b with (a1, a2, a3), (b1, b2, b3) => (a1 =? b1) && (a2 =? b2) && (a3 =? b3) end.
Definition ctable := list (ckey * vcache).
Fixpoint ct_find (k : ckey) (t : ctable) : option vcache :=
  match t with [] => None | (k', c) :: r => if ckey_eqb k k' then Some c else ct_find k r end.

Definition save_cache (t : ctable) (d : cache_dir) : ctable * vcache :=
  let k := (cd_level d, cd_kind d, cd_id d) in
  match ct_find k t with
  | Some c => (t, c)
  | None => let c := mkVCache (cd_level d) (cd_kind d) (cd_id d) (canon (cd_shared d)) (cd_size d) in ((k, c) :: t, c)
  end.

Fixpoint discover_caches (t : ctable) (l : list cache_dir) : ctable * list vcache :=
  match l with
  | [] => (t, [])
  | d :: r => let '(t1, c) := save_cache t d in
              let '(t2, cs) := discover_caches t1 r in (t2, c :: cs)
  end.

(* discoverCPU *)
Definition discover_cpu (online isolated : list Z) (t : ctable) (d : cpu_dir) : option (ctable * vcpu) :=
  let on := memz (d_id d) online in
  let topo : option (Z * Z * Z * Z * list Z) :=
    if on then
      match d_pkg d, d_core d, (match d_core_cpus d with Some l => Some l | None => d_siblings d end) with
      | Some p, Some c, Some th => Some (p, odef 0 (d_die d), odef 0 (d_cluster d), c, canon th)
      | _, _, _ => None            (* physical_package_id / core_id / both thread lists unreadable: error *)
      end
    else Some (0, 0, 0, 0, []) in
  match topo with
  | None => None
  | Some (p, di, cl, co, th) =>
    match d_nodes d with
    | [n] => let '(t', cs) := discover_caches t (d_caches d) in
             Some (t', mkVCpu (d_id d) on (memz (d_id d) isolated) p di cl co th n cs)
    | _ => None                    (* "exactly one node per cpu allowed" *)
    end
  end.

Fixpoint discover_cpus (online isolated : list Z) (t : ctable) (l : list cpu_dir) : option (list vcpu) :=
  match l with
  | [] => Some []
  | d :: r => match discover_cpu online isolated t d with
              | None => None
              | Some (t', c) => match discover_cpus online isolated t' r with
                                | None => None
                                | Some cs => Some (c :: cs)
                                end
              end
  end.

(* discoverPackages: group the online CPUs by package, within a package by die *)
Definition mk_die (cs : list vcpu) (d : Z) : vdie :=
  let ds := filter (fun c => v_die c =? d) cs in
  mkVDie d (canon (map v_id ds)) (canon (map v_node ds)).

Definition mk_pkg (cpus : list vcpu) (p : Z) : vpkg :=
  let cs := filter (fun c => v_online c && (v_pkg c =? p)) cpus in
  let dies := canon (map v_die cs) in
  mkVPkg p (canon (map v_id cs)) (canon (map v_node cs)) dies (map (mk_die cs) dies).

Definition discover_pkgs (cpus : list vcpu) : list vpkg :=
  map (mk_pkg cpus) (canon (map v_pkg (filter v_online cpus))).

(* node.MemoryInfo(): error when MemFree > MemTotal; values in bytes *)
Definition meminfo_ok (total free : Z) : bool := free <=? total.

(* discoverNodes: memory types *)
Definition sumZ (l : list Z) : Z := fold_right Z.add 0 l.

Definition discover_nodes (s : sysfs_struct) : option (list vnode) :=
  match s_has_normal s, s_has_memory s, s_node_online s with
  | Some normal, Some hasmem, Some nonline =>
    if negb (forallb (fun nd => match nd_cpulist nd, nd_distance nd with Some _, Some _ => true | _, _ => false end) (s_nodes s))
    then None else
    let cpus_of nd := canon (odef [] (nd_cpulist nd)) in
    let dram := canon (map nd_id (filter (fun nd => negb (is_empty (cpus_of nd))) (s_nodes s))) in
    let nomem := diff (canon nonline) hasmem in
    let special := diff (canon hasmem) dram in
    let need_avg := negb (is_empty special) && negb (is_empty dram) in
    let dram_cnt := zlen dram - zlen nomem in
    let infos_ok := forallb (fun nd => meminfo_ok (nd_memtotal nd) (nd_memfree nd)) (s_nodes s) in
    let dram_total := sumZ (map (fun nd => if memz (nd_id nd) dram then nd_memtotal nd * 1024 else 0) (s_nodes s)) in
    (* uint64(len(dram) - len(nomem)): a negative count wraps to a huge divisor, the average is 0 *)
    let avg := if dram_cnt <=? 0 then 0 else dram_total / dram_cnt in
    if need_avg && ((dram_cnt =? 0) || negb infos_ok || (avg =? 0)) then None else
    let have_infos := need_avg in
    let ty nd : option Z :=
      if memz (nd_id nd) special then
        if have_infos then Some (if nd_memtotal nd * 1024 <? avg then 2 else 1) else None
      else if memz (nd_id nd) dram then Some 0 else None in
    if negb (forallb (fun nd => match ty nd with Some _ => true | None => false end) (s_nodes s)) then None else
    Some (map (fun nd => mkVNode (nd_id nd) 0 0 (cpus_of nd) (odef [] (nd_distance nd))
                                 (nd_memtotal nd * 1024) (nd_memfree nd * 1024) (odef 0 (ty nd)) (memz (nd_id nd) normal))
              (s_nodes s))
  | _, _, _ => None
  end.

(* Discover(): back-assignment of package / die ids to nodes (packages visited in id order; on a
   hierarchical machine the order is irrelevant) *)
Definition assign_pkg (pkgs : list vpkg) (nid : Z) : Z :=
  fold_left (fun acc p => if memz nid (vp_nodes p) then vp_id p else acc) pkgs 0.
Definition assign_die (pkgs : list vpkg) (nid : Z) : Z :=
  fold_left (fun acc p => fold_left (fun acc d => if memz nid (vd_nodes d) then vd_id d else acc) (vp_dies p) acc) pkgs 0.

Definition node_ids (ns : list vnode) : list Z := map vn_id ns.

Definition discover (s : sysfs_struct) : option system_view :=
  let online := canon (odef [] (s_online s)) in
  let isolated := canon (odef [] (s_isolated s)) in
  match discover_cpus online isolated [] (s_cpus s) with
  | None => None
  | Some cpus =>
    match discover_nodes s with
    | None => None
    | Some nodes =>
      let pkgs := discover_pkgs cpus in
      if negb (is_empty nodes) &&
         negb (forallb (fun p => subset (vp_nodes p) (node_ids nodes)) pkgs)
      then None        (* "can't find NUMA node for ID" *)
      else
      let nodes' := if is_empty nodes then nodes else
        map (fun n => mkVNode (vn_id n) (assign_pkg pkgs (vn_id n)) (assign_die pkgs (vn_id n)) (vn_cpus n) (vn_distance n)
                              (vn_memtotal n) (vn_memfree n) (vn_memtype n) (vn_normal n)) nodes in
      Some (mkView cpus nodes' pkgs (canon (odef [] (s_possible s))) (canon (odef [] (s_present s))) online isolated)
    end
  end.

(* ---- the specification: what the machine *is*, read off the ground truth directly ---- *)
Definition view_cache (c : mcache) : vcache := mkVCache (mc_level c) (mc_kind c) (mc_id c) (canon (mc_cpus c)) (mc_size c).

Definition view_cpu (c : mcpu) : vcpu :=
  if c_online c then
    mkVCpu (c_id c) true (c_isolated c) (c_pkg c) (c_die c) (c_cluster c) (c_core c) (canon (c_threads c)) (c_node c)
           (map view_cache (c_caches c))
  else mkVCpu (c_id c) false (c_isolated c) 0 0 0 0 [] (c_node c) [].   (* offline CPUs keep the defaults *)

Definition online_cpus (m : machine) : list mcpu := filter c_online (m_cpus m).

Definition view_die (cs : list mcpu) (d : Z) : vdie :=
  let ds := filter (fun c => c_die c =? d) cs in
  mkVDie d (canon (map c_id ds)) (canon (map c_node ds)).

Definition view_pkg (m : machine) (p : Z) : vpkg :=
  let cs := filter (fun c => c_pkg c =? p) (online_cpus m) in
  let dies := canon (map c_die cs) in
  mkVPkg p (canon (map c_id cs)) (canon (map c_node cs)) dies (map (view_die cs) dies).

(* memory type rule: CPU-bearing = DRAM; CPU-less with memory: HBM when smaller than the average
   DRAM node (total DRAM / (#CPU-bearing nodes - #nodes without memory)), else PMEM *)
Definition m_dram_ids (m : machine) : list Z := canon (ids_where (fun n => negb (is_empty (n_cpus n))) n_id (m_nodes m)).
Definition m_special_ids (m : machine) : list Z := diff (canon (ids_where n_hasmem n_id (m_nodes m))) (m_dram_ids m).
Definition m_dram_cnt (m : machine) : Z :=
  zlen (m_dram_ids m) - zlen (diff (canon (map n_id (m_nodes m))) (ids_where n_hasmem n_id (m_nodes m))).
Definition m_avg (m : machine) : Z :=
  if m_dram_cnt m <=? 0 then 0 else
  sumZ (map (fun n => if memz (n_id n) (m_dram_ids m) then n_memtotal n * 1024 else 0) (m_nodes m)) / m_dram_cnt m.
Definition view_memtype (m : machine) (n : mnode) : Z :=
  if negb (is_empty (n_cpus n)) then 0 else if n_memtotal n * 1024 <? m_avg m then 2 else 1.

Definition first_online_on (m : machine) (nid : Z) : option mcpu :=
  find (fun c => c_node c =? nid) (online_cpus m).

Definition view_node (m : machine) (n : mnode) : vnode :=
  mkVNode (n_id n)
          (match first_online_on m (n_id n) with Some c => c_pkg c | None => 0 end)
          (match first_online_on m (n_id n) with Some c => c_die c | None => 0 end)
          (canon (n_cpus n)) (n_distance n) (n_memtotal n * 1024) (n_memfree n * 1024) (view_memtype m n) (n_normal n).

Definition view (m : machine) : system_view :=
  mkView (map view_cpu (m_cpus m)) (map (view_node m) (m_nodes m))
         (map (view_pkg m) (canon (map c_pkg (online_cpus m))))
         (canon (map c_id (m_cpus m))) (canon (map c_id (m_cpus m)))
         (canon (ids_where c_online c_id (m_cpus m))) (canon (ids_where c_isolated c_id (m_cpus m))).

(* ---- well-formed machines (decidable; evaluated on every generated machine) ---- *)
Fixpoint pairwise {A} (r : A -> A -> bool) (l : list A) : bool :=
  match l with [] => true | x :: t => forallb (r x) t && pairwise r t end.
Fixpoint lz_eqb (a b : list Z) : bool :=
  match a, b with [] , [] => true | x :: a', y :: b' => (x =? y) && lz_eqb a' b' | _, _ => false end.
Definition nodupb (l : list Z) : bool := pairwise (fun x y => negb (x =? y)) l.

Definition mckey (c : mcache) : ckey := (mc_level c, mc_kind c, mc_id c).
Definition all_caches (m : machine) : list mcache := flat_map c_caches (online_cpus m).
Definition cache_agree (a b : mcache) : bool :=
  negb (ckey_eqb (mckey a) (mckey b)) || (lz_eqb (canon (mc_cpus a)) (canon (mc_cpus b)) && (mc_size a =? mc_size b)).

Definition machine_wfb (m : machine) : bool :=
  nodupb (map c_id (m_cpus m)) && nodupb (map n_id (m_nodes m))
  (* caches with the same (level, kind, id) are one shared object: same CPUs, same size *)
  && forallb (fun a => forallb (cache_agree a) (all_caches m)) (all_caches m)
  (* meminfo sane; every node has CPUs or memory (else discovery fails: "Unknown memory type") *)
  && forallb (fun n => (n_memfree n <=? n_memtotal n) && (negb (is_empty (n_cpus n)) || n_hasmem n)) (m_nodes m)
  (* with CPU-less memory nodes present the DRAM average must be computable *)
  && (is_empty (m_special_ids m) || is_empty (m_dram_ids m) || (0 <? m_avg m))
  && (is_empty (m_special_ids m) || negb (is_empty (m_dram_ids m)))
  (* every online CPU sits on an existing node; hierarchical: a node lies inside one die of one package *)
  && forallb (fun c => memz (c_node c) (map n_id (m_nodes m))) (online_cpus m)
  && forallb (fun a => forallb (fun b => negb (c_node a =? c_node b) || ((c_pkg a =? c_pkg b) && (c_die a =? c_die b)))
                               (online_cpus m)) (online_cpus m).

(* ================================================================== string codecs (second layer) *)
From Coq Require Import Ascii String DecimalString Decimal DecimalN.
Local Open Scope string_scope.

Definition print_N (n : N) : string := NilZero.string_of_uint (N.to_uint n).
Definition parse_N (s : string) : option N := option_map N.of_uint (NilZero.uint_of_string s).

(* strings.Split(s, sep) for a one-character separator *)
Fixpoint split_on (sep : ascii) (s : string) : list string :=
  match s with
  | EmptyString => [EmptyString]
  | String c r => if Ascii.eqb c sep then EmptyString :: split_on sep r
                  else match split_on sep r with
                       | [] => [String c EmptyString]      (* unreachable *)
                       | h :: t => String c h :: t
                       end
  end.
Fixpoint join_with (sep : ascii) (l : list string) : string :=
  match l with
  | [] => EmptyString
  | [x] => x
  | x :: r => x ++ String sep (join_with sep r)
  end.

(* cpulist: sorted duplicate-free list <-> "a-b,c,..."  (vCpuList / kernel %*pbl) *)
Fixpoint ranges_aux (lo hi : N) (l : list N) : list (N * N) :=
  match l with
  | [] => [(lo, hi)]
  | x :: r => if N.eqb x (hi + 1) then ranges_aux lo x r else (lo, hi) :: ranges_aux x x r
  end.
Definition ranges (l : list N) : list (N * N) := match l with [] => [] | x :: r => ranges_aux x x r end.
Definition print_range (r : N * N) : string :=
  if N.eqb (fst r) (snd r) then print_N (fst r) else print_N (fst r) ++ String "-" (print_N (snd r)).
Definition print_cpulist (l : list N) : string := join_with "," (map print_range (ranges l)).

(* the domain of the cpulist round trip: strictly increasing (sorted, duplicate-free) id lists *)
Fixpoint incr_from (lo : N) (l : list N) : Prop :=
  match l with [] => True | x :: r => (lo < x)%N /\ incr_from x r end.
Definition increasing (l : list N) : Prop := match l with [] => True | x :: r => incr_from x r end.

(* parseValueList for *idset.IDSet: split on ",", stop at the first empty item, "a" or "a-b" *)
Fixpoint n_range (lo : N) (cnt : nat) : list N := match cnt with O => [] | S k => lo :: n_range (lo + 1) k end.
Definition parse_item (s : string) : option (list N) :=
  match split_on "-" s with
  | [a] => option_map (fun x => [x]) (parse_N a)
  | a :: b :: _ => match parse_N a, parse_N b with
                   | Some lo, Some hi => Some (n_range lo (N.to_nat (hi + 1 - lo)))
                   | _, _ => None
                   end
  | [] => None
  end.
Fixpoint parse_items (l : list string) : option (list N) :=
  match l with
  | [] => Some []
  | s :: r => if String.eqb s "" then Some [] else
              match parse_item s, parse_items r with
              | Some a, Some b => Some (a ++ b)%list
              | _, _ => None
              end
  end.
Definition parse_cpulist (s : string) : option (list N) := parse_items (split_on "," s).

(* space separated integer vectors (node*/distance) *)
Definition print_vec (l : list N) : string := join_with " " (map print_N l).
Fixpoint parse_vec_items (l : list string) : option (list N) :=
  match l with
  | [] => Some []
  | s :: r => if String.eqb s "" then Some [] else
              match parse_N s, parse_vec_items r with
              | Some a, Some b => Some (a :: b)
              | _, _ => None
              end
  end.
Definition parse_vec (s : string) : option (list N) := parse_vec_items (split_on " " s).

(* correspondence of the codec layer: raw file content vs. the set the accessor returned *)
Definition codec_cpulist_ok (raw : string) (parsed : list Z) : bool :=
  match parse_cpulist raw with
  | Some l => lz_eqb (canon (map Z.of_N l)) parsed && String.eqb (print_cpulist (map Z.to_N parsed)) raw
  | None => false
  end.
Definition codec_vec_ok (raw : string) (parsed : list Z) : bool :=
  match parse_vec raw with
  | Some l => lz_eqb (map Z.of_N l) parsed && String.eqb (print_vec (map Z.to_N parsed)) raw
  | None => false
  end.
Definition codec_mismatches (cl : list (string * list Z)) (vs : list (string * list Z)) : list string :=
  (map fst (filter (fun c => negb (codec_cpulist_ok (fst c) (snd c))) cl) ++
   map fst (filter (fun c => negb (codec_vec_ok (fst c) (snd c))) vs))%list.
Local Close Scope string_scope.

(* ================================================================== correspondence checker, part (a) *)
Definition vcache_eqb (a b : vcache) : bool :=
  (vc_level a =? vc_level b) && (vc_kind a =? vc_kind b) && (vc_id a =? vc_id b) && lz_eqb (vc_cpus a) (vc_cpus b) && (vc_size a =? vc_size b).
Fixpoint list_eqb {A} (e : A -> A -> bool) (a b : list A) : bool :=
  match a, b with [], [] => true | x :: a', y :: b' => e x y && list_eqb e a' b' | _, _ => false end.
Definition vcpu_eqb (a b : vcpu) : bool :=
  (v_id a =? v_id b) && Bool.eqb (v_online a) (v_online b) && Bool.eqb (v_isolated a) (v_isolated b) && (v_pkg a =? v_pkg b)
  && (v_die a =? v_die b) && (v_cluster a =? v_cluster b) && (v_core a =? v_core b) && lz_eqb (v_threads a) (v_threads b)
  && (v_node a =? v_node b) && list_eqb vcache_eqb (v_caches a) (v_caches b).
Definition vnode_eqb (a b : vnode) : bool :=
  (vn_id a =? vn_id b) && (vn_pkg a =? vn_pkg b) && (vn_die a =? vn_die b) && lz_eqb (vn_cpus a) (vn_cpus b)
  && lz_eqb (vn_distance a) (vn_distance b) && (vn_memtotal a =? vn_memtotal b) && (vn_memfree a =? vn_memfree b)
  && (vn_memtype a =? vn_memtype b) && Bool.eqb (vn_normal a) (vn_normal b).
Definition vdie_eqb (a b : vdie) : bool := (vd_id a =? vd_id b) && lz_eqb (vd_cpus a) (vd_cpus b) && lz_eqb (vd_nodes a) (vd_nodes b).
Definition vpkg_eqb (a b : vpkg) : bool :=
  (vp_id a =? vp_id b) && lz_eqb (vp_cpus a) (vp_cpus b) && lz_eqb (vp_nodes a) (vp_nodes b) && lz_eqb (vp_dieids a) (vp_dieids b)
  && list_eqb vdie_eqb (vp_dies a) (vp_dies b).

(* which component differs: 1 cpus, 2 nodes, 3 packages, 4 possible, 5 present, 6 online, 7 isolated *)
Definition view_diff (a b : system_view) : list Z :=
  (if list_eqb vcpu_eqb (sv_cpus a) (sv_cpus b) then [] else [1]) ++
  (if list_eqb vnode_eqb (sv_nodes a) (sv_nodes b) then [] else [2]) ++
  (if list_eqb vpkg_eqb (sv_pkgs a) (sv_pkgs b) then [] else [3]) ++
  (if lz_eqb (sv_possible a) (sv_possible b) then [] else [4]) ++
  (if lz_eqb (sv_present a) (sv_present b) then [] else [5]) ++
  (if lz_eqb (sv_online a) (sv_online b) then [] else [6]) ++
  (if lz_eqb (sv_isolated a) (sv_isolated b) then [] else [7]).

(* one generated machine: ground truth + what the real discovery returned (None = error).
   Codes: 100 wf machine rejected by the model, 101 model accepts/impl rejects or vice versa,
   110+k discover(render m) differs from the observed view in component k,
   120+k view m differs from the observed view in component k (only for wf machines) *)
Definition sysfs_case_diff (m : machine) (obs : option system_view) : list Z :=
  match discover (render m), obs with
  | None, None => if machine_wfb m then [100] else []
  | Some _, None | None, Some _ => [101]
  | Some d, Some o =>
    map (Z.add 110) (view_diff d o) ++ (if machine_wfb m then map (Z.add 120) (view_diff (view m) o) else [])
  end.
Definition sysfs_mismatches (cs : list (Z * machine * option system_view)) : list (Z * list Z) :=
  filter (fun r => negb (is_empty (snd r))) (map (fun c => match c with (i, m, o) => (i, sysfs_case_diff m o) end) cs).

(* ================================================================== part (b): the pool tree *)

Inductive avail_cfg := AvAbsent | AvSet (l : list Z) | AvQuantity | AvBad.
Inductive resv_cfg := RsAbsent | RsSet (l : list Z) | RsMilli (milli : Z) | RsBad.
Record cfg := mkCfg { cf_avail : avail_cfg; cf_resv : resv_cfg }.
Inductive reject := RejConstraints | RejTopology.
Inductive result (A : Type) := Ok (a : A) | Rej (r : reject).
Arguments Ok {A} a. Arguments Rej {A} r.

Record cpusets := mkCpusets { cs_allowed : list Z; cs_isolated : list Z; cs_reserved : list Z }.

Definition cpu_ids (v : system_view) : list Z := map v_id (sv_cpus v).
Definition offlined (v : system_view) : list Z := diff (sv_present v) (sv_online v).

(* the CPU allocator used for a reservation given as a quantity: a parameter (its contract is C08) *)
Definition allocator := list Z -> Z -> option (list Z).

(* policy.checkConstraints *)
Definition check_constraints (alloc : allocator) (v : system_view) (c : cfg) : result cpusets :=
  match (match cf_avail c with
         | AvSet l => Some (canon l)
         | AvAbsent => Some (diff (cpu_ids v) (offlined v))
         | AvQuantity | AvBad => None
         end) with
  | None => Rej RejConstraints
  | Some allowed =>
    let isolated := inter (sv_isolated v) allowed in
    let fin (reserved : list Z) :=
      if is_empty reserved then Rej RejConstraints else Ok (mkCpusets allowed isolated reserved) in
    match cf_resv c with
    | RsAbsent | RsBad => Rej RejConstraints
    | RsSet l =>
      let reserved := canon l in
      if negb (is_empty (diff reserved allowed)) then Rej RejConstraints else
      let iso := inter reserved isolated in
      if negb (is_empty iso) && (negb (seteq reserved iso) || (1 <? zlen iso)) then Rej RejConstraints
      else fin reserved
    | RsMilli q =>
      let cnt := Z.quot (q + 999) 1000 in
      match alloc (diff allowed isolated) cnt with
      | None => Rej RejConstraints
      | Some r => fin (canon r)
      end
    end
  end.

(* policy.checkHWTopology: symmetric distance matrix *)
Definition find_node (v : system_view) (id : Z) : option vnode := find (fun n => vn_id n =? id) (sv_nodes v).
Definition dist_from (n : vnode) (to : Z) : Z :=
  if (0 <=? to) && (to <? zlen (vn_distance n)) then nthZ (vn_distance n) (Z.to_nat to) (-1) else -1.
Definition topology_ok (v : system_view) : bool :=
  forallb (fun a => forallb (fun b => dist_from a (vn_id b) =? dist_from b (vn_id a)) (sv_nodes v)) (sv_nodes v).

(* pools *)
Inductive pkind := KVirtual | KSocket | KDie | KNuma.
Definition kind_eqb (a b : pkind) : bool :=
  match a, b with KVirtual, KVirtual | KSocket, KSocket | KDie, KDie | KNuma, KNuma => true | _, _ => false end.
Definition pkey := (pkind * Z * Z)%type.       (* kind, package (die pools only, else -1), id *)
Definition pkey_eqb (a b : pkey) : bool :=
  match a, b with (k1, p1, i1), (k2, p2, i2) => kind_eqb k1 k2 && (p1 =? p2) && (i1 =? i2) end.

Record pool := mkPool {
  pl_key : pkey; pl_parent : option pkey; pl_depth : Z;
  pl_hw : list Z;                                        (* the hardware CPU set the pool is built from *)
  pl_iso : list Z; pl_res : list Z; pl_shr : list Z;     (* getCpuSupply *)
  pl_dram : list Z; pl_pmem : list Z; pl_hbm : list Z }. (* getMemSupply *)

Definition pl_cpus (p : pool) : list Z := pl_iso p ++ pl_res p ++ pl_shr p.
Definition pl_mems (p : pool) : list Z := pl_dram p ++ pl_pmem p ++ pl_hbm p.

(* sysfs.NodeHasMemory: MemoryInfo() failed, or MemTotal > 0 *)
Definition node_has_memory (n : vnode) : bool := negb (vn_memfree n <=? vn_memtotal n) || (0 <? vn_memtotal n).
(* buildNumaNodePool's test: MemoryInfo() succeeded and MemTotal == 0 *)
Definition node_memless (n : vnode) : bool := (vn_memfree n <=? vn_memtotal n) && (vn_memtotal n =? 0).

Definition mems_for_cpus (v : system_view) (hw : list Z) : list Z :=
  map vn_id (filter (fun n => negb (is_empty (inter (vn_cpus n) hw))) (sv_nodes v)).

(* sys.ClosestNodes(id, NodeOfDRAMType, NodeHasLocalCPUs)[0]: the distance vector is indexed by node id *)
Definition close_candidates (v : system_view) (s : vnode) : list Z :=
  filter (fun id => negb (id =? vn_id s) &&
                    match find_node v id with
                    | Some n => (vn_memtype n =? 0) && negb (is_empty (vn_cpus n))
                    | None => false
                    end)
         (seqZ 0 (List.length (vn_distance s))).
Definition min_list (d : Z) (l : list Z) : Z := fold_right Z.min d l.
Definition closest_cpu_dram (v : system_view) (s : vnode) : list Z :=
  match close_candidates v s with
  | [] => []
  | c :: r => let md := min_list (dist_from s c) (map (dist_from s) r) in
              filter (fun id => dist_from s id =? md) (c :: r)
  end.

Definition is_special (n : vnode) : bool :=
  ((vn_memtype n =? 1) || (vn_memtype n =? 2)) && node_has_memory n && is_empty (vn_cpus n).

(* getClosestSpecialMem *)
Definition closest_special (v : system_view) (mems : list Z) : list Z :=
  map vn_id (filter (fun s => is_special s && negb (is_empty (inter (closest_cpu_dram v s) mems))) (sv_nodes v)).

Definition of_type (v : system_view) (t : Z) (ids : list Z) : list Z :=
  filter (fun id => match find_node v id with Some n => vn_memtype n =? t | None => false end) ids.

(* getMemSupply; [mem_filter] = false is the code as it is, true the code after fix F11 *)
Definition mem_supply (mem_filter : bool) (v : system_view) (is_root : bool) (hw : list Z) : list Z :=
  if is_root then map vn_id (filter node_has_memory (sv_nodes v))
  else
    let mems := mems_for_cpus v hw in
    let own := if mem_filter
               then filter (fun id => match find_node v id with Some n => node_has_memory n | None => false end) mems
               else mems in
    union own (closest_special v mems).

Definition mk_pool (mem_filter : bool) (v : system_view) (cs : cpusets) (key : pkey) (parent : option pkey) (depth : Z)
           (is_root : bool) (hw : list Z) : pool :=
  let allowed := inter hw (cs_allowed cs) in
  let iso := inter allowed (cs_isolated cs) in
  let res := inter allowed (cs_reserved cs) in
  let shr := diff (diff allowed iso) res in
  let mems := mem_supply mem_filter v is_root hw in
  mkPool key parent depth hw iso res shr (of_type v 0 mems) (of_type v 1 mems) (of_type v 2 mems).

Definition numa_pools (mf : bool) (v : system_view) (cs : cpusets) (parent : pkey) (depth : Z) (nodes : list Z) : list pool :=
  if 1 <? zlen nodes then
    flat_map (fun nid => match find_node v nid with
                         | Some n => if node_memless n then []       (* omitted: no memory attached *)
                                     else [mk_pool mf v cs (KNuma, -1, nid) (Some parent) depth false (vn_cpus n)]
                         | None => []
                         end) nodes
  else [].

Definition die_pools (mf : bool) (v : system_view) (cs : cpusets) (p : vpkg) (skey : pkey) (depth : Z) : list pool :=
  flat_map (fun d => mk_pool mf v cs (KDie, vp_id p, vd_id d) (Some skey) depth false (vd_cpus d)
                     :: numa_pools mf v cs (KDie, vp_id p, vd_id d) (depth + 1) (vd_nodes d)) (vp_dies p).

Definition socket_pools (mf : bool) (v : system_view) (cs : cpusets) (multi : bool) (p : vpkg) : list pool :=
  let key := (KSocket, -1, vp_id p) in
  let depth := if multi then 1 else 0 in
  mk_pool mf v cs key (if multi then Some (KVirtual, -1, -1) else None) depth (negb multi) (vp_cpus p)
  :: (if 1 <? zlen (vp_dieids p) then die_pools mf v cs p key (depth + 1)
      else numa_pools mf v cs key (depth + 1) (vp_nodes p)).

Definition build_tree (mf : bool) (v : system_view) (cs : cpusets) : list pool :=
  let multi := 1 <? Z.of_nat (List.length (sv_pkgs v)) in
  (if multi then [mk_pool mf v cs (KVirtual, -1, -1) None 0 true (cpu_ids v)] else [])
  ++ flat_map (socket_pools mf v cs multi) (sv_pkgs v).

Definition build_pools (mf : bool) (alloc : allocator) (v : system_view) (c : cfg) : result (cpusets * list pool) :=
  match check_constraints alloc v c with
  | Rej r => Rej r
  | Ok cs => if topology_ok v then Ok (cs, build_tree mf v cs) else Rej RejTopology
  end.

(* ---- the domain of the tree theorems: hierarchical views (decidable, evaluated on every observed view) ---- *)
Definition all_disjoint (ls : list (list Z)) : bool := pairwise disjoint ls.
Definition node_cpus_of (v : system_view) (id : Z) : option (list Z) := option_map vn_cpus (find_node v id).

Definition hier_wfb (v : system_view) : bool :=
  nodupb (map vp_id (sv_pkgs v)) && nodupb (node_ids (sv_nodes v))
  && all_disjoint (map vp_cpus (sv_pkgs v))
  && all_disjoint (map vn_cpus (sv_nodes v))
  && forallb (fun p => subset (vp_cpus p) (cpu_ids v)
                       && nodupb (map vd_id (vp_dies p)) && nodupb (vp_nodes p)
                       && (zlen (vp_dieids p) =? Z.of_nat (List.length (vp_dies p)))
                       && all_disjoint (map vd_cpus (vp_dies p))
                       && forallb (fun d => subset (vd_cpus d) (vp_cpus p) && nodupb (vd_nodes d) && subset (vd_nodes d) (vp_nodes p)
                                            && forallb (fun nid => match node_cpus_of v nid with
                                                                   | Some cs => subset cs (vd_cpus d) | None => false end) (vd_nodes d))
                                  (vp_dies p)
                       && forallb (fun nid => match node_cpus_of v nid with
                                              | Some cs => subset cs (vp_cpus p) | None => false end) (vp_nodes p))
             (sv_pkgs v)
  (* a NUMA node is listed in one die of one package only *)
  && nodupb (flat_map (fun p => flat_map vd_nodes (vp_dies p)) (sv_pkgs v))
  && nodupb (flat_map vp_nodes (sv_pkgs v))
  (* every online CPU belongs to a package *)
  && subset (sv_online v) (flat_map vp_cpus (sv_pkgs v))
  && subset (sv_online v) (cpu_ids v)
  && negb (is_empty (sv_pkgs v))
  && forallb (fun n => (0 <=? vn_memtype n) && (vn_memtype n <=? 2)) (sv_nodes v).

(* ---- the shape of the tree, as a specification: which pools exist, with which parent ---- *)
Definition multi_socket (v : system_view) : bool := 1 <? Z.of_nat (List.length (sv_pkgs v)).
Definition socket_key (p : vpkg) : pkey := (KSocket, -1, vp_id p).
Definition socket_depth (v : system_view) : Z := if multi_socket v then 1 else 0.

Inductive origin (mf : bool) (v : system_view) (cs : cpusets) : pool -> Prop :=
| OVirtual :            (* a virtual root iff there are several sockets *)
    multi_socket v = true ->
    origin mf v cs (mk_pool mf v cs (KVirtual, -1, -1) None 0 true (cpu_ids v))
| OSocket p :           (* one pool per socket; the root when it is the only one *)
    In p (sv_pkgs v) ->
    origin mf v cs (mk_pool mf v cs (socket_key p) (if multi_socket v then Some (KVirtual, -1, -1) else None)
                            (socket_depth v) (negb (multi_socket v)) (vp_cpus p))
| ODie p d :            (* a die level iff the socket has several dies *)
    In p (sv_pkgs v) -> (1 <? zlen (vp_dieids p)) = true -> In d (vp_dies p) ->
    origin mf v cs (mk_pool mf v cs (KDie, vp_id p, vd_id d) (Some (socket_key p)) (socket_depth v + 1) false (vd_cpus d))
| ONumaSocket p nid n : (* NUMA pools directly under a single-die socket iff it has several nodes; memory-less nodes folded *)
    In p (sv_pkgs v) -> (1 <? zlen (vp_dieids p)) = false -> (1 <? zlen (vp_nodes p)) = true -> In nid (vp_nodes p) ->
    find_node v nid = Some n -> node_memless n = false ->
    origin mf v cs (mk_pool mf v cs (KNuma, -1, nid) (Some (socket_key p)) (socket_depth v + 1) false (vn_cpus n))
| ONumaDie p d nid n :  (* NUMA pools under a die iff the die has several nodes *)
    In p (sv_pkgs v) -> (1 <? zlen (vp_dieids p)) = true -> In d (vp_dies p) -> (1 <? zlen (vd_nodes d)) = true -> In nid (vd_nodes d) ->
    find_node v nid = Some n -> node_memless n = false ->
    origin mf v cs (mk_pool mf v cs (KNuma, -1, nid) (Some (KDie, vp_id p, vd_id d)) (socket_depth v + 2) false (vn_cpus n)).

(* ---- correspondence checker, part (b) ---- *)
Definition opkey_eqb (a b : option pkey) : bool :=
  match a, b with None, None => true | Some x, Some y => pkey_eqb x y | _, _ => false end.

(* bit codes of the fields that differ *)
Definition pool_diff (a b : pool) : Z :=
  (if opkey_eqb (pl_parent a) (pl_parent b) then 0 else 1) + (if pl_depth a =? pl_depth b then 0 else 2)
  + (if seteq (pl_hw a) (pl_hw b) then 0 else 4) + (if seteq (pl_iso a) (pl_iso b) then 0 else 8)
  + (if seteq (pl_res a) (pl_res b) then 0 else 16) + (if seteq (pl_shr a) (pl_shr b) then 0 else 32)
  + (if seteq (pl_dram a) (pl_dram b) then 0 else 64) + (if seteq (pl_pmem a) (pl_pmem b) then 0 else 128)
  + (if seteq (pl_hbm a) (pl_hbm b) then 0 else 256).

Definition find_pool (k : pkey) (l : list pool) : option pool := find (fun p => pkey_eqb (pl_key p) k) l.

Inductive pools_obs :=
| ObsOk (cs : cpusets) (pools : list pool)
| ObsRej (r : reject).

(* codes: 1 outcome differs, 2 allowed/isolated/reserved differ, 3 pool count differs,
   1000+i*1000+bits: i-th observed pool differs (999 = missing in the model) *)
Definition pools_case_diff (mf : bool) (v : system_view) (c : cfg) (choice : option (list Z)) (o : pools_obs) : list Z :=
  match build_pools mf (fun _ _ => choice) v c, o with
  | Rej a, ObsRej b => match a, b with RejConstraints, RejConstraints | RejTopology, RejTopology => [] | _, _ => [1] end
  | Ok _, ObsRej _ | Rej _, ObsOk _ _ => [1]
  | Ok (cs, ps), ObsOk ocs ops =>
    (if seteq (cs_allowed cs) (cs_allowed ocs) && seteq (cs_isolated cs) (cs_isolated ocs) && seteq (cs_reserved cs) (cs_reserved ocs)
     then [] else [2]) ++
    (if Nat.eqb (List.length ps) (List.length ops) then [] else [3]) ++
    List.concat (map (fun ip => match ip with (i, op) =>
                   match find_pool (pl_key op) ps with
                   | None => [1000 + i * 1000 + 999]
                   | Some mp => let d := pool_diff mp op in if d =? 0 then [] else [1000 + i * 1000 + d]
                   end end)
                (combine (seqZ 0 (List.length ops)) ops))
  end.

(* guards evaluated on every real run: 1 = view not hierarchical, 2 = allocator contract broken
   (reserved by quantity not a subset of allowed minus isolated, or of the wrong size) *)
Definition pools_case_guards (v : system_view) (c : cfg) (choice : option (list Z)) (o : pools_obs) : list Z :=
  (if hier_wfb v then [] else [1]) ++
  match cf_resv c, choice, o with
  | RsMilli q, Some r, ObsOk cs _ =>
    if subset r (diff (cs_allowed cs) (cs_isolated cs)) && (card r =? Z.quot (q + 999) 1000) then [] else [2]
  | _, _, _ => []
  end.

Definition pools_mismatches (mf : bool) (cases : list (Z * system_view * cfg * option (list Z) * pools_obs)) : list (Z * list Z) :=
  filter (fun r => negb (is_empty (snd r)))
         (map (fun c => match c with (i, v, cf, ch, o) => (i, pools_case_diff mf v cf ch o) end) cases).
Definition pools_guard_failures (cases : list (Z * system_view * cfg * option (list Z) * pools_obs)) : list (Z * list Z) :=
  filter (fun r => negb (is_empty (snd r)))
         (map (fun c => match c with (i, v, cf, ch, o) => (i, pools_case_guards v cf ch o) end) cases).
