(* libmem: Realloc -- a failed Realloc changes nothing, a successful one never removes nodes from
   the allocation, moves other allocations only to supersets (and only movable ones), keeps fit,
   normal memory and the state invariant. *)
From Coq Require Import ZArith NArith List Bool Lia Permutation.
From NV Require Import Gen.Gen_LibmemConsts Gen.Gen_LibmemTabs Libmem_Model Libmem_Basics Libmem_Steps Libmem_Proofs Libmem_Alloc.
Import ListNotations.
Open Scope Z_scope.

Section Realloc.
Context (ns : list node) (ex : N -> N -> N * N) (fx : fixes).

(* weak pointwise relation: same request, zone grown (no priority condition: the requester of a
   Realloc may be a reservation) *)
Definition mvw (r r' : req) : Prop := r' = set_zone (r_zone r') r /\ msub (r_zone r) (r_zone r') = true.

Lemma mv_mvw r r' : mv r r' -> mvw r r'.
Proof. intros [E [S _]]. split; assumption. Qed.

Lemma mvw_trans a b c : mvw a b -> mvw b c -> mvw a c.
Proof.
  intros [E1 S1] [E2 S2]. split; [rewrite E2, E1; reflexivity|eapply msub_trans; eauto].
Qed.

Lemma f2_mvw_trans l1 l2 l3 : Forall2 mvw l1 l2 -> Forall2 mvw l2 l3 -> Forall2 mvw l1 l3.
Proof.
  intros H. revert l3. induction H as [|a b l1 l2 Hab H IH]; intros l3 H3.
  - inversion H3. constructor.
  - inversion H3 as [|? c ? l3' Hbc H3']; subst. constructor; [eapply mvw_trans; eauto|]. apply IH. exact H3'.
Qed.

Lemma f2_mv_mvw l l' : lmoves l l' -> Forall2 mvw l l'.
Proof. unfold lmoves. induction 1; constructor; [apply mv_mvw; assumption|assumption]. Qed.

Lemma f2_mvw_move l id z t : (forall r, In r l -> r_id r = id -> r_zone r = z) -> msub z t = true ->
  Forall2 mvw l (move_req id t l).
Proof.
  unfold move_req. intros H Hs. induction l as [|a l IH]; [constructor|]. cbn [map]. constructor.
  - destruct (r_id a =? id)%N eqn:E.
    + apply N.eqb_eq in E. split; [reflexivity|]. cbn [set_zone r_zone]. rewrite (H a (or_introl eq_refl) E). exact Hs.
    + split; [symmetry; apply set_zone_same|apply msub_refl].
  - apply IH. intros r Hr. apply H. right. exact Hr.
Qed.

Lemma f2_mvw_ids l l' : Forall2 mvw l l' -> map r_id l' = map r_id l.
Proof. induction 1 as [|a b l l' [E _] H IH]; [reflexivity|]. cbn [map]. rewrite IH, E. reflexivity. Qed.

Lemma f2_mvw_in_r l l' r' : Forall2 mvw l l' -> In r' l' -> exists r, In r l /\ mvw r r'.
Proof.
  induction 1 as [|a b l l' Hab H IH]; [intros []|].
  intros [<-|Hin]; [exists a; split; [left; reflexivity|exact Hab]|].
  destruct (IH Hin) as [r [Hr Hm]]. exists r. split; [right; exact Hr|exact Hm].
Qed.

Lemma f2_mvw_find l l' id r : Forall2 mvw l l' -> find_req id l = Some r ->
  exists r', find_req id l' = Some r' /\ mvw r r'.
Proof.
  unfold find_req. induction 1 as [|a b l l' Hab H IH]; [discriminate|].
  cbn [find]. destruct Hab as [E S]. assert (r_id b = r_id a) as Eid by (rewrite E; reflexivity).
  rewrite Eid. destruct (r_id a =? id)%N.
  - intros X. injection X as <-. exists b. split; [reflexivity|]. exact (conj E S).
  - exact IH.
Qed.

Lemma usage_mvw l l' z : Forall2 mvw l l' -> sizes_nonneg l -> usage l' z <= usage l z.
Proof.
  unfold usage. induction 1 as [|a b l l' Hab H IH]; intros Hs; [cbn; lia|].
  cbn [fold_right]. assert (sizes_nonneg l) as Hs' by (intros r Hr; apply Hs; right; exact Hr).
  specialize (IH Hs'). pose proof (Hs a (or_introl eq_refl)) as Ha.
  destruct Hab as [E S]. assert (r_size b = r_size a) as Es by (rewrite E; reflexivity).
  rewrite Es. destruct (msub (r_zone b) z) eqn:Eb.
  - rewrite (msub_trans _ _ _ S Eb). lia.
  - destruct (msub (r_zone a) z); lia.
Qed.

Lemma restore_mvw l_start l' rev : ids_nodup l_start -> ids_nodup l' ->
  (forall r, In r l_start -> r_zone r <> 0%N) -> jstart l_start l' rev ->
  forall la lb, Forall2 mvw la lb -> (forall r, In r la -> In r l_start) -> (forall r, In r lb -> In r l') ->
  flat_map (restore rev) lb = la.
Proof.
  intros ND ND' Hnz J. induction 1 as [|r0 r' la lb Hm F IH]; intros Ha Hb; [reflexivity|].
  cbn [flat_map]. rewrite IH; [|intros r Hr; apply Ha; right; exact Hr|intros r Hr; apply Hb; right; exact Hr].
  assert (In r0 l_start) as H0 by (apply Ha; left; reflexivity).
  assert (In r' l') as H' by (apply Hb; left; reflexivity).
  destruct Hm as [E _]. assert (r_id r' = r_id r0) as Eid by (rewrite E; reflexivity).
  unfold restore. specialize (J (r_id r0)). rewrite Eid.
  rewrite (zone_of_in _ _ ND H0) in J. destruct (al_get (r_id r0) rev) as [zr|].
  - subst zr. assert ((r_zone r0 =? 0)%N = false) as -> by (apply N.eqb_neq; apply Hnz; exact H0).
    rewrite E. cbn [set_zone]. destruct r0; reflexivity.
  - rewrite <- Eid in J. rewrite (zone_of_in _ _ ND' H') in J. rewrite E, J. rewrite set_zone_same. reflexivity.
Qed.

(* journal invariant through an arbitrary zone_move to a superset *)
Lemma jinv_zone_move l_start st id r t : jinv l_start st -> find_req id (o_live st) = Some r ->
  msub (r_zone r) t = true -> jinv l_start (zone_move t id st).
Proof.
  intros [N1 [N2 J]] Hf Hzt. rewrite (zone_move_found _ _ _ _ Hf).
  destruct (r_zone r =? t)%N eqn:Ez; [exact (conj N1 (conj N2 J))|]. apply N.eqb_neq in Ez.
  unfold jinv. cbn [o_live o_upd o_rev]. split; [apply al_set_keys_nodup; exact N1|]. split; [apply al_add_new_keys_nodup; exact N2|].
  pose proof (find_req_some _ _ _ Hf) as [_ Eid]. subst id.
  intros id. destruct (N.eq_dec id (r_id r)) as [->|Hne].
  - rewrite al_get_add_new_same, al_get_set_same. rewrite (zone_of_move_same _ _ _ _ Hf).
    assert (is_live (r_id r) (move_req (r_id r) t (o_live st)) = true) as Hl.
    { rewrite is_live_find, (find_req_move_same _ _ _ _ Hf). reflexivity. }
    specialize (J (r_id r)). rewrite (zone_of_find _ _ _ Hf) in J.
    destruct (al_get (r_id r) (o_rev st)) as [zr|].
    + destruct J as [_ [E [S [Hne' _]]]]. split; [reflexivity|]. split; [exact E|]. split; [eapply msub_trans; eauto|].
      split; [|exact Hl]. intros ->. apply Hne'. apply msub_antisym; assumption.
    + destruct J as [_ E]. split; [reflexivity|]. split; [exact E|]. split; [exact Hzt|]. split; [exact Ez|exact Hl].
  - rewrite al_get_add_new_other, al_get_set_other by exact Hne. rewrite zone_of_move_other by exact Hne.
    specialize (J id). destruct (al_get id (o_rev st)) as [zr|]; [|exact J].
    destruct J as [A [B [C [D E]]]]. repeat split; try assumption.
    rewrite is_live_find, find_req_move_other by exact Hne. rewrite <- is_live_find. exact E.
Qed.

Lemma jinv_empty l zk f o : jinv l (mkOst l zk [] [] f o).
Proof.
  unfold jinv. cbn [o_upd o_rev o_live keys map]. split; [constructor|]. split; [constructor|].
  intros id. unfold al_get. cbn [find]. split; reflexivity.
Qed.

(* ------------------------------------------------------------------ the start of a Realloc *)

Definition realloc_start (s : state) (id target : N) : ost :=
  zone_move target id (mkOst (live s) (zkeys s) [] [] true false).

Record realloc_facts (s : state) (target : N) (st : ost) : Prop := {
  rf_nodup : ids_nodup (o_live st);
  rf_mvw : Forall2 mvw (live s) (o_live st);
  rf_P3 : P3 target (zkeys s) st;
  rf_J : jinv (live s) st }.

Lemma f2_mvw_refl l : Forall2 mvw l l.
Proof. induction l; constructor; [split; [symmetry; apply set_zone_same|apply msub_refl]|assumption]. Qed.

Lemma realloc_start_facts s id target r : Inv s -> find_req id (live s) = Some r ->
  msub (r_zone r) target = true -> realloc_facts s target (realloc_start s id target).
Proof.
  intros [ND [S C]] Hf Hs. pose proof (find_req_some _ _ _ Hf) as [Hin Eid].
  assert (target <> 0%N) as Tnz.
  { intros ->. apply (proj1 (C r Hin)). apply msub_antisym; [exact Hs|].
    apply msub_spec. intros i Hi. rewrite N.bits_0 in Hi. discriminate. }
  split.
  - unfold ids_nodup, realloc_start. rewrite zone_move_ids. exact ND.
  - unfold realloc_start. rewrite (zone_move_found target id (mkOst (live s) (zkeys s) [] [] true false) r Hf). cbn [o_live].
    destruct (r_zone r =? target)%N; cbn [o_live]; [apply f2_mvw_refl|].
    apply f2_mvw_move with (z := r_zone r); [|exact Hs].
    intros q Hq Eq. pose proof (find_req_in _ ND q Hq) as X. rewrite Eq, Hf in X. congruence.
  - unfold realloc_start. rewrite (zone_move_found target id (mkOst (live s) (zkeys s) [] [] true false) r Hf). cbn [o_live o_zk].
    destruct (r_zone r =? target)%N eqn:E.
    + unfold P3. cbn [o_live o_zk]. split; [exact S|]. split; [intros q Hq; apply C; exact Hq|]. split; auto.
    + unfold P3. cbn [o_live o_zk]. split; [apply zk_add_sorted; exact S|]. split; [|split].
      * intros q Hq. unfold move_req in Hq. apply in_map_iff in Hq as [q0 [E0 Hq0]]. apply zk_add_in.
        destruct (r_id q0 =? id)%N; subst q; [left; reflexivity|right; apply C; exact Hq0].
      * intros x Hx. apply zk_add_in. right. exact Hx.
      * intros x Hx. apply zk_add_in in Hx as [->|Hx]; [|left; exact Hx]. right. rewrite N.land_diag. apply mnz_true. exact Tnz.
  - unfold realloc_start. apply (jinv_zone_move (live s) (mkOst (live s) (zkeys s) [] [] true false) id r target); [apply jinv_empty|exact Hf|exact Hs].
Qed.

Lemma realloc_facts_msteps s id target r st : Inv s -> find_req id (live s) = Some r ->
  msub (r_zone r) target = true -> msteps ns ex target (realloc_start s id target) st ->
  realloc_facts s target st /\ lmoves (o_live (realloc_start s id target)) (o_live st).
Proof.
  intros I Hf Hs M. destruct (realloc_start_facts s id target r I Hf Hs) as [ND0 W0 P0 J0].
  assert (target <> 0%N) as Tnz.
  { destruct I as [_ [_ C]]. pose proof (find_req_some _ _ _ Hf) as [Hin _]. intros ->. apply (proj1 (C r Hin)).
    apply msub_antisym; [exact Hs|]. apply msub_spec. intros i Hi. rewrite N.bits_0 in Hi. discriminate. }
  destruct (P1_msteps ns ex target _ _ _ M (conj ND0 (lmoves_refl _))) as [ND L].
  split; [|exact L]. split.
  - exact ND.
  - eapply f2_mvw_trans; [exact W0|apply f2_mv_mvw; exact L].
  - eapply P3_msteps; eauto.
  - eapply jinv_msteps; eauto.
Qed.

(* reverting a Realloc gives back exactly the old state *)
Lemma revert_realloc s target st : Inv s -> realloc_facts s target st ->
  fst (revert None st) = live s /\ snd (revert None st) = o_zk st.
Proof.
  intros [ND [S C]] [ND' W [S3 [C3 [I3 O3]]] J]. rewrite revert_unfold.
  destruct (fold_left rev_step (o_rev st) (o_live st, o_zk st)) as [l zk] eqn:F. cbn [fst snd].
  assert (l = fst (fold_left rev_step (o_rev st) (o_live st, o_zk st))) as El by (rewrite F; reflexivity).
  assert (zk = snd (fold_left rev_step (o_rev st) (o_live st, o_zk st))) as Ez by (rewrite F; reflexivity).
  pose proof J as [_ [NDr _]]. pose proof (jinv_jstart ex _ _ J) as JS. split.
  - rewrite El, rev_fold_live by exact NDr.
    apply (restore_mvw (live s) (o_live st) (o_rev st) ND ND' (fun r Hr => proj1 (C r Hr)) JS _ _ W); auto.
  - rewrite Ez. apply rev_fold_zk; [exact S3|].
    intros k zr Hin Hz. apply (al_in_get _ _ _ NDr) in Hin. specialize (JS k). rewrite Hin in JS.
    destruct (is_live k (live s)) eqn:Lk.
    + rewrite is_live_find in Lk. destruct (find_req k (live s)) as [q|] eqn:Fq; [|discriminate].
      rewrite (zone_of_find _ _ _ Fq) in JS. subst zr. apply I3. apply C. apply (find_req_some _ _ _ Fq).
    + rewrite (zone_of_notlive _ _ Lk) in JS. contradiction.
Qed.

(* ------------------------------------------------------------------ C06: a failed Realloc changes nothing *)

Theorem realloc_fail_noop s id nodes types s' res : Inv s -> NoEmpty s -> fx_F2r fx = true ->
  realloc ns ex fx s id nodes types = (s', res) -> rs_kind res <> KOk -> s' = s.
Proof.
  intros I NE F2 H K. unfold realloc in H. rewrite F2 in H. cbn [clean_if] in H.
  destruct (find_req id (live s)) as [r|] eqn:Hf; [|injection H as <- <-; reflexivity].
  assert (cleanup (live s) (zkeys s) = zkeys s) as CL by (apply cleanup_all; exact NE).
  destruct (validate_realloc ns r nodes types) as [| |n' t'].
  - injection H as <- <-. cbn in K. congruence.
  - injection H as <- <-. rewrite CL, andb_false_r. apply state_eta.
  - destruct (ex (N.lor (r_zone r) n') t') as [nn nt]. destruct (nn =? 0)%N.
    + injection H as <- <-. rewrite CL, andb_false_r. apply state_eta.
    + set (target := N.lor (N.lor (r_zone r) n') nn) in *.
      assert (msub (r_zone r) target = true) as Hs.
      { eapply msub_trans; [apply msub_lor_l|apply msub_lor_l]. }
      pose proof (realloc_start_facts s id target r I Hf Hs) as F0.
      pose proof (handle_overcommit_msteps ns ex target (realloc_start s id target) (rf_nodup _ _ _ F0)) as HO.
      fold (realloc_start s id target) in H.
      destruct (handle_overcommit ns ex target (realloc_start s id target)) as [st'|st'|].
      * injection H as <- <-. cbn in K. congruence.
      * destruct (realloc_facts_msteps s id target r st' I Hf Hs HO) as [F _].
        destruct (revert_realloc s target st' I F) as [E1 E2].
        destruct (revert None st') as [l zk]. cbn [fst snd] in E1, E2. subst l zk. injection H as <- <-.
        destruct F as [_ _ [S3 [_ [I3 _]]] _]. rewrite andb_false_r. cbn [bump].
        rewrite (cleanup_restored s (o_zk st') I NE S3 I3). apply state_eta.
      * injection H as <- <-. reflexivity.
Qed.

(* ------------------------------------------------------------------ C07: a successful Realloc *)

Lemma set_types_map_zone id f l : (forall q, r_zone (f q) = r_zone q /\ r_id (f q) = r_id q /\ r_size (f q) = r_size q) ->
  let l' := map (fun q => if (r_id q =? id)%N then f q else q) l in
  map r_id l' = map r_id l /\ map r_zone l' = map r_zone l /\ map r_size l' = map r_size l.
Proof.
  intros Hf. cbn zeta. rewrite !map_map. repeat split; apply map_ext; intros q; destruct (r_id q =? id)%N; try reflexivity; apply Hf.
Qed.

Lemma zone_of_map_keep id k f l : (forall q, r_zone (f q) = r_zone q /\ r_id (f q) = r_id q) ->
  zone_of k (map (fun q => if (r_id q =? id)%N then f q else q) l) = zone_of k l.
Proof.
  intros Hf. unfold zone_of, find_req. induction l as [|a l IH]; [reflexivity|]. cbn [map find].
  destruct (r_id a =? id)%N.
  - destruct (Hf a) as [Ez Ei]. rewrite Ei. destruct (r_id a =? k)%N; [exact Ez|exact IH].
  - destruct (r_id a =? k)%N; [reflexivity|exact IH].
Qed.

(* never removes nodes; every allocation (the requester included) ends in a superset of its zone;
   the state invariant is kept *)
Theorem realloc_ok s id nodes types s' res : Inv s -> fx_F2r fx = true ->
  realloc ns ex fx s id nodes types = (s', res) -> rs_kind res = KOk ->
  is_live id (live s) = true /\ msub (zone_of id (live s)) (rs_zone res) = true /\
  rs_zone res = zone_of id (live s') /\ map r_id (live s') = map r_id (live s) /\
  (forall q, In q (live s) -> msub (r_zone q) (zone_of (r_id q) (live s')) = true).
Proof.
  intros I F2 H K. pose proof I as [ND [S C]]. unfold realloc in H. rewrite F2 in H. cbn [clean_if] in H.
  destruct (find_req id (live s)) as [r|] eqn:Hf; [|injection H as <- <-; cbn in K; discriminate].
  assert (is_live id (live s) = true) as Hl by (rewrite is_live_find, Hf; reflexivity).
  pose proof (find_req_some _ _ _ Hf) as [Hin Eid].
  split; [exact Hl|]. rewrite (zone_of_find _ _ _ Hf).
  destruct (validate_realloc ns r nodes types) as [| |n' t'].
  - injection H as <- <-. cbn [rs_zone live]. split; [apply msub_refl|]. split; [symmetry; apply zone_of_find; exact Hf|].
    split; [reflexivity|]. intros q Hq. rewrite (zone_of_in _ _ ND Hq). apply msub_refl.
  - injection H as <- <-. cbn in K. discriminate.
  - destruct (ex (N.lor (r_zone r) n') t') as [nn nt]. destruct (nn =? 0)%N; [injection H as <- <-; cbn in K; discriminate|].
    set (target := N.lor (N.lor (r_zone r) n') nn) in *.
    assert (msub (r_zone r) target = true) as Hs.
    { eapply msub_trans; [apply msub_lor_l|apply msub_lor_l]. }
    pose proof (realloc_start_facts s id target r I Hf Hs) as F0.
    pose proof (handle_overcommit_msteps ns ex target (realloc_start s id target) (rf_nodup _ _ _ F0)) as HO.
    fold (realloc_start s id target) in H.
    destruct (handle_overcommit ns ex target (realloc_start s id target)) as [st'|st'|].
    + destruct HO as [M R]. destruct (realloc_facts_msteps s id target r st' I Hf Hs M) as [[ND' W _ _] _].
      injection H as <- <-. cbn [rs_zone live].
      set (f := fun q => set_types (N.lor (r_types q) nt) (N.lor (r_asked q) t') q).
      destruct (set_types_map_zone id f (o_live st') (fun q => conj eq_refl (conj eq_refl eq_refl))) as [Ei [Ez _]].
      cbn zeta in Ei, Ez.
      assert (forall k, zone_of k (map (fun q => if (r_id q =? id)%N then f q else q) (o_live st')) = zone_of k (o_live st')) as ZO
        by (intros k; apply zone_of_map_keep; intros q; split; reflexivity).
      unfold f in Ei, Ez, ZO. cbn beta in Ei, Ez, ZO.
      rewrite ZO. destruct (f2_mvw_find _ _ _ _ W Hf) as [r' [Hf' [_ S']]].
      split; [rewrite (zone_of_find _ _ _ Hf'); exact S'|]. split; [reflexivity|].
      split; [rewrite Ei; apply f2_mvw_ids; exact W|].
      intros q Hq. rewrite ZO. destruct (f2_mvw_find _ _ _ _ W (find_req_in _ ND q Hq)) as [q' [Hq' [_ Sq]]].
      rewrite (zone_of_find _ _ _ Hq'). exact Sq.
    + destruct (revert None st'). injection H as <- <-. cbn in K. discriminate.
    + injection H as <- <-. cbn in K. discriminate.
Qed.

End Realloc.
