(* Topology-aware: ledgers, capacity, eligibility (C03). *)
From Coq Require Import ZArith List Bool Lia.
From stdpp Require Import gmap sets fin_sets.
From NV Require Import TA_Model TA_Proofs.
Import ListNotations.
Open Scope Z_scope.

(* ---------- eligibility table (pure) ---------- *)

Lemma prefs_no_exclusive i :
  pi_qos i = BestEffort \/ pi_qos i = Burstable \/ pi_milli i < 1000 \/
  pi_preserve i = true \/ pi_prefer_reserved i = true \/ (pi_ns_reserved i = true /\ pi_explicit_reservation i = false) \/
  pi_shared i = true ->
  0 <= pi_milli i -> granted_full (cpu_prefs i) = 0.
Proof.
  intros H Hm. unfold cpu_prefs, granted_full.
  destruct (pi_preserve i) eqn:?; [reflexivity|].
  destruct (pi_prefer_reserved i) eqn:?; [reflexivity|].
  destruct (pi_ns_reserved i && negb (pi_explicit_reservation i)) eqn:Hns; [reflexivity|].
  destruct (pi_qos i) eqn:?; [|reflexivity|reflexivity].
  assert (Hc : pi_milli i < 1000 \/ pi_shared i = true).
  { destruct H as [H|[H|[H|[H|[H|[[H1 H2]|H]]]]]]; try discriminate; auto.
    rewrite H1, H2 in Hns. discriminate. }
  destruct (Z.quot (pi_milli i) 1000 =? 0) eqn:Hq; [reflexivity|].
  apply Z.eqb_neq in Hq.
  destruct Hc as [Hc|Hc].
  - exfalso. apply Hq. apply Z.quot_small. lia.
  - rewrite Hc. destruct (Z.quot (pi_milli i) 1000 <? 2); [reflexivity|].
    cbn [negb andb]. destruct (0 <? Z.rem (pi_milli i) 1000); reflexivity.
Qed.

(* a Guaranteed, non-reserved, non-preserved container that does not prefer shared CPUs and asks
   for whole CPUs gets exactly the whole-CPU part of its request exclusively *)
Lemma prefs_whole_cpus i :
  pi_qos i = Guaranteed -> pi_preserve i = false -> pi_prefer_reserved i = false ->
  (pi_ns_reserved i = false \/ pi_explicit_reservation i = true) ->
  pi_shared i = false -> 1000 <= pi_milli i ->
  (pi_milli i < 2000 \/ Z.rem (pi_milli i) 1000 = 0 \/ pi_shared_kind i = PrefAnnotated) ->
  granted_full (cpu_prefs i) = Z.quot (pi_milli i) 1000 /\
  r_fraction (cpu_prefs i) = Z.rem (pi_milli i) 1000.
Proof.
  intros Hq Hp Hr Hns Hs Hm Hc. unfold cpu_prefs, granted_full. rewrite Hq, Hp, Hr, Hs.
  assert (Hn : pi_ns_reserved i && negb (pi_explicit_reservation i) = false).
  { destruct Hns as [->| ->]; [reflexivity|]. destruct (pi_ns_reserved i); reflexivity. }
  rewrite Hn.
  assert (1 <= Z.quot (pi_milli i) 1000) by (apply Z.quot_le_lower_bound; lia).
  destruct (Z.quot (pi_milli i) 1000 =? 0) eqn:E0; [lia|].
  destruct (Z.quot (pi_milli i) 1000 <? 2) eqn:E2.
  - cbn [r_type r_full r_fraction]. destruct (0 <? Z.quot (pi_milli i) 1000) eqn:?; [auto|lia].
  - assert (2 <= Z.quot (pi_milli i) 1000) by lia.
    destruct (0 <? Z.rem (pi_milli i) 1000) eqn:Ef.
    + destruct Hc as [Hc|[Hc|Hc]].
      * exfalso. assert (Z.quot (pi_milli i) 1000 < 2); [|lia]. apply Z.quot_lt_upper_bound; lia.
      * lia.
      * rewrite Hc. cbn [negb andb prefkind_annotated r_type r_full r_fraction].
        destruct (0 <? Z.quot (pi_milli i) 1000) eqn:?; [auto|lia].
    + cbn [r_type r_full r_fraction]. destruct (0 <? Z.quot (pi_milli i) 1000) eqn:?; [|lia].
      split; [reflexivity|]. pose proof (Z.rem_nonneg (pi_milli i) 1000). lia.
Qed.

(* nothing is lost: exclusive + shared part add up to the request (BestEffort gets none) *)
Lemma prefs_conservation i : 0 <= pi_milli i -> pi_qos i <> BestEffort \/ pi_preserve i = true \/ pi_prefer_reserved i = true \/ (pi_ns_reserved i && negb (pi_explicit_reservation i) = true) ->
  1000 * r_full (cpu_prefs i) + r_fraction (cpu_prefs i) = pi_milli i.
Proof.
  intros Hm H. unfold cpu_prefs.
  destruct (pi_preserve i); [cbn [r_full r_fraction]; lia|]. destruct (pi_prefer_reserved i); [cbn [r_full r_fraction]; lia|].
  destruct (pi_ns_reserved i && negb (pi_explicit_reservation i)); [cbn [r_full r_fraction]; lia|].
  destruct (pi_qos i); [|cbn [r_full r_fraction]; lia|].
  - pose proof (Z.quot_rem' (pi_milli i) 1000) as Hqr.
    set (q := Z.quot (pi_milli i) 1000) in *. set (m := Z.rem (pi_milli i) 1000) in *.
    destruct (q =? 0) eqn:E0; [cbn [r_full r_fraction]; apply Z.eqb_eq in E0; lia|].
    destruct (q <? 2); [destruct (pi_shared i); cbn [r_full r_fraction]; lia|].
    destruct (0 <? m) eqn:Em; [destruct (negb (pi_shared i) && _); cbn [r_full r_fraction]; lia|].
    assert (0 <= m) by (apply Z.rem_nonneg; lia).
    destruct (pi_shared i); cbn [r_full r_fraction]; lia.
  - destruct H as [H|[H|[H|H]]]; congruence.
Qed.

Section ta.
Context (t : tree).

(* ---------- what a successful allocation grants ---------- *)
Lemma eff_full_granted r : (if 0 <? eff_full r then eff_full r else 0) = granted_full r.
Proof.
  unfold eff_full, granted_full. destruct (r_type r); try reflexivity.
  destruct (0 <? r_full r) eqn:E; [reflexivity|]. rewrite E. reflexivity.
Qed.

Lemma ta_alloc_grant s cid r p X s' : ta_alloc t s cid r p X = Ok s' ->
  exists g, grants s' !! cid = Some g /\ g_pool g = p /\ csize (g_excl g) = granted_full r /\
            (g_excl g ⊆ free_iso s p \/ g_excl g ⊆ free_shar s p).
Proof.
  rewrite <- eff_full_granted. unfold ta_alloc.
  set (full := eff_full r). set (frac := eff_frac r).
  set (ty := match r_type r with CpuReserved => _ | x => x end).
  assert (Body : forall Y, csize Y = (if 0 <? full then full else 0) -> (Y ⊆ free_iso s p \/ Y ⊆ free_shar s p) ->
    (if 0 <? frac
     then match ty with
          | CpuNormal => if alloc_shared t (account_alloc t s p Y) p <? frac then Err ErrNoCapacity
                         else Ok (set_grants (add_shared (account_alloc t s p Y) p frac)
                                   (<[cid := {| g_pool := p; g_excl := Y; g_type := ty; g_portion := frac |}]> (grants (account_alloc t s p Y))))
          | CpuReserved => if alloc_reserved t (account_alloc t s p Y) p <? frac then Err ErrNoCapacity
                           else Ok (set_grants (add_reserved (account_alloc t s p Y) p frac)
                                     (<[cid := {| g_pool := p; g_excl := Y; g_type := ty; g_portion := frac |}]> (grants (account_alloc t s p Y))))
          | CpuPreserve => Ok (set_grants (account_alloc t s p Y)
                                 (<[cid := {| g_pool := p; g_excl := Y; g_type := ty; g_portion := frac |}]> (grants (account_alloc t s p Y))))
          end
     else Ok (set_grants (account_alloc t s p Y)
                (<[cid := {| g_pool := p; g_excl := Y; g_type := ty; g_portion := 0 |}]> (grants (account_alloc t s p Y))))) = Ok s' ->
    exists g, grants s' !! cid = Some g /\ g_pool g = p /\ csize (g_excl g) = (if 0 <? full then full else 0) /\
              (g_excl g ⊆ free_iso s p \/ g_excl g ⊆ free_shar s p)).
  { intros Y Hsz HY. destruct (0 <? frac); [destruct ty|].
    - destruct (alloc_shared t _ p <? frac); [discriminate|]. intros [= <-]. eexists. cbn [grants set_grants]. rewrite lookup_insert. eauto.
    - destruct (alloc_reserved t _ p <? frac); [discriminate|]. intros [= <-]. eexists. cbn [grants set_grants]. rewrite lookup_insert. eauto.
    - intros [= <-]. eexists. cbn [grants set_grants]. rewrite lookup_insert. eauto.
    - intros [= <-]. eexists. cbn [grants set_grants]. rewrite lookup_insert. eauto. }
  destruct (0 <? full) eqn:Hfull.
  - destruct ((full <=? csize (free_iso s p)) && r_isolate r) eqn:Hiso.
    + destruct (subseteqb X (free_iso s p) && (csize X =? full)) eqn:HX; [|discriminate].
      apply andb_true_iff in HX as [HX Hsz]. apply subseteqb_true in HX. apply Z.eqb_eq in Hsz.
      apply Body; auto.
    + destruct (1000 * full <? alloc_shared t s p); [|discriminate].
      destruct (subseteqb X (free_shar s p) && (csize X =? full)) eqn:HX; [|discriminate].
      destruct (spare_okb t s p X) eqn:HDS; [|discriminate].
      apply andb_true_iff in HX as [HX Hsz]. apply subseteqb_true in HX. apply Z.eqb_eq in Hsz.
      apply Body; auto.
  - destruct (bool_decide (X = ∅)) eqn:HX; [|discriminate].
    apply Body; [reflexivity|]. left. set_solver.
Qed.


(* ---------- ledgers: granted capacity = sum of the portions of the pool's grants ---------- *)
Definition contrib (ty : cputype) (q : nat) (g : grant) : Z :=
  if Nat.eqb (g_pool g) q && cputype_eqb (g_type g) ty then g_portion g else 0.
Definition ledger (ty : cputype) (q : nat) (m : gmap nat grant) : Z :=
  map_fold (fun _ g acc => contrib ty q g + acc) 0 m.

Lemma ledger_empty ty q : ledger ty q ∅ = 0.
Proof. unfold ledger. apply map_fold_empty. Qed.

Lemma ledger_insert ty q m c g : m !! c = None -> ledger ty q (<[c := g]> m) = contrib ty q g + ledger ty q m.
Proof.
  intros H. unfold ledger. apply (map_fold_insert_L (fun _ g acc => contrib ty q g + acc)); [|exact H].
  intros. lia.
Qed.

Lemma ledger_delete ty q m c g : m !! c = Some g -> ledger ty q m = contrib ty q g + ledger ty q (delete c m).
Proof.
  intros H. rewrite <- (insert_delete m c g H) at 1. apply ledger_insert. apply lookup_delete.
Qed.

Definition LInv (s : st) : Prop :=
  forall q, gr_shared s q = ledger CpuNormal q (grants s) /\ gr_reserved s q = ledger CpuReserved q (grants s).

Definition ledger_shape (s : st) (cid : nat) (s' : st) : Prop :=
  exists g, grants s' = <[cid := g]> (grants s) /\
            (forall q, gr_shared s' q = gr_shared s q + contrib CpuNormal q g) /\
            (forall q, gr_reserved s' q = gr_reserved s q + contrib CpuReserved q g).

Lemma upd_add f p d q : upd f p (f p + d) q = f q + (if Nat.eqb p q then d else 0).
Proof.
  unfold upd. destruct (Nat.eqb q p) eqn:E.
  - apply Nat.eqb_eq in E. subst. rewrite Nat.eqb_refl. reflexivity.
  - rewrite Nat.eqb_sym in E. rewrite E. lia.
Qed.

Lemma ta_alloc_ledger s cid r p X s' : ta_alloc t s cid r p X = Ok s' -> ledger_shape s cid s'.
Proof.
  unfold ta_alloc, ledger_shape.
  set (full := eff_full r). set (frac := eff_frac r).
  set (ty := match r_type r with CpuReserved => _ | x => x end).
  assert (Body : forall Y,
    (if 0 <? frac
     then match ty with
          | CpuNormal => if alloc_shared t (account_alloc t s p Y) p <? frac then Err ErrNoCapacity
                         else Ok (set_grants (add_shared (account_alloc t s p Y) p frac)
                                   (<[cid := {| g_pool := p; g_excl := Y; g_type := ty; g_portion := frac |}]> (grants (account_alloc t s p Y))))
          | CpuReserved => if alloc_reserved t (account_alloc t s p Y) p <? frac then Err ErrNoCapacity
                           else Ok (set_grants (add_reserved (account_alloc t s p Y) p frac)
                                     (<[cid := {| g_pool := p; g_excl := Y; g_type := ty; g_portion := frac |}]> (grants (account_alloc t s p Y))))
          | CpuPreserve => Ok (set_grants (account_alloc t s p Y)
                                 (<[cid := {| g_pool := p; g_excl := Y; g_type := ty; g_portion := frac |}]> (grants (account_alloc t s p Y))))
          end
     else Ok (set_grants (account_alloc t s p Y)
                (<[cid := {| g_pool := p; g_excl := Y; g_type := ty; g_portion := 0 |}]> (grants (account_alloc t s p Y))))) = Ok s' ->
    exists g, grants s' = <[cid := g]> (grants s) /\
            (forall q, gr_shared s' q = gr_shared s q + contrib CpuNormal q g) /\
            (forall q, gr_reserved s' q = gr_reserved s q + contrib CpuReserved q g)).
  { intros Y. destruct (0 <? frac); [destruct ty eqn:Hty|].
    - destruct (alloc_shared t _ p <? frac); [discriminate|]. intros [= <-]. eexists. split; [reflexivity|].
      unfold contrib. cbn [g_pool g_type g_portion gr_shared gr_reserved set_grants add_shared account_alloc cputype_eqb].
      split; intros q; [rewrite upd_add; destruct (Nat.eqb p q); cbn [andb]; reflexivity|rewrite andb_false_r; lia].
    - destruct (alloc_reserved t _ p <? frac); [discriminate|]. intros [= <-]. eexists. split; [reflexivity|].
      unfold contrib. cbn [g_pool g_type g_portion gr_shared gr_reserved set_grants add_reserved account_alloc cputype_eqb].
      split; intros q; [rewrite andb_false_r; lia|rewrite upd_add; destruct (Nat.eqb p q); cbn [andb]; reflexivity].
    - intros [= <-]. eexists. split; [reflexivity|].
      unfold contrib. cbn [g_pool g_type g_portion gr_shared gr_reserved set_grants account_alloc cputype_eqb].
      split; intros q; rewrite andb_false_r; lia.
    - intros [= <-]. eexists. split; [reflexivity|].
      unfold contrib. cbn [g_pool g_type g_portion gr_shared gr_reserved set_grants account_alloc].
      split; intros q; match goal with |- context [if ?c then 0 else 0] => destruct c end; lia. }
  destruct (0 <? full).
  - destruct ((full <=? csize (free_iso s p)) && r_isolate r).
    + destruct (subseteqb X (free_iso s p) && (csize X =? full)); [|discriminate]. apply Body.
    + destruct (1000 * full <? alloc_shared t s p); [|discriminate].
      destruct (subseteqb X (free_shar s p) && (csize X =? full)); [|discriminate].
      destruct (spare_okb t s p X); [|discriminate]. apply Body.
  - destruct (bool_decide (X = ∅)); [|discriminate]. apply Body.
Qed.

Lemma ta_reserve_ledger s cid g s' : ta_reserve t s cid g = Ok s' -> ledger_shape s cid s'.
Proof.
  unfold ta_reserve, ledger_shape. destruct (g_type g) eqn:Hty.
  - destruct (negb _); [discriminate|]. destruct (negb _); [discriminate|]. destruct (_ <? _); [discriminate|].
    destruct (negb (spare_allb _ _ _ _)); [discriminate|].
    intros [= <-]. exists g. split; [reflexivity|]. unfold contrib. rewrite Hty.
    cbn [gr_shared gr_reserved set_grants add_shared account_alloc cputype_eqb].
    split; intros q; [rewrite upd_add; destruct (Nat.eqb (g_pool g) q); cbn [andb]; reflexivity|rewrite andb_false_r; lia].
  - destruct (negb (bool_decide (g_excl g = ∅))) eqn:H1; [discriminate|].
    apply negb_false_iff, bool_decide_eq_true in H1.
    destruct ((0 <? _) && _); [discriminate|].
    intros [= <-]. exists g. split; [reflexivity|]. unfold contrib. rewrite Hty, H1.
    change (csize ∅) with 0.
    cbn [gr_shared gr_reserved set_grants add_reserved account_alloc cputype_eqb].
    split; intros q; [rewrite andb_false_r; lia|].
    replace (1000 * 0 + g_portion g) with (g_portion g) by lia.
    rewrite upd_add; destruct (Nat.eqb (g_pool g) q); cbn [andb]; reflexivity.
  - destruct (negb _); [discriminate|].
    intros [= <-]. exists g. split; [reflexivity|]. unfold contrib. rewrite Hty.
    cbn [gr_shared gr_reserved set_grants account_alloc cputype_eqb].
    split; intros q; rewrite andb_false_r; lia.
Qed.

Lemma LInv_init : LInv (init t).
Proof. intros q. unfold init. cbn [gr_shared gr_reserved grants]. rewrite !ledger_empty. auto. Qed.

Lemma ledger_shape_preserves s cid s' : grants s !! cid = None -> LInv s -> ledger_shape s cid s' -> LInv s'.
Proof.
  intros Hf HL (g & Hg & H1 & H2) q. rewrite Hg, H1, H2, !ledger_insert by exact Hf.
  destruct (HL q) as [-> ->]. lia.
Qed.

Lemma release_ledger s cid : LInv s -> LInv (ta_release t s cid).
Proof.
  intros HL. unfold ta_release. destruct (grants s !! cid) as [g|] eqn:Hg; [|exact HL].
  intros q. destruct (HL q) as [H1 H2].
  rewrite (ledger_delete CpuNormal q _ cid g Hg) in H1. rewrite (ledger_delete CpuReserved q _ cid g Hg) in H2.
  unfold contrib in H1, H2.
  destruct (g_type g) eqn:Hty; cbn [gr_shared gr_reserved grants set_grants add_shared add_reserved account_release cputype_eqb] in *.
  - rewrite upd_add. rewrite andb_false_r in H2. destruct (Nat.eqb (g_pool g) q); cbn [andb] in *; lia.
  - rewrite upd_add. rewrite andb_false_r in H1. destruct (Nat.eqb (g_pool g) q); cbn [andb] in *; lia.
  - rewrite andb_false_r in H1, H2. lia.
Qed.

Lemma step_ledger s o s' : LInv s -> step t s o = Ok s' -> LInv s'.
Proof.
  intros HL. destruct o as [cid r p X|cid|cid|cid g|]; cbn [step].
  - destruct (grants s !! cid) eqn:Hc; [discriminate|]. destruct (p <? length t)%nat; [|discriminate].
    intros H. exact (ledger_shape_preserves s cid s' Hc HL (ta_alloc_ledger s cid r p X s' H)).
  - intros [= <-]. exact HL.
  - intros [= <-]. exact (release_ledger s cid HL).
  - destruct (grants s !! cid) eqn:Hc; [discriminate|]. destruct (g_pool g <? length t)%nat; [|discriminate].
    intros H. exact (ledger_shape_preserves s cid s' Hc HL (ta_reserve_ledger s cid g s' H)).
  - intros [= <-]. exact LInv_init.
Qed.

Theorem reachable_ledger os : forall s s', LInv s -> run t s os = Ok s' -> LInv s'.
Proof.
  induction os as [|o os IH]; intros s s' HL; cbn [run].
  - intros [= <-]. exact HL.
  - destruct (step t s o) as [s1|] eqn:Hs; [|discriminate]. intros H. exact (IH s1 s' (step_ledger s o s1 HL Hs) H).
Qed.

End ta.
