(* C15 -- request processing is serialized.  Executable model, no proofs.

   A handler (or goroutine body) is abstracted to its lock/access skeleton: the list of
   [step]s it performs in program order.  [tools/locks2coq] extracts these skeletons from
   pkg/resmgr/nri.go, resource-manager.go and cache/pod.go into Gen/Gen_Locks.v.

   One mutex (the resmgr pipeline lock) and one rendezvous channel (pod.waitResCh of one pod)
   are modelled.  Not modelled: the Go memory model, the mutex implementation, timing,
   what an Access reads or writes (every Access conflicts with every other Access). *)
From Coq Require Import List Arith Bool String.
Import ListNotations.

Inductive step : Type :=
| Lock                       (* m.Lock() *)
| Unlock                     (* m.Unlock() (deferred unlocks are placed at the end) *)
| Access                     (* touches cache / policy / p.byname / m.cfg / m.control, or
                                (in pod.go) a field of the pod *)
| Spawn (body : list step)   (* go func() { body }() *)
| Wait                       (* if ch != nil { <-ch }  : passes when the channel does not exist
                                yet (nil) or is closed, blocks while it is open *)
| Signal                     (* close(ch) *)
| ChanMake.                  (* ch = make(chan struct{}) *)

Inductive chan : Type := CNone | COpen | CClosed.

Record st : Type := mkst { thr : list (list step); own : option nat; ch : chan }.

Fixpoint upd {A} (l : list A) (i : nat) (x : A) : list A :=
  match l, i with
  | [], _ => []
  | _ :: t, O => x :: t
  | h :: t, S j => h :: upd t j x
  end.

(* the step thread i would execute next *)
Definition next (s : st) (i : nat) : option step :=
  match nth_error (thr s) i with
  | Some (a :: _) => Some a
  | _ => None
  end.

(* small-step semantics: thread i executes its next step, if it is enabled *)
Definition exec (s : st) (i : nat) : option st :=
  match nth_error (thr s) i with
  | Some (a :: r) =>
    let t := upd (thr s) i r in
    match a with
    | Lock => match own s with
              | None => Some (mkst t (Some i) (ch s))
              | Some _ => None                       (* blocks *)
              end
    | Unlock => match own s with
                | Some j => if j =? i then Some (mkst t None (ch s)) else None
                | None => None                       (* unlock of unlocked mutex: fatal, stuck *)
                end
    | Access => Some (mkst t (own s) (ch s))
    | Spawn b => Some (mkst (t ++ [b]) (own s) (ch s))
    | Wait => match ch s with
              | COpen => None                        (* blocks *)
              | _ => Some (mkst t (own s) (ch s))
              end
    | Signal => Some (mkst t (own s) CClosed)
    | ChanMake => Some (mkst t (own s) COpen)
    end
  | _ => None
  end.

Definition ev : Type := (nat * step)%type.

(* an execution: a schedule together with the steps taken *)
Inductive run : st -> list ev -> st -> Prop :=
| run_nil : forall s, run s [] s
| run_cons : forall s i a s' tr s'',
    next s i = Some a -> exec s i = Some s' -> run s' tr s'' -> run s ((i, a) :: tr) s''.

Fixpoint run_sched (s : st) (sched : list nat) : option st :=
  match sched with
  | [] => Some s
  | i :: r => match exec s i with Some s' => run_sched s' r | None => None end
  end.

Definition init (hs : list (list step)) : st := mkst hs None CNone.

Definition null {A} (l : list A) : bool := match l with [] => true | _ => false end.
Definition finished (s : st) : bool := forallb null (thr s).

(* ---------------------------------------------------------------- well-lockedness *)

(* [wl held p]: p can be run by a thread that currently holds (held = true) / does not hold
   the lock: every Access happens while the lock is held, no double lock, no unlock without
   holding, lock not held at exit, spawned bodies are well-locked starting without the lock,
   no blocking wait inside a handler skeleton. *)
Fixpoint bodies_ok (s : step) : bool :=
  match s with
  | Spawn b =>
    (fix go (h : bool) (l : list step) {struct l} : bool :=
       match l with
       | [] => negb h
       | x :: r =>
         bodies_ok x &&
         match x with
         | Lock => negb h && go true r
         | Unlock => h && go false r
         | Access => h && go h r
         | Wait => false
         | _ => go h r
         end
       end) false b
  | _ => true
  end.

Fixpoint wl (h : bool) (l : list step) {struct l} : bool :=
  match l with
  | [] => negb h
  | x :: r =>
    bodies_ok x &&
    match x with
    | Lock => negb h && wl true r
    | Unlock => h && wl false r
    | Access => h && wl h r
    | Wait => false
    | _ => wl h r
    end
  end.

Definition well_locked (p : list step) : bool := wl false p.

(* diagnosis for the report: first reason why a skeleton is not well-locked *)
Fixpoint diag (h : bool) (l : list step) : option string :=
  match l with
  | [] => if h then Some "lock-held-at-exit"%string else None
  | x :: r =>
    match x with
    | Lock => if h then Some "double-lock"%string else diag true r
    | Unlock => if h then diag false r else Some "unlock-without-lock"%string
    | Access => if h then diag h r else Some "unlocked-access"%string
    | Spawn b => if wl false b then diag h r else Some "unlocked-spawn"%string
    | Wait => Some "wait-in-handler"%string
    | _ => diag h r
    end
  end.

Definition ill_locked (hs : list (string * list step)) : list (string * string) :=
  flat_map (fun np => match diag false (snd np) with None => [] | Some k => [(fst np, k)] end) hs.

(* size: number of steps including those of not yet spawned bodies (termination measure) *)
Fixpoint ssize (s : step) : nat :=
  match s with Spawn b => S (list_sum (map ssize b)) | _ => 1 end.
Definition psize (p : list step) : nat := list_sum (map ssize p).
Definition total (s : st) : nat := list_sum (map psize (thr s)).

(* ---------------------------------------------------------------- traces, critical sections *)

Definition is_acc (e : ev) : bool := match snd e with Access => true | _ => false end.
(* the global order of accesses: which thread accessed, in execution order *)
Definition accs (tr : list ev) : list nat := map fst (filter is_acc tr).

(* number of accesses of thread i up to its next Unlock *)
Fixpoint cnt (i : nat) (tr : list ev) : nat :=
  match tr with
  | [] => 0
  | (j, a) :: r =>
    if j =? i then
      match a with Access => S (cnt i r) | Unlock => 0 | _ => cnt i r end
    else cnt i r
  end.

(* the critical sections of a trace in lock-acquisition order: (thread, #accesses it makes
   before it unlocks) *)
Fixpoint sections (tr : list ev) : list (nat * nat) :=
  match tr with
  | [] => []
  | (i, Lock) :: r => (i, cnt i r) :: sections r
  | _ :: r => sections r
  end.

(* the access order of executing the given sections one after the other *)
Definition serial_accs (secs : list (nat * nat)) : list nat :=
  flat_map (fun ik => repeat (fst ik) (snd ik)) secs.

(* the serial schedule: the threads of hs run to completion one at a time in order pi *)
Definition serial_trace (hs : list (list step)) (pi : list nat) : list ev :=
  flat_map (fun i => map (fun a => (i, a)) (nth i hs [])) pi.

Definition count_acc (p : list step) : nat :=
  List.length (filter (fun a => match a with Access => true | _ => false end) p).

(* a request with exactly one critical section: Lock; Access*; Unlock (or nothing at all) *)
Fixpoint sec_body (p : list step) : bool :=
  match p with
  | [Unlock] => true
  | Access :: r => sec_body r
  | _ => false
  end.
Definition one_section (p : list step) : bool :=
  match p with [] => true | Lock :: r => sec_body r | _ => false end.

(* handlers without goroutines and channel operations *)
Definition plain_step (a : step) : bool :=
  match a with Lock | Unlock | Access => true | _ => false end.
Definition plain (p : list step) : bool := forallb plain_step p.

(* ---------------------------------------------------------------- the pod-resource rendezvous *)

(* Threads: 0 = the creator (runs goFetchPodResources under the caller's lock, then -- to model
   "later readers" -- spawns the readers), 1 = the fetch goroutine, >= 2 = readers
   (GetPodResources).  In this part an Access is an access to a field of the pod. *)
Definition is_access (a : step) : bool := match a with Access => true | _ => false end.
Definition only_acc (l : list step) : bool := forallb is_access l.

Fixpoint body_ok (b : list step) : bool :=      (* Access* ; Signal *)
  match b with
  | [Signal] => true
  | Access :: b' => body_ok b'
  | _ => false
  end.

Definition reader_ok (r : list step) : bool :=  (* Wait ; Access* *)
  match r with Wait :: r' => only_acc r' | _ => false end.

Definition creator_post (c : list step) : bool :=
  forallb (fun a => match a with Access => true | Spawn r => reader_ok r | _ => false end) c.

Definition is_none (c : chan) := match c with CNone => true | _ => false end.
Definition is_open (c : chan) := match c with COpen => true | _ => false end.
Definition is_closed (c : chan) := match c with CClosed => true | _ => false end.

(* Access* ; ChanMake ; Access* ; Spawn body ; (Access | Spawn reader)*   -- c is the channel
   state at the beginning *)
Fixpoint creator_pre (p : list step) (c : chan) : bool :=
  match p with
  | Access :: p' => creator_pre p' c
  | ChanMake :: p' => is_none c && creator_pre p' COpen
  | Spawn b :: p' => is_open c && body_ok b && creator_post p'
  | _ => false
  end.

Definition fetcher_ok (f : list step) (c : chan) : bool :=
  match f with [] => is_closed c | _ => body_ok f && is_open c end.

Definition reader_state (c : chan) (r : list step) : bool :=
  reader_ok r || (only_acc r && is_closed c).

Definition binv (s : st) : bool :=
  match thr s with
  | c0 :: rest =>
    match own s with None => true | Some _ => false end &&
    match rest with
    | [] => creator_pre c0 (ch s)
    | f :: rs => creator_post c0 && fetcher_ok f (ch s) && forallb (reader_state (ch s)) rs
    end
  | [] => false
  end.

Fixpoint chan_free (p : list step) : bool :=
  match p with
  | [] => true
  | (Lock | Unlock | Access) :: r => chan_free r
  | _ => false
  end.

(* the obligation on the generated skeletons of goFetchPodResources / GetPodResources:
   either there is no goroutine and no channel at all (everything happens under the caller's
   lock), or the channel is created before the goroutine is spawned, the goroutine only
   accesses and then signals, and readers wait before they access. *)
Definition fetch_system (f r : list step) (n : nat) : list step := f ++ repeat (Spawn r) n.

Definition fetch_obligation (f r : list step) : bool :=
  (chan_free f && chan_free r) || (creator_pre (fetch_system f r 0) CNone && reader_ok r).

Definition fetch_diag (f r : list step) : option string :=
  if fetch_obligation f r then None
  else if negb (reader_ok r) then Some "reader-does-not-wait"%string
  else Some "fetch-channel-after-spawn"%string.
