(* C18: effective annotations.  Executable model only -- no proofs in this file.

     pkg/resmgr/cache/pod.go        GetEffectiveAnnotation
     cmd/plugins/sgx-epc            parseEpcLimit (+ the limit>0 test of CreateContainer)
     cmd/plugins/memory-qos         effectiveAnnotations, associate, applyQosClass, CreateContainer
     cmd/plugins/memtierd           effectiveAnnotations, associate, qosClass, CreateContainer

   Strings are byte sequences ([list ascii]).  The pod's annotation map is an association list
   with pairwise distinct keys: a Go map *in the order in which one particular `range` visits
   it*.  Maps built by the code (effAnn, unified) are [gmap]s; where the code ranges over such
   a map the model takes the visiting order as an explicit argument. *)
From Coq Require Import Ascii NArith.
From stdpp Require Import strings gmap.
Local Open Scope list_scope.

Notation str := (list ascii).
Definition s (x : string) : str := list_ascii_of_string x.
Definition annots := list (str * str).
Definition amap := gmap str str.

Definition slash : ascii := "/"%char.

(* Go map lookup, on the association list *)
Fixpoint alookup (l : annots) (k : str) : option str :=
  match l with
  | [] => None
  | (k', v) :: tl => if decide (k = k') then Some v else alookup tl k
  end.

(* strings.CutSuffix *)
Fixpoint strip_prefix (p x : str) : option str :=
  match p, x with
  | [], _ => Some x
  | a :: p', b :: x' => if decide (a = b) then strip_prefix p' x' else None
  | _ :: _, [] => None
  end.
Definition cut_suffix (x suf : str) : option str := (@rev ascii) <$> strip_prefix (rev suf) (rev x).

(* ------------------------------------------------------------------ cache and sgx-epc:
   key/container.<name>, key/pod, key -- three exact lookups *)
Definition key_container (key ctr : str) : str := key ++ s "/container." ++ ctr.
Definition key_pod (key : str) : str := key ++ s "/pod".

Definition eff3 (l : annots) (key ctr : str) : option str :=
  match alookup l (key_container key ctr) with
  | Some v => Some v
  | None => match alookup l (key_pod key) with
            | Some v => Some v
            | None => alookup l key
            end
  end.

Definition eff_cache := eff3.   (* pod.GetEffectiveAnnotation(key, container) *)

(* strconv.ParseUint(v, 10, 64): non-empty, decimal digits only, value < 2^64 *)
Definition digit (a : ascii) : option N :=
  let n := N_of_ascii a in if (48 <=? n)%N && (n <=? 57)%N then Some (n - 48)%N else None.
Fixpoint parse_digits (acc : N) (v : str) : option N :=
  match v with
  | [] => Some acc
  | a :: tl => match digit a with Some d => parse_digits (acc * 10 + d)%N tl | None => None end
  end.
Definition parse_uint64 (v : str) : option N :=
  match v with
  | [] => None
  | _ => match parse_digits 0 v with
         | Some n => if (n <? 2 ^ 64)%N then Some n else None
         | None => None
         end
  end.

Definition epc_key : str := s "epc-limit.nri.io".
Inductive epc_res := EpcOk (n : N) | EpcErr.
Definition parse_epc_limit (l : annots) (ctr : str) : epc_res :=
  match eff3 l epc_key ctr with
  | Some v => match parse_uint64 v with Some n => EpcOk n | None => EpcErr end
  | None => EpcOk 0
  end.

(* ------------------------------------------------------------------ memory-qos and memtierd:
   <param><suffix>/<ctr> and <param><suffix>, resolved while ranging over the annotation map *)
Definition mq_suffix : str := s ".memory-qos.nri.io".
Definition mt_suffix : str := s ".memtierd.nri.io".

(* associate(m, key, value, false) *)
Definition assoc_keep (m : amap) (k v : str) : amap :=
  match m !! k with Some _ => m | None => <[k := v]> m end.

(* one iteration of the loop in effectiveAnnotations *)
Definition eff_step (suffix ctr : str) (acc : amap) (kv : str * str) : amap :=
  match cut_suffix kv.1 (suffix ++ slash :: ctr) with
  | Some p => <[p := kv.2]> acc
  | None => match cut_suffix kv.1 suffix with
            | Some p => assoc_keep acc p kv.2
            | None => acc
            end
  end.
Definition effective_annotations (suffix ctr : str) (l : annots) : amap :=
  fold_left (eff_step suffix ctr) l ∅.

Inductive cres := CErr | COk (unified : amap).

(* memory-qos: what applyQosClass does for a class of the configuration, for this container:
   nothing (SwapLimitRatio <= 0), sets memory.high := h and memory.swap.max := max unless
   present, or fails (no memory limit).  [h] is computed by the real applyQosClass (float32
   arithmetic, not part of this property) and is an input of the model. *)
Inductive mq_effect := MqNone | MqAdjust (high : str) | MqNoLimit.
Record mq_config := { mq_unified : list str; mq_classes : list (str * mq_effect) }.

Definition k_class : str := s "class".
Definition k_high : str := s "memory.high".
Definition k_swap : str := s "memory.swap.max".
Definition v_max : str := s "max".
Definition v_zero : str := s "0".

Fixpoint find_class {E} (cls : list (str * E)) (name : str) : option E :=
  match cls with
  | [] => None
  | (n, e) :: tl => if decide (n = name) then Some e else find_class tl name
  end.

(* one iteration of the loop in memory-qos CreateContainer (an error returns at once) *)
Definition mq_step (cfg : mq_config) (st : cres) (kv : str * str) : cres :=
  match st with
  | CErr => CErr
  | COk u =>
      if decide (kv.1 = k_class) then
        match find_class (mq_classes cfg) kv.2 with
        | None => CErr
        | Some MqNoLimit => CErr
        | Some MqNone => COk u
        | Some (MqAdjust h) => COk (assoc_keep (assoc_keep u k_high h) k_swap v_max)
        end
      else if decide (kv.1 ∈ mq_unified cfg) then COk (<[kv.1 := kv.2]> u)
      else CErr
  end.
Definition mq_fold (cfg : mq_config) (ord : annots) : cres := fold_left (mq_step cfg) ord (COk ∅).
(* executable instance: effAnn visited in the order of [map_to_list] (any order gives the same
   result: C18_Props) *)
Definition mq_create (cfg : mq_config) (ctr : str) (l : annots) : cres :=
  mq_fold cfg (map_to_list (effective_annotations mq_suffix ctr l)).

(* memtierd: plugin configuration may be absent (qosClass returns an error then);
   a class has AllowSwap = nil | true | false *)
Definition mt_config := option (list (str * option bool)).
Definition mt_step (cfg : mt_config) (st : cres) (kv : str * str) : cres :=
  match st with
  | CErr => CErr
  | COk u =>
      if decide (kv.1 = k_swap) then COk (<[k_swap := kv.2]> u)
      else if decide (kv.1 = k_high) then COk (<[k_high := kv.2]> u)
      else if decide (kv.1 = k_class) then
        if decide (kv.2 = []) then COk u else
        match cfg with
        | None => CErr
        | Some cls =>
            match find_class cls kv.2 with
            | None => CErr
            | Some None => COk u
            | Some (Some true) => COk (assoc_keep u k_swap v_max)
            | Some (Some false) => COk (assoc_keep u k_swap v_zero)
            end
        end
      else COk u
  end.
Definition mt_fold (cfg : mt_config) (ord : annots) : cres := fold_left (mt_step cfg) ord (COk ∅).
Definition mt_create (cfg : mt_config) (ctr : str) (l : annots) : cres :=
  mt_fold cfg (map_to_list (effective_annotations mt_suffix ctr l)).

(* ------------------------------------------------------------------ correspondence *)

Definition str_eqb (a b : str) : bool := bool_decide (a = b).
Definition ostr_eqb (a b : option str) : bool := bool_decide (a = b).

(* observed unified map (nil adjustment = empty list) against the model's *)
Definition amap_matches (m : amap) (obs : list (string * string)) : bool :=
  (size m =? List.length obs)%nat &&
  forallb (fun kv => ostr_eqb (m !! s kv.1) (Some (s kv.2))) obs.

Inductive obs_cres := ObsErr | ObsPanic | ObsUnified (u : list (string * string)).
Definition cres_matches (r : cres) (o : obs_cres) : bool :=
  match r, o with
  | CErr, ObsErr => true
  | COk m, ObsUnified u => amap_matches m u
  | _, _ => false
  end.

Definition sl (l : list (string * string)) : annots := map (fun kv => (s kv.1, s kv.2)) l.

(* cache: (annotations, [(key, container, observed value or None)]) *)
Definition cache_case := (list (string * string) * list (string * string * option string))%type.
Definition cache_mismatches (cs : list cache_case) : list (nat * nat) :=
  concat (imap (fun i (c : cache_case) =>
    let l := sl c.1 in
    omap id (imap (fun j (q : string * string * option string) =>
               if ostr_eqb (eff_cache l (s q.1.1) (s q.1.2)) (s <$> q.2) then None else Some (i, j)) c.2)) cs).

(* sgx-epc: (annotations, [(container, observed: Some limit | None = error)]) *)
Definition epc_case := (list (string * string) * list (string * option N))%type.
Definition epc_obs_eqb (r : epc_res) (o : option N) : bool :=
  match r, o with EpcOk n, Some m => (n =? m)%N | EpcErr, None => true | _, _ => false end.
Definition epc_mismatches (cs : list epc_case) : list (nat * nat) :=
  concat (imap (fun i (c : epc_case) =>
    let l := sl c.1 in
    omap id (imap (fun j (q : string * option N) =>
               if epc_obs_eqb (parse_epc_limit l (s q.1)) q.2 then None else Some (i, j)) c.2)) cs).

(* memory-qos: (unified annotation names, classes with their effect, annotations,
   [(container, observed effAnn, observed CreateContainer result)]) *)
Definition mq_effect_s := option (option string).   (* None = MqNoLimit, Some None = MqNone, Some (Some h) *)
Definition mq_eff (e : mq_effect_s) : mq_effect :=
  match e with None => MqNoLimit | Some None => MqNone | Some (Some h) => MqAdjust (s h) end.
Definition mq_case := (list string * list (string * mq_effect_s) * list (string * string) *
                       list (string * list (string * string) * obs_cres))%type.
Definition mq_mismatches (cs : list mq_case) : list (nat * nat * bool) :=
  concat (imap (fun i (c : mq_case) =>
    let cfg := {| mq_unified := s <$> c.1.1.1; mq_classes := (fun x => (s x.1, mq_eff x.2)) <$> c.1.1.2 |} in
    let l := sl c.1.2 in
    concat (imap (fun j (q : string * list (string * string) * obs_cres) =>
               (if amap_matches (effective_annotations mq_suffix (s q.1.1) l) q.1.2 then [] else [(i, j, false)]) ++
               (if cres_matches (mq_create cfg (s q.1.1) l) q.2 then [] else [(i, j, true)])) c.2)) cs).

Definition mt_case := (option (list (string * option bool)) * list (string * string) *
                       list (string * list (string * string) * obs_cres))%type.
Definition mt_mismatches (cs : list mt_case) : list (nat * nat * bool) :=
  concat (imap (fun i (c : mt_case) =>
    let cfg : mt_config := option_map (map (fun x : string * option bool => (s x.1, x.2))) c.1.1 in
    let l := sl c.1.2 in
    concat (imap (fun j (q : string * list (string * string) * obs_cres) =>
               (if amap_matches (effective_annotations mt_suffix (s q.1.1) l) q.1.2 then [] else [(i, j, false)]) ++
               (if cres_matches (mt_create cfg (s q.1.1) l) q.2 then [] else [(i, j, true)])) c.2)) cs).

(* the constants of the source, reported by the harness, against the model's *)
Definition consts_ok (epc mq mt : string) : bool :=
  str_eqb (s epc) epc_key && str_eqb (s mq) mq_suffix && str_eqb (s mt) mt_suffix.
