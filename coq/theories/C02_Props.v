(* C02 -- balloons partition CPUs and confine their containers.  Property theorems only.
   Quantified over every available/isolated CPU set, every history of balloon operations
   (create/delete, inflate/deflate, share/unshare idle CPUs, assign/dismiss containers) and every
   choice of CPUs and balloons accepted by the model's transcription of the code's guards. *)
From Coq Require Import List.
From stdpp Require Import gmap sets.
From NV Require Import Bln_Model Bln_Proofs.

(* balloons are pairwise disjoint subsets of the available CPUs; the idle CPUs are exactly the rest *)
Theorem C02_balloons_partition : forall al iso os s, brun (binit al iso) os = BOk s ->
  (forall b x, blns s !! b = Some x -> b_cpus x ⊆ allowed s) /\
  (forall b1 b2 x1 x2, b1 <> b2 -> blns s !! b1 = Some x1 -> blns s !! b2 = Some x2 -> b_cpus x1 ## b_cpus x2) /\
  (forall b x, blns s !! b = Some x -> b_cpus x ## freec s) /\
  (forall cpu, cpu ∈ allowed s -> cpu ∈ freec s \/ exists b x, blns s !! b = Some x /\ cpu ∈ b_cpus x).
Proof.
  intros al iso os s H. pose proof (brun_preserves os _ s (BInv_init al iso) H) as HI.
  exact (conj (bi_within s HI) (conj (bi_disj s HI) (conj (bi_notfree s HI) (bi_cover s HI)))).
Qed.
Print Assumptions C02_balloons_partition.

(* shared idle CPUs are idle (part of no balloon) and never kernel-isolated *)
Theorem C02_shared_idle_sound : forall al iso os s, brun (binit al iso) os = BOk s ->
  forall b x, blns s !! b = Some x -> b_shared x ⊆ freec s ∖ isolated s.
Proof. intros al iso os s H. exact (bi_shared s (brun_preserves os _ s (BInv_init al iso) H)). Qed.
Print Assumptions C02_shared_idle_sound.

(* every container is a member of at most one balloon *)
Theorem C02_member_of_one : forall al iso os s, brun (binit al iso) os = BOk s ->
  forall c b1 b2 x1 x2, blns s !! b1 = Some x1 -> blns s !! b2 = Some x2 -> c ∈ b_members x1 -> c ∈ b_members x2 -> b1 = b2.
Proof. intros al iso os s H. exact (bi_member s (brun_preserves os _ s (BInv_init al iso) H)). Qed.
Print Assumptions C02_member_of_one.

(* a member's allowed CPUs (balloon + shared idle) never reach into another balloon *)
Theorem C02_confined : forall al iso os s, brun (binit al iso) os = BOk s ->
  forall b1 b2 x1 x2, b1 <> b2 -> blns s !! b1 = Some x1 -> blns s !! b2 = Some x2 -> pinned x1 ## b_cpus x2.
Proof.
  intros al iso os s H b1 b2 x1 x2 Hne H1 H2. pose proof (brun_preserves os _ s (BInv_init al iso) H) as HI.
  pose proof (bi_disj s HI b1 b2 x1 x2 Hne H1 H2). pose proof (bi_shared s HI b1 x1 H1). pose proof (bi_notfree s HI b2 x2 H2).
  unfold pinned. set_solver.
Qed.
Print Assumptions C02_confined.

(* C09 (balloons part): with every balloon gone all available CPUs are idle again *)
Theorem C02_quiescent_all_idle : forall al iso os s, brun (binit al iso) os = BOk s -> blns s = ∅ -> freec s = allowed s.
Proof. intros al iso os s H. exact (quiescent_free s (brun_preserves os _ s (BInv_init al iso) H)). Qed.
Print Assumptions C02_quiescent_all_idle.
