(* C04 -- memory pinning follows the allocator.  Property theorems only. *)
From Coq Require Import List Bool.
From stdpp Require Import gmap sets.
From NV Require Import Mem_Model.
Import ListNotations.

Definition MInv (s : mst) : Prop := forall c z, asg s !! c = Some z -> told s !! c = Some z.

Lemma apply_updates_agree upd : forall (m1 m2 : gmap nat zone),
  (forall c z, m2 !! c = Some z -> m1 !! c = Some z) ->
  (forall kv, In kv upd -> is_Some (m2 !! fst kv)) ->
  forall c z, apply_updates m2 upd !! c = Some z -> apply_updates m1 upd !! c = Some z.
Proof.
  induction upd as [|[k v] upd IH]; intros m1 m2 H Hd c z; cbn [apply_updates fold_left]; [apply H|].
  apply IH.
  - intros c' z' Hc'. cbn [fst snd] in *. destruct (decide (c' = k)) as [->|Hn].
    + rewrite lookup_insert in Hc'. rewrite lookup_insert. exact Hc'.
    + rewrite lookup_insert_ne in Hc' by congruence. rewrite lookup_insert_ne by congruence. apply H, Hc'.
  - intros kv Hin. cbn [fst snd]. destruct (decide (fst kv = k)) as [->|Hn].
    + rewrite lookup_insert. eauto.
    + rewrite lookup_insert_ne by congruence. apply Hd. right. exact Hin.
Qed.

Lemma mstep_inv s o : MInv s -> op_ok s o = true -> MInv (mstep s o).
Proof.
  intros HI Hok. destruct o as [c z upd|c nodes|c]; cbn [mstep].
  - intros c' z' H. cbn [asg told] in *. destruct (decide (c' = c)) as [->|Hn].
    + rewrite lookup_insert in H. rewrite lookup_insert. exact H.
    + rewrite lookup_insert_ne in H by congruence. rewrite lookup_insert_ne by congruence.
      revert H. apply apply_updates_agree; [exact HI|].
      cbn [op_ok] in Hok. rewrite forallb_forall in Hok. intros kv Hin. specialize (Hok kv Hin). apply bool_decide_eq_true in Hok. exact Hok.
  - destruct (asg s !! c) eqn:Hc; [exact HI|].
    intros c' z' H. cbn [asg told] in *. destruct (decide (c' = c)) as [->|Hn]; [congruence|].
    rewrite lookup_insert_ne by congruence. apply HI, H.
  - intros c' z' H. cbn [asg told] in *. destruct (decide (c' = c)) as [->|Hn].
    + rewrite lookup_delete in H. discriminate.
    + rewrite lookup_delete_ne in H by congruence. rewrite lookup_delete_ne by congruence. apply HI, H.
Qed.

(* For every history of allocations (with whatever zones and update maps the allocator returns,
   as long as updates address containers that hold an assignment -- C07 updates_exact), failed
   allocations and releases: whenever the allocator holds an assignment for a container, the memory
   nodes the container has been told are exactly that zone.  In particular every zone widening
   reported by the allocator has reached the affected container's pinning in the same operation. *)
Theorem C04_mems_follow_allocator : forall os,
  (fix ok (s : mst) (os : list mop) : Prop := match os with [] => True | o :: os' => op_ok s o = true /\ ok (mstep s o) os' end) m0 os ->
  forall c z, asg (fold_left mstep os m0) !! c = Some z -> told (fold_left mstep os m0) !! c = Some z.
Proof.
  intros os. assert (H0 : MInv m0) by (intros c z H; cbn in H; rewrite lookup_empty in H; discriminate).
  revert H0. generalize m0. induction os as [|o os IH]; intros s HI Hok; cbn [fold_left]; [exact HI|].
  destruct Hok as [H1 H2]. exact (IH (mstep s o) (mstep_inv s o HI H1) H2).
Qed.
Print Assumptions C04_mems_follow_allocator.

(* The same with memory-preserving containers (annotation memory.preserve; balloons since the repair of the
   preserved-container rewrite, topology-aware by construction): they are accounted in the allocator but
   never written.  For every history: a container that does not preserve its memory is told exactly the zone
   the allocator assigns it, and a preserving container is never told anything -- neither when it is admitted
   (however wide the allocator had to account it) nor when the allocator moves it for somebody else. *)
From NV Require Import Mem_Proofs.
Theorem C04_mems_follow_allocator_preserving : forall pres os, ops_ok pres m0 os ->
  let s := fold_left (mstep_p pres) os m0 in
  (forall c z, c ∉ pres -> asg s !! c = Some z -> told s !! c = Some z) /\ (forall c, c ∈ pres -> told s !! c = None).
Proof. intros pres os Hok. exact (run_inv pres os m0 (MInvP_m0 pres) Hok). Qed.
Print Assumptions C04_mems_follow_allocator_preserving.
