(* Topology-aware policy: CPU bookkeeping model (resources.go: supply/grant accounting,
   AllocateCPU, ReleaseCPU, Account{Allocate,Release}CPU, Allocatable{Shared,Reserved}CPU;
   pools.go: applyGrant, updateSharedAllocations).

   Bookkeeping-faithful and choice-parametric: which pool and which CPUs are picked
   (scoring, sorting, the CPU allocator) is an input [choice]; everything the invariants
   depend on is recomputed here.  Executable model only -- no proofs in this file. *)
From Coq Require Import ZArith List Bool.
From stdpp Require Import gmap sets.
From NV Require Import Gen.Gen_Consts C20_Model.
Import ListNotations.
Open Scope Z_scope.

Definition cset := gset nat.

Inductive cputype := CpuNormal | CpuReserved | CpuPreserve.
Definition cputype_eqb (a b : cputype) : bool :=
  match a, b with CpuNormal, CpuNormal | CpuReserved, CpuReserved | CpuPreserve, CpuPreserve => true | _, _ => false end.

(* ---- static part: the pool tree ---- *)
Record pool := { p_parent : option nat; p_iso : cset; p_res : cset; p_shar : cset }.
Definition tree := list pool.

Definition pool_at (t : tree) (q : nat) : pool :=
  nth q t {| p_parent := None; p_iso := ∅; p_res := ∅; p_shar := ∅ |}.
Definition p_cpus (p : pool) : cset := p_iso p ∪ p_res p ∪ p_shar p.

(* a is an ancestor-or-self of b (walk up from b, at most |t| steps) *)
Fixpoint anc_fuel (fuel : nat) (t : tree) (a b : nat) : bool :=
  if Nat.eqb a b then true else
  match fuel with
  | O => false
  | S f => match p_parent (pool_at t b) with Some pb => anc_fuel f t a pb | None => false end
  end.
Definition anc (t : tree) (a b : nat) : bool := anc_fuel (length t) t a b.
(* q is p itself, in p's subtree, or one of p's ancestors: the pools whose free supply is touched *)
Definition related (t : tree) (p q : nat) : bool := anc t p q || anc t q p.
Definition pools (t : tree) : list nat := seq 0 (length t).

(* ---- dynamic state ---- *)
Record grant := { g_pool : nat; g_excl : cset; g_type : cputype; g_portion : Z }.

Record st := {
  free_iso : nat -> cset;          (* per pool: free isolated CPUs *)
  free_shar : nat -> cset;         (* per pool: free sharable CPUs *)
  gr_shared : nat -> Z;            (* per pool: locally granted shared mCPU *)
  gr_reserved : nat -> Z;          (* per pool: locally granted reserved mCPU *)
  grants : gmap nat grant;         (* container -> grant *)
}.

Definition init (t : tree) : st := {|
  free_iso := fun q => p_iso (pool_at t q);
  free_shar := fun q => p_shar (pool_at t q);
  gr_shared := fun _ => 0; gr_reserved := fun _ => 0; grants := ∅ |}.

Definition upd {A} (f : nat -> A) (k : nat) (v : A) : nat -> A := fun x => if Nat.eqb x k then v else f x.

(* GrantedSharedCPU / GrantedReservedCPU: this pool and its descendants *)
Definition granted_sub (t : tree) (g : nat -> Z) (q : nat) : Z :=
  fold_right Z.add 0 (map (fun d => if anc t q d then g d else 0) (pools t)).

Definition csize (s : cset) : Z := Z.of_nat (size s).

(* AllocatableSharedCPU at pool p: min over p and its ancestors *)
Definition free_shared_at (t : tree) (s : st) (q : nat) : Z :=
  1000 * csize (free_shar s q) - granted_sub t (gr_shared s) q.
Definition alloc_shared (t : tree) (s : st) (p : nat) : Z :=
  fold_right Z.min (free_shared_at t s p)
             (map (free_shared_at t s) (filter (fun a => anc t a p && negb (Nat.eqb a p)) (pools t))).

(* AllocatableReservedCPU: -1 when the pool has no reserved CPUs *)
Definition free_reserved_at (t : tree) (s : st) (q : nat) : Z :=
  1000 * csize (p_res (pool_at t q)) - granted_sub t (gr_reserved s) q.
Definition alloc_reserved (t : tree) (s : st) (p : nat) : Z :=
  if decide (p_res (pool_at t p) = ∅) then -1 else
  fold_right Z.min (free_reserved_at t s p)
             (map (free_reserved_at t s) (filter (fun a => anc t a p && negb (Nat.eqb a p)) (pools t))).

(* grant.AccountAllocateCPU (+ the removal done by the CPU allocator at the pool itself):
   every pool in the subtree of p and every ancestor of p loses X from its free sets *)
Definition account_alloc (t : tree) (s : st) (p : nat) (X : cset) : st := {|
  free_iso := fun q => if related t p q then free_iso s q ∖ X else free_iso s q;
  free_shar := fun q => if related t p q then free_shar s q ∖ X else free_shar s q;
  gr_shared := gr_shared s; gr_reserved := gr_reserved s; grants := grants s |}.

(* supply.ReleaseCPU at p + grant.AccountReleaseCPU on the related pools *)
Definition account_release (t : tree) (s : st) (p : nat) (X : cset) : st := {|
  free_iso := fun q =>
    if Nat.eqb q p then free_iso s q ∪ (X ∩ p_iso (pool_at t p))
    else if related t p q then free_iso s q ∪ (X ∩ (p_iso (pool_at t q) ∪ p_shar (pool_at t q)) ∩ p_iso (pool_at t q))
    else free_iso s q;
  free_shar := fun q =>
    if Nat.eqb q p then free_shar s q ∪ (X ∖ (X ∩ p_iso (pool_at t p)))
    else if related t p q then free_shar s q ∪ (X ∩ (p_iso (pool_at t q) ∪ p_shar (pool_at t q)) ∩ p_shar (pool_at t q))
    else free_shar s q;
  gr_shared := gr_shared s; gr_reserved := gr_reserved s; grants := grants s |}.

Definition set_grants (s : st) (g : gmap nat grant) : st :=
  {| free_iso := free_iso s; free_shar := free_shar s; gr_shared := gr_shared s; gr_reserved := gr_reserved s; grants := g |}.
Definition add_shared (s : st) (p : nat) (d : Z) : st :=
  {| free_iso := free_iso s; free_shar := free_shar s; gr_shared := upd (gr_shared s) p (gr_shared s p + d);
     gr_reserved := gr_reserved s; grants := grants s |}.
Definition add_reserved (s : st) (p : nat) (d : Z) : st :=
  {| free_iso := free_iso s; free_shar := free_shar s; gr_shared := gr_shared s;
     gr_reserved := upd (gr_reserved s) p (gr_reserved s p + d); grants := grants s |}.

(* ---- requests (what cpuAllocationPreferences derives) and choices ---- *)
Record creq := { r_full : Z; r_fraction : Z; r_isolate : bool; r_type : cputype }.

Inductive err := ErrNoCapacity | ErrGuard (name : nat) | ErrNoGrant.
Inductive res (A : Type) := Ok (a : A) | Err (e : err).
Arguments Ok {A}. Arguments Err {A}.

(* guard numbers (names printed by the driver):
   1 exclusive set not a subset of the pool's free isolated set / wrong size
   2 exclusive set not a subset of the pool's free sharable set / wrong size
   3 exclusive CPUs chosen although none were requested *)
Definition subseteqb (a b : cset) : bool := bool_decide (a ⊆ b).

(* supply.AllocateCPU + bookkeeping of allocatePool *)
(* the guard the code does not enforce (K2): an exclusive slice at p leaves every strict
   descendant enough shared CPUs for what is granted below it *)
Definition desc_safeb (t : tree) (s : st) (p : nat) (X : cset) : bool :=
  forallb (fun d => negb (anc t p d) || Nat.eqb d p ||
                    (granted_sub t (gr_shared s) d <=? 1000 * csize (free_shar s d ∖ X))) (pools t).

(* ... and a pool whose sharable CPUs would all be gone must not host a container that runs on them: a grant of
   the normal class without exclusive CPUs, or with a shared portion (sliceExclusiveCPUs / starvedBySlicing) *)
Definition shared_user (g : grant) : bool :=
  match g_type g with CpuNormal => bool_decide (g_excl g = ∅) || (0 <? g_portion g) | _ => false end.
Definition has_shared_user (s : st) (d : nat) : bool :=
  existsb (fun kv => Nat.eqb (g_pool (snd kv)) d && shared_user (snd kv)) (map_to_list (grants s)).
(* what the code does (neededSharableCPUs): in every pool strictly below, as many sharable CPUs as the shared capacity
   granted in its subtree takes (at least one if a container runs on its shared CPUs) are withheld from the choice --
   as far as the pool still has them *)
Definition need_of (t : tree) (s : st) (d : nat) : Z :=
  Z.max ((granted_sub t (gr_shared s) d + 999) / 1000) (if has_shared_user s d then 1 else 0).
(* shortWithout (Reserve): every pool that loses CPUs -- the subtree of p and its ancestors; for the other pools of a
   well-formed tree the test is trivially true -- keeps what it needs *)
Definition spare_allb (t : tree) (s : st) (p : nat) (X : cset) : bool :=
  forallb (fun d => Z.min (need_of t s d) (csize (free_shar s d)) <=? csize (free_shar s d ∖ X)) (pools t).
Definition spare_okb (t : tree) (s : st) (p : nat) (X : cset) : bool :=
  forallb (fun d => negb (anc t p d) || Nat.eqb d p ||
                    (Z.min (need_of t s d) (csize (free_shar s d)) <=? csize (free_shar s d ∖ X))) (pools t).

(* "exclusive reserved CPUs not supported, allocating full CPUs as fractions" *)
Definition eff_full (r : creq) : Z :=
  match r_type r with CpuReserved => if 0 <? r_full r then 0 else r_full r | _ => r_full r end.
Definition eff_frac (r : creq) : Z :=
  match r_type r with CpuReserved => if 0 <? r_full r then r_fraction r + 1000 * r_full r else r_fraction r | _ => r_fraction r end.

Definition ta_alloc (t : tree) (s : st) (cid : nat) (r : creq) (p : nat) (X : cset) : res st :=
  let full := eff_full r in
  let frac := eff_frac r in
  let ty := match r_type r with
            | CpuReserved => if (0 <? frac) && (alloc_reserved t s p <? frac) then CpuNormal else CpuReserved
            | x => x end in
  (* exclusive part *)
  let excl : res cset :=
    if 0 <? full then
      if (full <=? csize (free_iso s p)) && r_isolate r then
        if subseteqb X (free_iso s p) && (csize X =? full) then Ok X else Err (ErrGuard 1)
      else if 1000 * full <? alloc_shared t s p then
        if subseteqb X (free_shar s p) && (csize X =? full) then
          (* the slice leaves every pool below enough sharable CPUs for what is granted there (repair of K2) *)
          if spare_okb t s p X then Ok X else Err (ErrGuard 12)
        else Err (ErrGuard 2)
      else Err ErrNoCapacity
    else if bool_decide (X = ∅) then Ok ∅ else Err (ErrGuard 3) in
  match excl with
  | Err e => Err e
  | Ok X =>
    let s1 := account_alloc t s p X in
    let g := {| g_pool := p; g_excl := X; g_type := ty; g_portion := frac |} in
    if 0 <? frac then
      match ty with
      | CpuNormal =>
        if alloc_shared t s1 p <? frac then Err ErrNoCapacity
        else Ok (set_grants (add_shared s1 p frac) (<[cid := g]> (grants s1)))
      | CpuReserved =>
        if alloc_reserved t s1 p <? frac then Err ErrNoCapacity
        else Ok (set_grants (add_reserved s1 p frac) (<[cid := g]> (grants s1)))
      | CpuPreserve => Ok (set_grants s1 (<[cid := g]> (grants s1)))
      end
    else Ok (set_grants s1 (<[cid := {| g_pool := p; g_excl := X; g_type := ty; g_portion := 0 |}]> (grants s1)))
  end.

(* releasePool: grant.Release = supply.ReleaseCPU + delete *)
Definition ta_release (t : tree) (s : st) (cid : nat) : st :=
  match grants s !! cid with
  | None => s
  | Some g =>
    let s1 := account_release t s (g_pool g) (g_excl g) in
    let s2 := match g_type g with
              | CpuNormal => add_shared s1 (g_pool g) (- g_portion g)
              | CpuReserved => add_reserved s1 (g_pool g) (- g_portion g)
              | CpuPreserve => s1 end in
    set_grants s2 (delete cid (grants s2))
  end.

(* supply.Reserve: reinstate a saved grant (restart, accepted reconfiguration) *)
Definition ta_reserve (t : tree) (s : st) (cid : nat) (g : grant) : res st :=
  let p := g_pool g in
  match g_type g with
  | CpuNormal =>
    let iso := g_excl g ∩ p_iso (pool_at t p) in
    let ex := g_excl g ∖ iso in
    if negb (subseteqb iso (free_iso s p)) then Err (ErrGuard 6)
    else if negb (subseteqb ex (free_shar s p)) then Err (ErrGuard 7)
    else if alloc_shared t s p <? 1000 * csize ex + g_portion g then Err ErrNoCapacity
    (* like an allocation, a reinstated grant leaves the pools it takes CPUs from (its own included) what they need:
       the shared capacity granted there, and a CPU for the containers already running on the shared ones
       (shortWithout; the code tests the non-isolated part of the exclusive CPUs, which removes the same CPUs from
       every sharable set of a well-formed tree) *)
    else if negb (spare_allb t s p (g_excl g)) then Err (ErrGuard 13)
    else
      let s1 := account_alloc t s p (g_excl g) in
      Ok (set_grants (add_shared s1 p (g_portion g)) (<[cid := g]> (grants s1)))
  | CpuReserved =>
    (* reserved and preserve grants never carry exclusive CPUs (AllocateCPU turns them into
       fractions); the code does not re-check this on Reserve, the model refuses it *)
    if negb (bool_decide (g_excl g = ∅)) then Err (ErrGuard 8) else
    let sp := 1000 * csize (g_excl g) + g_portion g in
    if (0 <? sp) && (alloc_reserved t s p <? sp) then Err ErrNoCapacity
    else
      let s1 := account_alloc t s p (g_excl g) in
      Ok (set_grants (add_reserved s1 p sp) (<[cid := g]> (grants s1)))
  | CpuPreserve =>
    if negb (bool_decide (g_excl g = ∅)) then Err (ErrGuard 8) else
    let s1 := account_alloc t s p (g_excl g) in
    Ok (set_grants s1 (<[cid := g]> (grants s1)))
  end.

(* one policy-level operation, as observed through the harness *)
Inductive op :=
| OAlloc (cid : nat) (r : creq) (p : nat) (X : cset)   (* AllocateResources succeeded with this choice *)
| OAllocFail (cid : nat)                               (* AllocateResources failed: state unchanged *)
| ORelease (cid : nat)                                 (* ReleaseResources *)
| OReserve (cid : nat) (g : grant)                     (* supply.Reserve: a saved grant reinstated verbatim *)
| OReset.                                              (* (re)configuration / restart: pristine state *)

Definition step (t : tree) (s : st) (o : op) : res st :=
  match o with
  | OAlloc cid r p X =>
    match grants s !! cid with
    | Some _ => Err (ErrGuard 4)      (* a container never holds two grants *)
    | None => if p <? length t then ta_alloc t s cid r p X else Err (ErrGuard 5)
    end
  | OAllocFail _ => Ok s
  | ORelease cid => Ok (ta_release t s cid)
  | OReserve cid g =>
    match grants s !! cid with
    | Some _ => Err (ErrGuard 4)
    | None => if g_pool g <? length t then ta_reserve t s cid g else Err (ErrGuard 5)
    end
  | OReset => Ok (init t)
  end%nat.

Fixpoint run (t : tree) (s : st) (os : list op) : res st :=
  match os with
  | [] => Ok s
  | o :: os' => match step t s o with Ok s' => run t s' os' | Err e => Err e end
  end.

(* ---- what containers are told (applyGrant / updateSharedAllocations) ---- *)
(* the cpuset a granted container is pinned to, before hyperthread hiding *)
Definition told_cpus (t : tree) (s : st) (g : grant) : cset :=
  match g_type g with
  | CpuNormal => if bool_decide (g_excl g = ∅) then free_shar s (g_pool g)
                 else if 0 <? g_portion g then g_excl g ∪ free_shar s (g_pool g) else g_excl g
  | CpuReserved => p_res (pool_at t (g_pool g))
  | CpuPreserve => ∅
  end.
(* cpu.shares written by applyGrant *)
Definition told_shares (g : grant) : Z :=
  milli_to_shares (if g_portion g =? 0 then 1000 * csize (g_excl g) else
                   match g_type g with CpuPreserve => 1000 * csize (g_excl g) | _ => g_portion g end).

(* ---- observables for the correspondence ---- *)
Record obs_pool := { o_free_iso : list nat; o_free_shar : list nat; o_gr_shared : Z; o_gr_reserved : Z;
                     o_alloc_shared : Z; o_alloc_reserved : Z }.
Record obs_grant := { og_cid : nat; og_pool : nat; og_excl : list nat; og_type : cputype; og_portion : Z }.
(* what a granted, CPU-pinned container was told (cache view): cpuset and cpu.shares *)
Record obs_told := { ot_cid : nat; ot_cpus : list nat; ot_shares : Z }.
Record obs := { ob_pools : list obs_pool; ob_grants : list obs_grant; ob_told : list obs_told }.

Definition lset (l : list nat) : cset := list_to_set l.

Definition pool_matches (t : tree) (s : st) (q : nat) (o : obs_pool) : bool :=
  bool_decide (free_iso s q = lset (o_free_iso o)) && bool_decide (free_shar s q = lset (o_free_shar o))
  && (gr_shared s q =? o_gr_shared o) && (gr_reserved s q =? o_gr_reserved o)
  && (alloc_shared t s q =? o_alloc_shared o) && (alloc_reserved t s q =? o_alloc_reserved o).

Fixpoint pools_match (t : tree) (s : st) (q : nat) (os : list obs_pool) : option nat :=
  match os with
  | [] => None
  | o :: os' => if pool_matches t s q o then pools_match t s (S q) os' else Some q
  end.

Definition grant_matches (s : st) (o : obs_grant) : bool :=
  match grants s !! og_cid o with
  | None => false
  | Some g => Nat.eqb (g_pool g) (og_pool o) && bool_decide (g_excl g = lset (og_excl o))
              && cputype_eqb (g_type g) (og_type o) && (g_portion g =? og_portion o)
  end.

Definition told_matches (t : tree) (s : st) (o : obs_told) : bool :=
  match grants s !! ot_cid o with
  | None => false
  | Some g => bool_decide (told_cpus t s g = lset (ot_cpus o)) && (told_shares g =? ot_shares o)
  end.

(* result of checking one trace: None = agrees everywhere *)
Inductive mismatch :=
| MStep (i : nat) (e : err)          (* the model refuses step i the implementation took *)
| MPool (i : nat) (q : nat)          (* after step group i pool q differs *)
| MGrant (i : nat)                   (* after step group i the grant tables differ *)
| MTold (i : nat) (cid : nat)        (* after step group i container cid's cpuset / cpu.shares differ *)
.

Definition check_obs (t : tree) (s : st) (i : nat) (o : obs) : option mismatch :=
  match pools_match t s 0 (ob_pools o) with
  | Some q => Some (MPool i q)
  | None =>
    if forallb (grant_matches s) (ob_grants o) && Nat.eqb (size (grants s)) (length (ob_grants o))
    then match filter (fun ot => negb (told_matches t s ot)) (ob_told o) with
         | [] => None
         | ot :: _ => Some (MTold i (ot_cid ot))
         end
    else Some (MGrant i)
  end.

(* a trace = groups of operations (one NRI event each) with the snapshot taken after the event *)
Fixpoint check_trace (t : tree) (s : st) (i : nat) (tr : list (list op * obs)) : option mismatch :=
  match tr with
  | [] => None
  | (os, o) :: tr' =>
    match run t s os with
    | Err e => Some (MStep i e)
    | Ok s' => match check_obs t s' i o with
               | Some m => Some m
               | None => check_trace t s' (S i) tr'
               end
    end
  end.

(* ---- guards / invariants as executable predicates (evaluated on every real trace) ---- *)
Definition excl_union (s : st) : cset :=
  map_fold (fun _ g acc => g_excl g ∪ acc) ∅ (grants s).

(* tree well-formedness used by the theorems: unrelated pools have disjoint CPU sets *)
Definition tree_wfb (t : tree) : bool :=
  forallb (fun p => forallb (fun q => related t p q || bool_decide (p_cpus (pool_at t p) ## p_cpus (pool_at t q))) (pools t)) (pools t)
  && forallb (fun p => bool_decide (p_iso (pool_at t p) ## p_shar (pool_at t p))) (pools t)
  (* reserved CPUs are never sharable or isolated anywhere (configurations whose reserved
     cpuset is kernel-isolated are outside the properties' domain) *)
  && forallb (fun p => forallb (fun q => bool_decide (p_res (pool_at t p) ## p_iso (pool_at t q) ∪ p_shar (pool_at t q))) (pools t)) (pools t).

(* C03 capacity clause on a state: every pool keeps 1000 mCPU per remaining shared CPU for its subtree *)
Definition capacity_okb (t : tree) (s : st) : bool :=
  forallb (fun q => (granted_sub t (gr_shared s) q <=? 1000 * csize (free_shar s q))) (pools t).

(* a history may span several configurations / restarts: one segment per pool tree *)
Fixpoint check_segments (i : nat) (segs : list (tree * list (list op * obs))) : option (nat * mismatch) :=
  match segs with
  | [] => None
  | (t, tr) :: segs' =>
    if negb (tree_wfb t) then Some (i, MStep 0 (ErrGuard 9))
    else match check_trace t (init t) 0 tr with
         | Some m => Some (i, m)
         | None => check_segments (S i) segs'
         end
  end.

(* guards evaluated along a trace: returns the (segment-local) indices of event groups in which an
   exclusive allocation violated desc_safe (the K2 guard) *)
Fixpoint guard_trace (t : tree) (s : st) (i : nat) (tr : list (list op * obs)) : list nat :=
  match tr with
  | [] => []
  | (os, _) :: tr' =>
    let bad := existsb (fun o => match o with
                                 | OAlloc _ _ p X => negb (bool_decide (X = ∅)) && negb (desc_safeb t s p X)
                                 | _ => false end) os in
    match run t s os with
    | Err _ => []
    | Ok s' => (if bad then [i] else []) ++ guard_trace t s' (S i) tr'
    end
  end.

(* ---- eligibility rules: cpuAllocationPreferences (pod-preferences.go) as a decision table ---- *)
Inductive qos := Guaranteed | Burstable | BestEffort.
Inductive prefkind := PrefImplicit | PrefConfig | PrefAnnotated.
Record prefin := {
  pi_qos : qos; pi_milli : Z;
  pi_preserve : bool;              (* cpu.preserve effective annotation *)
  pi_prefer_reserved : bool; pi_explicit_reservation : bool;   (* prefer-reserved-cpus annotation: value, present *)
  pi_ns_reserved : bool;           (* kube-system or a configured reserved namespace *)
  pi_isolated : bool; pi_isolated_kind : prefkind;
  pi_shared : bool; pi_shared_kind : prefkind;
}.
Definition prefkind_annotated (k : prefkind) : bool := match k with PrefAnnotated => true | _ => false end.

Definition cpu_prefs (i : prefin) : creq :=
  let fraction := pi_milli i in
  let mk full frac iso ty := {| r_full := full; r_fraction := frac; r_isolate := iso; r_type := ty |} in
  if pi_preserve i then mk 0 fraction false CpuPreserve
  else if pi_prefer_reserved i then mk 0 fraction false CpuReserved
  else if pi_ns_reserved i && negb (pi_explicit_reservation i) then mk 0 fraction false CpuReserved
  else match pi_qos i with
  | Burstable => mk 0 fraction false CpuNormal
  | BestEffort => mk 0 0 false CpuNormal
  | Guaranteed =>
    let cores := Z.quot fraction 1000 in
    let frac := Z.rem fraction 1000 in
    if cores =? 0 then mk 0 frac false CpuNormal
    else if cores <? 2 then
      if pi_shared i then mk 0 (1000 * cores + frac) false CpuNormal
      else mk cores frac (pi_isolated i) CpuNormal
    else if 0 <? frac then
      if negb (pi_shared i) && prefkind_annotated (pi_shared_kind i) then mk cores frac (pi_isolated i) CpuNormal
      else mk 0 (1000 * cores + frac) false CpuNormal
    else if pi_shared i then mk 0 (1000 * cores) false CpuNormal
    else mk cores 0 (pi_isolated i && prefkind_annotated (pi_isolated_kind i)) CpuNormal
  end.

Definition creq_eqb (a b : creq) : bool :=
  (r_full a =? r_full b) && (r_fraction a =? r_fraction b) && Bool.eqb (r_isolate a) (r_isolate b) && cputype_eqb (r_type a) (r_type b).

(* the exclusive CPU count a successful allocation grants for a request (AllocateCPU) *)
Definition granted_full (r : creq) : Z :=
  match r_type r with CpuReserved => 0 | _ => if 0 <? r_full r then r_full r else 0 end.

(* correspondence checker for the decision table: indices of disagreeing cases *)
Fixpoint prefs_mismatches (i : nat) (cs : list (prefin * creq)) : list nat :=
  match cs with
  | [] => []
  | (inp, out) :: cs' => (if creq_eqb (cpu_prefs inp) out then [] else [i]) ++ prefs_mismatches (S i) cs'
  end.

(* stronger well-formedness used by the capacity theorem: isolated and sharable CPUs are
   globally disjoint *)
Definition tree_wfb2 (t : tree) : bool :=
  tree_wfb t && forallb (fun p => forallb (fun q => bool_decide (p_iso (pool_at t p) ## p_shar (pool_at t q))) (pools t)) (pools t).

(* the guard of the capacity theorem along a history (TA_Cap2.run_g uses the same predicate) *)
Definition op_guardb (t : tree) (s : st) (o : op) : bool :=
  match o with
  | OAlloc _ _ p X => desc_safeb t s p X
  | OReserve _ g => desc_safeb t s (g_pool g) (g_excl g) && (0 <=? g_portion g)
  | _ => true
  end.

(* guard failures along a multi-segment trace: (segment, event group) pairs where some operation
   did not pass [op_guardb] *)
Fixpoint guard_trace2 (t : tree) (s : st) (i : nat) (tr : list (list op * obs)) : list nat :=
  match tr with
  | [] => []
  | (os, _) :: tr' =>
    let fix go (s : st) (os : list op) : bool * res st :=
      match os with
      | [] => (false, Ok s)
      | o :: os' => match step t s o with
                    | Ok s' => let '(b, r) := go s' os' in (negb (op_guardb t s o) || b, r)
                    | Err e => (negb (op_guardb t s o), Err e)
                    end
      end in
    match go s os with
    | (bad, Ok s') => (if bad then [i] else []) ++ guard_trace2 t s' (S i) tr'
    | (bad, Err _) => if bad then [i] else []
    end
  end.
Fixpoint guard_segments (i : nat) (segs : list (tree * list (list op * obs))) : list (nat * nat) :=
  match segs with
  | [] => []
  | (t, tr) :: segs' => map (fun g => (i, g)) (guard_trace2 t (init t) 0 tr) ++ guard_segments (S i) segs'
  end.
