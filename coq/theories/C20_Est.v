(* C20, second part: OOM score adjustment <-> memory request estimate table
   (CalculateOomAdjToMemReqEstimates, MemReqToOomAdj, OomAdjToMemReq).  Model only. *)
From Coq Require Import ZArith List Bool.
From NV Require Import Gen.Gen_Consts C20_Model.
Import ListNotations.
Open Scope Z_scope.

(* ---- OOM score adjustment <-> memory request estimate ---- *)

(* math/bits.Mul64 and Div64 on values of [0, 2^64): 128-bit product as (hi, lo), and the quotient of
   a 128-bit dividend by y (Div64 panics unless hi < y; the code tests that first) *)
Definition mul64 (a b : Z) : Z * Z := ((a * b) / 2^64, (a * b) mod 2^64).
Definition div64 (hi lo y : Z) : Z := (hi * 2^64 + lo) / y.

(* MemReqToOomAdj: the product 1000*memRequest is formed in 128 bits; the old int64 expression (with
   its wrap written out) remains for negative arguments and for quotients that do not fit *)
Definition mem_req_to_oom_wrapping (cap r : Z) : Z := 1000 - Z.quot (wrap64 (1000 * r)) cap.
Definition mem_req_to_oom (cap r : Z) : Z :=
  if (r <? 0) || (cap <=? 0) then mem_req_to_oom_wrapping cap r
  else let '(hi, lo) := mul64 r 1000 in
       if cap <=? hi then mem_req_to_oom_wrapping cap r else 1000 - div64 hi lo cap.

(* no-wrap version used by the theorems (equal to the above below 2^63/1000) *)
Definition adj_of (cap r : Z) : Z := 1000 - (1000 * r) / cap.

(* the value the table must hold for adjustment a: least request mapping to a *)
Definition tbl_spec (cap a : Z) : Z := ((1000 - a) * cap + 999) / 1000.

Inductive est_result := Built (tbl : list (Z * Z)) | Panic (i : Z) | OutOfFuel.

(* The two inner search loops run at most int(milliMem) steps in the code; the model
   runs them on structural fuel [search_fuel] and reports [None] (-> OutOfFuel) should a
   search need more -- never a normal-looking value. *)
Definition search_fuel : nat := 4096.

(* case currAdj < prevAdj: walk down, remember the last request with adj = prevAdj-1.
   j counts iterations against the code's bound [steps]. *)
Fixpoint search_down (fuel : nat) (cap prevAdj steps j cur : Z) (found : option Z) : option (option Z) :=
  match fuel with
  | O => None
  | S f =>
    let a := mem_req_to_oom cap cur in
    if (a <? prevAdj) && (j <? steps) then
      search_down f cap prevAdj steps (j + 1) (cur - 1) (if a =? prevAdj - 1 then Some cur else found)
    else Some found
  end.

(* case currAdj = prevAdj: walk up until the adjustment changes *)
Fixpoint search_up (fuel : nat) (cap prevAdj steps j cur : Z) : option Z :=
  match fuel with
  | O => None
  | S f =>
    if (mem_req_to_oom cap cur =? prevAdj) && (j <? steps)
    then search_up f cap prevAdj steps (j + 1) (cur + 1) else Some cur
  end.

Inductive step_result := StepPanic | StepFuel | StepNone | StepSet (r : Z).

(* One iteration of the loop; [start] is the float start point
   int64(float64(prevReq) + milliMem + 0.5); [steps] = int(milliMem). *)
Definition est_step (cap steps prev start : Z) : step_result :=
  let prevAdj := mem_req_to_oom cap prev in
  let curAdj := mem_req_to_oom cap start in
  if curAdj <? prevAdj then
    match search_down search_fuel cap prevAdj steps 0 start None with
    | None => StepFuel | Some None => StepNone | Some (Some r) => StepSet r end
  else if curAdj =? prevAdj then
    match search_up search_fuel cap prevAdj steps 0 start with
    | None => StepFuel
    | Some cur => if mem_req_to_oom cap cur =? prevAdj - 1 then StepSet cur else StepPanic
    end
  else StepPanic.

(* acc is latest-first: a lookup finds the most recent write, like the Go map *)
Fixpoint est_loop (n : nat) (cap steps : Z) (est : Z -> Z) (i prev : Z) (acc : list (Z * Z))
  : est_result :=
  match n with
  | O => Built acc
  | S n' =>
    match est_step cap steps prev (est prev) with
    | StepPanic => Panic i
    | StepFuel => OutOfFuel
    | StepNone => est_loop n' cap steps est (i + 1) 0 acc
    | StepSet r => est_loop n' cap steps est (i + 1) r ((mem_req_to_oom cap prev - 1, r) :: acc)
    end
  end.

(* float start point: int64(float64(prevReq) + float64(cap)/1000.0 + 0.5) *)
Definition milli_mem_f (cap : Z) : f64 := f_div (f_of_Z cap) (f_of_Z 1000).
Definition est_f (cap prev : Z) : Z :=
  f_trunc (f_add (f_add (f_of_Z prev) (milli_mem_f cap)) f_half).
Definition steps_f (cap : Z) : Z := f_trunc (milli_mem_f cap).

Definition calc_estimates_with (steps : Z) (est : Z -> Z) (cap : Z) : est_result :=
  est_loop 999 cap steps est 1 0 [].
Definition calc_estimates (cap : Z) : est_result :=
  calc_estimates_with (steps_f cap) (est_f cap) cap.

(* table lookup; OomAdjToMemReq *)
Fixpoint tbl_get (t : list (Z * Z)) (a : Z) : Z :=
  match t with [] => 0 | (k, v) :: t' => if k =? a then v else tbl_get t' a end.

Definition oom_adj_to_mem_req (t : list (Z * Z)) (a lim : Z) : option Z :=
  if (a <? K_MinBurstableOOMScoreAdj) || (a >? K_MaxBurstableOOMScoreAdj) then None
  else let r := tbl_get t a in if (r <? lim) || (lim =? 0) then Some r else None.

(* the table as the harness dumps it: entries for a = 1..999 *)
Definition table_list (t : list (Z * Z)) : list Z := map (fun a => tbl_get t (Z.of_nat a)) (seq 1 999).

(* boolean checks used by the correspondence *)
Definition table_ok (cap : Z) (t : list (Z * Z)) : bool :=
  forallb (fun a => (tbl_get t a =? tbl_spec cap a) && (mem_req_to_oom cap (tbl_get t a) =? a))
          (map Z.of_nat (seq 1 999)).

(* ---- correspondence checkers (evaluated with vm_compute on harness output) ---- *)

Fixpoint zeqb_list (a b : list Z) : bool :=
  match a, b with
  | [], [] => true
  | x :: a', y :: b' => (x =? y) && zeqb_list a' b'
  | _, _ => false
  end.

(* first index (from [i]) where the observed list differs from f *)
Fixpoint first_diff (f : Z -> Z) (i : Z) (obs : list Z) : option Z :=
  match obs with
  | [] => None
  | x :: r => if f i =? x then first_diff f (i + 1) r else Some i
  end.

Inductive cap_obs := ObsPanic | ObsTable (t : list Z).

Definition cap_case_ok (c : Z * cap_obs) : bool :=
  match calc_estimates (fst c), snd c with
  | Panic _, ObsPanic => true
  | Built t, ObsTable o => zeqb_list (table_list t) o
  | _, _ => false
  end.

Definition cap_mismatches (cs : list (Z * cap_obs)) : list Z :=
  map fst (filter (fun c => negb (cap_case_ok c)) cs).
