(* libmem: Release, offer versions along arbitrary histories (stale offers are refused), and the
   executable witnesses (K1; the behaviour before the fixes F1 / F2). *)
From Coq Require Import ZArith NArith List Bool Lia Permutation.
From NV Require Import Gen.Gen_LibmemConsts Gen.Gen_LibmemTabs Libmem_Model Libmem_Basics Libmem_Steps Libmem_Proofs Libmem_Alloc.
Import ListNotations.
Open Scope Z_scope.

Section Hist.
Context (ns : list node) (ex : N -> N -> N * N) (fx : fixes).

(* ------------------------------------------------------------------ Release *)

Lemma release_spec s id s' res : release s id = (s', res) ->
  (rs_kind res = KOk /\ is_live id (live s) = true /\ live s' = drop_req id (live s) /\
   zkeys s' = cleanup (live s') (zkeys s) /\ version s' = version s + 1) \/
  (rs_kind res = KErr /\ is_live id (live s) = false /\ s' = s).
Proof.
  unfold release. destruct (is_live id (live s)) eqn:L; intros H; injection H as <- <-.
  - left. cbn. auto.
  - right. cbn. auto.
Qed.

(* releasing removes that allocation and nothing else: every other request stays, unchanged and
   in the same order; a failed release changes nothing *)
Theorem release_only_that s id s' res : release s id = (s', res) ->
  (rs_kind res = KOk -> live s' = drop_req id (live s) /\ is_live id (live s') = false /\
                        (forall q, In q (live s') <-> In q (live s) /\ r_id q <> id)) /\
  (rs_kind res <> KOk -> s' = s).
Proof.
  intros H. destruct (release_spec _ _ _ _ H) as [[K [L [E _]]]|[K [_ ->]]].
  - split; [|congruence]. intros _. split; [exact E|]. split.
    + rewrite E, is_live_find. destruct (find_req id (drop_req id (live s))) as [q|] eqn:F; [|reflexivity].
      apply find_req_some in F as [Hin Eid]. apply drop_req_in in Hin as [_ Hne]. congruence.
    + intros q. rewrite E. apply drop_req_in.
  - split; [congruence|reflexivity].
Qed.

Lemma usage_drop l id z : sizes_nonneg l -> usage (drop_req id l) z <= usage l z.
Proof.
  unfold usage, drop_req. induction l as [|a l IH]; intros S; [cbn; lia|].
  assert (sizes_nonneg l) as S' by (intros r Hr; apply S; right; exact Hr).
  specialize (IH S'). pose proof (S a (or_introl eq_refl)). cbn [filter fold_right].
  destruct (negb (r_id a =? id)%N); cbn [fold_right]; destruct (msub (r_zone a) z); lia.
Qed.

Theorem release_inv s id s' res : Inv s -> NoEmpty s -> release s id = (s', res) ->
  Inv s' /\ NoEmpty s' /\ (Fit ns s -> sizes_nonneg (live s) -> Fit ns s' /\ sizes_nonneg (live s')) /\
  (NormalOK ns s -> NormalOK ns s').
Proof.
  intros I NE H. destruct (release_spec _ _ _ _ H) as [[_ [L [E [Ez _]]]]|[_ [_ ->]]]; [|tauto].
  destruct I as [ND [S C]].
  assert (forall r, In r (live s') -> In r (live s)) as Sub.
  { intros r Hr. rewrite E in Hr. apply drop_req_in in Hr. tauto. }
  destruct s' as [l' zk' v']. cbn [live zkeys version] in *. subst l' zk'.
  destruct (after_alloc_inv ex (drop_req id (live s)) (zkeys s) (drop_req_nodup _ _ ND) S
             (fun r Hr => proj2 (C r (Sub r Hr))) (fun r Hr => proj1 (C r (Sub r Hr))) v') as [I' NE'].
  split; [exact I'|]. split; [exact NE'|]. split.
  - intros FT SZ. split.
    + intros z Hz. cbn [live zkeys] in *. apply cleanup_in in Hz as [Hz _]. specialize (FT z Hz).
      unfold zfree in *. pose proof (usage_drop (live s) id z SZ). lia.
    + intros r Hr. apply SZ. apply Sub. exact Hr.
  - intros NO r Hr. apply NO. apply Sub. exact Hr.
Qed.

(* ------------------------------------------------------------------ versions *)

Definition is_offer_op (o : op) : bool := match o with OpGetOffer _ => true | _ => false end.

Lemma allocate_version s r s' res : allocate ns ex fx s r = (s', res) ->
  version s' = if match rs_kind res with KOk => true | _ => false end then bump (fx_F1a fx) (version s) else version s.
Proof.
  unfold allocate. destruct (alloc_core ns ex s r); intros H; injection H as <- <-; reflexivity.
Qed.

Lemma get_offer_version s r s' res o : get_offer ns ex fx s r = (s', res, o) ->
  version s' = version s /\ match o with Some off => of_ver off = version s | None => True end.
Proof.
  unfold get_offer. destruct (alloc_core ns ex s r).
  - destruct (revert _ _). intros H. injection H as <- _ <-. cbn. auto.
  - intros H. injection H as <- _ <-. cbn. auto.
  - intros H. injection H as <- _ <-. cbn. auto.
Qed.

Lemma commit_version s o s' res : commit s o = (s', res) ->
  (rs_kind res = KOk /\ of_ver o = version s /\ version s' = version s + 1) \/ (rs_kind res <> KOk /\ s' = s).
Proof.
  unfold commit. destruct (of_ver o =? version s) eqn:E; cbn [negb].
  - destruct (is_live _ _); [intros H; injection H as <- <-; right; cbn; split; [discriminate|reflexivity]|].
    destruct (commit_apply o (live s) (zkeys s)). intros H. injection H as <- <-. left. cbn.
    apply Z.eqb_eq in E. auto.
  - intros H. injection H as <- <-. right. cbn. split; [discriminate|reflexivity].
Qed.

Lemma realloc_version s id nodes types s' res : realloc ns ex fx s id nodes types = (s', res) ->
  version s' = if match rs_kind res with KOk => true | _ => false end then bump (fx_F1r fx) (version s) else version s.
Proof.
  unfold realloc. destruct (find_req id (live s)) as [r|]; [|intros H; injection H as <- <-; reflexivity].
  destruct (validate_realloc ns r nodes types) as [| |n' t'].
  - intros H. injection H as <- <-. cbn. rewrite andb_true_r. reflexivity.
  - intros H. injection H as <- <-. cbn. rewrite andb_false_r. reflexivity.
  - destruct (ex _ _) as [nn nt]. destruct (nn =? 0)%N.
    + intros H. injection H as <- <-. cbn. rewrite andb_false_r. reflexivity.
    + destruct (handle_overcommit _ _ _ _).
      * intros H. injection H as <- <-. cbn. rewrite andb_true_r. reflexivity.
      * destruct (revert _ _). intros H. injection H as <- <-. cbn. rewrite andb_false_r. reflexivity.
      * intros H. injection H as <- <-. reflexivity.
Qed.

(* every step: the version never decreases; a successful Allocate / Realloc / Release / Commit
   increments it (given the F1 fixes), GetOffer and failed operations keep it *)
Lemma step_version w o w' res : step ns ex fx w o = (w', res) ->
  version (w_state w) <= version (w_state w') /\
  (rs_kind res = KOk -> is_offer_op o = false -> fx_F1a fx = true -> fx_F1r fx = true ->
   version (w_state w') = version (w_state w) + 1).
Proof.
  unfold step. destruct o as [r|k|r|id nodes types|id].
  - destruct (get_offer ns ex fx (w_state w) r) as [[s' res'] off] eqn:G. intros H. injection H as <- <-.
    cbn [w_state]. destruct (get_offer_version _ _ _ _ _ G) as [-> _]. split; [lia|discriminate].
  - destruct (nth k (w_offers w) None) as [off|].
    + destruct (commit (w_state w) off) as [s' res'] eqn:C. intros H. injection H as <- <-. cbn [w_state].
      destruct (commit_version _ _ _ _ C) as [[K [_ ->]]|[K ->]]; split; try lia; intros; congruence.
    + intros H. injection H as <- <-. cbn. split; [lia|discriminate].
  - destruct (allocate ns ex fx (w_state w) r) as [s' res'] eqn:A. intros H. injection H as <- <-. cbn [w_state].
    rewrite (allocate_version _ _ _ _ A). destruct (rs_kind res'); unfold bump; destruct (fx_F1a fx); split; try lia; intros; congruence.
  - destruct (realloc ns ex fx (w_state w) id nodes types) as [s' res'] eqn:A. intros H. injection H as <- <-. cbn [w_state].
    rewrite (realloc_version _ _ _ _ _ _ A). destruct (rs_kind res'); unfold bump; destruct (fx_F1r fx); split; try lia; intros; congruence.
  - destruct (release (w_state w) id) as [s' res'] eqn:A. intros H. injection H as <- <-. cbn [w_state].
    destruct (release_spec _ _ _ _ A) as [[K [_ [_ [_ ->]]]]|[K [_ ->]]]; split; try lia; intros; congruence.
Qed.

Lemma step_offers w o w' res : step ns ex fx w o = (w', res) ->
  exists off, w_offers w' = w_offers w ++ [off] /\
    match off with Some x => of_ver x = version (w_state w) | None => True end.
Proof.
  unfold step. destruct o as [r|k|r|id nodes types|id].
  - destruct (get_offer ns ex fx (w_state w) r) as [[s' res'] off] eqn:G. intros H. injection H as <- <-.
    exists off. split; [reflexivity|]. apply (get_offer_version _ _ _ _ _ G).
  - destruct (nth k (w_offers w) None) as [off|]; [destruct (commit _ _)|]; intros H; injection H as <- <-; exists None; auto.
  - destruct (allocate _ _ _ _ _); intros H; injection H as <- <-; exists None; auto.
  - destruct (realloc _ _ _ _ _ _ _); intros H; injection H as <- <-; exists None; auto.
  - destruct (release _ _); intros H; injection H as <- <-; exists None; auto.
Qed.

(* offers never carry a version from the future *)
Definition offers_le (w : world) : Prop :=
  forall k off, nth k (w_offers w) None = Some off -> of_ver off <= version (w_state w).

Lemma nth_snoc {A} (l : list A) x d k :
  nth k (l ++ [x]) d = if (k <? length l)%nat then nth k l d else if (k =? length l)%nat then x else d.
Proof.
  revert k. induction l as [|a l IH]; intros k.
  - destruct k as [|k]; [reflexivity|]. destruct k; reflexivity.
  - destruct k as [|k]; [reflexivity|]. cbn [app nth length]. rewrite IH. reflexivity.
Qed.

Lemma step_offers_le w o w' res : offers_le w -> step ns ex fx w o = (w', res) ->
  offers_le w' /\ (forall k off, nth k (w_offers w) None = Some off -> nth k (w_offers w') None = Some off).
Proof.
  intros OL H. destruct (step_offers _ _ _ _ H) as [off [E Hoff]]. destruct (step_version _ _ _ _ H) as [V _].
  split.
  - intros k x Hk. rewrite E, nth_snoc in Hk. destruct (k <? length (w_offers w))%nat.
    + specialize (OL k x Hk). lia.
    + destruct (k =? length (w_offers w))%nat; [|discriminate]. subst off. lia.
  - intros k x Hk. rewrite E, nth_snoc. destruct (k <? length (w_offers w))%nat eqn:L; [exact Hk|].
    apply Nat.ltb_ge in L. rewrite nth_overflow in Hk by exact L. discriminate.
Qed.

Lemma run_offers_le ops : forall w, offers_le w ->
  offers_le (run ns ex fx w ops) /\ version (w_state w) <= version (w_state (run ns ex fx w ops)) /\
  (forall k off, nth k (w_offers w) None = Some off -> nth k (w_offers (run ns ex fx w ops)) None = Some off).
Proof.
  unfold run. induction ops as [|o ops IH]; intros w OL; [cbn; split; [exact OL|split; [lia|auto]]|].
  cbn [fold_left]. destruct (step ns ex fx w o) as [w1 res1] eqn:S. cbn [fst].
  destruct (step_offers_le _ _ _ _ OL S) as [OL1 K1]. destruct (step_version _ _ _ _ S) as [V1 _].
  destruct (IH w1 OL1) as [OL2 [V2 K2]]. split; [exact OL2|]. split; [lia|]. intros k off Hk. apply K2, K1, Hk.
Qed.

Lemma init_offers_le : offers_le init_world.
Proof. intros k off H. cbn in H. destruct k; discriminate. Qed.

(* An offer present in world w; then any successful Allocate / Realloc / Release / Commit; then
   any further operations whatsoever: committing the offer is refused and changes nothing. *)
Theorem stale_offer_refused w k off o w1 res1 ops :
  fx_F1a fx = true -> fx_F1r fx = true ->
  offers_le w -> nth k (w_offers w) None = Some off ->
  step ns ex fx w o = (w1, res1) -> rs_kind res1 = KOk -> is_offer_op o = false ->
  let w2 := run ns ex fx w1 ops in
  rs_kind (snd (step ns ex fx w2 (OpCommit k))) = KErr /\
  w_state (fst (step ns ex fx w2 (OpCommit k))) = w_state w2.
Proof.
  intros F1a F1r OL Hk S K NO w2.
  destruct (step_offers_le _ _ _ _ OL S) as [OL1 K1]. destruct (step_version _ _ _ _ S) as [_ V1].
  specialize (V1 K NO F1a F1r). destruct (run_offers_le ops w1 OL1) as [_ [V2 K2]]. fold w2 in V2, K2.
  pose proof (K2 _ _ (K1 _ _ Hk)) as Hk2. pose proof (OL k off Hk) as Hle.
  unfold step. rewrite Hk2. unfold commit.
  assert (of_ver off =? version (w_state w2) = false) as -> by (apply Z.eqb_neq; lia).
  cbn. split; reflexivity.
Qed.

(* the converse direction of the version check: a refused Commit changes nothing at all *)
Theorem commit_refused_noop s o s' res : commit s o = (s', res) -> rs_kind res <> KOk -> s' = s.
Proof. intros H K. destruct (commit_version _ _ _ _ H) as [[K' _]|[_ E]]; [congruence|exact E]. Qed.

End Hist.

(* ------------------------------------------------------------------ witnesses (kernel-evaluated) *)

Definition n10 (d : list Z) : node := mkNode 0 10 true d.
Definition k1_nodes : list node := [n10 [10; 21; 31]; n10 [21; 10; 21]; n10 [31; 21; 10]].
Definition res_req (id : N) (size : Z) (aff : N) : req := mkReq id size aff 0 false LM_Reservation (Z.of_N id) 0 0.
Definition bur_req (id : N) (size : Z) (aff : N) : req := mkReq id size aff 0 false LM_Burstable (Z.of_N id) 0 0.
Definition k1_ops : list op := [OpAllocate (res_req 1 20 3); OpAllocate (res_req 2 20 6)].

Definition run_default (nodes : list node) (fx : fixes) (ops : list op) : world :=
  run nodes (default_expand nodes) fx init_world ops.

(* K1: both reservations are granted, {0,1,2} then holds 40 of 30 *)
Lemma k1_witness :
  let w := run_default k1_nodes src_fixes k1_ops in
  map (fun r => (r_id r, r_zone r)) (live (w_state w)) = [(1%N, 3%N); (2%N, 6%N)] /\
  usage (live (w_state w)) 7 = 40 /\ zone_cap k1_nodes 7 = 30 /\
  (forall z, In z (zkeys (w_state w)) -> 0 <= zfree k1_nodes (live (w_state w)) z).
Proof.
  vm_compute. split; [reflexivity|]. split; [reflexivity|]. split; [reflexivity|].
  intros z [<-|[<-|[]]]; discriminate.
Qed.

(* before fix F1: an offer survives a direct Allocate and is committed, node 0 ends at free -2 *)
Definition f1_nodes : list node := [n10 [10]].
Definition f1_ops : list op := [OpGetOffer (bur_req 1 6 1); OpAllocate (bur_req 2 6 1); OpCommit 0].
Lemma f1_before_fix :
  zfree f1_nodes (live (w_state (run_default f1_nodes no_fixes f1_ops))) 1 = -2 /\
  zfree f1_nodes (live (w_state (run_default f1_nodes all_fixes f1_ops))) 1 = 4.
Proof. vm_compute. split; reflexivity. Qed.

(* before fix F2: a GetOffer leaves the entry {0,1,2} behind and the next Allocate fails *)
Definition f2_ops (with_offer : bool) : list op :=
  [OpAllocate (res_req 1 20 3)] ++ (if with_offer then [OpGetOffer (bur_req 9 1 7)] else []) ++ [OpAllocate (res_req 2 20 6)].
Lemma f2_before_fix :
  length (live (w_state (run_default k1_nodes no_fixes (f2_ops false)))) = 2%nat /\
  length (live (w_state (run_default k1_nodes no_fixes (f2_ops true)))) = 1%nat /\
  length (live (w_state (run_default k1_nodes all_fixes (f2_ops true)))) = 2%nat.
Proof. vm_compute. repeat split; reflexivity. Qed.

(* the fixes are present in the source this development was generated from *)
Lemma src_fixes_all : src_fixes = all_fixes.
Proof. reflexivity. Qed.
