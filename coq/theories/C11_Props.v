(* C11 -- restart + Synchronize converges to the runtime's truth.  Property theorems only
   (classification part; the allocation invariants after Synchronize are C01-C04's theorems, which
   hold for every operation sequence, in particular for release-all-then-allocate). *)
From Coq Require Import List Bool.
From stdpp Require Import gmap sets fin_sets.
From NV Require Import Sync_Model.
Import ListNotations.

(* a well-formed runtime listing: container ids are unique and every container's pod is listed *)
Definition wf_listing (l : listing) : Prop :=
  NoDup (map fst (l_ctrs l)) /\ forall k p s, In (k, (p, s)) (l_ctrs l) -> In p (l_pods l).

Lemma omap_keys c l : forall k v, In (k, v) (omap (refresh_entry c) l) -> exists p s, In (k, (p, s)) l /\ snd v = s.
Proof.
  induction l as [|[k0 [p0 s0]] l IH]; intros k v H; simpl in H; [contradiction|].
  unfold refresh_entry at 1 in H. cbn [fst snd] in H.
  destruct (c_ctrs c !! k0) as [[p1 s1]|].
  - destruct H as [H|H]; [injection H as <- <-; exists p0, s0; split; [left; reflexivity|reflexivity]|].
    destruct (IH k v H) as (p & s & Hin & Hs). exists p, s. split; [right; exact Hin|exact Hs].
  - destruct (bool_decide (p0 ∈ c_pods c)).
    + destruct H as [H|H]; [injection H as <- <-; exists p0, s0; split; [left; reflexivity|reflexivity]|].
      destruct (IH k v H) as (p & s & Hin & Hs). exists p, s. split; [right; exact Hin|exact Hs].
    + destruct (IH k v H) as (p & s & Hin & Hs). exists p, s. split; [right; exact Hin|exact Hs].
Qed.

Lemma omap_nodup c l : NoDup (map fst l) -> NoDup (map fst (omap (refresh_entry c) l)).
Proof.
  induction l as [|[k0 [p0 s0]] l IH]; intros H; simpl; [constructor|].
  simpl in H. apply NoDup_cons in H as [Hn Hd].
  assert (Hk : forall v, In (k0, v) (omap (refresh_entry c) l) -> False).
  { intros v Hv. destruct (omap_keys c l k0 v Hv) as (p & s & Hin & _). apply Hn. apply elem_of_list_In. apply in_map_iff. exists (k0, (p, s)). auto. }
  assert (Hnot : k0 ∉ map fst (omap (refresh_entry c) l)).
  { intros Hin. apply elem_of_list_In, in_map_iff in Hin as ([k v] & Hf & Hv). cbn in Hf. subst. exact (Hk v Hv). }
  unfold refresh_entry at 1. cbn [fst snd].
  destruct (c_ctrs c !! k0) as [[p1 s1]|]; [cbn [map fst]; apply NoDup_cons; auto|].
  destruct (bool_decide (p0 ∈ c_pods c)); [cbn [map fst]; apply NoDup_cons; auto|auto].
Qed.

(* every listed container whose pod is listed ends up cached with the state the runtime reports *)
Lemma refresh_keeps c l k p s : NoDup (map fst l) -> In (k, (p, s)) l -> (c_ctrs c !! k <> None \/ p ∈ c_pods c) ->
  exists p', (list_to_map (omap (refresh_entry c) l) : gmap nat (nat * cstate)) !! k = Some (p', s).
Proof.
  intros Hnd Hin Hok.
  assert (exists p', In (k, (p', s)) (omap (refresh_entry c) l)) as (p' & Hp').
  { revert Hin. clear Hnd. induction l as [|[k0 [p0 s0]] l IH]; intros Hin; [contradiction|]. simpl.
    destruct Hin as [Heq|Hin].
    - injection Heq as -> -> ->. unfold refresh_entry. cbn [fst snd].
      destruct (c_ctrs c !! k) as [[p1 s1]|] eqn:Hc; [exists p1; left; reflexivity|].
      destruct Hok as [Hok|Hok]; [congruence|]. rewrite (bool_decide_eq_true_2 _ Hok). exists p. left. reflexivity.
    - destruct (IH Hin) as (p' & Hp'). exists p'. destruct (refresh_entry c (k0, (p0, s0))); [right|]; exact Hp'. }
  exists p'. apply elem_of_list_to_map; [apply (omap_nodup c l Hnd)|apply elem_of_list_In; exact Hp'].
Qed.

(* After Synchronize with a well-formed listing, for every cache content (possibly stale, saved at any
   point of an earlier history):
   1. the containers the policy is asked to allocate are exactly the containers the runtime lists as
      created or running;
   2. the cache afterwards holds exactly the listed containers, each in the state the runtime reports;
   3. every previously cached container the runtime no longer lists is released. *)
Theorem C11_sync_classification : forall c l, wf_listing l ->
  let '(c2, alloc, rel) := sync c l in
  (forall k, k ∈ alloc <-> exists p s, In (k, (p, s)) (l_ctrs l) /\ is_live s = true) /\
  (forall k, k ∈ dom (c_ctrs c2) <-> exists p s, In (k, (p, s)) (l_ctrs l)) /\
  (forall k p s, In (k, (p, s)) (l_ctrs l) -> exists p', c_ctrs c2 !! k = Some (p', s)) /\
  (forall k, k ∈ dom (c_ctrs c) -> (forall p s, ~ In (k, (p, s)) (l_ctrs l)) -> k ∈ rel).
Proof.
  intros c l [Hnd Hpods]. unfold sync, refresh_pods, refresh_ctrs.
  set (valid := list_to_set (l_pods l) : gset nat).
  set (c1 := {| c_pods := valid; c_ctrs := filter (fun kv => fst (snd kv) ∈ valid) (c_ctrs c) |}).
  set (m2 := list_to_map (omap (refresh_entry c1) (l_ctrs l)) : gmap nat (nat * cstate)).
  assert (Hm2 : forall k p' s, m2 !! k = Some (p', s) -> exists p, In (k, (p, s)) (l_ctrs l)).
  { intros k p' s H. apply elem_of_list_to_map_2, elem_of_list_In in H. destruct (omap_keys c1 _ k (p', s) H) as (p & s0 & Hin & Hs). cbn in Hs. subst. eauto. }
  assert (Hkeep : forall k p s, In (k, (p, s)) (l_ctrs l) -> exists p', m2 !! k = Some (p', s)).
  { intros k p s Hin. apply (refresh_keeps c1 (l_ctrs l) k p s Hnd Hin). right. cbn [c_pods c1]. unfold valid.
    apply elem_of_list_to_set, elem_of_list_In. exact (Hpods k p s Hin). }
  cbn [c_ctrs c_pods].
  split; [|split; [|split]].
  - intros k. rewrite elem_of_dom. split.
    + intros [[p' s] H]. apply map_filter_lookup_Some in H as [H Hl]. cbn in Hl. destruct (Hm2 k p' s H) as (p & Hin). eauto.
    + intros (p & s & Hin & Hl). destruct (Hkeep k p s Hin) as (p' & Hp'). exists (p', s). apply map_filter_lookup_Some. auto.
  - intros k. rewrite elem_of_dom. split.
    + intros [[p' s] H]. destruct (Hm2 k p' s H) as (p & Hin). eauto.
    + intros (p & s & Hin). destruct (Hkeep k p s Hin) as (p' & Hp'). eauto.
  - exact Hkeep.
  - intros k Hk Hnl.
    assert (Hn2 : k ∉ dom m2).
    { intros Hd. apply elem_of_dom in Hd as [[p' s] H]. destruct (Hm2 k p' s H) as (p & Hin). exact (Hnl p s Hin). }
    apply elem_of_dom in Hk as [[p0 s0] Hk].
    destruct (decide (p0 ∈ valid)) as [Hv|Hv].
    + (* survived RefreshPods, purged by RefreshContainers *)
      apply elem_of_union_l, elem_of_union_l, elem_of_union_r. apply elem_of_difference. split; [|exact Hn2].
      apply elem_of_dom. exists (p0, s0). apply map_filter_lookup_Some. auto.
    + apply elem_of_union_l, elem_of_union_l, elem_of_union_l. apply elem_of_dom. exists (p0, s0). apply map_filter_lookup_Some. auto.
Qed.
Print Assumptions C11_sync_classification.

(* ---- the cache a restart loads ----
   "previously saved cache" at a request boundary: with the save at the end of getPendingUpdates
   (extracted from pkg/resmgr/nri.go on every run as [gen_flush_saves]) the cache file is in line
   with the live cache after EVERY request of every history in which a request that does not
   flush makes no writes (the guard of C05; it fails for failing requests: known finding K5).
   Hence a restart at any request boundary starts from the resources the runtime was told. *)
From NV Require Import Persist_Model Persist_Proofs Gen.Gen_Flush.

Theorem C11_cache_file_fresh_at_request_boundaries : forall rs,
  forallb preq_guard rs = true -> fold_left (pexec gen_flush_saves) rs ∅ = ∅.
Proof. exact fresh_at_boundaries. Qed.
Print Assumptions C11_cache_file_fresh_at_request_boundaries.

(* the statement is not vacuous and does depend on that save: without it a single flushing
   request leaves the cache file stale *)
Theorem C11_cache_file_stale_without_save_refuted :
  exists rs, forallb preq_guard rs = true /\ fold_left (pexec false) rs ∅ <> ∅.
Proof. exact stale_without_save. Qed.
Print Assumptions C11_cache_file_stale_without_save_refuted.
