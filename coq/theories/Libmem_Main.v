(* libmem: the statements of C06_Props / C07_Props, assembled from the lemma files.
   [fx] is instantiated with [src_fixes], the switches regenerated from the source; the proofs
   of the clauses that need the fixes F1 / F2 go through [src_fixes_all], so reverting a fix in
   the source breaks them. *)
From Coq Require Import ZArith NArith List Bool Lia.
From NV Require Import Gen.Gen_LibmemConsts Gen.Gen_LibmemTabs Libmem_Model Libmem_Basics Libmem_Steps Libmem_Proofs Libmem_Alloc Libmem_Hist Libmem_Realloc Libmem_Commit.
Import ListNotations.
Open Scope Z_scope.

Lemma init_inv ns : Inv init_state /\ NoEmpty init_state /\ Fit ns init_state /\ NormalOK ns init_state /\ sizes_nonneg (live init_state).
Proof.
  split; [split; [constructor|split; [constructor|intros r []]]|].
  split; [intros z []|]. split; [intros z []|]. split; intros r [].
Qed.

Section Main.
Context (ns : list node) (ex : N -> N -> N * N).

Lemma main_offer_pure s r s' res o : Inv s -> NoEmpty s -> get_offer ns ex src_fixes s r = (s', res, o) -> s' = s.
Proof. intros I NE. apply get_offer_pure; [exact I|exact NE|]. rewrite src_fixes_all. reflexivity. Qed.

Lemma main_stale_offer_refused w k off o w1 res1 ops :
  offers_le w -> nth k (w_offers w) None = Some off ->
  step ns ex src_fixes w o = (w1, res1) -> rs_kind res1 = KOk -> is_offer_op o = false ->
  let w2 := run ns ex src_fixes w1 ops in
  rs_kind (snd (step ns ex src_fixes w2 (OpCommit k))) = KErr /\
  w_state (fst (step ns ex src_fixes w2 (OpCommit k))) = w_state w2.
Proof. apply stale_offer_refused; rewrite src_fixes_all; reflexivity. Qed.

Lemma main_failed_realloc_noop s id nodes types s' res : Inv s -> NoEmpty s ->
  realloc ns ex src_fixes s id nodes types = (s', res) -> rs_kind res <> KOk -> s' = s.
Proof. intros I NE. apply realloc_fail_noop; [exact I|exact NE|]. rewrite src_fixes_all. reflexivity. Qed.

Lemma main_realloc_ok s id nodes types s' res : Inv s ->
  realloc ns ex src_fixes s id nodes types = (s', res) -> rs_kind res = KOk ->
  is_live id (live s) = true /\ msub (zone_of id (live s)) (rs_zone res) = true /\
  rs_zone res = zone_of id (live s') /\ map r_id (live s') = map r_id (live s) /\
  (forall q, In q (live s) -> msub (r_zone q) (zone_of (r_id q) (live s')) = true).
Proof. intros I. apply realloc_ok; [exact I|]. rewrite src_fixes_all. reflexivity. Qed.

Lemma main_commit_fresh s r s1 reso o sa ra sc rc : Inv s -> NoEmpty s ->
  get_offer ns ex src_fixes s r = (s1, reso, Some o) ->
  allocate ns ex src_fixes s r = (sa, ra) -> commit s1 o = (sc, rc) ->
  rs_kind ra = KOk /\ rs_kind rc = KOk /\ sc = sa /\
  rs_zone rc = rs_zone ra /\ rs_upd rc = rs_upd ra /\ rs_zone reso = rs_zone ra /\ rs_upd reso = rs_upd ra.
Proof.
  intros I NE G A C. pose proof (main_offer_pure _ _ _ _ _ I NE G) as ->.
  destruct (commit_fresh_eq_allocate ns ex src_fixes _ _ _ _ _ _ _ _ _ I G A C) as [K1 [K2 [Z [U [Z' [U' [L [ZK V]]]]]]]].
  repeat split; try assumption.
  pose proof (allocate_version ns ex src_fixes _ _ _ _ A) as VA. rewrite K1 in VA. rewrite src_fixes_all in VA. cbn [fx_F1a all_fixes bump] in VA.
  destruct sc, sa. cbn in L, ZK, V, VA. subst. f_equal; lia.
Qed.

Lemma main_reachable_offers_le ops : offers_le (run ns ex src_fixes init_world ops).
Proof. apply run_offers_le. apply init_offers_le. Qed.

End Main.

Lemma main_fit_all_refuted :
  exists (nodes : list node) (ops : list op) (z : N),
    let w := run nodes (default_expand nodes) src_fixes init_world ops in
    length (live (w_state w)) = length ops /\                       (* every allocation succeeded *)
    (forall r, In r (live (w_state w)) -> msub (r_zone r) z = true) /\   (* all confined to z *)
    zone_cap nodes z < usage (live (w_state w)) z /\                 (* z holds more than its capacity *)
    ~ In z (map r_zone (live (w_state w))).                          (* z is not itself a zone in use *)
Proof.
  exists k1_nodes, k1_ops, 7%N. vm_compute. split; [reflexivity|]. split.
  - intros r [<-|[<-|[]]]; reflexivity.
  - split; [reflexivity|]. intros [H|[H|[]]]; discriminate.
Qed.
