(* C16 -- property theorems only. *)
From Coq Require Import ZArith Bool List.
From NV Require Import C16_Model C16_Proofs.
Open Scope Z_scope.

Theorem C16_memz_In : forall x l, memz x l = true <-> In x l.
Proof. exact memz_In. Qed.
Print Assumptions C16_memz_In.
