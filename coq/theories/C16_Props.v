(* C16 -- property theorems only.  Each is closed by [exact] of a lemma from C16_Proofs and
   followed by Print Assumptions.

   Part (b): [build_pools mf alloc v c] is the pool tree the topology-aware policy builds for the
   discovered view [v] and the available/reserved configuration [c]; [alloc] is the CPU allocator
   (used for a reservation given as a quantity); [mf = true] is the code as it is (after fix
   1a43202), [mf = false] the code before it.  The theorems hold for EVERY hierarchical view
   ([hier_wfb v = true]: each NUMA node inside one die, each die inside one package), EVERY
   configuration the policy accepts, and every allocator. *)
From Coq Require Import ZArith Bool List.
From NV Require Import C16_Model C16_Proofs C16_Codec_Proofs C16_Sysfs_Proofs.
Import ListNotations.
Open Scope Z_scope.

(* shape: a virtual root iff several sockets; a die level iff several dies in the socket; a NUMA
   level iff several nodes under the parent; memory-less NUMA nodes folded into the parent
   ([origin] spells the five cases out) *)
Theorem C16_tree_shape : forall mf v cs q, In q (build_tree mf v cs) <-> origin mf v cs q.
Proof. exact tree_shape. Qed.
Print Assumptions C16_tree_shape.

(* the pools form a single tree: one root, every other pool has its parent in the tree one level
   up, pool names (keys) are unique *)
Theorem C16_single_tree : forall alloc mf v c cs ps,
  hier_wfb v = true -> build_pools mf alloc v c = Ok (cs, ps) ->
  (exists r, In r ps /\ pl_parent r = None /\ forall p, In p ps -> pl_parent p = None -> p = r) /\
  (forall p k, In p ps -> pl_parent p = Some k -> exists q, In q ps /\ pl_key q = k /\ pl_depth p = pl_depth q + 1) /\
  (forall p q, In p ps -> In q ps -> pl_key p = pl_key q -> p = q).
Proof. exact final_single_tree. Qed.
Print Assumptions C16_single_tree.

(* sibling pools have disjoint CPU sets *)
Theorem C16_siblings_disjoint : forall alloc mf v c cs ps,
  hier_wfb v = true -> build_pools mf alloc v c = Ok (cs, ps) ->
  forall p q, In p ps -> In q ps -> pl_parent p = pl_parent q -> pl_key p <> pl_key q ->
  forall x, In x (pl_cpus p) -> In x (pl_cpus q) -> False.
Proof. exact final_siblings_disjoint. Qed.
Print Assumptions C16_siblings_disjoint.

(* each pool's CPUs contain those of its children *)
Theorem C16_parent_contains_children : forall alloc mf v c cs ps,
  hier_wfb v = true -> build_pools mf alloc v c = Ok (cs, ps) ->
  forall p q, In p ps -> In q ps -> pl_parent p = Some (pl_key q) ->
  forall x, In x (pl_cpus p) -> In x (pl_cpus q).
Proof. exact final_parent_contains_children. Qed.
Print Assumptions C16_parent_contains_children.

(* the root holds every available (allowed and online) CPU *)
Theorem C16_root_holds_available : forall alloc mf v c cs ps,
  hier_wfb v = true -> build_pools mf alloc v c = Ok (cs, ps) ->
  forall r, In r ps -> pl_parent r = None ->
  forall x, In x (cs_allowed cs) -> In x (sv_online v) -> In x (pl_cpus r).
Proof. exact final_root_holds_available. Qed.
Print Assumptions C16_root_holds_available.

(* isolated / reserved / sharable: union = pool CPUs /\ allowed; sharable disjoint from both;
   isolated and reserved disjoint unless the reserved cpuset is itself kernel-isolated (the
   configuration the property excludes -- see C16_reserved_cpuset_cases) *)
Theorem C16_supply_partition : forall alloc mf v c cs ps,     (* any view, hierarchical or not *)
  build_pools mf alloc v c = Ok (cs, ps) ->
  forall p, In p ps ->
  (forall x, In x (pl_cpus p) <-> In x (pl_hw p) /\ In x (cs_allowed cs)) /\
  (forall x, In x (pl_iso p) -> In x (pl_shr p) -> False) /\
  (forall x, In x (pl_res p) -> In x (pl_shr p) -> False) /\
  ((forall x, In x (cs_reserved cs) -> In x (cs_isolated cs) -> False) ->
   forall x, In x (pl_iso p) -> In x (pl_res p) -> False) /\
  (forall x, In x (pl_iso p) <-> In x (pl_hw p) /\ In x (cs_allowed cs) /\ In x (cs_isolated cs)) /\
  (forall x, In x (pl_res p) <-> In x (pl_hw p) /\ In x (cs_allowed cs) /\ In x (cs_reserved cs)).
Proof. exact final_supply_partition. Qed.
Print Assumptions C16_supply_partition.

(* accepted configurations: reserved is a non-empty subset of allowed; isolated = kernel-isolated /\ allowed *)
Theorem C16_accepted_constraints : forall alloc,
  (forall from cnt r, alloc from cnt = Some r -> forall x, In x r -> In x from) ->
  forall v c cs, check_constraints alloc v c = Ok cs ->
  cs_reserved cs <> [] /\
  (forall x, In x (cs_reserved cs) -> In x (cs_allowed cs)) /\
  (forall x, In x (cs_isolated cs) <-> In x (sv_isolated v) /\ In x (cs_allowed cs)).
Proof. exact constraints_ok. Qed.
Print Assumptions C16_accepted_constraints.

(* reserved by quantity: by the allocator's contract (C08: the result is taken from the requested
   set) never an isolated CPU, so the partition is strict *)
Theorem C16_reserved_by_quantity_not_isolated : forall alloc,
  (forall from cnt r, alloc from cnt = Some r -> forall x, In x r -> In x from) ->
  forall v av q cs, check_constraints alloc v (mkCfg av (RsMilli q)) = Ok cs ->
  forall x, In x (cs_reserved cs) -> In x (cs_isolated cs) -> False.
Proof. exact quantity_reserved_not_isolated. Qed.
Print Assumptions C16_reserved_by_quantity_not_isolated.

(* reserved by cpuset: no isolated CPU at all, or exactly one CPU and that one isolated *)
Theorem C16_reserved_cpuset_cases : forall alloc v av l cs,
  check_constraints alloc v (mkCfg av (RsSet l)) = Ok cs ->
  (forall x, In x (cs_reserved cs) -> In x (cs_isolated cs) -> False) \/
  (exists c, In c (cs_isolated cs) /\ forall x, In x (cs_reserved cs) <-> x = c).
Proof. exact cpuset_reserved_cases. Qed.
Print Assumptions C16_reserved_cpuset_cases.

(* every memory node that has memory belongs to the root (and only those) *)
Theorem C16_root_has_all_memory : forall alloc mf v c cs ps,
  hier_wfb v = true -> build_pools mf alloc v c = Ok (cs, ps) ->
  forall r, In r ps -> pl_parent r = None ->
  forall n, In n (pl_mems r) <-> exists nd, In nd (sv_nodes v) /\ vn_id nd = n /\ node_has_memory nd = true.
Proof. exact final_root_has_all_memory. Qed.
Print Assumptions C16_root_has_all_memory.

(* a child's memory nodes are a subset of its parent's -- the code as it is *)
Theorem C16_child_mems_subset : forall alloc v c cs ps,
  hier_wfb v = true -> build_pools true alloc v c = Ok (cs, ps) ->
  forall p q, In p ps -> In q ps -> pl_parent p = Some (pl_key q) -> forall n, In n (pl_mems p) -> In n (pl_mems q).
Proof. intros alloc v c cs ps Hw Ha p q. exact (final_child_mems_subset alloc true v c cs ps Hw Ha p q (or_introl eq_refl)). Qed.
Print Assumptions C16_child_mems_subset.

(* ... the code before fix F11 (1a43202): only with the guard "every CPU-bearing node has memory" *)
Theorem C16_child_mems_subset_unfixed_partial : forall alloc v c cs ps,
  hier_wfb v = true -> build_pools false alloc v c = Ok (cs, ps) -> cpu_nodes_have_memory v ->
  forall p q, In p ps -> In q ps -> pl_parent p = Some (pl_key q) -> forall n, In n (pl_mems p) -> In n (pl_mems q).
Proof. intros alloc v c cs ps Hw Ha Hg p q. exact (final_child_mems_subset alloc false v c cs ps Hw Ha p q (or_intror Hg)). Qed.
Print Assumptions C16_child_mems_subset_unfixed_partial.

(* ... and without the guard it was false (defect F11: memory-less CPU-bearing NUMA node) *)
Theorem C16_child_mems_subset_unfixed_refuted :
  exists v c, hier_wfb v = true /\
    forall alloc, exists cs ps, build_pools false alloc v c = Ok (cs, ps) /\
      exists p q n, In p ps /\ In q ps /\ pl_parent p = Some (pl_key q) /\ In n (pl_mems p) /\ ~ In n (pl_mems q).
Proof. exact child_mems_subset_unfixed_refuted. Qed.
Print Assumptions C16_child_mems_subset_unfixed_refuted.

(* a CPU-less PMEM/HBM node is attached to exactly the non-root pools whose CPUs contain a CPU of
   one of its closest CPU-bearing DRAM nodes (the root holds it by C16_root_has_all_memory) *)
Theorem C16_special_mem_attach : forall alloc mf v c cs ps,
  hier_wfb v = true -> build_pools mf alloc v c = Ok (cs, ps) ->
  forall p k s, In p ps -> pl_parent p = Some k -> In s (sv_nodes v) -> is_special s = true ->
  (In (vn_id s) (pl_mems p) <->
   exists c' nd, In c' (closest_cpu_dram v s) /\ find_node v c' = Some nd /\ exists x, In x (vn_cpus nd) /\ In x (pl_hw p)).
Proof. exact final_special_mem_attach. Qed.
Print Assumptions C16_special_mem_attach.

(* "closest CPU-bearing DRAM nodes": minimal distance among the other DRAM nodes that have CPUs *)
Theorem C16_closest_spec : forall v s c,
  In c (closest_cpu_dram v s) <->
  In c (close_candidates v s) /\ forall c', In c' (close_candidates v s) -> dist_from s c <= dist_from s c'.
Proof. exact closest_spec. Qed.
Print Assumptions C16_closest_spec.

Theorem C16_candidates_spec : forall v s id,
  In id (close_candidates v s) <->
  0 <= id < zlen (vn_distance s) /\ id <> vn_id s /\
  exists n, find_node v id = Some n /\ vn_memtype n = 0 /\ vn_cpus n <> [].
Proof. exact candidates_spec. Qed.
Print Assumptions C16_candidates_spec.

(* ---- part (a), string layer: the parsers the discovery uses invert the kernel's printers ---- *)

(* cpulist files ("0-3,8,10-11"): every sorted duplicate-free id list *)
Theorem C16_parse_print_cpulist : forall l, increasing l -> parse_cpulist (print_cpulist l) = Some l.
Proof. exact parse_print_cpulist. Qed.
Print Assumptions C16_parse_print_cpulist.

(* space separated integer vectors (node*/distance): every list *)
Theorem C16_parse_print_vec : forall l, parse_vec (print_vec l) = Some l.
Proof. exact parse_print_vec. Qed.
Print Assumptions C16_parse_print_vec.

(* decimal integers (ids, sizes) *)
Theorem C16_parse_print_N : forall n, parse_N (print_N n) = Some n.
Proof. exact parse_print_N. Qed.
Print Assumptions C16_parse_print_N.

(* ---- part (a), assembly layer: components of  discover (render m) = Some (view m)  that are proved
   for every well-formed machine.  (The remaining components -- memory-type inference and the
   node -> package/die back-assignment -- and hence the assembled equation are validated by
   evaluating [sysfs_case_diff] on every generated machine, not proved.) ---- *)

(* every CPU record: online CPUs get package, die, cluster, core, thread siblings, node and their
   caches with the sharing sets (shared cache objects de-duplicated as saveCache does); offline
   CPUs keep the defaults; online / isolated flags follow the cpu/online and cpu/isolated files *)
Theorem C16_discover_render_cpus : forall m, machine_wfb m = true ->
  discover_cpus (canon (ids_where c_online c_id (m_cpus m))) (canon (ids_where c_isolated c_id (m_cpus m))) []
                (map render_cpu (m_cpus m)) = Some (map view_cpu (m_cpus m)).
Proof. exact discover_render_cpus. Qed.
Print Assumptions C16_discover_render_cpus.

(* discoverPackages: packages, their dies, CPU sets and node lists are exactly the grouping of the
   machine's online CPUs (any machine) *)
Theorem C16_discover_render_pkgs : forall m,
  discover_pkgs (map view_cpu (m_cpus m)) = map (view_pkg m) (canon (map c_pkg (online_cpus m))).
Proof. exact discover_render_pkgs. Qed.
Print Assumptions C16_discover_render_pkgs.
