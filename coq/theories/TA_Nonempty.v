(* C03, consequence clause: "so every CPU-pinned container always has a non-empty allowed CPU set".
   Proved part: containers with exclusive CPUs or a positive shared portion, for every history.
   The zero-request case is refuted (known finding K10). *)
From Coq Require Import ZArith List Lia.
From stdpp Require Import gmap sets.
From NV Require Import C20_Model TA_Model TA_Proofs TA_Capacity TA_Cap2.
Open Scope Z_scope.

Section ne.
Context (t : tree).

Lemma ledger_ge_member ty q (m : gmap nat grant) c g :
  (forall c g, m !! c = Some g -> 0 <= g_portion g) -> m !! c = Some g -> contrib ty q g <= ledger ty q m.
Proof.
  revert c g. unfold ledger.
  induction m as [|k x m Hk IH] using map_ind; intros c g Hpos Hc; [rewrite lookup_empty in Hc; discriminate|].
  rewrite (map_fold_insert_L (fun _ g acc => contrib ty q g + acc)); [|intros; lia|exact Hk].
  assert (Hx : 0 <= contrib ty q x).
  { unfold contrib. destruct (_ && _); [|lia]. apply (Hpos k). apply lookup_insert. }
  assert (Hm : 0 <= map_fold (fun _ g acc => contrib ty q g + acc) 0 m).
  { clear IH Hc. assert (Hp' : forall c g, m !! c = Some g -> 0 <= g_portion g).
    { intros c' g' H'. apply (Hpos c'). rewrite lookup_insert_ne; [exact H'|]. intros ->. rewrite Hk in H'. discriminate. }
    clear Hpos Hk Hx. induction m as [|k' x' m' Hk' IH'] using map_ind; [rewrite map_fold_empty; lia|].
    rewrite (map_fold_insert_L (fun _ g acc => contrib ty q g + acc)); [|intros; lia|exact Hk'].
    assert (0 <= contrib ty q x'). { unfold contrib. destruct (_ && _); [|lia]. apply (Hp' k'). apply lookup_insert. }
    assert (0 <= map_fold (fun _ g acc => contrib ty q g + acc) 0 m').
    { apply IH'. intros c' g' H'. apply (Hp' c'). rewrite lookup_insert_ne; [exact H'|]. intros ->. rewrite Hk' in H'. discriminate. }
    lia. }
  destruct (decide (c = k)) as [->|Hne].
  - rewrite lookup_insert in Hc. injection Hc as ->. lia.
  - rewrite lookup_insert_ne in Hc by congruence.
    assert (contrib ty q g <= map_fold (fun _ g acc => contrib ty q g + acc) 0 m).
    { apply (IH c g); [|exact Hc]. intros c' g' H'. apply (Hpos c'). rewrite lookup_insert_ne; [exact H'|]. intros ->. rewrite Hk in H'. discriminate. }
    lia.
Qed.

Lemma ledger_nonneg ty q (m : gmap nat grant) :
  (forall c g, m !! c = Some g -> 0 <= g_portion g) -> 0 <= ledger ty q m.
Proof.
  unfold ledger. induction m as [|k x m Hk IH] using map_ind; intros Hpos; [rewrite map_fold_empty; lia|].
  rewrite (map_fold_insert_L (fun _ g acc => contrib ty q g + acc)); [|intros; lia|exact Hk].
  assert (0 <= contrib ty q x). { unfold contrib. destruct (_ && _); [|lia]. apply (Hpos k). apply lookup_insert. }
  assert (0 <= map_fold (fun _ g acc => contrib ty q g + acc) 0 m).
  { apply IH. intros c' g' H'. apply (Hpos c'). rewrite lookup_insert_ne; [exact H'|]. intros ->. rewrite Hk in H'. discriminate. }
  lia.
Qed.

(* a sum of non-negative terms is at least any one of them *)
Lemma granted_sub_ge_self (g : nat -> Z) q : (q < length t)%nat -> (forall d, 0 <= g d) -> g q <= granted_sub t g q.
Proof.
  intros Hq Hpos. unfold granted_sub, pools.
  assert (Hin : In q (seq 0 (length t))) by (apply in_seq; lia).
  revert Hin. generalize (seq 0 (length t)). induction l as [|x l IH]; [intros []|].
  assert (Hl : 0 <= fold_right Z.add 0 (map (fun d : nat => if anc t q d then g d else 0) l)).
  { clear IH. induction l as [|y l IHl]; cbn [map fold_right]; [lia|]. destruct (anc t q y); [specialize (Hpos y)|]; lia. }
  intros [->|Hin]; cbn [map fold_right].
  - rewrite (anc_refl t q). lia.
  - specialize (IH Hin). destruct (anc t q x); [specialize (Hpos x)|]; lia.
Qed.

Theorem told_nonempty os s cid g :
  tree_wfb2 t = true -> run_g t (init t) os = Ok s ->
  grants s !! cid = Some g -> g_type g = CpuNormal -> (g_pool g < length t)%nat ->
  g_excl g <> ∅ \/ 0 < g_portion g -> told_cpus t s g <> ∅.
Proof.
  intros Hwf Hrun Hg Hty Hp Hor. unfold told_cpus. rewrite Hty.
  destruct (bool_decide (g_excl g = ∅)) eqn:He.
  - apply bool_decide_eq_true in He. destruct Hor as [Hx|Hpor]; [contradiction|].
    destruct (reachable_cap t os (init t) s (tree_wfb2_sound t Hwf) (J_init t) Hrun) as (_ & HC & HP).
    pose proof (reachable_ledger t os (init t) s (LInv_init t) (run_g_run t os _ _ Hrun)) as HL.
    specialize (HC (g_pool g) Hp).
    assert (Hge : g_portion g <= gr_shared s (g_pool g)).
    { destruct (HL (g_pool g)) as [-> _].
      pose proof (ledger_ge_member CpuNormal (g_pool g) (grants s) cid g HP Hg) as H.
      unfold contrib in H. rewrite Nat.eqb_refl, Hty in H. cbn in H. exact H. }
    assert (Hsub : gr_shared s (g_pool g) <= granted_sub t (gr_shared s) (g_pool g)).
    { apply granted_sub_ge_self; [exact Hp|]. intros d. destruct (HL d) as [-> _]. apply ledger_nonneg. exact HP. }
    intros Hempty. rewrite Hempty in HC. unfold csize in HC. rewrite size_empty in HC. lia.
  - apply bool_decide_eq_false in He. destruct (0 <? g_portion g); set_solver.
Qed.

(* ... and, since allocation and reinstatement carry the tests themselves, for every history *)
Theorem told_nonempty_all os s cid g :
  tree_wfb2 t = true -> forallb nonneg_reserve os = true -> run t (init t) os = Ok s ->
  grants s !! cid = Some g -> g_type g = CpuNormal -> (g_pool g < length t)%nat ->
  g_excl g <> ∅ \/ 0 < g_portion g -> told_cpus t s g <> ∅.
Proof.
  intros Hwf Hnr Hrun. apply (told_nonempty os s cid g Hwf).
  exact (run_all_guarded t os (init t) s (tree_wfb2_sound t Hwf) (J_init t) Hnr Hrun).
Qed.

End ne.

(* K10: the zero-request case is false of the faithful model.  Reinstatement: a grant that takes the last sharable
   CPUs of its pool is refused only when a container running on them was reinstated BEFORE it (the order is that of a
   Go map); reinstated after it, a BestEffort container is told an empty cpuset. *)
Definition k10_tree : tree := [ {| p_parent := None; p_iso := ∅; p_res := ∅; p_shar := list_to_set [4%nat; 5%nat] |} ].
Definition k10_g1 : grant := {| g_pool := 0; g_excl := list_to_set [4%nat; 5%nat]; g_type := CpuNormal; g_portion := 0 |}.
Definition k10_g6 : grant := {| g_pool := 0; g_excl := ∅; g_type := CpuNormal; g_portion := 0 |}.
Definition k10_ops : list op := [ OReserve 1 k10_g1; OReserve 6 k10_g6 ].
Lemma k10_reserve_order :
  run k10_tree (init k10_tree) [ OReserve 6 k10_g6; OReserve 1 k10_g1 ] = Err (ErrGuard 13) /\
  match run k10_tree (init k10_tree) k10_ops with
  | Ok s => bool_decide (told_cpus k10_tree s k10_g6 = ∅) = true
  | Err _ => False end.
Proof. vm_compute. split; reflexivity. Qed.

(* Allocation: AllocateCPU tests nothing for a request without CPUs.  A child pool {4,5} under a root {4,5,6}: a 2-CPU
   container takes 4,5 at the root while the child is empty, then a BestEffort container is placed in the child
   (by the pool hint of a fallback re-allocation, or because no pool has capacity left). *)
Definition k10a_tree : tree :=
  [ {| p_parent := Some 1%nat; p_iso := ∅; p_res := ∅; p_shar := list_to_set [4%nat; 5%nat] |};
    {| p_parent := None; p_iso := ∅; p_res := ∅; p_shar := list_to_set [4%nat; 5%nat; 6%nat] |} ].
Definition k10a_ops : list op :=
  [ OAlloc 1 {| r_full := 2; r_fraction := 0; r_isolate := false; r_type := CpuNormal |} 1 (list_to_set [4%nat; 5%nat]);
    OAlloc 6 {| r_full := 0; r_fraction := 0; r_isolate := false; r_type := CpuNormal |} 0 ∅ ].
Lemma nonempty_refuted :
  tree_wfb2 k10a_tree = true /\ forallb nonneg_reserve k10a_ops = true /\
  match run k10a_tree (init k10a_tree) k10a_ops with
  | Ok s => bool_decide (told_cpus k10a_tree s {| g_pool := 0; g_excl := ∅; g_type := CpuNormal; g_portion := 0 |} = ∅) = true
  | Err _ => False end.
Proof. vm_compute. repeat split; reflexivity. Qed.
