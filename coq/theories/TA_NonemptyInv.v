(* C03, consequence clause "every CPU-pinned container always has a non-empty allowed CPU set": what can be proved
   for zero-request containers too.  K10 is a matter of PLACEMENT only: a container that is placed (allocated or
   reinstated) into a pool that has a sharable CPU for it at that moment is never starved afterwards -- no later
   allocation, release or reinstatement of any container takes the last sharable CPU of a pool in which a container
   runs on the shared CPUs.  This is what the tests added by the repairs of K2 (neededSharableCPUs: "at least one if a
   container runs on the pool's shared CPUs"; shortWithout over all pools) buy. *)
From Coq Require Import ZArith List Lia Bool.
From stdpp Require Import gmap sets.
From NV Require Import C20_Model TA_Model TA_Proofs TA_Capacity TA_Cap2 TA_Nonempty.
Open Scope Z_scope.

Section nei.
Context (t : tree).

(* every container that runs on the shared CPUs of its pool has at least one *)
Definition NE (s : st) : Prop :=
  forall c g, grants s !! c = Some g -> shared_user g = true -> (g_pool g < length t)%nat -> free_shar s (g_pool g) <> ∅.

(* the placement guard, judged on the state right after the placement of [cid] *)
Definition placed_okb (s' : st) (cid : nat) : bool :=
  match grants s' !! cid with
  | Some g => negb (shared_user g) || negb (bool_decide (free_shar s' (g_pool g) = ∅))
  | None => true
  end.
Definition placed_guard (s' : st) (o : op) : bool :=
  match o with OAlloc cid _ _ _ | OReserve cid _ => placed_okb s' cid | _ => true end.

Fixpoint run_p (s : st) (os : list op) : res st :=
  match os with
  | [] => Ok s
  | o :: os' => match step t s o with
                | Ok s' => if placed_guard s' o then run_p s' os' else Err (ErrGuard 15)
                | Err e => Err e
                end
  end.

Lemma run_p_run os : forall s s', run_p s os = Ok s' -> run t s os = Ok s'.
Proof.
  induction os as [|o os IH]; intros s s'; cbn [run_p run]; [auto|].
  destruct (step t s o) as [s1|e]; [|discriminate]. destruct (placed_guard s1 o); [apply IH|discriminate].
Qed.

Lemma csize_pos (A : cset) : A <> ∅ -> 1 <= csize A.
Proof.
  intros H. unfold csize. destruct (size A) eqn:E; [|lia].
  exfalso. apply H. apply size_empty_inv in E. apply leibniz_equiv. exact E.
Qed.
Lemma csize_pos_inv (A : cset) : 1 <= csize A -> A <> ∅.
Proof. intros H HA. rewrite HA in H. unfold csize in H. rewrite size_empty in H. lia. Qed.

Lemma has_shared_user_intro s c g : grants s !! c = Some g -> shared_user g = true -> has_shared_user s (g_pool g) = true.
Proof.
  intros Hc Hsu. unfold has_shared_user. apply existsb_exists. exists (c, g). split.
  - apply elem_of_list_In. apply elem_of_map_to_list. exact Hc.
  - cbn [snd]. rewrite Nat.eqb_refl, Hsu. reflexivity.
Qed.

(* what the tests of the code guarantee to a pool with a container on its shared CPUs *)
Lemma spare_keeps s d (X : cset) :
  has_shared_user s d = true -> free_shar s d <> ∅ ->
  Z.min (need_of t s d) (csize (free_shar s d)) <= csize (free_shar s d ∖ X) -> free_shar s d ∖ X <> ∅.
Proof.
  intros Hu Hne H. apply csize_pos_inv. pose proof (csize_pos _ Hne) as Hp. unfold need_of in H. rewrite Hu in H.
  remember ((granted_sub t (gr_shared s) d + 999) / 1000) as q. lia.
Qed.

Lemma ta_alloc_cases s cid r p X s' : ta_alloc t s cid r p X = Ok s' ->
  X = ∅ \/ X ⊆ free_iso s p \/ (1000 * csize X < alloc_shared t s p /\ spare_okb t s p X = true).
Proof.
  unfold ta_alloc. set (full := eff_full r). set (frac := eff_frac r).
  destruct (0 <? full) eqn:Hfull.
  - destruct ((full <=? csize (free_iso s p)) && r_isolate r) eqn:Hiso.
    + destruct (subseteqb X (free_iso s p) && (csize X =? full)) eqn:HX; [|discriminate].
      apply andb_true_iff in HX as [HX _]. apply subseteqb_true in HX. intros _. right. left. exact HX.
    + destruct (1000 * full <? alloc_shared t s p) eqn:Hc; [|discriminate].
      destruct (subseteqb X (free_shar s p) && (csize X =? full)) eqn:HX; [|discriminate].
      destruct (spare_okb t s p X) eqn:HDS; [|discriminate]. intros _.
      apply andb_true_iff in HX as [_ HX]. apply Z.eqb_eq in HX. apply Z.ltb_lt in Hc. right. right. split; [lia|reflexivity].
  - destruct (bool_decide (X = ∅)) eqn:HX; [|discriminate]. apply bool_decide_eq_true in HX. intros _. left. exact HX.
Qed.

Lemma ta_reserve_cases s cid g s' : ta_reserve t s cid g = Ok s' ->
  g_excl g = ∅ \/ spare_allb t s (g_pool g) (g_excl g) = true.
Proof.
  unfold ta_reserve. destruct (g_type g).
  - destruct (negb _); [discriminate|]. destruct (negb _); [discriminate|]. destruct (_ <? _); [discriminate|].
    destruct (negb (spare_allb t s (g_pool g) (g_excl g))) eqn:Hsp; [discriminate|]. intros _. right.
    apply negb_false_iff in Hsp. exact Hsp.
  - destruct (negb (bool_decide (g_excl g = ∅))) eqn:H1; [discriminate|]. intros _. left.
    apply negb_false_iff, bool_decide_eq_true in H1. exact H1.
  - destruct (negb (bool_decide (g_excl g = ∅))) eqn:H1; [discriminate|]. intros _. left.
    apply negb_false_iff, bool_decide_eq_true in H1. exact H1.
Qed.

Lemma gr_shared_nonneg s : LInv s -> PosInv s -> forall d, 0 <= gr_shared s d.
Proof. intros HL HP d. destruct (HL d) as [-> _]. apply ledger_nonneg. exact HP. Qed.

Lemma NE_alloc s cid r p X s' :
  tree_wf2 t -> J t s -> LInv s -> NE s -> (p < length t)%nat ->
  ta_alloc t s cid r p X = Ok s' -> placed_okb s' cid = true -> NE s'.
Proof.
  intros Hwf (HI & HC & HP) HL HNE Hp Hs Hpl.
  destruct (ta_alloc_cap t s cid r p X s' Hwf HI HC Hp Hs) as [Hfs _].
  destruct (ta_alloc_shape t s cid r p X s' Hs) as (g0 & Hg0p & _ & _ & _ & Hgr).
  pose proof (ta_alloc_cases s cid r p X s' Hs) as Hcases.
  intros c g Hc Hsu Hlt.
  rewrite Hgr in Hc. destruct (decide (c = cid)) as [->|Hn].
  - rewrite lookup_insert in Hc. injection Hc as ->.
    unfold placed_okb in Hpl. rewrite Hgr, lookup_insert, Hsu in Hpl. cbn [negb orb] in Hpl.
    apply negb_true_iff, bool_decide_eq_false in Hpl. exact Hpl.
  - rewrite lookup_insert_ne in Hc by congruence.
    pose proof (HNE c g Hc Hsu Hlt) as Hne.
    rewrite Hfs. cbn [free_shar account_alloc].
    destruct (related t p (g_pool g)) eqn:Hrel; [|exact Hne].
    destruct Hcases as [HX|[Hiso|[Hcap Hsp]]].
    + rewrite HX, difference_empty_L. exact Hne.
    + rewrite (iso_part_harmless t s p (g_pool g) X Hwf HI Hiso). exact Hne.
    + unfold related in Hrel. destruct (anc t (g_pool g) p) eqn:Hup.
      * (* the pool itself or one above it: the strict capacity test leaves a CPU *)
        pose proof (alloc_shared_le t s p (g_pool g) Hup Hlt) as Hle. unfold free_shared_at in Hle.
        pose proof (gr_shared_nonneg s HL HP) as Hg0.
        pose proof (granted_sub_ge_self t (gr_shared s) (g_pool g) Hlt Hg0) as Hge. specialize (Hg0 (g_pool g)).
        apply csize_pos_inv. pose proof (csize_difference_ge (free_shar s (g_pool g)) X). lia.
      * (* a pool below: the CPUs it needs are withheld from the slice *)
        rewrite orb_false_r in Hrel.
        unfold spare_okb in Hsp. rewrite forallb_forall in Hsp.
        specialize (Hsp (g_pool g) (proj2 (in_pools_iff t _) Hlt)).
        rewrite Hrel in Hsp. cbn [negb orb] in Hsp.
        destruct (Nat.eqb (g_pool g) p) eqn:E.
        { apply Nat.eqb_eq in E. rewrite E, anc_refl in Hup. discriminate. }
        cbn [orb] in Hsp. apply Z.leb_le in Hsp.
        exact (spare_keeps s (g_pool g) X (has_shared_user_intro s c g Hc Hsu) Hne Hsp).
Qed.

Lemma NE_release s cid : NE s -> NE (ta_release t s cid).
Proof.
  intros HNE. unfold ta_release. destruct (grants s !! cid) as [g0|] eqn:Hg0; [|exact HNE].
  intros c g Hc Hsu Hlt.
  assert (Hold : grants s !! c = Some g).
  { destruct (g_type g0); cbn [grants set_grants add_shared add_reserved account_release] in Hc;
      (destruct (decide (c = cid)) as [->|Hn]; [rewrite lookup_delete in Hc; discriminate|rewrite lookup_delete_ne in Hc by congruence; exact Hc]). }
  pose proof (HNE c g Hold Hsu Hlt) as Hne.
  assert (Hsub : free_shar s (g_pool g) ⊆ free_shar (account_release t s (g_pool g0) (g_excl g0)) (g_pool g)).
  { cbn [free_shar account_release]. destruct (Nat.eqb (g_pool g) (g_pool g0)); [set_solver|].
    destruct (related t (g_pool g0) (g_pool g)); set_solver. }
  destruct (g_type g0); cbn [free_shar set_grants add_shared add_reserved]; set_solver.
Qed.

Lemma NE_reserve s cid g s' :
  tree_wf2 t -> J t s -> NE s -> (g_pool g < length t)%nat -> 0 <= g_portion g ->
  ta_reserve t s cid g = Ok s' -> placed_okb s' cid = true -> NE s'.
Proof.
  intros Hwf (HI & HC & HP) HNE Hp Hpos Hs Hpl.
  destruct (ta_reserve_cap t s cid g s' Hwf HI HC Hp Hpos Hs) as [Hfs _].
  destruct (ta_reserve_shape t s cid g s' Hs) as (g0 & _ & _ & _ & _ & Hgr).
  pose proof (ta_reserve_cases s cid g s' Hs) as Hcases.
  intros c g1 Hc Hsu Hlt.
  rewrite Hgr in Hc. destruct (decide (c = cid)) as [->|Hn].
  - rewrite lookup_insert in Hc. injection Hc as ->.
    unfold placed_okb in Hpl. rewrite Hgr, lookup_insert, Hsu in Hpl. cbn [negb orb] in Hpl.
    apply negb_true_iff, bool_decide_eq_false in Hpl. exact Hpl.
  - rewrite lookup_insert_ne in Hc by congruence.
    pose proof (HNE c g1 Hc Hsu Hlt) as Hne.
    rewrite Hfs. cbn [free_shar account_alloc].
    destruct (related t (g_pool g) (g_pool g1)); [|exact Hne].
    destruct Hcases as [HX|Hsp].
    + rewrite HX, difference_empty_L. exact Hne.
    + unfold spare_allb in Hsp. rewrite forallb_forall in Hsp.
      specialize (Hsp (g_pool g1) (proj2 (in_pools_iff t _) Hlt)). apply Z.leb_le in Hsp.
      exact (spare_keeps s (g_pool g1) (g_excl g) (has_shared_user_intro s c g1 Hc Hsu) Hne Hsp).
Qed.

Lemma NE_init : NE (init t).
Proof. intros c g H. unfold init in H. cbn [grants] in H. rewrite lookup_empty in H. discriminate. Qed.

(* one step keeps all the invariants the argument needs *)
Lemma step_J_all s o s1 : tree_wf2 t -> J t s -> nonneg_reserve o = true -> step t s o = Ok s1 -> J t s1.
Proof.
  intros Hwf HJ Ho Hs. apply (step_J t s o s1 Hwf HJ); [|exact Hs].
  destruct HJ as (HI & HC & _). destruct o as [cid r p X|cid|cid|cid g|]; cbn [op_guard]; try reflexivity.
  - cbn [step] in Hs. destruct (grants s !! cid); [discriminate|]. destruct (p <? length t)%nat; [|discriminate].
    exact (ta_alloc_guard t s cid r p X s1 Hwf HI HC Hs).
  - cbn [step] in Hs. destruct (grants s !! cid); [discriminate|]. destruct (g_pool g <? length t)%nat; [|discriminate].
    rewrite (ta_reserve_guard t s cid g s1 Hwf HI HC Hs). cbn [nonneg_reserve] in Ho. rewrite Ho. reflexivity.
Qed.

Lemma step_NE s o s1 : tree_wf2 t -> J t s -> LInv s -> NE s -> nonneg_reserve o = true ->
  step t s o = Ok s1 -> placed_guard s1 o = true -> NE s1.
Proof.
  intros Hwf HJ HL HNE Ho Hs Hpl. destruct o as [cid r p X|cid|cid|cid g|]; cbn [step placed_guard] in *.
  - destruct (grants s !! cid); [discriminate|]. destruct (p <? length t)%nat eqn:Hp; [|discriminate].
    apply Nat.ltb_lt in Hp. exact (NE_alloc s cid r p X s1 Hwf HJ HL HNE Hp Hs Hpl).
  - injection Hs as <-. exact HNE.
  - injection Hs as <-. apply NE_release. exact HNE.
  - destruct (grants s !! cid); [discriminate|]. destruct (g_pool g <? length t)%nat eqn:Hp; [|discriminate].
    apply Nat.ltb_lt in Hp. cbn [nonneg_reserve] in Ho. apply Z.leb_le in Ho.
    exact (NE_reserve s cid g s1 Hwf HJ HNE Hp Ho Hs Hpl).
  - injection Hs as <-. apply NE_init.
Qed.

Theorem NE_reachable os : forall s s', tree_wf2 t -> J t s -> LInv s -> NE s -> forallb nonneg_reserve os = true ->
  run_p s os = Ok s' -> NE s'.
Proof.
  induction os as [|o os IH]; intros s s' Hwf HJ HL HNE Hall; cbn [run_p].
  - intros [= <-]. exact HNE.
  - cbn [forallb] in Hall. apply andb_true_iff in Hall as [Ho Hos].
    destruct (step t s o) as [s1|e] eqn:Hs; [|discriminate].
    destruct (placed_guard s1 o) eqn:Hpl; [|discriminate]. intros H.
    exact (IH s1 s' Hwf (step_J_all s o s1 Hwf HJ Ho Hs) (step_ledger t s o s1 HL Hs)
              (step_NE s o s1 Hwf HJ HL HNE Ho Hs Hpl) Hos H).
Qed.

(* every container of the normal class, zero-request ones included *)
Theorem told_nonempty_placed os s cid g :
  tree_wfb2 t = true -> forallb nonneg_reserve os = true -> run_p (init t) os = Ok s ->
  grants s !! cid = Some g -> g_type g = CpuNormal -> (g_pool g < length t)%nat -> told_cpus t s g <> ∅.
Proof.
  intros Hwf Hnr Hrun Hg Hty Hp.
  pose proof (NE_reachable os (init t) s (tree_wfb2_sound t Hwf) (J_init t) (LInv_init t) NE_init Hnr Hrun) as HNE.
  unfold told_cpus. rewrite Hty. destruct (bool_decide (g_excl g = ∅)) eqn:He.
  - apply (HNE cid g Hg); [|exact Hp]. unfold shared_user. rewrite Hty, He. reflexivity.
  - apply bool_decide_eq_false in He. destruct (0 <? g_portion g); set_solver.
Qed.

End nei.

(* the guard is exactly what the K10 witnesses fail: both are refused at the placement of the zero-request container *)
Lemma k10_fail_placement :
  run_p k10a_tree (init k10a_tree) k10a_ops = Err (ErrGuard 15) /\
  run_p k10_tree (init k10_tree) k10_ops = Err (ErrGuard 15).
Proof. vm_compute. split; reflexivity. Qed.

(* ... and it is satisfiable by histories that do everything: the example history of TA_Proofs passes it *)
Lemma placement_guard_satisfiable :
  match run_p ex_tree (init ex_tree) ex_ops with Ok s => negb (Nat.eqb (size (grants s)) 0) = true | Err _ => False end.
Proof. vm_compute. reflexivity. Qed.
