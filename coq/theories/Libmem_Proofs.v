(* libmem: invariants of sequences of move steps, and what they give for allocate / realloc /
   get_offer / commit / release.  Everything is parametric in the node set and in the zone
   expansion function [ex]. *)
From Coq Require Import ZArith NArith List Bool Lia Permutation.
From NV Require Import Gen.Gen_LibmemConsts Gen.Gen_LibmemTabs Libmem_Model Libmem_Basics Libmem_Steps.
Import ListNotations.
Open Scope Z_scope.

(* ------------------------------------------------------------------ masks *)

Lemma msub_spec a b : msub a b = true <-> forall i, N.testbit a i = true -> N.testbit b i = true.
Proof.
  unfold msub. rewrite N.eqb_eq. split.
  - intros H i Ha. rewrite <- H in Ha. rewrite N.land_spec in Ha. apply andb_true_iff in Ha. tauto.
  - intros H. apply N.bits_inj. intros i. rewrite N.land_spec.
    destruct (N.testbit a i) eqn:E; [|reflexivity]. rewrite (H i E). reflexivity.
Qed.

Lemma msub_refl a : msub a a = true.
Proof. apply msub_spec. auto. Qed.

Lemma msub_trans a b c : msub a b = true -> msub b c = true -> msub a c = true.
Proof. rewrite !msub_spec. auto. Qed.

Lemma msub_lor_l a b : msub a (N.lor a b) = true.
Proof. apply msub_spec. intros i H. rewrite N.lor_spec, H. reflexivity. Qed.

Lemma msub_lor_r a b : msub b (N.lor a b) = true.
Proof. apply msub_spec. intros i H. rewrite N.lor_spec, H. apply orb_true_r. Qed.

Lemma msub_lor a b c : msub a c = true -> msub b c = true -> msub (N.lor a b) c = true.
Proof.
  rewrite !msub_spec. intros H1 H2 i H. rewrite N.lor_spec in H. apply orb_true_iff in H as [H|H]; auto.
Qed.

Lemma msub_antisym a b : msub a b = true -> msub b a = true -> a = b.
Proof.
  rewrite !msub_spec. intros H1 H2. apply N.bits_inj. intros i.
  destruct (N.testbit a i) eqn:Ea, (N.testbit b i) eqn:Eb; try reflexivity.
  - rewrite (H1 i Ea) in Eb. discriminate.
  - rewrite (H2 i Eb) in Ea. discriminate.
Qed.

Lemma mnz_land_mono a b c : msub a b = true -> mnz (N.land a c) = true -> mnz (N.land b c) = true.
Proof.
  unfold mnz. rewrite !negb_true_iff, !N.eqb_neq. intros H Ha Hb. apply Ha.
  apply N.bits_inj. intros i. rewrite N.bits_0, N.land_spec.
  destruct (N.testbit a i) eqn:E; [|reflexivity].
  rewrite msub_spec in H. specialize (H i E).
  assert (N.testbit (N.land b c) i = false) as X by (rewrite Hb; apply N.bits_0).
  rewrite N.land_spec, H in X. exact X.
Qed.

Lemma mnz_true a : mnz a = true <-> a <> 0%N.
Proof. unfold mnz. rewrite negb_true_iff, N.eqb_neq. reflexivity. Qed.

Lemma allowed_prios_le p : In p allowed_prios -> p <= LM_Preserved.
Proof.
  assert (forallb (fun p => p <=? LM_Preserved) allowed_prios = true) as H by (vm_compute; reflexivity).
  rewrite forallb_forall in H. intros Hp. apply Z.leb_le. apply H. exact Hp.
Qed.

Lemma preserved_lt_reservation : LM_Preserved < LM_Reservation.
Proof. vm_compute. reflexivity. Qed.

Section Proofs.
Context (ns : list node) (ex : N -> N -> N * N).

Notation mstep := (mstep ns ex).
Notation msteps := (msteps ns ex).

Lemma msteps_ind' nodes (P : ost -> Prop) :
  (forall st st', P st -> mstep nodes st st' -> P st') ->
  forall st st', msteps nodes st st' -> P st -> P st'.
Proof.
  intros Hs st st' M. induction M as [|a b c H1 H2 IH]; [auto|].
  intros Pa. apply IH. eapply Hs; eauto.
Qed.

(* ------------------------------------------------------------------ P1: pointwise moves *)

(* r' is r moved to a superset; it moved only if its priority is at most Preserved *)
Definition mv (r r' : req) : Prop :=
  r' = set_zone (r_zone r') r /\ msub (r_zone r) (r_zone r') = true /\
  (r_zone r' <> r_zone r -> r_prio r <= LM_Preserved).

Definition lmoves (l l' : list req) : Prop := Forall2 mv l l'.

Lemma mv_refl r : mv r r.
Proof.
  unfold mv. split; [symmetry; apply set_zone_same|]. split; [apply msub_refl|]. intros H. congruence.
Qed.

Lemma lmoves_refl l : lmoves l l.
Proof. unfold lmoves. induction l; constructor; [apply mv_refl|assumption]. Qed.

Lemma mv_trans a b c : mv a b -> mv b c -> mv a c.
Proof.
  unfold mv. intros [E1 [S1 P1]] [E2 [S2 P2]]. split; [|split].
  - rewrite E2. rewrite E1. reflexivity.
  - eapply msub_trans; eauto.
  - intros Hne. destruct (N.eq_dec (r_zone b) (r_zone a)) as [E|E].
    + rewrite E1 in P2. cbn [set_zone r_prio] in P2. apply P2. congruence.
    + apply P1. exact E.
Qed.

Lemma lmoves_trans l1 l2 l3 : lmoves l1 l2 -> lmoves l2 l3 -> lmoves l1 l3.
Proof.
  unfold lmoves. intros H. revert l3. induction H as [|a b l1 l2 Hab H IH]; intros l3 H3.
  - inversion H3. constructor.
  - inversion H3 as [|? c ? l3' Hbc H3']; subst. constructor; [eapply mv_trans; eauto|]. apply IH. exact H3'.
Qed.

Lemma lmoves_ids l l' : lmoves l l' -> map r_id l' = map r_id l.
Proof.
  unfold lmoves. induction 1 as [|a b l l' [E _] H IH]; [reflexivity|].
  cbn [map]. rewrite IH. rewrite E. reflexivity.
Qed.

(* moving the request [id] (currently at z, of movable priority) to a superset of z *)
Lemma lmoves_move l id z t : ids_nodup l ->
  (forall r, In r l -> r_id r = id -> r_zone r = z /\ r_prio r <= LM_Preserved) ->
  msub z t = true -> lmoves l (move_req id t l).
Proof.
  unfold lmoves, move_req. intros _ H Hs. induction l as [|a l IH]; [constructor|].
  cbn [map]. constructor.
  - destruct (r_id a =? id)%N eqn:E; [|apply mv_refl].
    apply N.eqb_eq in E. destruct (H a (or_introl eq_refl) E) as [Hz Hp].
    unfold mv. cbn [set_zone r_zone]. split; [reflexivity|]. split; [rewrite Hz; exact Hs|]. intros _. exact Hp.
  - apply IH. intros r Hr. apply H. right. exact Hr.
Qed.

Definition P1 (l0 : list req) (st : ost) : Prop := ids_nodup (o_live st) /\ lmoves l0 (o_live st).

Lemma P1_step nodes l0 st st' : P1 l0 st -> mstep nodes st st' -> P1 l0 st'.
Proof.
  intros [ND L] H. destruct H as [st z extra limit r Hf Hz Hzk Hn Hnz Hlim Hp Hs|st f o]; [|exact (conj ND L)].
  rewrite (zone_move_found _ _ _ _ Hf). destruct (r_zone r =? _)%N; [exact (conj ND L)|].
  unfold P1. cbn [o_live]. split.
  - unfold ids_nodup. rewrite move_req_ids. exact ND.
  - eapply lmoves_trans; [exact L|]. apply lmoves_move with (z := z); [exact ND| |apply msub_lor_l].
    intros q Hq Eq. assert (q = r) as ->.
    { pose proof (find_req_in _ ND q Hq) as X. rewrite Eq in X. congruence. }
    split; [exact Hz|]. pose proof (allowed_prios_le _ Hlim). lia.
Qed.

Lemma P1_msteps nodes l0 st st' : msteps nodes st st' -> P1 l0 st -> P1 l0 st'.
Proof. apply msteps_ind'. intros a b. apply P1_step. Qed.

(* consequences of lmoves for a single id *)
Lemma lmoves_find l l' id r : lmoves l l' -> find_req id l = Some r ->
  exists r', find_req id l' = Some r' /\ mv r r'.
Proof.
  unfold lmoves, find_req. induction 1 as [|a b l l' Hab H IH]; [discriminate|].
  cbn [find]. destruct Hab as [E Hrest]. assert (r_id b = r_id a) as Eid by (rewrite E; reflexivity).
  rewrite Eid. destruct (r_id a =? id)%N.
  - intros X. injection X as <-. exists b. split; [reflexivity|]. exact (conj E Hrest).
  - exact IH.
Qed.

Lemma lmoves_find_none l l' id : lmoves l l' -> find_req id l = None -> find_req id l' = None.
Proof.
  unfold lmoves, find_req. induction 1 as [|a b l l' Hab H IH]; [reflexivity|].
  cbn [find]. destruct Hab as [E Hrest]. assert (r_id b = r_id a) as Eid by (rewrite E; reflexivity).
  rewrite Eid. destruct (r_id a =? id)%N; [discriminate|exact IH].
Qed.

Lemma lmoves_in_r l l' r' : lmoves l l' -> In r' l' -> exists r, In r l /\ mv r r'.
Proof.
  unfold lmoves. induction 1 as [|a b l l' Hab H IH]; [intros []|].
  intros [<-|Hin]; [exists a; split; [left; reflexivity|exact Hab]|].
  destruct (IH Hin) as [r [Hr Hm]]. exists r. split; [right; exact Hr|exact Hm].
Qed.

Lemma lmoves_in_l l l' r : lmoves l l' -> In r l -> exists r', In r' l' /\ mv r r'.
Proof.
  unfold lmoves. induction 1 as [|a b l l' Hab H IH]; [intros []|].
  intros [<-|Hin]; [exists b; split; [left; reflexivity|exact Hab]|].
  destruct (IH Hin) as [r' [Hr Hm]]. exists r'. split; [right; exact Hr|exact Hm].
Qed.

(* ------------------------------------------------------------------ usage never grows under moves *)

Definition sizes_nonneg (l : list req) : Prop := forall r, In r l -> 0 <= r_size r.

Lemma usage_lmoves l l' z : lmoves l l' -> sizes_nonneg l -> usage l' z <= usage l z.
Proof.
  unfold lmoves, usage. induction 1 as [|a b l l' Hab H IH]; intros Hs; [cbn; lia|].
  cbn [fold_right]. assert (sizes_nonneg l) as Hs' by (intros r Hr; apply Hs; right; exact Hr).
  specialize (IH Hs'). pose proof (Hs a (or_introl eq_refl)) as Ha.
  destruct Hab as [E [S _]]. assert (r_size b = r_size a) as Es by (rewrite E; reflexivity).
  rewrite Es. destruct (msub (r_zone b) z) eqn:Eb.
  - rewrite (msub_trans _ _ _ S Eb). lia.
  - destruct (msub (r_zone a) z); lia.
Qed.

Lemma lmoves_sizes l l' : lmoves l l' -> sizes_nonneg l -> sizes_nonneg l'.
Proof.
  intros L Hs r' Hr'. destruct (lmoves_in_r _ _ _ L Hr') as [r [Hr [E _]]].
  rewrite E. cbn [set_zone r_size]. apply Hs. exact Hr.
Qed.

(* ------------------------------------------------------------------ P3: the key set *)

(* keys are sorted, cover the zones in use, and every key created since [zk0] meets [nodes] *)
Definition P3 (nodes : N) (zk0 : list N) (st : ost) : Prop :=
  zk_sorted (o_zk st) /\
  (forall r, In r (o_live st) -> In (r_zone r) (o_zk st)) /\
  (forall x, In x zk0 -> In x (o_zk st)) /\
  (forall x, In x (o_zk st) -> In x zk0 \/ mnz (N.land x nodes) = true).

Lemma P3_step nodes zk0 st st' : nodes <> 0%N -> P3 nodes zk0 st -> mstep nodes st st' -> P3 nodes zk0 st'.
Proof.
  intros Hnodes [S [C [I O]]] H.
  destruct H as [st z extra limit r Hf Hz Hzk Hn Hnz Hlim Hp Hs|st f o]; [|exact (conj S (conj C (conj I O)))].
  rewrite (zone_move_found _ _ _ _ Hf). destruct (r_zone r =? _)%N eqn:Ez; [exact (conj S (conj C (conj I O)))|].
  unfold P3. cbn [o_live o_zk]. split; [apply zk_add_sorted; exact S|]. split; [|split].
  - intros q Hq. unfold move_req in Hq. apply in_map_iff in Hq as [q0 [E Hq0]].
    apply zk_add_in. destruct (r_id q0 =? r_id r)%N; subst q.
    + left. reflexivity.
    + right. apply C. exact Hq0.
  - intros x Hx. apply zk_add_in. right. apply I. exact Hx.
  - intros x Hx. apply zk_add_in in Hx as [->|Hx]; [|apply O; exact Hx].
    right. destruct Hn as [Hn|Hn]; [contradiction|].
    eapply mnz_land_mono; [apply msub_lor_l|exact Hn].
Qed.

Lemma P3_msteps nodes zk0 st st' : nodes <> 0%N -> msteps nodes st st' -> P3 nodes zk0 st -> P3 nodes zk0 st'.
Proof. intros Hn. apply msteps_ind'. intros a b. apply P3_step. exact Hn. Qed.

(* ------------------------------------------------------------------ P2: the journal *)

(* For every id: not in reverts -> not in updates and still at its zone of journal start;
   in reverts with zr -> updates holds its current zone, zr is its zone at journal start (0 if it
   was not assigned), and it sits in a strict superset of zr *)
Definition jinv (l_start : list req) (st : ost) : Prop :=
  NoDup (keys (o_upd st)) /\ NoDup (keys (o_rev st)) /\
  forall id,
    match al_get id (o_rev st) with
    | None => al_get id (o_upd st) = None /\ zone_of id (o_live st) = zone_of id l_start
    | Some zr => al_get id (o_upd st) = Some (zone_of id (o_live st)) /\ zr = zone_of id l_start /\
                 msub zr (zone_of id (o_live st)) = true /\ zr <> zone_of id (o_live st) /\
                 is_live id (o_live st) = true
    end.

Lemma jinv_step nodes l_start st st' : jinv l_start st -> mstep nodes st st' -> jinv l_start st'.
Proof.
  intros [N1 [N2 J]] H.
  destruct H as [st z extra limit r Hf Hz Hzk Hn Hnz Hlim Hp Hs|st f o]; [|exact (conj N1 (conj N2 J))].
  rewrite (zone_move_found _ _ _ _ Hf). set (t := N.lor z (fst (expand_of ns ex z extra))).
  destruct (r_zone r =? t)%N eqn:Ez; [exact (conj N1 (conj N2 J))|]. apply N.eqb_neq in Ez.
  unfold jinv. cbn [o_live o_upd o_rev]. split; [apply al_set_keys_nodup; exact N1|]. split; [apply al_add_new_keys_nodup; exact N2|].
  intros id. destruct (N.eq_dec id (r_id r)) as [->|Hne].
  - rewrite al_get_add_new_same, al_get_set_same. rewrite (zone_of_move_same _ _ _ _ Hf).
    assert (is_live (r_id r) (move_req (r_id r) t (o_live st)) = true) as Hl.
    { rewrite is_live_find, (find_req_move_same _ _ _ _ Hf). reflexivity. }
    specialize (J (r_id r)). rewrite (zone_of_find _ _ _ Hf) in J. rewrite Hz in *.
    assert (msub z t = true) as Hzt by apply msub_lor_l.
    destruct (al_get (r_id r) (o_rev st)) as [zr|].
    + destruct J as [_ [E [S [Hne' _]]]]. split; [reflexivity|]. split; [exact E|]. split; [eapply msub_trans; eauto|].
      split; [|exact Hl]. intros ->. apply Hne'. apply msub_antisym; assumption.
    + destruct J as [_ E]. split; [reflexivity|]. split; [exact E|]. split; [exact Hzt|]. split; [exact Ez|exact Hl].
  - rewrite al_get_add_new_other, al_get_set_other by exact Hne. rewrite zone_of_move_other by exact Hne.
    specialize (J id). destruct (al_get id (o_rev st)) as [zr|]; [|exact J].
    destruct J as [A [B [C [D E]]]]. repeat split; try assumption.
    rewrite is_live_find, find_req_move_other by exact Hne. rewrite <- is_live_find. exact E.
Qed.

Lemma jinv_msteps nodes l_start st st' : msteps nodes st st' -> jinv l_start st -> jinv l_start st'.
Proof. apply msteps_ind'. intros a b. apply jinv_step. Qed.

(* ------------------------------------------------------------------ allocate: analysis of alloc_core *)

Lemma ensure_loop_normal fuel : forall zone types rtypes z t,
  ensure_loop ns ex fuel zone types rtypes = ENOk z t ->
  mnz (N.land z (m_normal ns)) = true /\ msub zone z = true.
Proof.
  induction fuel as [|fuel IH]; intros zone types rtypes z t; cbn [ensure_loop]; [discriminate|].
  destruct (fst (ex zone types) =? 0)%N; [discriminate|].
  destruct (mnz (N.land (N.lor zone (fst (ex zone types))) (m_normal ns))) eqn:E.
  - intros H. injection H as <- <-. split; [exact E|apply msub_lor_l].
  - intros H. apply IH in H as [H1 H2]. split; [exact H1|].
    eapply msub_trans; [apply msub_lor_l|exact H2].
Qed.

Lemma ensure_normal_normal zone rtypes strict z t :
  ensure_normal ns ex zone rtypes strict = ENOk z t -> mnz (N.land z (m_normal ns)) = true /\ msub zone z = true.
Proof.
  unfold ensure_normal. destruct (mnz (N.land zone (m_normal ns))) eqn:E.
  - intros H. injection H as <- <-. split; [exact E|apply msub_refl].
  - match goal with |- context [if (?x =? 0)%N then ENErr else _] => destruct (x =? 0)%N end; [discriminate|].
    apply ensure_loop_normal.
Qed.

Lemma mnz_land_nz a b : mnz (N.land a b) = true -> a <> 0%N.
Proof. rewrite mnz_true. intros H ->. apply H. apply N.land_0_l. Qed.

(* the state in which overcommit handling of an Allocate starts *)
Definition alloc_start (s : state) (r1 : req) : ost :=
  mkOst (live s ++ [r1]) (zk_add (r_zone r1) (zkeys s)) [(r_id r1, r_zone r1)] [(r_id r1, 0%N)] true false.

Inductive alloc_view (s : state) (r : req) : cres -> Prop :=
| av_early : alloc_view s r (CErr (live s) (zkeys s) false)
| av_ok r1 st :
    r_id r1 = r_id r -> r_size r1 = r_size r -> r_prio r1 = r_prio r -> r_strict r1 = r_strict r ->
    is_live (r_id r) (live s) = false ->
    mnz (N.land (r_zone r1) (m_normal ns)) = true ->
    msteps (r_zone r1) (alloc_start s r1) st -> resolved ns (r_zone r1) st ->
    alloc_view s r (COk st)
| av_fail r1 st :
    r_id r1 = r_id r -> is_live (r_id r) (live s) = false ->
    mnz (N.land (r_zone r1) (m_normal ns)) = true ->
    msteps (r_zone r1) (alloc_start s r1) st ->
    alloc_view s r (CErr (fst (revert (Some (r_id r)) st)) (snd (revert (Some (r_id r)) st)) true)
| av_fuel : alloc_view s r CFuel.

Lemma validate_not_live l r ty : validate_request ns l r = Some ty -> is_live (r_id r) l = false.
Proof. unfold validate_request. destruct (is_live (r_id r) l); [discriminate|reflexivity]. Qed.

Lemma alloc_core_view s r : ids_nodup (live s) -> alloc_view s r (alloc_core ns ex s r).
Proof.
  intros ND. unfold alloc_core.
  destruct (validate_request ns (live s) r) as [ty|] eqn:V; [|apply av_early].
  destruct (find_initial_zone ns ex (r_aff r) ty (r_strict r)) as [z0|]; [|apply av_early].
  destruct (ensure_normal ns ex z0 ty (r_strict r)) as [z1 ty1| |] eqn:EN; [|apply av_early|apply av_fuel].
  apply ensure_normal_normal in EN as [Hn _].
  pose proof (validate_not_live _ _ _ V) as Hl.
  set (r1 := set_zone z1 (set_types ty1 ty r)).
  assert (ids_nodup (live s ++ [r1])) as ND1.
  { unfold ids_nodup. rewrite map_app. cbn [map]. apply nodup_snoc; [exact ND|]. apply is_live_false. exact Hl. }
  pose proof (handle_overcommit_msteps ns ex z1 (alloc_start s r1) ND1) as H.
  change (mkOst (live s ++ [r1]) (zk_add z1 (zkeys s)) [(r_id r, z1)] [(r_id r, 0%N)] true false) with (alloc_start s r1).
  destruct (handle_overcommit ns ex z1 (alloc_start s r1)) as [st'|st'|].
  - destruct H as [M R]. eapply av_ok with (r1 := r1); eauto.
  - destruct (revert (Some (r_id r)) st') as [l zk] eqn:RV.
    change l with (fst (l, zk)). change zk with (snd (l, zk)) at 2. rewrite <- RV.
    eapply av_fail with (r1 := r1); eauto.
  - apply av_fuel.
Qed.

End Proofs.
