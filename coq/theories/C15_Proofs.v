(* C15 -- lemmas.  Everything is proved once, for all handler sets and all schedules. *)
From Coq Require Import List Arith Bool Lia String Permutation.
From NV Require Import C15_Model.
Import ListNotations.

(* ---------------------------------------------------------------- lists *)

Lemma length_upd : forall A (l : list A) i x, List.length (upd l i x) = List.length l.
Proof. induction l; destruct i; simpl; auto. Qed.

Lemma nth_error_upd_eq : forall A (l : list A) i x y,
  nth_error l i = Some y -> nth_error (upd l i x) i = Some x.
Proof. induction l; destruct i; simpl; intros; try discriminate; eauto. Qed.

Lemma nth_error_upd_neq : forall A (l : list A) i k x,
  k <> i -> nth_error (upd l i x) k = nth_error l k.
Proof.
  induction l; destruct i, k; simpl; intros; auto; try congruence.
Qed.

Lemma nth_error_upd : forall A (l : list A) i k x y,
  nth_error l i = Some y ->
  nth_error (upd l i x) k = if k =? i then Some x else nth_error l k.
Proof.
  intros. destruct (Nat.eqb_spec k i).
  - subst. eapply nth_error_upd_eq; eauto.
  - apply nth_error_upd_neq; auto.
Qed.

Lemma nth_error_snoc : forall A (l : list A) b k y,
  nth_error (l ++ [b]) k = Some y ->
  (k < List.length l /\ nth_error l k = Some y) \/ (k = List.length l /\ y = b).
Proof.
  intros. destruct (lt_dec k (List.length l)).
  - left. split; auto. rewrite nth_error_app1 in H; auto.
  - right. rewrite nth_error_app2 in H by lia.
    destruct (k - List.length l) eqn:E; simpl in H.
    + inversion H. split; auto. lia.
    + destruct n0; discriminate.
Qed.

(* ---------------------------------------------------------------- wl equations *)

Lemma bodies_ok_spawn : forall b, bodies_ok (Spawn b) = wl false b.
Proof. reflexivity. Qed.

Lemma wl_nil : forall h, wl h [] = negb h. Proof. reflexivity. Qed.
Lemma wl_lock : forall h r, wl h (Lock :: r) = negb h && wl true r. Proof. reflexivity. Qed.
Lemma wl_unlock : forall h r, wl h (Unlock :: r) = h && wl false r. Proof. reflexivity. Qed.
Lemma wl_access : forall h r, wl h (Access :: r) = h && wl h r. Proof. reflexivity. Qed.
Lemma wl_spawn : forall h b r, wl h (Spawn b :: r) = wl false b && wl h r. Proof. reflexivity. Qed.
Lemma wl_wait : forall h r, wl h (Wait :: r) = false. Proof. reflexivity. Qed.
Lemma wl_signal : forall h r, wl h (Signal :: r) = wl h r. Proof. reflexivity. Qed.
Lemma wl_chanmake : forall h r, wl h (ChanMake :: r) = wl h r. Proof. reflexivity. Qed.

(* ---------------------------------------------------------------- the invariant *)

Definition held (s : st) (i : nat) : bool :=
  match own s with Some j => j =? i | None => false end.

Definition WL (s : st) : Prop :=
  (forall i p, nth_error (thr s) i = Some p -> wl (held s i) p = true) /\
  (forall j, own s = Some j -> j < List.length (thr s)).

Lemma WL_init : forall hs, forallb well_locked hs = true -> WL (init hs).
Proof.
  intros hs H. split.
  - intros i p Hi. unfold held; simpl.
    rewrite forallb_forall in H. apply H. eapply nth_error_In; eauto.
  - simpl. discriminate.
Qed.

Ltac inv H := inversion H; subst; clear H.

Lemma next_exec_thread : forall s i a,
  next s i = Some a -> exists r, nth_error (thr s) i = Some (a :: r).
Proof.
  unfold next. intros s i a H. destruct (nth_error (thr s) i) as [[|x r]|]; try discriminate.
  inv H. eauto.
Qed.

(* what a step of a well-locked system does to the lock *)
Lemma exec_own : forall s i a s',
  WL s -> next s i = Some a -> exec s i = Some s' ->
  match a with
  | Lock => own s = None /\ own s' = Some i
  | Unlock => own s = Some i /\ own s' = None
  | Access => own s = Some i /\ own s' = Some i
  | _ => own s' = own s
  end.
Proof.
  intros s i a s' [Hwl _] Hn He.
  destruct (next_exec_thread _ _ _ Hn) as [r Hr].
  specialize (Hwl _ _ Hr). unfold exec in He. rewrite Hr in He.
  unfold held in Hwl.
  destruct a; simpl in He.
  - destruct (own s); inv He. auto.
  - destruct (own s) as [j|]; try discriminate.
    destruct (Nat.eqb_spec j i); inv He. auto.
  - rewrite wl_access in Hwl. apply andb_prop in Hwl as [Hh _].
    destruct (own s) as [j|]; try discriminate.
    apply Nat.eqb_eq in Hh. subst. inv He. auto.
  - inv He. auto.
  - destruct (ch s); inv He; auto.
  - inv He; auto.
  - inv He; auto.
Qed.

Lemma exec_thr : forall s i s' a r,
  nth_error (thr s) i = Some (a :: r) -> exec s i = Some s' ->
  thr s' = match a with Spawn b => upd (thr s) i r ++ [b] | _ => upd (thr s) i r end.
Proof.
  intros s i s' a r Hr He. unfold exec in He. rewrite Hr in He.
  destruct a; simpl in He.
  - destruct (own s); inv He; auto.
  - destruct (own s) as [j|]; try discriminate. destruct (j =? i); inv He; auto.
  - inv He; auto.
  - inv He; auto.
  - destruct (ch s); inv He; auto.
  - inv He; auto.
  - inv He; auto.
Qed.

Lemma WL_step : forall s i s', WL s -> exec s i = Some s' -> WL s'.
Proof.
  intros s i s' HWL He.
  assert (exists a, next s i = Some a) as [a Hn].
  { unfold exec in He. unfold next. destruct (nth_error (thr s) i) as [[|x r]|]; try discriminate. eauto. }
  destruct (next_exec_thread _ _ _ Hn) as [r Hr].
  pose proof (exec_own _ _ _ _ HWL Hn He) as Hown.
  pose proof (exec_thr _ _ _ _ _ Hr He) as Hthr.
  destruct HWL as [Hwl Hlt].
  pose proof (Hwl _ _ Hr) as Hi.
  assert (Hlen : i < List.length (thr s)) by (apply nth_error_Some; congruence).
  (* generic facts about the other threads *)
  assert (Hother : forall k p, k <> i -> nth_error (thr s) k = Some p -> wl (held s k) p = true)
    by (intros; eauto).
  split.
  - intros k p Hk. unfold held in *.
    destruct a; rewrite Hthr in Hk.
    + (* Lock *) destruct Hown as [Ho Ho']. rewrite Ho'. rewrite Ho in *.
      rewrite (nth_error_upd _ _ _ _ _ _ Hr) in Hk.
      destruct (Nat.eqb_spec k i).
      * inv Hk. rewrite Nat.eqb_refl. rewrite wl_lock in Hi. apply andb_prop in Hi as [_ Hi]. auto.
      * replace (i =? k) with false by (symmetry; apply Nat.eqb_neq; auto).
        apply (Hwl _ _ Hk).
    + (* Unlock *) destruct Hown as [Ho Ho']. rewrite Ho'. rewrite Ho in *.
      rewrite (nth_error_upd _ _ _ _ _ _ Hr) in Hk.
      destruct (Nat.eqb_spec k i).
      * inv Hk. rewrite Nat.eqb_refl in Hi. rewrite wl_unlock in Hi. apply andb_prop in Hi as [_ Hi]. auto.
      * specialize (Hwl _ _ Hk). replace (i =? k) with false in Hwl by (symmetry; apply Nat.eqb_neq; auto).
        auto.
    + (* Access *) destruct Hown as [Ho Ho']. rewrite Ho'. rewrite Ho in *.
      rewrite (nth_error_upd _ _ _ _ _ _ Hr) in Hk.
      destruct (Nat.eqb_spec k i).
      * inv Hk. rewrite wl_access in Hi. apply andb_prop in Hi as [_ Hi]. rewrite Nat.eqb_refl in *. auto.
      * apply (Hwl _ _ Hk).
    + (* Spawn *) rewrite Hown.
      apply nth_error_snoc in Hk. rewrite length_upd in Hk.
      rewrite wl_spawn in Hi. apply andb_prop in Hi as [Hb Hi].
      destruct Hk as [[Hk1 Hk]|[Hk1 Hk]].
      * rewrite (nth_error_upd _ _ _ _ _ _ Hr) in Hk.
        destruct (Nat.eqb_spec k i).
        -- inv Hk. auto.
        -- apply (Hwl _ _ Hk).
      * subst. destruct (own s) as [j|] eqn:Ho; auto.
        specialize (Hlt _ eq_refl).
        replace (j =? List.length (thr s)) with false by (symmetry; apply Nat.eqb_neq; lia). auto.
    + (* Wait *) rewrite wl_wait in Hi. discriminate.
    + (* Signal *) rewrite Hown. rewrite (nth_error_upd _ _ _ _ _ _ Hr) in Hk.
      destruct (Nat.eqb_spec k i).
      * inv Hk. rewrite wl_signal in Hi. auto.
      * apply (Hwl _ _ Hk).
    + (* ChanMake *) rewrite Hown. rewrite (nth_error_upd _ _ _ _ _ _ Hr) in Hk.
      destruct (Nat.eqb_spec k i).
      * inv Hk. rewrite wl_chanmake in Hi. auto.
      * apply (Hwl _ _ Hk).
  - intros j Hj.
    assert (List.length (thr s) <= List.length (thr s')).
    { rewrite Hthr. destruct a; try rewrite app_length; rewrite length_upd; lia. }
    destruct a; try (rewrite Hown in Hj; specialize (Hlt _ Hj); lia).
    + destruct Hown as [_ Ho']. rewrite Ho' in Hj. inv Hj. lia.
    + destruct Hown as [_ Ho']. rewrite Ho' in Hj. discriminate.
    + destruct Hown as [_ Ho']. rewrite Ho' in Hj. inv Hj. lia.
Qed.

Lemma run_WL : forall s tr s', run s tr s' -> WL s -> WL s'.
Proof. induction 1; intros; auto. apply IHrun. eapply WL_step; eauto. Qed.

(* ---------------------------------------------------------------- race freedom *)

Lemma access_holds_lock : forall s i, WL s -> next s i = Some Access -> own s = Some i.
Proof.
  intros s i [Hwl _] Hn. destruct (next_exec_thread _ _ _ Hn) as [r Hr].
  specialize (Hwl _ _ Hr). rewrite wl_access in Hwl. apply andb_prop in Hwl as [Hh _].
  unfold held in Hh. destruct (own s); try discriminate. apply Nat.eqb_eq in Hh. congruence.
Qed.

Lemma race_free_state : forall s i j,
  WL s -> next s i = Some Access -> next s j = Some Access -> i = j.
Proof.
  intros s i j H Hi Hj.
  pose proof (access_holds_lock _ _ H Hi). pose proof (access_holds_lock _ _ H Hj). congruence.
Qed.

Lemma well_locked_race_free : forall hs tr s i j,
  forallb well_locked hs = true -> run (init hs) tr s ->
  next s i = Some Access -> next s j = Some Access -> i = j.
Proof.
  intros. eapply race_free_state; eauto. eapply run_WL; eauto. apply WL_init; auto.
Qed.

(* an Access is never enabled for a thread while another thread holds the lock, and every
   Access is executed by the lock owner *)
Lemma well_locked_access_owner : forall hs tr s i,
  forallb well_locked hs = true -> run (init hs) tr s ->
  next s i = Some Access -> own s = Some i.
Proof.
  intros. eapply access_holds_lock; eauto. eapply run_WL; eauto. apply WL_init; auto.
Qed.

(* ---------------------------------------------------------------- no deadlock *)

Lemma unfinished_thread : forall (l : list (list step)),
  forallb null l = false -> exists i a r, nth_error l i = Some (a :: r).
Proof.
  induction l as [|p l IH]; simpl; intros H; try discriminate.
  destruct p as [|a r].
  - simpl in H. destruct (IH H) as (i & a & r & Hi). exists (S i), a, r. auto.
  - exists 0, a, r. auto.
Qed.

Lemma no_deadlock_state : forall s,
  WL s -> finished s = false -> exists i s', exec s i = Some s'.
Proof.
  intros s [Hwl Hlt] Hf. unfold finished in Hf.
  destruct (own s) as [j|] eqn:Ho.
  - (* the owner can always move *)
    specialize (Hlt _ eq_refl).
    destruct (nth_error (thr s) j) as [p|] eqn:Hp; [|apply nth_error_None in Hp; lia].
    specialize (Hwl _ _ Hp). unfold held in Hwl. rewrite Ho, Nat.eqb_refl in Hwl.
    exists j. unfold exec. rewrite Hp, Ho.
    destruct p as [|a r]; [discriminate|].
    destruct a; simpl; eauto.
    + rewrite wl_lock in Hwl. discriminate.
    + rewrite Nat.eqb_refl. eauto.
    + rewrite wl_wait in Hwl. discriminate.
  - destruct (unfinished_thread _ Hf) as (i & a & r & Hi).
    specialize (Hwl _ _ Hi). unfold held in Hwl. rewrite Ho in Hwl.
    exists i. unfold exec. rewrite Hi, Ho.
    destruct a; simpl; eauto.
    + rewrite wl_unlock in Hwl. discriminate.
    + rewrite wl_wait in Hwl. discriminate.
Qed.

Lemma no_deadlock : forall hs tr s,
  forallb well_locked hs = true -> run (init hs) tr s ->
  finished s = false -> exists i s', exec s i = Some s'.
Proof.
  intros. apply no_deadlock_state; auto. eapply run_WL; eauto. apply WL_init; auto.
Qed.

(* ---------------------------------------------------------------- termination *)

Lemma map_upd : forall A B (f : A -> B) l i x, map f (upd l i x) = upd (map f l) i (f x).
Proof. induction l; destruct i; simpl; intros; auto. f_equal. auto. Qed.

Lemma list_sum_upd : forall l i x y,
  nth_error l i = Some y -> list_sum (upd l i x) + y = list_sum l + x.
Proof.
  induction l; destruct i; simpl; intros; try discriminate.
  - inv H. lia.
  - specialize (IHl _ x _ H). lia.
Qed.

Lemma list_sum_snoc : forall l x, list_sum (l ++ [x]) = list_sum l + x.
Proof. intros. rewrite list_sum_app. simpl. lia. Qed.

Lemma exec_total : forall s i s', exec s i = Some s' -> S (total s') = total s.
Proof.
  intros s i s' He.
  assert (exists a r, nth_error (thr s) i = Some (a :: r)) as (a & r & Hr).
  { unfold exec in He. destruct (nth_error (thr s) i) as [[|x r]|]; try discriminate. eauto. }
  pose proof (exec_thr _ _ _ _ _ Hr He) as Hthr.
  unfold total. rewrite Hthr.
  assert (Hm : nth_error (map psize (thr s)) i = Some (psize (a :: r))) by (apply map_nth_error; auto).
  pose proof (list_sum_upd _ _ (psize r) _ Hm) as Hs.
  assert (Hp : psize (a :: r) = ssize a + psize r) by reflexivity.
  destruct a; try (rewrite map_upd; simpl in Hp; lia).
  rewrite map_app, list_sum_app, map_upd. simpl.
  change (list_sum (map ssize body)) with (psize body) in Hp. simpl in Hp.
  change (list_sum (map ssize body)) with (psize body) in Hp. lia.
Qed.

Lemma run_length : forall s tr s', run s tr s' -> List.length tr + total s' = total s.
Proof.
  induction 1; simpl; auto. apply exec_total in H0. lia.
Qed.

(* ---------------------------------------------------------------- serializability (sections) *)

Lemma accs_cons : forall i a tr,
  accs ((i, a) :: tr) = match a with Access => i :: accs tr | _ => accs tr end.
Proof. intros. unfold accs. simpl. destruct a; reflexivity. Qed.

Lemma serial_accs_cons : forall i k secs,
  serial_accs ((i, k) :: secs) = repeat i k ++ serial_accs secs.
Proof. reflexivity. Qed.

Definition owner_prefix (s : st) (tr : list ev) : list nat :=
  match own s with None => [] | Some i => repeat i (cnt i tr) end.

Lemma sections_serial_gen : forall s tr s',
  run s tr s' -> WL s -> accs tr = owner_prefix s tr ++ serial_accs (sections tr).
Proof.
  induction 1 as [s|s i a s1 tr s2 Hn He Hrun IH]; intros HWL.
  - unfold owner_prefix. destruct (own s); reflexivity.
  - pose proof (exec_own _ _ _ _ HWL Hn He) as Hown.
    specialize (IH (WL_step _ _ _ HWL He)).
    rewrite accs_cons. unfold owner_prefix in *.
    destruct a.
    + destruct Hown as [Ho Ho']. rewrite Ho. rewrite Ho' in IH.
      change (sections ((i, Lock) :: tr)) with ((i, cnt i tr) :: sections tr).
      rewrite serial_accs_cons. exact IH.
    + destruct Hown as [Ho Ho']. rewrite Ho. rewrite Ho' in IH. simpl.
      rewrite Nat.eqb_refl. simpl. exact IH.
    + destruct Hown as [Ho Ho']. rewrite Ho. rewrite Ho' in IH. simpl.
      rewrite Nat.eqb_refl. simpl. f_equal. exact IH.
    + rewrite Hown in IH. destruct (own s) as [j|]; simpl; auto.
      destruct (i =? j); exact IH.
    + rewrite Hown in IH. destruct (own s) as [j|]; simpl; auto.
      destruct (i =? j); exact IH.
    + rewrite Hown in IH. destruct (own s) as [j|]; simpl; auto.
      destruct (i =? j); exact IH.
    + rewrite Hown in IH. destruct (own s) as [j|]; simpl; auto.
      destruct (i =? j); exact IH.
Qed.

(* the global access order of ANY execution of a well-locked handler set is the concatenation
   of its critical sections in lock-acquisition order: sections never interleave and nothing
   is accessed outside a section *)
Lemma sections_serial : forall hs tr s,
  forallb well_locked hs = true -> run (init hs) tr s ->
  accs tr = serial_accs (sections tr).
Proof.
  intros hs tr s H Hr.
  apply (sections_serial_gen _ _ _ Hr (WL_init _ H)).
Qed.

(* ---------------------------------------------------------------- rendezvous *)

Lemma forallb_upd : forall A (P : A -> bool) l k x,
  forallb P l = true -> P x = true -> forallb P (upd l k x) = true.
Proof.
  induction l; destruct k; simpl; intros; auto;
  apply andb_prop in H as [H1 H2]; apply andb_true_intro; auto.
Qed.

Lemma forallb_nth : forall A (P : A -> bool) l k y,
  forallb P l = true -> nth_error l k = Some y -> P y = true.
Proof.
  intros. rewrite forallb_forall in H. apply H. eapply nth_error_In; eauto.
Qed.

Lemma body_ok_nonnil : forall b, body_ok b = true -> b <> [].
Proof. destruct b; simpl; congruence. Qed.

Lemma fetcher_ok_body : forall b c, body_ok b = true -> fetcher_ok b c = is_open c.
Proof. destruct b; simpl; intros; try discriminate. rewrite H. reflexivity. Qed.

Lemma reader_state_closed : forall c r, reader_state c r = true -> reader_state CClosed r = true.
Proof.
  unfold reader_state. intros c r H. apply orb_prop in H as [H|H].
  - rewrite H. reflexivity.
  - apply andb_prop in H as [H _]. rewrite H. simpl. apply orb_true_r.
Qed.

Lemma binv_step : forall s i s', binv s = true -> exec s i = Some s' -> binv s' = true.
Proof.
  intros s i s' Hb He. unfold binv in Hb.
  destruct s as [t o c]; simpl in *.
  destruct t as [|c0 rest]; [discriminate|].
  destruct o; [discriminate|]. simpl in Hb.
  unfold exec in He; simpl in He.
  destruct i as [|[|k]]; simpl in He.
  - (* the creator *)
    destruct c0 as [|a r]; [discriminate|].
    destruct rest as [|f rs].
    + destruct a; simpl in Hb; try discriminate.
      * inv He. unfold binv; simpl. exact Hb.
      * apply andb_prop in Hb as [Hb1 Hb3]. apply andb_prop in Hb1 as [Hb1 Hb2].
        inv He. unfold binv; simpl. rewrite Hb3. simpl.
        rewrite (fetcher_ok_body _ _ Hb2). rewrite Hb1. reflexivity.
      * apply andb_prop in Hb as [Hb1 Hb2]. inv He. unfold binv; simpl. exact Hb2.
    + apply andb_prop in Hb as [Hb1 Hb3]. apply andb_prop in Hb1 as [Hb1 Hb2].
      unfold creator_post in Hb1. simpl in Hb1. apply andb_prop in Hb1 as [Ha Hr].
      destruct a; try discriminate.
      * inv He. unfold binv; simpl. unfold creator_post. rewrite Hr, Hb2, Hb3. reflexivity.
      * inv He. unfold binv; simpl. unfold creator_post. rewrite Hr, Hb2. simpl.
        rewrite forallb_app. rewrite Hb3. simpl. unfold reader_state. rewrite Ha. reflexivity.
  - (* the fetch goroutine *)
    destruct rest as [|f rs]; [discriminate|]. simpl in He.
    apply andb_prop in Hb as [Hb1 Hb3]. apply andb_prop in Hb1 as [Hb1 Hb2].
    destruct f as [|a r]; [discriminate|].
    simpl in Hb2. apply andb_prop in Hb2 as [Hbody Hopen].
    destruct a; try discriminate.
    + (* Access *)
      simpl in Hbody. inv He. unfold binv; simpl. rewrite Hb1. simpl.
      rewrite (fetcher_ok_body _ _ Hbody). rewrite Hopen. exact Hb3.
    + (* Signal *)
      destruct r; [|discriminate]. inv He. unfold binv; simpl. rewrite Hb1. simpl.
      clear - Hb3. induction rs; simpl in *; auto.
      apply andb_prop in Hb3 as [H1 H2]. rewrite (reader_state_closed _ _ H1). auto.
  - (* a reader *)
    destruct rest as [|f rs]; [discriminate|]. simpl in He.
    apply andb_prop in Hb as [Hb1 Hb3]. apply andb_prop in Hb1 as [Hb1 Hb2].
    destruct (nth_error rs k) as [[|a r]|] eqn:Hk; try discriminate.
    pose proof (forallb_nth _ _ _ _ _ Hb3 Hk) as Hrd.
    unfold reader_state in Hrd.
    destruct a; simpl in Hrd; try discriminate.
    + (* Access *)
      apply andb_prop in Hrd as [Hacc Hcl]. inv He. unfold binv; simpl.
      rewrite Hb1, Hb2. simpl. apply forallb_upd; auto.
      unfold reader_state. rewrite Hacc, Hcl. apply orb_true_r.
    + (* Wait *)
      rewrite orb_false_r in Hrd.
      assert (Hc : c = CClosed).
      { destruct c; try discriminate; auto.
        destruct f; simpl in Hb2; try discriminate.
        apply andb_prop in Hb2 as [_ Hx]. discriminate. }
      subst c. inv He. unfold binv; simpl. rewrite Hb1, Hb2. simpl.
      apply forallb_upd; auto. unfold reader_state. rewrite Hrd. apply orb_true_r.
Qed.

Lemma binv_run : forall s tr s', run s tr s' -> binv s = true -> binv s' = true.
Proof. induction 1; intros; auto. apply IHrun. eapply binv_step; eauto. Qed.

Lemma creator_post_app : forall p q,
  creator_post p = true -> creator_post q = true -> creator_post (p ++ q) = true.
Proof. unfold creator_post. intros. rewrite forallb_app, H, H0. reflexivity. Qed.

Lemma creator_pre_app : forall p c q,
  creator_pre p c = true -> creator_post q = true -> creator_pre (p ++ q) c = true.
Proof.
  induction p as [|a p IH]; simpl; intros c q Hp Hq; try discriminate.
  destruct a; try discriminate; auto.
  - apply andb_prop in Hp as [H1 H2]. rewrite H1. simpl.
    apply creator_post_app; auto.
  - apply andb_prop in Hp as [H1 H2]. rewrite H1. simpl. auto.
Qed.

Lemma creator_post_readers : forall r n, reader_ok r = true -> creator_post (repeat (Spawn r) n) = true.
Proof. induction n; simpl; intros; auto. unfold creator_post in *. simpl. rewrite H. simpl. auto. Qed.

Lemma binv_init : forall f r n,
  creator_pre (fetch_system f r 0) CNone = true -> reader_ok r = true ->
  binv (init [fetch_system f r n]) = true.
Proof.
  intros f r n Hf Hr. unfold binv, init; simpl.
  unfold fetch_system in *. simpl in Hf. rewrite app_nil_r in Hf.
  apply creator_pre_app; auto. apply creator_post_readers; auto.
Qed.

(* a reader that is about to access the pod's result slot does so after the fetch goroutine
   has finished (so it sees the result and no access of the goroutine is concurrent) *)
Lemma fetch_visible_state : forall s k r,
  binv s = true -> nth_error (thr s) (S (S k)) = Some (Access :: r) ->
  ch s = CClosed /\ nth_error (thr s) 1 = Some [].
Proof.
  intros s k r Hb Hk. unfold binv in Hb.
  destruct (thr s) as [|c0 [|f rs]]; simpl in Hk; try discriminate; try (destruct k; discriminate).
  { apply andb_prop in Hb as [_ Hb]. apply andb_prop in Hb as [Hb Hb3]. apply andb_prop in Hb as [_ Hb2].
    pose proof (forallb_nth _ _ _ _ _ Hb3 Hk) as Hrd. unfold reader_state in Hrd. simpl in Hrd.
    apply andb_prop in Hrd as [_ Hcl].
    destruct (ch s); try discriminate. split; auto.
    destruct f; auto. simpl in Hb2. apply andb_prop in Hb2 as [_ Hx]. discriminate. }
Qed.

(* a reader at its wait either blocks (fetch in flight) or passes with the fetch complete;
   it never slips through on a channel that does not exist yet *)
Lemma fetch_wait_state : forall s k r,
  binv s = true -> nth_error (thr s) (S (S k)) = Some (Wait :: r) ->
  (ch s = COpen /\ exec s (S (S k)) = None) \/ (ch s = CClosed /\ nth_error (thr s) 1 = Some []).
Proof.
  intros s k r Hb Hk. unfold binv in Hb. unfold exec. rewrite Hk.
  destruct (thr s) as [|c0 [|f rs]]; simpl in Hk; try discriminate; try (destruct k; discriminate).
  { apply andb_prop in Hb as [_ Hb]. apply andb_prop in Hb as [Hb Hb3]. apply andb_prop in Hb as [_ Hb2].
    destruct f; simpl in Hb2.
    + destruct (ch s); try discriminate. right. auto.
    + apply andb_prop in Hb2 as [_ Hx]. destruct (ch s); try discriminate. left. auto. }
Qed.

Lemma fetch_progress_state : forall s,
  binv s = true -> finished s = false -> exists i s', exec s i = Some s'.
Proof.
  intros s Hb Hf. unfold binv in Hb. unfold finished in Hf. unfold exec.
  destruct s as [t o c]; simpl in *.
  destruct t as [|c0 rest]; [discriminate|].
  destruct o; [discriminate|]. simpl in Hb.
  destruct c0 as [|a r0].
  - (* creator done *)
    destruct rest as [|f rs]; [discriminate|].
    apply andb_prop in Hb as [Hb Hb3]. apply andb_prop in Hb as [_ Hb2].
    destruct f as [|a r].
    + simpl in Hb2. destruct c; try discriminate.
      simpl in Hf.
      destruct (unfinished_thread _ Hf) as (k & a & r & Hk).
      pose proof (forallb_nth _ _ _ _ _ Hb3 Hk) as Hrd. unfold reader_state in Hrd.
      exists (S (S k)). simpl. rewrite Hk.
      destruct a; simpl in Hrd; try discriminate; eauto.
    + exists 1. simpl. simpl in Hb2. apply andb_prop in Hb2 as [Hbody _].
      destruct a; try discriminate; eauto.
  - exists 0. simpl.
    destruct rest as [|f rs].
    + destruct a; simpl in Hb; try discriminate; eauto.
    + apply andb_prop in Hb as [Hb _]. apply andb_prop in Hb as [Hb _].
      unfold creator_post in Hb. simpl in Hb. apply andb_prop in Hb as [Ha _].
      destruct a; try discriminate; eauto.
Qed.

Lemma run_sched_run : forall sched s s',
  run_sched s sched = Some s' -> exists tr, run s tr s' /\ map fst tr = sched.
Proof.
  induction sched as [|i r IH]; simpl; intros s s' H.
  - inv H. exists []. split; constructor.
  - destruct (exec s i) as [s1|] eqn:He; try discriminate.
    destruct (IH _ _ H) as (tr & Hr & Hm).
    assert (exists a, next s i = Some a) as [a Ha].
    { unfold exec in He. unfold next. destruct (nth_error (thr s) i) as [[|x q]|]; try discriminate. eauto. }
    exists ((i, a) :: tr). split; [econstructor; eauto|]. simpl. congruence.
Qed.

(* ---------------------------------------------------------------- serial order of requests *)

Lemma sec_body_wl : forall b, sec_body b = true -> wl true b = true.
Proof.
  induction b as [|a b IH]; intros H; [discriminate|].
  destruct a; simpl in H; try discriminate.
  - destruct b; try discriminate. reflexivity.
  - rewrite wl_access. rewrite (IH H). reflexivity.
Qed.

Lemma one_section_well_locked : forall p, one_section p = true -> well_locked p = true.
Proof.
  destruct p as [|a r]; intros H; auto.
  destruct a; simpl in H; try discriminate. unfold well_locked. rewrite wl_lock.
  rewrite (sec_body_wl _ H). reflexivity.
Qed.

Lemma forallb_one_section_wl : forall hs, forallb one_section hs = true -> forallb well_locked hs = true.
Proof.
  intros hs H. rewrite forallb_forall in *. intros x Hx. apply one_section_well_locked; auto.
Qed.

Definition proj (i : nat) (tr : list ev) : list step := map snd (filter (fun e => fst e =? i) tr).

Lemma exec_nth : forall s j s1 a r0 i p,
  nth_error (thr s) j = Some (a :: r0) -> exec s j = Some s1 ->
  nth_error (thr s) i = Some p ->
  nth_error (thr s1) i = Some (if i =? j then r0 else p).
Proof.
  intros s j s1 a r0 i p Hj He Hi.
  rewrite (exec_thr _ _ _ _ _ Hj He).
  assert (Hlt : i < List.length (thr s)) by (apply nth_error_Some; congruence).
  assert (H : nth_error (upd (thr s) j r0) i = Some (if i =? j then r0 else p)).
  { rewrite (nth_error_upd _ _ _ _ _ _ Hj). destruct (i =? j); auto. }
  destruct a; auto.
  rewrite nth_error_app1; auto. rewrite length_upd; auto.
Qed.

Lemma run_proj : forall s tr s', run s tr s' -> forall i p,
  nth_error (thr s) i = Some p ->
  exists q, nth_error (thr s') i = Some q /\ p = proj i tr ++ q.
Proof.
  induction 1 as [s|s j a s1 tr s2 Hn He Hrun IH]; intros i p Hi.
  - exists p. split; auto.
  - destruct (next_exec_thread _ _ _ Hn) as [r0 Hr].
    pose proof (exec_nth _ _ _ _ _ _ _ Hr He Hi) as H1.
    destruct (IH _ _ H1) as (q & Hq & Hp).
    exists q. split; auto. unfold proj in *. simpl.
    destruct (Nat.eqb_spec j i).
    + subst j. rewrite Nat.eqb_refl in Hp. rewrite Hr in Hi. inv Hi. simpl. f_equal; auto.
    + replace (i =? j) with false in Hp by (symmetry; apply Nat.eqb_neq; auto). auto.
Qed.

Lemma finished_nth : forall s i p, finished s = true -> nth_error (thr s) i = Some p -> p = [].
Proof.
  intros s i p Hf Hi. unfold finished in Hf.
  pose proof (forallb_nth _ _ _ _ _ Hf Hi) as H. destruct p; auto; discriminate.
Qed.

Fixpoint cntp (p : list step) : nat :=
  match p with
  | [] => 0
  | Access :: r => S (cntp r)
  | Unlock :: _ => 0
  | _ :: r => cntp r
  end.

Lemma cnt_proj : forall i tr, cnt i tr = cntp (proj i tr).
Proof.
  induction tr as [|[j a] tr IH]; simpl; auto.
  unfold proj in *. simpl. destruct (j =? i); simpl; auto.
  destruct a; simpl; auto.
Qed.

Lemma cntp_sec_body : forall b, sec_body b = true -> cntp b = count_acc b.
Proof.
  induction b as [|a b IH]; simpl; intros H; auto.
  destruct a; try discriminate.
  - destruct b; try discriminate. reflexivity.
  - unfold count_acc in *. simpl. f_equal. auto.
Qed.

Definition tstate (h : bool) (p : list step) : bool := if h then sec_body p else one_section p.

Definition OS (s : st) : Prop :=
  forall k p, nth_error (thr s) k = Some p -> tstate (held s k) p = true.

Lemma OS_init : forall hs, forallb one_section hs = true -> OS (init hs).
Proof.
  intros hs H k p Hk. unfold held; simpl. eapply forallb_nth; eauto.
Qed.

(* in a system of one-section requests only Lock / Access / Unlock are ever executed *)
Lemma OS_head : forall s i a r0,
  OS s -> nth_error (thr s) i = Some (a :: r0) ->
  (a = Lock /\ held s i = false /\ sec_body r0 = true) \/
  (a = Access /\ held s i = true /\ sec_body r0 = true) \/
  (a = Unlock /\ held s i = true /\ r0 = []).
Proof.
  intros s i a r0 HOS Hi. specialize (HOS _ _ Hi). unfold tstate in HOS.
  destruct (held s i); simpl in HOS.
  - destruct a; try discriminate.
    + right. right. destruct r0; try discriminate. auto.
    + right. left. auto.
  - destruct a; try discriminate. left. auto.
Qed.

Lemma OS_step : forall s i s1, OS s -> WL s -> exec s i = Some s1 -> OS s1.
Proof.
  intros s i s1 HOS HWL He.
  assert (exists a, next s i = Some a) as [a Hn].
  { unfold exec in He. unfold next. destruct (nth_error (thr s) i) as [[|x r]|]; try discriminate. eauto. }
  destruct (next_exec_thread _ _ _ Hn) as [r0 Hr].
  pose proof (exec_own _ _ _ _ HWL Hn He) as Hown.
  pose proof (OS_head _ _ _ _ HOS Hr) as Hhead.
  intros k p Hk.
  assert (Hlen : List.length (thr s1) = List.length (thr s)).
  { rewrite (exec_thr _ _ _ _ _ Hr He).
    destruct Hhead as [(-> & _)|[(-> & _)|(-> & _)]]; apply length_upd. }
  assert (exists p0, nth_error (thr s) k = Some p0) as [p0 Hp0].
  { destruct (nth_error (thr s) k) eqn:E; eauto. apply nth_error_None in E.
    assert (k < List.length (thr s1)) by (apply nth_error_Some; congruence). lia. }
  pose proof (exec_nth _ _ _ _ _ _ _ Hr He Hp0) as Hk'. rewrite Hk in Hk'. inv Hk'.
  pose proof (HOS _ _ Hp0) as Hs.
  unfold held in *.
  destruct Hhead as [(-> & Hh & Hb)|[(-> & Hh & Hb)|(-> & Hh & Hb)]].
  - destruct Hown as [Ho Ho']. rewrite Ho' . rewrite Ho in *.
    destruct (Nat.eqb_spec k i).
    + subst. rewrite Nat.eqb_refl. exact Hb.
    + replace (i =? k) with false by (symmetry; apply Nat.eqb_neq; auto). exact Hs.
  - destruct Hown as [Ho Ho']. rewrite Ho'. rewrite Ho in *.
    destruct (Nat.eqb_spec k i).
    + subst. rewrite Nat.eqb_refl. exact Hb.
    + exact Hs.
  - destruct Hown as [Ho Ho']. rewrite Ho'. rewrite Ho in *.
    destruct (Nat.eqb_spec k i).
    + subst. reflexivity.
    + replace (i =? k) with false in Hs by (symmetry; apply Nat.eqb_neq; auto). exact Hs.
Qed.

Definition lockers (tr : list ev) : list nat := map fst (sections tr).

Lemma sec_body_not_lock : forall b, sec_body (Lock :: b) = false.
Proof. reflexivity. Qed.

(* the critical sections of a complete execution of one-section requests: every request that
   locks does so exactly once, and its section contains all its accesses *)
Lemma sections_complete : forall s tr s',
  run s tr s' -> OS s -> WL s -> finished s' = true ->
  sections tr = map (fun k => (k, count_acc (nth k (thr s) []))) (lockers tr) /\
  NoDup (lockers tr) /\
  (forall k, In k (lockers tr) -> held s k = false /\ exists b, nth_error (thr s) k = Some (Lock :: b)) /\
  (forall k p, nth_error (thr s) k = Some p -> ~ In k (lockers tr) -> held s k = true \/ p = []).
Proof.
  induction 1 as [s|s i a s1 tr s2 Hn He Hrun IH]; intros HOS HWL Hfin.
  - unfold lockers. simpl. split; [reflexivity|]. split; [constructor|]. split; [intros k []|].
    intros k p Hk _. right. eapply finished_nth; eauto.
  - destruct (next_exec_thread _ _ _ Hn) as [r0 Hr].
    pose proof (exec_own _ _ _ _ HWL Hn He) as Hown.
    pose proof (OS_head _ _ _ _ HOS Hr) as Hhead.
    pose proof (OS_step _ _ _ HOS HWL He) as HOS1.
    pose proof (WL_step _ _ _ HWL He) as HWL1.
    destruct (IH HOS1 HWL1 Hfin) as (G1 & G2 & G3 & G4).
    assert (Hi1 : nth_error (thr s1) i = Some r0).
    { pose proof (exec_nth _ _ _ _ _ _ _ Hr He Hr) as H. rewrite Nat.eqb_refl in H. exact H. }
    assert (Hother : forall k p, k <> i -> nth_error (thr s) k = Some p -> nth_error (thr s1) k = Some p).
    { intros k p Hne Hk. pose proof (exec_nth _ _ _ _ _ _ _ Hr He Hk) as H.
      replace (k =? i) with false in H by (symmetry; apply Nat.eqb_neq; auto). exact H. }
    assert (Hlen : List.length (thr s1) = List.length (thr s)).
    { rewrite (exec_thr _ _ _ _ _ Hr He).
      destruct Hhead as [(-> & _)|[(-> & _)|(-> & _)]]; apply length_upd. }
    assert (Hother' : forall k p, k <> i -> nth_error (thr s1) k = Some p -> nth_error (thr s) k = Some p).
    { intros k p Hne Hk.
      destruct (nth_error (thr s) k) as [p0|] eqn:E.
      - rewrite (Hother _ _ Hne E) in Hk. exact Hk.
      - apply nth_error_None in E.
        assert (k < List.length (thr s1)) by (apply nth_error_Some; congruence). lia. }
    assert (Hnth : forall k, k <> i -> nth k (thr s1) [] = nth k (thr s) []).
    { intros k Hne. destruct (nth_error (thr s) k) as [p0|] eqn:E.
      - rewrite (nth_error_nth _ _ _ E). rewrite (nth_error_nth _ _ _ (Hother _ _ Hne E)). reflexivity.
      - assert (H : nth_error (thr s1) k = None).
        { destruct (nth_error (thr s1) k) eqn:E1; auto. rewrite (Hother' _ _ Hne E1) in E. discriminate. }
        rewrite (nth_overflow _ _ (proj1 (nth_error_None _ _) E)).
        rewrite (nth_overflow _ _ (proj1 (nth_error_None _ _) H)). reflexivity. }
    (* in the rest of the run thread i does not lock (again) unless its program starts with Lock
       and it does not hold the lock *)
    assert (Hnoti : (forall b, r0 <> Lock :: b) \/ held s1 i = true -> ~ In i (lockers tr)).
    { intros Hc Hin. destruct (G3 _ Hin) as (Hh & b & Hb). rewrite Hi1 in Hb. inv Hb.
      destruct Hc as [Hc|Hc]; [eapply Hc; eauto | congruence]. }
    assert (Hmap : ~ In i (lockers tr) ->
                   map (fun k => (k, count_acc (nth k (thr s1) []))) (lockers tr) =
                   map (fun k => (k, count_acc (nth k (thr s) []))) (lockers tr)).
    { intros Hni. apply map_ext_in. intros k Hk. f_equal. f_equal. apply Hnth. intro; subst; auto. }
    assert (Hthr3 : ~ In i (lockers tr) -> forall k, In k (lockers tr) ->
                    exists b, nth_error (thr s) k = Some (Lock :: b)).
    { intros Hni k Hk. destruct (G3 _ Hk) as (_ & b & Hb'). exists b. apply Hother'; auto. intro; subst; auto. }
    unfold held in *.
    destruct Hhead as [(-> & Hh & Hb)|[(-> & Hh & Hb)|(-> & Hh & Hb)]].
    + (* Lock *)
      destruct Hown as [Ho Ho']. rewrite Ho' in *. rewrite Ho in *.
      assert (Hni : ~ In i (lockers tr)) by (apply Hnoti; right; apply Nat.eqb_refl).
      change (sections ((i, Lock) :: tr)) with ((i, cnt i tr) :: sections tr).
      unfold lockers in *.
      change (map fst ((i, cnt i tr) :: sections tr)) with (i :: map fst (sections tr)).
      split; [|split; [|split]].
      * simpl. f_equal.
        -- f_equal. rewrite (nth_error_nth _ _ _ Hr).
           destruct (run_proj _ _ _ Hrun _ _ Hi1) as (q & Hq & Hp).
           rewrite (finished_nth _ _ _ Hfin Hq), app_nil_r in Hp.
           rewrite cnt_proj, <- Hp. rewrite (cntp_sec_body _ Hb).
           unfold count_acc. reflexivity.
        -- rewrite G1 at 1. apply Hmap; auto.
      * constructor; auto.
      * intros k [Hk|Hk].
        -- subst. split; [reflexivity|eauto].
        -- split; [reflexivity|]. apply Hthr3; auto.
      * intros k p Hk Hnin.
        assert (k <> i) by (intro; subst; apply Hnin; left; auto).
        destruct (G4 _ _ (Hother _ _ H Hk)) as [Hx|Hx]; auto.
        { intro Hc. apply Hnin. right. auto. }
        replace (i =? k) with false in Hx by (symmetry; apply Nat.eqb_neq; auto). discriminate.
    + (* Access *)
      destruct Hown as [Ho Ho']. rewrite Ho' in *. rewrite Ho in *.
      assert (Hni : ~ In i (lockers tr)) by (apply Hnoti; right; apply Nat.eqb_refl).
      change (sections ((i, Access) :: tr)) with (sections tr).
      split; [|split; [|split]]; auto.
      * rewrite G1 at 1. apply Hmap; auto.
      * intros k Hk. split; [apply (G3 _ Hk)|apply Hthr3; auto].
      * intros k p Hk Hnin. destruct (Nat.eq_dec k i) as [->|n].
        -- left. apply Nat.eqb_refl.
        -- destruct (G4 _ _ (Hother _ _ n Hk) Hnin); auto.
    + (* Unlock *)
      destruct Hown as [Ho Ho']. rewrite Ho' in *. rewrite Ho in *. subst r0.
      assert (Hni : ~ In i (lockers tr)) by (apply Hnoti; left; intros b; discriminate).
      change (sections ((i, Unlock) :: tr)) with (sections tr).
      split; [|split; [|split]]; auto.
      * rewrite G1 at 1. apply Hmap; auto.
      * intros k Hk. split; [|apply Hthr3; auto].
        apply Nat.eqb_neq. intro; subst; auto.
      * intros k p Hk Hnin. destruct (Nat.eq_dec k i) as [->|n].
        -- left. apply Nat.eqb_refl.
        -- destruct (G4 _ _ (Hother _ _ n Hk) Hnin) as [Hx|Hx]; auto. discriminate.
Qed.

(* --- the serial schedule is an execution *)

Lemma run_app : forall s t1 s1, run s t1 s1 -> forall t2 s2, run s1 t2 s2 -> run s (t1 ++ t2) s2.
Proof. induction 1; simpl; intros; auto. econstructor; eauto. Qed.

Lemma upd_upd : forall A (l : list A) i x y, upd (upd l i x) i y = upd l i y.
Proof. induction l; destruct i; simpl; intros; auto. f_equal. auto. Qed.

Lemma run_body : forall i b s,
  own s = Some i -> nth_error (thr s) i = Some b -> sec_body b = true ->
  exists s2, run s (map (fun a => (i, a)) b) s2 /\ own s2 = None /\ thr s2 = upd (thr s) i [].
Proof.
  induction b as [|a b IH]; simpl; intros s Ho Hi Hb; try discriminate.
  destruct a; try discriminate.
  - destruct b; try discriminate.
    eexists. split; [|split].
    + econstructor; [| |constructor].
      * unfold next. rewrite Hi. reflexivity.
      * unfold exec. rewrite Hi, Ho, Nat.eqb_refl. reflexivity.
    + reflexivity.
    + reflexivity.
  - set (s1 := mkst (upd (thr s) i b) (own s) (ch s)).
    destruct (IH s1) as (s2 & Hr & Ho2 & Ht2); auto.
    + simpl. eapply nth_error_upd_eq; eauto.
    + exists s2. split; [|split]; auto.
      * econstructor; eauto.
        -- unfold next. rewrite Hi. reflexivity.
        -- unfold exec. rewrite Hi. reflexivity.
      * rewrite Ht2. simpl. apply upd_upd.
Qed.

Lemma run_thread : forall i b s,
  own s = None -> nth_error (thr s) i = Some (Lock :: b) -> sec_body b = true ->
  exists s2, run s (map (fun a => (i, a)) (Lock :: b)) s2 /\ own s2 = None /\ thr s2 = upd (thr s) i [].
Proof.
  intros i b s Ho Hi Hb.
  set (s1 := mkst (upd (thr s) i b) (Some i) (ch s)).
  destruct (run_body i b s1) as (s2 & Hr & Ho2 & Ht2); auto.
  - simpl. eapply nth_error_upd_eq; eauto.
  - exists s2. split; [|split]; auto.
    + simpl. econstructor; eauto.
      * unfold next. rewrite Hi. reflexivity.
      * unfold exec. rewrite Hi, Ho. reflexivity.
    + rewrite Ht2. simpl. apply upd_upd.
Qed.

Lemma serial_run : forall pi s,
  own s = None -> NoDup pi ->
  (forall k, In k pi -> exists b, nth_error (thr s) k = Some (Lock :: b) /\ sec_body b = true) ->
  exists s2, run s (flat_map (fun i => map (fun a => (i, a)) (nth i (thr s) [])) pi) s2 /\
             own s2 = None /\
             (forall k, ~ In k pi -> nth_error (thr s2) k = nth_error (thr s) k) /\
             (forall k, In k pi -> nth_error (thr s2) k = Some []).
Proof.
  induction pi as [|i pi IH]; intros s Ho Hnd Hall.
  - exists s. simpl. repeat split; auto; try constructor. contradiction.
  - inversion Hnd as [|? ? Hni Hnd']; subst.
    destruct (Hall i (or_introl eq_refl)) as (b & Hi & Hb).
    destruct (run_thread _ _ _ Ho Hi Hb) as (s1 & Hr1 & Ho1 & Ht1).
    assert (Hsame : forall k, k <> i -> nth_error (thr s1) k = nth_error (thr s) k).
    { intros k Hne. rewrite Ht1. apply nth_error_upd_neq; auto. }
    destruct (IH s1 Ho1 Hnd') as (s2 & Hr2 & Ho2 & Hout & Hin).
    { intros k Hk. rewrite Hsame; [apply Hall; right; auto | intro; subst; auto]. }
    exists s2. repeat split; auto.
    + simpl. rewrite (nth_error_nth _ _ _ Hi).
      eapply run_app; eauto.
      replace (flat_map (fun i0 => map (fun a => (i0, a)) (nth i0 (thr s) [])) pi)
        with (flat_map (fun i0 => map (fun a => (i0, a)) (nth i0 (thr s1) [])) pi); auto.
      rewrite !flat_map_concat_map. f_equal. apply map_ext_in. intros k Hk.
      f_equal. assert (k <> i) by (intro; subst; auto).
      pose proof (Hsame _ H) as E.
      destruct (nth_error (thr s) k) as [p|] eqn:E1.
      * rewrite (nth_error_nth _ _ _ E1), (nth_error_nth _ _ _ E). reflexivity.
      * rewrite (nth_overflow _ _ (proj1 (nth_error_None _ _) E1)).
        rewrite (nth_overflow _ _ (proj1 (nth_error_None _ _) E)). reflexivity.
    + intros k Hk. simpl in Hk.
      rewrite Hout by (intro; apply Hk; auto). apply Hsame. intro; subst; apply Hk; auto.
    + intros k [Hk|Hk].
      * subst. rewrite Hout; auto. rewrite Ht1. eapply nth_error_upd_eq; eauto.
      * apply Hin; auto.
Qed.

Lemma accs_app : forall t1 t2, accs (t1 ++ t2) = accs t1 ++ accs t2.
Proof. intros. unfold accs. rewrite filter_app, map_app. reflexivity. Qed.

Lemma accs_thread : forall i p, accs (map (fun a => (i, a)) p) = repeat i (count_acc p).
Proof.
  induction p as [|a p IH]; simpl; auto.
  rewrite accs_cons. unfold count_acc in *. destruct a; simpl; auto. f_equal. auto.
Qed.

Lemma accs_serial_trace : forall hs pi,
  accs (serial_trace hs pi) = serial_accs (map (fun k => (k, count_acc (nth k hs []))) pi).
Proof.
  induction pi as [|i pi IH]; auto.
  unfold serial_trace in *. cbn [flat_map map].
  rewrite accs_app, accs_thread, serial_accs_cons. f_equal. auto.
Qed.

Lemma forallb_null_intro : forall (l : list (list step)),
  (forall k p, nth_error l k = Some p -> p = []) -> forallb null l = true.
Proof.
  induction l as [|x l IH]; simpl; intros H; auto.
  rewrite (H 0 x eq_refl). simpl. apply IH. intros k p Hk. apply (H (S k)). auto.
Qed.

(* every complete execution of a set of one-section requests has the same global access
   order as the serial schedule that runs the requests one at a time, to completion, in
   lock-acquisition order -- and that serial schedule is itself an execution *)
Lemma well_locked_serializable : forall hs tr s,
  forallb one_section hs = true -> run (init hs) tr s -> finished s = true ->
  exists pi s2,
    NoDup pi /\ (forall k, In k pi -> k < List.length hs) /\
    run (init hs) (serial_trace hs pi) s2 /\ finished s2 = true /\
    accs (serial_trace hs pi) = accs tr.
Proof.
  intros hs tr s Hone Hrun Hfin.
  pose proof (forallb_one_section_wl _ Hone) as Hwl.
  destruct (sections_complete _ _ _ Hrun (OS_init _ Hone) (WL_init _ Hwl) Hfin) as (G1 & G2 & G3 & G4).
  exists (lockers tr).
  destruct (serial_run (lockers tr) (init hs)) as (s2 & Hr2 & Ho2 & Hout & Hin); auto.
  { intros k Hk. destruct (G3 _ Hk) as (_ & b & Hb). exists b. split; auto.
    pose proof (OS_init _ Hone _ _ Hb) as H. exact H. }
  exists s2. repeat split; auto.
  - intros k Hk. destruct (G3 _ Hk) as (_ & b & Hb). simpl in Hb. apply nth_error_Some. congruence.
  - unfold finished. apply forallb_null_intro. intros k p Hk.
    destruct (in_dec Nat.eq_dec k (lockers tr)) as [Hi|Hni].
    + rewrite (Hin _ Hi) in Hk. congruence.
    + rewrite (Hout _ Hni) in Hk. destruct (G4 _ _ Hk Hni) as [Hx|Hx]; auto. discriminate.
  - rewrite accs_serial_trace. rewrite (sections_serial _ _ _ Hwl Hrun). rewrite G1. reflexivity.
Qed.

(* ---------------------------------------------------------------- rendezvous, packaged *)

Lemma fetch_visible : forall f r n tr s k rest,
  creator_pre (fetch_system f r 0) CNone = true -> reader_ok r = true ->
  run (init [fetch_system f r n]) tr s ->
  nth_error (thr s) (S (S k)) = Some (Access :: rest) ->
  ch s = CClosed /\ nth_error (thr s) 1 = Some [].
Proof.
  intros f r n tr s k rest Hf Hr Hrun. apply fetch_visible_state.
  eapply binv_run; eauto. apply binv_init; auto.
Qed.

Lemma fetch_wait : forall f r n tr s k rest,
  creator_pre (fetch_system f r 0) CNone = true -> reader_ok r = true ->
  run (init [fetch_system f r n]) tr s ->
  nth_error (thr s) (S (S k)) = Some (Wait :: rest) ->
  (ch s = COpen /\ exec s (S (S k)) = None) \/ (ch s = CClosed /\ nth_error (thr s) 1 = Some []).
Proof.
  intros f r n tr s k rest Hf Hr Hrun. apply fetch_wait_state.
  eapply binv_run; eauto. apply binv_init; auto.
Qed.

Lemma fetch_no_deadlock : forall f r n tr s,
  creator_pre (fetch_system f r 0) CNone = true -> reader_ok r = true ->
  run (init [fetch_system f r n]) tr s ->
  finished s = false -> exists i s', exec s i = Some s'.
Proof.
  intros f r n tr s Hf Hr Hrun. apply fetch_progress_state.
  eapply binv_run; eauto. apply binv_init; auto.
Qed.

Lemma fetch_refuted :
  exists sched s,
    run_sched (init [fetch_system [Spawn [ChanMake; Access; Signal]] [Wait; Access] 1]) sched = Some s /\
    nth_error (thr s) 2 = Some [Access] /\ nth_error (thr s) 1 = Some [ChanMake; Access; Signal].
Proof. exists [0; 0; 2]. eexists. repeat split. Qed.
