(* C15 -- lemmas.  Everything is proved once, for all handler sets and all schedules. *)
From Coq Require Import List Arith Bool Lia String Permutation.
From NV Require Import C15_Model.
Import ListNotations.

(* ---------------------------------------------------------------- lists *)

Lemma length_upd : forall A (l : list A) i x, List.length (upd l i x) = List.length l.
Proof. induction l; destruct i; simpl; auto. Qed.

Lemma nth_error_upd_eq : forall A (l : list A) i x y,
  nth_error l i = Some y -> nth_error (upd l i x) i = Some x.
Proof. induction l; destruct i; simpl; intros; try discriminate; eauto. Qed.

Lemma nth_error_upd_neq : forall A (l : list A) i k x,
  k <> i -> nth_error (upd l i x) k = nth_error l k.
Proof.
  induction l; destruct i, k; simpl; intros; auto; try congruence.
Qed.

Lemma nth_error_upd : forall A (l : list A) i k x y,
  nth_error l i = Some y ->
  nth_error (upd l i x) k = if k =? i then Some x else nth_error l k.
Proof.
  intros. destruct (Nat.eqb_spec k i).
  - subst. eapply nth_error_upd_eq; eauto.
  - apply nth_error_upd_neq; auto.
Qed.

Lemma nth_error_snoc : forall A (l : list A) b k y,
  nth_error (l ++ [b]) k = Some y ->
  (k < List.length l /\ nth_error l k = Some y) \/ (k = List.length l /\ y = b).
Proof.
  intros. destruct (lt_dec k (List.length l)).
  - left. split; auto. rewrite nth_error_app1 in H; auto.
  - right. rewrite nth_error_app2 in H by lia.
    destruct (k - List.length l) eqn:E; simpl in H.
    + inversion H. split; auto. lia.
    + destruct n0; discriminate.
Qed.

(* ---------------------------------------------------------------- wl equations *)

Lemma bodies_ok_spawn : forall b, bodies_ok (Spawn b) = wl false b.
Proof. reflexivity. Qed.

Lemma wl_nil : forall h, wl h [] = negb h. Proof. reflexivity. Qed.
Lemma wl_lock : forall h r, wl h (Lock :: r) = negb h && wl true r. Proof. reflexivity. Qed.
Lemma wl_unlock : forall h r, wl h (Unlock :: r) = h && wl false r. Proof. reflexivity. Qed.
Lemma wl_access : forall h r, wl h (Access :: r) = h && wl h r. Proof. reflexivity. Qed.
Lemma wl_spawn : forall h b r, wl h (Spawn b :: r) = wl false b && wl h r. Proof. reflexivity. Qed.
Lemma wl_wait : forall h r, wl h (Wait :: r) = false. Proof. reflexivity. Qed.
Lemma wl_signal : forall h r, wl h (Signal :: r) = wl h r. Proof. reflexivity. Qed.
Lemma wl_chanmake : forall h r, wl h (ChanMake :: r) = wl h r. Proof. reflexivity. Qed.

(* ---------------------------------------------------------------- the invariant *)

Definition held (s : st) (i : nat) : bool :=
  match own s with Some j => j =? i | None => false end.

Definition WL (s : st) : Prop :=
  (forall i p, nth_error (thr s) i = Some p -> wl (held s i) p = true) /\
  (forall j, own s = Some j -> j < List.length (thr s)).

Lemma WL_init : forall hs, forallb well_locked hs = true -> WL (init hs).
Proof.
  intros hs H. split.
  - intros i p Hi. unfold held; simpl.
    rewrite forallb_forall in H. apply H. eapply nth_error_In; eauto.
  - simpl. discriminate.
Qed.

Ltac inv H := inversion H; subst; clear H.

Lemma next_exec_thread : forall s i a,
  next s i = Some a -> exists r, nth_error (thr s) i = Some (a :: r).
Proof.
  unfold next. intros s i a H. destruct (nth_error (thr s) i) as [[|x r]|]; try discriminate.
  inv H. eauto.
Qed.

(* what a step of a well-locked system does to the lock *)
Lemma exec_own : forall s i a s',
  WL s -> next s i = Some a -> exec s i = Some s' ->
  match a with
  | Lock => own s = None /\ own s' = Some i
  | Unlock => own s = Some i /\ own s' = None
  | Access => own s = Some i /\ own s' = Some i
  | _ => own s' = own s
  end.
Proof.
  intros s i a s' [Hwl _] Hn He.
  destruct (next_exec_thread _ _ _ Hn) as [r Hr].
  specialize (Hwl _ _ Hr). unfold exec in He. rewrite Hr in He.
  unfold held in Hwl.
  destruct a; simpl in He.
  - destruct (own s); inv He. auto.
  - destruct (own s) as [j|]; try discriminate.
    destruct (Nat.eqb_spec j i); inv He. auto.
  - rewrite wl_access in Hwl. apply andb_prop in Hwl as [Hh _].
    destruct (own s) as [j|]; try discriminate.
    apply Nat.eqb_eq in Hh. subst. inv He. auto.
  - inv He. auto.
  - destruct (ch s); inv He; auto.
  - inv He; auto.
  - inv He; auto.
Qed.

Lemma exec_thr : forall s i s' a r,
  nth_error (thr s) i = Some (a :: r) -> exec s i = Some s' ->
  thr s' = match a with Spawn b => upd (thr s) i r ++ [b] | _ => upd (thr s) i r end.
Proof.
  intros s i s' a r Hr He. unfold exec in He. rewrite Hr in He.
  destruct a; simpl in He.
  - destruct (own s); inv He; auto.
  - destruct (own s) as [j|]; try discriminate. destruct (j =? i); inv He; auto.
  - inv He; auto.
  - inv He; auto.
  - destruct (ch s); inv He; auto.
  - inv He; auto.
  - inv He; auto.
Qed.

Lemma WL_step : forall s i s', WL s -> exec s i = Some s' -> WL s'.
Proof.
  intros s i s' HWL He.
  assert (exists a, next s i = Some a) as [a Hn].
  { unfold exec in He. unfold next. destruct (nth_error (thr s) i) as [[|x r]|]; try discriminate. eauto. }
  destruct (next_exec_thread _ _ _ Hn) as [r Hr].
  pose proof (exec_own _ _ _ _ HWL Hn He) as Hown.
  pose proof (exec_thr _ _ _ _ _ Hr He) as Hthr.
  destruct HWL as [Hwl Hlt].
  pose proof (Hwl _ _ Hr) as Hi.
  assert (Hlen : i < List.length (thr s)) by (apply nth_error_Some; congruence).
  (* generic facts about the other threads *)
  assert (Hother : forall k p, k <> i -> nth_error (thr s) k = Some p -> wl (held s k) p = true)
    by (intros; eauto).
  split.
  - intros k p Hk. unfold held in *.
    destruct a; rewrite Hthr in Hk.
    + (* Lock *) destruct Hown as [Ho Ho']. rewrite Ho'. rewrite Ho in *.
      rewrite (nth_error_upd _ _ _ _ _ _ Hr) in Hk.
      destruct (Nat.eqb_spec k i).
      * inv Hk. rewrite Nat.eqb_refl. rewrite wl_lock in Hi. apply andb_prop in Hi as [_ Hi]. auto.
      * replace (i =? k) with false by (symmetry; apply Nat.eqb_neq; auto).
        apply (Hwl _ _ Hk).
    + (* Unlock *) destruct Hown as [Ho Ho']. rewrite Ho'. rewrite Ho in *.
      rewrite (nth_error_upd _ _ _ _ _ _ Hr) in Hk.
      destruct (Nat.eqb_spec k i).
      * inv Hk. rewrite Nat.eqb_refl in Hi. rewrite wl_unlock in Hi. apply andb_prop in Hi as [_ Hi]. auto.
      * specialize (Hwl _ _ Hk). replace (i =? k) with false in Hwl by (symmetry; apply Nat.eqb_neq; auto).
        auto.
    + (* Access *) destruct Hown as [Ho Ho']. rewrite Ho'. rewrite Ho in *.
      rewrite (nth_error_upd _ _ _ _ _ _ Hr) in Hk.
      destruct (Nat.eqb_spec k i).
      * inv Hk. rewrite wl_access in Hi. apply andb_prop in Hi as [_ Hi]. rewrite Nat.eqb_refl in *. auto.
      * apply (Hwl _ _ Hk).
    + (* Spawn *) rewrite Hown.
      apply nth_error_snoc in Hk. rewrite length_upd in Hk.
      rewrite wl_spawn in Hi. apply andb_prop in Hi as [Hb Hi].
      destruct Hk as [[Hk1 Hk]|[Hk1 Hk]].
      * rewrite (nth_error_upd _ _ _ _ _ _ Hr) in Hk.
        destruct (Nat.eqb_spec k i).
        -- inv Hk. auto.
        -- apply (Hwl _ _ Hk).
      * subst. destruct (own s) as [j|] eqn:Ho; auto.
        specialize (Hlt _ eq_refl).
        replace (j =? List.length (thr s)) with false by (symmetry; apply Nat.eqb_neq; lia). auto.
    + (* Wait *) rewrite wl_wait in Hi. discriminate.
    + (* Signal *) rewrite Hown. rewrite (nth_error_upd _ _ _ _ _ _ Hr) in Hk.
      destruct (Nat.eqb_spec k i).
      * inv Hk. rewrite wl_signal in Hi. auto.
      * apply (Hwl _ _ Hk).
    + (* ChanMake *) rewrite Hown. rewrite (nth_error_upd _ _ _ _ _ _ Hr) in Hk.
      destruct (Nat.eqb_spec k i).
      * inv Hk. rewrite wl_chanmake in Hi. auto.
      * apply (Hwl _ _ Hk).
  - intros j Hj.
    assert (List.length (thr s) <= List.length (thr s')).
    { rewrite Hthr. destruct a; try rewrite app_length; rewrite length_upd; lia. }
    destruct a; try (rewrite Hown in Hj; specialize (Hlt _ Hj); lia).
    + destruct Hown as [_ Ho']. rewrite Ho' in Hj. inv Hj. lia.
    + destruct Hown as [_ Ho']. rewrite Ho' in Hj. discriminate.
    + destruct Hown as [_ Ho']. rewrite Ho' in Hj. inv Hj. lia.
Qed.

Lemma run_WL : forall s tr s', run s tr s' -> WL s -> WL s'.
Proof. induction 1; intros; auto. apply IHrun. eapply WL_step; eauto. Qed.

(* ---------------------------------------------------------------- race freedom *)

Lemma access_holds_lock : forall s i, WL s -> next s i = Some Access -> own s = Some i.
Proof.
  intros s i [Hwl _] Hn. destruct (next_exec_thread _ _ _ Hn) as [r Hr].
  specialize (Hwl _ _ Hr). rewrite wl_access in Hwl. apply andb_prop in Hwl as [Hh _].
  unfold held in Hh. destruct (own s); try discriminate. apply Nat.eqb_eq in Hh. congruence.
Qed.

Lemma race_free_state : forall s i j,
  WL s -> next s i = Some Access -> next s j = Some Access -> i = j.
Proof.
  intros s i j H Hi Hj.
  pose proof (access_holds_lock _ _ H Hi). pose proof (access_holds_lock _ _ H Hj). congruence.
Qed.

Lemma well_locked_race_free : forall hs tr s i j,
  forallb well_locked hs = true -> run (init hs) tr s ->
  next s i = Some Access -> next s j = Some Access -> i = j.
Proof.
  intros. eapply race_free_state; eauto. eapply run_WL; eauto. apply WL_init; auto.
Qed.

(* an Access is never enabled for a thread while another thread holds the lock, and every
   Access is executed by the lock owner *)
Lemma well_locked_access_owner : forall hs tr s i,
  forallb well_locked hs = true -> run (init hs) tr s ->
  next s i = Some Access -> own s = Some i.
Proof.
  intros. eapply access_holds_lock; eauto. eapply run_WL; eauto. apply WL_init; auto.
Qed.

(* ---------------------------------------------------------------- no deadlock *)

Lemma unfinished_thread : forall (l : list (list step)),
  forallb null l = false -> exists i a r, nth_error l i = Some (a :: r).
Proof.
  induction l as [|p l IH]; simpl; intros H; try discriminate.
  destruct p as [|a r].
  - simpl in H. destruct (IH H) as (i & a & r & Hi). exists (S i), a, r. auto.
  - exists 0, a, r. auto.
Qed.

Lemma no_deadlock_state : forall s,
  WL s -> finished s = false -> exists i s', exec s i = Some s'.
Proof.
  intros s [Hwl Hlt] Hf. unfold finished in Hf.
  destruct (own s) as [j|] eqn:Ho.
  - (* the owner can always move *)
    specialize (Hlt _ eq_refl).
    destruct (nth_error (thr s) j) as [p|] eqn:Hp; [|apply nth_error_None in Hp; lia].
    specialize (Hwl _ _ Hp). unfold held in Hwl. rewrite Ho, Nat.eqb_refl in Hwl.
    exists j. unfold exec. rewrite Hp, Ho.
    destruct p as [|a r]; [discriminate|].
    destruct a; simpl; eauto.
    + rewrite wl_lock in Hwl. discriminate.
    + rewrite Nat.eqb_refl. eauto.
    + rewrite wl_wait in Hwl. discriminate.
  - destruct (unfinished_thread _ Hf) as (i & a & r & Hi).
    specialize (Hwl _ _ Hi). unfold held in Hwl. rewrite Ho in Hwl.
    exists i. unfold exec. rewrite Hi, Ho.
    destruct a; simpl; eauto.
    + rewrite wl_unlock in Hwl. discriminate.
    + rewrite wl_wait in Hwl. discriminate.
Qed.

Lemma no_deadlock : forall hs tr s,
  forallb well_locked hs = true -> run (init hs) tr s ->
  finished s = false -> exists i s', exec s i = Some s'.
Proof.
  intros. apply no_deadlock_state; auto. eapply run_WL; eauto. apply WL_init; auto.
Qed.
