(* C15 -- lemmas.  Everything is proved once, for all handler sets and all schedules. *)
From Coq Require Import List Arith Bool Lia String Permutation.
From NV Require Import C15_Model.
Import ListNotations.

(* ---------------------------------------------------------------- lists *)

Lemma length_upd : forall A (l : list A) i x, List.length (upd l i x) = List.length l.
Proof. induction l; destruct i; simpl; auto. Qed.

Lemma nth_error_upd_eq : forall A (l : list A) i x y,
  nth_error l i = Some y -> nth_error (upd l i x) i = Some x.
Proof. induction l; destruct i; simpl; intros; try discriminate; eauto. Qed.

Lemma nth_error_upd_neq : forall A (l : list A) i k x,
  k <> i -> nth_error (upd l i x) k = nth_error l k.
Proof.
  induction l; destruct i, k; simpl; intros; auto; try congruence.
Qed.

Lemma nth_error_upd : forall A (l : list A) i k x y,
  nth_error l i = Some y ->
  nth_error (upd l i x) k = if k =? i then Some x else nth_error l k.
Proof.
  intros. destruct (Nat.eqb_spec k i).
  - subst. eapply nth_error_upd_eq; eauto.
  - apply nth_error_upd_neq; auto.
Qed.

Lemma nth_error_snoc : forall A (l : list A) b k y,
  nth_error (l ++ [b]) k = Some y ->
  (k < List.length l /\ nth_error l k = Some y) \/ (k = List.length l /\ y = b).
Proof.
  intros. destruct (lt_dec k (List.length l)).
  - left. split; auto. rewrite nth_error_app1 in H; auto.
  - right. rewrite nth_error_app2 in H by lia.
    destruct (k - List.length l) eqn:E; simpl in H.
    + inversion H. split; auto. lia.
    + destruct n0; discriminate.
Qed.

(* ---------------------------------------------------------------- wl equations *)

Lemma bodies_ok_spawn : forall b, bodies_ok (Spawn b) = wl false b.
Proof. reflexivity. Qed.

Lemma wl_nil : forall h, wl h [] = negb h. Proof. reflexivity. Qed.
Lemma wl_lock : forall h r, wl h (Lock :: r) = negb h && wl true r. Proof. reflexivity. Qed.
Lemma wl_unlock : forall h r, wl h (Unlock :: r) = h && wl false r. Proof. reflexivity. Qed.
Lemma wl_access : forall h r, wl h (Access :: r) = h && wl h r. Proof. reflexivity. Qed.
Lemma wl_spawn : forall h b r, wl h (Spawn b :: r) = wl false b && wl h r. Proof. reflexivity. Qed.
Lemma wl_wait : forall h r, wl h (Wait :: r) = false. Proof. reflexivity. Qed.
Lemma wl_signal : forall h r, wl h (Signal :: r) = wl h r. Proof. reflexivity. Qed.
Lemma wl_chanmake : forall h r, wl h (ChanMake :: r) = wl h r. Proof. reflexivity. Qed.

(* ---------------------------------------------------------------- the invariant *)

Definition held (s : st) (i : nat) : bool :=
  match own s with Some j => j =? i | None => false end.

Definition WL (s : st) : Prop :=
  (forall i p, nth_error (thr s) i = Some p -> wl (held s i) p = true) /\
  (forall j, own s = Some j -> j < List.length (thr s)).

Lemma WL_init : forall hs, forallb well_locked hs = true -> WL (init hs).
Proof.
  intros hs H. split.
  - intros i p Hi. unfold held; simpl.
    rewrite forallb_forall in H. apply H. eapply nth_error_In; eauto.
  - simpl. discriminate.
Qed.

Ltac inv H := inversion H; subst; clear H.

Lemma next_exec_thread : forall s i a,
  next s i = Some a -> exists r, nth_error (thr s) i = Some (a :: r).
Proof.
  unfold next. intros s i a H. destruct (nth_error (thr s) i) as [[|x r]|]; try discriminate.
  inv H. eauto.
Qed.

(* what a step of a well-locked system does to the lock *)
Lemma exec_own : forall s i a s',
  WL s -> next s i = Some a -> exec s i = Some s' ->
  match a with
  | Lock => own s = None /\ own s' = Some i
  | Unlock => own s = Some i /\ own s' = None
  | Access => own s = Some i /\ own s' = Some i
  | _ => own s' = own s
  end.
Proof.
  intros s i a s' [Hwl _] Hn He.
  destruct (next_exec_thread _ _ _ Hn) as [r Hr].
  specialize (Hwl _ _ Hr). unfold exec in He. rewrite Hr in He.
  unfold held in Hwl.
  destruct a; simpl in He.
  - destruct (own s); inv He. auto.
  - destruct (own s) as [j|]; try discriminate.
    destruct (Nat.eqb_spec j i); inv He. auto.
  - rewrite wl_access in Hwl. apply andb_prop in Hwl as [Hh _].
    destruct (own s) as [j|]; try discriminate.
    apply Nat.eqb_eq in Hh. subst. inv He. auto.
  - inv He. auto.
  - destruct (ch s); inv He; auto.
  - inv He; auto.
  - inv He; auto.
Qed.

Lemma exec_thr : forall s i s' a r,
  nth_error (thr s) i = Some (a :: r) -> exec s i = Some s' ->
  thr s' = match a with Spawn b => upd (thr s) i r ++ [b] | _ => upd (thr s) i r end.
Proof.
  intros s i s' a r Hr He. unfold exec in He. rewrite Hr in He.
  destruct a; simpl in He.
  - destruct (own s); inv He; auto.
  - destruct (own s) as [j|]; try discriminate. destruct (j =? i); inv He; auto.
  - inv He; auto.
  - inv He; auto.
  - destruct (ch s); inv He; auto.
  - inv He; auto.
  - inv He; auto.
Qed.

Lemma WL_step : forall s i s', WL s -> exec s i = Some s' -> WL s'.
Proof.
  intros s i s' HWL He.
  assert (exists a, next s i = Some a) as [a Hn].
  { unfold exec in He. unfold next. destruct (nth_error (thr s) i) as [[|x r]|]; try discriminate. eauto. }
  destruct (next_exec_thread _ _ _ Hn) as [r Hr].
  pose proof (exec_own _ _ _ _ HWL Hn He) as Hown.
  pose proof (exec_thr _ _ _ _ _ Hr He) as Hthr.
  destruct HWL as [Hwl Hlt].
  pose proof (Hwl _ _ Hr) as Hi.
  assert (Hlen : i < List.length (thr s)) by (apply nth_error_Some; congruence).
  (* generic facts about the other threads *)
  assert (Hother : forall k p, k <> i -> nth_error (thr s) k = Some p -> wl (held s k) p = true)
    by (intros; eauto).
  split.
  - intros k p Hk. unfold held in *.
    destruct a; rewrite Hthr in Hk.
    + (* Lock *) destruct Hown as [Ho Ho']. rewrite Ho'. rewrite Ho in *.
      rewrite (nth_error_upd _ _ _ _ _ _ Hr) in Hk.
      destruct (Nat.eqb_spec k i).
      * inv Hk. rewrite Nat.eqb_refl. rewrite wl_lock in Hi. apply andb_prop in Hi as [_ Hi]. auto.
      * replace (i =? k) with false by (symmetry; apply Nat.eqb_neq; auto).
        apply (Hwl _ _ Hk).
    + (* Unlock *) destruct Hown as [Ho Ho']. rewrite Ho'. rewrite Ho in *.
      rewrite (nth_error_upd _ _ _ _ _ _ Hr) in Hk.
      destruct (Nat.eqb_spec k i).
      * inv Hk. rewrite Nat.eqb_refl in Hi. rewrite wl_unlock in Hi. apply andb_prop in Hi as [_ Hi]. auto.
      * specialize (Hwl _ _ Hk). replace (i =? k) with false in Hwl by (symmetry; apply Nat.eqb_neq; auto).
        auto.
    + (* Access *) destruct Hown as [Ho Ho']. rewrite Ho'. rewrite Ho in *.
      rewrite (nth_error_upd _ _ _ _ _ _ Hr) in Hk.
      destruct (Nat.eqb_spec k i).
      * inv Hk. rewrite wl_access in Hi. apply andb_prop in Hi as [_ Hi]. rewrite Nat.eqb_refl in *. auto.
      * apply (Hwl _ _ Hk).
    + (* Spawn *) rewrite Hown.
      apply nth_error_snoc in Hk. rewrite length_upd in Hk.
      rewrite wl_spawn in Hi. apply andb_prop in Hi as [Hb Hi].
      destruct Hk as [[Hk1 Hk]|[Hk1 Hk]].
      * rewrite (nth_error_upd _ _ _ _ _ _ Hr) in Hk.
        destruct (Nat.eqb_spec k i).
        -- inv Hk. auto.
        -- apply (Hwl _ _ Hk).
      * subst. destruct (own s) as [j|] eqn:Ho; auto.
        specialize (Hlt _ eq_refl).
        replace (j =? List.length (thr s)) with false by (symmetry; apply Nat.eqb_neq; lia). auto.
    + (* Wait *) rewrite wl_wait in Hi. discriminate.
    + (* Signal *) rewrite Hown. rewrite (nth_error_upd _ _ _ _ _ _ Hr) in Hk.
      destruct (Nat.eqb_spec k i).
      * inv Hk. rewrite wl_signal in Hi. auto.
      * apply (Hwl _ _ Hk).
    + (* ChanMake *) rewrite Hown. rewrite (nth_error_upd _ _ _ _ _ _ Hr) in Hk.
      destruct (Nat.eqb_spec k i).
      * inv Hk. rewrite wl_chanmake in Hi. auto.
      * apply (Hwl _ _ Hk).
  - intros j Hj.
    assert (List.length (thr s) <= List.length (thr s')).
    { rewrite Hthr. destruct a; try rewrite app_length; rewrite length_upd; lia. }
    destruct a; try (rewrite Hown in Hj; specialize (Hlt _ Hj); lia).
    + destruct Hown as [_ Ho']. rewrite Ho' in Hj. inv Hj. lia.
    + destruct Hown as [_ Ho']. rewrite Ho' in Hj. discriminate.
    + destruct Hown as [_ Ho']. rewrite Ho' in Hj. inv Hj. lia.
Qed.

Lemma run_WL : forall s tr s', run s tr s' -> WL s -> WL s'.
Proof. induction 1; intros; auto. apply IHrun. eapply WL_step; eauto. Qed.

(* ---------------------------------------------------------------- race freedom *)

Lemma access_holds_lock : forall s i, WL s -> next s i = Some Access -> own s = Some i.
Proof.
  intros s i [Hwl _] Hn. destruct (next_exec_thread _ _ _ Hn) as [r Hr].
  specialize (Hwl _ _ Hr). rewrite wl_access in Hwl. apply andb_prop in Hwl as [Hh _].
  unfold held in Hh. destruct (own s); try discriminate. apply Nat.eqb_eq in Hh. congruence.
Qed.

Lemma race_free_state : forall s i j,
  WL s -> next s i = Some Access -> next s j = Some Access -> i = j.
Proof.
  intros s i j H Hi Hj.
  pose proof (access_holds_lock _ _ H Hi). pose proof (access_holds_lock _ _ H Hj). congruence.
Qed.

Lemma well_locked_race_free : forall hs tr s i j,
  forallb well_locked hs = true -> run (init hs) tr s ->
  next s i = Some Access -> next s j = Some Access -> i = j.
Proof.
  intros. eapply race_free_state; eauto. eapply run_WL; eauto. apply WL_init; auto.
Qed.

(* an Access is never enabled for a thread while another thread holds the lock, and every
   Access is executed by the lock owner *)
Lemma well_locked_access_owner : forall hs tr s i,
  forallb well_locked hs = true -> run (init hs) tr s ->
  next s i = Some Access -> own s = Some i.
Proof.
  intros. eapply access_holds_lock; eauto. eapply run_WL; eauto. apply WL_init; auto.
Qed.

(* ---------------------------------------------------------------- no deadlock *)

Lemma unfinished_thread : forall (l : list (list step)),
  forallb null l = false -> exists i a r, nth_error l i = Some (a :: r).
Proof.
  induction l as [|p l IH]; simpl; intros H; try discriminate.
  destruct p as [|a r].
  - simpl in H. destruct (IH H) as (i & a & r & Hi). exists (S i), a, r. auto.
  - exists 0, a, r. auto.
Qed.

Lemma no_deadlock_state : forall s,
  WL s -> finished s = false -> exists i s', exec s i = Some s'.
Proof.
  intros s [Hwl Hlt] Hf. unfold finished in Hf.
  destruct (own s) as [j|] eqn:Ho.
  - (* the owner can always move *)
    specialize (Hlt _ eq_refl).
    destruct (nth_error (thr s) j) as [p|] eqn:Hp; [|apply nth_error_None in Hp; lia].
    specialize (Hwl _ _ Hp). unfold held in Hwl. rewrite Ho, Nat.eqb_refl in Hwl.
    exists j. unfold exec. rewrite Hp, Ho.
    destruct p as [|a r]; [discriminate|].
    destruct a; simpl; eauto.
    + rewrite wl_lock in Hwl. discriminate.
    + rewrite Nat.eqb_refl. eauto.
    + rewrite wl_wait in Hwl. discriminate.
  - destruct (unfinished_thread _ Hf) as (i & a & r & Hi).
    specialize (Hwl _ _ Hi). unfold held in Hwl. rewrite Ho in Hwl.
    exists i. unfold exec. rewrite Hi, Ho.
    destruct a; simpl; eauto.
    + rewrite wl_unlock in Hwl. discriminate.
    + rewrite wl_wait in Hwl. discriminate.
Qed.

Lemma no_deadlock : forall hs tr s,
  forallb well_locked hs = true -> run (init hs) tr s ->
  finished s = false -> exists i s', exec s i = Some s'.
Proof.
  intros. apply no_deadlock_state; auto. eapply run_WL; eauto. apply WL_init; auto.
Qed.

(* ---------------------------------------------------------------- termination *)

Lemma map_upd : forall A B (f : A -> B) l i x, map f (upd l i x) = upd (map f l) i (f x).
Proof. induction l; destruct i; simpl; intros; auto. f_equal. auto. Qed.

Lemma list_sum_upd : forall l i x y,
  nth_error l i = Some y -> list_sum (upd l i x) + y = list_sum l + x.
Proof.
  induction l; destruct i; simpl; intros; try discriminate.
  - inv H. lia.
  - specialize (IHl _ x _ H). lia.
Qed.

Lemma list_sum_snoc : forall l x, list_sum (l ++ [x]) = list_sum l + x.
Proof. intros. rewrite list_sum_app. simpl. lia. Qed.

Lemma exec_total : forall s i s', exec s i = Some s' -> S (total s') = total s.
Proof.
  intros s i s' He.
  assert (exists a r, nth_error (thr s) i = Some (a :: r)) as (a & r & Hr).
  { unfold exec in He. destruct (nth_error (thr s) i) as [[|x r]|]; try discriminate. eauto. }
  pose proof (exec_thr _ _ _ _ _ Hr He) as Hthr.
  unfold total. rewrite Hthr.
  assert (Hm : nth_error (map psize (thr s)) i = Some (psize (a :: r))) by (apply map_nth_error; auto).
  pose proof (list_sum_upd _ _ (psize r) _ Hm) as Hs.
  assert (Hp : psize (a :: r) = ssize a + psize r) by reflexivity.
  destruct a; try (rewrite map_upd; simpl in Hp; lia).
  rewrite map_app, list_sum_app, map_upd. simpl.
  change (list_sum (map ssize body)) with (psize body) in Hp. simpl in Hp.
  change (list_sum (map ssize body)) with (psize body) in Hp. lia.
Qed.

Lemma run_length : forall s tr s', run s tr s' -> List.length tr + total s' = total s.
Proof.
  induction 1; simpl; auto. apply exec_total in H0. lia.
Qed.

(* ---------------------------------------------------------------- serializability (sections) *)

Lemma accs_cons : forall i a tr,
  accs ((i, a) :: tr) = match a with Access => i :: accs tr | _ => accs tr end.
Proof. intros. unfold accs. simpl. destruct a; reflexivity. Qed.

Lemma serial_accs_cons : forall i k secs,
  serial_accs ((i, k) :: secs) = repeat i k ++ serial_accs secs.
Proof. reflexivity. Qed.

Definition owner_prefix (s : st) (tr : list ev) : list nat :=
  match own s with None => [] | Some i => repeat i (cnt i tr) end.

Lemma sections_serial_gen : forall s tr s',
  run s tr s' -> WL s -> accs tr = owner_prefix s tr ++ serial_accs (sections tr).
Proof.
  induction 1 as [s|s i a s1 tr s2 Hn He Hrun IH]; intros HWL.
  - unfold owner_prefix. destruct (own s); reflexivity.
  - pose proof (exec_own _ _ _ _ HWL Hn He) as Hown.
    specialize (IH (WL_step _ _ _ HWL He)).
    rewrite accs_cons. unfold owner_prefix in *.
    destruct a.
    + destruct Hown as [Ho Ho']. rewrite Ho. rewrite Ho' in IH.
      change (sections ((i, Lock) :: tr)) with ((i, cnt i tr) :: sections tr).
      rewrite serial_accs_cons. exact IH.
    + destruct Hown as [Ho Ho']. rewrite Ho. rewrite Ho' in IH. simpl.
      rewrite Nat.eqb_refl. simpl. exact IH.
    + destruct Hown as [Ho Ho']. rewrite Ho. rewrite Ho' in IH. simpl.
      rewrite Nat.eqb_refl. simpl. f_equal. exact IH.
    + rewrite Hown in IH. destruct (own s) as [j|]; simpl; auto.
      destruct (i =? j); exact IH.
    + rewrite Hown in IH. destruct (own s) as [j|]; simpl; auto.
      destruct (i =? j); exact IH.
    + rewrite Hown in IH. destruct (own s) as [j|]; simpl; auto.
      destruct (i =? j); exact IH.
    + rewrite Hown in IH. destruct (own s) as [j|]; simpl; auto.
      destruct (i =? j); exact IH.
Qed.

(* the global access order of ANY execution of a well-locked handler set is the concatenation
   of its critical sections in lock-acquisition order: sections never interleave and nothing
   is accessed outside a section *)
Lemma sections_serial : forall hs tr s,
  forallb well_locked hs = true -> run (init hs) tr s ->
  accs tr = serial_accs (sections tr).
Proof.
  intros hs tr s H Hr.
  apply (sections_serial_gen _ _ _ Hr (WL_init _ H)).
Qed.

(* ---------------------------------------------------------------- rendezvous *)

Lemma forallb_upd : forall A (P : A -> bool) l k x,
  forallb P l = true -> P x = true -> forallb P (upd l k x) = true.
Proof.
  induction l; destruct k; simpl; intros; auto;
  apply andb_prop in H as [H1 H2]; apply andb_true_intro; auto.
Qed.

Lemma forallb_nth : forall A (P : A -> bool) l k y,
  forallb P l = true -> nth_error l k = Some y -> P y = true.
Proof.
  intros. rewrite forallb_forall in H. apply H. eapply nth_error_In; eauto.
Qed.

Lemma body_ok_nonnil : forall b, body_ok b = true -> b <> [].
Proof. destruct b; simpl; congruence. Qed.

Lemma fetcher_ok_body : forall b c, body_ok b = true -> fetcher_ok b c = is_open c.
Proof. destruct b; simpl; intros; try discriminate. rewrite H. reflexivity. Qed.

Lemma reader_state_closed : forall c r, reader_state c r = true -> reader_state CClosed r = true.
Proof.
  unfold reader_state. intros c r H. apply orb_prop in H as [H|H].
  - rewrite H. reflexivity.
  - apply andb_prop in H as [H _]. rewrite H. simpl. apply orb_true_r.
Qed.

Lemma binv_step : forall s i s', binv s = true -> exec s i = Some s' -> binv s' = true.
Proof.
  intros s i s' Hb He. unfold binv in Hb.
  destruct s as [t o c]; simpl in *.
  destruct t as [|c0 rest]; [discriminate|].
  destruct o; [discriminate|]. simpl in Hb.
  unfold exec in He; simpl in He.
  destruct i as [|[|k]]; simpl in He.
  - (* the creator *)
    destruct c0 as [|a r]; [discriminate|].
    destruct rest as [|f rs].
    + destruct a; simpl in Hb; try discriminate.
      * inv He. unfold binv; simpl. exact Hb.
      * apply andb_prop in Hb as [Hb1 Hb3]. apply andb_prop in Hb1 as [Hb1 Hb2].
        inv He. unfold binv; simpl. rewrite Hb3. simpl.
        rewrite (fetcher_ok_body _ _ Hb2). rewrite Hb1. reflexivity.
      * apply andb_prop in Hb as [Hb1 Hb2]. inv He. unfold binv; simpl. exact Hb2.
    + apply andb_prop in Hb as [Hb1 Hb3]. apply andb_prop in Hb1 as [Hb1 Hb2].
      unfold creator_post in Hb1. simpl in Hb1. apply andb_prop in Hb1 as [Ha Hr].
      destruct a; try discriminate.
      * inv He. unfold binv; simpl. unfold creator_post. rewrite Hr, Hb2, Hb3. reflexivity.
      * inv He. unfold binv; simpl. unfold creator_post. rewrite Hr, Hb2. simpl.
        rewrite forallb_app. rewrite Hb3. simpl. unfold reader_state. rewrite Ha. reflexivity.
  - (* the fetch goroutine *)
    destruct rest as [|f rs]; [discriminate|]. simpl in He.
    apply andb_prop in Hb as [Hb1 Hb3]. apply andb_prop in Hb1 as [Hb1 Hb2].
    destruct f as [|a r]; [discriminate|].
    simpl in Hb2. apply andb_prop in Hb2 as [Hbody Hopen].
    destruct a; try discriminate.
    + (* Access *)
      simpl in Hbody. inv He. unfold binv; simpl. rewrite Hb1. simpl.
      rewrite (fetcher_ok_body _ _ Hbody). rewrite Hopen. exact Hb3.
    + (* Signal *)
      destruct r; [|discriminate]. inv He. unfold binv; simpl. rewrite Hb1. simpl.
      clear - Hb3. induction rs; simpl in *; auto.
      apply andb_prop in Hb3 as [H1 H2]. rewrite (reader_state_closed _ _ H1). auto.
  - (* a reader *)
    destruct rest as [|f rs]; [discriminate|]. simpl in He.
    apply andb_prop in Hb as [Hb1 Hb3]. apply andb_prop in Hb1 as [Hb1 Hb2].
    destruct (nth_error rs k) as [[|a r]|] eqn:Hk; try discriminate.
    pose proof (forallb_nth _ _ _ _ _ Hb3 Hk) as Hrd.
    unfold reader_state in Hrd.
    destruct a; simpl in Hrd; try discriminate.
    + (* Access *)
      apply andb_prop in Hrd as [Hacc Hcl]. inv He. unfold binv; simpl.
      rewrite Hb1, Hb2. simpl. apply forallb_upd; auto.
      unfold reader_state. rewrite Hacc, Hcl. apply orb_true_r.
    + (* Wait *)
      rewrite orb_false_r in Hrd.
      assert (Hc : c = CClosed).
      { destruct c; try discriminate; auto.
        destruct f; simpl in Hb2; try discriminate.
        apply andb_prop in Hb2 as [_ Hx]. discriminate. }
      subst c. inv He. unfold binv; simpl. rewrite Hb1, Hb2. simpl.
      apply forallb_upd; auto. unfold reader_state. rewrite Hrd. apply orb_true_r.
Qed.

Lemma binv_run : forall s tr s', run s tr s' -> binv s = true -> binv s' = true.
Proof. induction 1; intros; auto. apply IHrun. eapply binv_step; eauto. Qed.

Lemma creator_post_app : forall p q,
  creator_post p = true -> creator_post q = true -> creator_post (p ++ q) = true.
Proof. unfold creator_post. intros. rewrite forallb_app, H, H0. reflexivity. Qed.

Lemma creator_pre_app : forall p c q,
  creator_pre p c = true -> creator_post q = true -> creator_pre (p ++ q) c = true.
Proof.
  induction p as [|a p IH]; simpl; intros c q Hp Hq; try discriminate.
  destruct a; try discriminate; auto.
  - apply andb_prop in Hp as [H1 H2]. rewrite H1. simpl.
    apply creator_post_app; auto.
  - apply andb_prop in Hp as [H1 H2]. rewrite H1. simpl. auto.
Qed.

Lemma creator_post_readers : forall r n, reader_ok r = true -> creator_post (repeat (Spawn r) n) = true.
Proof. induction n; simpl; intros; auto. unfold creator_post in *. simpl. rewrite H. simpl. auto. Qed.

Lemma binv_init : forall f r n,
  creator_pre (fetch_system f r 0) CNone = true -> reader_ok r = true ->
  binv (init [fetch_system f r n]) = true.
Proof.
  intros f r n Hf Hr. unfold binv, init; simpl.
  unfold fetch_system in *. simpl in Hf. rewrite app_nil_r in Hf.
  apply creator_pre_app; auto. apply creator_post_readers; auto.
Qed.

(* a reader that is about to access the pod's result slot does so after the fetch goroutine
   has finished (so it sees the result and no access of the goroutine is concurrent) *)
Lemma fetch_visible_state : forall s k r,
  binv s = true -> nth_error (thr s) (S (S k)) = Some (Access :: r) ->
  ch s = CClosed /\ nth_error (thr s) 1 = Some [].
Proof.
  intros s k r Hb Hk. unfold binv in Hb.
  destruct (thr s) as [|c0 [|f rs]]; simpl in Hk; try discriminate; try (destruct k; discriminate).
  { apply andb_prop in Hb as [_ Hb]. apply andb_prop in Hb as [Hb Hb3]. apply andb_prop in Hb as [_ Hb2].
    pose proof (forallb_nth _ _ _ _ _ Hb3 Hk) as Hrd. unfold reader_state in Hrd. simpl in Hrd.
    apply andb_prop in Hrd as [_ Hcl].
    destruct (ch s); try discriminate. split; auto.
    destruct f; auto. simpl in Hb2. apply andb_prop in Hb2 as [_ Hx]. discriminate. }
Qed.

(* a reader at its wait either blocks (fetch in flight) or passes with the fetch complete;
   it never slips through on a channel that does not exist yet *)
Lemma fetch_wait_state : forall s k r,
  binv s = true -> nth_error (thr s) (S (S k)) = Some (Wait :: r) ->
  (ch s = COpen /\ exec s (S (S k)) = None) \/ (ch s = CClosed /\ nth_error (thr s) 1 = Some []).
Proof.
  intros s k r Hb Hk. unfold binv in Hb. unfold exec. rewrite Hk.
  destruct (thr s) as [|c0 [|f rs]]; simpl in Hk; try discriminate; try (destruct k; discriminate).
  { apply andb_prop in Hb as [_ Hb]. apply andb_prop in Hb as [Hb Hb3]. apply andb_prop in Hb as [_ Hb2].
    destruct f; simpl in Hb2.
    + destruct (ch s); try discriminate. right. auto.
    + apply andb_prop in Hb2 as [_ Hx]. destruct (ch s); try discriminate. left. auto. }
Qed.

Lemma fetch_progress_state : forall s,
  binv s = true -> finished s = false -> exists i s', exec s i = Some s'.
Proof.
  intros s Hb Hf. unfold binv in Hb. unfold finished in Hf. unfold exec.
  destruct s as [t o c]; simpl in *.
  destruct t as [|c0 rest]; [discriminate|].
  destruct o; [discriminate|]. simpl in Hb.
  destruct c0 as [|a r0].
  - (* creator done *)
    destruct rest as [|f rs]; [discriminate|].
    apply andb_prop in Hb as [Hb Hb3]. apply andb_prop in Hb as [_ Hb2].
    destruct f as [|a r].
    + simpl in Hb2. destruct c; try discriminate.
      simpl in Hf.
      destruct (unfinished_thread _ Hf) as (k & a & r & Hk).
      pose proof (forallb_nth _ _ _ _ _ Hb3 Hk) as Hrd. unfold reader_state in Hrd.
      exists (S (S k)). simpl. rewrite Hk.
      destruct a; simpl in Hrd; try discriminate; eauto.
    + exists 1. simpl. simpl in Hb2. apply andb_prop in Hb2 as [Hbody _].
      destruct a; try discriminate; eauto.
  - exists 0. simpl.
    destruct rest as [|f rs].
    + destruct a; simpl in Hb; try discriminate; eauto.
    + apply andb_prop in Hb as [Hb _]. apply andb_prop in Hb as [Hb _].
      unfold creator_post in Hb. simpl in Hb. apply andb_prop in Hb as [Ha _].
      destruct a; try discriminate; eauto.
Qed.

Lemma run_sched_run : forall sched s s',
  run_sched s sched = Some s' -> exists tr, run s tr s' /\ map fst tr = sched.
Proof.
  induction sched as [|i r IH]; simpl; intros s s' H.
  - inv H. exists []. split; constructor.
  - destruct (exec s i) as [s1|] eqn:He; try discriminate.
    destruct (IH _ _ H) as (tr & Hr & Hm).
    assert (exists a, next s i = Some a) as [a Ha].
    { unfold exec in He. unfold next. destruct (nth_error (thr s) i) as [[|x q]|]; try discriminate. eauto. }
    exists ((i, a) :: tr). split; [econstructor; eauto|]. simpl. congruence.
Qed.
