(* C17: configuration precedence in pkg/agent/agent.go
     updateNodeConfig / updateGroupConfig / updateConfig / patchConfigStatus / sameConfigVersion
   as a state machine.  Executable model only -- no proofs in this file.

   A configuration object is abstracted to what the agent looks at:
     uid, generation        (sameConfigVersion)
     name                   (patchConfigStatus: metav1.Object.GetName)
     valid                  (cfgapi.Validator.Validate() == nil; objects without the method are valid)
     accept                 (the notify callback returns a nil error for it; a non-nil NON-fatal
                             error is modelled, fatal=true ends the process (log.Fatalf) and is
                             outside the model)
   The observable output of a step is the list of calls the agent makes, in order:
   notifyFn(cfg) and ConfigInterface.PatchStatus(name, nil | status{generation, ok}). *)
From Coq Require Import NArith List Bool.
Import ListNotations.
Open Scope N_scope.

Record cfg := { uid : N; gen : N; name : N; valid : bool; accept : bool }.

Record agent := { nodeC : option cfg; groupC : option cfg; cur : option cfg }.

Inductive ev := NodeEv (c : option cfg) | GroupEv (c : option cfg).

Inductive act :=
| Notify (c : cfg)                          (* a.notifyFn(cfg) *)
| PatchClear (nm : N)                       (* PatchStatus(prevName, status = nil) *)
| PatchStatus (nm : N) (g : N) (ok : bool). (* PatchStatus(currName, {generation, Success|Failure}) *)

Definition init : agent := {| nodeC := None; groupC := None; cur := None |}.

(* sameConfigVersion *)
Definition same_version (c1 c2 : option cfg) : bool :=
  match c1, c2 with
  | None, None => true
  | Some a, Some b => (uid a =? uid b) && (gen a =? gen b) && negb (gen a =? 0)
  | _, _ => false
  end.

(* patchConfigStatus(prev, curr, err); curr is never nil at its two call sites *)
Definition patch_status (prev : option cfg) (curr : cfg) (ok : bool) : list act :=
  match prev with
  | Some p => if name p =? name curr then [] else [PatchClear (name p)]
  | None => []
  end ++ [PatchStatus (name curr) (gen curr) ok].

(* updateConfig *)
Definition update_config (a : agent) (c : option cfg) : agent * list act :=
  match c with
  | None => (a, [])
  | Some c =>
      let a' := {| nodeC := nodeC a; groupC := groupC a; cur := Some c |} in
      if valid c
      then (a', Notify c :: patch_status (cur a) c (accept c))
      else (a', patch_status (cur a) c false)
  end.

(* updateNodeConfig / updateGroupConfig *)
Definition step (a : agent) (e : ev) : agent * list act :=
  match e with
  | NodeEv c =>
      if same_version c (nodeC a) then (a, [])
      else
        let a1 := {| nodeC := c; groupC := groupC a; cur := cur a |} in
        update_config a1 (match c with Some _ => c | None => groupC a end)
  | GroupEv c =>
      if same_version c (groupC a) then (a, [])
      else
        let a1 := {| nodeC := nodeC a; groupC := c; cur := cur a |} in
        match nodeC a with
        | Some _ => (a1, [])
        | None => update_config a1 c
        end
  end.

(* histories: state after, and all calls made during, a sequence of events (oldest first) *)
Fixpoint run_from (a : agent) (es : list ev) : agent * list act :=
  match es with
  | [] => (a, [])
  | e :: es' =>
      let (a1, o1) := step a e in
      let (a2, o2) := run_from a1 es' in
      (a2, o1 ++ o2)
  end.

Definition run (es : list ev) : agent * list act := run_from init es.
Definition state (es : list ev) : agent := fst (run es).
Definition acts (es : list ev) : list act := snd (run es).

Definition notified_of (l : list act) : list cfg :=
  flat_map (fun x => match x with Notify c => [c] | _ => [] end) l.
Definition notified (es : list ev) : list cfg := notified_of (acts es).
Definition last_notified (es : list ev) : option cfg := last (map Some (notified es)) None.

(* what the event streams say, independently of the agent's state *)
Fixpoint last_node_from (d : option cfg) (es : list ev) : option cfg :=
  match es with
  | [] => d
  | NodeEv c :: es' => last_node_from c es'
  | GroupEv _ :: es' => last_node_from d es'
  end.
Fixpoint last_group_from (d : option cfg) (es : list ev) : option cfg :=
  match es with
  | [] => d
  | GroupEv c :: es' => last_group_from c es'
  | NodeEv _ :: es' => last_group_from d es'
  end.
Definition last_node := last_node_from None.     (* node-specific resource that currently exists *)
Definition last_group := last_group_from None.   (* current group/default resource *)
Definition effective_of (n g : option cfg) : option cfg :=
  match n with Some _ => n | None => g end.
Definition effective (es : list ev) : option cfg := effective_of (last_node es) (last_group es).

Definition ev_cfg (e : ev) : list cfg :=
  match e with NodeEv (Some c) | GroupEv (Some c) => [c] | _ => [] end.
Definition cfgs_of (es : list ev) : list cfg := flat_map ev_cfg es.

(* ------------------------------------------------------------------ correspondence *)

Definition cfg_eqb (a b : cfg) : bool :=
  (uid a =? uid b) && (gen a =? gen b) && (name a =? name b) &&
  Bool.eqb (valid a) (valid b) && Bool.eqb (accept a) (accept b).

(* 1-based position of c in the table of configurations of a case file; 0 = absent/nil *)
Fixpoint cfg_index_from (i : N) (tbl : list cfg) (c : cfg) : N :=
  match tbl with
  | [] => 0
  | x :: tl => if cfg_eqb x c then i else cfg_index_from (i + 1) tl c
  end.
Definition cfg_index (tbl : list cfg) (c : option cfg) : N :=
  match c with None => 0 | Some c => cfg_index_from 1 tbl c end.

(* one observation = one number, base 256 digits (most significant first), every digit +0:
     nodeCfg, groupCfg, currentCfg (table positions), then one digit per call:
     Notify c -> position of c (1..63); PatchClear nm -> 64+nm;
     PatchStatus nm g ok -> 128 + 64*ok + 8*nm + g         (nm, g < 8 in every case file).
   The Go harness computes the same number from the real agent. *)
Definition act_digit (tbl : list cfg) (x : act) : N :=
  match x with
  | Notify c => cfg_index tbl (Some c)
  | PatchClear nm => 64 + nm
  | PatchStatus nm g ok => 128 + (if ok then 64 else 0) + 8 * nm + g
  end.
Definition obs_code (tbl : list cfg) (r : agent * list act) : N :=
  fold_left (fun acc d => acc * 256 + d)
            ([cfg_index tbl (nodeC (fst r)); cfg_index tbl (groupC (fst r)); cfg_index tbl (cur (fst r))]
               ++ map (act_digit tbl) (snd r)) 1.

(* an event alphabet: (is_group, Some table position | 0 = deletion) *)
Definition mk_ev (tbl : list cfg) (x : bool * N) : ev :=
  let c := match snd x with 0 => None | p => nth_error tbl (N.to_nat (p - 1)) end in
  if fst x then GroupEv c else NodeEv c.

(* explicit sequence: events as alphabet positions, one observed code per step *)
Fixpoint trace_codes (tbl : list cfg) (a : agent) (es : list ev) : list N :=
  match es with
  | [] => []
  | e :: es' => let r := step a e in obs_code tbl r :: trace_codes tbl (fst r) es'
  end.
Fixpoint first_diff (i : N) (l1 l2 : list N) : option (N * N * N) :=
  match l1, l2 with
  | [], [] => None
  | x :: t1, y :: t2 => if x =? y then first_diff (i + 1) t1 t2 else Some (i, x, y)
  | x :: _, [] => Some (i, x, 0)
  | [], y :: _ => Some (i, 0, y)
  end.
(* (case number, step, model code, observed code) of every disagreeing case *)
Fixpoint seq_mismatches (tbl : list cfg) (alpha : list (bool * N)) (k : N)
         (cases : list (list N * list N)) : list (N * N * N * N) :=
  match cases with
  | [] => []
  | (es, obs) :: tl =>
      let evs := map (fun i => mk_ev tbl (nth (N.to_nat i) alpha (false, 0))) es in
      match first_diff 0 (trace_codes tbl init evs) obs with
      | None => seq_mismatches tbl alpha (k + 1) tl
      | Some (i, x, y) => (k, i, x, y) :: seq_mismatches tbl alpha (k + 1) tl
      end
  end.

(* exhaustive sweep: all sequences prefix ++ s with |s| <= depth over the alphabet, in the
   order  [] , then for each letter a (in alphabet order): all sequences starting with a
   (depth-first, pre-order).  For each the code of the LAST step (or of the state alone for
   the empty suffix of an empty prefix) is compared; since every prefix is itself enumerated
   this covers every step of every sequence. *)
Fixpoint sweep_codes (tbl : list cfg) (alpha : list ev) (depth : nat) (r : agent * list act) : list N :=
  obs_code tbl r ::
  match depth with
  | O => []
  | S d => flat_map (fun e => sweep_codes tbl alpha d (step (fst r) e)) alpha
  end.
Definition last_step_from (a : agent) (es : list ev) : agent * list act :=
  fold_left (fun r e => step (fst r) e) es (a, []).
Definition sweep_mismatch (tbl : list cfg) (alpha : list (bool * N)) (prefix : list N) (depth : nat)
           (obs : list N) : option (N * N * N) :=
  let al := map (mk_ev tbl) alpha in
  let pre := map (fun i => mk_ev tbl (nth (N.to_nat i) alpha (false, 0))) prefix in
  first_diff 0 (sweep_codes tbl al depth (last_step_from init pre)) obs.
