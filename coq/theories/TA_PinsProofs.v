From Coq Require Import ZArith List Lia.
From stdpp Require Import gmap sets.
From NV Require Import C20_Model TA_Model TA_Proofs TA_Pins.
Import ListNotations.

Section pins.
Context (t : tree).

Lemma union_absorb (m1 m2 : gmap nat cset) : dom m2 ⊆ dom m1 -> m1 ∪ m2 = m1.
Proof.
  intros Hd. apply map_eq. intros i. destruct (m1 !! i) as [x|] eqn:H1.
  - apply lookup_union_Some_l. exact H1.
  - apply lookup_union_None. split; [exact H1|]. apply not_elem_of_dom. intros Hi. apply Hd in Hi.
    apply elem_of_dom in Hi as [y Hy]. congruence.
Qed.

Lemma dom_told s : dom (told_map t s) = dom (grants s).
Proof. unfold told_map. apply dom_fmap_L. Qed.

Lemma grants_release s cid : grants (ta_release t s cid) = delete cid (grants s).
Proof.
  unfold ta_release. destruct (grants s !! cid) as [g|] eqn:H.
  - destruct (g_type g); reflexivity.
  - symmetry. apply delete_notin. exact H.
Qed.

(* without failed updates the pins are exactly what the granted containers are told *)
Lemma pstep_pins s o s' pins' :
  pstep t (s, told_map t s) (PStep o) = Ok (s', pins') -> pins' = told_map t s'.
Proof.
  cbn [pstep]. destruct (step t s o) as [s1|e] eqn:Hs; [|discriminate]. intros H.
  injection H as H1 H2. subst s' pins'.
  apply union_absorb. rewrite dom_told.
  destruct o as [cid r p X|cid|cid|cid g|]; cbn [step] in Hs.
  - destruct (grants s !! cid); [discriminate|]. destruct (p <? length t)%nat; [|discriminate].
    destruct (ta_alloc_shape t s cid r p X s1 Hs) as (g & _ & _ & _ & _ & ->).
    rewrite dom_told, dom_insert_L. set_solver.
  - injection Hs as <-. rewrite dom_told. reflexivity.
  - injection Hs as <-. rewrite grants_release, dom_delete_L, dom_delete_L, dom_told. reflexivity.
  - destruct (grants s !! cid); [discriminate|]. destruct (g_pool g <? length t)%nat; [|discriminate].
    destruct (ta_reserve_shape t s cid g s1 Hs) as (g' & _ & _ & _ & _ & ->).
    rewrite dom_told, dom_insert_L. set_solver.
  - rewrite dom_empty_L. set_solver.
Qed.

Lemma prun_steps os : forall s sp',
  forallb is_step os = true -> prun t (s, told_map t s) os = Ok sp' ->
  snd sp' = told_map t (fst sp') /\ run t s (map unstep os) = Ok (fst sp').
Proof.
  induction os as [|o os IH]; intros s sp' Hall Hrun.
  - injection Hrun as <-. split; reflexivity.
  - cbn [forallb] in Hall. apply andb_true_iff in Hall as [Ho Hos]. destruct o as [o|c|c P]; [|discriminate|discriminate].
    cbn [prun] in Hrun. destruct (pstep t (s, told_map t s) (PStep o)) as [[s1 p1]|e] eqn:Hp; [|discriminate].
    pose proof (pstep_pins s o s1 p1 Hp) as ->.
    cbn [map unstep run]. cbn [pstep] in Hp. destruct (step t s o) as [s2|e] eqn:Hs; [|discriminate].
    injection Hp as <- _. exact (IH s2 sp' Hos Hrun).
Qed.

Theorem pins_disjoint_from_exclusive os s pins :
  tree_wf t -> forallb is_step os = true -> prun t (init t, ∅) os = Ok (s, pins) ->
  forall c1 c2 g1 P, c1 <> c2 -> grants s !! c1 = Some g1 -> pins !! c2 = Some P -> g_excl g1 ## P.
Proof.
  intros Hwf Hall Hrun c1 c2 g1 P Hne H1 H2.
  assert (Hinit : (∅ : gmap nat cset) = told_map t (init t)).
  { unfold told_map, init. cbn [grants]. rewrite fmap_empty. reflexivity. }
  rewrite Hinit in Hrun. destruct (prun_steps os (init t) (s, pins) Hall Hrun) as [Hp Hr]. cbn [fst snd] in Hp, Hr.
  rewrite Hp in H2. unfold told_map in H2. rewrite lookup_fmap in H2.
  destruct (grants s !! c2) as [g2|] eqn:Hg2; [|discriminate]. injection H2 as <-.
  exact (excl_not_in_others_told t (map unstep os) s Hwf Hr c1 c2 g1 g2 Hne H1 Hg2).
Qed.

End pins.

(* K3: with a failed re-allocation the statement is false.  One pool, sharable CPUs {1,2,3}: c1 gets
   500m (told 1-3); its re-allocation fails (grant released, still pinned to 1-3); c2 gets CPU 1
   exclusively -- c1, which is still running, is allowed on it. *)
Definition k3_tree : tree := [ {| p_parent := None; p_iso := ∅; p_res := ∅; p_shar := list_to_set [1%nat; 2%nat; 3%nat] |} ].
Definition k3_ops : list pop :=
  [ PStep (OAlloc 1 {| r_full := 0; r_fraction := 500; r_isolate := false; r_type := CpuNormal |} 0 ∅);
    PLostGrant 1;
    PStep (OAlloc 2 {| r_full := 1; r_fraction := 0; r_isolate := false; r_type := CpuNormal |} 0 (list_to_set [1%nat])) ].

Lemma stale_pin_refuted :
  tree_wfb k3_tree = true /\
  match prun k3_tree (init k3_tree, ∅) k3_ops with
  | Ok (s, pins) =>
      match grants s !! 2%nat, pins !! 1%nat with
      | Some g2, Some P1 => bool_decide (g_excl g2 ∩ P1 = list_to_set [1%nat]) = true
      | _, _ => False end
  | Err _ => False end.
Proof. vm_compute. split; reflexivity. Qed.
