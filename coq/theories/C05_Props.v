(* C05 -- every resource decision reaches the runtime.  Property theorems only. *)
From Coq Require Import List Bool String.
From stdpp Require Import gmap sets.
From NV Require Import Flush_Model Flush_Proofs Gen.Gen_Flush.
Import ListNotations.

(* For EVERY interleaving of cache writes, deliveries and drops: a container whose cached
   resources differ from what the runtime has been told is marked pending. *)
Theorem C05_dirty_implies_pending : forall live ks, dirty (frun live f0 ks) ⊆ pend (frun live f0 ks).
Proof. intros live ks. exact (frun_inv live ks f0 FInv_f0). Qed.
Print Assumptions C05_dirty_implies_pending.

(* For EVERY sequence of requests in which a request that does not flush makes no writes
   (guard; fails for failing requests on the unchanged tree: known finding K5): after each prefix,
   the only containers still pending -- hence the only ones whose cache may differ from the
   runtime's view -- are containers the runtime has stopped; for every created or running container
   the accumulated adjustment + updates equal the cache and nothing is pending. *)
Theorem C05_view_eq_cache : forall rs, forallb req_guard rs = true ->
  let s := fold_left exec rs f0 in dirty s ⊆ pend s /\ pend s ⊆ stopped_of rs.
Proof.
  intros rs Hg. destruct (requests_inv rs f0 ∅ FInv_f0 (empty_subseteq _) Hg) as [H1 H2].
  split; [exact H1|]. intros x Hx. apply H2 in Hx. set_solver.
Qed.
Print Assumptions C05_view_eq_cache.

(* Obligation on the handler table regenerated from pkg/resmgr/nri.go on every run: every handler
   that lets the policy write container resources flushes updates before it replies, and
   CreateContainer delivers the created container's resources as its adjustment. *)
Theorem C05_handlers_flush : forallb kind_ok gen_handlers = true.
Proof. vm_compute. reflexivity. Qed.
Print Assumptions C05_handlers_flush.

(* Without the guard the statement is false of the faithful model: a request that writes a
   container's resources and then fails (RNoFlush) leaves that live container pending -- its cache
   differs from what the runtime has (known finding K5; observed on the implementation for a failing
   UpdateContainer that had already re-pinned other containers). *)
Theorem C05_view_eq_cache_refuted :
  exists rs, let s := fold_left exec rs f0 in
    bool_decide (pend s ⊆ stopped_of rs) = false /\ bool_decide (dirty s = ∅) = false.
Proof. exists [ {| r_kind := RNoFlush; r_writes := [1%nat] |} ]. vm_compute. split; reflexivity. Qed.
Print Assumptions C05_view_eq_cache_refuted.
