(* C16 part (a): components of discover (render m) = Some (view m). *)
From Coq Require Import ZArith Lia Bool List.
From NV Require Import C16_Model C16_Proofs.
Import ListNotations.
Open Scope Z_scope.

Lemma filter_map_view (f : vcpu -> bool) (g : mcpu -> bool) l :
  (forall c, In c l -> f (view_cpu c) = g c) -> filter f (map view_cpu l) = map view_cpu (filter g l).
Proof.
  induction l as [|c t IH]; simpl; intros H; [reflexivity|].
  rewrite (H c (or_introl eq_refl)). rewrite IH by (intros; apply H; right; assumption).
  destruct (g c); reflexivity.
Qed.

Lemma map_map_view (f : vcpu -> Z) (g : mcpu -> Z) l :
  (forall c, In c l -> f (view_cpu c) = g c) -> map f (map view_cpu l) = map g l.
Proof.
  induction l as [|c t IH]; simpl; intros H; [reflexivity|].
  rewrite (H c (or_introl eq_refl)), IH by (intros; apply H; right; assumption). reflexivity.
Qed.

Lemma v_online_view c : v_online (view_cpu c) = c_online c.
Proof. unfold view_cpu. destruct (c_online c); reflexivity. Qed.
Lemma v_id_view c : v_id (view_cpu c) = c_id c.
Proof. unfold view_cpu. destruct (c_online c); reflexivity. Qed.
Lemma v_node_view c : v_node (view_cpu c) = c_node c.
Proof. unfold view_cpu. destruct (c_online c); reflexivity. Qed.
Lemma v_pkg_view c : c_online c = true -> v_pkg (view_cpu c) = c_pkg c.
Proof. unfold view_cpu. intros ->. reflexivity. Qed.
Lemma v_die_view c : c_online c = true -> v_die (view_cpu c) = c_die c.
Proof. unfold view_cpu. intros ->. reflexivity. Qed.

Lemma filter_filter {A} (f g : A -> bool) l : filter f (filter g l) = filter (fun x => g x && f x) l.
Proof.
  induction l as [|x t IH]; simpl; [reflexivity|]. destruct (g x); simpl; [destruct (f x)|]; rewrite IH; reflexivity.
Qed.

Lemma filter_all_online (f : mcpu -> bool) l : (forall c, In c l -> c_online c = true) ->
  forall c, In c (filter f l) -> c_online c = true.
Proof. intros H c Hc. apply filter_In in Hc as [Hc _]. apply H. exact Hc. Qed.

(* discoverPackages groups exactly the online CPUs of the machine by package and die *)
Theorem discover_render_pkgs m :
  discover_pkgs (map view_cpu (m_cpus m)) = map (view_pkg m) (canon (map c_pkg (online_cpus m))).
Proof.
  unfold discover_pkgs, online_cpus.
  rewrite (filter_map_view v_online c_online) by (intros; apply v_online_view).
  assert (Hon : forall c, In c (filter c_online (m_cpus m)) -> c_online c = true)
    by (intros c Hc; apply filter_In in Hc; tauto).
  rewrite (map_map_view v_pkg c_pkg) by (intros c Hc; apply v_pkg_view; apply Hon; exact Hc).
  apply map_ext. intros p. unfold mk_pkg, view_pkg, online_cpus.
  rewrite (filter_map_view (fun c => v_online c && (v_pkg c =? p)) (fun c => c_online c && (c_pkg c =? p))).
  2:{ intros c _. rewrite v_online_view. destruct (c_online c) eqn:E; [|reflexivity]. rewrite v_pkg_view by exact E. reflexivity. }
  rewrite filter_filter.
  set (cs := filter (fun c => c_online c && (c_pkg c =? p)) (m_cpus m)).
  assert (Hcs : forall c, In c cs -> c_online c = true).
  { intros c Hc. apply filter_In in Hc as [_ Hc]. apply andb_true_iff in Hc. tauto. }
  rewrite (map_map_view v_id c_id) by (intros; apply v_id_view).
  rewrite (map_map_view v_node c_node) by (intros; apply v_node_view).
  rewrite (map_map_view v_die c_die) by (intros c Hc; apply v_die_view; apply Hcs; exact Hc).
  f_equal. apply map_ext. intros d. unfold mk_die, view_die.
  rewrite (filter_map_view (fun c => v_die c =? d) (fun c => c_die c =? d)).
  2:{ intros c Hc. rewrite v_die_view by (apply Hcs; exact Hc). reflexivity. }
  rewrite (map_map_view v_id c_id) by (intros; apply v_id_view).
  rewrite (map_map_view v_node c_node) by (intros; apply v_node_view).
  reflexivity.
Qed.

(* ------------------------------------------------------------------ per-CPU records and shared caches *)

Lemma ckey_eqb_spec a b : ckey_eqb a b = true <-> a = b.
Proof.
  destruct a as [[a1 a2] a3], b as [[b1 b2] b3]. unfold ckey_eqb. rewrite !andb_true_iff, !Z.eqb_eq.
  split; [intros [[-> ->] ->]; reflexivity|intros H; injection H as -> -> ->; auto].
Qed.

Lemma lz_eqb_eq a b : lz_eqb a b = true -> a = b.
Proof.
  revert b. induction a as [|x t IH]; intros [|y u]; simpl; intros H; try discriminate; [reflexivity|].
  apply andb_true_iff in H as [H1 H2]. apply Z.eqb_eq in H1. subst. f_equal. apply IH. exact H2.
Qed.

Lemma ct_find_In k t c : ct_find k t = Some c -> In (k, c) t.
Proof.
  induction t as [|[k' c'] r IH]; simpl; [discriminate|].
  destruct (ckey_eqb k k') eqn:E.
  - apply ckey_eqb_spec in E. subst. intros H. injection H as ->. left. reflexivity.
  - intros H. right. apply IH. exact H.
Qed.

Lemma memz_ids_where {A} (f : A -> bool) (id : A -> Z) (l : list A) c :
  NoDup (map id l) -> In c l -> memz (id c) (canon (ids_where f id l)) = f c.
Proof.
  intros Hnd Hin. unfold ids_where. destruct (f c) eqn:E.
  - apply memz_In. apply canon_In. apply in_map. apply filter_In. tauto.
  - apply memz_false. rewrite canon_In, in_map_iff. intros [c' [Hid Hc']]. apply filter_In in Hc' as [Hc' Hf].
    assert (c' = c) by (eapply NoDup_map_inj; eassumption). subst. congruence.
Qed.

Section Cpus.
Context (m : machine) (Hwf : machine_wfb m = true).

Lemma wf_cpu_ids : NoDup (map c_id (m_cpus m)).
Proof. pose proof Hwf as Hw. unfold machine_wfb in Hw. split_andb. apply nodupb_NoDup. assumption. Qed.

Lemma wf_cache_agree a b : In a (all_caches m) -> In b (all_caches m) -> mckey a = mckey b -> view_cache a = view_cache b.
Proof.
  intros Ha Hb Hk. pose proof Hwf as Hw. unfold machine_wfb in Hw. split_andb.
  match goal with H : forallb _ (all_caches m) = true |- _ => rewrite forallb_forall in H; specialize (H a Ha); rewrite forallb_forall in H; specialize (H b Hb) end.
  unfold cache_agree in *. assert (E : ckey_eqb (mckey a) (mckey b) = true) by (apply ckey_eqb_spec; exact Hk).
  match goal with H : negb _ || _ = true |- _ => rewrite E in H; simpl in H; apply andb_true_iff in H as [Hq1 Hq2] end.
  apply lz_eqb_eq in Hq1. apply Z.eqb_eq in Hq2. unfold mckey in Hk. injection Hk as K1 K2 K3.
  unfold view_cache. congruence.
Qed.

Definition tbl_inv (t : ctable) : Prop :=
  forall k c, In (k, c) t -> exists a, In a (all_caches m) /\ mckey a = k /\ c = view_cache a.

Lemma discover_caches_ok cl : (forall a, In a cl -> In a (all_caches m)) ->
  forall t, tbl_inv t -> exists t', discover_caches t (map render_cache cl) = (t', map view_cache cl) /\ tbl_inv t'.
Proof.
  induction cl as [|a r IH]; intros Hcl t Hinv; simpl.
  - exists t. split; [reflexivity|exact Hinv].
  - unfold save_cache. cbn [render_cache cd_level cd_kind cd_id cd_shared cd_size].
    change (mc_level a, mc_kind a, mc_id a) with (mckey a).
    destruct (ct_find (mckey a) t) as [c|] eqn:Ef.
    + apply ct_find_In in Ef. destruct (Hinv _ _ Ef) as [a' [Ha' [Hk ->]]].
      destruct (IH (fun x Hx => Hcl x (or_intror Hx)) t Hinv) as [t' [E Hinv']].
      exists t'. rewrite E. split; [|exact Hinv']. f_equal. f_equal. apply wf_cache_agree; [exact Ha'|apply Hcl; left; reflexivity|exact Hk].
    + assert (Hinv1 : tbl_inv ((mckey a, view_cache a) :: t)).
      { intros k c [H|H]; [injection H as <- <-; exists a; split; [apply Hcl; left; reflexivity|tauto]|exact (Hinv k c H)]. }
      cbv zeta. change (mkVCache (mc_level a) (mc_kind a) (mc_id a) (canon (mc_cpus a)) (mc_size a)) with (view_cache a).
      destruct (IH (fun x Hx => Hcl x (or_intror Hx)) _ Hinv1) as [t' [E Hinv']].
      exists t'.
      match goal with |- context [discover_caches ?T ?L] => replace (discover_caches T L) with (t', map view_cache r) by (symmetry; exact E) end.
      split; [reflexivity|exact Hinv'].
Qed.

Lemma discover_cpus_ok l : (forall c, In c l -> In c (m_cpus m)) ->
  forall t, tbl_inv t ->
  discover_cpus (canon (ids_where c_online c_id (m_cpus m))) (canon (ids_where c_isolated c_id (m_cpus m))) t (map render_cpu l)
  = Some (map view_cpu l).
Proof.
  induction l as [|c r IH]; intros Hl t Hinv; simpl; [reflexivity|].
  assert (Hc : In c (m_cpus m)) by (apply Hl; left; reflexivity).
  unfold discover_cpu.
  assert (Eid : d_id (render_cpu c) = c_id c) by (unfold render_cpu; destruct (c_online c); reflexivity).
  rewrite Eid, (memz_ids_where c_online c_id _ c wf_cpu_ids Hc), (memz_ids_where c_isolated c_id _ c wf_cpu_ids Hc).
  destruct (c_online c) eqn:Eon.
  - assert (Er : render_cpu c = mkCpuDir (c_id c) [c_node c] (Some (c_pkg c)) (Some (c_die c)) (Some (c_cluster c)) (Some (c_core c))
                                         (Some (c_threads c)) (Some (c_threads c)) (map render_cache (c_caches c)))
      by (unfold render_cpu; rewrite Eon; reflexivity).
    assert (Ev : view_cpu c = mkVCpu (c_id c) true (c_isolated c) (c_pkg c) (c_die c) (c_cluster c) (c_core c) (canon (c_threads c)) (c_node c)
                                     (map view_cache (c_caches c)))
      by (unfold view_cpu; rewrite Eon; reflexivity).
    rewrite Er, Ev. cbn [d_id d_pkg d_die d_cluster d_core d_core_cpus d_siblings d_nodes d_caches odef].
    assert (Hcl : forall a, In a (c_caches c) -> In a (all_caches m)).
    { intros a Ha. unfold all_caches, online_cpus. apply in_flat_map. exists c. split; [apply filter_In; tauto|exact Ha]. }
    destruct (discover_caches_ok (c_caches c) Hcl t Hinv) as [t' [E Hinv']]. rewrite E.
    rewrite (IH (fun x Hx => Hl x (or_intror Hx)) t' Hinv'). reflexivity.
  - assert (Er : render_cpu c = mkCpuDir (c_id c) [c_node c] None None None None None None [])
      by (unfold render_cpu; rewrite Eon; reflexivity).
    assert (Ev : view_cpu c = mkVCpu (c_id c) false (c_isolated c) 0 0 0 0 [] (c_node c) [])
      by (unfold view_cpu; rewrite Eon; reflexivity).
    rewrite Er, Ev. cbn [d_id d_pkg d_die d_cluster d_core d_core_cpus d_siblings d_nodes d_caches odef discover_caches].
    rewrite (IH (fun x Hx => Hl x (or_intror Hx)) t Hinv). reflexivity.
Qed.

(* every CPU record (online: package, die, cluster, core, thread siblings, node, caches with their
   sharing sets; offline: defaults) is reproduced exactly *)
Theorem discover_render_cpus :
  discover_cpus (canon (ids_where c_online c_id (m_cpus m))) (canon (ids_where c_isolated c_id (m_cpus m))) []
                (map render_cpu (m_cpus m)) = Some (map view_cpu (m_cpus m)).
Proof. apply discover_cpus_ok; [auto|]. intros k c []. Qed.

End Cpus.
