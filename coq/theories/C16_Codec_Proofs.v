(* C16: round trips of the string codecs of the discovery layer (cpulist "a-b,c", integer vectors). *)
From Coq Require Import ZArith NArith Lia Bool List Ascii String DecimalString Decimal DecimalN DecimalFacts Sorted.
From NV Require Import C16_Model.
Import ListNotations.
Open Scope N_scope.

(* ---- decimal numbers ---- *)
Lemma to_uint_nonnil n : N.to_uint n <> Nil.
Proof.
  rewrite <- (DecimalN.Unsigned.of_to n) at 1. rewrite DecimalN.Unsigned.to_of. apply unorm_nonnil.
Qed.

Lemma parse_print_N n : parse_N (print_N n) = Some n.
Proof.
  unfold parse_N, print_N. rewrite NilZero.usu by apply to_uint_nonnil.
  simpl. rewrite DecimalN.Unsigned.of_to. reflexivity.
Qed.

Definition is_digit (c : ascii) : bool :=
  (Ascii.eqb c "0" || Ascii.eqb c "1" || Ascii.eqb c "2" || Ascii.eqb c "3" || Ascii.eqb c "4" ||
   Ascii.eqb c "5" || Ascii.eqb c "6" || Ascii.eqb c "7" || Ascii.eqb c "8" || Ascii.eqb c "9")%bool.
Fixpoint all_chars (f : ascii -> bool) (s : string) : bool :=
  match s with EmptyString => true | String c r => (f c && all_chars f r)%bool end.

Lemma digits_string_of_uint d : all_chars is_digit (NilEmpty.string_of_uint d) = true.
Proof. induction d; simpl; auto. Qed.

Lemma print_N_digits n : all_chars is_digit (print_N n) = true.
Proof.
  unfold print_N, NilZero.string_of_uint. destruct (N.to_uint n) eqn:E; try reflexivity;
    rewrite <- E; try apply digits_string_of_uint.
  all: rewrite E; apply (digits_string_of_uint).
Qed.

Lemma print_N_nonempty n : print_N n <> EmptyString.
Proof.
  unfold print_N, NilZero.string_of_uint. pose proof (to_uint_nonnil n). destruct (N.to_uint n); simpl; congruence.
Qed.

(* ---- split / join ---- *)
Definition no_sep (sep : ascii) (s : string) : bool := all_chars (fun c => negb (Ascii.eqb c sep)) s.

Lemma split_on_nonempty sep s : split_on sep s <> [].
Proof.
  induction s as [|c r IH]; simpl; [discriminate|].
  destruct (Ascii.eqb c sep); [discriminate|]. destruct (split_on sep r); [congruence|discriminate].
Qed.

Lemma split_no_sep sep s : no_sep sep s = true -> split_on sep s = [s].
Proof.
  induction s as [|c r IH]; simpl; intros H; [reflexivity|].
  apply andb_true_iff in H as [H1 H2]. apply negb_true_iff in H1. rewrite H1, (IH H2). reflexivity.
Qed.

Lemma split_app sep x rest : no_sep sep x = true ->
  split_on sep (x ++ String sep rest) = x :: split_on sep rest.
Proof.
  induction x as [|c r IH]; simpl; intros H.
  - rewrite Ascii.eqb_refl. reflexivity.
  - apply andb_true_iff in H as [H1 H2]. apply negb_true_iff in H1. rewrite H1, (IH H2). reflexivity.
Qed.

Lemma split_join sep parts : parts <> [] -> Forall (fun p => no_sep sep p = true) parts ->
  split_on sep (join_with sep parts) = parts.
Proof.
  induction parts as [|x t IH]; intros Hne Hall; [congruence|].
  inversion Hall as [|? ? Hx Ht]; subst. destruct t as [|y t'].
  - simpl. apply split_no_sep. exact Hx.
  - change (join_with sep (x :: y :: t')) with (x ++ String sep (join_with sep (y :: t')))%string.
    rewrite split_app by exact Hx. rewrite IH; [reflexivity|discriminate|exact Ht].
Qed.

Lemma all_chars_impl (f g : ascii -> bool) s : (forall c, f c = true -> g c = true) -> all_chars f s = true -> all_chars g s = true.
Proof.
  intros Hfg. induction s as [|c r IH]; simpl; intros H; [reflexivity|].
  apply andb_true_iff in H as [H1 H2]. rewrite (Hfg c H1), (IH H2). reflexivity.
Qed.

Lemma all_chars_app f a b : all_chars f (a ++ b) = (all_chars f a && all_chars f b)%bool.
Proof. induction a as [|c r IH]; simpl; [reflexivity|]. rewrite IH. apply andb_assoc. Qed.

Lemma digit_not (sep : ascii) : is_digit sep = false -> forall c, is_digit c = true -> negb (Ascii.eqb c sep) = true.
Proof.
  intros Hs c Hc. apply negb_true_iff. destruct (Ascii.eqb c sep) eqn:E; [|reflexivity].
  apply Ascii.eqb_eq in E. subst. congruence.
Qed.

Lemma print_N_no_sep sep n : is_digit sep = false -> no_sep sep (print_N n) = true.
Proof. intros Hs. unfold no_sep. eapply all_chars_impl; [apply digit_not; exact Hs|apply print_N_digits]. Qed.

(* ---- integer vectors (node*/distance) ---- *)
Lemma parse_vec_items_print l : parse_vec_items (map print_N l) = Some l.
Proof.
  induction l as [|x t IH]; simpl; [reflexivity|].
  destruct (String.eqb (print_N x) "") eqn:E; [apply String.eqb_eq in E; exfalso; exact (print_N_nonempty x E)|].
  rewrite parse_print_N, IH. reflexivity.
Qed.

Theorem parse_print_vec l : parse_vec (print_vec l) = Some l.
Proof.
  unfold parse_vec, print_vec. destruct l as [|x t]; [reflexivity|].
  rewrite split_join; [apply parse_vec_items_print|discriminate|].
  apply Forall_forall. intros p Hp. apply in_map_iff in Hp as [n [<- _]]. apply print_N_no_sep. reflexivity.
Qed.

(* ---- cpulist ---- *)
Definition expand (r : N * N) : list N := n_range (fst r) (N.to_nat (snd r + 1 - fst r)).

Lemma n_range_snoc lo k : n_range lo (S k) = (n_range lo k ++ [lo + N.of_nat k])%list.
Proof.
  revert lo. induction k as [|k IH]; intros lo.
  - simpl. rewrite N.add_0_r. reflexivity.
  - change (n_range lo (S (S k))) with (lo :: n_range (lo + 1) (S k)). rewrite IH. simpl.
    replace (lo + 1 + N.of_nat k) with (lo + N.pos (Pos.of_succ_nat k)) by lia. reflexivity.
Qed.

Lemma parse_item_range a b : a <= b -> parse_item (print_range (a, b)) = Some (expand (a, b)).
Proof.
  intros Hab. unfold print_range, parse_item, expand. cbn [fst snd].
  destruct (N.eqb a b) eqn:E.
  - apply N.eqb_eq in E. subst. rewrite split_no_sep by (apply print_N_no_sep; reflexivity).
    rewrite parse_print_N. simpl. replace (b + 1 - b) with 1 by lia. reflexivity.
  - rewrite split_app by (apply print_N_no_sep; reflexivity).
    rewrite split_no_sep by (apply print_N_no_sep; reflexivity).
    rewrite !parse_print_N. reflexivity.
Qed.

Lemma print_range_ok r : no_sep "," (print_range r) = true /\ print_range r <> EmptyString.
Proof.
  unfold print_range. destruct (N.eqb (fst r) (snd r)).
  - split; [apply print_N_no_sep; reflexivity|apply print_N_nonempty].
  - split.
    + unfold no_sep. rewrite all_chars_app. simpl.
      fold (no_sep "," (print_N (fst r))). fold (no_sep "," (print_N (snd r))).
      rewrite !print_N_no_sep by reflexivity. reflexivity.
    + pose proof (print_N_nonempty (fst r)). destruct (print_N (fst r)); simpl; congruence.
Qed.

Lemma parse_items_ranges rs : Forall (fun r => fst r <= snd r) rs ->
  parse_items (map print_range rs) = Some (List.concat (map expand rs)).
Proof.
  induction rs as [|[a b] t IH]; intros H; [reflexivity|].
  inversion H as [|? ? Hab Ht]; subst. cbn [map parse_items List.concat].
  destruct (print_range_ok (a, b)) as [_ Hne].
  destruct (String.eqb (print_range (a, b)) "") eqn:E; [apply String.eqb_eq in E; congruence|].
  rewrite parse_item_range by exact Hab. rewrite (IH Ht). reflexivity.
Qed.


Lemma ranges_aux_ok lo hi l : lo <= hi -> incr_from hi l ->
  Forall (fun r => fst r <= snd r) (ranges_aux lo hi l) /\
  List.concat (map expand (ranges_aux lo hi l)) = (n_range lo (N.to_nat (hi + 1 - lo)) ++ l)%list.
Proof.
  revert lo hi. induction l as [|x r IH]; intros lo hi Hle Hinc; cbn [ranges_aux].
  - split; [repeat constructor; exact Hle|]. simpl. unfold expand. cbn [fst snd]. rewrite !List.app_nil_r. reflexivity.
  - destruct Hinc as [Hlt Hinc]. destruct (N.eqb x (hi + 1)) eqn:E.
    + apply N.eqb_eq in E. subst x. destruct (IH lo (hi + 1) ltac:(lia) Hinc) as [H1 H2]. split; [exact H1|].
      rewrite H2. replace (N.to_nat (hi + 1 + 1 - lo)) with (S (N.to_nat (hi + 1 - lo))) by lia.
      rewrite n_range_snoc, <- List.app_assoc. simpl. replace (lo + N.of_nat (N.to_nat (hi + 1 - lo))) with (hi + 1) by lia. reflexivity.
    + destruct (IH x x ltac:(lia) Hinc) as [H1 H2]. split; [constructor; [exact Hle|exact H1]|].
      cbn [map List.concat]. rewrite H2. unfold expand at 1. cbn [fst snd].
      replace (N.to_nat (x + 1 - x)) with 1%nat by lia. reflexivity.
Qed.

Theorem parse_print_cpulist l : increasing l -> parse_cpulist (print_cpulist l) = Some l.
Proof.
  intros Hinc. unfold parse_cpulist, print_cpulist, ranges. destruct l as [|x r]; [reflexivity|].
  destruct (ranges_aux_ok x x r ltac:(lia) Hinc) as [H1 H2].
  assert (Hne : map print_range (ranges_aux x x r) <> []).
  { destruct r as [|y r']; cbn [ranges_aux]; [discriminate|]. destruct (N.eqb y (x + 1)).
    - destruct (ranges_aux x y r') eqn:E; [|discriminate].
      exfalso. clear - E. revert x y E. induction r' as [|z t IH]; intros x y E; cbn [ranges_aux] in E; [discriminate|].
      destruct (N.eqb z (y + 1)); [exact (IH _ _ E)|discriminate].
    - discriminate. }
  rewrite split_join; [|exact Hne|].
  - rewrite parse_items_ranges by exact H1. rewrite H2.
    replace (N.to_nat (x + 1 - x)) with 1%nat by lia. reflexivity.
  - apply Forall_forall. intros p Hp. apply in_map_iff in Hp as [rg [<- _]]. apply print_range_ok.
Qed.
