(* C05: the flush pipeline keeps the runtime's view equal to the cache for all request histories. *)
From Coq Require Import List Bool String.
From stdpp Require Import gmap sets fin_sets.
From NV Require Import Flush_Model.
Import ListNotations.

Definition FInv (s : fst) : Prop := dirty s ⊆ pend s.

Lemma FInv_f0 : FInv f0.
Proof. unfold FInv, f0. cbn. set_solver. Qed.

Lemma fstep_inv live s k : FInv s -> FInv (fstep live s k).
Proof. intros H. destruct k; unfold FInv in *; cbn [fstep dirty pend]; set_solver. Qed.

(* every interleaving of writes, flushes and drops keeps "different from the runtime => pending" *)
Lemma frun_inv live ks : forall s, FInv s -> FInv (frun live s ks).
Proof. induction ks as [|k ks IH]; intros s H; cbn; [exact H|]. apply IH, fstep_inv, H. Qed.

Lemma flush_set_inv T s : FInv s -> FInv (flush_set T s).
Proof. unfold FInv, flush_set. cbn [dirty pend]. set_solver. Qed.

Lemma writes_inv ws : forall s, FInv s -> FInv (fold_left (fun s c => fstep ∅ s (CWrite c)) ws s).
Proof. induction ws as [|w ws IH]; intros s H; cbn [fold_left]; [exact H|]. apply IH, fstep_inv, H. Qed.

Lemma exec_inv s r : FInv s -> FInv (exec s r).
Proof.
  intros H. unfold exec. destruct (r_kind r); try apply flush_set_inv; apply writes_inv, H.
Qed.

Lemma writes_pend ws : forall s, pend (fold_left (fun s c => fstep ∅ s (CWrite c)) ws s) = pend s ∪ list_to_set ws.
Proof.
  induction ws as [|w ws IH]; intros s; cbn [fold_left]; [rewrite list_to_set_nil; set_solver|].
  rewrite IH. cbn [fstep pend]. rewrite list_to_set_cons. set_solver.
Qed.

(* after a request that passes the guard the only pending containers are ones the runtime stopped *)
Lemma exec_pend s r (D : gset nat) : req_guard r = true -> pend s ⊆ D ->
  pend (exec s r) ⊆ D ∪ (match r_kind r with RStop self => {[self]} | _ => ∅ end).
Proof.
  intros Hg Hs. unfold exec, req_guard in *. destruct (r_kind r) as [self|self| |].
  - cbv beta iota zeta. cbn [flush_set pend]. intros x Hx. apply elem_of_difference in Hx as [H1 H2]. contradiction.
  - cbv beta iota zeta. cbn [flush_set pend]. intros x Hx. apply elem_of_difference in Hx as [H1 H2].
    apply elem_of_union_r. apply elem_of_singleton. destruct (decide (x = self)) as [->|Hne]; [reflexivity|].
    exfalso. apply H2. apply elem_of_difference. split; [exact H1|]. intros H3. apply elem_of_singleton in H3. contradiction.
  - cbv beta iota zeta. cbn [flush_set pend]. intros x Hx. apply elem_of_difference in Hx as [H1 H2]. contradiction.
  - cbv beta iota zeta. destruct (r_writes r); [cbn [fold_left]; intros x Hx; apply elem_of_union_l, Hs, Hx|discriminate].
Qed.

Theorem requests_inv rs : forall s D, FInv s -> pend s ⊆ D -> forallb req_guard rs = true ->
  FInv (fold_left exec rs s) /\ pend (fold_left exec rs s) ⊆ D ∪ stopped_of rs.
Proof.
  induction rs as [|r rs IH]; intros s D HI HD Hg; cbn [fold_left].
  - split; [exact HI|]. unfold stopped_of. cbn. set_solver.
  - cbn [forallb] in Hg. apply andb_true_iff in Hg as [Hg1 Hg2].
    destruct (IH (exec s r) (D ∪ match r_kind r with RStop self => {[self]} | _ => ∅ end) (exec_inv s r HI) (exec_pend s r D Hg1 HD) Hg2) as [H1 H2].
    split; [exact H1|]. etransitivity; [exact H2|].
    unfold stopped_of. cbn [flat_map]. rewrite list_to_set_app_L. destruct (r_kind r); cbn [list_to_set]; set_solver.
Qed.

(* non-vacuity *)
Local Open Scope nat_scope.
Example flush_example :
  let s := fold_left exec [ {| r_kind := RCreate 1; r_writes := [1] |}; {| r_kind := RCreate 2; r_writes := [2; 1] |};
                            {| r_kind := RStop 1; r_writes := [2; 1] |}; {| r_kind := RNoFlush; r_writes := [] |};
                            {| r_kind := RFlushAll; r_writes := [2] |} ] f0 in
  bool_decide (dirty s = ∅) = true /\ bool_decide (pend s = ∅) = true.
Proof. vm_compute. split; reflexivity. Qed.
