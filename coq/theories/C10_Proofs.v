(* C10: lemmas.  Part 1 round trip of the schema codec, Part 2 crash atomicity of a save
   program, Part 3 the permission check. *)
From Coq Require Import String ZArith List Bool Ascii Lia.
From NV Require Import C10_Model.
Import ListNotations.
Open Scope string_scope.
Open Scope list_scope.

(* ------------------------------------------------------------------ generic helpers *)

Lemma existsb_eqb_In : forall x l, existsb (String.eqb x) l = true <-> In x l.
Proof.
  intros x l. rewrite existsb_exists. split.
  - intros [y [Hin He]]. apply String.eqb_eq in He. subst. exact Hin.
  - intros Hin. exists x. split; [exact Hin | apply String.eqb_refl].
Qed.

Lemma nodupb_NoDup : forall l, nodupb l = true <-> NoDup l.
Proof.
  induction l as [|x r IH]; cbn [nodupb].
  - split; [constructor | reflexivity].
  - rewrite andb_true_iff, negb_true_iff, IH. split.
    + intros [Hn Hr]. constructor; [|exact Hr].
      intro Hin. apply existsb_eqb_In in Hin. congruence.
    + intros Hnd. inversion Hnd as [|? ? Hn Hr]; subst. split; [|exact Hr].
      destruct (existsb (String.eqb x) r) eqn:E; [|reflexivity].
      apply existsb_eqb_In in E. contradiction.
Qed.

Lemma lookup_notin : forall A k (m : list (string * A)), ~ In k (map fst m) -> lookup k m = None.
Proof.
  induction m as [|[k' v] r IH]; intros Hn; cbn [lookup]; [reflexivity|].
  cbn [map fst In] in Hn.
  destruct (String.eqb_spec k k') as [->|Hne].
  - exfalso. apply Hn. left. reflexivity.
  - apply IH. intro Hin. apply Hn. right. exact Hin.
Qed.

Lemma lookup_app_notin : forall A k (pre m : list (string * A)),
  ~ In k (map fst pre) -> lookup k (pre ++ m) = lookup k m.
Proof.
  induction pre as [|[k' v] r IH]; intros m Hn; cbn [app lookup]; [reflexivity|].
  cbn [map fst In] in Hn.
  destruct (String.eqb_spec k k') as [->|Hne].
  - exfalso. apply Hn. left. reflexivity.
  - apply IH. intro Hin. apply Hn. right. exact Hin.
Qed.

Lemma lookup_head : forall A k (v : A) m, lookup k ((k, v) :: m) = Some v.
Proof. intros. cbn [lookup]. rewrite String.eqb_refl. reflexivity. Qed.

Lemma mapM_map : forall A B C (f : B -> option C) (g : A -> B) (h : A -> C) (l : list A),
  (forall x, In x l -> f (g x) = Some (h x)) -> mapM f (map g l) = Some (map h l).
Proof.
  induction l as [|x r IH]; intros H; cbn [map mapM]; [reflexivity|].
  rewrite (H x (or_introl eq_refl)), IH; [reflexivity|].
  intros y Hy. apply H. right. exact Hy.
Qed.

(* ------------------------------------------------------------------ Part 1 *)

Lemma enc_fields_keys : forall fs vs k, In k (map fst (enc_fields fs vs)) -> In k (field_names fs).
Proof.
  induction fs as [|fi t rest IH]; intros vs k Hin; cbn [enc_fields] in Hin.
  - destruct vs; contradiction.
  - destruct vs as [|v vs']; [contradiction|]. cbn [field_names].
    destruct (persisted_b fi) eqn:Hp; cbn [andb] in Hin.
    + destruct (negb (f_omitempty fi && is_empty v)).
      * cbn [map fst In] in Hin. destruct Hin as [<-|Hin]; [left; reflexivity | right; eauto].
      * right. eauto.
    + eauto.
Qed.

Lemma enc_fields_nodup : forall fs vs, NoDup (field_names fs) -> NoDup (map fst (enc_fields fs vs)).
Proof.
  induction fs as [|fi t rest IH]; intros vs Hnd; cbn [enc_fields].
  - destruct vs; constructor.
  - destruct vs as [|v vs']; [constructor|]. cbn [field_names] in Hnd.
    destruct (persisted_b fi) eqn:Hp; cbn [andb].
    + inversion Hnd as [|? ? Hn Hr]; subst.
      destruct (negb (f_omitempty fi && is_empty v)).
      * cbn [map fst]. constructor; [|apply IH; exact Hr].
        intro Hin. apply Hn. eapply enc_fields_keys. exact Hin.
      * apply IH. exact Hr.
    + apply IH. exact Hnd.
Qed.

Scheme ty_mut := Induction for ty Sort Prop
  with fields_mut := Induction for fields Sort Prop.

Definition RT (t : ty) : Prop :=
  forall v, roundtrippable t = true -> well_typed t v = true -> dec t (enc t v) = Some (norm t v).

Definition RTF (fs : fields) : Prop :=
  forall vs pre, rt_fields fs = true -> wt_fields fs vs = true ->
    NoDup (map fst pre ++ field_names fs) ->
    dec_fields fs (pre ++ enc_fields fs vs) = Some (norm_fields fs vs).

Lemma NoDup_app_cons_notin_l : forall (a : list string) k b, NoDup (a ++ k :: b) -> ~ In k a.
Proof.
  intros a k b H Hin. apply NoDup_remove_2 in H. apply H. apply in_or_app. left. exact Hin.
Qed.

Lemma NoDup_app_cons_notin_r : forall (a : list string) k b, NoDup (a ++ k :: b) -> ~ In k b.
Proof.
  intros a k b H Hin. apply NoDup_remove_2 in H. apply H. apply in_or_app. right. exact Hin.
Qed.

Combined Scheme ty_fields_mutind from ty_mut, fields_mut.

Lemma rt_all : (forall t, RT t) /\ (forall fs, RTF fs).
Proof.
  apply ty_fields_mutind.
  - unfold RT. intros v Hrt Hwt. destruct v; try discriminate. reflexivity.
  - unfold RT. intros v Hrt Hwt. destruct v; try discriminate. reflexivity.
  - unfold RT. intros v Hrt Hwt. destruct v; try discriminate. reflexivity.
  - unfold RT. intros n sym sk v Hrt Hwt.
    destruct v as [| | |j| | | | |]; try discriminate. destruct j; reflexivity.
  - unfold RT. intros v Hrt Hwt. discriminate.
  - unfold RT. intros why v Hrt Hwt. discriminate.
  - (* pointer *)
    intros t' IHt. unfold RT in *. intros v Hrt Hwt.
    cbn [roundtrippable] in Hrt.
    destruct v as [| | | | |w| | |]; try discriminate; [reflexivity|].
    cbn [well_typed] in Hwt. cbn [enc norm].
    pose proof (IHt w Hrt Hwt) as IH.
    destruct (jnullb (enc t' w)) eqn:Hnull.
    + destruct (enc t' w); try discriminate. reflexivity.
    + cbn [dec]. rewrite Hnull. rewrite IH. reflexivity.
  - (* slice *)
    intros t' IHt. unfold RT in *. intros v Hrt Hwt.
    cbn [roundtrippable] in Hrt.
    destruct v as [| | | | | |l| |]; try discriminate; [reflexivity|].
    cbn [well_typed] in Hwt. cbn [enc norm dec jnullb].
    rewrite (mapM_map _ _ _ (dec t') (enc t') (norm t')); [reflexivity|].
    intros x Hx. apply IHt; [exact Hrt|]. rewrite forallb_forall in Hwt. apply Hwt. exact Hx.
  - (* map *)
    intros t' IHt. unfold RT in *. intros v Hrt Hwt.
    cbn [roundtrippable] in Hrt.
    destruct v as [| | | | | | |m|]; try discriminate; [reflexivity|].
    cbn [well_typed] in Hwt. apply andb_true_iff in Hwt. destruct Hwt as [Hnd Hall].
    cbn [enc norm dec jnullb].
    rewrite map_map. cbn [fst].
    change (map (fun x : string * value => fst x) m) with (map fst m). rewrite Hnd.
    rewrite (mapM_map _ _ _ (fun kv => option_map (pair (fst kv)) (dec t' (snd kv)))
               (fun kv => (fst kv, enc t' (snd kv))) (fun kv => (fst kv, norm t' (snd kv)))); [reflexivity|].
    intros x Hx. cbn [fst snd]. rewrite IHt; [reflexivity | exact Hrt |].
    rewrite forallb_forall in Hall. apply Hall. exact Hx.
  - (* struct *)
    intros n fs HF. unfold RT. intros v Hrt Hwt.
    cbn [roundtrippable] in Hrt. apply andb_true_iff in Hrt. destruct Hrt as [Hnd Hrf].
    destruct v as [| | | | | | | |vs]; try discriminate.
    cbn [well_typed] in Hwt. cbn [enc norm dec jnullb].
    apply nodupb_NoDup in Hnd.
    pose proof (enc_fields_nodup fs vs Hnd) as Hk. apply nodupb_NoDup in Hk. rewrite Hk.
    specialize (HF vs [] Hrf Hwt). cbn [app map] in HF. rewrite HF by exact Hnd. reflexivity.
  - unfold RTF. intros vs pre Hrt Hwt Hnd. destruct vs; [reflexivity | discriminate].
  - intros fi t HT rest IH. unfold RTF in *. intros vs pre Hrt Hwt Hnd.
    destruct vs as [|v vs']; [discriminate|].
    cbn [wt_fields] in Hwt. apply andb_true_iff in Hwt. destruct Hwt as [Hwv Hwr].
    cbn [rt_fields] in Hrt. apply andb_true_iff in Hrt. destruct Hrt as [Hrv Hrr].
    cbn [field_names] in Hnd. cbn [enc_fields dec_fields norm_fields].
    destruct (persisted_b fi) eqn:Hp; cbn [andb].
    + apply andb_true_iff in Hrv. destruct Hrv as [Hrt' _].
      destruct (f_omitempty fi && is_empty v) eqn:Hom; cbn [negb].
      * (* omitted: key absent, the field reloads as its zero value *)
        rewrite lookup_app_notin by (eapply NoDup_app_cons_notin_l; exact Hnd).
        rewrite lookup_notin.
        2:{ intro Hin. apply enc_fields_keys in Hin.
            eapply NoDup_app_cons_notin_r; [exact Hnd | exact Hin]. }
        rewrite (IH vs' pre Hrr Hwr) by (eapply NoDup_remove_1; exact Hnd).
        reflexivity.
      * rewrite lookup_app_notin by (eapply NoDup_app_cons_notin_l; exact Hnd).
        rewrite lookup_head. rewrite (HT v Hrt' Hwv).
        replace (pre ++ (f_json fi, enc t v) :: enc_fields rest vs')
          with ((pre ++ [(f_json fi, enc t v)]) ++ enc_fields rest vs')
          by (rewrite <- app_assoc; reflexivity).
        rewrite (IH vs' (pre ++ [(f_json fi, enc t v)]) Hrr Hwr).
        { reflexivity. }
        rewrite map_app. cbn [map fst]. rewrite <- app_assoc. exact Hnd.
    + rewrite (IH vs' pre Hrr Hwr Hnd). reflexivity.
Qed.

Lemma roundtrip : forall t v,
  roundtrippable t = true -> well_typed t v = true -> dec t (enc t v) = Some (norm t v).
Proof. exact (proj1 rt_all). Qed.

(* ------------------------------------------------------------------ Part 2 *)

Section Atomic.
Context (new : contents) (target : path).

Definition absinv (s : absst) (f : fs) : Prop :=
  forall q, (s q = AFull -> f q = Some new) /\ (s q = AEmpty -> f q = Some "").

Lemma upd_same : forall f p c, upd f p c p = c.
Proof. intros. unfold upd. rewrite String.eqb_refl. reflexivity. Qed.

Lemma upd_other : forall f p c q, q <> p -> upd f p c q = f q.
Proof. intros f p c q H. unfold upd. destruct (String.eqb_spec q p); [contradiction | reflexivity]. Qed.

Lemma absinv_forget : forall s f q x, absinv s f -> absinv (aupd s q AUnknown) (upd f q x).
Proof.
  intros s f q x H r. unfold aupd, upd. destruct (String.eqb r q).
  - split; discriminate.
  - apply H.
Qed.

Lemma absinv_forget_abs : forall s f q, absinv s f -> absinv (aupd s q AUnknown) f.
Proof.
  intros s f q H r. unfold aupd. destruct (String.eqb r q).
  - split; discriminate.
  - apply H.
Qed.

Lemma absinv_set : forall s f q a c, absinv s f ->
  (a = AFull -> c = Some new) -> (a = AEmpty -> c = Some "") -> absinv (aupd s q a) (upd f q c).
Proof.
  intros s f q a c H Hf He r. unfold aupd, upd. destruct (String.eqb r q).
  - split; assumption.
  - apply H.
Qed.

Lemma neqb_neq : forall a b, negb (String.eqb a b) = true -> a <> b.
Proof. intros a b H. apply negb_true_iff in H. apply String.eqb_neq. exact H. Qed.

Lemma cat_empty : cat (Some "") new = Some new.
Proof. reflexivity. Qed.

(* abstract state after a completed operation / after a failed one the code does not check *)
Lemma step_ok_inv : forall o r s f,
  atomic_from target s (o :: r) = true -> absinv s f ->
  exists s', atomic_from target s' r = true /\ absinv s' (step_ok new o f) /\
             (step_ok new o f target = f target \/ step_ok new o f target = Some new) /\
             forall k, (op_abort o = false ->
                        exists s'', atomic_from target s'' r = true /\ absinv s'' (step_partial new o k f)) /\
                       step_partial new o k f target = f target.
Proof.
  intros o r s f Hat Hinv. destruct o as [q ab|q ab|q ab|q ab|a b ab|q ab]; cbn [atomic_from] in Hat.
  - apply andb_true_iff in Hat. destruct Hat as [Hq Hr]. apply neqb_neq in Hq.
    eexists. split; [exact Hr|]. cbn [step_ok step_partial op_abort]. split; [|split].
    + apply absinv_set; [exact Hinv | destruct ab; discriminate | reflexivity].
    + left. apply upd_other. congruence.
    + intros k. split; [|reflexivity]. intros ->. eexists. split; [exact Hr|].
      apply absinv_forget_abs. exact Hinv.
  - apply andb_true_iff in Hat. destruct Hat as [Hq Hr]. apply neqb_neq in Hq.
    eexists. split; [exact Hr|]. cbn [step_ok step_partial op_abort]. split; [|split].
    + apply absinv_set; [exact Hinv | | ].
      * intros Ha. destruct ab; cbn [andb] in Ha; [|discriminate].
        destruct (s q) eqn:Hs; cbn [is_emptyA] in Ha; try discriminate.
        rewrite (proj2 (Hinv q) Hs). apply cat_empty.
      * intros Ha. destruct (ab && is_emptyA (s q)); discriminate.
    + left. apply upd_other. congruence.
    + intros k. split; [|apply upd_other; congruence]. intros ->. eexists. split; [exact Hr|].
      cbn [andb]. apply absinv_forget. exact Hinv.
  - exists s. cbn [step_ok step_partial]. split; [exact Hat|]. split; [exact Hinv|]. split; [left; reflexivity|].
    intros k. split; [|reflexivity]. intros _. exists s. split; assumption.
  - exists s. cbn [step_ok step_partial]. split; [exact Hat|]. split; [exact Hinv|]. split; [left; reflexivity|].
    intros k. split; [|reflexivity]. intros _. exists s. split; assumption.
  - apply andb_true_iff in Hat. destruct Hat as [Hat Hr]. apply andb_true_iff in Hat. destruct Hat as [Ha Hb].
    apply neqb_neq in Ha.
    eexists. split; [exact Hr|]. cbn [step_ok step_partial op_abort]. split; [|split].
    + destruct (f a) as [c|] eqn:Hfa.
      * apply absinv_forget. apply absinv_forget. exact Hinv.
      * apply absinv_forget_abs. apply absinv_forget_abs. exact Hinv.
    + destruct (f a) as [c|] eqn:Hfa; [|left; reflexivity].
      rewrite upd_other by congruence.
      destruct (String.eqb_spec b target) as [->|Hne].
      * right. rewrite upd_same. destruct (s a) eqn:Hs; cbn [is_full] in Hb; try discriminate.
        rewrite <- Hfa. apply (proj1 (Hinv a) Hs).
      * left. apply upd_other. congruence.
    + intros k. split; [|reflexivity]. intros _. eexists. split; [exact Hr|].
      apply absinv_forget_abs. apply absinv_forget_abs. exact Hinv.
  - apply andb_true_iff in Hat. destruct Hat as [Hq Hr]. apply neqb_neq in Hq.
    eexists. split; [exact Hr|]. cbn [step_ok step_partial op_abort]. split; [|split].
    + apply absinv_forget. exact Hinv.
    + left. apply upd_other. congruence.
    + intros k. split; [|reflexivity]. intros _. eexists. split; [exact Hr|].
      apply absinv_forget_abs. exact Hinv.
Qed.

Lemma atomic_from_reach : forall p f f', reach new p f f' ->
  forall s, atomic_from target s p = true -> absinv s f ->
  f' target = f target \/ f' target = Some new.
Proof.
  induction 1 as [p f | o p f f' Hr IH | o p f k | o p f k f' Hab Hr IH]; intros s Hat Hinv.
  - left. reflexivity.
  - destruct (step_ok_inv o p s f Hat Hinv) as [s' [Hat' [Hinv' [Ht _]]]].
    destruct (IH s' Hat' Hinv') as [E|E]; [|right; exact E].
    rewrite E. exact Ht.
  - destruct (step_ok_inv o p s f Hat Hinv) as [_ [_ [_ [_ Hk]]]].
    left. apply (Hk k).
  - destruct (step_ok_inv o p s f Hat Hinv) as [_ [_ [_ [_ Hk]]]].
    destruct (Hk k) as [Hex Ht]. destruct (Hex Hab) as [s'' [Hat'' Hinv'']].
    destruct (IH s'' Hat'' Hinv'') as [E|E]; [|right; exact E].
    left. rewrite E. exact Ht.
Qed.

Lemma absinv_top : forall f, absinv (fun _ => AUnknown) f.
Proof. intros f q. split; discriminate. Qed.

Lemma save_atomic_sec : forall p f f', atomic_prog target p = true -> reach new p f f' ->
  f' target = f target \/ f' target = Some new.
Proof.
  intros p f f' Hat Hr. eapply atomic_from_reach; [exact Hr | exact Hat | apply absinv_top].
Qed.

Lemma commits_from_run : forall p s f, commits_from target s p = true -> absinv s f ->
  run new p f target = Some new.
Proof.
  induction p as [|o r IH]; intros s f Hc Hinv; cbn [commits_from run] in *.
  - destruct (s target) eqn:Hs; cbn [is_full] in Hc; try discriminate. apply (proj1 (Hinv target) Hs).
  - destruct o as [q ab|q ab|q ab|q ab|a b ab|q ab]; cbn [step_ok].
    + eapply IH; [exact Hc|]. apply absinv_set; [exact Hinv | discriminate | reflexivity].
    + eapply IH; [exact Hc|]. apply absinv_set; [exact Hinv | | ].
      * intros Ha. destruct (s q) eqn:Hs; cbn [is_emptyA] in Ha; try discriminate.
        rewrite (proj2 (Hinv q) Hs). apply cat_empty.
      * intros Ha. destruct (is_emptyA (s q)); discriminate.
    + eapply IH; [exact Hc | exact Hinv].
    + eapply IH; [exact Hc | exact Hinv].
    + destruct (s a) eqn:Hs; cbn [is_full] in Hc; try discriminate.
      rewrite (proj1 (Hinv a) Hs). eapply IH; [exact Hc|].
      apply absinv_forget. apply absinv_set; [exact Hinv | reflexivity | discriminate].
    + eapply IH; [exact Hc|]. apply absinv_forget. exact Hinv.
Qed.

Lemma save_commits_sec : forall p f, commits_prog target p = true -> run new p f target = Some new.
Proof. intros p f H. eapply commits_from_run; [exact H | apply absinv_top]. Qed.

End Atomic.

Lemma save_atomic : forall target p, atomic_prog target p = true ->
  forall new f f', reach new p f f' -> f' target = f target \/ f' target = Some new.
Proof. intros target p H new f f' Hr. eapply save_atomic_sec; eassumption. Qed.

Lemma save_commits : forall target p, commits_prog target p = true ->
  forall new f, run new p f target = Some new.
Proof. intros target p H new f. apply save_commits_sec. exact H. Qed.

(* a history of saves, each of which may complete, fail or be killed at any instant
   (later saves start from whatever the earlier ones left on disk, stale temp files included) *)
Inductive hist (p : list fsop) : list contents -> fs -> fs -> Prop :=
| hist_nil : forall f, hist p [] f f
| hist_cons : forall new news f f' f'', reach new p f f' -> hist p news f' f'' -> hist p (new :: news) f f''.

Lemma history_atomic : forall target p, atomic_prog target p = true ->
  forall news f f', hist p news f f' ->
  f' target = f target \/ exists new, In new news /\ f' target = Some new.
Proof.
  intros target p Hat news f f' H. induction H as [f | new news f f' f'' Hr Hh IH].
  - left. reflexivity.
  - destruct IH as [E|[n [Hin E]]].
    + destruct (save_atomic target p Hat new f f' Hr) as [E'|E'].
      * left. congruence.
      * right. exists new. split; [left; reflexivity | congruence].
    + right. exists n. split; [right; exact Hin | exact E].
Qed.

(* an in-place write is NOT atomic: witness that the check is not vacuous *)
Lemma inplace_not_atomic :
  exists f', reach "NEW" [OpCreate "cache" true; OpWrite "cache" true; OpClose "cache" true]
               (fun q => if String.eqb q "cache" then Some "OLD" else None) f' /\
             f' "cache" = Some "NE".
Proof.
  eexists. split.
  - apply reach_ok. apply (reach_cut "NEW" (OpWrite "cache" true) _ _ 2).
  - reflexivity.
Qed.

(* ------------------------------------------------------------------ Part 3 *)
Open Scope Z_scope.

Lemma land_sub : forall mode reject, Z.land reject go_w = go_w ->
  Z.land mode reject = 0 -> Z.land mode go_w = 0.
Proof.
  intros mode reject Hc H0. rewrite <- Hc. rewrite Z.land_assoc. rewrite H0. apply Z.land_0_l.
Qed.

Lemma refuses_unsafe : forall is_dir reject e,
  Z.land reject go_w = go_w -> unsafe_entry is_dir e = true -> check_perm is_dir reject e = Refuse.
Proof.
  intros is_dir reject e Hc Hu. destruct e as [|ft mode]; [discriminate|].
  unfold unsafe_entry in Hu. unfold check_perm.
  destruct (ftype_eqb ft FTSymlink); [reflexivity|].
  destruct (negb (ftype_eqb ft (if is_dir then FTDir else FTRegular))); [reflexivity|].
  cbn [orb] in Hu.
  destruct (Z.land mode reject =? 0) eqn:E; [|reflexivity].
  apply Z.eqb_eq in E. rewrite (land_sub mode reject Hc E) in Hu. discriminate.
Qed.

Lemma accepts_safe : forall is_dir reject ft mode,
  reject = go_w -> unsafe_entry is_dir (Present ft mode) = false ->
  check_perm is_dir reject (Present ft mode) = Accept.
Proof.
  intros is_dir reject ft mode -> Hs. unfold unsafe_entry in Hs. unfold check_perm.
  apply orb_false_iff in Hs. destruct Hs as [Hs H3]. apply orb_false_iff in Hs. destruct Hs as [H1 H2].
  rewrite H1, H2, H3. reflexivity.
Qed.

Lemma new_cache_refuses : forall checks look,
  forallb (fun c => Z.land (snd c) go_w =? go_w) checks = true ->
  existsb (fun c => unsafe_entry (snd (fst c)) (look (fst (fst c)))) checks = true ->
  new_cache_accepts checks look = false.
Proof.
  intros checks look Hcov Hex. unfold new_cache_accepts.
  apply existsb_exists in Hex. destruct Hex as [[[name is_dir] reject] [Hin Hu]].
  rewrite forallb_forall in Hcov. pose proof (Hcov _ Hin) as Hc. cbn [snd fst] in Hc, Hu.
  apply Z.eqb_eq in Hc.
  destruct (forallb _ checks) eqn:E; [|reflexivity].
  rewrite forallb_forall in E. specialize (E _ Hin). cbn beta iota in E.
  rewrite (refuses_unsafe is_dir reject (look name) Hc Hu) in E. discriminate.
Qed.
