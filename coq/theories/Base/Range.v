(* Complete sweeps over integer ranges, lifted to universally quantified statements. *)
From Coq Require Import ZArith Lia Bool.
Open Scope Z_scope.

Fixpoint all_from (n : nat) (lo : Z) (p : Z -> bool) : bool :=
  match n with
  | O => true
  | S n' => p lo && all_from n' (lo + 1) p
  end.

Lemma all_from_spec n : forall lo p, all_from n lo p = true ->
  forall x, lo <= x < lo + Z.of_nat n -> p x = true.
Proof.
  induction n as [|n IH]; intros lo p H x Hx.
  - lia.
  - cbn [all_from] in H. apply andb_true_iff in H as [H0 H1].
    destruct (Z.eq_dec x lo) as [->|Hne]; [exact H0|].
    apply (IH (lo + 1) p H1). lia.
Qed.

Definition all_range (lo hi : Z) (p : Z -> bool) : bool :=
  all_from (Z.to_nat (hi - lo + 1)) lo p.

Lemma all_range_spec lo hi p : all_range lo hi p = true ->
  forall x, lo <= x <= hi -> p x = true.
Proof.
  unfold all_range. intros H x Hx. apply (all_from_spec _ _ _ H). lia.
Qed.
