(* C04: proofs for the preserve-aware pinning glue (Mem_Model.mstep_p). *)
From Coq Require Import List Bool.
From stdpp Require Import gmap sets.
From NV Require Import Mem_Model.
Import ListNotations.

Section memp.
Context (pres : gset nat).

Definition MInvP (s : mst) : Prop :=
  (forall c z, c ∉ pres -> asg s !! c = Some z -> told s !! c = Some z) /\ (forall c, c ∈ pres -> told s !! c = None).

Lemma np_none upd : forall (m : gmap nat zone) c, c ∈ pres -> m !! c = None -> apply_updates_np pres m upd !! c = None.
Proof.
  induction upd as [|[k v] upd IH]; intros m c Hc Hm; cbn [apply_updates_np fold_left]; [exact Hm|].
  apply IH; [exact Hc|]. cbn [fst snd]. destruct (decide (k ∈ pres)); [exact Hm|].
  rewrite lookup_insert_ne; [exact Hm|]. intros ->. contradiction.
Qed.

Lemma np_agree upd : forall (m1 m2 : gmap nat zone),
  (forall c z, c ∉ pres -> m2 !! c = Some z -> m1 !! c = Some z) ->
  (forall kv, In kv upd -> is_Some (m2 !! fst kv)) ->
  forall c z, c ∉ pres -> apply_updates m2 upd !! c = Some z -> apply_updates_np pres m1 upd !! c = Some z.
Proof.
  induction upd as [|[k v] upd IH]; intros m1 m2 H Hd c z Hc; cbn [apply_updates apply_updates_np fold_left]; [apply H, Hc|].
  cbn [fst snd]. apply IH; [| |exact Hc].
  - intros c' z' Hc' Hl. destruct (decide (c' = k)) as [->|Hn].
    + rewrite lookup_insert in Hl. destruct (decide (k ∈ pres)); [contradiction|]. rewrite lookup_insert. exact Hl.
    + rewrite lookup_insert_ne in Hl by congruence.
      destruct (decide (k ∈ pres)); [apply H; assumption|]. rewrite lookup_insert_ne by congruence. apply H; assumption.
  - intros kv Hin. destruct (decide (fst kv = k)) as [->|Hn].
    + rewrite lookup_insert. eauto.
    + rewrite lookup_insert_ne by congruence. apply Hd. right. exact Hin.
Qed.

Lemma mstep_p_inv s o : MInvP s -> op_ok s o = true -> MInvP (mstep_p pres s o).
Proof.
  intros [HI HP] Hok. destruct o as [c z upd|c nodes|c]; cbn [mstep_p].
  - split.
    + intros c' z' Hc' H. cbn [asg told] in *. destruct (decide (c' = c)) as [->|Hn].
      * rewrite lookup_insert in H. destruct (decide (c ∈ pres)); [contradiction|]. rewrite lookup_insert. exact H.
      * rewrite lookup_insert_ne in H by congruence.
        assert (Hx : apply_updates_np pres (told s) upd !! c' = Some z').
        { revert H. apply np_agree; [exact HI| |exact Hc'].
          cbn [op_ok] in Hok. rewrite forallb_forall in Hok. intros kv Hin. specialize (Hok kv Hin). apply bool_decide_eq_true in Hok. exact Hok. }
        destruct (decide (c ∈ pres)); [exact Hx|]. rewrite lookup_insert_ne by congruence. exact Hx.
    + intros c' Hc'. cbn [told]. destruct (decide (c ∈ pres)).
      * apply np_none; [exact Hc'|apply HP, Hc'].
      * rewrite lookup_insert_ne; [apply np_none; [exact Hc'|apply HP, Hc']|]. intros ->. contradiction.
  - destruct (asg s !! c) eqn:Hc; [split; assumption|]. destruct (decide (c ∈ pres)); [split; assumption|].
    split.
    + intros c' z' Hc' H. cbn [asg told] in *. destruct (decide (c' = c)) as [->|Hn]; [congruence|].
      rewrite lookup_insert_ne by congruence. apply HI; assumption.
    + intros c' Hc'. cbn [told]. rewrite lookup_insert_ne; [apply HP, Hc'|]. intros ->. contradiction.
  - split.
    + intros c' z' Hc' H. cbn [asg told] in *. destruct (decide (c' = c)) as [->|Hn].
      * rewrite lookup_delete in H. discriminate.
      * rewrite lookup_delete_ne in H by congruence. rewrite lookup_delete_ne by congruence. apply HI; assumption.
    + intros c' Hc'. cbn [told]. destruct (decide (c' = c)) as [->|Hn]; [apply lookup_delete|].
      rewrite lookup_delete_ne by congruence. apply HP, Hc'.
Qed.

Lemma MInvP_m0 : MInvP m0.
Proof. split; [intros c z _ H; cbn in H; rewrite lookup_empty in H; discriminate|intros c _; apply lookup_empty]. Qed.

Fixpoint ops_ok (s : mst) (os : list mop) : Prop :=
  match os with [] => True | o :: os' => op_ok s o = true /\ ops_ok (mstep_p pres s o) os' end.

Lemma run_inv os : forall s, MInvP s -> ops_ok s os -> MInvP (fold_left (mstep_p pres) os s).
Proof.
  induction os as [|o os IH]; intros s HI Hok; cbn [fold_left]; [exact HI|].
  destruct Hok as [H1 H2]. exact (IH _ (mstep_p_inv s o HI H1) H2).
Qed.

End memp.
