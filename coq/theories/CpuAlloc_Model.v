(* C08: CPU allocator (pkg/cpuallocator/allocator.go).  Executable model + correspondence
   checker.  NO proofs in this file (Decision instances are definitions).

   Input = the allocator's own view (topologyCache + sysfs.System) as dumped by harness/c08.
   Structure-faithful: helper state (from, cnt, result), the stages takeIdlePackages,
   takeIdleClusters, takeCacheGroups (nested cores+threads sub-allocation, commit only if
   complete), takeIdleCores, takeIdleThreads, allocate (flags), allocateCpus, ReleaseCpus.
   Every place where the Go code sorts candidates calls an *order function* taken from a record
   [orders]; the contract theorems (CpuAlloc_Proofs.v) quantify over ALL order functions that
   return a permutation of their argument.  [go_orders] is the instance that models the Go
   comparators and insertion sort (what sort.Slice / slices.SortFunc run for <= 12 elements). *)
From stdpp Require Import gmap sets fin_sets sorting.
From Coq Require Import ZArith.
Open Scope Z_scope.

Definition cpuset := gset N.
Definition sz (s : cpuset) : Z := Z.of_nat (size s).

Inductive prio := High | Normal | Low | NoPrio.   (* CPUPriority 0,1,2,3(=PriorityNone) *)
Global Instance prio_eq_dec : EqDecision prio.
Proof. solve_decision. Defined.

Record cpuinfo := CpuInfo {
  c_id : N;               (* element of sys.CPUIDs() *)
  c_pkg : Z;              (* sys.CPU(id).PackageID() *)
  c_threads : cpuset }.   (* topology.core[id] = sys.CPU(id).ThreadCPUSet() *)

Record cluster := Cluster {
  cl_pkg : Z; cl_die : Z; cl_id : Z; cl_cpus : cpuset; cl_kind : Z }.  (* kind 0 = P, 1 = E *)

Record cgroup := CGroup {
  cg_id : Z; cg_pkg : Z; cg_die : Z; cg_node : Z; cg_cpus : cpuset; cg_kind : Z }.

Record topo := Topo {
  t_cpus : list cpuinfo;          (* in sys.CPUIDs() order *)
  t_offline : cpuset;             (* sys.Offlined() = sys.OfflineCPUs() *)
  t_pkgs : list (Z * cpuset);     (* topology.pkg in sys.PackageIDs() order *)
  t_high : cpuset; t_normal : cpuset; t_low : cpuset;   (* topology.cpuPriorities *)
  t_nkinds : Z;                   (* len(topology.kind) *)
  t_clusters : list cluster;      (* topology.clusters, discovery order *)
  t_groups : list cgroup }.       (* topology.cacheGroups, discovery order *)

Definition cpu_ids (t : topo) : list N := map c_id (t_cpus t).
Definition online (t : topo) : cpuset := list_to_set (cpu_ids t) ∖ t_offline t.

(* allocatorHelper.{from,cnt,result}; h_lvl records how far the order decisions taken so far
   were forced: 0 = every sort had a unique sorted permutation, 1 = some sort was not forced
   but had <= 12 elements (Go runs exactly the modelled insertion sort), 2 = neither. *)
Record helper := Helper { h_from : cpuset; h_cnt : Z; h_res : cpuset; h_lvl : N }.

Definition take (s : cpuset) (h : helper) : helper :=
  Helper (h_from h ∖ s) (h_cnt h - sz s) (h_res h ∪ s) (h_lvl h).
Definition bump (l : N) (h : helper) : helper :=
  Helper (h_from h) (h_cnt h) (h_res h) (N.max l (h_lvl h)).

Record orders := Orders {
  o_pkgs : helper -> list (Z * cpuset) -> list (Z * cpuset) * N;
  o_cores : helper -> list cpuinfo -> list cpuinfo * N;
  o_threads : helper -> list cpuinfo -> list cpuinfo * N;
  o_clusters : helper -> list cluster -> list cluster * N;
  o_cgprefer : helper -> list cgroup -> list cgroup -> list cgroup * N;  (* args: usable, prefer *)
  o_cgusable : helper -> list cgroup -> list cgroup -> list cgroup * N   (* args: sorted prefer, usable *)
}.

(* ---------------------------------------------------------------- flags *)
Definition fl_packages (f : N) := N.testbit f 0.
Definition fl_clusters (f : N) := N.testbit f 1.
Definition fl_cgroups (f : N) := N.testbit f 2.
Definition fl_cores (f : N) := N.testbit f 3.
Definition alloc_default : N := 15%N.

Section stages.
Context (t : topo) (o : orders) (prefer : prio).

Definition prio_set (p : prio) : option cpuset :=
  match p with High => Some (t_high t) | Normal => Some (t_normal t) | Low => Some (t_low t) | NoPrio => None end.

(* ---------------------------------------------------------------- takeIdlePackages *)
(* cset := topology.pkg[id].Difference(offline) [.Intersection(cpuPriorities[prefer])] *)
Definition pkg_cset (p : Z * cpuset) : cpuset :=
  let s := p.2 ∖ t_offline t in
  match prio_set prefer with Some ps => s ∩ ps | None => s end.

(* for _, x := range sorted { if a.cnt >= |cset| { take; if a.cnt == 0 { break } } } *)
Fixpoint take_fitting (sets : list cpuset) (h : helper) : helper :=
  match sets with
  | [] => h
  | s :: rest =>
      if sz s <=? h_cnt h then
        let h' := take s h in
        if h_cnt h' =? 0 then h' else take_fitting rest h'
      else take_fitting rest h
  end.

Definition take_idle_packages (h : helper) : helper :=
  let idle := filter (λ p, bool_decide (pkg_cset p ⊆ h_from h)) (t_pkgs t) in
  let '(sorted, lvl) := o_pkgs o h idle in
  take_fitting (map pkg_cset sorted) (bump lvl h).

(* ---------------------------------------------------------------- takeIdleCores *)
Definition core_cset (c : cpuinfo) : cpuset := c_threads c ∖ t_offline t.
(* cset.List()[0] == id *)
Definition is_min (id : N) (s : cpuset) : bool :=
  bool_decide (id ∈ s) && bool_decide (set_Forall (λ x, (id <= x)%N) s).

Definition idle_core (h : helper) (c : cpuinfo) : bool :=
  let cs := core_cset c in
  negb (bool_decide (cs = ∅)) && bool_decide (cs ⊆ h_from h) && is_min (c_id c) cs.

Definition take_idle_cores (h : helper) : helper :=
  let idle := filter (λ c, idle_core h c) (t_cpus t) in
  let '(sorted, lvl) := o_cores o h idle in
  take_fitting (map core_cset sorted) (bump lvl h).

(* ---------------------------------------------------------------- takeIdleThreads *)
(* for _, id := range sorted { take {id}; if a.cnt == 0 { break } } *)
Fixpoint take_each (l : list cpuinfo) (h : helper) : helper :=
  match l with
  | [] => h
  | c :: rest =>
      let h' := take {[ c_id c ]} h in
      if h_cnt h' =? 0 then h' else take_each rest h'
  end.

Definition take_idle_threads (h : helper) : helper :=
  let cand := filter (λ c, bool_decide (c_id c ∈ h_from h ∖ t_offline t)) (t_cpus t) in
  let '(sorted, lvl) := o_threads o h cand in
  take_each sorted (bump lvl h).

(* ---------------------------------------------------------------- takeIdleClusters *)
Definition kind_omitted (kind : Z) : bool :=
  (1 <? t_nkinds t) &&
  ((negb (bool_decide (prefer = Low)) && (kind =? 1)) || (bool_decide (prefer = Low) && (kind =? 0))).

Definition cl_cset (c : cluster) : cpuset := cl_cpus c ∖ t_offline t.
Definition cluster_idle (h : helper) (c : cluster) : bool :=
  negb (kind_omitted (cl_kind c)) &&
  let cs := cl_cset c in
  let free := cs ∩ h_from h in
  negb (bool_decide (free = ∅)) && bool_decide (free = cs).

(* for _, c := range clusters { if a.cnt < |cset| { return }; take; if a.cnt == 0 { return } } *)
Fixpoint take_until_misfit (sets : list cpuset) (h : helper) : helper :=
  match sets with
  | [] => h
  | s :: rest =>
      if h_cnt h <? sz s then h
      else let h' := take s h in
           if h_cnt h' =? 0 then h' else take_until_misfit rest h'
  end.

Definition take_idle_clusters (h : helper) : helper :=
  if (Z.of_nat (length (t_clusters t)) <=? 1) then h else
  let picked := filter (cluster_idle h) (t_clusters t) in
  let '(sorted, lvl) := o_clusters o h picked in
  let h := bump lvl h in
  match sorted with
  | [] => h
  | c :: _ =>
      let cs := cl_cset c in
      if sz cs =? h_cnt h then take cs h
      else if h_cnt h <? sz cs then h
      else take_until_misfit (map cl_cset sorted) h
  end.

(* ---------------------------------------------------------------- nested allocation *)
(* newAllocatorHelper; flags = AllocIdleCores; from = cset; cnt; allocate() *)
Definition alloc_sub (from : cpuset) (cnt : Z) : cpuset * N :=
  let h := Helper from cnt ∅ 0 in
  let h := if 0 <? h_cnt h then take_idle_cores h else h in   (* flags & AllocIdleCores, guarded by cnt > 0 *)
  let h := if 0 <? h_cnt h then take_idle_threads h else h in
  (if h_cnt h =? 0 then h_res h else ∅, h_lvl h).

(* ---------------------------------------------------------------- takeCacheGroups *)
Inductive verdict := PickPrefer | PickUsable | PickIgnore.

Definition cg_free (h : helper) (g : cgroup) : cpuset := (cg_cpus g ∖ t_offline t) ∩ h_from h.
Definition cg_pick (h : helper) (g : cgroup) : verdict :=
  if kind_omitted (cg_kind g) then PickIgnore else
  let cs := cg_cpus g ∖ t_offline t in
  let free := cs ∩ h_from h in
  if bool_decide (free = ∅) then PickIgnore
  else if bool_decide (free = cs) then PickPrefer else PickUsable.

Definition is_prefer (v : verdict) := match v with PickPrefer => true | _ => false end.
Definition is_usable (v : verdict) := match v with PickUsable => true | _ => false end.

Definition sum_free (h : helper) (gs : list cgroup) : Z :=
  fold_right (λ g acc, sz (cg_free h g) + acc) 0 gs.
Definition pkg_count (h : helper) (gs : list cgroup) (pkg : Z) : Z :=
  sum_free h (filter (λ g, cg_pkg g =? pkg) gs).
Definition die_count (h : helper) (gs : list cgroup) (pkg die : Z) : Z :=
  sum_free h (filter (λ g, (cg_pkg g =? pkg) && (cg_die g =? die)) gs).

(* local (result, from, cnt, lvl) of takeCacheGroups *)
Definition ltake (s : cpuset) (st : cpuset * cpuset * Z * N) : cpuset * cpuset * Z * N :=
  let '(res, from, cnt, lvl) := st in (res ∪ s, from ∖ s, cnt - sz s, lvl).

(* "take full idle cache groups, splitting up the last one if necessary" *)
Fixpoint cg_prefer_loop (h : helper) (gs : list cgroup) (st : cpuset * cpuset * Z * N) : cpuset * cpuset * Z * N :=
  match gs with
  | [] => st
  | g :: rest =>
      let '(res, from, cnt, lvl) := st in
      if cnt <=? 0 then st
      else
        let cs := cg_free h g in
        if sz cs <=? cnt then cg_prefer_loop h rest (ltake cs st)
        else
          let '(use, l2) := alloc_sub cs cnt in
          cg_prefer_loop h rest (ltake use (res, from, cnt, N.max lvl l2))
  end.

(* for i := 0; ...; i++ { if g.pkg != chosenPkg { break }; ... } *)
Fixpoint same_pkg_prefix (pkg : Z) (gs : list cgroup) : list cgroup :=
  match gs with
  | g :: rest => if cg_pkg g =? pkg then g :: same_pkg_prefix pkg rest else []
  | [] => []
  end.

(* for i, total := range totalByIndex { grpCnt, cpuCnt = i+1, total; if cnt <= total { break } } *)
Fixpoint scan_totals (sizes : list Z) (cnt : Z) (i : nat) (total : Z) : nat * Z :=
  match sizes with
  | [] => (i, total)
  | s :: rest => let total' := total + s in
                 if cnt <=? total' then (S i, total') else scan_totals rest cnt (S i) total'
  end.

(* for i := 0; i < grpCnt; i++ { if cnt < |cset| { break }; take } *)
Fixpoint cg_take_first (h : helper) (gs : list cgroup) (st : cpuset * cpuset * Z * N) : cpuset * cpuset * Z * N :=
  match gs with
  | [] => st
  | g :: rest =>
      let cs := cg_free h g in
      if st.1.2 <? sz cs then st else cg_take_first h rest (ltake cs st)
  end.

(* "try picking the smallest number of groups of a single size": size, take := 0, 0 and the
   condition n < take, so this never selects anything (dead code, modelled literally; the map
   iteration order is irrelevant for that reason) *)
Definition same_size_pick (sizes : list Z) (cnt : Z) : Z * Z :=
  fold_left (λ (acc : Z * Z) (gsz : Z),
    if (0 <? gsz) && (gsz <? cnt) && (Z.rem cnt gsz =? 0) then
      let n := Z.quot cnt gsz in
      let ngroups := Z.of_nat (length (filter (λ s, s =? gsz) sizes)) in
      if (n <? ngroups) && (n <? acc.2) then (gsz, n) else acc
    else acc) sizes (0, 0).

Definition commit (h : helper) (st : cpuset * cpuset * Z * N) : helper :=
  let '(res, from, cnt, lvl) := st in Helper from cnt res lvl.

(* "allocate non-idle usable cache groups" (second half of takeCacheGroups) *)
Definition cg_use_usable (h : helper) (usable : list cgroup) (chosen : Z) (st : cpuset * cpuset * Z * N) : helper :=
  let cand := same_pkg_prefix chosen usable in
  let sizes := map (λ g, sz (cg_free h g)) cand in
  match filter (λ g, sz (cg_free h g) =? st.1.2) cand with
  | g :: _ =>
      (* single group with exactly the missing number of free CPUs *)
      let cs := cg_free h g in
      commit h (st.1.1.1 ∪ cs, st.1.1.2 ∖ cs, 0, st.2)
  | [] =>
      let '(ssize, stake) := same_size_pick sizes st.1.2 in
      let live := negb (stake =? 0) && (1 <? ssize) in
      let st1 :=
        if live
        then fold_left (λ st g, ltake (cg_free h g) st) (filter (λ g, sz (cg_free h g) =? ssize) cand) st
        else st in
      (* a.result/a.from/a.cnt as assigned by the same-size branch (if it ran to completion) *)
      let h1 := if live then commit h (st1.1.1.1, st1.1.1.2, 0, st1.2) else h in
      if live && negb (st1.1.2 =? 0) then bump st1.2 h else
      let '(grp_cnt, cpu_cnt) := scan_totals sizes st1.1.2 0 0 in
      if cpu_cnt <? st1.1.2 then bump st1.2 h1 else
      let st2 := cg_take_first h (firstn grp_cnt usable) st1 in
      let st3 :=
        if 0 <? st2.1.2 then
          match last (firstn grp_cnt usable) with
          | Some g =>
              let '(use, l3) := alloc_sub (cg_free h g) st2.1.2 in
              ltake use (st2.1.1.1, st2.1.1.2, st2.1.2, N.max st2.2 l3)
          | None => st2
          end
        else st2 in
      if negb (st3.1.2 =? 0) then bump st3.2 h1   (* nothing committed; the level still records the sorts that ran *)
      else commit h (st3.1.1.1, st3.1.1.2, 0, st3.2)
  end.

(* takeCacheGroups after sorter.sortCacheGroups(a) *)
Definition cg_allocate (h : helper) (pref usable : list cgroup) : helper :=
  let chosen := match pref with g :: _ => cg_pkg g | [] => match usable with g :: _ => cg_pkg g | [] => 0 end end in
  let prefer_cpus := match pref with _ :: _ => pkg_count h pref chosen | [] => 0 end in
  let usable_cpus := match pref, usable with [], [] => 0 | _, _ => pkg_count h usable chosen end in
  if prefer_cpus + usable_cpus <? h_cnt h then h else
  let st := cg_prefer_loop h pref (h_res h, h_from h, h_cnt h, h_lvl h) in
  if st.1.2 <=? 0 then commit h st else cg_use_usable h usable chosen st.

Definition take_cache_groups (h : helper) : helper :=
  if Z.of_nat (length (t_groups t)) <=? 1 then h else
  if h_cnt h <? 2 then h else
  let prefer0 := filter (λ g, is_prefer (cg_pick h g)) (t_groups t) in
  let usable0 := filter (λ g, is_usable (cg_pick h g)) (t_groups t) in
  let '(pref, l1) := o_cgprefer o h usable0 prefer0 in
  let '(usable, l2) := o_cgusable o h pref usable0 in
  cg_allocate (bump (N.max l1 l2) h) pref usable.

(* ---------------------------------------------------------------- allocate *)
Definition allocate (flags : N) (h : helper) : helper :=
  let h := if fl_packages flags then take_idle_packages h else h in
  let h :=
    if 1 <? t_nkinds t then
      let h := if (0 <? h_cnt h) && fl_clusters flags then take_idle_clusters h else h in
      if (0 <? h_cnt h) && fl_cgroups flags then take_cache_groups h else h
    else
      if (0 <? h_cnt h) && fl_cgroups flags then take_cache_groups h else h in
  let h := if (0 <? h_cnt h) && fl_cores flags then take_idle_cores h else h in
  if 0 <? h_cnt h then take_idle_threads h else h.

Inductive outcome := Ok (r : cpuset) | Err.

(* allocateCpus: returns (outcome, new *from, level) *)
Definition allocate_cpus (flags : N) (from : cpuset) (cnt : Z) : outcome * cpuset * N :=
  if sz from <? cnt then (Err, from, 0%N)
  else if sz from =? cnt then (Ok from, ∅, 0%N)
  else
    let h := allocate flags (Helper from cnt ∅ 0) in
    (Ok (if h_cnt h =? 0 then h_res h else ∅), h_from h, h_lvl h).

(* ReleaseCpus(from, cnt) = allocateCpus(from, from.Size()-cnt): the returned set holds the
   |from|-cnt CPUs that stay, *from is left holding the cnt released CPUs *)
Definition release_cpus (flags : N) (from : cpuset) (cnt : Z) : outcome * cpuset * N :=
  allocate_cpus flags from (sz from - cnt).

End stages.

(* ================================================================ well-formed topologies *)
Fixpoint PD (l : list cpuset) : Prop :=
  match l with [] => True | x :: r => Forall (λ y, x ## y) r ∧ PD r end.
Global Instance PD_dec l : Decision (PD l).
Proof. induction l as [|x r IH]; simpl; apply _. Defined.

Definition cores_partition (t : topo) : Prop :=
  Forall (λ c1, Forall (λ c2, core_cset t c1 = core_cset t c2 ∨ core_cset t c1 ## core_cset t c2) (t_cpus t)) (t_cpus t).

Definition topo_wf (t : topo) : Prop :=
  NoDup (cpu_ids t) ∧                       (* sys.CPUIDs() has no duplicates *)
  PD (map snd (t_pkgs t)) ∧                 (* packages pairwise disjoint *)
  cores_partition t ∧                       (* online thread-sibling sets are equal or disjoint *)
  PD (map cl_cpus (t_clusters t)) ∧         (* clusters pairwise disjoint *)
  PD (map cg_cpus (t_groups t)).            (* cache groups pairwise disjoint *)
Global Instance topo_wf_dec t : Decision (topo_wf t).
Proof. unfold topo_wf, cores_partition. apply _. Defined.

Definition perm_fn {A} (f : list A -> list A * N) : Prop := ∀ l, (f l).1 ≡ₚ l.
Definition orders_ok (o : orders) : Prop :=
  (∀ h, perm_fn (o_pkgs o h)) ∧ (∀ h, perm_fn (o_cores o h)) ∧ (∀ h, perm_fn (o_threads o h)) ∧
  (∀ h, perm_fn (o_clusters o h)) ∧ (∀ h u, perm_fn (o_cgprefer o h u)) ∧ (∀ h p, perm_fn (o_cgusable o h p)).

(* ================================================================ the Go comparators *)

(* insertion sort exactly as insertionSort_func / insertionSortCmpFunc: element i is swapped
   leftwards while less(data[j], data[j-1]).  [rp] is the sorted prefix, reversed. *)
Fixpoint ins_rev {A} (less : A -> A -> bool) (x : A) (rp : list A) : list A :=
  match rp with
  | [] => [x]
  | y :: r => if less x y then y :: ins_rev less x r else x :: rp
  end.
Definition isort {A} (less : A -> A -> bool) (l : list A) : list A :=
  rev (fold_left (λ rp x, ins_rev less x rp) l []).

(* [l] is strongly sorted by a comparator that is asymmetric on it: then [less] restricted to
   the elements of l is a strict total order and l is its only sorted permutation *)
Fixpoint forcedb {A} (less : A -> A -> bool) (l : list A) : bool :=
  match l with
  | [] => true
  | x :: r => forallb (λ y, less x y && negb (less y x)) r && forcedb less r
  end.

Definition level_of {A} (less : A -> A -> bool) (sorted : list A) : N :=
  if forcedb less sorted then 0%N else if (length sorted <=? 12)%nat then 1%N else 2%N.

(* sort with precomputed keys (decorate / sort / undecorate) *)
Definition sort_by {A K} (key : A -> K) (kless : K -> K -> bool) (l : list A) : list A * N :=
  let dl := map (λ a, (a, key a)) l in
  let less := λ a b : A * K, kless a.2 b.2 in
  let s := isort less dl in
  (map fst s, level_of less s).

Definition counts (t : topo) (s : cpuset) : Z * Z * Z :=
  (sz (s ∩ t_high t), sz (s ∩ t_normal t), sz (s ∩ t_low t)).
Definition cnt_at (c : Z * Z * Z) (p : prio) : Z :=
  match p with High => c.1.1 | Normal => c.1.2 | Low => c.2 | NoPrio => 0 end.

(* cpuPriorities.cmpCPUSet, as a function of the per-priority sizes of the two sets *)
Definition tight (prefA prefB cpuCnt : Z) : option Z :=
  if (cpuCnt <=? prefA) && (cpuCnt <=? prefB) then Some (prefB - prefA)
  else if (cpuCnt <=? prefA) || (cpuCnt <=? prefB) then Some (prefA - prefB) else None.

Fixpoint favor (A B : Z * Z * Z) (prefer : prio) (cpuCnt : Z) (ps : list prio) : option Z :=
  match ps with
  | [] => None
  | p :: rest =>
      let a := cnt_at A p in let b := cnt_at B p in
      if (0 <? cpuCnt) && bool_decide (p = prefer) && (cpuCnt <=? a) && (cpuCnt <=? b) then Some (b - a)
      else if negb (a =? b) then Some (a - b) else favor A B prefer cpuCnt rest
  end.
Fixpoint repel (A B : Z * Z * Z) (ps : list prio) : option Z :=
  match ps with
  | [] => None
  | p :: rest =>
      let a := cnt_at A p in let b := cnt_at B p in
      if negb (a =? b) then Some (b - a) else repel A B rest
  end.
Definition prios_from (p : prio) : list prio :=
  match p with High => [High; Normal; Low] | Normal => [Normal; Low] | Low => [Low] | NoPrio => [] end.
Definition prios_below (p : prio) : list prio :=
  match p with High => [] | Normal => [High] | Low => [High; Normal] | NoPrio => [] end.

Definition cmp_counts (A B : Z * Z * Z) (prefer : prio) (cpuCnt : Z) : Z :=
  match prefer with
  | NoPrio => 0
  | _ =>
    let r1 :=
      if (0 <? cpuCnt) && bool_decide (prefer = Low) then tight (cnt_at A Low) (cnt_at B Low) cpuCnt else None in
    match r1 with Some r => r | None =>
    let r2 :=
      if (0 <? cpuCnt) && bool_decide (prefer = High) then
        let a := cnt_at A High in let b := cnt_at B High in
        if (a =? 0) && (b =? 0) then tight (cnt_at A Normal) (cnt_at B Normal) cpuCnt else tight a b cpuCnt
      else None in
    match r2 with Some r => r | None =>
    match favor A B prefer cpuCnt (prios_from prefer) with Some r => r | None =>
    match repel A B (prios_below prefer) with Some r => r | None => 0 end end end end
  end.

Section go.
Context (t : topo) (prefer : prio).

(* packages / cores: cmpCPUSet(..., prefer, -1), then id *)
Definition set_less (ka kb : (Z * Z * Z) * Z) : bool :=
  let r := cmp_counts ka.1 kb.1 prefer (-1) in
  if negb (r =? 0) then 0 <? r else ka.2 <? kb.2.

Definition go_pkgs (h : helper) (l : list (Z * cpuset)) : list (Z * cpuset) * N :=
  sort_by (λ p, (counts t p.2, p.1)) set_less l.
Definition go_cores (h : helper) (l : list cpuinfo) : list cpuinfo * N :=
  sort_by (λ c, (counts t (c_threads c), Z.of_N (c_id c))) set_less l.

(* threads *)
Definition pkg_of (p : Z) : cpuset :=
  match filter (λ q, q.1 =? p) (t_pkgs t) with q :: _ => q.2 | [] => ∅ end.

Record tkey := TKey { k_colo : Z; k_pkgcnt : Z * Z * Z; k_pkg : Z; k_self : Z * Z * Z; k_pkgfree : Z; k_corefree : Z; k_id : Z }.
Definition thread_key (h : helper) (c : cpuinfo) : tkey :=
  let ps := pkg_of (c_pkg c) in
  TKey (sz (ps ∩ h_res h)) (counts t (ps ∩ h_from h)) (c_pkg c) (counts t {[ c_id c ]})
       (sz (ps ∩ h_from h)) (sz (c_threads c ∩ h_from h)) (Z.of_N (c_id c)).
Definition thread_less (cnt : Z) (a b : tkey) : bool :=
  if negb (k_colo a =? k_colo b) then k_colo b <? k_colo a else
  let r := cmp_counts (k_pkgcnt a) (k_pkgcnt b) prefer cnt in
  if negb (r =? 0) then 0 <? r else
  if negb (k_pkg a =? k_pkg b) then k_pkg a <? k_pkg b else
  let r := cmp_counts (k_self a) (k_self b) prefer 0 in
  if negb (r =? 0) then 0 <? r else
  if negb (k_pkgfree a =? k_pkgfree b) then k_pkgfree a <? k_pkgfree b else
  if negb (k_corefree a =? k_corefree b) then k_corefree a <? k_corefree b else
  k_id a <? k_id b.
Definition go_threads (h : helper) (l : list cpuinfo) : list cpuinfo * N :=
  sort_by (thread_key h) (thread_less (h_cnt h)) l.

(* clusters: preferTightestFit; slices.SortFunc: less = cmp < 0 *)
Record ckey := CKey { ck_size : Z; ck_die : Z; ck_pkg : Z; ck_ids : Z * Z * Z }.
Definition ids_cmp (a b : Z * Z * Z) : Z :=
  if negb (a.1.1 =? b.1.1) then a.1.1 - b.1.1 else if negb (a.1.2 =? b.1.2) then a.1.2 - b.1.2 else a.2 - b.2.
Definition fit (cnt : Z) (x y : Z) (ida idb : Z * Z * Z) : option Z :=
  if (cnt <=? x) && (y <? cnt) then Some (-1) else
  if (x <? cnt) && (cnt <=? y) then Some 1 else
  if (cnt <=? x) && (cnt <=? y) then (if negb (x - y =? 0) then Some (x - y) else Some (ids_cmp ida idb))
  else None.
Definition cluster_cmp (cnt : Z) (a b : ckey) : Z :=
  match fit cnt (ck_size a) (ck_size b) (ck_ids a) (ck_ids b) with Some r => r | None =>
  match fit cnt (ck_die a) (ck_die b) (ck_ids a) (ck_ids b) with Some r => r | None =>
  match fit cnt (ck_pkg a) (ck_pkg b) (ck_ids a) (ck_ids b) with Some r => r | None => 0 end end end.
Definition go_clusters (h : helper) (l : list cluster) : list cluster * N :=
  let size_of := λ c : cluster, sz (cl_cset t c) in
  let pkgcnt := λ p, fold_right (λ c acc, (if cl_pkg c =? p then size_of c else 0) + acc) 0 l in
  let diecnt := λ p d, fold_right (λ c acc, (if (cl_pkg c =? p) && (cl_die c =? d) then size_of c else 0) + acc) 0 l in
  sort_by (λ c, CKey (size_of c) (diecnt (cl_pkg c) (cl_die c)) (pkgcnt (cl_pkg c)) (cl_pkg c, cl_die c, cl_id c))
          (λ a b, cluster_cmp (h_cnt h) a b <? 0) l.

(* cache groups *)
Definition cg_first_size : Z := match t_groups t with g :: _ => sz (cg_cpus g) | [] => 0 end.
Definition cg_part (h : helper) : Z := Z.rem (h_cnt h) cg_first_size.
Definition cg_full (h : helper) : Z := h_cnt h - cg_part h.

Record gkey := GKey { gk_dfull : Z; gk_pfull : Z; gk_dpart : Z; gk_ppart : Z; gk_pkg : Z; gk_die : Z; gk_id : Z; gk_size : Z }.
Definition group_key (h : helper) (prefer0 usable0 : list cgroup) (g : cgroup) : gkey :=
  GKey (die_count t h prefer0 (cg_pkg g) (cg_die g)) (pkg_count t h prefer0 (cg_pkg g))
       (die_count t h usable0 (cg_pkg g) (cg_die g)) (pkg_count t h usable0 (cg_pkg g))
       (cg_pkg g) (cg_die g) (cg_id g) (sz (cg_free t h g)).
Definition gids_cmp (a b : gkey) : Z :=
  if negb (gk_pkg a =? gk_pkg b) then gk_pkg a - gk_pkg b
  else if negb (gk_die a =? gk_die b) then gk_die a - gk_die b else gk_id a - gk_id b.

(* one level (die, then package) of sortIdle *)
Definition idle_level (full part fa fb pa pb : Z) (a b : gkey) : option Z :=
  if (full <=? fa) && (fb <? full) && (part <=? pa) then Some (-1) else
  if (fa <? full) && (full <=? fb) && (part <=? pb) then Some 1 else
  if (full <=? fa) && (full <=? fb) && (part <=? pa) && (pb <? part) then Some (-1) else
  if (full <=? fa) && (full <=? fb) && (pa <? part) && (part <=? pb) then Some 1 else
  if (full <=? fa) && (full <=? fb) && (part <=? pa) && (part <=? pb) then
    (if negb (fa - fb =? 0) then Some (fa - fb) else if negb (pa - pb =? 0) then Some (pa - pb) else Some (gids_cmp a b))
  else None.
Definition sort_idle (full part : Z) (a b : gkey) : Z :=
  match idle_level full part (gk_dfull a) (gk_dfull b) (gk_dpart a) (gk_dpart b) a b with Some r => r | None =>
  match idle_level full part (gk_pfull a) (gk_pfull b) (gk_ppart a) (gk_ppart b) a b with Some r => r | None =>
  gk_id a - gk_id b end end.

(* sortUsed; idle = Some (dieIdle, pkgIdle) when there are preferred groups: the CPU *counts*
   of the best idle group's die and package, which the code compares with package/die ids *)
Definition sort_used (full part : Z) (idle : option (Z * Z)) (a b : gkey) : Z :=
  match (if 0 <? full then idle else None) with
  | Some (die_idle, pkg_idle) =>
      if (gk_pkg a =? pkg_idle) && negb (gk_pkg b =? pkg_idle) then -1 else
      if negb (gk_pkg a =? pkg_idle) && (gk_pkg b =? pkg_idle) then 1 else
      if (gk_pkg a =? pkg_idle) && (gk_pkg b =? pkg_idle) then
        if (gk_die a =? die_idle) && negb (gk_die b =? die_idle) then -1 else
        if negb (gk_die a =? die_idle) && (gk_die b =? die_idle) then 1 else
        if (gk_die a =? die_idle) && (gk_die b =? die_idle) then
          (if negb (gk_size a - gk_size b =? 0) then - (gk_size a - gk_size b) else gk_id a - gk_id b)
        else 0
      else 0
  | None =>
      let total := full + part in
      let da := gk_dpart a in let db := gk_dpart b in
      if (total <=? da) && (db <? total) then -1 else
      if (da <? total) && (total <=? db) then 1 else
      if (total <=? da) && (total <=? db) then
        if negb (da - db =? 0) then da - db else
        if negb (gk_size a - gk_size b =? 0) then - (gk_size a - gk_size b) else gids_cmp a b
      else 0
  end.

Definition go_cgprefer (h : helper) (usable0 prefer0 : list cgroup) : list cgroup * N :=
  sort_by (group_key h prefer0 usable0) (λ a b, sort_idle (cg_full h) (cg_part h) a b <? 0) prefer0.
Definition go_cgusable (h : helper) (pref usable0 : list cgroup) : list cgroup * N :=
  let idle := match pref with g :: _ => Some (die_count t h pref (cg_pkg g) (cg_die g), pkg_count t h pref (cg_pkg g)) | [] => None end in
  sort_by (group_key h pref usable0) (λ a b, sort_used (cg_full h) (cg_part h) idle a b <? 0) usable0.

Definition go_orders : orders :=
  Orders go_pkgs go_cores go_threads go_clusters go_cgprefer go_cgusable.
End go.

(* ================================================================ correspondence checker *)
Definition mkset (l : list N) : cpuset := list_to_set l.
Definition flags_of (f : Z) : N := if f <? 0 then alloc_default else Z.to_N f.
Definition prio_of (p : Z) : prio :=
  if p =? 0 then High else if p =? 1 then Normal else if p =? 2 then Low else NoPrio.

(* one observed call: (id, release?, from, cnt, prefer, flags, err?, result, from after) *)
Record obs := Obs {
  ob_id : Z; ob_release : bool; ob_from : list N; ob_cnt : Z; ob_prefer : Z; ob_flags : Z;
  ob_err : bool; ob_result : list N; ob_after : list N }.

(* 0: the model predicts exactly this outcome (order decisions forced, or <= 12 elements)
   1: order not predicted by the model; the observed outcome satisfies the contract
   2..: mismatch *)
Definition check_obs (t : topo) (ob : obs) : Z :=
  let from := mkset (ob_from ob) in
  let prefer := if ob_prefer ob <? 0 then High else prio_of (ob_prefer ob) in  (* zero value of a.prefer is PriorityHigh *)
  let cnt := if ob_release ob then sz from - ob_cnt ob else ob_cnt ob in
  let '(out, after, lvl) := allocate_cpus t (go_orders t prefer) prefer (flags_of (ob_flags ob)) from cnt in
  let r := mkset (ob_result ob) in
  let a := mkset (ob_after ob) in
  match out with
  | Err => if ob_err ob && bool_decide (a = from) && bool_decide (r = ∅) then 0 else 2
  | Ok mr =>
      if ob_err ob then 3 else
      if (lvl <=? 1)%N then (if bool_decide (r = mr) && bool_decide (a = after) then 0 else 4)
      else if bool_decide (r ⊆ from) && (sz r =? cnt) && bool_decide (a = from ∖ r) then 1 else 5
  end.

Definition mismatches (t : topo) (l : list obs) : list (Z * Z) :=
  omap (λ ob, let v := check_obs t ob in if 2 <=? v then Some (ob_id ob, v) else None) l.
Definition unforced (t : topo) (l : list obs) : list Z :=
  omap (λ ob, if check_obs t ob =? 1 then Some (ob_id ob) else None) l.

(* how many observed calls ran at level 0 (every sort forced: outcome independent of the sort
   algorithm, CpuAlloc_Determ.alloc_deterministic_forced), 1 (some unforced sort of <= 12
   elements, insertion sort modelled literally), 2 (order not predicted) *)
Definition obs_level (t : topo) (ob : obs) : N :=
  let from := mkset (ob_from ob) in
  let prefer := if ob_prefer ob <? 0 then High else prio_of (ob_prefer ob) in
  let cnt := if ob_release ob then sz from - ob_cnt ob else ob_cnt ob in
  (allocate_cpus t (go_orders t prefer) prefer (flags_of (ob_flags ob)) from cnt).2.
Definition level_hist (t : topo) (l : list obs) : N * N * N :=
  fold_left (λ '(a, b, c) ob, match obs_level t ob with 0%N => (N.succ a, b, c) | 1%N => (a, N.succ b, c) | _ => (a, b, N.succ c) end) l (0%N, 0%N, 0%N).
