(* C10 -- property theorems only.  Each is closed by [exact] of a lemma from C10_Proofs /
   C10_Oblig and followed by Print Assumptions.
   Property: "The pod/container cache reloaded from its state directory is equivalent to the cache
   at its last successful save ... If the process is killed or a write fails at any instant of a
   save, the cache file on disk is still a complete snapshot - either the previous or the new one
   ... a cache file or directory that is a symbolic link, of the wrong file type, or writable by
   group/others is refused rather than used." *)
From Coq Require Import String ZArith List Bool.
From NV Require Import C10_Model C10_Proofs C10_Oblig Gen.Gen_Schema Gen.Gen_Save.
Import ListNotations.

(* clause 1 (reload is equivalent to the last save), generic: for EVERY type of the grammar that
   passes the syntactic test and EVERY value inhabiting it, decoding the encoding succeeds and
   yields the normal form (dropped fields zeroed, omitempty'd empties and null-encoding pointers nil) *)
Theorem C10_roundtrip : forall t v,
  roundtrippable t = true -> well_typed t v = true -> dec t (enc t v) = Some (norm t v).
Proof. exact roundtrip. Qed.
Print Assumptions C10_roundtrip.

(* clause 1, obligations on the schema generated from the source tree *)
Theorem C10_schema_roundtrippable : roundtrippable gen_snapshot = true.
Proof. exact gen_schema_roundtrippable. Qed.
Print Assumptions C10_schema_roundtrippable.

(* identity, state, assigned resources, requirements/updates, tags, hints, affinities, policy
   entries: every field carrying them is exported, not json:"-", and of a round-trippable type *)
Theorem C10_required_fields_persisted : forallb (persisted gen_schema) required_fields = true.
Proof. exact gen_required_persisted. Qed.
Print Assumptions C10_required_fields_persisted.

Theorem C10_snapshot_reloads : forall v, well_typed gen_snapshot v = true ->
  dec gen_snapshot (enc gen_snapshot v) = Some (norm gen_snapshot v).
Proof. exact gen_snapshot_reloads. Qed.
Print Assumptions C10_snapshot_reloads.

(* clause 2 (crash / failed write at any instant), generic: for EVERY program passing the static
   test, EVERY new snapshot, EVERY initial disk state (stale temp files included) and EVERY
   state reachable by completing, cutting short (after any number of bytes) or failing operations *)
Theorem C10_save_atomic : forall target p, atomic_prog target p = true ->
  forall new f f', reach new p f f' -> f' target = f target \/ f' target = Some new.
Proof. exact save_atomic. Qed.
Print Assumptions C10_save_atomic.

(* clause 2 on the skeleton of Save() generated from the source tree; gen_load_path is the file Load reads *)
Theorem C10_gen_save_crash_safe : forall new f f', reach new gen_save_prog f f' ->
  f' gen_load_path = f gen_load_path \/ f' gen_load_path = Some new.
Proof. exact gen_save_crash_safe. Qed.
Print Assumptions C10_gen_save_crash_safe.

(* every save of a history: after any sequence of saves, each interrupted anywhere or not, the
   cache file is the initial one or one of the complete snapshots written *)
Theorem C10_gen_save_history_safe : forall news f f', hist gen_save_prog news f f' ->
  f' gen_load_path = f gen_load_path \/ exists new, In new news /\ f' gen_load_path = Some new.
Proof. exact gen_save_history_safe. Qed.
Print Assumptions C10_gen_save_history_safe.

(* a save that is not interrupted leaves the new snapshot in the file Load reads *)
Theorem C10_gen_save_completes : forall new f, run new gen_save_prog f gen_load_path = Some new.
Proof. exact gen_save_completes. Qed.
Print Assumptions C10_gen_save_completes.

(* the static test is not vacuous: writing the cache file in place reaches a torn state *)
Theorem C10_inplace_not_atomic :
  exists f', reach "NEW" [OpCreate "cache" true; OpWrite "cache" true; OpClose "cache" true]
               (fun q => if String.eqb q "cache" then Some "OLD"%string else None) f' /\
             f' "cache"%string = Some "NE"%string.
Proof. exact inplace_not_atomic. Qed.
Print Assumptions C10_inplace_not_atomic.

(* clause 3: for EVERY entry (type, 9 permission bits) and every reject mask containing 0o022:
   symlink, wrong type, or group/other-writable => refused *)
Theorem C10_refuses_unsafe : forall is_dir reject e,
  Z.land reject go_w = go_w -> unsafe_entry is_dir e = true -> check_perm is_dir reject e = Refuse.
Proof. exact refuses_unsafe. Qed.
Print Assumptions C10_refuses_unsafe.

(* clause 3 on NewCache's generated check list: if the cache file, the cache directory or the
   container directory is unsafe, NewCache does not return a cache *)
Theorem C10_gen_new_cache_refuses : forall look,
  existsb (fun c => unsafe_entry (snd (fst c)) (look (fst (fst c)))) gen_newcache_checks = true ->
  new_cache_accepts gen_newcache_checks look = false.
Proof. exact gen_new_cache_refuses. Qed.
Print Assumptions C10_gen_new_cache_refuses.

Theorem C10_gen_checks_cover_file_and_dir :
  existsb (fun c => String.eqb (fst (fst c)) gen_load_path && negb (snd (fst c))) gen_newcache_checks &&
  existsb (fun c => String.eqb (fst (fst c)) "." && snd (fst c)) gen_newcache_checks = true.
Proof. exact gen_checks_cover_file_and_dir. Qed.
Print Assumptions C10_gen_checks_cover_file_and_dir.
