(* C20: cgroup parameter <-> resource requirement arithmetic (pkg/kubernetes/resources.go).
   Executable model only -- no proofs in this file. *)
From Coq Require Import ZArith List Bool.
From Flocq Require Import BinarySingleNaN.
From NV Require Import Gen.Gen_Consts.
Import ListNotations.
Open Scope Z_scope.

(* ---- integer side (Go int64: / truncates toward zero = Z.quot) ---- *)

Definition wrap64 (z : Z) : Z := ((z + 2^63) mod 2^64) - 2^63.

(* MilliCPUToShares *)
Definition milli_to_shares (m : Z) : Z :=
  if m =? 0 then K_MinShares else
  let s := Z.quot (m * K_SharesPerCPU) K_MilliCPUToCPU in
  if s <? K_MinShares then K_MinShares
  else if s >? K_MaxShares then K_MaxShares else s.

(* MilliCPUToQuota *)
Definition milli_to_quota (m : Z) : Z * Z :=
  if m =? 0 then (0, 0) else
  let q := Z.quot (m * K_QuotaPeriod) K_MilliCPUToCPU in
  (if q <? K_MinQuotaPeriod then K_MinQuotaPeriod else q, K_QuotaPeriod).

(* SharesToMilliCPU / QuotaToMilliCPU: integer formulas (shown equal to the
   binary64 computation on the whole stated domain by complete sweep, C20_Sweep*.v) *)
Definition shares_to_milli_z (s : Z) : Z :=
  if s =? K_MinShares then 0 else (2 * s * K_MilliCPUToCPU + K_SharesPerCPU) / (2 * K_SharesPerCPU).

Definition quota_to_milli_z (q p : Z) : Z :=
  if (q =? 0) || (p =? 0) then 0 else (2 * q * K_MilliCPUToCPU + p) / (2 * p).

(* ---- binary64 side: same operation order as the Go expressions ---- *)

Definition prec := 53.
Definition emax := 1024.
Lemma Hprec : FLX.Prec_gt_0 prec. Proof. reflexivity. Qed.
Lemma Hmax : Prec_lt_emax prec emax. Proof. reflexivity. Qed.
Definition f64 := binary_float prec emax.
Definition f_of_Z (z : Z) : f64 := binary_normalize prec emax Hprec Hmax mode_NE z 0 false.
Definition f_half : f64 := binary_normalize prec emax Hprec Hmax mode_NE 1 (-1) false.
Definition f_div : f64 -> f64 -> f64 := @Bdiv prec emax Hprec Hmax mode_NE.
Definition f_add : f64 -> f64 -> f64 := @Bplus prec emax Hprec Hmax mode_NE.
Definition f_trunc (x : f64) : Z := @Btrunc prec emax x.

(* int64(float64(shares*MilliCPUToCPU)/float64(SharesPerCPU) + 0.5) *)
Definition shares_to_milli_f (s : Z) : Z :=
  if s =? K_MinShares then 0 else
  f_trunc (f_add (f_div (f_of_Z (s * K_MilliCPUToCPU)) (f_of_Z K_SharesPerCPU)) f_half).

Definition quota_to_milli_f (q p : Z) : Z :=
  if (q =? 0) || (p =? 0) then 0 else
  f_trunc (f_add (f_div (f_of_Z (q * K_MilliCPUToCPU)) (f_of_Z p)) f_half).

