(* C16: lemmas. The property theorems proper are restated in C16_Props.v. *)
From Coq Require Import ZArith Lia Bool List.
From NV Require Import C16_Model.
Import ListNotations.
Open Scope Z_scope.

(* ------------------------------------------------------------------ sets as lists *)

Lemma memz_In x l : memz x l = true <-> In x l.
Proof.
  unfold memz. rewrite existsb_exists. split.
  - intros [y [Hy He]]. apply Z.eqb_eq in He. subst. exact Hy.
  - intros H. exists x. split; [exact H|apply Z.eqb_refl].
Qed.

Lemma memz_false x l : memz x l = false <-> ~ In x l.
Proof.
  rewrite <- memz_In. destruct (memz x l); split; intros H; try congruence; try discriminate.
Qed.

Lemma inter_In x a b : In x (inter a b) <-> In x a /\ In x b.
Proof. unfold inter. rewrite filter_In, memz_In. tauto. Qed.

Lemma diff_In x a b : In x (diff a b) <-> In x a /\ ~ In x b.
Proof.
  unfold diff. rewrite filter_In, negb_true_iff, memz_false. tauto.
Qed.

Lemma union_In x a b : In x (union a b) <-> In x a \/ In x b.
Proof.
  unfold union. rewrite in_app_iff, diff_In. split; [tauto|].
  intros [H|H]; [tauto|]. destruct (in_dec Z.eq_dec x a); tauto.
Qed.

Lemma subset_spec a b : subset a b = true <-> (forall x, In x a -> In x b).
Proof.
  unfold subset. rewrite forallb_forall. split; intros H x Hx; specialize (H x Hx).
  - apply memz_In; exact H.
  - apply memz_In; exact H.
Qed.

Lemma is_empty_spec {A} (l : list A) : is_empty l = true <-> l = [].
Proof. destruct l; simpl; split; intros; congruence. Qed.

Lemma is_empty_false {A} (l : list A) : is_empty l = false <-> exists x, In x l.
Proof.
  destruct l; simpl; split; intros H; try discriminate.
  - destruct H as [x []].
  - exists a. left. reflexivity.
  - reflexivity.
Qed.

Lemma disjoint_spec a b : disjoint a b = true <-> (forall x, In x a -> In x b -> False).
Proof.
  unfold disjoint. rewrite is_empty_spec. split.
  - intros H x Ha Hb. assert (In x (inter a b)) by (apply inter_In; tauto). rewrite H in H0. exact H0.
  - intros H. destruct (inter a b) eqn:E; [reflexivity|].
    assert (In z (inter a b)) by (rewrite E; left; reflexivity).
    apply inter_In in H0. exfalso. apply (H z); tauto.
Qed.

Lemma disjoint_sym a b : disjoint a b = disjoint b a.
Proof.
  destruct (disjoint a b) eqn:E1, (disjoint b a) eqn:E2; try reflexivity.
  - rewrite disjoint_spec in E1. assert (disjoint b a = true) by (apply disjoint_spec; intros x H1 H2; exact (E1 x H2 H1)). congruence.
  - rewrite disjoint_spec in E2. assert (disjoint a b = true) by (apply disjoint_spec; intros x H1 H2; exact (E2 x H2 H1)). congruence.
Qed.

Lemma insert_In y x l : In y (insert x l) <-> y = x \/ In y l.
Proof.
  induction l as [|z t IH]; simpl.
  - split; intros [H|H]; auto; contradiction.
  - destruct (x <? z) eqn:E1; simpl.
    + split; intros H; intuition.
    + destruct (x =? z) eqn:E2; simpl.
      * apply Z.eqb_eq in E2. subst. split; intros H; intuition.
      * rewrite IH. split; intros H; intuition.
Qed.

Lemma canon_In x l : In x (canon l) <-> In x l.
Proof.
  unfold canon. induction l as [|y t IH]; simpl; [tauto|].
  rewrite insert_In, IH. split; intros [H|H]; auto.
Qed.

Lemma seteq_spec a b : seteq a b = true <-> (forall x, In x a <-> In x b).
Proof.
  unfold seteq. rewrite andb_true_iff, !subset_spec. split.
  - intros [H1 H2] x. split; auto.
  - intros H. split; intros x; apply H.
Qed.

(* pairwise *)
Lemma pairwise_In {A} (r : A -> A -> bool) (l : list A) :
  (forall x y, r x y = r y x) -> pairwise r l = true ->
  forall a b, In a l -> In b l -> a <> b -> r a b = true.
Proof.
  intros Hs. induction l as [|x t IH]; simpl; intros H a b Ha Hb Hne; [contradiction|].
  apply andb_true_iff in H as [H1 H2]. rewrite forallb_forall in H1.
  destruct Ha as [<-|Ha], Hb as [<-|Hb].
  - congruence.
  - apply H1; exact Hb.
  - rewrite Hs. apply H1; exact Ha.
  - apply IH; assumption.
Qed.

Lemma nodupb_NoDup l : nodupb l = true -> NoDup l.
Proof.
  unfold nodupb. induction l as [|x t IH]; simpl; intros H; [constructor|].
  apply andb_true_iff in H as [H1 H2]. constructor; [|apply IH; exact H2].
  intros Hin. rewrite forallb_forall in H1. specialize (H1 x Hin).
  rewrite Z.eqb_refl in H1. discriminate.
Qed.

Lemma NoDup_map_inj {A} (f : A -> Z) (l : list A) :
  NoDup (map f l) -> forall a b, In a l -> In b l -> f a = f b -> a = b.
Proof.
  induction l as [|x t IH]; simpl; intros H a b Ha Hb Hf; [contradiction|].
  inversion H as [|? ? Hn Hd]; subst.
  destruct Ha as [<-|Ha], Hb as [<-|Hb]; auto.
  - exfalso. apply Hn. rewrite Hf. apply in_map. exact Hb.
  - exfalso. apply Hn. rewrite <- Hf. apply in_map. exact Ha.
Qed.

(* pairwise disjointness of a mapped family, for elements with different images under a key *)
Lemma all_disjoint_map {A} (f : A -> list Z) (l : list A) :
  all_disjoint (map f l) = true ->
  forall a b, In a l -> In b l -> a <> b -> forall x, In x (f a) -> In x (f b) -> False.
Proof.
  unfold all_disjoint. induction l as [|y t IH]; simpl; intros H a b Ha Hb Hne x Hxa Hxb; [contradiction|].
  apply andb_true_iff in H as [H1 H2]. rewrite forallb_forall in H1.
  destruct Ha as [<-|Ha], Hb as [<-|Hb].
  - congruence.
  - specialize (H1 (f b) (in_map f _ _ Hb)). rewrite disjoint_spec in H1. exact (H1 x Hxa Hxb).
  - specialize (H1 (f a) (in_map f _ _ Ha)). rewrite disjoint_spec in H1. exact (H1 x Hxb Hxa).
  - exact (IH H2 a b Ha Hb Hne x Hxa Hxb).
Qed.

Lemma find_node_In v id n : find_node v id = Some n -> In n (sv_nodes v) /\ vn_id n = id.
Proof.
  unfold find_node. intros H. apply find_some in H as [H1 H2]. apply Z.eqb_eq in H2. tauto.
Qed.

Lemma find_node_unique v n : NoDup (node_ids (sv_nodes v)) -> In n (sv_nodes v) -> find_node v (vn_id n) = Some n.
Proof.
  unfold find_node, node_ids. induction (sv_nodes v) as [|x t IH]; simpl; intros Hnd Hin; [contradiction|].
  inversion Hnd as [|? ? Hn Hd]; subst.
  destruct Hin as [->|Hin].
  - rewrite Z.eqb_refl. reflexivity.
  - destruct (vn_id x =? vn_id n) eqn:E.
    + apply Z.eqb_eq in E. exfalso. apply Hn. rewrite E. apply in_map. exact Hin.
    + apply IH; assumption.
Qed.

(* ------------------------------------------------------------------ the tree: In <-> origin *)

Lemma numa_pools_In mf v cs parent depth nodes q :
  In q (numa_pools mf v cs parent depth nodes) <->
  (1 <? zlen nodes) = true /\
  exists nid n, In nid nodes /\ find_node v nid = Some n /\ node_memless n = false /\
                q = mk_pool mf v cs (KNuma, -1, nid) (Some parent) depth false (vn_cpus n).
Proof.
  unfold numa_pools. destruct (1 <? zlen nodes) eqn:E.
  - rewrite in_flat_map. split.
    + intros [nid [Hn Hq]]. split; [reflexivity|].
      destruct (find_node v nid) as [n|] eqn:Ef; [|contradiction].
      destruct (node_memless n) eqn:Em; [contradiction|].
      destruct Hq as [<-|[]]. exists nid, n. tauto.
    + intros [_ [nid [n [Hn [Ef [Em ->]]]]]]. exists nid. split; [exact Hn|].
      rewrite Ef, Em. left. reflexivity.
  - simpl. split; [contradiction|]. intros [H _]. discriminate.
Qed.

Lemma die_pools_In mf v cs p depth q :
  In q (die_pools mf v cs p (socket_key p) depth) <->
  exists d, In d (vp_dies p) /\
    (q = mk_pool mf v cs (KDie, vp_id p, vd_id d) (Some (socket_key p)) depth false (vd_cpus d) \/
     In q (numa_pools mf v cs (KDie, vp_id p, vd_id d) (depth + 1) (vd_nodes d))).
Proof.
  unfold die_pools. rewrite in_flat_map. split.
  - intros [d [Hd [<-|Hq]]]; exists d; tauto.
  - intros [d [Hd [->|Hq]]]; exists d; split; auto; [left; reflexivity|right; exact Hq].
Qed.

Lemma socket_depth_eq v : (if multi_socket v then 1 else 0) = socket_depth v.
Proof. reflexivity. Qed.

Theorem tree_shape mf v cs q : In q (build_tree mf v cs) <-> origin mf v cs q.
Proof.
  unfold build_tree. fold (multi_socket v). rewrite in_app_iff, in_flat_map. split.
  - intros [H|[p [Hp H]]].
    + destruct (multi_socket v) eqn:Em; [|contradiction]. destruct H as [<-|[]]. apply OVirtual. exact Em.
    + unfold socket_pools in H. fold (socket_key p) in H. rewrite socket_depth_eq in H.
      destruct H as [<-|H]; [apply OSocket; exact Hp|].
      destruct (1 <? zlen (vp_dieids p)) eqn:Ed.
      * apply die_pools_In in H as [d [Hd [->|H]]]; [apply ODie; assumption|].
        apply numa_pools_In in H as [Hn [nid [n [H1 [H2 [H3 ->]]]]]].
        replace (socket_depth v + 1 + 1) with (socket_depth v + 2) by lia.
        eapply ONumaDie; eassumption.
      * apply numa_pools_In in H as [Hn [nid [n [H1 [H2 [H3 ->]]]]]].
        eapply ONumaSocket; eassumption.
  - intros H. destruct H as [Hm|p Hp|p d Hp Hd Hi|p nid n Hp Hd Hn Hi Hf Hm|p d nid n Hp Hd Hi Hn Hin Hf Hm].
    + left. rewrite Hm. left. reflexivity.
    + right. exists p. split; [exact Hp|]. left. reflexivity.
    + right. exists p. split; [exact Hp|]. right. fold (socket_key p). rewrite socket_depth_eq, Hd.
      apply die_pools_In. exists d. split; [exact Hi|]. left. reflexivity.
    + right. exists p. split; [exact Hp|]. right. fold (socket_key p). rewrite socket_depth_eq, Hd.
      apply numa_pools_In. split; [exact Hn|]. exists nid, n. tauto.
    + right. exists p. split; [exact Hp|]. right. fold (socket_key p). rewrite socket_depth_eq, Hd.
      apply die_pools_In. exists d. split; [exact Hi|]. right.
      apply numa_pools_In. split; [exact Hn|]. exists nid, n.
      replace (socket_depth v + 1 + 1) with (socket_depth v + 2) by lia. tauto.
Qed.

(* ------------------------------------------------------------------ what hier_wfb gives *)

Ltac split_andb :=
  repeat match goal with
         | H : _ && _ = true |- _ => apply andb_true_iff in H; destruct H
         end.

Lemma NoDup_flat_map_outer {A} (f : A -> list Z) (l : list A) :
  NoDup (flat_map f l) -> forall a b x, In a l -> In b l -> In x (f a) -> In x (f b) -> a = b.
Proof.
  induction l as [|y t IH]; simpl; intros H a b x Ha Hb Hxa Hxb; [contradiction|].
  assert (Hnd : forall l1 l2 : list Z, NoDup (l1 ++ l2) -> NoDup l2 /\ (forall z, In z l1 -> In z l2 -> False)).
  { induction l1 as [|u l1 IH1]; simpl; intros l2 Hn.
    - split; [exact Hn|]. intros z [].
    - inversion Hn as [|? ? Hni Hn']; subst. destruct (IH1 l2 Hn') as [H1 H2]. split; [exact H1|].
      intros z [<-|Hz] Hz2; [apply Hni; apply in_or_app; right; exact Hz2|exact (H2 z Hz Hz2)]. }
  destruct (Hnd _ _ H) as [Ht Hx].
  destruct Ha as [<-|Ha], Hb as [<-|Hb]; auto.
  - exfalso. apply (Hx x Hxa). apply in_flat_map. exists b. tauto.
  - exfalso. apply (Hx x Hxb). apply in_flat_map. exists a. tauto.
  - exact (IH Ht a b x Ha Hb Hxa Hxb).
Qed.

Lemma NoDup_app_l (l1 l2 : list Z) : NoDup (l1 ++ l2) -> NoDup l1.
Proof.
  induction l1 as [|u l1 IH]; simpl; intros H; [constructor|].
  inversion H as [|? ? Hni Hn']; subst. constructor; [|apply IH; exact Hn'].
  intros Hin. apply Hni. apply in_or_app. left. exact Hin.
Qed.

Lemma NoDup_app_r (l1 l2 : list Z) : NoDup (l1 ++ l2) -> NoDup l2.
Proof.
  induction l1 as [|u l1 IH]; simpl; intros H; [exact H|].
  inversion H; subst. apply IH. assumption.
Qed.

Lemma NoDup_flat_map_inner {A} (f : A -> list Z) (l : list A) :
  NoDup (flat_map f l) -> forall a, In a l -> NoDup (f a).
Proof.
  induction l as [|y t IH]; simpl; intros H a Ha; [contradiction|].
  destruct Ha as [<-|Ha]; [exact (NoDup_app_l _ _ H)|exact (IH (NoDup_app_r _ _ H) a Ha)].
Qed.

Record hier (v : system_view) : Prop := {
  h_pkg_inj : forall p1 p2, In p1 (sv_pkgs v) -> In p2 (sv_pkgs v) -> vp_id p1 = vp_id p2 -> p1 = p2;
  h_node_nodup : NoDup (node_ids (sv_nodes v));
  h_pkg_disj : forall p1 p2, In p1 (sv_pkgs v) -> In p2 (sv_pkgs v) -> p1 <> p2 ->
                             forall x, In x (vp_cpus p1) -> In x (vp_cpus p2) -> False;
  h_node_disj : forall n1 n2, In n1 (sv_nodes v) -> In n2 (sv_nodes v) -> n1 <> n2 ->
                              forall x, In x (vn_cpus n1) -> In x (vn_cpus n2) -> False;
  h_pkg_cpus : forall p, In p (sv_pkgs v) -> forall x, In x (vp_cpus p) -> In x (cpu_ids v);
  h_die_inj : forall p d1 d2, In p (sv_pkgs v) -> In d1 (vp_dies p) -> In d2 (vp_dies p) -> vd_id d1 = vd_id d2 -> d1 = d2;
  h_die_disj : forall p d1 d2, In p (sv_pkgs v) -> In d1 (vp_dies p) -> In d2 (vp_dies p) -> d1 <> d2 ->
                               forall x, In x (vd_cpus d1) -> In x (vd_cpus d2) -> False;
  h_die_cpus : forall p d, In p (sv_pkgs v) -> In d (vp_dies p) -> forall x, In x (vd_cpus d) -> In x (vp_cpus p);
  h_die_nodes : forall p d, In p (sv_pkgs v) -> In d (vp_dies p) -> forall nid, In nid (vd_nodes d) -> In nid (vp_nodes p);
  h_die_node_cpus : forall p d nid n, In p (sv_pkgs v) -> In d (vp_dies p) -> In nid (vd_nodes d) -> find_node v nid = Some n ->
                                      forall x, In x (vn_cpus n) -> In x (vd_cpus d);
  h_pkg_node_cpus : forall p nid n, In p (sv_pkgs v) -> In nid (vp_nodes p) -> find_node v nid = Some n ->
                                    forall x, In x (vn_cpus n) -> In x (vp_cpus p);
  h_node_one_pkg : forall p1 p2 nid, In p1 (sv_pkgs v) -> In p2 (sv_pkgs v) -> In nid (vp_nodes p1) -> In nid (vp_nodes p2) -> p1 = p2;
  h_node_one_die : forall p d1 d2 nid, In p (sv_pkgs v) -> In d1 (vp_dies p) -> In d2 (vp_dies p) ->
                                       In nid (vd_nodes d1) -> In nid (vd_nodes d2) -> d1 = d2;
  h_online_pkg : forall x, In x (sv_online v) -> exists p, In p (sv_pkgs v) /\ In x (vp_cpus p);
  h_online_ids : forall x, In x (sv_online v) -> In x (cpu_ids v);
  h_pkgs_nonempty : sv_pkgs v <> [];
  h_memtype : forall n, In n (sv_nodes v) -> 0 <= vn_memtype n <= 2
}.

Lemma hier_of_wfb v : hier_wfb v = true -> hier v.
Proof.
  unfold hier_wfb. intros H. split_andb.
  repeat match goal with H : nodupb _ = true |- _ => apply nodupb_NoDup in H end.
  match goal with H : forallb _ (sv_pkgs v) = true |- _ => rename H into Hp; rewrite forallb_forall in Hp end.
  assert (HP : forall p, In p (sv_pkgs v) ->
     (forall x, In x (vp_cpus p) -> In x (cpu_ids v)) /\ NoDup (map vd_id (vp_dies p)) /\
     all_disjoint (map vd_cpus (vp_dies p)) = true /\
     (forall d, In d (vp_dies p) -> (forall x, In x (vd_cpus d) -> In x (vp_cpus p)) /\
                 (forall nid, In nid (vd_nodes d) -> In nid (vp_nodes p)) /\
                 (forall nid n, In nid (vd_nodes d) -> find_node v nid = Some n -> forall x, In x (vn_cpus n) -> In x (vd_cpus d))) /\
     (forall nid n, In nid (vp_nodes p) -> find_node v nid = Some n -> forall x, In x (vn_cpus n) -> In x (vp_cpus p))).
  { intros p Hin. specialize (Hp p Hin). split_andb.
    repeat match goal with H : nodupb _ = true |- _ => apply nodupb_NoDup in H end.
    split; [apply subset_spec; assumption|]. split; [assumption|]. split; [assumption|]. split.
    - intros d Hd. match goal with H : forallb _ (vp_dies p) = true |- _ => rewrite forallb_forall in H; specialize (H d Hd) end.
      split_andb. split; [apply subset_spec; assumption|]. split; [apply subset_spec; assumption|].
      intros nid n Hn Hf. match goal with H : forallb _ (vd_nodes d) = true |- _ => rewrite forallb_forall in H; specialize (H nid Hn) end.
      unfold node_cpus_of in *. rewrite Hf in *. simpl in *. apply subset_spec. assumption.
    - intros nid n Hn Hf. match goal with H : forallb _ (vp_nodes p) = true |- _ => rewrite forallb_forall in H; specialize (H nid Hn) end.
      unfold node_cpus_of in *. rewrite Hf in *. simpl in *. apply subset_spec. assumption. }
  split.
  - apply NoDup_map_inj. assumption.
  - assumption.
  - apply all_disjoint_map. assumption.
  - apply all_disjoint_map. assumption.
  - intros p Hin. apply (HP p Hin).
  - intros p d1 d2 Hin. apply NoDup_map_inj. apply (HP p Hin).
  - intros p d1 d2 Hin. apply all_disjoint_map. apply (HP p Hin).
  - intros p d Hin Hd. apply (HP p Hin). exact Hd.
  - intros p d Hin Hd. apply (HP p Hin). exact Hd.
  - intros p d nid n Hin Hd. apply (HP p Hin). exact Hd.
  - intros p nid n Hin. apply (HP p Hin).
  - intros p1 p2 nid Hq1 Hq2 Hn1 Hn2.
    match goal with H : NoDup (flat_map vp_nodes (sv_pkgs v)) |- _ => exact (NoDup_flat_map_outer _ _ H p1 p2 nid Hq1 Hq2 Hn1 Hn2) end.
  - intros p d1 d2 nid Hin Hd1 Hd2 Hn1 Hn2.
    match goal with H : NoDup (flat_map (fun p => flat_map vd_nodes (vp_dies p)) (sv_pkgs v)) |- _ =>
      pose proof (NoDup_flat_map_inner _ _ H p Hin) as Hi end.
    exact (NoDup_flat_map_outer _ _ Hi d1 d2 nid Hd1 Hd2 Hn1 Hn2).
  - intros x Hx. match goal with H : subset (sv_online v) (flat_map vp_cpus (sv_pkgs v)) = true |- _ => rewrite subset_spec in H; specialize (H x Hx) end.
    match goal with H : In x (flat_map _ _) |- _ => apply in_flat_map in H end. assumption.
  - apply subset_spec. assumption.
  - match goal with H : negb (is_empty (sv_pkgs v)) = true |- _ => destruct (sv_pkgs v); [discriminate|congruence] end.
  - intros n Hn. match goal with H : forallb _ (sv_nodes v) = true |- _ => rewrite forallb_forall in H; specialize (H n Hn) end.
    split_andb. lia.
Qed.

(* ------------------------------------------------------------------ mk_pool projections *)

Lemma mk_pool_key mf v cs k par d r hw : pl_key (mk_pool mf v cs k par d r hw) = k. Proof. reflexivity. Qed.
Lemma mk_pool_parent mf v cs k par d r hw : pl_parent (mk_pool mf v cs k par d r hw) = par. Proof. reflexivity. Qed.
Lemma mk_pool_depth mf v cs k par d r hw : pl_depth (mk_pool mf v cs k par d r hw) = d. Proof. reflexivity. Qed.
Lemma mk_pool_hw mf v cs k par d r hw : pl_hw (mk_pool mf v cs k par d r hw) = hw. Proof. reflexivity. Qed.

Lemma mk_pool_iso mf v cs k par d r hw x :
  In x (pl_iso (mk_pool mf v cs k par d r hw)) <-> In x hw /\ In x (cs_allowed cs) /\ In x (cs_isolated cs).
Proof. unfold mk_pool. cbn [pl_iso]. rewrite !inter_In. tauto. Qed.
Lemma mk_pool_res mf v cs k par d r hw x :
  In x (pl_res (mk_pool mf v cs k par d r hw)) <-> In x hw /\ In x (cs_allowed cs) /\ In x (cs_reserved cs).
Proof. unfold mk_pool. cbn [pl_res]. rewrite !inter_In. tauto. Qed.
Lemma mk_pool_shr mf v cs k par d r hw x :
  In x (pl_shr (mk_pool mf v cs k par d r hw)) <->
  In x hw /\ In x (cs_allowed cs) /\ ~ In x (cs_isolated cs) /\ ~ In x (cs_reserved cs).
Proof. unfold mk_pool. cbn [pl_shr]. rewrite !diff_In, !inter_In. tauto. Qed.

Lemma mk_pool_cpus mf v cs k par d r hw x :
  In x (pl_cpus (mk_pool mf v cs k par d r hw)) <-> In x hw /\ In x (cs_allowed cs).
Proof.
  unfold pl_cpus. rewrite !in_app_iff, mk_pool_iso, mk_pool_res, mk_pool_shr.
  destruct (in_dec Z.eq_dec x (cs_isolated cs)), (in_dec Z.eq_dec x (cs_reserved cs)); tauto.
Qed.

Lemma origin_mk_pool mf v cs p : origin mf v cs p ->
  exists k par d r hw, p = mk_pool mf v cs k par d r hw.
Proof. intros H; destruct H; repeat eexists. Qed.

(* ------------------------------------------------------------------ tree theorems *)

Section Tree.
Context (mf : bool) (v : system_view) (cs : cpusets) (Hh : hier v).

Lemma find_node_fun nid n1 n2 : find_node v nid = Some n1 -> find_node v nid = Some n2 -> n1 = n2.
Proof. congruence. Qed.

Lemma single_socket_pkgs : multi_socket v = false -> exists p0, sv_pkgs v = [p0].
Proof.
  unfold multi_socket. intros H. pose proof (h_pkgs_nonempty v Hh) as Hne.
  destruct (sv_pkgs v) as [|p0 [|p1 t]]; [congruence|exists p0; reflexivity|].
  simpl length in H. apply Z.ltb_ge in H. lia.
Qed.

Ltac pk_eq :=
  repeat match goal with
  | H1 : In ?p1 (sv_pkgs v), H2 : In ?p2 (sv_pkgs v), E : vp_id ?p1 = vp_id ?p2 |- _ =>
      assert (p1 = p2) by (exact (h_pkg_inj v Hh p1 p2 H1 H2 E)); subst p2; clear E
  end.

Theorem keys_unique p q : origin mf v cs p -> origin mf v cs q -> pl_key p = pl_key q -> p = q.
Proof.
  intros Hp Hq Hk.
  destruct Hp as [Hm|p1 Hp1|p1 d1 Hp1 Hd1 Hi1|p1 nid1 n1 Hp1 Hd1 Hn1 Hi1 Hf1 Hm1|p1 d1 nid1 n1 Hp1 Hd1 Hi1 Hn1 Hin1 Hf1 Hm1];
  destruct Hq as [Hm'|p2 Hp2|p2 d2 Hp2 Hd2 Hi2|p2 nid2 n2 Hp2 Hd2 Hn2 Hi2 Hf2 Hm2|p2 d2 nid2 n2 Hp2 Hd2 Hi2 Hn2 Hin2 Hf2 Hm2];
  rewrite !mk_pool_key in Hk; unfold socket_key in *; try discriminate; try reflexivity.
  - injection Hk as Hk. pk_eq. reflexivity.
  - injection Hk as Hk1 Hk2. pk_eq. assert (d1 = d2) by (eapply (h_die_inj v Hh); eassumption). subst. reflexivity.
  - injection Hk as Hk. subst nid2.
    assert (p1 = p2) by (eapply (h_node_one_pkg v Hh); eassumption). subst.
    assert (n1 = n2) by congruence. subst. reflexivity.
  - injection Hk as Hk. subst nid2.
    assert (In nid1 (vp_nodes p2)) by (eapply (h_die_nodes v Hh); eassumption).
    assert (p1 = p2) by (eapply (h_node_one_pkg v Hh); eassumption). subst. congruence.
  - injection Hk as Hk. subst nid2.
    assert (In nid1 (vp_nodes p1)) by (eapply (h_die_nodes v Hh); eassumption).
    assert (p1 = p2) by (eapply (h_node_one_pkg v Hh); eassumption). subst. congruence.
  - injection Hk as Hk. subst nid2.
    assert (In nid1 (vp_nodes p1)) by (eapply (h_die_nodes v Hh); eassumption).
    assert (In nid1 (vp_nodes p2)) by (eapply (h_die_nodes v Hh); eassumption).
    assert (p1 = p2) by (eapply (h_node_one_pkg v Hh); eassumption). subst.
    assert (d1 = d2) by (eapply (h_node_one_die v Hh); eassumption). subst.
    assert (n1 = n2) by congruence. subst. reflexivity.
Qed.

Theorem single_root :
  exists r, origin mf v cs r /\ pl_parent r = None /\
            forall p, origin mf v cs p -> pl_parent p = None -> p = r.
Proof.
  destruct (multi_socket v) eqn:Em.
  - exists (mk_pool mf v cs (KVirtual, -1, -1) None 0 true (cpu_ids v)). split; [apply OVirtual; exact Em|]. split; [reflexivity|].
    intros p Hp Hpar. destruct Hp; rewrite mk_pool_parent in Hpar; try discriminate; try reflexivity.
    rewrite Em in Hpar. discriminate.
  - destruct (single_socket_pkgs Em) as [p0 Hp0].
    assert (Hin : In p0 (sv_pkgs v)) by (rewrite Hp0; left; reflexivity).
    exists (mk_pool mf v cs (socket_key p0) (if multi_socket v then Some (KVirtual, -1, -1) else None)
                    (socket_depth v) (negb (multi_socket v)) (vp_cpus p0)).
    split; [apply OSocket; exact Hin|]. split; [rewrite mk_pool_parent, Em; reflexivity|].
    intros p Hp Hpar. destruct Hp as [Hm|p1 Hp1| | |]; rewrite mk_pool_parent in Hpar; try discriminate.
    + congruence.
    + rewrite Hp0 in Hp1. destruct Hp1 as [<-|[]]. reflexivity.
Qed.

Theorem parent_in_tree p k : origin mf v cs p -> pl_parent p = Some k ->
  exists q, origin mf v cs q /\ pl_key q = k /\ pl_depth p = pl_depth q + 1.
Proof.
  intros Hp Hpar.
  destruct Hp as [Hm|p1 Hp1|p1 d1 Hp1 Hd1 Hi1|p1 nid1 n1 Hp1 Hd1 Hn1 Hi1 Hf1 Hm1|p1 d1 nid1 n1 Hp1 Hd1 Hi1 Hn1 Hin1 Hf1 Hm1];
  rewrite mk_pool_parent in Hpar; rewrite mk_pool_depth.
  - discriminate.
  - destruct (multi_socket v) eqn:Em; [|discriminate]. injection Hpar as <-.
    eexists. split; [apply OVirtual; exact Em|]. rewrite mk_pool_key, mk_pool_depth. unfold socket_depth. rewrite Em. split; reflexivity.
  - injection Hpar as <-. eexists. split; [apply (OSocket mf v cs p1 Hp1)|]. rewrite mk_pool_key, mk_pool_depth. split; reflexivity.
  - injection Hpar as <-. eexists. split; [apply (OSocket mf v cs p1 Hp1)|]. rewrite mk_pool_key, mk_pool_depth. split; reflexivity.
  - injection Hpar as <-. eexists. split; [apply (ODie mf v cs p1 d1 Hp1 Hd1 Hi1)|]. rewrite mk_pool_key, mk_pool_depth. split; [reflexivity|lia].
Qed.

Theorem child_cpus_subset p q : origin mf v cs p -> origin mf v cs q -> pl_parent p = Some (pl_key q) ->
  forall x, In x (pl_hw p) -> In x (pl_hw q).
Proof.
  intros Hp Hq Hpar x.
  destruct Hp as [Hm|p1 Hp1|p1 d1 Hp1 Hd1 Hi1|p1 nid1 n1 Hp1 Hd1 Hn1 Hi1 Hf1 Hm1|p1 d1 nid1 n1 Hp1 Hd1 Hi1 Hn1 Hin1 Hf1 Hm1];
  destruct Hq as [Hm'|p2 Hp2|p2 d2 Hp2 Hd2 Hi2|p2 nid2 n2 Hp2 Hd2 Hn2 Hi2 Hf2 Hm2|p2 d2 nid2 n2 Hp2 Hd2 Hi2 Hn2 Hin2 Hf2 Hm2];
  rewrite mk_pool_parent, mk_pool_key in Hpar; rewrite !mk_pool_hw; unfold socket_key in *;
  try discriminate; try (destruct (multi_socket v); discriminate).
  - intros Hx. eapply (h_pkg_cpus v Hh); eassumption.
  - injection Hpar as Hk. pk_eq. intros Hx. eapply (h_die_cpus v Hh); eassumption.
  - injection Hpar as Hk. pk_eq. intros Hx. eapply (h_pkg_node_cpus v Hh); eassumption.
  - injection Hpar as Hk1 Hk2. pk_eq. assert (d1 = d2) by (eapply (h_die_inj v Hh); eassumption). subst.
    intros Hx. eapply (h_die_node_cpus v Hh); eassumption.
Qed.

Theorem siblings_disjoint p q : origin mf v cs p -> origin mf v cs q ->
  pl_parent p = pl_parent q -> pl_key p <> pl_key q ->
  forall x, In x (pl_hw p) -> In x (pl_hw q) -> False.
Proof.
  intros Hp Hq Hpar Hk x.
  destruct Hp as [Hm|p1 Hp1|p1 d1 Hp1 Hd1 Hi1|p1 nid1 n1 Hp1 Hd1 Hn1 Hi1 Hf1 Hm1|p1 d1 nid1 n1 Hp1 Hd1 Hi1 Hn1 Hin1 Hf1 Hm1];
  destruct Hq as [Hm'|p2 Hp2|p2 d2 Hp2 Hd2 Hi2|p2 nid2 n2 Hp2 Hd2 Hn2 Hi2 Hf2 Hm2|p2 d2 nid2 n2 Hp2 Hd2 Hi2 Hn2 Hin2 Hf2 Hm2];
  rewrite !mk_pool_parent in Hpar; rewrite !mk_pool_key in Hk; rewrite !mk_pool_hw; unfold socket_key in *;
  try discriminate; try (destruct (multi_socket v); discriminate); try congruence.
  - (* two sockets *)
    intros H1 H2. assert (p1 <> p2) by congruence. eapply (h_pkg_disj v Hh p1 p2); eassumption.
  - (* two dies of one socket *)
    injection Hpar as Hpk. pk_eq. intros H1 H2. assert (d1 <> d2) by congruence.
    eapply (h_die_disj v Hh p1 d1 d2); eassumption.
  - injection Hpar as Hpk. pk_eq. congruence.
  - injection Hpar as Hpk. pk_eq. congruence.
  - (* two NUMA pools under one socket *)
    intros H1 H2. apply find_node_In in Hf1 as [Hf1 Hid1], Hf2 as [Hf2 Hid2].
    assert (n1 <> n2) by (intros ->; apply Hk; congruence).
    eapply (h_node_disj v Hh n1 n2); eassumption.
  - (* two NUMA pools under one die *)
    intros H1 H2. apply find_node_In in Hf1 as [Hf1 Hid1], Hf2 as [Hf2 Hid2].
    assert (n1 <> n2) by (intros ->; apply Hk; congruence).
    eapply (h_node_disj v Hh n1 n2); eassumption.
Qed.

Theorem root_holds_available r : origin mf v cs r -> pl_parent r = None ->
  forall x, In x (cs_allowed cs) -> In x (sv_online v) -> In x (pl_cpus r).
Proof.
  intros Hr Hpar x Ha Ho.
  destruct Hr as [Hm|p1 Hp1| | |]; rewrite mk_pool_parent in Hpar; try discriminate; apply mk_pool_cpus; split; try exact Ha.
  - apply (h_online_ids v Hh). exact Ho.
  - destruct (multi_socket v) eqn:Em; [discriminate|].
    destruct (single_socket_pkgs Em) as [p0 Hp0]. rewrite Hp0 in Hp1. destruct Hp1 as [<-|[]].
    destruct (h_online_pkg v Hh x Ho) as [p' [Hp' Hx]]. rewrite Hp0 in Hp'. destruct Hp' as [<-|[]]. exact Hx.
Qed.

(* each pool's supply: three classes, union = pool CPUs /\ allowed *)
Theorem supply_partition p : origin mf v cs p ->
  (forall x, In x (pl_cpus p) <-> In x (pl_hw p) /\ In x (cs_allowed cs)) /\
  (forall x, In x (pl_iso p) -> In x (pl_shr p) -> False) /\
  (forall x, In x (pl_res p) -> In x (pl_shr p) -> False) /\
  ((forall x, In x (cs_reserved cs) -> In x (cs_isolated cs) -> False) ->
   forall x, In x (pl_iso p) -> In x (pl_res p) -> False) /\
  (forall x, In x (pl_iso p) <-> In x (pl_hw p) /\ In x (cs_allowed cs) /\ In x (cs_isolated cs)) /\
  (forall x, In x (pl_res p) <-> In x (pl_hw p) /\ In x (cs_allowed cs) /\ In x (cs_reserved cs)).
Proof.
  intros Hp. destruct (origin_mk_pool _ _ _ _ Hp) as (k & par & d & r & hw & ->).
  rewrite mk_pool_hw.
  split; [intros x; apply mk_pool_cpus|].
  split; [intros x H1 H2; apply mk_pool_iso in H1; apply mk_pool_shr in H2; tauto|].
  split; [intros x H1 H2; apply mk_pool_res in H1; apply mk_pool_shr in H2; tauto|].
  split; [intros Hg x H1 H2; apply mk_pool_iso in H1; apply mk_pool_res in H2; apply (Hg x); tauto|].
  split; [intros x; apply mk_pool_iso|intros x; apply mk_pool_res].
Qed.

End Tree.

(* ------------------------------------------------------------------ memory sets *)

Lemma of_type_In v t ids n :
  In n (of_type v t ids) <-> In n ids /\ exists nd, find_node v n = Some nd /\ vn_memtype nd = t.
Proof.
  unfold of_type. rewrite filter_In. split.
  - intros [H1 H2]. split; [exact H1|]. destruct (find_node v n) as [nd|]; [|discriminate].
    exists nd. split; [reflexivity|]. apply Z.eqb_eq. exact H2.
  - intros [H1 [nd [H2 H3]]]. split; [exact H1|]. rewrite H2. apply Z.eqb_eq. exact H3.
Qed.

Lemma mk_pool_mems mf v cs k par d r hw n :
  In n (pl_mems (mk_pool mf v cs k par d r hw)) <->
  In n (mem_supply mf v r hw) /\ exists nd, find_node v n = Some nd /\ 0 <= vn_memtype nd <= 2.
Proof.
  unfold pl_mems, mk_pool. cbn [pl_dram pl_pmem pl_hbm]. rewrite !in_app_iff, !of_type_In. split.
  - intros [[H [nd [Hf Ht]]]|[[H [nd [Hf Ht]]]|[H [nd [Hf Ht]]]]]; (split; [exact H|exists nd; split; [exact Hf|lia]]).
  - intros [H [nd [Hf Ht]]].
    assert (vn_memtype nd = 0 \/ vn_memtype nd = 1 \/ vn_memtype nd = 2) as [E|[E|E]] by lia.
    + left. split; [exact H|]. exists nd. tauto.
    + right. left. split; [exact H|]. exists nd. tauto.
    + right. right. split; [exact H|]. exists nd. tauto.
Qed.

Lemma mems_for_cpus_In v hw n :
  In n (mems_for_cpus v hw) <-> exists nd, In nd (sv_nodes v) /\ vn_id nd = n /\ exists x, In x (vn_cpus nd) /\ In x hw.
Proof.
  unfold mems_for_cpus. rewrite in_map_iff. split.
  - intros [nd [Hid Hf]]. apply filter_In in Hf as [Hin Hne]. exists nd. split; [exact Hin|]. split; [exact Hid|].
    apply negb_true_iff in Hne. apply is_empty_false in Hne as [x Hx]. apply inter_In in Hx. exists x. exact Hx.
  - intros [nd [Hin [Hid [x [Hx1 Hx2]]]]]. exists nd. split; [exact Hid|]. apply filter_In. split; [exact Hin|].
    apply negb_true_iff. apply is_empty_false. exists x. apply inter_In. tauto.
Qed.

Lemma closest_special_In v mems n :
  In n (closest_special v mems) <->
  exists s, In s (sv_nodes v) /\ vn_id s = n /\ is_special s = true /\ exists c, In c (closest_cpu_dram v s) /\ In c mems.
Proof.
  unfold closest_special. rewrite in_map_iff. split.
  - intros [s [Hid Hf]]. apply filter_In in Hf as [Hin Hc]. apply andb_true_iff in Hc as [Hs Hne].
    exists s. split; [exact Hin|]. split; [exact Hid|]. split; [exact Hs|].
    apply negb_true_iff in Hne. apply is_empty_false in Hne as [c Hc]. apply inter_In in Hc. exists c. exact Hc.
  - intros [s [Hin [Hid [Hs [c [Hc1 Hc2]]]]]]. exists s. split; [exact Hid|]. apply filter_In. split; [exact Hin|].
    apply andb_true_iff. split; [exact Hs|]. apply negb_true_iff. apply is_empty_false. exists c. apply inter_In. tauto.
Qed.

Lemma is_special_facts s : is_special s = true ->
  (vn_memtype s = 1 \/ vn_memtype s = 2) /\ node_has_memory s = true /\ vn_cpus s = [].
Proof.
  unfold is_special. intros H. apply andb_true_iff in H as [H H3]. apply andb_true_iff in H as [H1 H2].
  apply orb_true_iff in H1. rewrite !Z.eqb_eq in H1. apply is_empty_spec in H3. tauto.
Qed.

(* the non-root memory supply, element-wise *)
Lemma mem_supply_nonroot_In mf v hw n :
  In n (mem_supply mf v false hw) <->
  (In n (mems_for_cpus v hw) /\ (mf = true -> exists nd, find_node v n = Some nd /\ node_has_memory nd = true))
  \/ In n (closest_special v (mems_for_cpus v hw)).
Proof.
  unfold mem_supply. rewrite union_In. destruct mf.
  - rewrite filter_In. split.
    + intros [[H1 H2]|H]; [left|right; exact H]. split; [exact H1|]. intros _.
      destruct (find_node v n) as [nd|]; [|discriminate]. exists nd. tauto.
    + intros [[H1 H2]|H]; [left|right; exact H]. split; [exact H1|].
      destruct (H2 eq_refl) as [nd [Hf Hm]]. rewrite Hf. exact Hm.
  - split.
    + intros [H|H]; [left|right; exact H]. split; [exact H|]. discriminate.
    + intros [[H _]|H]; [left; exact H|right; exact H].
Qed.

Section Mem.
Context (mf : bool) (v : system_view) (cs : cpusets) (Hh : hier v).

Lemma node_by_id n1 n2 : In n1 (sv_nodes v) -> In n2 (sv_nodes v) -> vn_id n1 = vn_id n2 -> n1 = n2.
Proof. apply NoDup_map_inj. exact (h_node_nodup v Hh). Qed.

Lemma find_node_iff id n : find_node v id = Some n <-> In n (sv_nodes v) /\ vn_id n = id.
Proof.
  split; [apply find_node_In|]. intros [H <-]. apply find_node_unique; [exact (h_node_nodup v Hh)|exact H].
Qed.

Lemma origin_root_form p : origin mf v cs p -> pl_parent p = None ->
  exists k d hw, p = mk_pool mf v cs k None d true hw.
Proof.
  intros Hp Hpar. destruct Hp; rewrite mk_pool_parent in Hpar; try discriminate.
  - repeat eexists.
  - destruct (multi_socket v); [discriminate|]. repeat eexists.
Qed.

Lemma origin_nonroot_form p k : origin mf v cs p -> pl_parent p = Some k ->
  exists k' d hw, p = mk_pool mf v cs k' (Some k) d false hw.
Proof.
  intros Hp Hpar. destruct Hp; rewrite mk_pool_parent in Hpar; try discriminate.
  - destruct (multi_socket v); [|discriminate]. injection Hpar as <-. repeat eexists.
  - injection Hpar as <-. repeat eexists.
  - injection Hpar as <-. repeat eexists.
  - injection Hpar as <-. repeat eexists.
Qed.

(* every node that has memory belongs to the root, and nothing else does *)
Theorem root_has_all_memory r : origin mf v cs r -> pl_parent r = None ->
  forall n, In n (pl_mems r) <-> exists nd, In nd (sv_nodes v) /\ vn_id nd = n /\ node_has_memory nd = true.
Proof.
  intros Hr Hpar n. destruct (origin_root_form r Hr Hpar) as (k & d & hw & ->).
  rewrite mk_pool_mems. unfold mem_supply. rewrite in_map_iff. split.
  - intros [[nd [Hid Hf]] _]. apply filter_In in Hf. exists nd. tauto.
  - intros [nd [Hin [Hid Hm]]]. split.
    + exists nd. split; [exact Hid|]. apply filter_In. tauto.
    + exists nd. split; [apply find_node_iff; tauto|]. apply (h_memtype v Hh). exact Hin.
Qed.

(* a child's memory nodes are a subset of its parent's: holds for the repaired code (mf = true);
   for the code before fix F11 (mf = false) only when every CPU-bearing node has memory *)
Definition cpu_nodes_have_memory : Prop :=
  forall nd, In nd (sv_nodes v) -> vn_cpus nd <> [] -> node_has_memory nd = true.

Theorem child_mems_subset p q : mf = true \/ cpu_nodes_have_memory ->
  origin mf v cs p -> origin mf v cs q -> pl_parent p = Some (pl_key q) ->
  forall n, In n (pl_mems p) -> In n (pl_mems q).
Proof.
  intros Hg Hp Hq Hpar n.
  pose proof (child_cpus_subset mf v cs Hh p q Hp Hq Hpar) as Hsub.
  destruct (origin_nonroot_form p _ Hp Hpar) as (kp & dp & hwp & ->).
  rewrite mk_pool_hw in Hsub. rewrite mk_pool_mems. intros [Hn Hty].
  apply mem_supply_nonroot_In in Hn.
  destruct (pl_parent q) as [kq|] eqn:Eq.
  - (* the parent is not the root: monotone in the CPU set *)
    destruct (origin_nonroot_form q _ Hq Eq) as (kq' & dq & hwq & ->).
    rewrite mk_pool_hw in Hsub. apply mk_pool_mems. split; [|exact Hty].
    apply mem_supply_nonroot_In.
    assert (Hmono : forall c, In c (mems_for_cpus v hwp) -> In c (mems_for_cpus v hwq)).
    { intros c Hc. apply mems_for_cpus_In in Hc as [nd [H1 [H2 [x [H3 H4]]]]]. apply mems_for_cpus_In.
      exists nd. split; [exact H1|]. split; [exact H2|]. exists x. split; [exact H3|]. apply Hsub. exact H4. }
    destruct Hn as [[H1 H2]|H].
    + left. split; [apply Hmono; exact H1|exact H2].
    + right. apply closest_special_In in H as [s [Hs1 [Hs2 [Hs3 [c [Hc1 Hc2]]]]]]. apply closest_special_In.
      exists s. split; [exact Hs1|]. split; [exact Hs2|]. split; [exact Hs3|]. exists c. split; [exact Hc1|apply Hmono; exact Hc2].
  - (* the parent is the root: the node must have memory *)
    apply (root_has_all_memory q Hq Eq).
    destruct Hn as [[H1 H2]|H].
    + destruct Hg as [->|Hg].
      * destruct (H2 eq_refl) as [nd [Hf Hm]]. apply find_node_iff in Hf. exists nd. tauto.
      * apply mems_for_cpus_In in H1 as [nd [Hin [Hid [x [Hx _]]]]]. exists nd. split; [exact Hin|]. split; [exact Hid|].
        apply Hg; [exact Hin|]. intros E. rewrite E in Hx. exact Hx.
    + apply closest_special_In in H as [s [Hs1 [Hs2 [Hs3 _]]]]. apply is_special_facts in Hs3. exists s. tauto.
Qed.

(* a CPU-less PMEM/HBM node is attached to exactly the (non-root) pools that contain one of its
   closest CPU-bearing DRAM nodes *)
Theorem special_mem_attach p k s : origin mf v cs p -> pl_parent p = Some k ->
  In s (sv_nodes v) -> is_special s = true ->
  (In (vn_id s) (pl_mems p) <->
   exists c nd, In c (closest_cpu_dram v s) /\ find_node v c = Some nd /\ exists x, In x (vn_cpus nd) /\ In x (pl_hw p)).
Proof.
  intros Hp Hpar Hs Hsp. destruct (origin_nonroot_form p _ Hp Hpar) as (kp & dp & hwp & ->).
  rewrite mk_pool_hw, mk_pool_mems, mem_supply_nonroot_In.
  pose proof (is_special_facts s Hsp) as [Hty [Hmem Hcpus]].
  split.
  - intros [[[H _]|H] _].
    + exfalso. apply mems_for_cpus_In in H as [nd [Hin [Hid [x [Hx _]]]]].
      assert (nd = s) by (apply node_by_id; assumption). subst. rewrite Hcpus in Hx. exact Hx.
    + apply closest_special_In in H as [s' [Hs1 [Hs2 [_ [c [Hc1 Hc2]]]]]].
      assert (s' = s) by (apply node_by_id; assumption). subst.
      apply mems_for_cpus_In in Hc2 as [nd [Hin [Hid Hx]]]. exists c, nd. split; [exact Hc1|]. split; [apply find_node_iff; tauto|exact Hx].
  - intros [c [nd [Hc [Hf Hx]]]]. apply find_node_iff in Hf as [Hin Hid]. split.
    + right. apply closest_special_In. exists s. split; [exact Hs|]. split; [reflexivity|]. split; [exact Hsp|].
      exists c. split; [exact Hc|]. apply mems_for_cpus_In. exists nd. tauto.
    + exists s. split; [apply find_node_iff; tauto|]. lia.
Qed.

End Mem.

(* what "closest CPU-bearing DRAM nodes" means *)
Lemma seqZ_In lo n x : In x (seqZ lo n) <-> lo <= x < lo + Z.of_nat n.
Proof.
  revert lo. induction n as [|n IH]; intros lo; cbn [seqZ].
  - simpl. lia.
  - simpl In. rewrite IH. lia.
Qed.

Lemma min_list_le d l : min_list d l <= d /\ forall x, In x l -> min_list d l <= x.
Proof.
  unfold min_list. induction l as [|y t [IH1 IH2]]; simpl.
  - split; [lia|]. intros x [].
  - split; [lia|]. intros x [<-|Hx]; [lia|]. specialize (IH2 x Hx). lia.
Qed.

Lemma min_list_In d l : min_list d l = d \/ In (min_list d l) l.
Proof.
  unfold min_list. induction l as [|y t IH]; simpl; [left; reflexivity|].
  destruct (Z.min_spec y (fold_right Z.min d t)) as [[_ E]|[_ E]]; rewrite E.
  - right. left. reflexivity.
  - destruct IH as [IH|IH]; [left; exact IH|right; right; exact IH].
Qed.

Theorem closest_spec v s c :
  In c (closest_cpu_dram v s) <->
  In c (close_candidates v s) /\ forall c', In c' (close_candidates v s) -> dist_from s c <= dist_from s c'.
Proof.
  unfold closest_cpu_dram. destruct (close_candidates v s) as [|c0 r] eqn:E.
  - simpl. tauto.
  - rewrite filter_In, Z.eqb_eq.
    destruct (min_list_le (dist_from s c0) (map (dist_from s) r)) as [L1 L2].
    split.
    + intros [Hin Hd]. split; [exact Hin|]. intros c' [<-|Hc']; rewrite Hd; [exact L1|].
      apply L2. apply in_map. exact Hc'.
    + intros [Hin Hmin]. split; [exact Hin|].
      destruct (min_list_In (dist_from s c0) (map (dist_from s) r)) as [Em|Em].
      * assert (dist_from s c <= dist_from s c0) by (apply Hmin; left; reflexivity).
        destruct Hin as [<-|Hin]; [lia|]. specialize (L2 _ (in_map (dist_from s) _ _ Hin)). lia.
      * apply in_map_iff in Em as [c1 [E1 Hc1]].
        assert (dist_from s c <= dist_from s c1) by (apply Hmin; right; exact Hc1).
        destruct Hin as [<-|Hin]; [lia|]. specialize (L2 _ (in_map (dist_from s) _ _ Hin)). lia.
Qed.

Theorem candidates_spec v s id :
  In id (close_candidates v s) <->
  0 <= id < zlen (vn_distance s) /\ id <> vn_id s /\
  exists n, find_node v id = Some n /\ vn_memtype n = 0 /\ vn_cpus n <> [].
Proof.
  unfold close_candidates. rewrite filter_In, seqZ_In, andb_true_iff, negb_true_iff, Z.eqb_neq. unfold zlen. split.
  - intros [H1 [H2 H3]]. split; [lia|]. split; [exact H2|].
    destruct (find_node v id) as [n|]; [|discriminate]. exists n. split; [reflexivity|].
    apply andb_true_iff in H3 as [H3 H4]. apply Z.eqb_eq in H3. split; [exact H3|].
    intros E. rewrite E in H4. discriminate.
  - intros [H1 [H2 [n [Hf [Ht Hc]]]]]. split; [lia|]. split; [exact H2|]. rewrite Hf.
    apply andb_true_iff. split; [apply Z.eqb_eq; exact Ht|]. destruct (vn_cpus n); [congruence|reflexivity].
Qed.

(* ------------------------------------------------------------------ accepted configurations *)

Section Accepted.
(* the CPU allocator's contract (C08): the returned CPUs are taken from the requested set *)
Context (alloc : allocator)
        (alloc_sub : forall from cnt r, alloc from cnt = Some r -> forall x, In x r -> In x from).

Lemma constraints_ok v c cs : check_constraints alloc v c = Ok cs ->
  cs_reserved cs <> [] /\
  (forall x, In x (cs_reserved cs) -> In x (cs_allowed cs)) /\
  (forall x, In x (cs_isolated cs) <-> In x (sv_isolated v) /\ In x (cs_allowed cs)).
Proof.
  unfold check_constraints.
  destruct (match cf_avail c with AvSet l => Some (canon l) | AvAbsent => Some (diff (cpu_ids v) (offlined v)) | _ => None end)
    as [allowed|]; [|discriminate].
  set (fin := fun reserved => if is_empty reserved then Rej RejConstraints else Ok (mkCpusets allowed (inter (sv_isolated v) allowed) reserved)).
  assert (Hfin : forall r, fin r = Ok cs -> r <> [] /\ cs = mkCpusets allowed (inter (sv_isolated v) allowed) r).
  { intros r. unfold fin. destruct r; simpl; [discriminate|]. intros H. injection H as <-. split; [discriminate|reflexivity]. }
  destruct (cf_resv c) as [|l|q|]; try discriminate.
  - destruct (negb (is_empty (diff (canon l) allowed))) eqn:E1; [discriminate|].
    match goal with |- (if ?b then _ else _) = _ -> _ => destruct b; [discriminate|] end.
    intros H. apply Hfin in H as [H1 ->]. cbn [cs_reserved cs_allowed cs_isolated]. split; [exact H1|]. split.
    + intros x Hx. apply negb_false_iff in E1. apply is_empty_spec in E1.
      destruct (in_dec Z.eq_dec x allowed) as [Hi|Hi]; [exact Hi|].
      assert (In x (diff (canon l) allowed)) by (apply diff_In; tauto). rewrite E1 in H. contradiction.
    + intros x. apply inter_In.
  - destruct (alloc (diff allowed (inter (sv_isolated v) allowed)) (Z.quot (q + 999) 1000)) as [r|] eqn:Ea; [|discriminate].
    intros H. apply Hfin in H as [H1 ->]. cbn [cs_reserved cs_allowed cs_isolated]. split; [exact H1|]. split.
    + intros x Hx. rewrite canon_In in Hx. apply (alloc_sub _ _ _ Ea) in Hx. apply diff_In in Hx. tauto.
    + intros x. apply inter_In.
Qed.

(* reserved by quantity: never an isolated CPU *)
Lemma quantity_reserved_not_isolated v av q cs : check_constraints alloc v (mkCfg av (RsMilli q)) = Ok cs ->
  forall x, In x (cs_reserved cs) -> In x (cs_isolated cs) -> False.
Proof.
  unfold check_constraints. cbn [cf_avail cf_resv].
  destruct (match av with AvSet l => Some (canon l) | AvAbsent => Some (diff (cpu_ids v) (offlined v)) | _ => None end)
    as [allowed|]; [|discriminate].
  destruct (alloc (diff allowed (inter (sv_isolated v) allowed)) (Z.quot (q + 999) 1000)) as [r|] eqn:Ea; [|discriminate].
  destruct (is_empty (canon r)); [discriminate|]. intros H. injection H as <-. cbn [cs_reserved cs_isolated].
  intros x Hx Hi. rewrite canon_In in Hx. apply (alloc_sub _ _ _ Ea) in Hx. apply diff_In in Hx. tauto.
Qed.

(* reserved by cpuset: either no isolated CPU at all, or exactly one CPU which is isolated
   (the case the property excludes) *)
Lemma cpuset_reserved_cases v av l cs : check_constraints alloc v (mkCfg av (RsSet l)) = Ok cs ->
  (forall x, In x (cs_reserved cs) -> In x (cs_isolated cs) -> False) \/
  (exists c, In c (cs_isolated cs) /\ forall x, In x (cs_reserved cs) <-> x = c).
Proof.
  unfold check_constraints. cbn [cf_avail cf_resv].
  destruct (match av with AvSet l => Some (canon l) | AvAbsent => Some (diff (cpu_ids v) (offlined v)) | _ => None end)
    as [allowed|]; [|discriminate].
  set (isolated := inter (sv_isolated v) allowed).
  destruct (negb (is_empty (diff (canon l) allowed))); [discriminate|].
  destruct (is_empty (inter (canon l) isolated)) eqn:Ei.
  - cbn [negb andb]. destruct (is_empty (canon l)); [discriminate|]. intros H. injection H as <-. cbn [cs_reserved cs_isolated].
    left. intros x H1 H2. apply is_empty_spec in Ei. assert (In x (inter (canon l) isolated)) by (apply inter_In; tauto).
    rewrite Ei in H. exact H.
  - cbn [negb andb]. destruct (negb (seteq (canon l) (inter (canon l) isolated))) eqn:Es; [discriminate|]. cbn [orb].
    destruct (1 <? zlen (inter (canon l) isolated)) eqn:El; [discriminate|].
    destruct (is_empty (canon l)); [discriminate|]. intros H. injection H as <-. cbn [cs_reserved cs_isolated].
    right. apply negb_false_iff in Es. rewrite seteq_spec in Es. apply Z.ltb_ge in El. unfold zlen in El.
    destruct (inter (canon l) isolated) as [|c [|c' t]] eqn:E; [discriminate| |simpl length in El; lia].
    exists c. split.
    + assert (In c (inter (canon l) isolated)) by (rewrite E; left; reflexivity). apply inter_In in H. tauto.
    + intros x. rewrite Es. simpl. split; [intros [->|[]]; reflexivity|intros ->; left; reflexivity].
Qed.

Lemma accepted_tree mf v c cs ps : build_pools mf alloc v c = Ok (cs, ps) ->
  check_constraints alloc v c = Ok cs /\ topology_ok v = true /\ ps = build_tree mf v cs.
Proof.
  unfold build_pools. destruct (check_constraints alloc v c) as [cs'|]; [|discriminate].
  destruct (topology_ok v); [|discriminate]. intros H. injection H as <- <-. auto.
Qed.

(* --- the property's clauses for every hierarchical view and every accepted configuration --- *)
Section Clauses.
Context (mf : bool) (v : system_view) (c : cfg) (cs : cpusets) (ps : list pool)
        (Hwf : hier_wfb v = true) (Hacc : build_pools mf alloc v c = Ok (cs, ps)).

Let Hh : hier v := hier_of_wfb v Hwf.

Lemma in_ps p : In p ps <-> origin mf v cs p.
Proof. destruct (accepted_tree _ _ _ _ _ Hacc) as [_ [_ ->]]. apply tree_shape. Qed.

Theorem final_single_tree :
  (exists r, In r ps /\ pl_parent r = None /\ forall p, In p ps -> pl_parent p = None -> p = r) /\
  (forall p k, In p ps -> pl_parent p = Some k -> exists q, In q ps /\ pl_key q = k /\ pl_depth p = pl_depth q + 1) /\
  (forall p q, In p ps -> In q ps -> pl_key p = pl_key q -> p = q).
Proof.
  split; [|split].
  - destruct (single_root mf v cs Hh) as [r [H1 [H2 H3]]]. exists r. split; [apply in_ps; exact H1|]. split; [exact H2|].
    intros p Hp. apply H3. apply in_ps. exact Hp.
  - intros p k Hp Hk. apply in_ps in Hp. destruct (parent_in_tree mf v cs p k Hp Hk) as [q [H1 H2]]. exists q. split; [apply in_ps; exact H1|exact H2].
  - intros p q Hp Hq. apply in_ps in Hp, Hq. apply (keys_unique mf v cs Hh); assumption.
Qed.

Theorem final_siblings_disjoint p q : In p ps -> In q ps -> pl_parent p = pl_parent q -> pl_key p <> pl_key q ->
  forall x, In x (pl_cpus p) -> In x (pl_cpus q) -> False.
Proof.
  intros Hp Hq Hpar Hk x H1 H2. apply in_ps in Hp, Hq.
  destruct (supply_partition mf v cs p Hp) as [Ep _]. destruct (supply_partition mf v cs q Hq) as [Eq _].
  apply Ep in H1. apply Eq in H2. destruct H1 as [H1 _], H2 as [H2 _].
  exact (siblings_disjoint mf v cs Hh p q Hp Hq Hpar Hk x H1 H2).
Qed.

Theorem final_parent_contains_children p q : In p ps -> In q ps -> pl_parent p = Some (pl_key q) ->
  forall x, In x (pl_cpus p) -> In x (pl_cpus q).
Proof.
  intros Hp Hq Hpar x H1. apply in_ps in Hp, Hq.
  destruct (supply_partition mf v cs p Hp) as [Ep _]. destruct (supply_partition mf v cs q Hq) as [Eq _].
  apply Ep in H1. apply Eq. destruct H1 as [H1 Ha].
  split; [|exact Ha]. exact (child_cpus_subset mf v cs Hh p q Hp Hq Hpar x H1).
Qed.

Theorem final_root_holds_available r : In r ps -> pl_parent r = None ->
  forall x, In x (cs_allowed cs) -> In x (sv_online v) -> In x (pl_cpus r).
Proof. intros Hr. apply in_ps in Hr. apply (root_holds_available mf v cs Hh r Hr). Qed.

Theorem final_supply_partition p : In p ps ->
  (forall x, In x (pl_cpus p) <-> In x (pl_hw p) /\ In x (cs_allowed cs)) /\
  (forall x, In x (pl_iso p) -> In x (pl_shr p) -> False) /\
  (forall x, In x (pl_res p) -> In x (pl_shr p) -> False) /\
  ((forall x, In x (cs_reserved cs) -> In x (cs_isolated cs) -> False) ->
   forall x, In x (pl_iso p) -> In x (pl_res p) -> False) /\
  (forall x, In x (pl_iso p) <-> In x (pl_hw p) /\ In x (cs_allowed cs) /\ In x (cs_isolated cs)) /\
  (forall x, In x (pl_res p) <-> In x (pl_hw p) /\ In x (cs_allowed cs) /\ In x (cs_reserved cs)).
Proof. intros Hp. apply in_ps in Hp. apply (supply_partition mf v cs p Hp). Qed.

Theorem final_root_has_all_memory r : In r ps -> pl_parent r = None ->
  forall n, In n (pl_mems r) <-> exists nd, In nd (sv_nodes v) /\ vn_id nd = n /\ node_has_memory nd = true.
Proof. intros Hr. apply in_ps in Hr. apply (root_has_all_memory mf v cs Hh r Hr). Qed.

Theorem final_child_mems_subset p q : mf = true \/ cpu_nodes_have_memory v ->
  In p ps -> In q ps -> pl_parent p = Some (pl_key q) -> forall n, In n (pl_mems p) -> In n (pl_mems q).
Proof. intros Hg Hp Hq. apply in_ps in Hp, Hq. apply (child_mems_subset mf v cs Hh p q Hg Hp Hq). Qed.

Theorem final_special_mem_attach p k s : In p ps -> pl_parent p = Some k -> In s (sv_nodes v) -> is_special s = true ->
  (In (vn_id s) (pl_mems p) <->
   exists c nd, In c (closest_cpu_dram v s) /\ find_node v c = Some nd /\ exists x, In x (vn_cpus nd) /\ In x (pl_hw p)).
Proof. intros Hp. apply in_ps in Hp. apply (special_mem_attach mf v cs Hh p k s Hp). Qed.

End Clauses.
End Accepted.

(* ------------------------------------------------------------------ F11: the statement is false of the code before the fix *)

Definition f11_view : system_view :=
  mkView [mkVCpu 0 true false 0 0 0 0 [0] 0 []; mkVCpu 1 true false 0 0 0 1 [1] 1 [];
          mkVCpu 2 true false 1 0 0 0 [2] 2 []; mkVCpu 3 true false 1 0 0 1 [3] 3 []]
         [mkVNode 0 0 0 [0] [10;12;21;21] 4096 1024 0 true; mkVNode 1 0 0 [1] [12;10;21;21] 4096 1024 0 true;
          mkVNode 2 1 0 [2] [21;21;10;12] 4096 1024 0 true; mkVNode 3 1 0 [3] [21;21;12;10] 0 0 0 false]
         [mkVPkg 0 [0;1] [0;1] [0] [mkVDie 0 [0;1] [0;1]]; mkVPkg 1 [2;3] [2;3] [0] [mkVDie 0 [2;3] [2;3]]]
         [0;1;2;3] [0;1;2;3] [0;1;2;3] [].
Definition f11_cfg : cfg := mkCfg AvAbsent (RsSet [0]).

Theorem child_mems_subset_unfixed_refuted :
  exists v c, hier_wfb v = true /\
    forall alloc, exists cs ps, build_pools false alloc v c = Ok (cs, ps) /\
      exists p q n, In p ps /\ In q ps /\ pl_parent p = Some (pl_key q) /\ In n (pl_mems p) /\ ~ In n (pl_mems q).
Proof.
  exists f11_view, f11_cfg. split; [vm_compute; reflexivity|].
  intros alloc. eexists. eexists. split; [vm_compute; reflexivity|].
  exists (mk_pool false f11_view (mkCpusets [0;1;2;3] [] [0]) (KSocket, -1, 1) (Some (KVirtual, -1, -1)) 1 false [2;3]),
         (mk_pool false f11_view (mkCpusets [0;1;2;3] [] [0]) (KVirtual, -1, -1) None 0 true [0;1;2;3]), 3.
  vm_compute. repeat split; try tauto.
  intros [H|[H|[H|H]]]; try discriminate; exact H.
Qed.

(* hypotheses are satisfiable: the same machine, repaired code *)
Example f11_view_fixed_accepted :
  hier_wfb f11_view = true /\
  exists cs ps, build_pools true (fun _ _ => None) f11_view f11_cfg = Ok (cs, ps) /\ length ps = 6%nat.
Proof. split; [vm_compute; reflexivity|]. eexists. eexists. split; vm_compute; reflexivity. Qed.
