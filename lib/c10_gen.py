"""C10 translators: Gen_Schema.v (struct types reachable from cache.snapshot) and Gen_Save.v
(syscall skeleton of Save, file read by Load, NewCache's permission checks).

Registered in vlib.EXTRA_TRANSLATORS by register() (idempotent), so that both `bin/check C10`
and bin/setup's vlib.regenerate() produce the files."""
import os
import vlib


def _rm(p):
    try:
        os.remove(p)
    except OSError:
        pass


def _schema2coq():
    out = os.path.join(vlib.GEN, 'Gen_Schema.v')
    rc, msg, _ = vlib.sh([vlib.tool('schema2coq'), '-root', vlib.REPO, '-pkg', 'pkg/resmgr/cache', '-type', 'snapshot', '-out', out])
    if rc != 0:
        _rm(out)   # never evaluate the obligations on a schema of older source
    return ('schema2coq', rc == 0, msg.strip())


def _save2coq():
    out = os.path.join(vlib.GEN, 'Gen_Save.v')
    rc, msg, _ = vlib.sh([vlib.tool('save2coq'), '-root', vlib.REPO, '-out', out])
    if rc != 0:
        _rm(out)
    return ('save2coq', rc == 0, msg.strip())


def register():
    names = {getattr(f, '__name__', '') for f in vlib.EXTRA_TRANSLATORS}
    if '_schema2coq' not in names:
        vlib.EXTRA_TRANSLATORS.append(_schema2coq)
    if '_save2coq' not in names:
        vlib.EXTRA_TRANSLATORS.append(_save2coq)


def regenerate_c10():
    """Only the two C10 files (for bin/setup one-liners)."""
    os.makedirs(vlib.GEN, exist_ok=True)
    return [_schema2coq(), _save2coq()]
