"""C08: machine family and case generators for the CPU allocator check.

Machines use the JSON schema of lib/machines.py (rendered by harness/common/sysfsgen.go).
`custom()` adds what machines.build cannot express: several L3 groups (CCX) per NUMA node,
L2 shared between cores, hybrid parts with hyperthreaded P-cores (one cluster id per core, as the
kernel reports them) and single-threaded E-cores in clusters of 4 sharing an L2, cpufreq base
frequency bins and EPP values (the inputs of discoverCpufreqPriority)."""
import random
import machines


def custom(name, packages=1, dies=1, nodes_per_die=1, ccx_per_node=1, cores_per_ccx=2, threads=2, l2_share=1,
           ecl_per_node=0, ecl_cores=4, interleaved=False, offline=(), isolated=(), freq=None, epp=None):
    """freq: {cpu: basefreq}; epp: {cpu: string}."""
    cores = []   # (pkg, die, node, ccx(global l3 id), l2(global id), cluster, kind, nthreads)
    l3 = l2 = 0
    for p in range(packages):
        for d in range(dies):
            clu = 0
            for n in range(nodes_per_die):
                node = (p * dies + d) * nodes_per_die + n
                for x in range(ccx_per_node):
                    for c in range(cores_per_ccx):
                        if c % l2_share == 0:
                            l2 += 1
                        cores.append(dict(pkg=p, die=d, node=node, l3=l3, l2=l2, cluster=clu, kind='P', nth=threads))
                        clu += 1
                    l3 += 1
                for e in range(ecl_per_node):
                    l2 += 1
                    for c in range(ecl_cores):
                        cores.append(dict(pkg=p, die=d, node=node, l3=l3 - 1 if ccx_per_node else l3, l2=l2, cluster=100 + clu, kind='E', nth=1))
                    clu += 1
                if not ccx_per_node:
                    l3 += 1
    ncore = len(cores)
    cpus = []
    nid = 0
    if interleaved:
        # first threads 0..ncore-1, second threads follow (cores with a single thread have none)
        ids = [[k] for k in range(ncore)]
        nxt = ncore
        for t in range(1, max(c['nth'] for c in cores)):
            for k, c in enumerate(cores):
                if c['nth'] > t:
                    ids[k].append(nxt)
                    nxt += 1
    else:
        ids = []
        for c in cores:
            ids.append(list(range(nid, nid + c['nth'])))
            nid += c['nth']
    core_in_die = {}
    for k, c in enumerate(cores):
        key = (c['pkg'], c['die'])
        core_in_die[key] = core_in_die.get(key, -1) + 1
        for i in ids[k]:
            cpus.append(dict(id=i, online=True, isolated=False, pkg=c['pkg'], die=c['die'], cluster=c['cluster'],
                             core=core_in_die[key], threads=list(ids[k]), node=c['node'], kind=c['kind'],
                             basefreq=0, minfreq=0, maxfreq=0, epp='', caches=[], _k=k))
    cpus.sort(key=lambda c: c['id'])
    by = lambda f: {}
    l2m, l3m, diem = {}, {}, {}
    for c in cpus:
        k = cores[c['_k']]
        l2m.setdefault(k['l2'], []).append(c['id'])
        l3m.setdefault(k['l3'], []).append(c['id'])
    for c in cpus:
        k = cores[c['_k']]
        c['caches'] = [dict(level=1, type='Data', id=c['_k'], cpus=sorted(c['threads']), size='32K'),
                       dict(level=1, type='Instruction', id=c['_k'], cpus=sorted(c['threads']), size='32K'),
                       dict(level=2, type='Unified', id=k['l2'], cpus=sorted(l2m[k['l2']]), size='1024K'),
                       dict(level=3, type='Unified', id=k['l3'], cpus=sorted(l3m[k['l3']]), size='16384K')]
    for c in cpus:
        del c['_k']
        if c['id'] in offline:
            c['online'] = False
        if c['id'] in isolated:
            c['isolated'] = True
        if epp and c['id'] in epp:
            c['epp'] = epp[c['id']]
        if freq and c['id'] in freq:
            c['basefreq'], c['minfreq'], c['maxfreq'] = freq[c['id']], 800000, 3500000
    off = {c['id'] for c in cpus if not c['online']}
    for c in cpus:
        c['threads'] = [t for t in c['threads'] if t not in off] if c['online'] else []
        for ca in c['caches']:
            ca['cpus'] = [t for t in ca['cpus'] if t not in off]
    nnodes = packages * dies * nodes_per_die
    nodes = []
    for n in range(nnodes):
        row = []
        for m in range(nnodes):
            if n == m:
                row.append(10)
            elif n // nodes_per_die == m // nodes_per_die:
                row.append(12)
            elif n // (nodes_per_die * dies) == m // (nodes_per_die * dies):
                row.append(16)
            else:
                row.append(21)
        nodes.append(dict(id=n, cpus=sorted(c['id'] for c in cpus if c['node'] == n and c['online']), distance=row,
                          memtotal=4096 * 1024, memfree=3072 * 1024, normal=True, has_memory=True))
    return dict(name=name, cpus=cpus, nodes=nodes, hybrid=any(c['kind'] == 'E' for c in cpus))


def with_classes(m, rng, mode):
    """decorate a machine with cpufreq / EPP values that create priority classes"""
    ids = [c['id'] for c in m['cpus']]
    cores = {}
    for c in m['cpus']:
        cores.setdefault((c['pkg'], c['die'], c['core']), []).append(c)
    for key, cs in cores.items():
        if mode in ('freq', 'both'):
            f = rng.choice([2000000, 2000000, 2400000, 2800000])
            for c in cs:
                c['basefreq'], c['minfreq'], c['maxfreq'] = f, 800000, 3500000
        if mode in ('epp', 'both'):
            e = rng.choice(['performance', 'balance_performance', 'balance_power', 'power', ''])
            for c in cs:
                c['epp'] = e
    m['name'] += '-' + mode
    return m


def random_machine(rng, k, max_cpus=64):
    while True:
        hybrid = rng.random() < 0.35
        p = rng.choice([1, 1, 2, 2, 3, 4])
        d = rng.choice([1, 1, 2])
        n = rng.choice([1, 1, 2])
        ccx = rng.choice([1, 1, 2, 3])
        cpc = rng.choice([1, 2, 2, 3, 4])
        th = rng.choice([1, 2, 2])
        ecl = rng.choice([1, 2, 3]) if hybrid else 0
        l2s = rng.choice([1, 1, 2]) if cpc % 2 == 0 else 1
        total = p * d * n * (ccx * cpc * th + ecl * 4)
        if 2 <= total <= max_cpus:
            break
    il = rng.random() < 0.3 and not hybrid
    m = custom('r%d-%dp%dd%dn%dx%dc%dt%de' % (k, p, d, n, ccx, cpc, th, ecl), p, d, n, ccx, cpc, th, l2_share=l2s,
               ecl_per_node=ecl, interleaved=il)
    ids = [c['id'] for c in m['cpus']]
    off, iso = (), ()
    if rng.random() < 0.4:
        off = tuple(rng.sample(ids[1:], min(len(ids) - 1, rng.randint(1, 3))))
    if rng.random() < 0.3:
        iso = tuple(rng.sample(ids, min(len(ids), rng.randint(1, 2))))
    if off or iso:
        m = custom(m['name'] + ('-off' if off else '') + ('-iso' if iso else ''), p, d, n, ccx, cpc, th, l2_share=l2s,
                   ecl_per_node=ecl, interleaved=il, offline=off, isolated=iso)
    r = rng.random()
    if r < 0.3:
        m = with_classes(m, rng, 'freq')
    elif r < 0.55:
        m = with_classes(m, rng, 'epp')
    elif r < 0.65:
        m = with_classes(m, rng, 'both')
    return m


REPO_TARBALL = 'pkg/cpuallocator/testdata/sysfs.tar.bz2:sysfs/2-socket-4-node-40-core/sys'


def fixed_machines(rng):
    """the structured part of the family (every stage of the chooser is reachable on at least one)"""
    r = random.Random(7)
    ms = [
        custom('hyb-1p-4P2t-2E4', 1, 1, 1, 1, 4, 2, ecl_per_node=2),                       # Alder-Lake-like
        with_classes(custom('ccx-2p-2x3c2t', 2, 1, 1, 2, 3, 2), r, 'both'),                   # 2 sockets, 2 L3 groups each
        custom('hyb-2p-2n-2x2c2t-2E4-off', 2, 1, 2, 2, 2, 2, ecl_per_node=2, offline=(5, 30)),
        custom('l2s-1p-2d-4c2t', 1, 2, 1, 1, 4, 2, l2_share=2, interleaved=True),
        with_classes(custom('ccx-1p-3x2c2t', 1, 1, 1, 3, 2, 2), r, 'freq'),
        custom('small-1p-2x2c1t', 1, 1, 1, 2, 2, 1),                                            # 4 CPUs
        custom('small-2p-3c2t', 2, 1, 1, 1, 3, 2, offline=(4,)),                                  # 12 CPUs
        custom('hyb-small-2P2t-2E4', 1, 1, 1, 1, 2, 2, ecl_per_node=2),                          # 12 CPUs
        with_classes(custom('small-2p-2x1c2t', 2, 1, 1, 2, 1, 2), r, 'epp'),                   # 8 CPUs
        custom('ccx-4p-2x2c2t', 4, 1, 1, 2, 2, 2),
    ]
    return ms + machines.zoo()


# ---------------------------------------------------------------- cases

def subsets_for(topo, rng, n_random):
    """structured and random candidate sets (subsets of the online CPUs of the dumped topology)"""
    online = sorted(topo['online'])
    on = set(online)
    pk = [sorted(set(p['cpus']) & on) for p in topo['pkg']]
    cores = {}
    for c in topo['core']:
        s = tuple(sorted(set(c['cpus']) & on))
        if s:
            cores[s] = 1
    cores = [list(s) for s in cores]
    groups = [sorted(set(g['cpus']) & on) for g in topo['groups']]
    clusters = [sorted(set(g['cpus']) & on) for g in topo['clusters']]
    out = []

    def add(tag, s):
        s = sorted(set(s) & on)
        out.append((tag, s))
    add('all', online)
    for i, p in enumerate(pk):
        add('pkg', p)
        add('all-but-pkg', on - set(p))
        if p:
            c = rng.choice([c for c in cores if c[0] in p] or [[p[0]]])
            add('pkg-minus-core', set(p) - set(c))
            add('all-minus-core', on - set(c))
            add('pkg-minus-thread', set(p) - {rng.choice(p)})
    # one thread of every core
    add('single-threads', [c[0] for c in cores])
    add('second-threads', [c[-1] for c in cores])
    if groups:
        # fragmented cache groups: drop one or more CPUs of some groups
        for _ in range(4):
            s = set(online)
            for g in groups:
                r = rng.random()
                if r < 0.4 and g:
                    s -= set(rng.sample(g, rng.randint(1, max(1, len(g) - 1))))
                elif r < 0.5:
                    s -= set(g)
            add('fragmented-groups', s)
        add('one-group', groups[0])
        add('two-groups', groups[0] + groups[-1])
        gg = set()
        for g in groups:
            gg |= set(g)
        add('groups-only', gg)
        add('no-groups', on - gg)
        for _ in range(2):
            s = set()
            for g in groups:
                if g:
                    s |= set(rng.sample(g, rng.randint(0, len(g))))
            add('group-pieces', s)
    if clusters:
        for _ in range(2):
            s = set(online)
            for c in clusters:
                r = rng.random()
                if r < 0.3 and c:
                    s -= {rng.choice(c)}
                elif r < 0.45:
                    s -= set(c)
            add('fragmented-clusters', s)
        add('one-cluster', clusters[-1])
    for k in range(n_random):
        dens = rng.choice([0.15, 0.3, 0.5, 0.7, 0.85, 0.95])
        add('random', [c for c in online if rng.random() < dens])
    for k in range(max(2, n_random // 3)):
        # random unions of whole cores
        s = set()
        for c in cores:
            if rng.random() < 0.5:
                s |= set(c)
        add('random-cores', s)
    return out


PREFS = [0, 1, 2, 3]


def cases_for(topo, rng, budget, exhaustive=False):
    """list of case dicts; counts 0..|from|+1 for every chosen subset, priorities x flag masks sampled so
    that every (priority, flag mask) pair occurs"""
    cases = []
    online = sorted(topo['online'])
    if exhaustive:
        subs = []
        n = len(online)
        for mask in range(1 << n):
            subs.append(('exhaustive', [online[i] for i in range(n) if mask >> i & 1]))
    else:
        subs = subsets_for(topo, rng, n_random=max(4, budget // 40))
    combos = [(p, f) for p in PREFS for f in range(16)]
    rng.shuffle(combos)
    ci = 0
    per_subset = max(1, budget // max(1, len(subs)))
    for tag, s in subs:
        cnts = list(range(0, len(s) + 2))
        if exhaustive:
            # every count, one (priority, flags) combination each (cycled), default flags more often
            chosen = cnts
        elif len(cnts) > per_subset:
            must = {0, 1, 2, len(s) - 1, len(s), len(s) + 1} & set(cnts)
            rest = [c for c in cnts if c not in must]
            chosen = sorted(must | set(rng.sample(rest, max(0, min(len(rest), per_subset - len(must))))))
        else:
            chosen = cnts
        for c in chosen:
            r = rng.random()
            if r < 0.25:
                p, f = rng.choice(PREFS), -1        # default flags, as the policies call it
            elif r < 0.3:
                p, f = -1, -1                       # no options at all
            else:
                p, f = combos[ci % len(combos)]
                ci += 1
            cases.append(dict(id=len(cases), op='alloc', tag=tag, **{'from': s}, cnt=c, prefer=p, flags=f))
            if rng.random() < (0.1 if exhaustive else 0.25) and c <= len(s):
                cases.append(dict(id=len(cases), op='release', tag=tag, **{'from': s}, cnt=c, prefer=p, flags=f))
    # outside the property's domain (the candidate set contains offline CPUs): used only to replay the
    # C08_alloc_offline_refuted witness shape against the implementation and to compare with the model
    off = sorted(topo['offline'])
    if off and not exhaustive:
        for k in range(6):
            s = sorted(set(rng.sample(online, min(len(online), rng.randint(1, 4)))) | set(rng.sample(off, rng.randint(1, len(off)))))
            for c in range(0, len(s) + 2):
                cases.append(dict(id=len(cases), op='alloc', tag='ood-offline', **{'from': s}, cnt=c, prefer=rng.choice(PREFS), flags=-1))
    return cases
